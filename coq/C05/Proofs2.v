(* C05 — lemmas of the deepening round: correct_atomic_balance with the linear solve as an oracle,
   the error thresholds of the two bases, the state left behind by an exception on another package,
   nested reaction systems, force_reaction and conversion. *)
From V Require Import Common.NumFacts C05.Model C05.Proofs.

(* ====================================================================================== *)
(* finite sums over index lists *)
Definition sumf (g : nat -> Q) (l : list nat) : Q := qsum (map g l).

Lemma sumf_cons g a l : sumf g (a :: l) = g a + sumf g l.
Proof. reflexivity. Qed.

Lemma sumf_app g l1 l2 : sumf g (l1 ++ l2) == sumf g l1 + sumf g l2.
Proof.
  induction l1 as [|a l1 IH]; simpl.
  - unfold sumf at 2. simpl. lra.
  - rewrite !sumf_cons, IH. lra.
Qed.

Lemma sumf_ext g h l : (forall j, In j l -> g j == h j) -> sumf g l == sumf h l.
Proof.
  induction l as [|a l IH]; intros H; [reflexivity|].
  rewrite !sumf_cons. rewrite IH by (intros j Hj; apply H; simpl; auto).
  rewrite (H a) by (simpl; auto). reflexivity.
Qed.

Lemma sumf_plus g h l : sumf (fun j => g j + h j) l == sumf g l + sumf h l.
Proof.
  induction l as [|a l IH]; [unfold sumf; simpl; lra|]. rewrite !sumf_cons, IH. lra.
Qed.

Lemma sumf_zero g l : (forall j, In j l -> g j == 0) -> sumf g l == 0.
Proof.
  induction l as [|a l IH]; intros H; [reflexivity|].
  rewrite sumf_cons. rewrite IH by (intros j Hj; apply H; simpl; auto).
  rewrite (H a) by (simpl; auto). lra.
Qed.

Lemma sumf_filter g p l : sumf g (filter p l) == sumf (fun j => if p j then g j else 0) l.
Proof.
  induction l as [|a l IH]; [reflexivity|]. simpl filter. rewrite sumf_cons.
  destruct (p a); [rewrite sumf_cons, IH; lra | rewrite IH; lra].
Qed.

Lemma sumf_split g p l : sumf g l == sumf g (filter p l) + sumf g (filter (fun j => negb (p j)) l).
Proof.
  induction l as [|a l IH]; [unfold sumf; simpl; lra|]. simpl filter. rewrite sumf_cons.
  destruct (p a); simpl negb; cbv iota; rewrite !sumf_cons || idtac; rewrite IH; try rewrite sumf_cons; lra.
Qed.

Lemma sumf_map_S g l : sumf g (map S l) = sumf (fun j => g (S j)) l.
Proof. unfold sumf. rewrite map_map. reflexivity. Qed.

Lemma vdot_seq : forall v F, vdot F v == sumf (fun j => nthq F j * nthq v j) (seq 0 (length v)).
Proof.
  induction v as [|x v IH]; intros F.
  - rewrite vdot_nil_r. reflexivity.
  - simpl length. simpl seq. rewrite <- seq_shift, sumf_cons, sumf_map_S.
    destruct F as [|f F].
    + rewrite vdot_nil_l. rewrite sumf_zero; [rewrite nthq_nil; lra|]. intros j _. rewrite nthq_nil. lra.
    + rewrite vdot_cons, (IH F). unfold nthq at 3 4. simpl nth.
      assert (E : sumf (fun j => nthq (f :: F) (S j) * nthq (x :: v) (S j)) (seq 0 (length v))
                  == sumf (fun j => nthq F j * nthq v j) (seq 0 (length v))).
      { apply sumf_ext. intros j _. rewrite !nthq_cons_S. reflexivity. }
      rewrite E. lra.
Qed.

Lemma sumf_single g c n :
  sumf (fun j => if Nat.eqb j c then g j else 0) (seq 0 n) == if Nat.ltb c n then g c else 0.
Proof.
  induction n as [|n IH]; [reflexivity|].
  rewrite seq_S, sumf_app, IH. simpl plus. unfold sumf at 1. simpl.
  destruct (Nat.eqb n c) eqn:E.
  - apply Nat.eqb_eq in E. subst c.
    assert (L1 : Nat.ltb n n = false) by (apply Nat.ltb_ge; lia).
    assert (L2 : Nat.ltb n (S n) = true) by (apply Nat.ltb_lt; lia).
    rewrite L1, L2. lra.
  - apply Nat.eqb_neq in E.
    destruct (Nat.ltb c n) eqn:L.
    + apply Nat.ltb_lt in L. assert (L2 : Nat.ltb c (S n) = true) by (apply Nat.ltb_lt; lia). rewrite L2. lra.
    + apply Nat.ltb_ge in L. assert (L2 : Nat.ltb c (S n) = false) by (apply Nat.ltb_ge; lia). rewrite L2. lra.
Qed.

Lemma mem_nat_In j l : mem_nat j l = true <-> In j l.
Proof.
  unfold mem_nat. rewrite existsb_exists. split.
  - intros (x & Hx & E). apply Nat.eqb_eq in E. subst. auto.
  - intros H. exists j. split; auto. apply Nat.eqb_refl.
Qed.

Lemma sumf_mem g l n : NoDup l -> (forall c, (n <= c)%nat -> g c == 0) ->
  sumf (fun j => if mem_nat j l then g j else 0) (seq 0 n) == sumf g l.
Proof.
  intros ND Z. induction ND as [|c l Hc ND IH].
  - simpl. apply sumf_zero. intros j _. reflexivity.
  - rewrite sumf_cons, <- IH.
    assert (E : sumf (fun j => if mem_nat j (c :: l) then g j else 0) (seq 0 n)
                == sumf (fun j => (if Nat.eqb j c then g j else 0) + (if mem_nat j l then g j else 0)) (seq 0 n)).
    { apply sumf_ext. intros j _. unfold mem_nat at 1. simpl existsb. fold (mem_nat j l).
      destruct (Nat.eqb j c) eqn:E; simpl orb.
      - apply Nat.eqb_eq in E. subst j.
        destruct (mem_nat c l) eqn:M; [apply mem_nat_In in M; contradiction|]. lra.
      - lra. }
    rewrite E, sumf_plus, sumf_single.
    destruct (Nat.ltb c n) eqn:L; [lra|]. apply Nat.ltb_ge in L. rewrite (Z c L). lra.
Qed.

(* ====================================================================================== *)
(* scatter: by_mol[chemical_index] = x *)
Lemma scatter_dot F : forall U x v, NoDup U -> (forall i, In i U -> (i < length v)%nat) ->
  length x = length U ->
  length (scatter v U x) = length v /\
  vdot F (scatter v U x) == vdot F v + vdot (map (nthq F) U) x - sumf (fun j => nthq F j * nthq v j) U.
Proof.
  induction U as [|i U IH]; intros x v ND B L.
  - simpl. split; auto. rewrite vdot_nil_l. unfold sumf. simpl. lra.
  - destruct x as [|y x]; [simpl in L; discriminate|]. simpl in L. simpl scatter.
    inversion ND as [|? ? Hi ND']; subst.
    destruct (IH x (upd v i y) ND') as (Ls & D).
    { intros j Hj. rewrite upd_length. apply B. simpl; auto. }
    { lia. }
    rewrite upd_length in Ls. split; auto.
    rewrite D. simpl map. rewrite vdot_cons, sumf_cons.
    rewrite upd_dot by (apply B; simpl; auto).
    assert (E : sumf (fun j => nthq F j * nthq (upd v i y) j) U == sumf (fun j => nthq F j * nthq v j) U).
    { apply sumf_ext. intros j Hj. rewrite nth_upd_other; [reflexivity|]. intros ->. contradiction. }
    rewrite E. ring.
Qed.

Lemma nthq_vmul_gen : forall a b i, nthq (vmul a b) i == nthq a i * nthq b i.
Proof.
  induction a as [|x a IH]; intros b i.
  - simpl. rewrite !nthq_nil. ring.
  - destruct b as [|y b]; [simpl; rewrite !nthq_nil; ring|].
    destruct i as [|i]; [unfold nthq; simpl; reflexivity|].
    unfold vmul. simpl map2. rewrite !nthq_cons_S. apply IH.
Qed.

Lemma any_nonzero_false v : any_nonzero v = false -> forall i, nthq v i == 0.
Proof.
  unfold any_nonzero. induction v as [|x v IH]; intros H i; [rewrite nthq_nil; lra|].
  simpl in H. apply Bool.orb_false_iff in H. destruct H as (Hx & Hv).
  destruct i as [|i]; [|rewrite nthq_cons_S; auto].
  unfold nthq; simpl. apply Bool.negb_false_iff in Hx. apply qzerob_true in Hx. exact Hx.
Qed.

Lemma vdot_zero_l : forall a x, Forall (fun y => y == 0) a -> vdot a x == 0.
Proof.
  induction a as [|y a IH]; intros x H; [rewrite vdot_nil_l; lra|].
  destruct x as [|z x]; [rewrite vdot_nil_r; lra|]. inversion H; subst.
  rewrite vdot_cons, IH by auto. rewrite H2. ring.
Qed.

Lemma nthq_overflow (v : vec) c : (length v <= c)%nat -> nthq v c = 0.
Proof. intros H. unfold nthq. apply nth_overflow. exact H. Qed.

(* one row of the formula array after the unknown coefficients have been replaced by a solution of
   that row's equation (rows that the code drops hold only zeros against the stoichiometry) *)
Lemma cab_row_balanced F v0 cs x :
  NoDup cs -> length x = length (cab_unknown v0 cs) ->
  (any_nonzero (vmul F v0) = true ->
   vdot (map (nthq F) (cab_unknown v0 cs)) x == - qsum (map (fun c => nthq F c * nthq v0 c) cs)) ->
  length (scatter v0 (cab_unknown v0 cs) x) = length v0 /\
  vdot F (scatter v0 (cab_unknown v0 cs) x) == 0.
Proof.
  intros ND L Eq.
  set (p := fun j => negb (qzerob (nthq v0 j)) && negb (mem_nat j cs)).
  set (U := cab_unknown v0 cs) in *.
  assert (HU : U = filter p (seq 0 (length v0))) by reflexivity.
  assert (NDU : NoDup U) by (rewrite HU; apply NoDup_filter, seq_NoDup).
  assert (BU : forall i, In i U -> (i < length v0)%nat).
  { intros i Hi. rewrite HU in Hi. apply filter_In in Hi. destruct Hi as (Hi & _). apply in_seq in Hi. lia. }
  destruct (scatter_dot F U x v0 NDU BU L) as (Ls & D). split; auto.
  set (g := fun j => nthq F j * nthq v0 j) in *.
  assert (S1 : vdot F v0 == sumf g U + sumf g cs).
  { rewrite vdot_seq. fold g. rewrite (sumf_split g p), <- HU.
    rewrite sumf_filter.
    assert (E : sumf (fun j => if negb (p j) then g j else 0) (seq 0 (length v0))
                == sumf (fun j => if mem_nat j cs then g j else 0) (seq 0 (length v0))).
    { apply sumf_ext. intros j _. unfold p.
      destruct (qzerob (nthq v0 j)) eqn:Z; destruct (mem_nat j cs); simpl; try lra.
      apply qzerob_true in Z. unfold g. rewrite Z. ring. }
    rewrite E, sumf_mem; auto; [lra|].
    intros c Hc. unfold g. rewrite (nthq_overflow v0 c Hc). ring. }
  rewrite D. fold g. rewrite S1.
  destruct (any_nonzero (vmul F v0)) eqn:AN.
  - rewrite (Eq eq_refl). unfold sumf. fold g. lra.
  - assert (Zg : forall j, g j == 0).
    { intros j. unfold g. rewrite <- nthq_vmul_gen. apply any_nonzero_false. exact AN. }
    rewrite (sumf_zero g cs) by (intros; apply Zg).
    rewrite vdot_zero_l; [lra|].
    apply Forall_forall. intros y Hy. apply in_map_iff in Hy. destruct Hy as (j & <- & Hj).
    rewrite HU in Hj. apply filter_In in Hj. destruct Hj as (_ & Pj). unfold p in Pj.
    apply Bool.andb_true_iff in Pj. destruct Pj as (Nz & _). apply Bool.negb_true_iff in Nz.
    apply qzerob_false in Nz. specialize (Zg j). unfold g in Zg.
    destruct (Qeq_dec (nthq F j) 0) as [E0|N0]; auto. exfalso. apply Nz.
    assert (H : nthq v0 j == (nthq F j * nthq v0 j) / nthq F j) by (field; exact N0).
    rewrite H, Zg. field. exact N0.
Qed.

(* the contract of the linear solver: what it returns satisfies every equation it was given *)
Definition solves (A : list vec) (b x : vec) : Prop := Forall2 (fun row bi => vdot row x == bi) A b.
Definition solver_contract (solver : list vec -> vec -> option vec) : Prop :=
  forall A b x, solver A b = Some x -> solves A b x.

Lemma Forall2_map_same {T} (R : vec -> Q -> Prop) (f : T -> vec) (h : T -> Q) (l : list T) :
  Forall2 R (map f l) (map h l) -> forall a, In a l -> R (f a) (h a).
Proof.
  induction l as [|y l IH]; intros H a Ha; [contradiction|].
  simpl in H. inversion H; subst. destruct Ha as [->|Ha]; auto.
Qed.

Lemma cab_solve_balanced solver n formula mws r consts v :
  solver_contract solver -> NoDup (cab_consts n r consts) ->
  cab_solve solver n formula mws r consts = Ok v ->
  length v = length (cab_by_mol n mws r) /\ Forall (fun F => vdot F v == 0) formula.
Proof.
  intros SC ND. unfold cab_solve.
  set (v0 := cab_by_mol n mws r). set (cs := cab_consts n r consts) in *.
  destruct (solver _ _) as [x|] eqn:S; [|discriminate].
  destruct (Nat.eqb (length x) (length (cab_unknown v0 cs))) eqn:L; [|discriminate].
  apply Nat.eqb_eq in L. intros H; inversion H; subst v; clear H.
  apply SC in S. unfold solves, cab_A, cab_b in S.
  split.
  - destruct (cab_row_balanced [] v0 cs x ND L) as (Ls & _); auto.
    intros AN. simpl in AN. discriminate AN.
  - apply Forall_forall. intros F HF.
    destruct (cab_row_balanced F v0 cs x ND L) as (_ & D); auto.
    intros AN.
    assert (HR : In F (cab_rows formula v0)) by (unfold cab_rows; apply filter_In; auto).
    exact (Forall2_map_same (fun row bi => vdot row x == bi)
             (fun F => map (nthq F) (cab_unknown v0 cs))
             (fun F => - qsum (map (fun c => nthq F c * nthq v0 c) cs)) _ S F HR).
Qed.

(* ---------- the corrected reaction is balanced: phase-less reactions ---------- *)
Lemma vdot_ext_r : forall (a u v : vec), length u = length v -> (forall i, nthq u i == nthq v i) ->
  vdot a u == vdot a v.
Proof.
  induction a as [|x a IH]; intros u v L H; [rewrite !vdot_nil_l; lra|].
  destruct u as [|y u]; destruct v as [|z v]; simpl in L; try discriminate; [rewrite !vdot_nil_r; lra|].
  rewrite !vdot_cons. rewrite (IH u v) by (auto; intros i; exact (H (S i))).
  assert (H0 := H O). unfold nthq in H0; simpl in H0. rewrite H0. lra.
Qed.

Lemma vdot_vdivs a s k : ~ k == 0 -> vdot a (vdivs s k) == vdot a s / k.
Proof.
  intros Hk. revert a. induction s as [|x s IH]; intros a.
  - simpl. rewrite !vdot_nil_r. field. exact Hk.
  - destruct a as [|y a]; [rewrite !vdot_nil_l; field; exact Hk|].
    simpl vdivs. rewrite !vdot_cons, IH. field. exact Hk.
Qed.

Lemma cab_fill_length n pt v : forall old k, length (cab_fill n pt v old k) = length old.
Proof. induction old as [|x t IH]; intros k; simpl; auto. Qed.

Lemma cab_fill_nth n pt v : forall old k i, (i < length old)%nat ->
  nthq (cab_fill n pt v old k) i = if pt && qzerob (nthq old i) then 0 else nthq v (Nat.modulo (k + i) n).
Proof.
  induction old as [|x t IH]; intros k i L; simpl in L; [lia|].
  destruct i as [|i]; simpl cab_fill.
  - unfold nthq at 1 2. simpl nth. rewrite Nat.add_0_r. reflexivity.
  - rewrite !nthq_cons_S. rewrite IH by lia. replace (S k + i)%nat with (k + S i)%nat by lia. reflexivity.
Qed.

Lemma rescale_balanced a r r' : rescale r = Ok r' -> balanced a r -> balanced a r'.
Proof.
  unfold rescale, balanced. destruct (qzerob _) eqn:Z; [discriminate|]. intros H; inversion H; subst; clear H.
  simpl. intros B. apply qzerob_false in Z. rewrite vdot_vdivs by exact Z. rewrite B. field. intros E. apply Z. rewrite E. ring.
Qed.

(* formula rows as the reaction's basis sees them: per mass on a weight basis *)
Definition row_weights (wtb : bool) (w F : vec) : vec := if wtb then map2 Qdiv F w else F.

Lemma cab_apply_balanced_phaseless solver n formula mws r consts r' :
  solver_contract solver -> NoDup (cab_consts n r consts) ->
  phases r = [] -> length (st r) = n -> length mws = n -> Forall (fun x => ~ x == 0) mws ->
  cab_apply solver n formula mws r consts = Ok r' ->
  Forall (fun F => balanced (row_weights (wt r) mws F) r') formula.
Proof.
  intros SC ND Ph Ls Lw NZ. unfold cab_apply.
  destruct (cab_solve solver n formula mws r consts) as [v|e] eqn:S; simpl; [|discriminate].
  destruct (cab_solve_balanced _ _ _ _ _ _ _ SC ND S) as (Lv & Bv).
  rewrite Ph. simpl negb. intros R.
  assert (Lv' : length v = n).
  { rewrite Lv. unfold cab_by_mol. rewrite Ph. destruct (wt r); [rewrite map2_length; lia | lia]. }
  apply Forall_forall. intros F HF. rewrite Forall_forall in Bv. specialize (Bv F HF).
  apply (rescale_balanced _ _ _ R). unfold balanced. simpl st.
  set (v' := if wt r then vmul v mws else v) in *.
  assert (Lv'' : length v' = n).
  { unfold v'. destruct (wt r); auto. rewrite vmul_length; lia. }
  assert (E : vdot (row_weights (wt r) mws F) (cab_fill n false v' (st r) 0)
              == vdot (row_weights (wt r) mws F) v').
  { apply vdot_ext_r; [rewrite cab_fill_length; lia|].
    intros i. destruct (Nat.lt_ge_cases i n) as [Lt|Ge].
    - rewrite cab_fill_nth by lia. simpl andb. cbv iota. simpl plus. rewrite Nat.mod_small by lia. reflexivity.
    - rewrite !nthq_overflow; [lra | lia | rewrite cab_fill_length; lia]. }
  rewrite E. unfold row_weights, v'. destruct (wt r); auto.
  assert (D := vdot_div_mass F v mws). unfold to_mass in D. rewrite D; auto. lia.
Qed.
