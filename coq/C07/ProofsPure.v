(* C07 -- lemmas about pure-component H and S of the generated model over R (Coquelicot). *)
From Coq Require Import Reals Qreals Lra.
From Coquelicot Require Import Coquelicot.
From V Require Import Common.Num C07.Model C07.Gen_FreeEnergy C07.Gen_InitEnergies C07.InstR.
Open Scope R_scope.

Lemma is0R_false x : x <> 0 -> is0R x = false.
Proof. intros H. unfold is0R. destruct (Req_EM_T x 0); [contradiction | reflexivity]. Qed.
Lemma posR_true x : 0 < x -> posR x = true.
Proof. intros H. unfold posR. destruct (Rlt_dec 0 x); [reflexivity | contradiction]. Qed.

Ltac eval_model :=
  repeat (cbv -[Rplus Rminus Rmult Rdiv Ropp Rinv RInt ln is0R posR Q2R II JJ];
          match goal with
          | H : is0R ?x = false |- context [is0R ?x] => rewrite H
          | H : posR ?x = true |- context [posR ?x] => rewrite H
          end).

Section Pure.
  Variable Cn : phase -> R -> R.
  Variable Rg : R.
  Variable Hv : R -> R.
  Variables T_ref P_ref H_ref S0 Hfus Sfus Tm Tb : R.

  Notation Hm := (Hm Cn Rg Hv T_ref P_ref H_ref S0 Hfus Sfus Tm Tb).
  Notation Sm := (Sm Cn Rg Hv T_ref P_ref H_ref S0 Hfus Sfus Tm Tb).
  Notation Hx := (Hx Cn Hv T_ref H_ref Hfus Tm Tb).
  Notation Sx := (Sx Cn Rg Hv T_ref P_ref S0 Sfus Tm Tb).

  Hypothesis Tm_nz : Tm <> 0.
  Hypothesis Tb_nz : Tb <> 0.
  Hypothesis Hv_nz : Hv Tb <> 0.

  (* the generated wiring and functors evaluate to the closed forms *)
  Lemma Hm_eval ref ph T P : Hm ref ph T P = Ok (Some (Hx ref ph T)).
  Proof.
    pose proof (is0R_false _ Tm_nz) as E1. pose proof (is0R_false _ Tb_nz) as E2.
    pose proof (is0R_false _ Hv_nz) as E3.
    destruct ref, ph; eval_model; reflexivity.
  Qed.
End Pure.
