(* C07 -- lemmas about pure-component H and S of the generated model over R (Coquelicot). *)
From V Require Import Common.Num C07.Model C07.Gen_FreeEnergy C07.Gen_InitEnergies C07.InstR.
From Coq Require Import Reals Qreals Lra.   (* after Common.Num: its Lqa would otherwise shadow lra *)
From Coquelicot Require Import Coquelicot.
Open Scope R_scope.

Lemma is0R_false x : x <> 0 -> is0R x = false.
Proof. intros H. unfold is0R. destruct (Req_EM_T x 0); [contradiction | reflexivity]. Qed.
Lemma is0R_true x : x = 0 -> is0R x = true.
Proof. intros H. unfold is0R. destruct (Req_EM_T x 0); [reflexivity | contradiction]. Qed.
Lemma posR_true x : 0 < x -> posR x = true.
Proof. intros H. unfold posR. destruct (Rlt_dec 0 x); [reflexivity | contradiction]. Qed.
Lemma posR_false x : ~ 0 < x -> posR x = false.
Proof. intros H. unfold posR. destruct (Rlt_dec 0 x); [contradiction | reflexivity]. Qed.

Ltac eval_model :=
  repeat (cbv -[Rplus Rminus Rmult Rdiv Ropp Rinv RInt ln is0R posR ltR Q2R II JJ];
          match goal with
          | H : is0R ?x = false |- context [is0R ?x] => rewrite H
          | H : posR ?x = true |- context [posR ?x] => rewrite H
          end).

(* value of a Python expression that returned a float *)
Definition val (r : pyv R) : R := match r with Ok (Some v) => v | _ => 0 end.

Section Pure.
  Variable Cn : phase -> R -> R.
  Variable Rg : R.
  Variable Hv : R -> R.
  Variables T_ref P_ref H_ref S0 Hfus Sfus Tm Tb : R.

  Notation Hm := (Hm Cn Rg Hv T_ref P_ref H_ref S0 Hfus Sfus Tm Tb).
  Notation Sm := (Sm Cn Rg Hv T_ref P_ref H_ref S0 Hfus Sfus Tm Tb).
  Notation Hlocked := (Hlocked Cn Rg Hv T_ref P_ref H_ref S0 Hfus Sfus Tm Tb).
  Notation Slocked := (Slocked Cn Rg Hv T_ref P_ref H_ref S0 Hfus Sfus Tm Tb).
  Notation Hx := (Hx Cn Hv T_ref H_ref Hfus Tm Tb).
  Notation Sx := (Sx Cn Rg Hv T_ref P_ref S0 Sfus Tm Tb).
  Notation II := (II Cn).
  Notation JJ := (JJ Cn).

  (* ------------------------------------------------------------------ evaluation of the generated code *)
  Section Eval.
    Hypothesis Tm_nz : Tm <> 0.
    Hypothesis Tb_nz : Tb <> 0.
    Hypothesis Hv_nz : Hv Tb <> 0.

    Lemma Hm_eval ref ph T P : Hm ref ph T P = Ok (Some (Hx ref ph T)).
    Proof.
      pose proof (is0R_false _ Tm_nz) as E1. pose proof (is0R_false _ Tb_nz) as E2.
      pose proof (is0R_false _ Hv_nz) as E3.
      destruct ref, ph; eval_model; reflexivity.
    Qed.

    Lemma Sm_eval_condensed ref ph T P : ph <> Pg -> Sm ref ph T P = Ok (Some (Sx ref ph T P)).
    Proof.
      intros NG.
      pose proof (is0R_false _ Tm_nz) as E1. pose proof (is0R_false _ Tb_nz) as E2.
      pose proof (is0R_false _ Hv_nz) as E3.
      destruct ref, ph; try (exfalso; apply NG; reflexivity); eval_model; reflexivity.
    Qed.

    Lemma Sm_eval ref ph T P : P_ref <> 0 -> 0 < P / P_ref -> Sm ref ph T P = Ok (Some (Sx ref ph T P)).
    Proof.
      intros Pr Pp.
      pose proof (is0R_false _ Tm_nz) as E1. pose proof (is0R_false _ Tb_nz) as E2.
      pose proof (is0R_false _ Hv_nz) as E3. pose proof (is0R_false _ Pr) as E4.
      pose proof (posR_true _ Pp) as E5.
      destruct ref, ph; eval_model; reflexivity.
    Qed.

    (* log of a non-positive pressure ratio: ValueError; P_ref = 0: ZeroDivisionError *)
    Lemma Sm_gas_domain_error ref T P : P_ref <> 0 -> ~ 0 < P / P_ref -> Sm ref Pg T P = Err EValue.
    Proof.
      intros Pr Pp.
      pose proof (is0R_false _ Tm_nz) as E1. pose proof (is0R_false _ Tb_nz) as E2.
      pose proof (is0R_false _ Hv_nz) as E3. pose proof (is0R_false _ Pr) as E4.
      pose proof (posR_false _ Pp) as E5.
      destruct ref; eval_model; rewrite E5; reflexivity.
    Qed.

    (* phase-locked chemicals: one functor, whatever the reference phase *)
    Lemma Hlocked_eval sp ref T P : Hlocked sp ref T P = Ok (Some (H_ref + II sp T_ref T)).
    Proof.
      pose proof (is0R_false _ Tm_nz) as E1. pose proof (is0R_false _ Tb_nz) as E2.
      pose proof (is0R_false _ Hv_nz) as E3.
      destruct sp, ref; eval_model; reflexivity.
    Qed.
    Lemma Slocked_eval sp ref T P : P_ref <> 0 -> 0 < P / P_ref ->
      Slocked sp ref T P =
      Ok (Some (match sp with
                | Pg => S0 + JJ sp T_ref T - Rg * ln (P / P_ref)     (* `if single_phase == 'g'` *)
                | _ => S0 + JJ sp T_ref T
                end)).
    Proof.
      intros Pr Pp.
      pose proof (is0R_false _ Tm_nz) as E1. pose proof (is0R_false _ Tb_nz) as E2.
      pose proof (is0R_false _ Hv_nz) as E3. pose proof (is0R_false _ Pr) as E4.
      pose proof (posR_true _ Pp) as E5.
      destruct sp, ref; eval_model; reflexivity.
    Qed.
  End Eval.

  (* ------------------------------------------------------------------ real analysis on the closed forms *)
  Hypothesis Cn_cont : forall ph t, 0 < t -> continuous (Cn ph) t.

  Lemma cont_over_T ph t : 0 < t -> continuous (fun u => Cn ph u / u) t.
  Proof.
    intros Ht. apply (continuous_mult (Cn ph) (fun u => / u)).
    - apply Cn_cont; exact Ht.
    - apply continuous_Rinv. apply Rgt_not_eq. exact Ht.
  Qed.

  Lemma between_pos a b z : 0 < a -> 0 < b -> Rmin a b <= z <= Rmax a b -> 0 < z.
  Proof.
    intros Ha Hb [Hz _]. apply Rlt_le_trans with (2 := Hz). apply Rmin_glb_lt; assumption.
  Qed.

  Lemma ex_II ph a b : 0 < a -> 0 < b -> ex_RInt (Cn ph) a b.
  Proof.
    intros Ha Hb. apply (@ex_RInt_continuous R_CompleteNormedModule).
    intros z Hz. apply Cn_cont. exact (between_pos a b z Ha Hb Hz).
  Qed.
  Lemma ex_JJ ph a b : 0 < a -> 0 < b -> ex_RInt (fun t => Cn ph t / t) a b.
  Proof.
    intros Ha Hb. apply (@ex_RInt_continuous R_CompleteNormedModule).
    intros z Hz. apply cont_over_T. exact (between_pos a b z Ha Hb Hz).
  Qed.

  Lemma II_point ph a : II ph a a = 0.
  Proof. unfold InstR.II. rewrite (@RInt_point R_CompleteNormedModule). reflexivity. Qed.
  Lemma JJ_point ph a : JJ ph a a = 0.
  Proof. unfold InstR.JJ. rewrite (@RInt_point R_CompleteNormedModule). reflexivity. Qed.

  Lemma II_swap ph a b : 0 < a -> 0 < b -> II ph b a = - II ph a b.
  Proof.
    intros Ha Hb. unfold InstR.II.
    rewrite <- (@opp_RInt_swap R_CompleteNormedModule _ a b); [reflexivity | apply ex_II; assumption].
  Qed.
  Lemma JJ_swap ph a b : 0 < a -> 0 < b -> JJ ph b a = - JJ ph a b.
  Proof.
    intros Ha Hb. unfold InstR.JJ.
    rewrite <- (@opp_RInt_swap R_CompleteNormedModule _ a b); [reflexivity | apply ex_JJ; assumption].
  Qed.

  Lemma II_chasles ph a b c : 0 < a -> 0 < b -> 0 < c -> II ph a b + II ph b c = II ph a c.
  Proof.
    intros Ha Hb Hc. unfold InstR.II.
    apply (@RInt_Chasles R_CompleteNormedModule); apply ex_II; assumption.
  Qed.
  Lemma JJ_chasles ph a b c : 0 < a -> 0 < b -> 0 < c -> JJ ph a b + JJ ph b c = JJ ph a c.
  Proof.
    intros Ha Hb Hc. unfold InstR.JJ.
    apply (@RInt_Chasles R_CompleteNormedModule (fun t => Cn ph t / t)); apply ex_JJ; assumption.
  Qed.

  Lemma locally_pos (T : R) (Q : R -> Prop) : 0 < T -> (forall y, 0 < y -> Q y) -> locally T Q.
  Proof.
    intros HT HQ. assert (Hh : 0 < T / 2) by lra.
    exists (mkposreal _ Hh). intros y Hy. apply HQ.
    unfold ball in Hy; simpl in Hy. unfold AbsRing_ball, abs, minus, plus, opp in Hy; simpl in Hy.
    apply Rabs_def2 in Hy. destruct Hy as [_ Hy].
    assert (K : forall z : R, - (T / 2) < z + - T -> 0 < z) by (intros z Hz; lra).
    exact (K y Hy).
  Qed.

  Lemma derive_II ph a T : 0 < a -> 0 < T -> is_derive (fun t => II ph a t) T (Cn ph T).
  Proof.
    intros Ha HT. unfold InstR.II.
    apply (@is_derive_RInt R_CompleteNormedModule (Cn ph) (fun t => RInt (Cn ph) a t) a T).
    - apply locally_pos; [exact HT|]. intros y Hy.
      apply (@RInt_correct R_CompleteNormedModule). apply ex_II; assumption.
    - apply Cn_cont; exact HT.
  Qed.
  Lemma derive_JJ ph a T : 0 < a -> 0 < T -> is_derive (fun t => JJ ph a t) T (Cn ph T / T).
  Proof.
    intros Ha HT. unfold InstR.JJ.
    apply (@is_derive_RInt R_CompleteNormedModule (fun t => Cn ph t / t) (fun t => RInt (fun u => Cn ph u / u) a t) a T).
    - apply locally_pos; [exact HT|]. intros y Hy.
      apply (@RInt_correct R_CompleteNormedModule). apply ex_JJ; assumption.
    - apply cont_over_T; exact HT.
  Qed.

  Lemma is_derive_shift (c : R) (f : R -> R) (x l : R) :
    is_derive f x l -> is_derive (fun t => c + f t) x l.
  Proof.
    intros H. evar_last.
    - apply (@is_derive_plus R_AbsRing R_NormedModule (fun _ : R => c) f x zero l);
        [apply (@is_derive_const R_AbsRing R_NormedModule c x) | exact H].
    - apply (@plus_zero_l R_AbelianGroup).
  Qed.

  Lemma derive_form_I (F : R -> R) ph c a T :
    0 < a -> 0 < T -> (forall t, F t = c + II ph a t) -> is_derive F T (Cn ph T).
  Proof.
    intros Ha HT HF. apply is_derive_ext with (f := fun t => c + II ph a t).
    - intros t. symmetry. apply HF.
    - apply is_derive_shift. apply derive_II; assumption.
  Qed.
  Lemma derive_form_J (F : R -> R) ph c a T :
    0 < a -> 0 < T -> (forall t, F t = c + JJ ph a t) -> is_derive F T (Cn ph T / T).
  Proof.
    intros Ha HT HF. apply is_derive_ext with (f := fun t => c + JJ ph a t).
    - intros t. symmetry. apply HF.
    - apply is_derive_shift. apply derive_JJ; assumption.
  Qed.

  Hypothesis T_ref_pos : 0 < T_ref.
  Hypothesis Tm_pos : 0 < Tm.
  Hypothesis Tb_pos : 0 < Tb.

  (* reference values *)
  Lemma Hx_ref ref : Hx ref ref T_ref = H_ref.
  Proof. destruct ref; unfold InstR.Hx; rewrite II_point; ring. Qed.
  Lemma Sx_ref ref : 0 < P_ref -> Sx ref ref T_ref P_ref = S0.
  Proof.
    intros Pp. destruct ref; unfold InstR.Sx; rewrite JJ_point; try ring.
    replace (P_ref / P_ref) with 1 by (field; lra). rewrite ln_1. ring.
  Qed.

  (* temperature derivatives *)
  Lemma Hx_derive ref ph T : 0 < T -> is_derive (fun t => Hx ref ph t) T (Cn ph T).
  Proof.
    intros HT. destruct ref, ph; unfold InstR.Hx.
    - apply (derive_form_I _ Ps H_ref T_ref); auto; intros; ring.
    - apply (derive_form_I _ Pl (H_ref + II Ps T_ref Tm + Hfus) Tm); auto; intros; ring.
    - apply (derive_form_I _ Pg (H_ref + II Ps T_ref Tm + Hfus + II Pl Tm Tb + Hv Tb) Tb); auto; intros; ring.
    - apply (derive_form_I _ Ps (H_ref - II Pl Tm T_ref - Hfus) Tm); auto; intros; ring.
    - apply (derive_form_I _ Pl H_ref T_ref); auto; intros; ring.
    - apply (derive_form_I _ Pg (H_ref + II Pl T_ref Tb + Hv Tb) Tb); auto; intros; ring.
    - apply (derive_form_I _ Ps (H_ref - II Pg Tb T_ref - Hv Tb - II Pl Tm Tb - Hfus) Tm); auto; intros; ring.
    - apply (derive_form_I _ Pl (H_ref - II Pg Tb T_ref - Hv Tb) Tb); auto; intros; ring.
    - apply (derive_form_I _ Pg H_ref T_ref); auto; intros; ring.
  Qed.
  Lemma Sx_derive ref ph T P : 0 < T -> is_derive (fun t => Sx ref ph t P) T (Cn ph T / T).
  Proof.
    intros HT. destruct ref, ph; unfold InstR.Sx.
    - apply (derive_form_J _ Ps S0 T_ref); auto; intros; ring.
    - apply (derive_form_J _ Pl (S0 + JJ Ps T_ref Tm + Sfus) Tm); auto; intros; ring.
    - apply (derive_form_J _ Pg (S0 + JJ Ps T_ref Tm + Sfus + JJ Pl Tm Tb + Hv Tb / Tb - Rg * ln (P / P_ref)) Tb); auto; intros; ring.
    - apply (derive_form_J _ Ps (S0 - JJ Pl Tm T_ref - Sfus) Tm); auto; intros; ring.
    - apply (derive_form_J _ Pl S0 T_ref); auto; intros; ring.
    - apply (derive_form_J _ Pg (S0 + JJ Pl T_ref Tb + Hv Tb / Tb - Rg * ln (P / P_ref)) Tb); auto; intros; ring.
    - apply (derive_form_J _ Ps (S0 - JJ Pg Tb T_ref - Hv Tb / Tb - JJ Pl Tm Tb - Sfus) Tm); auto; intros; ring.
    - apply (derive_form_J _ Pl (S0 - JJ Pg Tb T_ref - Hv Tb / Tb) Tb); auto; intros; ring.
    - apply (derive_form_J _ Pg (S0 - Rg * ln (P / P_ref)) T_ref); auto; intros; ring.
  Qed.

  (* pressure dependence *)
  Lemma Sx_pressure_gas ref T P1 P2 : 0 < P_ref -> 0 < P1 -> 0 < P2 ->
    Sx ref Pg T P2 - Sx ref Pg T P1 = - Rg * ln (P2 / P1).
  Proof.
    intros Pr H1 H2. destruct ref; unfold InstR.Sx; rewrite !ln_div by assumption; ring.
  Qed.
  Lemma Sx_pressure_condensed ref ph T P1 P2 : ph <> Pg -> Sx ref ph T P2 = Sx ref ph T P1.
  Proof. intros NG. destruct ref, ph; try reflexivity; exfalso; apply NG; reflexivity. Qed.

  (* phase-transition jumps *)
  Lemma Hx_jump_vap ref : Hx ref Pg Tb - Hx ref Pl Tb = Hv Tb.
  Proof.
    destruct ref; unfold InstR.Hx; rewrite ?II_point.
    - ring.
    - ring.
    - rewrite (II_swap Pg T_ref Tb) by assumption. ring.
  Qed.
  Lemma Sx_jump_vap ref P : Sx ref Pg Tb P - Sx ref Pl Tb P = Hv Tb / Tb - Rg * ln (P / P_ref).
  Proof.
    destruct ref; unfold InstR.Sx; rewrite ?JJ_point.
    - ring.
    - ring.
    - rewrite (JJ_swap Pg T_ref Tb) by assumption. ring.
  Qed.
  Lemma Hx_jump_fus ref : Hx ref Pl Tm - Hx ref Ps Tm = Hfus.
  Proof.
    destruct ref; unfold InstR.Hx; rewrite ?II_point.
    - ring.
    - rewrite (II_swap Pl T_ref Tm) by assumption. ring.
    - rewrite (II_swap Pl Tm Tb) by assumption. ring.
  Qed.
  Lemma Sx_jump_fus ref P P' : Sx ref Pl Tm P - Sx ref Ps Tm P' = Sfus.
  Proof.
    destruct ref; unfold InstR.Sx; rewrite ?JJ_point.
    - ring.
    - rewrite (JJ_swap Pl T_ref Tm) by assumption. ring.
    - rewrite (JJ_swap Pl Tm Tb) by assumption. ring.
  Qed.

  (* H and S of one phase between two temperatures: the integral of Cn (a state function) *)
  Lemma Hx_difference ref ph T1 T2 : 0 < T1 -> 0 < T2 -> Hx ref ph T2 - Hx ref ph T1 = II ph T1 T2.
  Proof.
    intros H1 H2.
    destruct ref, ph; unfold InstR.Hx;
      match goal with |- context [InstR.II Cn ?p ?a T2] => rewrite <- (II_chasles p a T1 T2) by assumption end; ring.
  Qed.
End Pure.
