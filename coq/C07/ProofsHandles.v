(* C07 -- whatever was evaluated before, a handle returns the value of its CURRENT method. *)
From Coq Require Import List Bool.
From V Require Import C07.Model C07.Gen_Handles C07.Handles C07.Gen_PhaseHandle.
Import ListNotations.

Lemma handle_returns_current Tt V eqT (value : nat -> Tt -> V) ops : forall h m T v,
  In (m, T, v) (hrun Tt V eqT value h ops) -> v = value m T.
Proof.
  induction ops as [|o ops IH]; intros h m T v Hin; simpl in Hin; [contradiction|].
  destruct o as [T0|m0].
  - destruct Hin as [E|Hin].
    + unfold hcall, handle_call_stateless in E. simpl in E. inversion E; subst. reflexivity.
    + eapply IH; eauto.
  - eapply IH; eauto.
Qed.

Lemma phase_labels_agree (l : label) :
  PhaseTHandle_dispatch l = Some (canonical_phase l) /\ PhaseTPHandle_dispatch l = Some (canonical_phase l).
Proof. destruct l; split; reflexivity. Qed.
