(* C07 -- hand-written support definitions for the GENERATED model (Gen_*.v).
   Executable definitions only.

   The generated files are written over a carrier [A] with a record of operations [Ops A]
   so that the same generated term is instantiated at Q (correspondence, InstQ.v) and at
   R (theorems, InstR.v).

   A Python value that may be a float or None is [option A]; a Python expression that may
   raise is [pyv A = res (option A)].  Evaluation order is left to right (bind order). *)
From V Require Import Common.Num.

Inductive phase : Type := Ps | Pl | Pg.

(* phase LABELS of the API: 's', 'l', 'g' and the second solid / liquid phases 'S', 'L' of multi-phase streams *)
Inductive label : Type := Ls | Ll | Lg | Lus | Lul.
Definition canonical_phase (l : label) : phase :=
  match l with Ls | Lus => Ps | Ll | Lul => Pl | Lg => Pg end.

Definition phase_eqb (a b : phase) : bool :=
  match a, b with Ps, Ps | Pl, Pl | Pg, Pg => true | _, _ => false end.

Record Ops (A : Type) : Type := mkOps {
  oadd : A -> A -> A;
  osub : A -> A -> A;
  omul : A -> A -> A;
  odivx : A -> A -> A;        (* quotient for a non-zero divisor *)
  oneg : A -> A;
  oofQ : Q -> A;              (* float literal (exact value of the double) *)
  ois0 : A -> bool;           (* x == 0: Python falsiness of a float, ZeroDivisionError test *)
  opos : A -> bool;           (* 0 < x: domain of math.log *)
  oltb : A -> A -> bool;      (* x < y *)
  olnx : A -> A               (* math.log on its domain (a stand-in over Q) *)
}.
Arguments oadd {A} _ _ _. Arguments osub {A} _ _ _. Arguments omul {A} _ _ _.
Arguments odivx {A} _ _ _. Arguments oneg {A} _ _. Arguments oofQ {A} _ _.
Arguments ois0 {A} _ _. Arguments opos {A} _ _. Arguments oltb {A} _ _ _. Arguments olnx {A} _ _.

Definition pyv (A : Type) : Type := res (option A).

(* everything a generated definition depends on: the arithmetic, the two integrals of the
   heat-capacity handle of a phase (I = integral of Cn, J = integral of Cn/T), and the gas constant *)
Record env (A : Type) : Type := mkEnv {
  eO : Ops A;
  eI : phase -> A -> A -> res A;
  eJ : phase -> A -> A -> res A;
  eR : A
}.
Arguments eO {A} _. Arguments eI {A} _ _ _ _. Arguments eJ {A} _ _ _ _. Arguments eR {A} _.

(* what thermosteam keeps per chemical and hands to Chemical._init_energies *)
Record chemdata (A : Type) : Type := mkChem {
  d_T_ref : option A; d_P_ref : option A; d_H_ref : option A;   (* class attributes of Chemical *)
  d_S0 : option A; d_Hfus : option A; d_Sfus : option A;
  d_Tm : option A; d_Tb : option A;
  d_Hvap : option (A -> option A);   (* None: handle without a method (falsy); the call may return None *)
  d_hasCn : phase -> bool            (* bool(Cn.s), bool(Cn.l), bool(Cn.g) *)
}.
Arguments d_T_ref {A} _. Arguments d_P_ref {A} _. Arguments d_H_ref {A} _.
Arguments d_S0 {A} _. Arguments d_Hfus {A} _. Arguments d_Sfus {A} _.
Arguments d_Tm {A} _. Arguments d_Tb {A} _. Arguments d_Hvap {A} _. Arguments d_hasCn {A} _ _.

(* a functor object with its data bound: called with (T, P) *)
Definition tpfun (A : Type) : Type := option A -> option A -> pyv A.

(* value of Chemical._H / Chemical._S after _init_energies *)
Inductive ehandle (A : Type) : Type :=
| ENone                                   (* None *)
| ESingle (f : tpfun A)                   (* one functor (phase-locked chemical) *)
| EPhases (fs fl fg : tpfun A).           (* PhaseTPHandle with .s .l .g *)
Arguments ENone {A}. Arguments ESingle {A} f. Arguments EPhases {A} fs fl fg.

(* what kind of object Chemical._Cn is when _init_energies runs *)
Inductive cnkind : Type :=
| CnHandle                 (* a PhaseHandle with .s .l .g; the chemical is not phase-locked *)
| CnLocked (sp : phase)    (* one model handle; the chemical is locked at phase sp *)
| CnPlain.                 (* neither (no heat capacity given): H and S end as None *)

(* names of the model handles copy_models_from can copy, as far as the wiring is concerned *)
Inductive mname : Type := MCn | MHvap | MOther.
Definition mname_eqb (a b : mname) : bool :=
  match a, b with MCn, MCn | MHvap, MHvap | MOther, MOther => true | _, _ => false end.
Definition mname_mem (n : mname) (l : list mname) : bool := existsb (mname_eqb n) l.

Section PyOps.
Context {A : Type} (O : Ops A).

Definition pv (x : option A) : pyv A := Ok x.
Definition num (c : Q) : pyv A := Ok (Some (oofQ O c)).
Definition pnone : pyv A := Ok None.

Definition lift2 (f : A -> A -> res A) (a b : pyv A) : pyv A :=
  do x <- a; do y <- b;
  match x, y with
  | Some u, Some v => do r <- f u v; Ok (Some r)
  | _, _ => Err EType
  end.

Definition radd : pyv A -> pyv A -> pyv A := lift2 (fun u v => Ok (oadd O u v)).
Definition rsub : pyv A -> pyv A -> pyv A := lift2 (fun u v => Ok (osub O u v)).
Definition rmul : pyv A -> pyv A -> pyv A := lift2 (fun u v => Ok (omul O u v)).
Definition rdiv : pyv A -> pyv A -> pyv A :=
  lift2 (fun u v => if ois0 O v then Err EZeroDiv else Ok (odivx O u v)).
Definition rneg (a : pyv A) : pyv A :=
  do x <- a; match x with Some u => Ok (Some (oneg O u)) | None => Err EType end.
Definition rln (a : pyv A) : pyv A :=
  do x <- a;
  match x with
  | Some u => if opos O u then Ok (Some (olnx O u)) else Err EValue
  | None => Err EType
  end.

(* h.T_dependent_property_integral[_over_T](a, b) on the Cn handle of phase h *)
Definition integ (F : phase -> A -> A -> res A) (h : phase) (a b : pyv A) : pyv A :=
  do x <- a; do y <- b;
  match x, y with
  | Some u, Some v => do r <- F h u v; Ok (Some r)
  | _, _ => Err EType
  end.

(* Python truthiness *)
Definition truthy (x : option A) : bool :=
  match x with Some v => negb (ois0 O v) | None => false end.
(* a < b, a <= b, a > b, a >= b between two numbers that are known not to be None where the comparison is made
   (the translator checks that both operands are guarded by a truthiness test on the path) *)
Definition py_lt (a b : option A) : bool := match a, b with Some u, Some v => oltb O u v | _, _ => false end.
Definition py_le (a b : option A) : bool := match a, b with Some u, Some v => negb (oltb O v u) | _, _ => false end.
Definition is_none {B} (x : option B) : bool :=
  match x with Some _ => false | None => true end.
Definition truthy_fn {B} (f : option B) : bool :=
  match f with Some _ => true | None => false end.

(* Hvap(Tb) *)
Definition call_fn (f : option (A -> option A)) (x : pyv A) : pyv A :=
  do v <- x;
  match f, v with
  | Some g, Some u => Ok (g u)
  | _, _ => Err EType
  end.

(* try: ... except: ... *)
Definition catch {B} (r : res B) (h : res B) : res B :=
  match r with Ok v => Ok v | Err _ => h end.

(* ---- not translated, modelled by hand from base/phase_handle.py and mixture/mixture.py ---- *)

(* PhaseTPHandle.__call__(phase, T, P) = getattr(self, phase)(T, P)  (force_gas_critical_phase is
   False); MockPhaseTPHandle.__call__(phase, T, P) = model(T, P); None(...) raises TypeError *)
Definition call_handle (h : ehandle A) (ph : phase) (T P : option A) : pyv A :=
  match h with
  | ENone => Err EType
  | ESingle f => f T P
  | EPhases fs fl fg => match ph with Ps => fs T P | Pl => fl T P | Pg => fg T P end
  end.

(* sum([...]): every element is evaluated first (the first raise wins), then 0 + e1 + e2 + ... *)
Fixpoint eval_all (l : list (pyv A)) : res (list (option A)) :=
  match l with
  | [] => Ok []
  | e :: t => do v <- e; do vs <- eval_all t; Ok (v :: vs)
  end.
Definition py_sum (l : list (pyv A)) : pyv A :=
  do vs <- eval_all l;
  fold_left (fun acc v => radd acc (Ok v)) vs (num 0).

(* SparseVector: dct.items() in insertion order; SparseVector(list) keeps the non-zero entries *)
Definition items := list (nat * A).
Fixpoint sparse_from (i : nat) (l : list A) : items :=
  match l with
  | [] => []
  | x :: t => if ois0 O x then sparse_from (S i) t else (i, x) :: sparse_from (S i) t
  end.
Definition sparse_items (l : list A) : items := sparse_from 0 l.
Definition items_map (f : nat -> A -> pyv A) (m : items) : list (pyv A) :=
  map (fun ij => f (fst ij) (snd ij)) m.
(* SparseVector.sum() = sum(dct.values()) *)
Definition sv_sum (m : items) : pyv A := py_sum (map (fun ij => Ok (Some (snd ij))) m).

Definition subscript {M} (models : list M) (i : nat) : res M :=
  match nth_error models i with Some f => Ok f | None => Err EIndex end.

(* Mixture.H (mixture.py:193-197) and Mixture.S (:199-206) *)
Definition mixfun := phase -> items -> option A -> option A -> pyv A.
Definition Mixture_H (include_excess : bool) (H Hex : mixfun) ph mol T P : pyv A :=
  do h <- H ph mol T P;
  if include_excess then radd (Ok h) (Hex ph mol T P) else Ok h.
Definition Mixture_S (include_excess : bool) (S Sex : mixfun) ph (mol : items) T P : pyv A :=
  match mol with
  | [] => num 0
  | _ => do s <- S ph mol T P;
         if include_excess then radd (Ok s) (Sex ph mol T P) else Ok s
  end.
(* Mixture.xH / xS: sum over (phase, mol) pairs *)
Definition Mixture_x (f : phase -> items -> option A -> option A -> pyv A)
           (pm : list (phase * items)) T P : pyv A :=
  py_sum (map (fun x => f (fst x) (snd x) T P) pm).

End PyOps.

(* comparison of a model value with an observed value *)
Definition pyv_approxb (a b : pyv Q) : bool :=
  match a, b with
  | Ok (Some x), Ok (Some y) => qapproxb x y
  | Ok None, Ok None => true
  | Err e, Err f => err_eqb e f
  | _, _ => false
  end.
Fixpoint pyvs_approxb (a b : list (pyv Q)) : bool :=
  match a, b with
  | [], [] => true
  | x :: a', y :: b' => pyv_approxb x y && pyvs_approxb a' b'
  | _, _ => false
  end.
