(* C07 -- the lemmas in the form stated in Props.v (built from ProofsPure.v and ProofsMix.v). *)
From V Require Import Common.Num C07.Model C07.Gen_FreeEnergy C07.Gen_InitEnergies C07.Gen_MixtureModels C07.Gen_InitData
     C07.InstR C07.ProofsPure C07.ProofsMix.
From Coq Require Import Reals Qreals Lra List.
From Coquelicot Require Import Coquelicot.
Import ListNotations.
Open Scope R_scope.

(* hypotheses on a chemical: continuous heat capacities on T > 0, positive reference state, 0 < Tm and 0 < Tb
   IN EITHER ORDER (a chemical that sublimes at atmospheric pressure, e.g. CO2, has Tm > Tb), a non-zero heat of
   vaporisation at Tb (a zero one is falsy in Python: Svap_Tb = None) *)
Definition chem_ok (Cn : phase -> R -> R) (Hv : R -> R) (T_ref P_ref Tm Tb : R) : Prop :=
  (forall ph t, 0 < t -> continuous (Cn ph) t) /\
  0 < T_ref /\ 0 < P_ref /\ 0 < Tm /\ 0 < Tb /\ Hv Tb <> 0.

Section Pure.
  Variable Cn : phase -> R -> R.
  Variable Rg : R.
  Variable Hv : R -> R.
  Variables T_ref P_ref H_ref S0 Hfus Sfus Tm Tb : R.
  Hypothesis OK : chem_ok Cn Hv T_ref P_ref Tm Tb.

  Notation Hm := (Hm Cn Rg Hv T_ref P_ref H_ref S0 Hfus Sfus Tm Tb).
  Notation Sm := (Sm Cn Rg Hv T_ref P_ref H_ref S0 Hfus Sfus Tm Tb).
  Notation Hlocked := (Hlocked Cn Rg Hv T_ref P_ref H_ref S0 Hfus Sfus Tm Tb).
  Notation Slocked := (Slocked Cn Rg Hv T_ref P_ref H_ref S0 Hfus Sfus Tm Tb).
  Notation Hx := (Hx Cn Hv T_ref H_ref Hfus Tm Tb).
  Notation Sx := (Sx Cn Rg Hv T_ref P_ref S0 Sfus Tm Tb).

  Let cont := proj1 OK.
  Let Tr := proj1 (proj2 OK).
  Let Pr := proj1 (proj2 (proj2 OK)).
  Let Tmp := proj1 (proj2 (proj2 (proj2 OK))).
  Let Tbp := proj1 (proj2 (proj2 (proj2 (proj2 OK)))).
  Let Hvnz := proj2 (proj2 (proj2 (proj2 (proj2 OK)))).

  Lemma Tm_nz : Tm <> 0. Proof. pose proof Tmp. lra. Qed.
  Lemma Tb_pos : 0 < Tb. Proof. exact Tbp. Qed.
  Lemma Tb_nz : Tb <> 0. Proof. pose proof Tb_pos. lra. Qed.
  Lemma Pr_nz : P_ref <> 0. Proof. pose proof Pr. lra. Qed.
  Lemma ratio_pos P : 0 < P -> 0 < P / P_ref. Proof. intros. apply Rdiv_lt_0_compat; [assumption | exact Pr]. Qed.

  Lemma Hm_is ref ph T P : Hm ref ph T P = Ok (Some (Hx ref ph T)).
  Proof. apply Hm_eval; [exact Tm_nz | exact Tb_nz | exact Hvnz]. Qed.
  Lemma Sm_is ref ph T P : 0 < P -> Sm ref ph T P = Ok (Some (Sx ref ph T P)).
  Proof. intros HP. apply Sm_eval; [exact Tm_nz | exact Tb_nz | exact Hvnz | exact Pr_nz | apply ratio_pos; exact HP]. Qed.

  Lemma H_ref_zero_lemma ref P : Hm ref ref T_ref P = Ok (Some H_ref).
  Proof. rewrite Hm_is. rewrite (Hx_ref Cn Hv T_ref H_ref Hfus Tm Tb). reflexivity. Qed.

  Lemma S_ref_lemma ref : Sm ref ref T_ref P_ref = Ok (Some S0).
  Proof.
    rewrite Sm_is by exact Pr.
    rewrite (Sx_ref Cn Rg Hv T_ref P_ref S0 Sfus Tm Tb ref Pr). reflexivity.
  Qed.

  Lemma dH_dT_lemma ref ph T P : 0 < T ->
    (forall t, Hm ref ph t P = Ok (Some (val (Hm ref ph t P)))) /\
    is_derive (fun t => val (Hm ref ph t P)) T (Cn ph T).
  Proof.
    intros HT. split.
    - intros t. rewrite Hm_is. reflexivity.
    - apply is_derive_ext with (f := fun t => Hx ref ph t).
      + intros t. rewrite Hm_is. reflexivity.
      + apply Hx_derive; [exact cont | exact Tr | exact Tmp | exact Tb_pos | exact HT].
  Qed.

  Lemma dS_dT_lemma ref ph T P : 0 < T -> 0 < P ->
    (forall t, Sm ref ph t P = Ok (Some (val (Sm ref ph t P)))) /\
    is_derive (fun t => val (Sm ref ph t P)) T (Cn ph T / T).
  Proof.
    intros HT HP. split.
    - intros t. rewrite Sm_is by exact HP. reflexivity.
    - apply is_derive_ext with (f := fun t => Sx ref ph t P).
      + intros t. rewrite Sm_is by exact HP. reflexivity.
      + apply Sx_derive; [exact cont | exact Tr | exact Tmp | exact Tb_pos | exact HT].
  Qed.

  Lemma S_pressure_lemma ref T P1 P2 : 0 < P1 -> 0 < P2 ->
    exists s1 s2, Sm ref Pg T P1 = Ok (Some s1) /\ Sm ref Pg T P2 = Ok (Some s2) /\
                  s2 - s1 = - Rg * ln (P2 / P1).
  Proof.
    intros H1 H2. exists (Sx ref Pg T P1), (Sx ref Pg T P2).
    repeat split; try (apply Sm_is; assumption).
    apply Sx_pressure_gas; [exact Pr | exact H1 | exact H2].
  Qed.

  Lemma S_pressure_condensed_lemma ref ph T P1 P2 : ph <> Pg -> 0 < P1 -> 0 < P2 ->
    exists s, Sm ref ph T P1 = Ok (Some s) /\ Sm ref ph T P2 = Ok (Some s).
  Proof.
    intros NG H1 H2. exists (Sx ref ph T P1). split; [apply Sm_is; exact H1|].
    rewrite Sm_is by exact H2. rewrite (Sx_pressure_condensed Cn Rg Hv T_ref P_ref S0 Sfus Tm Tb ref ph T P1 P2 NG).
    reflexivity.
  Qed.

  Lemma S_nonpositive_pressure_lemma ref T P : P <= 0 -> Sm ref Pg T P = Err EValue.
  Proof.
    intros HP. apply Sm_gas_domain_error; [exact Tm_nz | exact Tb_nz | exact Hvnz | exact Pr_nz |].
    intros C. pose proof Pr.
    assert (0 < P / P_ref * P_ref) by (apply Rmult_lt_0_compat; assumption).
    replace (P / P_ref * P_ref) with P in * by (field; lra). lra.
  Qed.

  Lemma jump_vap_lemma ref P : 0 < P ->
    exists hg hl sg sl,
      Hm ref Pg Tb P = Ok (Some hg) /\ Hm ref Pl Tb P = Ok (Some hl) /\
      Sm ref Pg Tb P = Ok (Some sg) /\ Sm ref Pl Tb P = Ok (Some sl) /\
      hg - hl = Hv Tb /\ sg - sl = Hv Tb / Tb - Rg * ln (P / P_ref).
  Proof.
    intros HP. exists (Hx ref Pg Tb), (Hx ref Pl Tb), (Sx ref Pg Tb P), (Sx ref Pl Tb P).
    repeat split; try apply Hm_is; try (apply Sm_is; exact HP).
    - apply Hx_jump_vap; [exact cont | exact Tr | exact Tb_pos].
    - apply Sx_jump_vap; [exact cont | exact Tr | exact Tb_pos].
  Qed.

  Lemma jump_vap_normal_lemma ref :
    exists sg sl, Sm ref Pg Tb P_ref = Ok (Some sg) /\ Sm ref Pl Tb P_ref = Ok (Some sl) /\ sg - sl = Hv Tb / Tb.
  Proof.
    destruct (jump_vap_lemma ref P_ref Pr) as (hg & hl & sg & sl & _ & _ & A & B & _ & C).
    exists sg, sl. repeat split; try assumption.
    replace (P_ref / P_ref) with 1 in C by (field; exact Pr_nz). rewrite ln_1 in C. lra.
  Qed.

  Lemma jump_fus_lemma ref P : 0 < P ->
    exists hl hs sl ss,
      Hm ref Pl Tm P = Ok (Some hl) /\ Hm ref Ps Tm P = Ok (Some hs) /\
      Sm ref Pl Tm P = Ok (Some sl) /\ Sm ref Ps Tm P = Ok (Some ss) /\
      hl - hs = Hfus /\ sl - ss = Sfus.
  Proof.
    intros HP. exists (Hx ref Pl Tm), (Hx ref Ps Tm), (Sx ref Pl Tm P), (Sx ref Ps Tm P).
    repeat split; try apply Hm_is; try (apply Sm_is; exact HP).
    - apply Hx_jump_fus; [exact cont | exact Tr | exact Tmp | exact Tb_pos].
    - apply Sx_jump_fus; [exact cont | exact Tr | exact Tmp | exact Tb_pos].
  Qed.

  (* with the entropy of fusion thermosteam derives in Chemical._init_data (Sfus = Hfus / Tm) *)
  Lemma jump_fus_entropy_lemma ref P : 0 < P -> Sfus = Hfus / Tm ->
    exists sl ss, Sm ref Pl Tm P = Ok (Some sl) /\ Sm ref Ps Tm P = Ok (Some ss) /\ sl - ss = Hfus / Tm.
  Proof.
    intros HP ES. destruct (jump_fus_lemma ref P HP) as (_ & _ & sl & ss & _ & _ & A & B & _ & C).
    exists sl, ss. repeat split; try assumption. rewrite <- ES. exact C.
  Qed.

  (* enthalpy of one phase is a state function: the difference between two temperatures is the integral of Cn *)
  Lemma H_difference_lemma ref ph T1 T2 P : 0 < T1 -> 0 < T2 ->
    val (Hm ref ph T2 P) - val (Hm ref ph T1 P) = RInt (Cn ph) T1 T2.
  Proof.
    intros H1 H2. rewrite !Hm_is. simpl val.
    apply (Hx_difference Cn Hv T_ref H_ref Hfus Tm Tb cont Tr Tmp Tb_pos); assumption.
  Qed.

  (* phase-locked chemicals: one functor for H and one for S, whatever phase_ref says *)
  Lemma locked_lemma sp ref T P : 0 < T -> 0 < P ->
    Hlocked sp ref T_ref P = Ok (Some H_ref) /\
    Slocked sp ref T_ref P_ref = Ok (Some S0) /\
    (forall t, Hlocked sp ref t P = Ok (Some (val (Hlocked sp ref t P)))) /\
    (forall t, Slocked sp ref t P = Ok (Some (val (Slocked sp ref t P)))) /\
    is_derive (fun t => val (Hlocked sp ref t P)) T (Cn sp T) /\
    is_derive (fun t => val (Slocked sp ref t P)) T (Cn sp T / T).
  Proof.
    intros HT HP.
    assert (HE : forall t p, Hlocked sp ref t p = Ok (Some (H_ref + II Cn sp T_ref t))).
    { intros. apply Hlocked_eval; [exact Tm_nz | exact Tb_nz | exact Hvnz]. }
    assert (SE : forall t p, 0 < p -> Slocked sp ref t p =
               Ok (Some (match sp with Pg => S0 + JJ Cn sp T_ref t - Rg * ln (p / P_ref) | _ => S0 + JJ Cn sp T_ref t end))).
    { intros t p Hp. apply Slocked_eval; [exact Tm_nz | exact Tb_nz | exact Hvnz | exact Pr_nz | apply ratio_pos; exact Hp]. }
    split; [|split; [|split; [|split; [|split]]]].
    - rewrite HE, II_point. f_equal; f_equal; lra.
    - rewrite SE by exact Pr. rewrite JJ_point.
      replace (P_ref / P_ref) with 1 by (field; exact Pr_nz). rewrite ln_1. destruct sp; f_equal; f_equal; lra.
    - intros t. rewrite HE. reflexivity.
    - intros t. rewrite SE by exact HP. reflexivity.
    - apply (derive_form_I Cn cont (fun t => val (Hlocked sp ref t P)) sp H_ref T_ref); [exact Tr | exact HT|].
      intros t. rewrite HE. reflexivity.
    - set (c := match sp with Pg => S0 - Rg * ln (P / P_ref) | _ => S0 end).
      refine (derive_form_J Cn cont (fun t => val (Slocked sp ref t P)) sp c T_ref T Tr HT _).
      intros t. rewrite SE by exact HP. unfold c. destruct sp; simpl; ring.
  Qed.

  Lemma locked_gas_pressure_lemma ref T P1 P2 : 0 < P1 -> 0 < P2 ->
    val (Slocked Pg ref T P2) - val (Slocked Pg ref T P1) = - Rg * ln (P2 / P1).
  Proof.
    intros H1 H2.
    rewrite !Slocked_eval; try exact Tm_nz; try exact Tb_nz; try exact Hvnz; try exact Pr_nz; try (apply ratio_pos; assumption).
    simpl val. rewrite !ln_div; try assumption; try exact Pr. ring.
  Qed.

  Lemma locked_condensed_pressure_lemma sp ref T P1 P2 : sp <> Pg -> 0 < P1 -> 0 < P2 ->
    Slocked sp ref T P2 = Slocked sp ref T P1.
  Proof.
    intros NG H1 H2.
    rewrite !Slocked_eval; try exact Tm_nz; try exact Tb_nz; try exact Hvnz; try exact Pr_nz; try (apply ratio_pos; assumption).
    destruct sp; try reflexivity. exfalso; apply NG; reflexivity.
  Qed.
End Pure.

(* ------------------------------------------------------------------ mixtures *)
Lemma Mixture_H_plain (H Hex : mixfun (A := R)) ph mol T P v :
  H ph mol T P = Ok v -> Mixture_H ROps false H Hex ph mol T P = Ok v.
Proof. intros E. unfold Mixture_H. rewrite E. reflexivity. Qed.

Lemma sparse_nonempty m : 0 < sumR m -> sparse_items ROps m <> [].
Proof.
  unfold sparse_items. generalize 0%nat. induction m as [|x t IH]; intros n Hs; simpl in *; [lra|].
  unfold is0R. destruct (Req_EM_T x 0) as [->|]; [|discriminate].
  apply IH. lra.
Qed.

Lemma Mixture_S_plain (S Sex : mixfun (A := R)) ph m T P v :
  0 < sumR m -> S ph (sparse_items ROps m) T P = Ok v ->
  Mixture_S ROps false S Sex ph (sparse_items ROps m) T P = Ok v.
Proof.
  intros Hs E. unfold Mixture_S. pose proof (sparse_nonempty m Hs) as NE.
  destruct (sparse_items ROps m) eqn:Q; [contradiction|]. rewrite E. reflexivity.
Qed.

Section Mixtures.
  Variable Rg : R.
  Notation E := (mixenvR Rg).
  Notation Hmix models Hex ph m T P := (Mixture_H ROps false (IdealTPMixtureModel_call E models) Hex ph (sparse_items ROps m) T P).
  Notation Smix models Sex ph m T P := (Mixture_S ROps false (IdealEntropyModel_call E models) Sex ph (sparse_items ROps m) T P).

  Lemma mix_H_lemma models Hex hs ph m T P :
    models_give (fun f => f ph T P) models hs -> length m = length hs ->
    Hmix models Hex ph m T P = Ok (Some (dotR m hs)).
  Proof. intros HM L. apply Mixture_H_plain. apply TP_model_sum; assumption. Qed.

  Lemma mix_linear_lemma models Hex hs ph m m' a b T P :
    models_give (fun f => f ph T P) models hs -> length m = length hs -> length m' = length hs ->
    exists h h' h2,
      Hmix models Hex ph m T P = Ok (Some h) /\ Hmix models Hex ph m' T P = Ok (Some h') /\
      Hmix models Hex ph (vaddR (vscaleR a m) (vscaleR b m')) T P = Ok (Some h2) /\
      h2 = a * h + b * h'.
  Proof.
    intros HM L L'. exists (dotR m hs), (dotR m' hs), (dotR (vaddR (vscaleR a m) (vscaleR b m')) hs).
    repeat split; try (apply mix_H_lemma; assumption).
    - apply mix_H_lemma; [assumption|]. rewrite vaddR_length; rewrite !vscaleR_length; lia.
    - rewrite dotR_add by (rewrite !vscaleR_length; lia). rewrite !dotR_scale. reflexivity.
  Qed.

  Lemma mix_Cn_linear_lemma models cs ph m m' a b T :
    models_give (fun f => f ph T) models cs -> length m = length cs -> length m' = length cs ->
    IdealTMixtureModel_call E models ph (sparse_items ROps m) T None = Ok (Some (dotR m cs)) /\
    IdealTMixtureModel_call E models ph (sparse_items ROps (vaddR (vscaleR a m) (vscaleR b m'))) T None
      = Ok (Some (a * dotR m cs + b * dotR m' cs)).
  Proof.
    intros HM L L'. split; [apply T_model_sum; assumption|].
    rewrite (T_model_sum Rg models cs) by (try assumption; rewrite vaddR_length; rewrite !vscaleR_length; lia).
    rewrite dotR_add by (rewrite !vscaleR_length; lia). rewrite !dotR_scale. reflexivity.
  Qed.

  Lemma mix_S_lemma models Sex ss ph m T P :
    models_give (fun f => f ph T P) models ss -> length m = length ss -> all_nonneg m -> 0 < sumR m ->
    Smix models Sex ph m T P = Ok (Some (dotR m ss + mixterm (sumR m) m)).
  Proof. intros HM L NN Np. apply Mixture_S_plain; [exact Np|]. apply Entropy_model_sum; assumption. Qed.
End Mixtures.

(* the property: S_mix - sum n_i S_i = - R sum n_i ln x_i   (the statement is displayed in Props.v as
   mix_entropy_statement; this is the same proposition under an internal name) *)
Definition mix_entropy_stmt (Rg : R) : Prop :=
  forall (models : list (phase -> option R -> option R -> pyv R)) Sex ss ph m T P,
    models_give (fun f => f ph T P) models ss -> length m = length ss -> all_nonneg m -> 0 < sumR m ->
    exists s, Mixture_S ROps false (IdealEntropyModel_call (mixenvR Rg) models) Sex ph (sparse_items ROps m) T P = Ok (Some s) /\
              s - dotR m ss = - Rg * mixterm (sumR m) m.

Definition const_model (v : R) : phase -> option R -> option R -> pyv R := fun _ _ _ => Ok (Some v).
Definition no_excess : mixfun (A := R) := fun _ _ _ _ => Ok (Some 0).

Lemma mixterm_11 : mixterm 2 [1; 1] = - (2 * ln 2).
Proof.
  simpl. unfold xlnx. destruct (Req_EM_T 1 0); [lra|].
  replace (1 / 2) with (/ 2) by lra. rewrite ln_Rinv by lra. lra.
Qed.

Lemma mix_entropy_refuted_lemma Rg : 0 < Rg -> ~ mix_entropy_stmt Rg.
Proof.
  intros HR ST.
  destruct (ST [const_model 0; const_model 0] no_excess [0; 0] Pl [1; 1] None None) as (s & Es & D).
  - repeat constructor.
  - reflexivity.
  - repeat constructor; lra.
  - simpl; lra.
  - rewrite (mix_S_lemma Rg _ no_excess [0; 0]) in Es; try reflexivity; try (repeat constructor; lra); try (simpl; lra).
    inversion Es as [Es']. clear Es. subst s. simpl sumR in D. simpl dotR in D.
    replace (1 + (1 + 0)) with 2 in D by lra. rewrite mixterm_11 in D.
    pose proof ln2_pos as L2.
    assert (0 < Rg * ln 2) by (apply Rmult_lt_0_compat; assumption).
    pose proof mixterm_11 as M. simpl in M. lra.
Qed.

(* what the code does compute: the ideal term divided by -R *)
Lemma mix_entropy_partial_lemma Rg models Sex ss ph m T P :
  models_give (fun f => f ph T P) models ss -> length m = length ss -> all_nonneg m -> 0 < sumR m ->
  exists s, Mixture_S ROps false (IdealEntropyModel_call (mixenvR Rg) models) Sex ph (sparse_items ROps m) T P = Ok (Some s) /\
            s - dotR m ss = mixterm (sumR m) m.
Proof.
  intros HM L NN Np. eexists; split; [apply mix_S_lemma; eassumption|]. ring.
Qed.

(* the property: mixing at equal T and P never lowers S *)
Definition mixing_never_lowers_S_stmt (Rg : R) : Prop :=
  forall (models : list (phase -> option R -> option R -> pyv R)) Sex ss ph m m' T P,
    models_give (fun f => f ph T P) models ss -> length m = length ss -> length m' = length ss ->
    all_nonneg m -> all_nonneg m' -> 0 < sumR m -> 0 < sumR m' ->
    exists s s' s2,
      Mixture_S ROps false (IdealEntropyModel_call (mixenvR Rg) models) Sex ph (sparse_items ROps m) T P = Ok (Some s) /\
      Mixture_S ROps false (IdealEntropyModel_call (mixenvR Rg) models) Sex ph (sparse_items ROps m') T P = Ok (Some s') /\
      Mixture_S ROps false (IdealEntropyModel_call (mixenvR Rg) models) Sex ph (sparse_items ROps (vaddR m m')) T P = Ok (Some s2) /\
      s + s' <= s2.

Lemma mixterm_10 : mixterm 1 [1; 0] = 0.
Proof.
  simpl. unfold xlnx. destruct (Req_EM_T 1 0); [lra|]. destruct (Req_EM_T 0 0); [|lra].
  replace (1 / 1) with 1 by lra. rewrite ln_1. lra.
Qed.
Lemma mixterm_01 : mixterm 1 [0; 1] = 0.
Proof.
  simpl. unfold xlnx. destruct (Req_EM_T 1 0); [lra|]. destruct (Req_EM_T 0 0); [|lra].
  replace (1 / 1) with 1 by lra. rewrite ln_1. lra.
Qed.

Lemma mixing_never_lowers_S_refuted_lemma Rg : ~ mixing_never_lowers_S_stmt Rg.
Proof.
  intros ST.
  destruct (ST [const_model 0; const_model 0] no_excess [0; 0] Pl [1; 0] [0; 1] None None)
    as (s & s' & s2 & E1 & E2 & E3 & LE); try reflexivity; try (repeat constructor; lra); try (simpl; lra).
  rewrite (mix_S_lemma Rg _ no_excess [0; 0]) in E1, E2, E3; try reflexivity; try (repeat constructor; lra); try (simpl; lra).
  inversion E1; inversion E2; inversion E3; subst. clear E1 E2 E3.
  pose proof mixterm_10 as M1. pose proof mixterm_01 as M2. pose proof mixterm_11 as M3.
  simpl in LE, M1, M2, M3.
  replace (1 + (0 + 0)) with 1 in LE by lra. replace (0 + (1 + 0)) with 1 in LE by lra.
  replace (1 + 0 + (0 + 1 + 0)) with 2 in LE by lra.
  replace (1 + 0) with 1 in LE by lra. replace (0 + 1) with 1 in LE by lra.
  pose proof ln2_pos. lra.
Qed.

(* what holds instead for the code as it is: mixing never RAISES S (the sign is inverted) *)
Lemma mixing_never_raises_S_lemma Rg models Sex ss ph m m' T P :
  models_give (fun f => f ph T P) models ss -> length m = length ss -> length m' = length ss ->
  all_nonneg m -> all_nonneg m' -> 0 < sumR m -> 0 < sumR m' ->
  exists s s' s2,
    Mixture_S ROps false (IdealEntropyModel_call (mixenvR Rg) models) Sex ph (sparse_items ROps m) T P = Ok (Some s) /\
    Mixture_S ROps false (IdealEntropyModel_call (mixenvR Rg) models) Sex ph (sparse_items ROps m') T P = Ok (Some s') /\
    Mixture_S ROps false (IdealEntropyModel_call (mixenvR Rg) models) Sex ph (sparse_items ROps (vaddR m m')) T P = Ok (Some s2) /\
    s2 <= s + s'.
Proof.
  intros HM L L' NN NN' Np Np'.
  exists (dotR m ss + mixterm (sumR m) m), (dotR m' ss + mixterm (sumR m') m'),
         (dotR (vaddR m m') ss + mixterm (sumR (vaddR m m')) (vaddR m m')).
  repeat split; try (apply mix_S_lemma; assumption).
  - apply mix_S_lemma; try assumption.
    + rewrite vaddR_length; lia.
    + apply allnn_add; assumption.
    + rewrite sumR_add by lia. lra.
  - rewrite dotR_add, sumR_add by lia.
    pose proof (mixterm_subadditive (sumR m) (sumR m') m m' ltac:(lia) NN NN' Np Np'). lra.
Qed.

(* the ideal mixing entropy of the property text does satisfy it (so the statement is not vacuous or impossible):
   S_ideal(m) = sum n_i S_i - R sum n_i ln x_i is superadditive for R >= 0 *)
Definition S_ideal (Rg : R) (ss m : list R) : R := dotR m ss - Rg * mixterm (sumR m) m.
Lemma ideal_mixing_never_lowers_S_lemma Rg ss m m' : 0 <= Rg ->
  length m = length m' -> all_nonneg m -> all_nonneg m' -> 0 < sumR m -> 0 < sumR m' ->
  S_ideal Rg ss m + S_ideal Rg ss m' <= S_ideal Rg ss (vaddR m m').
Proof.
  intros HR L NN NN' Np Np'. unfold S_ideal. rewrite dotR_add, sumR_add by lia.
  pose proof (mixterm_subadditive (sumR m) (sumR m') m m' L NN NN' Np Np'). nra.
Qed.

(* ------------------------------------------------------------------ the entropy of fusion a chemical is given *)
(* Chemical._init_data: whatever the caller passed (aH, aT; None for database chemicals), a chemical whose
   stored heat of fusion and melting point are numbers gets Sfus = Hfus / Tm -- the hypothesis of
   jump_fus_entropy_lemma *)
Lemma Sfus_derived_lemma Rg (aH aT : option R) (Hf Tmv : R) : Tmv <> 0 ->
  init_data_Sfus (mixenvR Rg) aH aT (Some Hf) (Some Tmv) = Ok (Some (Hf / Tmv)).
Proof.
  intros NZ. pose proof (is0R_false _ NZ) as E0.
  unfold init_data_Sfus. cbv zeta. simpl eO.
  cbv -[Rplus Rminus Rmult Rdiv Ropp Rinv ln is0R posR ltR]. rewrite ?E0.
  cbv -[Rplus Rminus Rmult Rdiv Ropp Rinv ln is0R posR ltR]. rewrite ?E0. reflexivity.
Qed.

(* ------------------------------------------------------------------ the hypotheses are satisfiable *)
Lemma chem_ok_example : chem_ok (fun _ _ => 75) (fun _ => 40650) 298 101325 273 373.
Proof.
  unfold chem_ok. repeat split; try lra.
  intros ph t _. apply continuous_const.
Qed.
(* and a chemical that sublimes at atmospheric pressure (Tm > Tb, like CO2: 216.65 K / 194.67 K) *)
Lemma chem_ok_sublimes_example : chem_ok (fun _ _ => 40) (fun _ => 25000) 298 101325 217 195.
Proof.
  unfold chem_ok. repeat split; try lra.
  intros ph t _. apply continuous_const.
Qed.
Lemma models_give_example :
  models_give (fun f : phase -> option R -> option R -> pyv R => f Pl None None) [const_model 1; const_model 2] [1; 2].
Proof. repeat constructor. Qed.
