(* placeholder while the correspondence is being built *)
From V Require Import Common.Num C07.Model C07.InstQ.
