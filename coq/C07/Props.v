(* C07 -- property theorems only.  Each is closed by [exact <lemma>] and followed by Print Assumptions.
   Hm / Sm are Chemical.H / Chemical.S of the GENERATED model (Gen_FreeEnergy.v, Gen_InitEnergies.v)
   instantiated over R with I ph a b = RInt (Cn ph) a b and J ph a b = RInt (fun t => Cn ph t / t) a b;
   the mixture models are the generated Gen_MixtureModels.v.  [ref] ranges over the three reference
   phases and [ph] over the three phases, so every statement covers all nine pairs. *)
From V Require Import Common.Num C07.Model C07.Gen_FreeEnergy C07.Gen_InitEnergies C07.Gen_MixtureModels C07.Gen_InitData
     C07.InstR C07.ProofsPure C07.ProofsMix C07.Proofs C07.Gen_Rewire C07.Rewire C07.ProofsRewire
     C07.Gen_Packages C07.Packages C07.ProofsPackages
     C07.Gen_Handles C07.Handles C07.ProofsHandles C07.InstQ C07.ProofsQ C07.Gen_PhaseHandle.
From Coq Require Import Reals List.
From Coquelicot Require Import Coquelicot.
Import ListNotations.
Open Scope R_scope.

(* enthalpy is H_ref at the reference state ... *)
Theorem C07_H_ref_zero : forall Cn Rg Hv T_ref P_ref H_ref S0 Hfus Sfus Tm Tb,
  chem_ok Cn Hv T_ref P_ref Tm Tb -> forall ref P,
  Hm Cn Rg Hv T_ref P_ref H_ref S0 Hfus Sfus Tm Tb ref ref T_ref P = Ok (Some H_ref).
Proof. exact H_ref_zero_lemma. Qed.
Print Assumptions C07_H_ref_zero.

(* ... and entropy is the absolute entropy S0 *)
Theorem C07_S_ref : forall Cn Rg Hv T_ref P_ref H_ref S0 Hfus Sfus Tm Tb,
  chem_ok Cn Hv T_ref P_ref Tm Tb -> forall ref,
  Sm Cn Rg Hv T_ref P_ref H_ref S0 Hfus Sfus Tm Tb ref ref T_ref P_ref = Ok (Some S0).
Proof. exact S_ref_lemma. Qed.
Print Assumptions C07_S_ref.

(* dH/dT = Cn in every phase, for every reference phase (H is defined for every T) *)
Theorem C07_dH_dT : forall Cn Rg Hv T_ref P_ref H_ref S0 Hfus Sfus Tm Tb,
  chem_ok Cn Hv T_ref P_ref Tm Tb -> forall ref ph T P, 0 < T ->
  (forall t, Hm Cn Rg Hv T_ref P_ref H_ref S0 Hfus Sfus Tm Tb ref ph t P
             = Ok (Some (val (Hm Cn Rg Hv T_ref P_ref H_ref S0 Hfus Sfus Tm Tb ref ph t P)))) /\
  is_derive (fun t => val (Hm Cn Rg Hv T_ref P_ref H_ref S0 Hfus Sfus Tm Tb ref ph t P)) T (Cn ph T).
Proof. exact dH_dT_lemma. Qed.
Print Assumptions C07_dH_dT.

(* dS/dT = Cn / T *)
Theorem C07_dS_dT : forall Cn Rg Hv T_ref P_ref H_ref S0 Hfus Sfus Tm Tb,
  chem_ok Cn Hv T_ref P_ref Tm Tb -> forall ref ph T P, 0 < T -> 0 < P ->
  (forall t, Sm Cn Rg Hv T_ref P_ref H_ref S0 Hfus Sfus Tm Tb ref ph t P
             = Ok (Some (val (Sm Cn Rg Hv T_ref P_ref H_ref S0 Hfus Sfus Tm Tb ref ph t P)))) /\
  is_derive (fun t => val (Sm Cn Rg Hv T_ref P_ref H_ref S0 Hfus Sfus Tm Tb ref ph t P)) T (Cn ph T / T).
Proof. exact dS_dT_lemma. Qed.
Print Assumptions C07_dS_dT.

(* gas entropy falls by R ln (P2 / P1) *)
Theorem C07_S_pressure : forall Cn Rg Hv T_ref P_ref H_ref S0 Hfus Sfus Tm Tb,
  chem_ok Cn Hv T_ref P_ref Tm Tb -> forall ref T P1 P2, 0 < P1 -> 0 < P2 ->
  exists s1 s2,
    Sm Cn Rg Hv T_ref P_ref H_ref S0 Hfus Sfus Tm Tb ref Pg T P1 = Ok (Some s1) /\
    Sm Cn Rg Hv T_ref P_ref H_ref S0 Hfus Sfus Tm Tb ref Pg T P2 = Ok (Some s2) /\
    s2 - s1 = - Rg * ln (P2 / P1).
Proof. exact S_pressure_lemma. Qed.
Print Assumptions C07_S_pressure.

(* solid and liquid entropy do not depend on pressure *)
Theorem C07_S_pressure_condensed : forall Cn Rg Hv T_ref P_ref H_ref S0 Hfus Sfus Tm Tb,
  chem_ok Cn Hv T_ref P_ref Tm Tb -> forall ref ph T P1 P2, ph <> Pg -> 0 < P1 -> 0 < P2 ->
  exists s, Sm Cn Rg Hv T_ref P_ref H_ref S0 Hfus Sfus Tm Tb ref ph T P1 = Ok (Some s) /\
            Sm Cn Rg Hv T_ref P_ref H_ref S0 Hfus Sfus Tm Tb ref ph T P2 = Ok (Some s).
Proof. exact S_pressure_condensed_lemma. Qed.
Print Assumptions C07_S_pressure_condensed.

(* a non-positive pressure is rejected with ValueError (math domain error), never answered *)
Theorem C07_S_nonpositive_pressure : forall Cn Rg Hv T_ref P_ref H_ref S0 Hfus Sfus Tm Tb,
  chem_ok Cn Hv T_ref P_ref Tm Tb -> forall ref T P, P <= 0 ->
  Sm Cn Rg Hv T_ref P_ref H_ref S0 Hfus Sfus Tm Tb ref Pg T P = Err EValue.
Proof. exact S_nonpositive_pressure_lemma. Qed.
Print Assumptions C07_S_nonpositive_pressure.

(* jump at the normal boiling point: Hvap(Tb) for H, Hvap(Tb)/Tb (minus the pressure term) for S *)
Theorem C07_jump_vap : forall Cn Rg Hv T_ref P_ref H_ref S0 Hfus Sfus Tm Tb,
  chem_ok Cn Hv T_ref P_ref Tm Tb -> forall ref P, 0 < P ->
  exists hg hl sg sl,
    Hm Cn Rg Hv T_ref P_ref H_ref S0 Hfus Sfus Tm Tb ref Pg Tb P = Ok (Some hg) /\
    Hm Cn Rg Hv T_ref P_ref H_ref S0 Hfus Sfus Tm Tb ref Pl Tb P = Ok (Some hl) /\
    Sm Cn Rg Hv T_ref P_ref H_ref S0 Hfus Sfus Tm Tb ref Pg Tb P = Ok (Some sg) /\
    Sm Cn Rg Hv T_ref P_ref H_ref S0 Hfus Sfus Tm Tb ref Pl Tb P = Ok (Some sl) /\
    hg - hl = Hv Tb /\ sg - sl = Hv Tb / Tb - Rg * ln (P / P_ref).
Proof. exact jump_vap_lemma. Qed.
Print Assumptions C07_jump_vap.

Theorem C07_jump_vap_normal_pressure : forall Cn Rg Hv T_ref P_ref H_ref S0 Hfus Sfus Tm Tb,
  chem_ok Cn Hv T_ref P_ref Tm Tb -> forall ref,
  exists sg sl,
    Sm Cn Rg Hv T_ref P_ref H_ref S0 Hfus Sfus Tm Tb ref Pg Tb P_ref = Ok (Some sg) /\
    Sm Cn Rg Hv T_ref P_ref H_ref S0 Hfus Sfus Tm Tb ref Pl Tb P_ref = Ok (Some sl) /\
    sg - sl = Hv Tb / Tb.
Proof. exact jump_vap_normal_lemma. Qed.
Print Assumptions C07_jump_vap_normal_pressure.

(* jump at the melting point: Hfus for H, the stored Sfus for S ... *)
Theorem C07_jump_fus : forall Cn Rg Hv T_ref P_ref H_ref S0 Hfus Sfus Tm Tb,
  chem_ok Cn Hv T_ref P_ref Tm Tb -> forall ref P, 0 < P ->
  exists hl hs sl ss,
    Hm Cn Rg Hv T_ref P_ref H_ref S0 Hfus Sfus Tm Tb ref Pl Tm P = Ok (Some hl) /\
    Hm Cn Rg Hv T_ref P_ref H_ref S0 Hfus Sfus Tm Tb ref Ps Tm P = Ok (Some hs) /\
    Sm Cn Rg Hv T_ref P_ref H_ref S0 Hfus Sfus Tm Tb ref Pl Tm P = Ok (Some sl) /\
    Sm Cn Rg Hv T_ref P_ref H_ref S0 Hfus Sfus Tm Tb ref Ps Tm P = Ok (Some ss) /\
    hl - hs = Hfus /\ sl - ss = Sfus.
Proof. exact jump_fus_lemma. Qed.
Print Assumptions C07_jump_fus.

(* ... which is Hfus / Tm whenever Sfus is the value Chemical._init_data derives (Hfus / Tm) *)
Theorem C07_jump_fus_entropy : forall Cn Rg Hv T_ref P_ref H_ref S0 Hfus Sfus Tm Tb,
  chem_ok Cn Hv T_ref P_ref Tm Tb -> forall ref P, 0 < P -> Sfus = Hfus / Tm ->
  exists sl ss,
    Sm Cn Rg Hv T_ref P_ref H_ref S0 Hfus Sfus Tm Tb ref Pl Tm P = Ok (Some sl) /\
    Sm Cn Rg Hv T_ref P_ref H_ref S0 Hfus Sfus Tm Tb ref Ps Tm P = Ok (Some ss) /\
    sl - ss = Hfus / Tm.
Proof. exact jump_fus_entropy_lemma. Qed.
Print Assumptions C07_jump_fus_entropy.

(* and Chemical._init_data does derive that value from the stored heat of fusion and melting point, whether
   they came from the caller or from the database (generated from _chemical.py: `self._Sfus = ...`) *)
Theorem C07_Sfus_derived : forall Rg (aH aT : option R) (Hf Tmv : R), Tmv <> 0 ->
  init_data_Sfus (mixenvR Rg) aH aT (Some Hf) (Some Tmv) = Ok (Some (Hf / Tmv)).
Proof. exact Sfus_derived_lemma. Qed.
Print Assumptions C07_Sfus_derived.

(* ... but the Tm and Hfus SETTERS do not recompute it: [Sfus_follows_setters_statement] (InstQ.v: after chem.Tm = v or
   chem.Hfus = v the stored entropy of fusion is again Hfus / Tm) is refuted -- witness Hfus = 1000, Tm = 200, Sfus = 5,
   then chem.Tm = 250 leaves Sfus = 5 instead of 4.  (That the setters leave Sfus alone is generated from _chemical.py:
   Tm_setter_refreshes_Sfus = Hfus_setter_refreshes_Sfus = false in Gen_Rewire.v; InstQ.set_Tm / set_Hfus are tied to
   the real setters by the hist cases.)  No axioms. *)
Theorem C07_Sfus_follows_setters_refuted : ~ Sfus_follows_setters_statement.
Proof. exact Sfus_follows_setters_refuted_lemma. Qed.
Print Assumptions C07_Sfus_follows_setters_refuted.

(* within one phase H is a state function of T: H(T2) - H(T1) = integral of Cn *)
Theorem C07_H_difference : forall Cn Rg Hv T_ref P_ref H_ref S0 Hfus Sfus Tm Tb,
  chem_ok Cn Hv T_ref P_ref Tm Tb -> forall ref ph T1 T2 P, 0 < T1 -> 0 < T2 ->
  val (Hm Cn Rg Hv T_ref P_ref H_ref S0 Hfus Sfus Tm Tb ref ph T2 P)
  - val (Hm Cn Rg Hv T_ref P_ref H_ref S0 Hfus Sfus Tm Tb ref ph T1 P) = RInt (Cn ph) T1 T2.
Proof. exact H_difference_lemma. Qed.
Print Assumptions C07_H_difference.

(* phase-locked chemicals, for every value of phase_ref: reference values and derivatives *)
Theorem C07_locked : forall Cn Rg Hv T_ref P_ref H_ref S0 Hfus Sfus Tm Tb,
  chem_ok Cn Hv T_ref P_ref Tm Tb -> forall sp ref T P, 0 < T -> 0 < P ->
  Hlocked Cn Rg Hv T_ref P_ref H_ref S0 Hfus Sfus Tm Tb sp ref T_ref P = Ok (Some H_ref) /\
  Slocked Cn Rg Hv T_ref P_ref H_ref S0 Hfus Sfus Tm Tb sp ref T_ref P_ref = Ok (Some S0) /\
  (forall t, Hlocked Cn Rg Hv T_ref P_ref H_ref S0 Hfus Sfus Tm Tb sp ref t P
             = Ok (Some (val (Hlocked Cn Rg Hv T_ref P_ref H_ref S0 Hfus Sfus Tm Tb sp ref t P)))) /\
  (forall t, Slocked Cn Rg Hv T_ref P_ref H_ref S0 Hfus Sfus Tm Tb sp ref t P
             = Ok (Some (val (Slocked Cn Rg Hv T_ref P_ref H_ref S0 Hfus Sfus Tm Tb sp ref t P)))) /\
  is_derive (fun t => val (Hlocked Cn Rg Hv T_ref P_ref H_ref S0 Hfus Sfus Tm Tb sp ref t P)) T (Cn sp T) /\
  is_derive (fun t => val (Slocked Cn Rg Hv T_ref P_ref H_ref S0 Hfus Sfus Tm Tb sp ref t P)) T (Cn sp T / T).
Proof. exact locked_lemma. Qed.
Print Assumptions C07_locked.

(* a chemical locked in the gas phase has the pressure term, whatever its phase_ref ... *)
Theorem C07_locked_gas_pressure : forall Cn Rg Hv T_ref P_ref H_ref S0 Hfus Sfus Tm Tb,
  chem_ok Cn Hv T_ref P_ref Tm Tb -> forall ref T P1 P2, 0 < P1 -> 0 < P2 ->
  val (Slocked Cn Rg Hv T_ref P_ref H_ref S0 Hfus Sfus Tm Tb Pg ref T P2)
  - val (Slocked Cn Rg Hv T_ref P_ref H_ref S0 Hfus Sfus Tm Tb Pg ref T P1) = - Rg * ln (P2 / P1).
Proof. exact locked_gas_pressure_lemma. Qed.
Print Assumptions C07_locked_gas_pressure.

(* ... and one locked as liquid or solid never has it *)
Theorem C07_locked_condensed_pressure : forall Cn Rg Hv T_ref P_ref H_ref S0 Hfus Sfus Tm Tb,
  chem_ok Cn Hv T_ref P_ref Tm Tb -> forall sp ref T P1 P2, sp <> Pg -> 0 < P1 -> 0 < P2 ->
  Slocked Cn Rg Hv T_ref P_ref H_ref S0 Hfus Sfus Tm Tb sp ref T P2
  = Slocked Cn Rg Hv T_ref P_ref H_ref S0 Hfus Sfus Tm Tb sp ref T P1.
Proof. exact locked_condensed_pressure_lemma. Qed.
Print Assumptions C07_locked_condensed_pressure.

(* ---------------- mixtures ---------------- *)

(* mixture H is the mole-weighted sum of the pure values; hence extensive and additive:
   H(a m + b m') = a H(m) + b H(m') *)
Theorem C07_mix_linear : forall Rg (models : list (phase -> option R -> option R -> pyv R)) Hex hs ph m m' a b T P,
  models_give (fun f => f ph T P) models hs -> length m = length hs -> length m' = length hs ->
  exists h h' h2,
    Mixture_H ROps false (IdealTPMixtureModel_call (mixenvR Rg) models) Hex ph (sparse_items ROps m) T P = Ok (Some h) /\
    Mixture_H ROps false (IdealTPMixtureModel_call (mixenvR Rg) models) Hex ph (sparse_items ROps m') T P = Ok (Some h') /\
    Mixture_H ROps false (IdealTPMixtureModel_call (mixenvR Rg) models) Hex ph
              (sparse_items ROps (vaddR (vscaleR a m) (vscaleR b m'))) T P = Ok (Some h2) /\
    h2 = a * h + b * h'.
Proof. exact mix_linear_lemma. Qed.
Print Assumptions C07_mix_linear.

Theorem C07_mix_H_weighted_sum : forall Rg (models : list (phase -> option R -> option R -> pyv R)) Hex hs ph m T P,
  models_give (fun f => f ph T P) models hs -> length m = length hs ->
  Mixture_H ROps false (IdealTPMixtureModel_call (mixenvR Rg) models) Hex ph (sparse_items ROps m) T P
  = Ok (Some (dotR m hs)).
Proof. exact mix_H_lemma. Qed.
Print Assumptions C07_mix_H_weighted_sum.

(* same for the heat capacity (IdealTMixtureModel) *)
Theorem C07_mix_Cn_linear : forall Rg (models : list (phase -> option R -> pyv R)) cs ph m m' a b T,
  models_give (fun f => f ph T) models cs -> length m = length cs -> length m' = length cs ->
  IdealTMixtureModel_call (mixenvR Rg) models ph (sparse_items ROps m) T None = Ok (Some (dotR m cs)) /\
  IdealTMixtureModel_call (mixenvR Rg) models ph (sparse_items ROps (vaddR (vscaleR a m) (vscaleR b m'))) T None
    = Ok (Some (a * dotR m cs + b * dotR m' cs)).
Proof. exact mix_Cn_linear_lemma. Qed.
Print Assumptions C07_mix_Cn_linear.

(* the two single-phase models are mole-weighted sums as well *)
Theorem C07_single_phase_T_model : forall Rg (models : list (option R -> pyv R)) hs m T P,
  models_give (fun f => f T) models hs -> length m = length hs ->
  SinglePhaseIdealTMixtureModel_call (mixenvR Rg) models (sparse_items ROps m) T P = Ok (Some (dotR m hs)).
Proof. exact SP_T_model_sum. Qed.
Print Assumptions C07_single_phase_T_model.
Theorem C07_single_phase_TP_model : forall Rg (models : list (option R -> option R -> pyv R)) hs m T P,
  models_give (fun f => f T P) models hs -> length m = length hs ->
  SinglePhaseIdealTPMixtureModel_call (mixenvR Rg) models (sparse_items ROps m) T P = Ok (Some (dotR m hs)).
Proof. exact SP_TP_model_sum. Qed.
Print Assumptions C07_single_phase_TP_model.

(* mixture entropy: the FULL statement of the property,  S_mix - sum n_i S_i = - R sum n_i ln x_i : *)
Definition mix_entropy_statement (Rg : R) : Prop :=
  forall (models : list (phase -> option R -> option R -> pyv R)) Sex ss ph m T P,
    models_give (fun f => f ph T P) models ss -> length m = length ss -> all_nonneg m -> 0 < sumR m ->
    exists s, Mixture_S ROps false (IdealEntropyModel_call (mixenvR Rg) models) Sex ph (sparse_items ROps m) T P = Ok (Some s) /\
              s - dotR m ss = - Rg * mixterm (sumR m) m.
(* The generated IdealEntropyModel (ideal_mixture_model.py:111) adds + n ln x without R, so the
   statement is refuted for every R > 0 (witness: two components with n = [1; 1]) ... *)
Theorem C07_mix_entropy_refuted : forall Rg, 0 < Rg -> ~ mix_entropy_statement Rg.
Proof. exact mix_entropy_refuted_lemma. Qed.
Print Assumptions C07_mix_entropy_refuted.

(* ... and what does hold: the code's mixing term is + sum n_i ln x_i (the ideal term divided by -R) *)
Theorem C07_mix_entropy_partial : forall Rg (models : list (phase -> option R -> option R -> pyv R)) Sex ss ph m T P,
  models_give (fun f => f ph T P) models ss -> length m = length ss -> all_nonneg m -> 0 < sumR m ->
  exists s, Mixture_S ROps false (IdealEntropyModel_call (mixenvR Rg) models) Sex ph (sparse_items ROps m) T P = Ok (Some s) /\
            s - dotR m ss = mixterm (sumR m) m.
Proof. exact mix_entropy_partial_lemma. Qed.
Print Assumptions C07_mix_entropy_partial.

(* "mixing at equal T and P never lowers S", the FULL statement: *)
Definition mixing_never_lowers_S_statement (Rg : R) : Prop :=
  forall (models : list (phase -> option R -> option R -> pyv R)) Sex ss ph m m' T P,
    models_give (fun f => f ph T P) models ss -> length m = length ss -> length m' = length ss ->
    all_nonneg m -> all_nonneg m' -> 0 < sumR m -> 0 < sumR m' ->
    exists s s' s2,
      Mixture_S ROps false (IdealEntropyModel_call (mixenvR Rg) models) Sex ph (sparse_items ROps m) T P = Ok (Some s) /\
      Mixture_S ROps false (IdealEntropyModel_call (mixenvR Rg) models) Sex ph (sparse_items ROps m') T P = Ok (Some s') /\
      Mixture_S ROps false (IdealEntropyModel_call (mixenvR Rg) models) Sex ph (sparse_items ROps (vaddR m m')) T P = Ok (Some s2) /\
      s + s' <= s2.
(* it is refuted (witness: [1; 0] mixed with [0; 1]) ... *)
Theorem C07_mixing_never_lowers_S_refuted : forall Rg, ~ mixing_never_lowers_S_statement Rg.
Proof. exact mixing_never_lowers_S_refuted_lemma. Qed.
Print Assumptions C07_mixing_never_lowers_S_refuted.

(* ... in the code as it is, mixing never RAISES S (log-sum inequality with the inverted sign) ... *)
Theorem C07_mixing_never_raises_S_partial : forall Rg (models : list (phase -> option R -> option R -> pyv R)) Sex ss ph m m' T P,
  models_give (fun f => f ph T P) models ss -> length m = length ss -> length m' = length ss ->
  all_nonneg m -> all_nonneg m' -> 0 < sumR m -> 0 < sumR m' ->
  exists s s' s2,
    Mixture_S ROps false (IdealEntropyModel_call (mixenvR Rg) models) Sex ph (sparse_items ROps m) T P = Ok (Some s) /\
    Mixture_S ROps false (IdealEntropyModel_call (mixenvR Rg) models) Sex ph (sparse_items ROps m') T P = Ok (Some s') /\
    Mixture_S ROps false (IdealEntropyModel_call (mixenvR Rg) models) Sex ph (sparse_items ROps (vaddR m m')) T P = Ok (Some s2) /\
    s2 <= s + s'.
Proof. exact mixing_never_raises_S_lemma. Qed.
Print Assumptions C07_mixing_never_raises_S_partial.

(* ... while the ideal mixing entropy named by the property does satisfy it (log-sum inequality) *)
Theorem C07_ideal_mixing_never_lowers_S : forall Rg ss m m', 0 <= Rg ->
  length m = length m' -> all_nonneg m -> all_nonneg m' -> 0 < sumR m -> 0 < sumR m' ->
  S_ideal Rg ss m + S_ideal Rg ss m' <= S_ideal Rg ss (vaddR m m').
Proof. exact ideal_mixing_never_lowers_S_lemma. Qed.
Print Assumptions C07_ideal_mixing_never_lowers_S.

(* ---------------- when the wiring is rebuilt ---------------- *)

(* After ANY history of reset_free_energies / copy / in-place change of a handle followed by reset /
   copy_models_from(names) / at_state(ph) / at_state(ph, copy=True) / phase_ref, Tm, Tb, Hfus, Sfus setters, starting from chemicals that
   were wired from their own fields at distinct handle addresses, EVERY chemical in the store still has
   H / S functors that (i) refer to its own heat-capacity handle objects and (ii) were built by the generated
   wiring from exactly its own current inputs and (iii) are not left-over per-phase functors of a former
   multi-phase handle -- where the guards under which each method rebuilds are the
   ones generated from _chemical.py (Gen_Rewire.v).  No axioms. *)
Theorem C07_wiring_follows_own_inputs :
  forall (Cc Hc Sc : Type) (d0 : Cc) (merge_cn : cnkind -> cnkind -> Cc -> Cc -> Cc)
         (s : state Cc Hc Sc) (ops : list (op Cc Hc Sc)) (c : chem Cc Hc Sc),
    inv Cc Hc Sc d0 s -> In c (snd (run Cc Hc Sc d0 merge_cn s ops)) ->
    w_cn _ _ _ c = c_cn _ _ _ c /\
    w_in _ _ _ c = current Cc Hc Sc d0 (fst (run Cc Hc Sc d0 merge_cn s ops)) c /\
    w_narrow _ _ _ c = None.
Proof. exact wiring_is_own. Qed.
Print Assumptions C07_wiring_follows_own_inputs.

(* the invariant holds for a newly constructed chemical *)
Example C07_inv_satisfiable : forall (Cc Hc Sc : Type) (d0 : Cc) h k p sc hv addr, (addr < length h)%nat ->
  inv Cc Hc Sc d0 (h, fresh Cc Hc Sc d0 h k p sc hv addr :: nil).
Proof. exact inv_fresh1. Qed.

(* The constructor.  Chemical(ID, ..., Hvap=<user model>, default=<bool>, method=<name>) (no phase=), for ANY arguments and
   any effect of set_method / default() on the handles and data: the chemical it returns HAS H / S functors, and they are the
   generated wiring of the inputs the chemical has WHEN THE CONSTRUCTOR RETURNS (its state satisfies the invariant of
   C07_wiring_follows_own_inputs, so every later history keeps it).  With C07_jump_vap this is the clause "the jump at the
   normal boiling point equals the heat of vaporisation" for chemicals built with method=: the Hvap(Tb) inside the
   functors is the value of the model the chemical answers with.  Rests on the ORDER of the constructor's statements,
   generated from Chemical.__new__ (Gen_Rewire.ctor_tail: reset_free_energies is the last one; what seeded change C07-13 broke).
   No axioms. *)
Theorem C07_constructor_wires_final_inputs :
  forall (Cc Hc Sc : Type) (d0 : Cc) (a : ctor_args Cc Hc Sc) h k p sc hv addr, (addr < length h)%nat ->
  exists c, snd (construct Cc Hc Sc d0 a h k p sc hv addr) = Some c /\
            inv Cc Hc Sc d0 (fst (construct Cc Hc Sc d0 a h k p sc hv addr), c :: nil).
Proof. exact construct_wired. Qed.
Print Assumptions C07_constructor_wires_final_inputs.

(* non-vacuity / the case the seeded change needs: method= switches the Hvap model (1 -> 2); the functors hold 2 *)
Example C07_constructor_method_reaches_functors :
  let r := construct nat nat unit 0%nat (mkCtor nat nat unit None None (Some ((fun _ => 2%nat), (fun x => x)))) (7%nat :: nil) CnHandle Pl tt 1%nat 0%nat in
  option_map (fun c => (c_hv _ _ _ c, i_hv _ _ _ (w_in _ _ _ c))) (snd r) = Some (2%nat, 2%nat).
Proof. reflexivity. Qed.

(* ---------------- phase labels ---------------- *)

(* For each of the five phase labels ('s' 'l' 'g' and the second solid / liquid phases 'S' 'L') the heat-capacity handle
   (PhaseTHandle: Chemical.Cn) and the enthalpy / entropy handles (PhaseTPHandle: Chemical.H, .S) select the model of the
   SAME phase, namely the canonical one -- so C07_dH_dT / C07_dS_dT (stated over the three phases) hold for every label,
   also inside the mixture models, which pass the label through.  Both dispatch tables are generated from
   base/phase_handle.py (Gen_PhaseHandle.v).  No axioms. *)
Theorem C07_phase_labels_agree : forall l : label,
  PhaseTHandle_dispatch l = Some (canonical_phase l) /\ PhaseTPHandle_dispatch l = Some (canonical_phase l).
Proof. exact phase_labels_agree. Qed.
Print Assumptions C07_phase_labels_agree.

(* ---------------- model handles keep no state between calls ---------------- *)

(* In any history of calls handle(T) and method switches (handle.method = m), every call returns the value of the
   method selected AT THAT MOMENT -- never a value remembered from an earlier call.  Whether __call__ is stateless
   is generated from thermosteam/thermo/t_dependent_property.py (Gen_Handles.v).  It is what makes "Chemical.Cn(phase, T)"
   in C07_dH_dT and "Hvap(Tb)" in C07_jump_vap the chemical's current model.  No axioms. *)
Theorem C07_handle_returns_current_model : forall (Tt V : Type) (eqT : Tt -> Tt -> bool) (value : nat -> Tt -> V)
    (ops : list (Handles.hop Tt)) (h : Handles.handle Tt V) (m : nat) (T : Tt) (v : V),
  In (m, T, v) (Handles.hrun Tt V eqT value h ops) -> v = value m T.
Proof. exact handle_returns_current. Qed.
Print Assumptions C07_handle_returns_current_model.

(* ---------------- property packages ---------------- *)

(* The ideal mixture models pair flows with pure-component functors by position, and (generated from mixture/mixture.py:
   mixture_models_live = false) they keep the functor OBJECTS they found when the mixture was built.
   [same c s s'] says that chemical c has the same H / S functor objects in store states s and s'; an entry
   [(c, Some s)] tracks the current state when they are still the chemical's objects.

   FULL statement of the clause "mixture H / S are the mole-weighted sums of the pure values" for packages: after ANY
   history of Thermo(chemicals), subset, extended, ideal, interleaved with ANY changes of the chemicals, every package's
   models are in the package's own order and evaluate the functors its chemicals have NOW. *)
Definition package_mixture_aligned_statement : Prop :=
  forall (St : Type) (same : nat -> St -> St -> bool), (forall c s, same c s s = true) ->
  forall (st0 : St) (ops : list (pop St)) (p : pkg St), In p (snd (prun St same (st0, nil) ops)) ->
    map fst (p_models p) = p_chems p /\
    List.Forall (entry_tracks St same (fst (prun St same (st0, nil) ops))) (p_models p).

(* refuted: Thermo([chemical 0]) is built, then the functors of chemical 0 are rebuilt (phase_ref / Tb / Tm setter,
   reset_free_energies, copy_models_from, at_state): the package still evaluates the discarded objects *)
Theorem C07_package_mixture_aligned_refuted : ~ package_mixture_aligned_statement.
Proof.
  intros ST. destruct witness_package_is_stale as (p & e & Hp & He & N).
  destruct (ST nat wit_same (fun c s => PeanoNat.Nat.eqb_refl s) 0%nat wit_ops p Hp) as [_ F].
  apply N. rewrite List.Forall_forall in F. exact (F e He).
Qed.
Print Assumptions C07_package_mixture_aligned_refuted.

(* partial 1: the ORDER is right after any history at all (what seeded change C07-6 broke) *)
Theorem C07_package_mixture_ordered : forall (St : Type) (same : nat -> St -> St -> bool) (st0 : St) (ops : list (pop St)) (p : pkg St),
  In p (snd (prun St same (st0, nil) ops)) -> map fst (p_models p) = p_chems p.
Proof. exact packages_ordered. Qed.
Print Assumptions C07_package_mixture_ordered.

(* partial 2: as long as no chemical is changed after the first package exists (whatever was done to the chemicals before
   is in st0), every package -- built, re-derived by subset / extended, shared by ideal, or LOADED FROM A PICKLE together
   with its chemicals (PLoad with load_ok: the round trip copies the object graph; generated: unpickle_chemical keeps the
   pickled functor objects, what seeded change C07-11 broke) -- evaluates the current functors of its own chemicals *)
Theorem C07_package_mixture_aligned_partial : forall (St : Type) (same : nat -> St -> St -> bool),
  (forall c s, same c s s = true) ->
  forall (st0 : St) (ops : list (pop St)) (p : pkg St),
    List.Forall (no_chem St same) ops -> In p (snd (prun St same (st0, nil) ops)) ->
    List.Forall (entry_tracks St same (fst (prun St same (st0, nil) ops))) (p_models p).
Proof. exact packages_track_without_chemical_changes. Qed.
Print Assumptions C07_package_mixture_aligned_partial.

(* partial 3: the S0 / Hfus / Sfus setters write the datum into the EXISTING functor objects of the chemical (generated:
   reset_energy_constant patches in place), so the functor objects of every chemical are the same before and after --
   a package that tracked the chemical keeps tracking it and sees the new datum (what seeded change C07-7 broke) *)
Theorem C07_constant_setters_keep_functor_objects :
  forall (Cc Hc Sc : Type) (d0 : Cc) (merge_cn : cnkind -> cnkind -> Cc -> Cc -> Cc)
         (s : state Cc Hc Sc) (i : nat) (w : scalar_name) (f : Sc -> Sc),
    w = WHfus \/ w = WSfus \/ w = WS0 ->
    map (w_ver Cc Hc Sc) (snd (step Cc Hc Sc d0 merge_cn s (OSetSc Cc Hc Sc i w f))) = map (w_ver Cc Hc Sc) (snd s).
Proof. exact constant_setters_keep_functor_objects. Qed.
Print Assumptions C07_constant_setters_keep_functor_objects.

(* non-vacuity: the hypotheses are satisfiable *)
Example C07_chem_ok_satisfiable : chem_ok (fun _ _ => 75) (fun _ => 40650) 298 101325 273 373.
Proof. exact chem_ok_example. Qed.
Example C07_chem_ok_sublimes_satisfiable : chem_ok (fun _ _ => 40) (fun _ => 25000) 298 101325 217 195.
Proof. exact chem_ok_sublimes_example. Qed.
Example C07_models_give_satisfiable :
  models_give (fun f : phase -> option R -> option R -> pyv R => f Pl None None) [const_model 1; const_model 2] [1; 2].
Proof. exact models_give_example. Qed.
