(* C07 -- every package derived by any history of Thermo(...), subset, extended, ideal keeps its mixture
   models aligned with its own chemicals. *)
From Coq Require Import List Bool.
From V Require Import C07.Gen_Packages C07.Packages.
Import ListNotations.

Definition aligned (p : pkg) : Prop := p_models p = p_chems p.

Lemma subset_aligned p sel : aligned (subset_of p sel).
Proof.
  unfold aligned, subset_of, IdealThermo_subset_rebuilds_mixture, Thermo_subset_rebuilds_mixture, mixture_models_of.
  destruct (p_ideal p); reflexivity.
Qed.

Lemma pstep_aligned s o : Forall aligned s -> Forall aligned (pstep s o).
Proof.
  intros F. destruct o as [cs|i sel|i extra|i]; simpl.
  - apply Forall_app; split; [exact F|]. constructor; [reflexivity | constructor].
  - destruct (nth_error s i) as [p|]; [|exact F]. apply Forall_app; split; [exact F|].
    constructor; [apply subset_aligned | constructor].
  - destruct (nth_error s i) as [p|]; [|exact F]. apply Forall_app; split; [exact F|].
    constructor; [apply subset_aligned | constructor].
  - destruct (nth_error s i) as [p|] eqn:Hi; [|exact F]. apply Forall_app; split; [exact F|].
    constructor; [|constructor].
    assert (A : aligned p) by (rewrite Forall_forall in F; apply F; eapply nth_error_In; eauto).
    destruct (p_ideal p); [exact A|]. unfold ideal_shares_chemicals_and_mixture. exact A.
Qed.

Lemma prun_aligned ops : forall s, Forall aligned s -> Forall aligned (prun s ops).
Proof.
  induction ops as [|o ops IH]; intros s F; simpl; [exact F|]. apply IH. apply pstep_aligned. exact F.
Qed.

Lemma packages_aligned ops p : In p (prun [] ops) -> p_models p = p_chems p.
Proof.
  intros Hin. pose proof (prun_aligned ops [] (Forall_nil _)) as F. rewrite Forall_forall in F. exact (F p Hin).
Qed.
