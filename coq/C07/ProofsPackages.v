(* C07 -- property packages: order of the mixture models (always the package's own), and whether they evaluate the
   chemicals' CURRENT functors (only while no member's functors were rebuilt since the mixture was derived). *)
From Coq Require Import List Bool Lia.
From V Require Import C07.Gen_Packages C07.Model C07.Gen_Rewire C07.Packages.
Import ListNotations.

Section Facts.
  Variable St : Type.
  Variable same : nat -> St -> St -> bool.
  Notation pstep := (pstep St same).
  Notation prun := (prun St same).

  (* ---- order: index i of the mixture is a model of the i-th chemical of the package, after ANY history ---- *)
  Definition ordered (p : pkg St) : Prop := map fst (p_models p) = p_chems p.

  Lemma build_ordered b st cs : ordered (mkPkg b cs (build_models St st cs)).
  Proof. unfold ordered, build_models, mixture_models_of. simpl. rewrite map_map. simpl. apply map_id. Qed.

  Lemma subset_ordered st p sel : ordered (subset_of St st p sel).
  Proof.
    unfold subset_of, IdealThermo_subset_rebuilds_mixture, Thermo_subset_rebuilds_mixture.
    destruct (p_ideal p); apply build_ordered.
  Qed.

  Lemma pstep_ordered s o : Forall ordered (snd s) -> Forall ordered (snd (pstep s o)).
  Proof.
    assert (R : forall (rf : nat * option St -> nat * option St), (forall e, fst (rf e) = fst e) ->
                forall ps, Forall ordered ps ->
                Forall ordered (map (fun q => mkPkg (p_ideal q) (p_chems q) (map rf (p_models q))) ps)).
    { intros rf Hrf ps0 F0. apply Forall_forall. intros p Hp. apply in_map_iff in Hp. destruct Hp as (q & <- & Hq).
      rewrite Forall_forall in F0. specialize (F0 q Hq). unfold ordered in *. simpl. rewrite map_map.
      rewrite <- F0. apply map_ext. exact Hrf. }
    destruct s as [st ps]. intros F. simpl in F. destruct o as [cs|i sel|i extra|i|f|i ren g rb]; simpl.
    - apply Forall_app; split; [exact F|]. constructor; [apply build_ordered | constructor].
    - destruct (nth_error ps i) as [p|]; [|exact F]. simpl. apply Forall_app; split; [exact F|].
      constructor; [apply subset_ordered | constructor].
    - destruct (nth_error ps i) as [p|]; [|exact F]. simpl. apply Forall_app; split; [exact F|].
      constructor; [apply subset_ordered | constructor].
    - destruct (nth_error ps i) as [p|] eqn:Hi; [|exact F]. simpl. apply Forall_app; split; [exact F|].
      constructor; [|constructor].
      assert (A : ordered p) by (rewrite Forall_forall in F; apply F; eapply nth_error_In; eauto).
      destruct (p_ideal p); [exact A|]. unfold ideal_shares_chemicals_and_mixture. exact A.
    - apply R; [|exact F]. intros e. destruct (snd e) as [s0|]; [|reflexivity].
      destruct (same (fst e) s0 st && same (fst e) st (f st)); reflexivity.
    - destruct (nth_error ps i) as [p|] eqn:Hi; [|exact F]. simpl. apply Forall_app; split.
      + apply R; [|exact F]. intros e. destruct (snd e) as [s0|]; [|reflexivity].
        match goal with |- fst (if ?b then _ else _) = _ => destruct b; reflexivity end.
      + constructor; [|constructor].
        assert (A : ordered p) by (rewrite Forall_forall in F; apply F; eapply nth_error_In; eauto).
        unfold ordered in *. simpl. rewrite map_map. simpl. rewrite <- A. rewrite map_map. reflexivity.
  Qed.

  Lemma packages_ordered st0 ops p : In p (snd (prun (st0, []) ops)) -> map fst (p_models p) = p_chems p.
  Proof.
    assert (G : forall ops s, Forall ordered (snd s) -> Forall ordered (snd (prun s ops))).
    { induction ops0 as [|o ops0 IH]; intros s F; simpl; [exact F|]. apply IH. apply pstep_ordered. exact F. }
    intros Hin. pose proof (G ops (st0, []) (Forall_nil _)) as F. rewrite Forall_forall in F. exact (F p Hin).
  Qed.

  (* ---- currency, partial: as long as the chemicals are not changed, every package evaluates their current functors ---- *)
  Hypothesis same_refl : forall c s, same c s s = true.

  Definition tracking (cur : St) (p : pkg St) : Prop := Forall (entry_tracks St same cur) (p_models p).

  Lemma build_tracking b st cs : tracking st (mkPkg b cs (build_models St st cs)).
  Proof.
    unfold tracking, build_models. simpl. apply Forall_forall. intros e He. apply in_map_iff in He.
    destruct He as (c & <- & _). unfold entry_tracks. simpl. destruct mixture_models_live; first [exact I | apply same_refl].
  Qed.

  Lemma pstep_tracking s o : no_chem St same o -> Forall (tracking (fst s)) (snd s) ->
    Forall (tracking (fst (pstep s o))) (snd (pstep s o)).
  Proof.
    destruct s as [st ps]. intros NC F. simpl in F. destruct o as [cs|i sel|i extra|i|f|i ren g rb]; simpl; try contradiction.
    - apply Forall_app; split; [exact F|]. constructor; [apply build_tracking | constructor].
    - destruct (nth_error ps i) as [p|]; [|exact F]. simpl.
      apply Forall_app; split; [exact F|]. constructor; [|constructor].
      unfold subset_of, IdealThermo_subset_rebuilds_mixture, Thermo_subset_rebuilds_mixture. destruct (p_ideal p); apply build_tracking.
    - destruct (nth_error ps i) as [p|]; [|exact F]. simpl.
      apply Forall_app; split; [exact F|]. constructor; [|constructor].
      unfold subset_of, IdealThermo_subset_rebuilds_mixture, Thermo_subset_rebuilds_mixture. destruct (p_ideal p); apply build_tracking.
    - destruct (nth_error ps i) as [p|] eqn:Hi; [|exact F]. simpl.
      apply Forall_app; split; [exact F|]. constructor; [|constructor].
      assert (A : tracking st p) by (rewrite Forall_forall in F; apply F; eapply nth_error_In; eauto).
      destruct (p_ideal p); [exact A|]. unfold ideal_shares_chemicals_and_mixture. exact A.
    - (* pickle round trip: unpickle_chemical keeps the pickled functor objects (generated) *)
      destruct NC as [K1 K2].
      destruct (nth_error ps i) as [p|] eqn:Hi; [|exact F].
      unfold unpickle_rebuilds_functors. simpl. apply Forall_app; split.
      + apply Forall_forall. intros q' Hq. apply in_map_iff in Hq. destruct Hq as (q & <- & Hq).
        rewrite Forall_forall in F. specialize (F q Hq). unfold tracking in *. simpl.
        apply Forall_forall. intros e' He. apply in_map_iff in He. destruct He as (e & <- & He).
        rewrite Forall_forall in F. specialize (F e He). unfold entry_tracks in *.
        destruct (snd e) as [s0|] eqn:Es; [|rewrite Es; exact I].
        destruct (same (fst e) s0 st && same (fst e) st (g st)); simpl.
        * apply same_refl.
        * rewrite Es. apply K1. exact F.
      + constructor; [|constructor].
        assert (A : tracking st p) by (rewrite Forall_forall in F; apply F; eapply nth_error_In; eauto).
        unfold tracking in *. simpl. apply Forall_forall. intros e' He. apply in_map_iff in He. destruct He as (e & <- & He).
        rewrite Forall_forall in A. specialize (A e He). unfold entry_tracks in *. simpl.
        destruct (snd e) as [s0|]; simpl; [|exact I]. apply K2. exact A.
  Qed.

  Lemma packages_track_without_chemical_changes st0 ops p :
    Forall (no_chem St same) ops -> In p (snd (prun (st0, []) ops)) ->
    Forall (entry_tracks St same (fst (prun (st0, []) ops))) (p_models p).
  Proof.
    assert (G : forall ops s, Forall (no_chem St same) ops -> Forall (tracking (fst s)) (snd s) ->
                Forall (tracking (fst (prun s ops))) (snd (prun s ops))).
    { induction ops0 as [|o ops0 IH]; intros s NC F; simpl; [exact F|].
      inversion NC as [|? ? No NC']; subst. apply IH; [exact NC'|]. apply pstep_tracking; assumption. }
    intros NC Hin. pose proof (G ops (st0, []) NC (Forall_nil _)) as F.
    rewrite Forall_forall in F. exact (F p Hin).
  Qed.
End Facts.

(* ---- currency, refuted in general: a package is built, then a member's functors are rebuilt ---- *)
(* store state = how often chemical 0 was rebuilt; its functor objects are the same iff that number is the same *)
Definition wit_same (c : nat) (s s' : nat) : bool := Nat.eqb s s'.
Definition wit_ops : list (pop nat) := [PNew [0%nat]; PChem S].

Lemma witness_package_is_stale :
  exists p e, In p (snd (prun nat wit_same (0%nat, []) wit_ops)) /\ In e (p_models p) /\
              ~ entry_tracks nat wit_same (fst (prun nat wit_same (0%nat, []) wit_ops)) e.
Proof.
  exists (mkPkg false [0%nat] [(0%nat, Some 0%nat)]), (0%nat, Some 0%nat).
  unfold wit_ops, prun, pstep, build_models, mixture_models_live, mixture_models_of. simpl.
  split; [left; reflexivity|]. split; [left; reflexivity|].
  unfold entry_tracks, wit_same. simpl. discriminate.
Qed.
