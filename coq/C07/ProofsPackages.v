(* C07 -- every package derived by any history of Thermo(...), subset, extended, ideal, interleaved with ANY
   changes of the chemicals, keeps its mixture models aligned with its own chemicals and evaluates their
   CURRENT functors. *)
From Coq Require Import List Bool.
From V Require Import C07.Gen_Packages C07.Packages.
Import ListNotations.

Section Facts.
  Variable St : Type.

  Definition aligned (p : pkg St) : Prop :=
    map fst (p_models p) = p_chems p /\ Forall (fun e => snd e = None) (p_models p).

  Lemma build_aligned st cs : aligned (mkPkg false cs (build_models St st cs)) /\
                              forall b, aligned (mkPkg b cs (build_models St st cs)).
  Proof.
    assert (A : forall b, aligned (mkPkg b cs (build_models St st cs))).
    { intros b. unfold aligned, build_models, mixture_models_live, mixture_models_of. simpl. split.
      - rewrite map_map. simpl. apply map_id.
      - apply Forall_forall. intros e He. apply in_map_iff in He. destruct He as (c & <- & _). reflexivity. }
    split; [apply A | exact A].
  Qed.

  Lemma subset_aligned st p sel : aligned (subset_of St st p sel).
  Proof.
    unfold subset_of, IdealThermo_subset_rebuilds_mixture, Thermo_subset_rebuilds_mixture.
    destruct (p_ideal p); apply build_aligned.
  Qed.

  Lemma pstep_aligned s o : Forall aligned (snd s) -> Forall aligned (snd (pstep St s o)).
  Proof.
    destruct s as [st ps]. intros F. simpl in F. destruct o as [cs|i sel|i extra|i|f]; simpl.
    - apply Forall_app; split; [exact F|]. constructor; [apply build_aligned | constructor].
    - destruct (nth_error ps i) as [p|]; [|exact F]. simpl. apply Forall_app; split; [exact F|].
      constructor; [apply subset_aligned | constructor].
    - destruct (nth_error ps i) as [p|]; [|exact F]. simpl. apply Forall_app; split; [exact F|].
      constructor; [apply subset_aligned | constructor].
    - destruct (nth_error ps i) as [p|] eqn:Hi; [|exact F]. simpl. apply Forall_app; split; [exact F|].
      constructor; [|constructor].
      assert (A : aligned p) by (rewrite Forall_forall in F; apply F; eapply nth_error_In; eauto).
      destruct (p_ideal p); [exact A|]. unfold ideal_shares_chemicals_and_mixture. exact A.
    - exact F.
  Qed.

  Lemma prun_aligned ops : forall s, Forall aligned (snd s) -> Forall aligned (snd (prun St s ops)).
  Proof.
    induction ops as [|o ops IH]; intros s F; simpl; [exact F|]. apply IH. apply pstep_aligned. exact F.
  Qed.

  Lemma packages_aligned st0 ops p : In p (snd (prun St (st0, []) ops)) ->
    map fst (p_models p) = p_chems p /\ Forall (fun e => snd e = None) (p_models p).
  Proof.
    intros Hin. pose proof (prun_aligned ops (st0, []) (Forall_nil _)) as F. rewrite Forall_forall in F. exact (F p Hin).
  Qed.
End Facts.
