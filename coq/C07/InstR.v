(* C07 -- the generated model instantiated over R (definitions only; the theorems are in
   ProofsPure.v / ProofsMix.v).  I ph a b := RInt (Cn ph) a b, J ph a b := RInt (fun t => Cn ph t / t) a b,
   math.log := ln on x > 0. *)
From Coq Require Import Reals Qreals.
From Coquelicot Require Import Coquelicot.
From V Require Import Common.Num C07.Model C07.Gen_FreeEnergy C07.Gen_InitEnergies C07.Gen_MixtureModels.
Open Scope R_scope.

Definition is0R (x : R) : bool := if Req_EM_T x 0 then true else false.
Definition posR (x : R) : bool := if Rlt_dec 0 x then true else false.

Definition ltR (x y : R) : bool := if Rlt_dec x y then true else false.

Definition ROps : Ops R := mkOps R Rplus Rminus Rmult Rdiv Ropp Q2R is0R posR ltR ln.

Section Pure.
  Variable Cn : phase -> R -> R.      (* heat capacity of each phase *)
  Variable Rg : R.                    (* gas constant *)
  Variable Hv : R -> R.               (* the Hvap handle *)
  Variables T_ref P_ref H_ref S0 Hfus Sfus Tm Tb : R.

  Definition II (ph : phase) (a b : R) : R := RInt (Cn ph) a b.
  Definition JJ (ph : phase) (a b : R) : R := RInt (fun t => Cn ph t / t) a b.

  Definition envR : env R :=
    mkEnv R ROps (fun ph a b => Ok (II ph a b)) (fun ph a b => Ok (JJ ph a b)) Rg.

  (* a chemical with complete data and a method on every heat-capacity handle *)
  Definition dataR : chemdata R :=
    mkChem R (Some T_ref) (Some P_ref) (Some H_ref) (Some S0) (Some Hfus) (Some Sfus) (Some Tm) (Some Tb)
           (Some (fun t => Some (Hv t))) (fun _ => true).

  (* Chemical.H(phase, T, P) and Chemical.S(phase, T, P) of the generated model, for a chemical
     whose Cn is a PhaseHandle (not phase-locked), reference phase [ref] *)
  Definition Hm (ref ph : phase) (T P : R) : pyv R :=
    do hs <- init_energies envR dataR CnHandle ref; call_handle (fst hs) ph (Some T) (Some P).
  Definition Sm (ref ph : phase) (T P : R) : pyv R :=
    do hs <- init_energies envR dataR CnHandle ref; call_handle (snd hs) ph (Some T) (Some P).

  (* a chemical locked at phase [sp] (its one heat-capacity model is that of phase sp) *)
  Definition Hlocked (sp ref : phase) (T P : R) : pyv R :=
    do hs <- init_energies envR dataR (CnLocked sp) ref; call_handle (fst hs) sp (Some T) (Some P).
  Definition Slocked (sp ref : phase) (T P : R) : pyv R :=
    do hs <- init_energies envR dataR (CnLocked sp) ref; call_handle (snd hs) sp (Some T) (Some P).

  (* closed forms (what the generated wiring + functors evaluate to; proved in ProofsPure.v) *)
  Definition Hx (ref ph : phase) (T : R) : R :=
    match ref, ph with
    | Ps, Ps => H_ref + II Ps T_ref T
    | Ps, Pl => H_ref + II Ps T_ref Tm + Hfus + II Pl Tm T
    | Ps, Pg => H_ref + II Ps T_ref Tm + Hfus + II Pl Tm Tb + Hv Tb + II Pg Tb T
    | Pl, Ps => H_ref - II Pl Tm T_ref - Hfus + II Ps Tm T
    | Pl, Pl => H_ref + II Pl T_ref T
    | Pl, Pg => H_ref + II Pl T_ref Tb + Hv Tb + II Pg Tb T
    | Pg, Ps => H_ref - II Pg Tb T_ref - Hv Tb - II Pl Tm Tb - Hfus + II Ps Tm T
    | Pg, Pl => H_ref - II Pg Tb T_ref - Hv Tb + II Pl Tb T
    | Pg, Pg => H_ref + II Pg T_ref T
    end.
  Definition Sx (ref ph : phase) (T P : R) : R :=
    match ref, ph with
    | Ps, Ps => S0 + JJ Ps T_ref T
    | Ps, Pl => S0 + JJ Ps T_ref Tm + Sfus + JJ Pl Tm T
    | Ps, Pg => S0 + JJ Ps T_ref Tm + Sfus + JJ Pl Tm Tb + Hv Tb / Tb + JJ Pg Tb T - Rg * ln (P / P_ref)
    | Pl, Ps => S0 - JJ Pl Tm T_ref - Sfus + JJ Ps Tm T
    | Pl, Pl => S0 + JJ Pl T_ref T
    | Pl, Pg => S0 + JJ Pl T_ref Tb + Hv Tb / Tb + JJ Pg Tb T - Rg * ln (P / P_ref)
    | Pg, Ps => S0 - JJ Pg Tb T_ref - Hv Tb / Tb - JJ Pl Tm Tb - Sfus + JJ Ps Tm T
    | Pg, Pl => S0 - JJ Pg Tb T_ref - Hv Tb / Tb + JJ Pl Tb T
    | Pg, Pg => S0 + JJ Pg T_ref T - Rg * ln (P / P_ref)
    end.
End Pure.

(* ---- mixtures over R ---- *)
Definition mixenvR (Rg : R) : env R :=
  mkEnv R ROps (fun _ _ _ => Err EOther) (fun _ _ _ => Err EOther) Rg.

Fixpoint dotR (m h : list R) : R :=
  match m, h with
  | x :: m', y :: h' => x * y + dotR m' h'
  | _, _ => 0
  end.
Fixpoint sumR (m : list R) : R := match m with [] => 0 | x :: t => x + sumR t end.
(* x ln (x / N), with the convention 0 ln 0 = 0 *)
Definition xlnx (N x : R) : R := if Req_EM_T x 0 then 0 else x * ln (x / N).
Fixpoint mixterm (N : R) (m : list R) : R :=
  match m with [] => 0 | x :: t => xlnx N x + mixterm N t end.
Fixpoint vaddR (a b : list R) : list R :=
  match a, b with x :: a', y :: b' => (x + y) :: vaddR a' b' | _, _ => [] end.
Definition vscaleR (k : R) (a : list R) : list R := map (Rmult k) a.
