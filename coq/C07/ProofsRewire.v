(* C07 -- after any history of copy / copy_models_from / at_state / setters / handle changes, the H / S
   functors of every chemical are the wiring of ITS OWN current inputs.  No real numbers here. *)
From V Require Import Common.Num C07.Model C07.Gen_Rewire C07.Rewire.
From Coq Require Import List Lia.
Import ListNotations.

Section Facts.
  Variables Cc Hc Sc : Type.
  Variable d0 : Cc.
  Variable merge_cn : cnkind -> cnkind -> Cc -> Cc -> Cc.

  Notation chem := (chem Cc Hc Sc).
  Notation state := (state Cc Hc Sc).
  Notation hget := (hget Cc d0).
  Notation current := (current Cc Hc Sc d0).
  Notation rewire := (rewire Cc Hc Sc d0).
  Notation step := (step Cc Hc Sc d0 merge_cn).
  Notation run := (run Cc Hc Sc d0 merge_cn).

  (* the functors refer to the chemical's own handles and were built from its current inputs *)
  Definition consistent (h : list Cc) (c : chem) : Prop :=
    w_cn _ _ _ c = c_cn _ _ _ c /\ w_in _ _ _ c = current h c /\ w_narrow _ _ _ c = None.

  Definition wf (s : state) : Prop :=
    (forall c, In c (snd s) -> (c_cn _ _ _ c < length (fst s))%nat) /\ NoDup (map (c_cn _ _ _) (snd s)).

  Definition inv (s : state) : Prop := wf s /\ Forall (consistent (fst s)) (snd s).

  (* ---- lists ---- *)
  Lemma upd_length {X} (l : list X) i x : length (upd l i x) = length l.
  Proof. revert i; induction l as [|y l IH]; intros [|i]; simpl; auto. Qed.

  Lemma In_upd {X} (l : list X) i x y : In y (upd l i x) -> y = x \/ In y l.
  Proof.
    revert i; induction l as [|z l IH]; intros [|i]; simpl; auto.
    - intros [E|H]; auto.
    - intros [E|H]; auto. destruct (IH _ H); auto.
  Qed.

  Lemma Forall_upd {X} (P : X -> Prop) l i x : Forall P l -> P x -> Forall P (upd l i x).
  Proof.
    intros HF Hx. apply Forall_forall. intros y Hy. destruct (In_upd _ _ _ _ Hy) as [->|H]; auto.
    rewrite Forall_forall in HF. auto.
  Qed.

  Lemma map_upd_same {X Y} (f : X -> Y) l i x c :
    nth_error l i = Some c -> f x = f c -> map f (upd l i x) = map f l.
  Proof.
    revert i; induction l as [|z l IH]; intros [|i]; simpl; try discriminate.
    - intros [= ->] E. rewrite E. reflexivity.
    - intros H E. rewrite (IH _ H E). reflexivity.
  Qed.

  Lemma NoDup_map_upd_fresh {X} (f : X -> nat) l i x :
    NoDup (map f l) -> ~ In (f x) (map f l) -> NoDup (map f (upd l i x)).
  Proof.
    revert i; induction l as [|z l IH]; intros [|i] ND NI; simpl in *; auto.
    - inversion ND; subst. constructor; auto.
    - inversion ND as [|? ? Hz ND']; subst. constructor.
      + intros C. apply in_map_iff in C. destruct C as (y & Ey & Hy).
        destruct (In_upd _ _ _ _ Hy) as [->|H].
        * apply NI. left. auto.
        * apply Hz. rewrite <- Ey. apply in_map. exact H.
      + apply IH; auto.
  Qed.

  Lemma Forall_upd_nth {X} (P : X -> Prop) l i x :
    (forall k y, nth_error l k = Some y -> k <> i -> P y) -> P x -> Forall P (upd l i x).
  Proof.
    revert i; induction l as [|z l IH]; intros [|i] H Hx; simpl; auto.
    - constructor; auto. apply Forall_forall. intros y Hy. apply In_nth_error in Hy. destruct Hy as [k Hk].
      apply (H (S k) y); [exact Hk | lia].
    - constructor.
      + apply (H 0%nat z); [reflexivity | lia].
      + apply IH; auto. intros k y Hk NE. apply (H (S k) y); [exact Hk | lia].
  Qed.

  Lemma NoDup_snoc {X} (l : list X) x : NoDup l -> ~ In x l -> NoDup (l ++ [x]).
  Proof.
    induction l as [|y l IH]; intros ND NI; simpl.
    - constructor; [intros [] | constructor].
    - inversion ND; subst. constructor.
      + intros C. apply in_app_or in C. destruct C as [C|[C|[]]]; [contradiction | subst; apply NI; left; reflexivity].
      + apply IH; auto. intros C. apply NI. right. exact C.
  Qed.

  Lemma NoDup_map_nth {X} (f : X -> nat) l k i y c :
    NoDup (map f l) -> nth_error l k = Some y -> nth_error l i = Some c -> k <> i -> f y <> f c.
  Proof.
    intros ND Hk Hi NE E. apply NE.
    apply (proj1 (NoDup_nth_error (map f l)) ND).
    - rewrite map_length. apply nth_error_Some. rewrite Hk. discriminate.
    - rewrite (map_nth_error f _ _ Hk), (map_nth_error f _ _ Hi), E. reflexivity.
  Qed.

  Lemma hget_app (h l : list Cc) k : (k < length h)%nat -> hget (h ++ l) k = hget h k.
  Proof. intros H. unfold Rewire.hget. apply app_nth1. exact H. Qed.
  Lemma hget_app_new (h : list Cc) x : hget (h ++ [x]) (length h) = x.
  Proof. unfold Rewire.hget. rewrite app_nth2 by lia. rewrite Nat.sub_diag. reflexivity. Qed.

  Lemma hget_upd_other (h : list Cc) k k' x : k <> k' -> hget (upd h k' x) k = hget h k.
  Proof.
    unfold Rewire.hget. revert k k'; induction h as [|y h IH]; intros [|k] [|k'] NE; simpl; auto; try congruence.
  Qed.

  (* ---- consistency ---- *)
  Lemma consistent_rewire h c : consistent h (rewire h c).
  Proof. repeat split; reflexivity. Qed.

  (* writing the new datum into the existing functors keeps them the wiring of the chemical's own inputs *)
  Lemma consistent_patch h c f :
    consistent h c -> consistent h (patch Cc Hc Sc (set_sc Cc Hc Sc c (f (c_sc _ _ _ c))) f).
  Proof.
    intros (A & B & N). repeat split; simpl; auto.
    rewrite B. reflexivity.
  Qed.

  Lemma consistent_heap_ext h h' c :
    hget h' (c_cn _ _ _ c) = hget h (c_cn _ _ _ c) -> consistent h c -> consistent h' c.
  Proof.
    intros E (A & B & N). split; [exact A|]. split; [|exact N]. rewrite B. unfold Rewire.current. rewrite E. reflexivity.
  Qed.

  Lemma in_nth_error {X} (l : list X) i c : nth_error l i = Some c -> In c l.
  Proof. apply nth_error_In. Qed.

  (* a step that replaces chemical i by a consistent chemical with the same handle address, heap unchanged *)
  Lemma inv_replace_same h cs i c c' :
    inv (h, cs) -> nth_error cs i = Some c -> c_cn _ _ _ c' = c_cn _ _ _ c -> consistent h c' ->
    inv (h, upd cs i c').
  Proof.
    intros [[B ND] F] Hi E C. split; [split|]; simpl in *.
    - intros y Hy. destruct (In_upd _ _ _ _ Hy) as [->|H]; auto. rewrite E. apply B. eapply in_nth_error; eauto.
    - rewrite (map_upd_same _ _ _ _ _ Hi E). exact ND.
    - apply Forall_upd; assumption.
  Qed.

  Lemma mem_rebuilds names :
    mname_mem MCn names = true \/ mname_mem MHvap names = true -> copy_models_rebuilds names = true.
  Proof.
    unfold copy_models_rebuilds, mname_mem. intros [H|H]; apply existsb_exists in H; destruct H as (x & Hx & E);
      apply existsb_exists; exists x; split; auto; destruct x; simpl in *; try discriminate; reflexivity.
  Qed.

  Lemma step_inv s o : inv s -> inv (step s o).
  Proof.
    destruct s as [h cs]. intros I. pose proof I as [[B ND] F]. simpl in B, ND, F.
    destruct o as [i|i|i x|i x|i j names|i ph|i ph|i p|i w f]; unfold Rewire.step, on_chem; simpl fst; simpl snd.
    - (* reset *)
      destruct (nth_error cs i) as [c|] eqn:Hi; [|exact I]. simpl.
      apply (inv_replace_same h cs i c); auto. apply consistent_rewire.
    - (* copy *)
      destruct (nth_error cs i) as [a|] eqn:Hi; [|exact I].
      unfold copy_rebuilds_from_own, rewire_if.
      split; [split|]; simpl.
      + intros c Hin. rewrite app_length; simpl. apply in_app_or in Hin. destruct Hin as [Hin|[<-|[]]].
        * specialize (B c Hin). lia.
        * simpl. lia.
      + rewrite map_app. simpl. apply NoDup_snoc.
        * exact ND.
        * intros C. apply in_map_iff in C. destruct C as (y & Ey & Hy). specialize (B y Hy). lia.
      + apply Forall_app. split.
        * apply Forall_forall. intros c Hin. rewrite Forall_forall in F.
          apply (consistent_heap_ext h); [apply hget_app; auto | auto].
        * constructor; [apply consistent_rewire | constructor].
    - (* in-place change of the handle set, then reset *)
      destruct (nth_error cs i) as [c|] eqn:Hi; [|exact I]. simpl.
      unfold reset_rebuilds_from_own, rewire_if.
      split; [split|]; simpl.
      + intros y Hy. rewrite upd_length. destruct (In_upd _ _ _ _ Hy) as [->|H]; auto.
        simpl. apply B. eapply in_nth_error; eauto.
      + rewrite (map_upd_same _ _ _ _ _ Hi); [exact ND | reflexivity].
      + apply Forall_upd_nth; [|apply consistent_rewire].
        intros k y Hk NE. rewrite Forall_forall in F.
        apply (consistent_heap_ext h); [|apply F; eapply in_nth_error; eauto].
        apply hget_upd_other. exact (NoDup_map_nth _ cs k i y c ND Hk Hi NE).
    - (* Hvap handle changed, then reset *)
      destruct (nth_error cs i) as [c|] eqn:Hi; [|exact I]. simpl.
      apply (inv_replace_same h cs i c); auto. apply consistent_rewire.
    - (* copy_models_from *)
      destruct (nth_error cs j) as [b|] eqn:Hj; [|exact I].
      destruct (nth_error cs i) as [a|] eqn:Hi; [|exact I]. simpl.
      destruct (mname_mem MCn names) eqn:MC.
      + rewrite (mem_rebuilds names (or_introl MC)). unfold rewire_if. simpl.
        split; [split|]; simpl.
        * intros y Hy. rewrite app_length; simpl. destruct (In_upd _ _ _ _ Hy) as [->|H].
          -- destruct (mname_mem MHvap names); simpl; lia.
          -- specialize (B y H). lia.
        * apply NoDup_map_upd_fresh; [exact ND|].
          intros C. apply in_map_iff in C. destruct C as (y & Ey & Hy). specialize (B y Hy).
          destruct (mname_mem MHvap names); simpl in Ey; lia.
        * apply Forall_upd; [|apply consistent_rewire].
          apply Forall_forall. intros y Hy. rewrite Forall_forall in F.
          apply (consistent_heap_ext h); [apply hget_app; auto | auto].
      + simpl. destruct (mname_mem MHvap names) eqn:MH.
        * rewrite (mem_rebuilds names (or_intror MH)). unfold rewire_if.
          apply (inv_replace_same h cs i a); auto. apply consistent_rewire.
        * (* nothing the wiring depends on was copied *)
          destruct (copy_models_rebuilds names); unfold rewire_if.
          -- apply (inv_replace_same h cs i a); auto. apply consistent_rewire.
          -- apply (inv_replace_same h cs i a); auto. rewrite Forall_forall in F. apply F. eapply in_nth_error; eauto.
    - (* at_state *)
      destruct (nth_error cs i) as [c|] eqn:Hi; [|exact I]. simpl. unfold at_state_on.
      destruct (c_kind _ _ _ c) eqn:K; simpl.
      + unfold at_state_rebuilds, at_state_default_flag, rewire_if. apply (inv_replace_same h cs i c); auto. apply consistent_rewire.
      + apply (inv_replace_same h cs i c); auto. rewrite Forall_forall in F. apply F. eapply in_nth_error; eauto.
      + apply (inv_replace_same h cs i c); auto. rewrite Forall_forall in F. apply F. eapply in_nth_error; eauto.
    - (* at_state(copy=True) *)
      destruct (nth_error cs i) as [a|] eqn:Hi; [|exact I].
      assert (Ca : consistent h a) by (rewrite Forall_forall in F; apply F; eapply in_nth_error; eauto).
      set (b := rewire_if Cc Hc Sc d0 copy_rebuilds_from_own (h ++ [hget h (c_cn Cc Hc Sc a)]) (set_cn Cc Hc Sc a (length h))).
      assert (Eb : c_cn _ _ _ b = length h) by reflexivity.
      assert (Cb : consistent (h ++ [hget h (c_cn Cc Hc Sc a)]) b) by (apply consistent_rewire).
      set (b' := at_state_on Cc Hc Sc d0 (at_state_copy_inner_flag at_state_default_flag) (h ++ [hget h (c_cn Cc Hc Sc a)]) b ph).
      assert (Eb' : c_cn _ _ _ b' = length h /\ consistent (h ++ [hget h (c_cn Cc Hc Sc a)]) b').
      { unfold b', at_state_on. destruct (c_kind _ _ _ b) eqn:K.
        - unfold at_state_copy_inner_flag, at_state_rebuilds, at_state_default_flag, rewire_if. split; [reflexivity | apply consistent_rewire].
        - split; assumption.
        - split; assumption. }
      destruct Eb' as [Eb' Cb'].
      split; [split|]; simpl.
      + intros c Hin. rewrite app_length; simpl. apply in_app_or in Hin. destruct Hin as [Hin|[<-|[]]].
        * specialize (B c Hin). lia.
        * rewrite Eb'. lia.
      + rewrite map_app. simpl. apply NoDup_snoc; [exact ND|]. rewrite Eb'.
        intros C. apply in_map_iff in C. destruct C as (y & Ey & Hy). specialize (B y Hy). lia.
      + apply Forall_app. split.
        * apply Forall_forall. intros c Hin. rewrite Forall_forall in F.
          apply (consistent_heap_ext h); [apply hget_app; auto | auto].
        * constructor; [exact Cb' | constructor].
    - (* phase_ref setter *)
      destruct (nth_error cs i) as [c|] eqn:Hi; [|exact I]. simpl.
      unfold phase_ref_setter_rebuilds, rewire_if. apply (inv_replace_same h cs i c); auto. apply consistent_rewire.
    - (* Tm / Tb / Hfus / Sfus / S0 setters *)
      destruct (nth_error cs i) as [c|] eqn:Hi; [|exact I]. simpl.
      assert (Cc0 : consistent h c) by (rewrite Forall_forall in F; apply F; eapply in_nth_error; eauto).
      destruct w; unfold setter_rewires, setter_patches_in_place, Tm_setter_rebuilds, Tb_setter_rebuilds, Hfus_setter_patches,
        Sfus_setter_patches, S0_setter_patches;
        try (apply (inv_replace_same h cs i c); auto; apply consistent_rewire);
        (destruct energy_constant_creates_new_functors; simpl;
         [apply (inv_replace_same h cs i c); auto; apply consistent_rewire
         |apply (inv_replace_same h cs i c); auto; apply consistent_patch; exact Cc0]).
  Qed.

  Lemma run_inv ops : forall s, inv s -> inv (run s ops).
  Proof.
    induction ops as [|o ops IH]; intros s I; simpl; [exact I|]. apply IH. apply step_inv. exact I.
  Qed.

  (* hence: whatever is observed of chemical c (it is a function of w_in c) is what the generated wiring of its
     own current handles and constants gives *)
  Lemma wiring_is_own s ops c :
    inv s -> In c (snd (run s ops)) ->
    w_cn _ _ _ c = c_cn _ _ _ c /\ w_in _ _ _ c = current (fst (run s ops)) c /\ w_narrow _ _ _ c = None.
  Proof.
    intros I Hin. destruct (run_inv ops s I) as [_ F]. rewrite Forall_forall in F. exact (F c Hin).
  Qed.

  (* the S0 / Hfus / Sfus setters keep the functor OBJECTS of every chemical (they patch them in place), so whoever
     holds those objects -- an existing property package -- sees the new datum *)
  Lemma constant_setters_keep_functor_objects s i w f :
    w = WHfus \/ w = WSfus \/ w = WS0 ->
    map (w_ver Cc Hc Sc) (snd (step s (OSetSc Cc Hc Sc i w f))) = map (w_ver Cc Hc Sc) (snd s).
  Proof.
    intros Hw. destruct s as [h cs]. unfold Rewire.step, on_chem. simpl.
    destruct (nth_error cs i) as [c|] eqn:Hi; [|reflexivity]. simpl.
    apply (map_upd_same _ _ _ _ _ Hi).
    destruct Hw as [E|[E|E]]; subst w; unfold setter_rewires, setter_patches_in_place, Hfus_setter_patches, Sfus_setter_patches,
      S0_setter_patches, energy_constant_creates_new_functors; reflexivity.
  Qed.

  (* freshly constructed chemicals at distinct addresses satisfy the invariant *)
  Lemma inv_fresh1 h k p sc hv addr : (addr < length h)%nat ->
    inv (h, [fresh Cc Hc Sc d0 h k p sc hv addr]).
  Proof.
    intros L. split; [split|]; simpl.
    - intros c [<-|[]]. exact L.
    - constructor; [intros []| constructor].
    - constructor; [apply consistent_rewire | constructor].
  Qed.

  (* ---- the constructor ---- *)
  Notation cstate := (cstate Cc Hc Sc).
  Notation ctor_step_run := (ctor_step_run Cc Hc Sc d0).
  Notation ctor_steps := (ctor_steps Cc Hc Sc d0).
  Notation construct := (construct Cc Hc Sc d0).

  Definition cs_ok (n addr : nat) (s : cstate) : Prop :=
    length (fst (fst s)) = n /\ c_cn _ _ _ (snd (fst s)) = addr.

  Lemma ctor_step_ok a n addr s k : cs_ok n addr s -> cs_ok n addr (ctor_step_run a s k).
  Proof.
    destruct s as [[h c] b]. intros [L A]. simpl in L, A. destruct k; simpl.
    - destruct (a_hvap _ _ _ a); split; simpl; auto.
    - split; auto.
    - destruct (a_default _ _ _ a); [destruct b|]; split; simpl; auto.
    - destruct (a_method _ _ _ a) as [[fh fc]|]; split; simpl; auto. rewrite upd_length. exact L.
    - unfold reset_rebuilds_from_own, rewire_if. split; simpl; auto.
  Qed.

  Lemma ctor_steps_ok a n addr l : forall s, cs_ok n addr s -> cs_ok n addr (ctor_steps a s l).
  Proof.
    induction l as [|k l IH]; intros s H; simpl; [exact H|]. apply IH. apply ctor_step_ok. exact H.
  Qed.

  (* whatever ran before: when the LAST statement is reset_free_energies, the object has functors and they are the
     wiring of its own final inputs *)
  Lemma ctor_steps_end_reset a n addr l s : cs_ok n addr s -> (addr < n)%nat ->
    exists h c, ctor_steps a s (l ++ [KReset]) = (h, c, true) /\ inv (h, [c]).
  Proof.
    intros H L. unfold Rewire.ctor_steps. rewrite fold_left_app. simpl.
    pose proof (ctor_steps_ok a n addr l s H) as H'. unfold Rewire.ctor_steps in H'.
    destruct (fold_left (ctor_step_run a) l s) as [[h c] b]. destruct H' as [L' A']. simpl in L', A'.
    exists h, (rewire h c). split; [reflexivity|].
    split; [split|]; simpl.
    - intros y [<-|[]]. simpl. rewrite A', L'. exact L.
    - constructor; [intros []|constructor].
    - constructor; [apply consistent_rewire|constructor].
  Qed.

  (* Chemical(ID, Hvap=..., default=..., method=...) for ANY arguments: the new chemical has H / S functors, and they
     are the generated wiring of the inputs it has when the constructor returns -- in particular of the Hvap model
     selected by method=.  Rests on the generated order of the constructor's statements (Gen_Rewire.ctor_tail). *)
  Lemma construct_wired a h k p sc hv addr : (addr < length h)%nat ->
    exists c, snd (construct a h k p sc hv addr) = Some c /\ inv (fst (construct a h k p sc hv addr), [c]).
  Proof.
    intros L. unfold Rewire.construct.
    assert (E : ctor_tail = removelast ctor_tail ++ [KReset]) by reflexivity.
    rewrite E.
    destruct (ctor_steps_end_reset a (length h) addr (removelast ctor_tail) (ctor_blank Cc Hc Sc d0 h k p sc hv addr))
      as (h' & c & R & I); [split; reflexivity | exact L |].
    rewrite R. exists c. split; [reflexivity | exact I].
  Qed.
End Facts.
