(* C07 -- WHEN the H / S functors of a Chemical are rebuilt: a state machine over a store of chemicals.
   Executable definitions only.  The guards (whether a method rebuilds the wiring) are the GENERATED
   definitions of Gen_Rewire.v; what each method changes is modelled by hand from _chemical.py
   (copy :731, copy_models_from :2001, at_state / lock_phase :2059 / :2129, the setters :878 :1130 :1139
   :1188 :1196, reset_constant :165, reset_energy_constant :181) and tied by the `hist` correspondence cases.

   Heat-capacity handles are OBJECTS: the functors built by _init_energies keep references to them
   (Cn_s / Cn_l / Cn_g), while Hvap, Tm, Tb, ... are baked in as numbers.  So a chemical has
     c_cn : the address of its own heat-capacity handle set,        c_hv, c_sc, c_kind, c_pr : its other inputs,
     w_cn : the address its H / S functors refer to,                w_in : the inputs the functors were built from. *)
From V Require Import Common.Num C07.Model C07.Gen_Rewire.

Inductive scalar_name : Type := WTm | WTb | WHfus | WSfus | WS0.

(* Tm / Tb setters: reset_constant + reset_free_energies.  Hfus / Sfus / S0 setters: reset_energy_constant (generated:
   either it rebuilds, or it) writes the
   new value into every functor that has a datum of that name; these two data reach the functors unchanged
   (never through a derived constant), so the patch has the effect of a rebuild. *)
Definition setter_rewires (w : scalar_name) : bool :=
  match w with
  | WTm => Tm_setter_rebuilds | WTb => Tb_setter_rebuilds
  | WHfus => Hfus_setter_patches | WSfus => Sfus_setter_patches | WS0 => S0_setter_patches
  end.
(* the setters that go through reset_energy_constant keep the functor OBJECTS when it patches them in place *)
Definition setter_patches_in_place (w : scalar_name) : bool :=
  match w with
  | WTm | WTb => false
  | _ => negb energy_constant_creates_new_functors
  end.

Section Machine.
  Variables Cc Hc Sc : Type.   (* content of a heat-capacity handle set / of the Hvap handle / scalar data *)
  Variable d0 : Cc.
  (* copy_models_from on Cn: content self gets, from its kind, the other's kind and both contents *)
  Variable merge_cn : cnkind -> cnkind -> Cc -> Cc -> Cc.

  Record inputs : Type := mkIn { i_kind : cnkind; i_pr : phase; i_sc : Sc; i_cn : Cc; i_hv : Hc }.
  (* w_narrow = Some p: lock_phase replaced the PhaseHandles _H / _S by their .p functors (built for the
     multi-phase chemical, reference phase i_pr w_in) and no rebuild followed *)
  Record chem : Type := mkC {
    c_kind : cnkind; c_pr : phase; c_sc : Sc; c_hv : Hc; c_cn : nat;
    w_cn : nat; w_in : inputs; w_narrow : option phase;
    w_ver : nat }.      (* identity of the current H / S functor OBJECTS: every rebuild makes new ones *)

  Definition heap := list Cc.
  Definition hget (h : heap) (k : nat) : Cc := nth k h d0.
  Definition state : Type := (heap * list chem)%type.

  (* everything _init_energies would read from the chemical now *)
  Definition current (h : heap) (c : chem) : inputs :=
    mkIn (c_kind c) (c_pr c) (c_sc c) (hget h (c_cn c)) (c_hv c).

  (* _init_energies(self._Cn, self._Hvap, ..., self._phase_ref, self._S0) *)
  Definition rewire (h : heap) (c : chem) : chem :=
    mkC (c_kind c) (c_pr c) (c_sc c) (c_hv c) (c_cn c) (c_cn c) (current h c) None (S (w_ver c)).
  Definition rewire_if (b : bool) (h : heap) (c : chem) : chem := if b then rewire h c else c.
  (* reset_energy_constant patching in place: the datum is written into the existing functor objects *)
  Definition patch (c : chem) (f : Sc -> Sc) : chem :=
    let i := w_in c in
    mkC (c_kind c) (c_pr c) (c_sc c) (c_hv c) (c_cn c) (w_cn c)
        (mkIn (i_kind i) (i_pr i) (f (i_sc i)) (i_cn i) (i_hv i)) (w_narrow c) (w_ver c).

  Definition set_sc (c : chem) (s : Sc) : chem := mkC (c_kind c) (c_pr c) s (c_hv c) (c_cn c) (w_cn c) (w_in c) (w_narrow c) (w_ver c).
  Definition set_hv (c : chem) (x : Hc) : chem := mkC (c_kind c) (c_pr c) (c_sc c) x (c_cn c) (w_cn c) (w_in c) (w_narrow c) (w_ver c).
  Definition set_pr (c : chem) (p : phase) : chem := mkC (c_kind c) p (c_sc c) (c_hv c) (c_cn c) (w_cn c) (w_in c) (w_narrow c) (w_ver c).
  Definition set_cn (c : chem) (k : nat) : chem := mkC (c_kind c) (c_pr c) (c_sc c) (c_hv c) k (w_cn c) (w_in c) (w_narrow c) (w_ver c).
  Definition set_kind_pr (c : chem) (k : cnkind) (p : phase) : chem :=
    mkC k p (c_sc c) (c_hv c) (c_cn c) (w_cn c) (w_in c) (w_narrow c) (w_ver c).
  (* lock_phase(chemical, ph): _Cn becomes the handle of that phase (same object), phase_ref and the locked state
     become ph, and the energy PhaseHandles are narrowed to their .ph functors *)
  Definition lock (c : chem) (ph : phase) : chem :=
    mkC (CnLocked ph) ph (c_sc c) (c_hv c) (c_cn c) (w_cn c) (w_in c)
        (match w_narrow c with Some q => Some q | None => Some ph end) (w_ver c).
  Definition at_state_on (flag : bool) (h : heap) (c : chem) (ph : phase) : chem :=
    match c_kind c with
    | CnHandle => rewire_if (at_state_rebuilds flag) h (lock c ph)
    | _ => c      (* already locked: no-op for the same phase, TypeError otherwise *)
    end.

  Inductive op : Type :=
  | OReset (i : nat)                               (* c.reset_free_energies() *)
  | OCopy (i : nat)                                (* store.append(c.copy(new_ID)) *)
  | OMutCn (i : nat) (x : Cc)                      (* c.Cn.<ph>.add_method(...) on the handle objects, then c.reset_free_energies() *)
  | OMutHv (i : nat) (x : Hc)                      (* c.Hvap.add_method(...), then c.reset_free_energies() *)
  | OCopyModels (i j : nat) (names : list mname)   (* c_i.copy_models_from(c_j, names) *)
  | OAtState (i : nat) (ph : phase)                (* c.at_state(ph) *)
  | OAtStateCopy (i : nat) (ph : phase)            (* store.append(c.at_state(ph, copy=True)) *)
  | OSetPr (i : nat) (p : phase)                   (* c.phase_ref = p *)
  | OSetSc (i : nat) (w : scalar_name) (f : Sc -> Sc).   (* c.Tm = v, c.Tb = v, c.Hfus = v, c.Sfus = v *)

  Definition on_chem (s : state) (i : nat) (f : heap -> chem -> heap * chem) : state :=
    match nth_error (snd s) i with
    | Some c => let r := f (fst s) c in (fst r, upd (snd s) i (snd r))
    | None => s
    end.

  Definition step (s : state) (o : op) : state :=
    match o with
    | OReset i => on_chem s i (fun h c => (h, rewire_if reset_rebuilds_from_own h c))
    | OCopy i =>
        match nth_error (snd s) i with
        | Some a =>
            (* copy_maybe: the PhaseHandle and its three handles, and the Hvap handle, are new objects with the
               same content; the H / S functor objects are shallow copies that keep their handle references *)
            let h' := fst s ++ [hget (fst s) (c_cn a)] in
            let b := set_cn a (length (fst s)) in
            (h', snd s ++ [rewire_if copy_rebuilds_from_own h' b])
        | None => s
        end
    | OMutCn i x =>
        on_chem s i (fun h c => let h' := upd h (c_cn c) x in (h', rewire_if reset_rebuilds_from_own h' c))
    | OMutHv i x => on_chem s i (fun h c => (h, rewire_if reset_rebuilds_from_own h (set_hv c x)))
    | OCopyModels i j names =>
        match nth_error (snd s) j with
        | Some b =>
            on_chem s i (fun h a =>
              let a1 := if mname_mem MHvap names then set_hv a (c_hv b) else a in
              let r := if mname_mem MCn names
                       then (h ++ [merge_cn (c_kind a) (c_kind b) (hget h (c_cn a)) (hget h (c_cn b))],
                             set_cn a1 (length h))
                       else (h, a1) in
              (fst r, rewire_if (copy_models_rebuilds names) (fst r) (snd r)))
        | None => s
        end
    | OAtState i ph => on_chem s i (fun h c => (h, at_state_on at_state_default_flag h c ph))
    | OAtStateCopy i ph =>
        match nth_error (snd s) i with
        | Some a =>
            let h' := fst s ++ [hget (fst s) (c_cn a)] in
            let b := rewire_if copy_rebuilds_from_own h' (set_cn a (length (fst s))) in
            (h', snd s ++ [at_state_on (at_state_copy_inner_flag at_state_default_flag) h' b ph])
        | None => s
        end
    | OSetPr i p => on_chem s i (fun h c => (h, rewire_if phase_ref_setter_rebuilds h (set_pr c p)))
    | OSetSc i w f =>
        on_chem s i (fun h c =>
          let c' := set_sc c (f (c_sc c)) in
          (h, if setter_rewires w then (if setter_patches_in_place w then patch c' f else rewire h c') else c'))
    end.

  Definition run (s : state) (ops : list op) : state := fold_left step ops s.

  (* a freshly constructed chemical *)
  Definition fresh (h : heap) (k : cnkind) (p : phase) (sc : Sc) (hv : Hc) (addr : nat) : chem :=
    rewire h (mkC k p sc hv addr addr (mkIn k p sc (hget h addr) hv) None 0).

  (* ---- the constructor Chemical(ID, ..., Hvap=, default=, method=) (no phase=): _chemical.py:510.
     cls.new / cls.blank(..., free_energies=False) leaves the object WITHOUT H / S functors; then the statements of
     Gen_Rewire.ctor_tail run in source order.  What each changes (by hand, tie = `ctor` cases):
       KAddHvap       `if Hvap: self._Hvap.add_method(Hvap)`: the Hvap handle gets (and selects) the user model
       KAddCnIfPhase  under `if phase:` only; these cases pass no phase: nothing (a Cn= without phase raises before)
       KDefault       `if default: self.default()`: fills missing data, and (no functors yet) ends with reset_free_energies
       KSetMethod     `if method: self.set_method(method)`: handles that have the method switch to it (content transformers)
       KReset         self.reset_free_energies()
     [a_built] = the object has functors at all. *)
  Record ctor_args : Type := mkCtor {
    a_hvap : option Hc;                          (* Hvap= : content of the Hvap handle once the user model is selected *)
    a_default : option (Sc -> Sc);               (* default=True : what default() does to the scalar data *)
    a_method : option ((Hc -> Hc) * (Cc -> Cc))  (* method= : what set_method does to the Hvap handle / the Cn handle set *) }.

  Definition cstate : Type := (heap * chem * bool)%type.

  Definition ctor_step_run (a : ctor_args) (s : cstate) (k : ctor_step) : cstate :=
    let '(h, c, built) := s in
    match k with
    | KAddHvap => match a_hvap a with Some x => (h, set_hv c x, built) | None => s end
    | KAddCnIfPhase => s
    | KDefault => match a_default a with
                  | Some f => let c' := set_sc c (f (c_sc c)) in if built then (h, c', built) else (h, rewire h c', true)
                  | None => s
                  end
    | KSetMethod => match a_method a with
                    | Some (fh, fc) => (upd h (c_cn c) (fc (hget h (c_cn c))), set_hv c (fh (c_hv c)), built)
                    | None => s
                    end
    | KReset => (h, rewire_if reset_rebuilds_from_own h c, true)
    end.

  Definition ctor_steps (a : ctor_args) (s : cstate) (l : list ctor_step) : cstate := fold_left (ctor_step_run a) l s.

  (* the object as cls.new / cls.blank(free_energies=False) leaves it: data and handles, no functors *)
  Definition ctor_blank (h : heap) (k : cnkind) (p : phase) (sc : Sc) (hv : Hc) (addr : nat) : cstate :=
    (h, mkC k p sc hv addr addr (mkIn k p sc (hget h addr) hv) None 0, false).

  (* Chemical(...): the new heap, and the chemical if it has functors (None: H and S are None) *)
  Definition construct (a : ctor_args) (h : heap) (k : cnkind) (p : phase) (sc : Sc) (hv : Hc) (addr : nat) : heap * option chem :=
    let '(h', c, built) := ctor_steps a (ctor_blank h k p sc hv addr) ctor_tail in
    (h', if built then Some c else None).
End Machine.
