(* C07 -- lemmas about the generated ideal-mixture models over R (no integrals here). *)
From V Require Import Common.Num C07.Model C07.Gen_MixtureModels C07.InstR.
From Coq Require Import Reals Qreals Lra List.   (* after Common.Num: its Lqa would otherwise shadow lra *)
From Coquelicot Require Import Coquelicot.        (* ln_div *)
Import ListNotations.
Open Scope R_scope.

Lemma Q2R_0' : Q2R 0 = 0.
Proof. unfold Q2R; simpl. lra. Qed.

(* ---------- sum([...]) of floats ---------- *)
Lemma eval_all_ok (vs : list R) :
  eval_all (map (fun v => Ok (Some v)) vs) = Ok (map Some vs).
Proof. induction vs as [|v vs IH]; simpl; [reflexivity | rewrite IH; reflexivity]. Qed.

Lemma fold_radd_ok (vs : list R) (acc : R) :
  fold_left (fun a v => radd ROps a (Ok v)) (map Some vs) (Ok (Some acc)) = Ok (Some (acc + sumR vs)).
Proof.
  revert acc; induction vs as [|v vs IH]; intros acc; simpl.
  - f_equal; f_equal; lra.
  - change (radd ROps (Ok (Some acc)) (Ok (Some v))) with (@Ok (option R) (Some (acc + v))).
    rewrite IH. f_equal; f_equal; lra.
Qed.

Lemma py_sum_ok (vs : list R) : py_sum ROps (map (fun v => Ok (Some v)) vs) = Ok (Some (sumR vs)).
Proof.
  unfold py_sum. rewrite eval_all_ok. simpl bind. unfold Model.num. simpl oofQ.
  rewrite fold_radd_ok, Q2R_0'. f_equal; f_equal; lra.
Qed.

(* ---------- sum over the non-zero entries of a SparseVector ---------- *)
Fixpoint wvals (g : nat -> R -> R) (i : nat) (m : list R) : list R :=
  match m with
  | [] => []
  | x :: t => if Req_EM_T x 0 then wvals g (S i) t else g i x :: wvals g (S i) t
  end.
Fixpoint wsum (g : nat -> R -> R) (i : nat) (m : list R) : R :=
  match m with
  | [] => 0
  | x :: t => (if Req_EM_T x 0 then 0 else g i x) + wsum g (S i) t
  end.
Lemma sumR_wvals g i m : sumR (wvals g i m) = wsum g i m.
Proof.
  revert i; induction m as [|x t IH]; intros i; simpl; [reflexivity|].
  destruct (Req_EM_T x 0); simpl; rewrite IH; lra.
Qed.

Lemma items_map_spec (f : nat -> R -> pyv R) (g : nat -> R -> R) (m : list R) (i : nat) :
  (forall k x, nth_error m k = Some x -> x <> 0 -> f (i + k)%nat x = Ok (Some (g (i + k)%nat x))) ->
  items_map f (sparse_from ROps i m) = map (fun v => Ok (Some v)) (wvals g i m).
Proof.
  revert i; induction m as [|x t IH]; intros i Hf; simpl; [reflexivity|].
  unfold is0R. destruct (Req_EM_T x 0) as [E|NE].
  - apply IH. intros k y Hk Hy. replace (S i + k)%nat with (i + S k)%nat by lia. apply Hf; assumption.
  - unfold items_map in *. simpl. f_equal.
    + specialize (Hf 0%nat x eq_refl NE). rewrite Nat.add_0_r in Hf. exact Hf.
    + apply IH. intros k y Hk Hy. replace (S i + k)%nat with (i + S k)%nat by lia. apply Hf; assumption.
Qed.

Lemma sparse_sum_spec f g m :
  (forall k x, nth_error m k = Some x -> x <> 0 -> f k x = Ok (Some (g k x))) ->
  py_sum ROps (items_map f (sparse_items ROps m)) = Ok (Some (wsum g 0 m)).
Proof.
  intros Hf. unfold sparse_items. rewrite (items_map_spec f g m 0 Hf), py_sum_ok, sumR_wvals. reflexivity.
Qed.

(* SparseVector.sum() *)
Lemma sv_sum_spec m : sv_sum ROps (sparse_items ROps m) = Ok (Some (sumR m)).
Proof.
  unfold sv_sum.
  change (map (fun ij : nat * R => Ok (Some (snd ij))) (sparse_items ROps m))
    with (items_map (fun (_ : nat) (x : R) => @Ok (option R) (Some x)) (sparse_items ROps m)).
  rewrite (sparse_sum_spec _ (fun _ x => x)) by (intros; reflexivity).
  f_equal; f_equal. generalize 0%nat.
  induction m as [|x t IH]; intros n; simpl; [reflexivity|].
  rewrite IH. destruct (Req_EM_T x 0); lra.
Qed.

(* ---------- weighted sums ---------- *)
Lemma skipn_S_tl {X} n (l : list X) : skipn (S n) l = tl (skipn n l).
Proof.
  revert l; induction n as [|n IH]; intros l.
  - destruct l; reflexivity.
  - destruct l as [|x l]; [reflexivity|]. change (skipn (S (S n)) (x :: l)) with (skipn (S n) l).
    change (skipn (S n) (x :: l)) with (skipn n l). apply IH.
Qed.
Lemma wsum_dot (hs m : list R) n :
  (n + length m <= length hs)%nat ->
  wsum (fun i x => x * nth i hs 0) n m = dotR m (skipn n hs).
Proof.
  revert n; induction m as [|x t IH]; intros n L; simpl; [reflexivity|].
  simpl in L.
  assert (Hn : (n < length hs)%nat) by lia.
  destruct (skipn n hs) as [|h rest] eqn:E.
  { exfalso. assert (length (skipn n hs) = 0%nat) by (rewrite E; reflexivity).
    rewrite skipn_length in H. lia. }
  assert (Hh : nth n hs 0 = h).
  { rewrite <- (firstn_skipn n hs) at 1. rewrite app_nth2; rewrite firstn_length_le by lia; [|lia].
    rewrite Nat.sub_diag, E. reflexivity. }
  assert (Hr : skipn (S n) hs = rest).
  { rewrite skipn_S_tl, E. reflexivity. }
  rewrite IH by lia. rewrite Hr, Hh.
  destruct (Req_EM_T x 0) as [->|]; lra.
Qed.

Lemma wsum_plus g1 g2 n m :
  wsum (fun i x => g1 i x + g2 i x) n m = wsum g1 n m + wsum g2 n m.
Proof.
  revert n; induction m as [|x t IH]; intros n; simpl; [lra|].
  rewrite IH. destruct (Req_EM_T x 0); lra.
Qed.

Lemma wsum_mixterm N n m : wsum (fun _ x => x * ln (x / N)) n m = mixterm N m.
Proof.
  revert n; induction m as [|x t IH]; intros n; simpl; [reflexivity|].
  rewrite IH. unfold xlnx. reflexivity.
Qed.

(* ---------- the models ---------- *)
Definition models_give {M} (call : M -> pyv R) (models : list M) (hs : list R) : Prop :=
  Forall2 (fun f h => call f = Ok (Some h)) models hs.

Lemma models_at {M} (call : M -> pyv R) models hs :
  models_give call models hs ->
  forall i, (i < length hs)%nat ->
  exists f, nth_error models i = Some f /\ call f = Ok (Some (nth i hs 0)).
Proof.
  induction 1 as [|f h ms hs' Hfh _ IH]; intros i Hi; simpl in *; [lia|].
  destruct i as [|i]; simpl.
  - exists f; split; [reflexivity | exact Hfh].
  - apply IH. lia.
Qed.

Lemma nth_error_lt {X} (l : list X) k x : nth_error l k = Some x -> (k < length l)%nat.
Proof. intros H. apply nth_error_Some. rewrite H. discriminate. Qed.

Section Mix.
  Variable Rg : R.
  Notation E := (mixenvR Rg).

  (* IdealTPMixtureModel: H (and V, mu, ...) *)
  Lemma TP_model_sum models hs ph m T P :
    models_give (fun f => f ph T P) models hs -> length m = length hs ->
    IdealTPMixtureModel_call E models ph (sparse_items ROps m) T P = Ok (Some (dotR m hs)).
  Proof.
    intros HM L. unfold IdealTPMixtureModel_call. cbv zeta.
    rewrite (sparse_sum_spec _ (fun i x => x * nth i hs 0)).
    - rewrite wsum_dot by (simpl; lia). reflexivity.
    - intros k x Hk Hx. apply nth_error_lt in Hk.
      destruct (models_at _ models hs HM k) as (f & Hf & Hv); [lia|].
      unfold subscript. simpl eO. rewrite Hf. simpl bind. rewrite Hv. reflexivity.
  Qed.

  (* IdealTMixtureModel: Cn *)
  Lemma T_model_sum models hs ph m T P :
    models_give (fun f => f ph T) models hs -> length m = length hs ->
    IdealTMixtureModel_call E models ph (sparse_items ROps m) T P = Ok (Some (dotR m hs)).
  Proof.
    intros HM L. unfold IdealTMixtureModel_call. cbv zeta.
    rewrite (sparse_sum_spec _ (fun i x => x * nth i hs 0)).
    - rewrite wsum_dot by (simpl; lia). reflexivity.
    - intros k x Hk Hx. apply nth_error_lt in Hk.
      destruct (models_at _ models hs HM k) as (f & Hf & Hv); [lia|].
      unfold subscript. simpl eO. rewrite Hf. simpl bind. rewrite Hv. reflexivity.
  Qed.

  Lemma SP_T_model_sum models hs m T P :
    models_give (fun f => f T) models hs -> length m = length hs ->
    SinglePhaseIdealTMixtureModel_call E models (sparse_items ROps m) T P = Ok (Some (dotR m hs)).
  Proof.
    intros HM L. unfold SinglePhaseIdealTMixtureModel_call. cbv zeta.
    rewrite (sparse_sum_spec _ (fun i x => x * nth i hs 0)).
    - rewrite wsum_dot by (simpl; lia). reflexivity.
    - intros k x Hk Hx. apply nth_error_lt in Hk.
      destruct (models_at _ models hs HM k) as (f & Hf & Hv); [lia|].
      unfold subscript. simpl eO. rewrite Hf. simpl bind. rewrite Hv. reflexivity.
  Qed.
  Lemma SP_TP_model_sum models hs m T P :
    models_give (fun f => f T P) models hs -> length m = length hs ->
    SinglePhaseIdealTPMixtureModel_call E models (sparse_items ROps m) T P = Ok (Some (dotR m hs)).
  Proof.
    intros HM L. unfold SinglePhaseIdealTPMixtureModel_call. cbv zeta.
    rewrite (sparse_sum_spec _ (fun i x => x * nth i hs 0)).
    - rewrite wsum_dot by (simpl; lia). reflexivity.
    - intros k x Hk Hx. apply nth_error_lt in Hk.
      destruct (models_at _ models hs HM k) as (f & Hf & Hv); [lia|].
      unfold subscript. simpl eO. rewrite Hf. simpl bind. rewrite Hv. reflexivity.
  Qed.
End Mix.

(* ---------- linear algebra of the mole-weighted sum ---------- *)
Lemma dotR_add a b h : length a = length b -> dotR (vaddR a b) h = dotR a h + dotR b h.
Proof.
  revert b h; induction a as [|x a IH]; intros [|y b] h L; simpl in *; try discriminate; try lra.
  destruct h as [|z h]; [lra|]. rewrite IH by lia. lra.
Qed.
Lemma dotR_scale k a h : dotR (vscaleR k a) h = k * dotR a h.
Proof.
  revert h; induction a as [|x a IH]; intros h; simpl; [lra|].
  destruct h as [|z h]; [lra|]. unfold vscaleR in IH. rewrite IH. lra.
Qed.
Lemma vaddR_length a b : length a = length b -> length (vaddR a b) = length a.
Proof. revert b; induction a as [|x a IH]; intros [|y b] L; simpl in *; try discriminate; auto. Qed.
Lemma vscaleR_length k a : length (vscaleR k a) = length a.
Proof. apply map_length. Qed.
Lemma sumR_add a b : length a = length b -> sumR (vaddR a b) = sumR a + sumR b.
Proof.
  revert b; induction a as [|x a IH]; intros [|y b] L; simpl in *; try discriminate; try lra.
  rewrite IH by lia. lra.
Qed.

Definition all_nonneg (m : list R) : Prop := List.Forall (fun x => 0 <= x) m.

Lemma allnn_add a b : all_nonneg a -> all_nonneg b -> all_nonneg (vaddR a b).
Proof.
  intros Ha; revert b; induction Ha as [|x a Hx Ha IH]; intros b Hb; simpl; [constructor|].
  destruct Hb as [|y b Hy Hb]; constructor; [lra | apply IH; exact Hb].
Qed.

(* ---------- IdealEntropyModel ---------- *)
Section Entropy.
  Variable Rg : R.
  Notation E := (mixenvR Rg).

  Lemma Entropy_model_sum models ss ph m T P :
    models_give (fun f => f ph T P) models ss -> length m = length ss ->
    all_nonneg m -> 0 < sumR m ->
    IdealEntropyModel_call E models ph (sparse_items ROps m) T P
    = Ok (Some (dotR m ss + mixterm (sumR m) m)).
  Proof.
    intros HM L NN Npos. unfold IdealEntropyModel_call. cbv zeta. simpl eO.
    rewrite sv_sum_spec. simpl bind.
    rewrite (sparse_sum_spec _ (fun i x => x * nth i ss 0 + x * ln (x / sumR m))).
    - rewrite wsum_plus, wsum_dot by (simpl; lia). rewrite wsum_mixterm. reflexivity.
    - intros k x Hk Hx.
      assert (Hx0 : 0 <= x).
      { unfold all_nonneg in NN. rewrite Forall_forall in NN. apply NN. eapply nth_error_In; eauto. }
      apply nth_error_lt in Hk.
      destruct (models_at _ models ss HM k) as (f & Hf & Hv); [lia|].
      unfold subscript. rewrite Hf. simpl bind. rewrite Hv.
      assert (E0 : is0R (sumR m) = false).
      { unfold is0R. destruct (Req_EM_T (sumR m) 0); [lra | reflexivity]. }
      assert (Ep : posR (x / sumR m) = true).
      { unfold posR. destruct (Rlt_dec 0 (x / sumR m)) as [|N]; [reflexivity|].
        exfalso; apply N. apply Rdiv_lt_0_compat; lra. }
      cbv -[Rplus Rminus Rmult Rdiv Ropp Rinv ln is0R posR ltR sumR nth]. rewrite E0.
      cbv -[Rplus Rminus Rmult Rdiv Ropp Rinv ln is0R posR ltR sumR nth]. rewrite Ep. reflexivity.
  Qed.
End Entropy.

(* ---------- ln w >= 1 - 1/w and the two-term log-sum inequality ---------- *)
Lemma ln_lower w : 0 < w -> 1 - / w <= ln w.
Proof.
  intros Hw. pose proof (exp_ineq1_le (- ln w)) as H.
  rewrite exp_Ropp, exp_ln in H by exact Hw. lra.
Qed.

Lemma xlnx_shift X x s : 0 <= x -> 0 < X -> 0 < s -> x - X * s <= xlnx X x - x * ln s.
Proof.
  intros Hx HX Hs. unfold xlnx. destruct (Req_EM_T x 0) as [->|NE].
  - assert (0 < X * s) by (apply Rmult_lt_0_compat; assumption). lra.
  - assert (Hxp : 0 < x) by lra.
    assert (Hq : 0 < x / X) by (apply Rdiv_lt_0_compat; assumption).
    assert (Hw : 0 < x / X / s) by (apply Rdiv_lt_0_compat; assumption).
    replace (x * ln (x / X) - x * ln s) with (x * ln (x / X / s)) by (rewrite (ln_div (x / X) s) by assumption; ring).
    pose proof (ln_lower _ Hw) as L.
    replace (/ (x / X / s)) with (X * s / x) in L by (field; lra).
    apply Rmult_le_compat_l with (r := x) in L; [|lra].
    replace (x * (1 - X * s / x)) with (x - X * s) in L by (field; lra). exact L.
Qed.

Lemma log_sum_2 a b A B : 0 <= a -> 0 <= b -> 0 < A -> 0 < B ->
  xlnx (A + B) (a + b) <= xlnx A a + xlnx B b.
Proof.
  intros Ha Hb HA HB.
  destruct (Req_EM_T (a + b) 0) as [Z|NZ].
  - assert (a = 0) by lra. assert (b = 0) by lra. subst. unfold xlnx.
    replace (0 + 0) with 0 by lra. destruct (Req_EM_T 0 0); [lra | contradiction].
  - set (s := (a + b) / (A + B)).
    assert (Hs : 0 < s) by (apply Rdiv_lt_0_compat; lra).
    pose proof (xlnx_shift A a s Ha HA Hs) as L1.
    pose proof (xlnx_shift B b s Hb HB Hs) as L2.
    assert (Es : (A + B) * s = a + b) by (unfold s; field; lra).
    replace (xlnx (A + B) (a + b)) with ((a + b) * ln s).
    + nra.
    + unfold xlnx. destruct (Req_EM_T (a + b) 0); [contradiction | reflexivity].
Qed.

Lemma mixterm_subadditive A B m m' : length m = length m' -> all_nonneg m -> all_nonneg m' -> 0 < A -> 0 < B ->
  mixterm (A + B) (vaddR m m') <= mixterm A m + mixterm B m'.
Proof.
  intros L Hm; revert m' L; induction Hm as [|x m Hx Hm IH]; intros [|y m'] L Hm' HA HB; simpl in *; try discriminate; try lra.
  inversion Hm' as [|? ? Hy Hm'']; subst.
  pose proof (log_sum_2 x y A B Hx Hy HA HB). specialize (IH m' ltac:(lia) Hm'' HA HB). lra.
Qed.

Lemma ln2_pos : 0 < ln 2.
Proof. pose proof ln_lt_2. lra. Qed.
