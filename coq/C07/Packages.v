(* C07 -- property packages: which chemical's functors sit at each index of package.mixture, and WHICH VERSION.
   Executable definitions only.  A chemical is a number (its index in the store of chemicals); St is the whole
   state of that store (for the `pkg` cases: unit; for the `pkghist` cases: the state of Rewire.v).
   A package records its chemicals in order and, for every model index of its mixture, the chemical whose
   H / S / Cn functor the ideal mixture models evaluate there (they are addressed positionally: models[i]),
   together with [None] when the model looks the chemical's CURRENT functor up at call time, or [Some st] when
   it keeps the functor objects that existed in store state st, when the mixture was built.
   Generated (Gen_Packages.v): the order of the models, whether they are live, whether subset rebuilds the
   mixture.  The rest is modelled by hand from _thermo.py (__init__ :127/:288, extended :167, subset :174/:302,
   ideal :198/:323) and tied by the `pkg` / `pkghist` correspondence cases. *)
From Coq Require Import List Bool.
From V Require Import C07.Gen_Packages.
Import ListNotations.

Section Pk.
  Variable St : Type.

  Record pkg : Type := mkPkg { p_ideal : bool;             (* IdealThermo rather than Thermo *)
                               p_chems : list nat; p_models : list (nat * option St) }.

  Inductive pop : Type :=
  | PNew (cs : list nat)                     (* Thermo(cs) *)
  | PSubset (i : nat) (sel : list nat)       (* store.append(store[i].subset(sel)) with a new list of chemicals *)
  | PExtended (i : nat) (extra : list nat)   (* store.append(store[i].extended(extra)) *)
  | PIdeal (i : nat)                         (* store.append(store[i].ideal()) *)
  | PChem (f : St -> St).                    (* anything done to the chemicals (setters, resets, copies, ...) *)

  (* <Mixture>.from_chemicals(cs) in store state st *)
  Definition build_models (st : St) (cs : list nat) : list (nat * option St) :=
    map (fun c => (c, if mixture_models_live then None else Some st)) (mixture_models_of cs).

  Definition subset_of (st : St) (p : pkg) (sel : list nat) : pkg :=
    let rebuilds := if p_ideal p then IdealThermo_subset_rebuilds_mixture else Thermo_subset_rebuilds_mixture in
    mkPkg (p_ideal p) sel (if rebuilds then build_models st sel else p_models p).

  Definition pstate : Type := (St * list pkg)%type.

  Definition pstep (s : pstate) (o : pop) : pstate :=
    let st := fst s in let ps := snd s in
    match o with
    | PNew cs => (st, ps ++ [mkPkg false cs (build_models st cs)])
    | PSubset i sel => match nth_error ps i with Some p => (st, ps ++ [subset_of st p sel]) | None => s end
    | PExtended i extra =>
        match nth_error ps i with
        | Some p => (st, ps ++ [subset_of st p (p_chems p ++ filter (fun c => negb (existsb (Nat.eqb c) (p_chems p))) extra)])
        | None => s
        end
    | PIdeal i =>
        match nth_error ps i with
        | Some p => (st, ps ++ [if p_ideal p then p
                                else if ideal_shares_chemicals_and_mixture then mkPkg true (p_chems p) (p_models p)
                                else mkPkg true (p_chems p) []])
        | None => s
        end
    | PChem f => (f st, ps)
    end.

  Definition prun (s : pstate) (ops : list pop) : pstate := fold_left pstep ops s.
End Pk.
Arguments mkPkg {St}. Arguments p_ideal {St}. Arguments p_chems {St}. Arguments p_models {St}.
Arguments PNew {St}. Arguments PSubset {St}. Arguments PExtended {St}. Arguments PIdeal {St}. Arguments PChem {St}.
