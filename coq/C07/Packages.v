(* C07 -- property packages: which chemical's functors sit at each index of package.mixture, and WHICH VERSION.
   Executable definitions only.  A chemical is a number (its index in the store of chemicals); St is the whole
   state of that store (for the `pkg` cases: unit; for the `pkghist` cases: the state of Rewire.v).
   A package records its chemicals in order and, for every model index of its mixture, the chemical whose
   H / S / Cn functor the ideal mixture models evaluate there (they are addressed positionally: models[i]),
   together with [None] when the model looks the chemical's CURRENT functor up at call time, or [Some st] when
   it keeps the functor objects that existed in store state st (when the mixture was built, or when data were last
   patched into those objects).
   Generated (Gen_Packages.v): the order of the models, whether they are live, whether subset rebuilds the
   mixture.  The rest is modelled by hand from _thermo.py (__init__ :127/:288, extended :167, subset :174/:302,
   ideal :198/:323) and tied by the `pkg` / `pkghist` correspondence cases. *)
From Coq Require Import List Bool.
From V Require Import C07.Gen_Packages C07.Model C07.Gen_Rewire.
Import ListNotations.

Section Pk.
  Variable St : Type.
  (* same c s s': chemical c has the same H / S functor OBJECTS in store states s and s' *)
  Variable same : nat -> St -> St -> bool.

  Record pkg : Type := mkPkg { p_ideal : bool;             (* IdealThermo rather than Thermo *)
                               p_chems : list nat; p_models : list (nat * option St) }.

  Inductive pop : Type :=
  | PNew (cs : list nat)                     (* Thermo(cs) *)
  | PSubset (i : nat) (sel : list nat)       (* store.append(store[i].subset(sel)) with a new list of chemicals *)
  | PExtended (i : nat) (extra : list nat)   (* store.append(store[i].extended(extra)) *)
  | PIdeal (i : nat)                         (* store.append(store[i].ideal()) *)
  | PChem (f : St -> St)                     (* anything done to the chemicals (setters, resets, copies, ...) *)
  (* pickle.loads(pickle.dumps(store[i])) (also copy.deepcopy, tmo.utils.save/load): the package, its mixture and its
     chemicals travel in ONE pickle, whose memo preserves the sharing between them.  g adds the loaded chemicals to the
     store (old chemical c becomes chemical ren c) with copies of the very same objects; rb is what unpickle_chemical does
     in addition when it rebuilds the functors of each loaded chemical (generated: unpickle_rebuilds_functors) *)
  | PLoad (i : nat) (ren : nat -> nat) (g rb : St -> St).

  (* <Mixture>.from_chemicals(cs) in store state st *)
  Definition build_models (st : St) (cs : list nat) : list (nat * option St) :=
    map (fun c => (c, if mixture_models_live then None else Some st)) (mixture_models_of cs).

  Definition subset_of (st : St) (p : pkg) (sel : list nat) : pkg :=
    let rebuilds := if p_ideal p then IdealThermo_subset_rebuilds_mixture else Thermo_subset_rebuilds_mixture in
    mkPkg (p_ideal p) sel (if rebuilds then build_models st sel else p_models p).

  Definition pstate : Type := (St * list pkg)%type.

  Definition pstep (s : pstate) (o : pop) : pstate :=
    let st := fst s in let ps := snd s in
    match o with
    | PNew cs => (st, ps ++ [mkPkg false cs (build_models st cs)])
    | PSubset i sel => match nth_error ps i with Some p => (st, ps ++ [subset_of st p sel]) | None => s end
    | PExtended i extra =>
        match nth_error ps i with
        | Some p => (st, ps ++ [subset_of st p (p_chems p ++ filter (fun c => negb (existsb (Nat.eqb c) (p_chems p))) extra)])
        | None => s
        end
    | PIdeal i =>
        match nth_error ps i with
        | Some p => (st, ps ++ [if p_ideal p then p
                                else if ideal_shares_chemicals_and_mixture then mkPkg true (p_chems p) (p_models p)
                                else mkPkg true (p_chems p) []])
        | None => s
        end
    | PLoad i ren g rb =>
        match nth_error ps i with
        | Some p =>
            let st' := if unpickle_rebuilds_functors then rb (g st) else g st in
            let refresh (e : nat * option St) :=
              match snd e with
              | Some s => if same (fst e) s st && same (fst e) st st' then (fst e, Some st') else e
              | None => e
              end in
            (st', map (fun q => mkPkg (p_ideal q) (p_chems q) (map refresh (p_models q))) ps
                  ++ [mkPkg (p_ideal p) (map ren (p_chems p))
                            (map (fun e => (ren (fst e), option_map g (snd e))) (p_models p))])
        | None => s
        end
    | PChem f =>
        (* models that hold the chemical's CURRENT functor objects keep holding them if the objects survive the change
           (so they see data patched into them); objects that were replaced stay as they were *)
        let st' := f st in
        let refresh (e : nat * option St) :=
          match snd e with
          | Some s => if same (fst e) s st && same (fst e) st st' then (fst e, Some st') else e
          | None => e
          end in
        (st', map (fun p => mkPkg (p_ideal p) (p_chems p) (map refresh (p_models p))) ps)
    end.

  Definition prun (s : pstate) (ops : list pop) : pstate := fold_left pstep ops s.

  (* model index evaluates the functors the chemical has NOW *)
  Definition entry_tracks (cur : St) (e : nat * option St) : Prop :=
    match snd e with None => True | Some s => same (fst e) s cur = true end.
  (* a round trip keeps the functor objects of the chemicals already in the store, and gives the loaded copy of
     chemical c (number ren c) the copies of the objects c had *)
  Definition load_ok (ren : nat -> nat) (g : St -> St) : Prop :=
    (forall c s s', same c s s' = true -> same c s (g s') = true) /\
    (forall c s s', same c s s' = true -> same (ren c) (g s) (g s') = true).
  Definition no_chem (o : pop) : Prop :=
    match o with PChem _ => False | PLoad _ ren g _ => load_ok ren g | _ => True end.
End Pk.
Arguments mkPkg {St}. Arguments p_ideal {St}. Arguments p_chems {St}. Arguments p_models {St}.
Arguments PNew {St}. Arguments PSubset {St}. Arguments PExtended {St}. Arguments PIdeal {St}. Arguments PChem {St}. Arguments PLoad {St}.
