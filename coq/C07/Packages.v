(* C07 -- property packages: which chemical's functors sit at each index of package.mixture.
   Executable definitions only.  A chemical is a number (its index in the case's list of chemicals);
   a package records its chemicals in order and, for every model index of its mixture, the chemical whose
   H / S / Cn functor the ideal mixture models hold there (they are addressed positionally: models[i]).
   Whether subset rebuilds the mixture is GENERATED (Gen_Packages.v); the rest is modelled by hand from
   _thermo.py (__init__ :127/:288, extended :167, subset :174/:302, ideal :198/:323) and tied by the
   `pkg` correspondence cases. *)
From Coq Require Import List Bool.
From V Require Import C07.Gen_Packages.
Import ListNotations.

Record pkg : Type := mkPkg { p_ideal : bool;             (* IdealThermo rather than Thermo *)
                             p_chems : list nat; p_models : list nat }.

Inductive pop : Type :=
| PNew (cs : list nat)                 (* Thermo(cs) *)
| PSubset (i : nat) (sel : list nat)   (* store.append(store[i].subset(sel)) with a new list of chemicals *)
| PExtended (i : nat) (extra : list nat)   (* store.append(store[i].extended(extra)) *)
| PIdeal (i : nat).                    (* store.append(store[i].ideal()) *)

Definition subset_of (p : pkg) (sel : list nat) : pkg :=
  let rebuilds := if p_ideal p then IdealThermo_subset_rebuilds_mixture else Thermo_subset_rebuilds_mixture in
  mkPkg (p_ideal p) sel (if rebuilds then mixture_models_of sel else p_models p).

Definition pstep (s : list pkg) (o : pop) : list pkg :=
  match o with
  | PNew cs => s ++ [mkPkg false cs (mixture_models_of cs)]
  | PSubset i sel => match nth_error s i with Some p => s ++ [subset_of p sel] | None => s end
  | PExtended i extra =>
      match nth_error s i with
      | Some p => s ++ [subset_of p (p_chems p ++ filter (fun c => negb (existsb (Nat.eqb c) (p_chems p))) extra)]
      | None => s
      end
  | PIdeal i =>
      match nth_error s i with
      | Some p => s ++ [if p_ideal p then p
                        else if ideal_shares_chemicals_and_mixture then mkPkg true (p_chems p) (p_models p)
                        else mkPkg true (p_chems p) []]
      | None => s
      end
  end.

Definition prun (s : list pkg) (ops : list pop) : list pkg := fold_left pstep ops s.
