(* C07 -- the generated model instantiated over Q for the correspondence check:
   I and J are finite tables keyed by (phase, a, b), math.log is a rational stand-in
   (x - c) / d on x > 0.  Executable definitions only. *)
From V Require Import Common.Num C07.Model C07.Gen_FreeEnergy C07.Gen_InitEnergies C07.Gen_MixtureModels C07.Gen_InitData.
Open Scope Q_scope.

Definition QOps (lnc lnd : Q) : Ops Q :=
  mkOps Q Qplus Qminus Qmult Qdiv Qopp (fun x => x)
        (fun x => Qeq_bool x 0) (fun x => negb (Qle_bool x 0)) (fun x => (x - lnc) / lnd).

(* integral tables of one chemical's fake heat-capacity handles *)
Definition tab := list (phase * Q * Q * Q).
Fixpoint tlookup (t : tab) (ph : phase) (a b : Q) : res Q :=
  match t with
  | [] => Err EKey
  | (p, x, y, v) :: t' =>
      if phase_eqb p ph && Qeq_bool x a && Qeq_bool y b then Ok v else tlookup t' ph a b
  end.

Definition mk_has (s l g : bool) (ph : phase) : bool :=
  match ph with Ps => s | Pl => l | Pg => g end.

(* fake Hvap handle: table T -> value or None; unknown T gives None *)
Fixpoint hv_lookup (t : list (Q * option Q)) (x : Q) : option Q :=
  match t with
  | [] => None
  | (k, v) :: t' => if Qeq_bool k x then v else hv_lookup t' x
  end.
Definition mk_hvap (present : bool) (t : list (Q * option Q)) : option (Q -> option Q) :=
  if present then Some (hv_lookup t) else None.

(* fake Cn handle called at T: table (phase, T) -> value; a handle without method returns None *)
Definition cntab := list (phase * Q * Q).
Fixpoint cn_lookup (t : cntab) (ph : phase) (x : Q) : pyv Q :=
  match t with
  | [] => Err EKey
  | (p, k, v) :: t' => if phase_eqb p ph && Qeq_bool k x then Ok (Some v) else cn_lookup t' ph x
  end.

Record qchem : Type := mkQChem {
  qc_kind : cnkind; qc_pr : phase; qc_data : chemdata Q;
  qc_tI : tab; qc_tJ : tab; qc_cn : cntab }.

Definition qenv (lnc lnd : Q) (c : qchem) : env Q :=
  mkEnv Q (QOps lnc lnd)
        (fun ph a b => if d_hasCn (qc_data c) ph then tlookup (qc_tI c) ph a b else Err EOther)
        (fun ph a b => if d_hasCn (qc_data c) ph then tlookup (qc_tJ c) ph a b else Err EOther)
        Rgas_value.

Definition qinit (lnc lnd : Q) (c : qchem) : res (ehandle Q * ehandle Q) :=
  init_energies (qenv lnc lnd c) (qc_data c) (qc_kind c) (qc_pr c).

Definition eh_kind {A} (h : ehandle A) : nat :=
  match h with ENone => 0 | ESingle _ => 1 | EPhases _ _ _ => 2 end%nat.

(* Chemical.H / Chemical.S seen through create_mixture_model's handle (mixture.py:33-46) *)
Definition chem_H lnc lnd c ph T P : pyv Q := do hs <- qinit lnc lnd c; call_handle (fst hs) ph T P.
Definition chem_S lnc lnd c ph T P : pyv Q := do hs <- qinit lnc lnd c; call_handle (snd hs) ph T P.

(* the phase of the Cn object of a chemical: PhaseTHandle dispatches on the phase asked for,
   MockPhaseTHandle (locked / plain chemicals) calls the one model; the harness gives a plain
   chemical its fake liquid handle *)
Definition chem_Cn (c : qchem) (ph : phase) (T : option Q) : pyv Q :=
  let ph' := match qc_kind c with CnHandle => ph | CnLocked sp => sp | CnPlain => Pl end in
  match T with
  | None => Err EType
  | Some t => if d_hasCn (qc_data c) ph' then cn_lookup (qc_cn c) ph' t else Ok None
  end.

Inductive query : Type := QH (ph : phase) (T P : option Q) | QS (ph : phase) (T P : option Q).

Definition run_query lnc lnd c (q : query) : pyv Q :=
  match q with QH ph T P => chem_H lnc lnd c ph T P | QS ph T P => chem_S lnc lnd c ph T P end.

(* kinds of _H and _S after wiring, or the error raised by _init_energies *)
Definition wiring_kinds lnc lnd c : res (nat * nat) :=
  do hs <- qinit lnc lnd c; Ok (eh_kind (fst hs), eh_kind (snd hs)).
Definition kinds_eqb (a b : res (nat * nat)) : bool :=
  res_eqb (fun x y => Nat.eqb (fst x) (fst y) && Nat.eqb (snd x) (snd y)) a b.

Definition chem_case lnc lnd c (qs : list query) (kinds : res (nat * nat)) (expected : list (pyv Q)) : bool :=
  kinds_eqb (wiring_kinds lnc lnd c) kinds && pyvs_approxb (map (run_query lnc lnd c) qs) expected.

(* ---- mixtures ---- *)
Definition mix_env lnc lnd : env Q :=
  mkEnv Q (QOps lnc lnd) (fun _ _ _ => Err EOther) (fun _ _ _ => Err EOther) Rgas_value.

(* excess models of the harness: table chemical index -> value (independent of phase, T, P) *)
Definition const_models (vals : list (pyv Q)) : list (phase -> option Q -> option Q -> pyv Q) :=
  map (fun v => fun (_ : phase) (_ _ : option Q) => v) vals.

Record qmix : Type := mkQMix { qm_chems : list qchem; qm_excess : bool; qm_Hex : list (pyv Q); qm_Sex : list (pyv Q) }.

Definition mix_Hmodel lnc lnd (m : qmix) : mixfun (A := Q) :=
  IdealTPMixtureModel_call (mix_env lnc lnd) (map (chem_H lnc lnd) (qm_chems m)).
Definition mix_Smodel lnc lnd (m : qmix) : mixfun (A := Q) :=
  IdealEntropyModel_call (mix_env lnc lnd) (map (chem_S lnc lnd) (qm_chems m)).
Definition mix_H lnc lnd (m : qmix) ph (mol : list Q) T P : pyv Q :=
  Mixture_H (QOps lnc lnd) (qm_excess m) (mix_Hmodel lnc lnd m)
            (IdealTPMixtureModel_call (mix_env lnc lnd) (const_models (qm_Hex m)))
            ph (sparse_items (QOps lnc lnd) mol) T P.
Definition mix_S lnc lnd (m : qmix) ph (mol : list Q) T P : pyv Q :=
  Mixture_S (QOps lnc lnd) (qm_excess m) (mix_Smodel lnc lnd m)
            (IdealTPMixtureModel_call (mix_env lnc lnd) (const_models (qm_Sex m)))
            ph (sparse_items (QOps lnc lnd) mol) T P.
Definition mix_Cn lnc lnd (m : qmix) ph (mol : list Q) T : pyv Q :=
  IdealTMixtureModel_call (mix_env lnc lnd) (map chem_Cn (qm_chems m)) ph (sparse_items (QOps lnc lnd) mol) T None.
Definition mix_xH lnc lnd (m : qmix) (pm : list (phase * list Q)) T P : pyv Q :=
  Mixture_x (QOps lnc lnd) (fun ph mol => Mixture_H (QOps lnc lnd) (qm_excess m) (mix_Hmodel lnc lnd m)
            (IdealTPMixtureModel_call (mix_env lnc lnd) (const_models (qm_Hex m))) ph mol)
            (map (fun x => (fst x, sparse_items (QOps lnc lnd) (snd x))) pm) T P.
Definition mix_xS lnc lnd (m : qmix) (pm : list (phase * list Q)) T P : pyv Q :=
  Mixture_x (QOps lnc lnd) (fun ph mol => Mixture_S (QOps lnc lnd) (qm_excess m) (mix_Smodel lnc lnd m)
            (IdealTPMixtureModel_call (mix_env lnc lnd) (const_models (qm_Sex m))) ph mol)
            (map (fun x => (fst x, sparse_items (QOps lnc lnd) (snd x))) pm) T P.

(* the two single-phase models, run on table models *)
Definition sp_T lnc lnd (vals : list (pyv Q)) (mol : list Q) T : pyv Q :=
  SinglePhaseIdealTMixtureModel_call (mix_env lnc lnd) (map (fun v => fun (_ : option Q) => v) vals)
    (sparse_items (QOps lnc lnd) mol) T None.
Definition sp_TP lnc lnd (vals : list (pyv Q)) (mol : list Q) T P : pyv Q :=
  SinglePhaseIdealTPMixtureModel_call (mix_env lnc lnd) (map (fun v => fun (_ _ : option Q) => v) vals)
    (sparse_items (QOps lnc lnd) mol) T P.

(* Chemical._init_data: the derived entropy of fusion, from the caller's arguments and the stored values *)
Definition sfus_case (aH aT sH sT : option Q) (expected : pyv Q) : bool :=
  pyv_approxb (init_data_Sfus (mix_env 0 1) aH aT sH sT) expected.
