(* C07 -- the generated model instantiated over Q for the correspondence check:
   I and J are finite tables keyed by (phase, a, b), math.log is a rational stand-in
   (x - c) / d on x > 0.  Executable definitions only. *)
From V Require Import Common.Num C07.Model C07.Gen_FreeEnergy C07.Gen_InitEnergies C07.Gen_MixtureModels C07.Gen_InitData
     C07.Gen_Rewire C07.Rewire C07.Gen_Packages C07.Packages C07.Gen_PhaseHandle.
Open Scope Q_scope.

(* the per-phase model a label selects (generated dispatch of PhaseTPHandle: H, S; of PhaseTHandle: Cn); the cases only
   use the five labels, for which the dispatch is defined (an undefined one would be an AttributeError in the harness) *)
Definition tpph (l : label) : phase := match PhaseTPHandle_dispatch l with Some p => p | None => Ps end.
Definition tph (l : label) : phase := match PhaseTHandle_dispatch l with Some p => p | None => Ps end.

Definition QOps (lnc lnd : Q) : Ops Q :=
  mkOps Q Qplus Qminus Qmult Qdiv Qopp (fun x => x)
        (fun x => Qeq_bool x 0) (fun x => negb (Qle_bool x 0)) (fun x y => negb (Qle_bool y x)) (fun x => (x - lnc) / lnd).

(* integral tables of one chemical's fake heat-capacity handles *)
Definition tab := list (phase * Q * Q * Q).
Fixpoint tlookup (t : tab) (ph : phase) (a b : Q) : res Q :=
  match t with
  | [] => Err EKey
  | (p, x, y, v) :: t' =>
      if phase_eqb p ph && Qeq_bool x a && Qeq_bool y b then Ok v else tlookup t' ph a b
  end.

Definition mk_has (s l g : bool) (ph : phase) : bool :=
  match ph with Ps => s | Pl => l | Pg => g end.

(* fake Hvap handle: table T -> value or None; unknown T gives None *)
Fixpoint hv_lookup (t : list (Q * option Q)) (x : Q) : option Q :=
  match t with
  | [] => None
  | (k, v) :: t' => if Qeq_bool k x then v else hv_lookup t' x
  end.
Definition mk_hvap (present : bool) (t : list (Q * option Q)) : option (Q -> option Q) :=
  if present then Some (hv_lookup t) else None.

(* fake Cn handle called at T: table (phase, T) -> value; a handle without method returns None *)
Definition cntab := list (phase * Q * Q).
Fixpoint cn_lookup (t : cntab) (ph : phase) (x : Q) : pyv Q :=
  match t with
  | [] => Err EKey
  | (p, k, v) :: t' => if phase_eqb p ph && Qeq_bool k x then Ok (Some v) else cn_lookup t' ph x
  end.

Record qchem : Type := mkQChem {
  qc_kind : cnkind; qc_pr : phase; qc_data : chemdata Q;
  qc_tI : tab; qc_tJ : tab; qc_cn : cntab }.

Definition qenv (lnc lnd : Q) (c : qchem) : env Q :=
  mkEnv Q (QOps lnc lnd)
        (fun ph a b => if d_hasCn (qc_data c) ph then tlookup (qc_tI c) ph a b else Err EOther)
        (fun ph a b => if d_hasCn (qc_data c) ph then tlookup (qc_tJ c) ph a b else Err EOther)
        Rgas_value.

Definition qinit (lnc lnd : Q) (c : qchem) : res (ehandle Q * ehandle Q) :=
  init_energies (qenv lnc lnd c) (qc_data c) (qc_kind c) (qc_pr c).

Definition eh_kind {A} (h : ehandle A) : nat :=
  match h with ENone => 0 | ESingle _ => 1 | EPhases _ _ _ => 2 end%nat.

(* Chemical.H / Chemical.S seen through create_mixture_model's handle (mixture.py:33-46) *)
Definition chem_H lnc lnd c ph T P : pyv Q := do hs <- qinit lnc lnd c; call_handle (fst hs) ph T P.
Definition chem_S lnc lnd c ph T P : pyv Q := do hs <- qinit lnc lnd c; call_handle (snd hs) ph T P.

(* the phase of the Cn object of a chemical: PhaseTHandle dispatches on the phase asked for,
   MockPhaseTHandle (locked / plain chemicals) calls the one model; the harness gives a plain
   chemical its fake liquid handle *)
Definition chem_Cn (c : qchem) (ph : phase) (T : option Q) : pyv Q :=
  let ph' := match qc_kind c with CnHandle => ph | CnLocked sp => sp | CnPlain => Pl end in
  match T with
  | None => Err EType
  | Some t => if d_hasCn (qc_data c) ph' then cn_lookup (qc_cn c) ph' t else Ok None
  end.

Inductive query : Type := QH (ph : phase) (T P : option Q) | QS (ph : phase) (T P : option Q).

Definition run_query lnc lnd c (q : query) : pyv Q :=
  match q with QH ph T P => chem_H lnc lnd c ph T P | QS ph T P => chem_S lnc lnd c ph T P end.

(* kinds of _H and _S after wiring, or the error raised by _init_energies *)
Definition wiring_kinds lnc lnd c : res (nat * nat) :=
  do hs <- qinit lnc lnd c; Ok (eh_kind (fst hs), eh_kind (snd hs)).
Definition kinds_eqb (a b : res (nat * nat)) : bool :=
  res_eqb (fun x y => Nat.eqb (fst x) (fst y) && Nat.eqb (snd x) (snd y)) a b.

Definition chem_case lnc lnd c (qs : list query) (kinds : res (nat * nat)) (expected : list (pyv Q)) : bool :=
  kinds_eqb (wiring_kinds lnc lnd c) kinds && pyvs_approxb (map (run_query lnc lnd c) qs) expected.

(* ---- mixtures ---- *)
Definition mix_env lnc lnd : env Q :=
  mkEnv Q (QOps lnc lnd) (fun _ _ _ => Err EOther) (fun _ _ _ => Err EOther) Rgas_value.

(* excess models of the harness: table chemical index -> value (independent of phase, T, P) *)
Definition const_models (vals : list (pyv Q)) : list (phase -> option Q -> option Q -> pyv Q) :=
  map (fun v => fun (_ : phase) (_ _ : option Q) => v) vals.

Record qmix : Type := mkQMix { qm_chems : list qchem; qm_excess : bool; qm_Hex : list (pyv Q); qm_Sex : list (pyv Q) }.

Definition mix_Hmodel lnc lnd (m : qmix) : mixfun (A := Q) :=
  IdealTPMixtureModel_call (mix_env lnc lnd) (map (chem_H lnc lnd) (qm_chems m)).
Definition mix_Smodel lnc lnd (m : qmix) : mixfun (A := Q) :=
  IdealEntropyModel_call (mix_env lnc lnd) (map (chem_S lnc lnd) (qm_chems m)).
Definition mix_H lnc lnd (m : qmix) ph (mol : list Q) T P : pyv Q :=
  Mixture_H (QOps lnc lnd) (qm_excess m) (mix_Hmodel lnc lnd m)
            (IdealTPMixtureModel_call (mix_env lnc lnd) (const_models (qm_Hex m)))
            ph (sparse_items (QOps lnc lnd) mol) T P.
Definition mix_S lnc lnd (m : qmix) ph (mol : list Q) T P : pyv Q :=
  Mixture_S (QOps lnc lnd) (qm_excess m) (mix_Smodel lnc lnd m)
            (IdealTPMixtureModel_call (mix_env lnc lnd) (const_models (qm_Sex m)))
            ph (sparse_items (QOps lnc lnd) mol) T P.
Definition mix_Cn lnc lnd (m : qmix) ph (mol : list Q) T : pyv Q :=
  IdealTMixtureModel_call (mix_env lnc lnd) (map chem_Cn (qm_chems m)) ph (sparse_items (QOps lnc lnd) mol) T None.
Definition mix_xH lnc lnd (m : qmix) (pm : list (phase * list Q)) T P : pyv Q :=
  Mixture_x (QOps lnc lnd) (fun ph mol => Mixture_H (QOps lnc lnd) (qm_excess m) (mix_Hmodel lnc lnd m)
            (IdealTPMixtureModel_call (mix_env lnc lnd) (const_models (qm_Hex m))) ph mol)
            (map (fun x => (fst x, sparse_items (QOps lnc lnd) (snd x))) pm) T P.
Definition mix_xS lnc lnd (m : qmix) (pm : list (phase * list Q)) T P : pyv Q :=
  Mixture_x (QOps lnc lnd) (fun ph mol => Mixture_S (QOps lnc lnd) (qm_excess m) (mix_Smodel lnc lnd m)
            (IdealTPMixtureModel_call (mix_env lnc lnd) (const_models (qm_Sex m))) ph mol)
            (map (fun x => (fst x, sparse_items (QOps lnc lnd) (snd x))) pm) T P.

(* the two single-phase models, run on table models *)
Definition sp_T lnc lnd (vals : list (pyv Q)) (mol : list Q) T : pyv Q :=
  SinglePhaseIdealTMixtureModel_call (mix_env lnc lnd) (map (fun v => fun (_ : option Q) => v) vals)
    (sparse_items (QOps lnc lnd) mol) T None.
Definition sp_TP lnc lnd (vals : list (pyv Q)) (mol : list Q) T P : pyv Q :=
  SinglePhaseIdealTPMixtureModel_call (mix_env lnc lnd) (map (fun v => fun (_ _ : option Q) => v) vals)
    (sparse_items (QOps lnc lnd) mol) T P.

(* Chemical._init_data: the derived entropy of fusion, from the caller's arguments and the stored values *)
Definition sfus_case (aH aT sH sT : option Q) (expected : pyv Q) : bool :=
  pyv_approxb (init_data_Sfus (mix_env 0 1) aH aT sH sT) expected.

(* ---- histories of copy / copy_models_from / at_state / setters over real chemicals whose heat-capacity
        handles have a constant user method (content = the constant per phase, None = no method) ---- *)
Definition qcc : Type := (option Q * option Q * option Q)%type.      (* constants of Cn.s, Cn.l, Cn.g *)
Definition cc_get (c : qcc) (ph : phase) : option Q :=
  match ph with Ps => fst (fst c) | Pl => snd (fst c) | Pg => snd c end.
Definition cc_set (c : qcc) (ph : phase) (v : option Q) : qcc :=
  match ph with Ps => (v, snd (fst c), snd c) | Pl => (fst (fst c), v, snd c) | Pg => (fst c, v) end.
Definition oq_eqb (a b : option Q) : bool := opt_eqb Qeq_bool a b.
Definition cc_eqb (a b : qcc) : bool :=
  oq_eqb (cc_get a Ps) (cc_get b Ps) && oq_eqb (cc_get a Pl) (cc_get b Pl) && oq_eqb (cc_get a Pg) (cc_get b Pg).
Record qsc : Type := mkSc { q_Tm : option Q; q_Tb : option Q; q_Hfus : option Q; q_Sfus : option Q; q_S0 : option Q }.

(* copy_models_from, key '_Cn' (_chemical.py:2019-2043): which handles are replaced by copies of the other's *)
Definition qmerge (ka kb : cnkind) (ca cb : qcc) : qcc :=
  match ka, kb with
  | CnHandle, CnHandle => cb
  | CnLocked sp, CnHandle => cc_set ca sp (cc_get cb sp)
  | CnLocked sp, CnLocked sp' => cc_set ca sp (cc_get cb sp')
  | CnHandle, CnLocked sp' => cc_set ca sp' (cc_get cb sp')
  | _, _ => ca
  end.

(* integrals of a handle with constant c: table keyed by (c, a, b), harvested from the real handle objects *)
Definition ctab := list (Q * Q * Q * Q).
Fixpoint clookup (t : ctab) (c a b : Q) : res Q :=
  match t with
  | [] => Err EKey
  | (k, x, y, v) :: t' => if Qeq_bool k c && Qeq_bool x a && Qeq_bool y b then Ok v else clookup t' c a b
  end.

Definition hinputs := inputs qcc (option Q) qsc.
Definition hchem := chem qcc (option Q) qsc.
Definition hop := op qcc (option Q) qsc.
Definition d0cc : qcc := (None, None, None).

Definition henv lnc lnd (tI tJ : ctab) (i : hinputs) : env Q :=
  mkEnv Q (QOps lnc lnd)
    (fun ph a b => match cc_get (i_cn _ _ _ i) ph with Some c => clookup tI c a b | None => Err EOther end)
    (fun ph a b => match cc_get (i_cn _ _ _ i) ph with Some c => clookup tJ c a b | None => Err EOther end)
    Rgas_value.
Definition hdata (i : hinputs) : chemdata Q :=
  let sc := i_sc _ _ _ i in
  mkChem Q (Some (2622555134571315 # 8796093022208)) (Some 101325) (Some 0) (q_S0 sc) (q_Hfus sc) (q_Sfus sc) (q_Tm sc) (q_Tb sc)
         (match i_hv _ _ _ i with Some v => Some (fun _ => Some v) | None => None end)
         (fun ph => match cc_get (i_cn _ _ _ i) ph with Some _ => true | None => false end).

(* what is observed of a chemical: its functors applied to a query.  When the handle objects the functors refer
   to no longer have the content they were built with (possible only if two chemicals share handle objects),
   the result mixes old constants with new integrals: outside the model, reported as EOther *)
Definition hobserve lnc lnd tI tJ (h : list qcc) (c : hchem) (q : query) : pyv Q :=
  let i := w_in _ _ _ c in
  if cc_eqb (hget qcc d0cc h (w_cn _ _ _ c)) (i_cn _ _ _ i) then
    do hs <- init_energies (henv lnc lnd tI tJ i) (hdata i) (i_kind _ _ _ i) (i_pr _ _ _ i);
    let nar ph := match w_narrow _ _ _ c with Some p => p | None => ph end in   (* lock_phase without a rebuild *)
    match q with
    | QH ph T P => call_handle (fst hs) (nar ph) T P
    | QS ph T P => call_handle (snd hs) (nar ph) T P
    end
  else Err EOther.

Definition hstate0 (specs : list (phase * qsc * option Q * qcc)) : state qcc (option Q) qsc :=
  let h := map (fun x => snd x) specs in
  (h, map (fun kx => let '(k, (p, sc, hv, _)) := kx in fresh qcc (option Q) qsc d0cc h CnHandle p sc hv k)
          (combine (seq 0 (length specs)) specs)).

(* the setters change the one datum; in particular (generated: Tm_setter_refreshes_Sfus = Hfus_setter_refreshes_Sfus = false)
   the entropy of fusion derived at construction, Sfus = Hfus / Tm, is NOT recomputed *)
Definition set_Tm (v : Q) (s : qsc) := mkSc (Some v) (q_Tb s) (q_Hfus s) (q_Sfus s) (q_S0 s).
Definition set_Tb (v : Q) (s : qsc) := mkSc (q_Tm s) (Some v) (q_Hfus s) (q_Sfus s) (q_S0 s).
Definition set_Hfus (v : Q) (s : qsc) := mkSc (q_Tm s) (q_Tb s) (Some v) (q_Sfus s) (q_S0 s).
Definition set_Sfus (v : Q) (s : qsc) := mkSc (q_Tm s) (q_Tb s) (q_Hfus s) (Some v) (q_S0 s).
Definition set_S0 (v : Q) (s : qsc) := mkSc (q_Tm s) (q_Tb s) (q_Hfus s) (q_Sfus s) (Some v).

(* what the chemical's own handles return now: Cn of a phase (the locked phase for a locked chemical), Hvap(Tb) *)
Definition hcn_now (h : list qcc) (c : hchem) (ph : phase) : pyv Q :=
  let ph' := match c_kind _ _ _ c with CnLocked sp => sp | _ => ph end in
  Ok (cc_get (hget qcc d0cc h (c_cn _ _ _ c)) ph').
Definition hhv_now (c : hchem) : pyv Q := Ok (c_hv _ _ _ c).

Definition hist_case lnc lnd tI tJ specs (ops : list hop) (qs : list query) (expected : list (list (pyv Q)))
           (cnqs : list phase) (cn_expected : list (list (pyv Q))) (hv_expected : list (pyv Q)) : bool :=
  let s := run qcc (option Q) qsc d0cc qmerge (hstate0 specs) ops in
  list_eqb pyvs_approxb (map (fun c => map (hobserve lnc lnd tI tJ (fst s) c) qs) (snd s)) expected
  && list_eqb pyvs_approxb (map (fun c => map (hcn_now (fst s) c) cnqs) (snd s)) cn_expected
  && pyvs_approxb (map hhv_now (snd s)) hv_expected.

(* ---- the constructor: Chemical(ID, phase_ref=, Hvap=, default=, method=) on one chemical with handle set [cn] ---- *)
Definition qctor := ctor_args qcc (option Q) qsc.
Definition ctor_case lnc lnd tI tJ (spec : phase * qsc * option Q * qcc) (a : qctor) (qs : list query) (expected : list (pyv Q))
           (cnqs : list phase) (cn_expected : list (pyv Q)) (hv_expected : pyv Q) : bool :=
  let '(p, sc, hv, cn) := spec in
  match construct qcc (option Q) qsc d0cc a [cn] CnHandle p sc hv 0 with
  | (h, Some c) =>
      pyvs_approxb (map (hobserve lnc lnd tI tJ h c) qs) expected
      && pyvs_approxb (map (hcn_now h c) cnqs) cn_expected
      && pyvs_approxb [hhv_now c] [hv_expected]
  | (_, None) => false        (* H and S would be None *)
  end.

(* ---- property packages: mixture of package k evaluated with the functors its mixture models hold ---- *)
Inductive pobs : Type :=
| PoH (k : nat) (ph : phase) (mol : list Q) (T P : option Q)
| PoS (k : nat) (ph : phase) (mol : list Q) (T P : option Q)
| PoCn (k : nat) (ph : phase) (mol : list Q) (T : option Q).

Definition pkg_mix (chems : list qchem) (p : pkg unit) : qmix :=
  mkQMix (flat_map (fun e => match nth_error chems (fst e) with Some c => [c] | None => [] end) (p_models p)) false [] [].

Definition pkg_obs lnc lnd (chems : list qchem) (s : list (pkg unit)) (o : pobs) : pyv Q :=
  match o with
  | PoH k ph mol T P => match nth_error s k with Some p => mix_H lnc lnd (pkg_mix chems p) ph mol T P | None => Err EIndex end
  | PoS k ph mol T P => match nth_error s k with Some p => mix_S lnc lnd (pkg_mix chems p) ph mol T P | None => Err EIndex end
  | PoCn k ph mol T => match nth_error s k with Some p => mix_Cn lnc lnd (pkg_mix chems p) ph mol T | None => Err EIndex end
  end.

(* the chemicals of these cases never change, so live and captured models coincide *)
Definition pkg_case lnc lnd (chems : list qchem) (ops : list (pop unit)) (chem_lists : list (list nat)) (obs : list pobs)
           (expected : list (pyv Q)) : bool :=
  let s := snd (prun unit (fun _ _ _ => true) (tt, []) ops) in
  list_eqb (list_eqb Nat.eqb) (map p_chems s) chem_lists && pyvs_approxb (map (pkg_obs lnc lnd chems s) obs) expected.

(* ---- packages over chemicals that CHANGE (the Rewire.v store): a model index evaluates the chemical's current
        functors when the models are live, and the functors of the store state captured at build time otherwise ---- *)
Definition hstate := state qcc (option Q) qsc.
Definition hrun1 (o : hop) (s : hstate) : hstate := step qcc (option Q) qsc d0cc qmerge s o.

(* chemical c has the same H / S functor objects in two store states: same version *)
Definition hsame (c : nat) (s s' : hstate) : bool :=
  match nth_error (snd s) c, nth_error (snd s') c with
  | Some a, Some b => Nat.eqb (w_ver _ _ _ a) (w_ver _ _ _ b)
  | _, _ => false
  end.

(* pickle round trip of the chemicals [ids] of a package: each gets a copy (new handle objects with the same content, the
   same functor objects as pickled -- also their version) appended to the store, the first at position n0.  A store state
   captured earlier may be shorter than n0: it is padded so that the positions agree *)
Definition hload (n0 : nat) (ids : list nat) (s : hstate) : hstate :=
  match snd s with
  | [] => s
  | d :: _ =>
      fold_left (fun (acc : hstate) (id : nat) =>
                   match nth_error (snd s) id with
                   | Some c =>
                       let h := fst acc in let k := length h in
                       (h ++ [hget qcc d0cc h (c_cn _ _ _ c)],
                        snd acc ++ [mkC qcc (option Q) qsc (c_kind _ _ _ c) (c_pr _ _ _ c) (c_sc _ _ _ c) (c_hv _ _ _ c) k
                                        (if Nat.eqb (w_cn _ _ _ c) (c_cn _ _ _ c) then k else w_cn _ _ _ c)
                                        (w_in _ _ _ c) (w_narrow _ _ _ c) (w_ver _ _ _ c)])
                   | None => acc
                   end)
                ids (fst s, snd s ++ repeat d (n0 - length (snd s)))
  end.
(* what unpickle_chemical does in addition when it rebuilds: reset_free_energies of each loaded chemical *)
Definition hrebuild (n0 k : nat) (s : hstate) : hstate :=
  fold_left (fun acc i => hrun1 (OReset _ _ _ i) acc) (seq n0 k) s.
Fixpoint index_of (c : nat) (ids : list nat) : nat :=
  match ids with [] => 0 | x :: t => if Nat.eqb x c then 0 else S (index_of c t) end.
Definition hren (n0 : nat) (ids : list nat) (c : nat) : nat := n0 + index_of c ids.

Definition entry_state (cur : hstate) (e : nat * option hstate) : hstate :=
  match snd e with None => cur | Some s => s end.
Definition entry_H lnc lnd tI tJ (cur : hstate) (e : nat * option hstate) : phase -> option Q -> option Q -> pyv Q :=
  fun ph T P => let s := entry_state cur e in
    match nth_error (snd s) (fst e) with Some c => hobserve lnc lnd tI tJ (fst s) c (QH ph T P) | None => Err EIndex end.
Definition entry_S lnc lnd tI tJ (cur : hstate) (e : nat * option hstate) : phase -> option Q -> option Q -> pyv Q :=
  fun ph T P => let s := entry_state cur e in
    match nth_error (snd s) (fst e) with Some c => hobserve lnc lnd tI tJ (fst s) c (QS ph T P) | None => Err EIndex end.
(* Chemical.Cn through the mixture: the PhaseTHandle dispatches on the phase, a locked chemical has one model *)
(* Chemical.Cn through the mixture: the mixture keeps the PhaseTHandle OBJECT of the chemical, which no rebuild of the
   free energies replaces, so the heat capacity is the chemical's current one *)
Definition entry_Cn (cur : hstate) (e : nat * option hstate) : phase -> option Q -> pyv Q :=
  fun ph T =>
    match nth_error (snd cur) (fst e), T with
    | Some c, Some _ =>
        let ph' := match c_kind _ _ _ c with CnLocked sp => sp | _ => ph end in
        Ok (cc_get (hget qcc d0cc (fst cur) (c_cn _ _ _ c)) ph')
    | Some _, None => Err EType
    | None, _ => Err EIndex
    end.

Definition hp_obs lnc lnd tI tJ (s : pstate hstate) (o : pobs) : pyv Q :=
  let E := mix_env lnc lnd in let O := QOps lnc lnd in
  match o with
  | PoH k ph mol T P =>
      match nth_error (snd s) k with
      | Some p => Mixture_H O false (IdealTPMixtureModel_call E (map (entry_H lnc lnd tI tJ (fst s)) (p_models p)))
                            (fun _ _ _ _ => Ok None) ph (sparse_items O mol) T P
      | None => Err EIndex end
  | PoS k ph mol T P =>
      match nth_error (snd s) k with
      | Some p => Mixture_S O false (IdealEntropyModel_call E (map (entry_S lnc lnd tI tJ (fst s)) (p_models p)))
                            (fun _ _ _ _ => Ok None) ph (sparse_items O mol) T P
      | None => Err EIndex end
  | PoCn k ph mol T =>
      match nth_error (snd s) k with
      | Some p => IdealTMixtureModel_call E (map (entry_Cn (fst s)) (p_models p)) ph (sparse_items O mol) T None
      | None => Err EIndex end
  end.

Definition pkghist_case lnc lnd tI tJ specs (ops : list (pop hstate)) (chem_lists : list (list nat)) (obs : list pobs)
           (expected : list (pyv Q)) : bool :=
  let s := prun hstate hsame (hstate0 specs, []) ops in
  list_eqb (list_eqb Nat.eqb) (map p_chems (snd s)) chem_lists && pyvs_approxb (map (hp_obs lnc lnd tI tJ s) obs) expected.

(* the property's "entropy jump at Tm = Hfus / Tm" after the melting point (or the heat of fusion) was changed through
   the public setters: the FULL statement, refuted in ProofsQ.v *)
Definition Sfus_follows_setters_statement : Prop :=
  forall (hf tm sf v : Q), ~ tm == 0 -> ~ v == 0 -> sf == hf / tm ->
    (exists x, q_Sfus (set_Tm v (mkSc (Some tm) None (Some hf) (Some sf) None)) = Some x /\ x == hf / v) /\
    (exists x, q_Sfus (set_Hfus v (mkSc (Some tm) None (Some hf) (Some sf) None)) = Some x /\ x == v / tm).
