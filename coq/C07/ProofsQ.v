(* C07 -- facts about the Q instance (no axioms). *)
From V Require Import Common.Num C07.Model C07.Gen_Rewire C07.Rewire C07.InstQ.
Open Scope Q_scope.

(* Hfus = 1000, Tm = 200, Sfus = 5 = Hfus / Tm; after chem.Tm = 250 the stored Sfus is still 5, not 4 *)
Lemma Sfus_follows_setters_refuted_lemma : ~ Sfus_follows_setters_statement.
Proof.
  intros ST. destruct (ST 1000 200 5 250) as [(x & E & Hx) _].
  - intros C; discriminate C.
  - intros C; discriminate C.
  - reflexivity.
  - simpl in E. inversion E; subst x. vm_compute in Hx. discriminate Hx.
Qed.
