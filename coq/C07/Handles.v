(* C07 -- a model handle (Chemical.Cn.l, Chemical.Hvap, ...) seen as an object with state: the selected method and,
   if __call__ memoises, the last temperature with its value.  Executable definitions only.
   Whether __call__ is stateless is GENERATED (Gen_Handles.v) from thermosteam/thermo/t_dependent_property.py;
   the `method` setter (_set_method, same file) only assigns the method. *)
From Coq Require Import List Bool.
From V Require Import C07.Gen_Handles.
Import ListNotations.

Section H.
  Variables Tt V : Type.                  (* temperatures, values *)
  Variable eqT : Tt -> Tt -> bool.
  Variable value : nat -> Tt -> V.        (* what method m gives at T *)

  Record handle : Type := mkH { h_method : nat; h_memo : option (Tt * V) }.

  Inductive hop : Type := HCall (T : Tt) | HSetMethod (m : nat).

  (* handle(T) *)
  Definition hcall (h : handle) (T : Tt) : V * handle :=
    if handle_call_stateless then (value (h_method h) T, h)
    else match h_memo h with
         | Some (T', v) => if eqT T T' then (v, h)
                           else (value (h_method h) T, mkH (h_method h) (Some (T, value (h_method h) T)))
         | None => (value (h_method h) T, mkH (h_method h) (Some (T, value (h_method h) T)))
         end.

  (* results of the calls of a history, each paired with the method selected when the call was made *)
  Fixpoint hrun (h : handle) (ops : list hop) : list (nat * Tt * V) :=
    match ops with
    | [] => []
    | HCall T :: t => let r := hcall h T in (h_method h, T, fst r) :: hrun (snd r) t
    | HSetMethod m :: t => hrun (mkH m (h_memo h)) t
    end.
End H.
