(* C14 -- lemmas about property packages with state (ModelPkg.v): the temperature solvers leave
   Mixture._free_energy_args empty on EVERY exit (return or exception), so the dict is empty whenever a stream
   reads a property, and every world reachable with such a package is reachable with the stateless functions
   a freshly built package computes. *)
From V Require Import Common.NumFacts C14.Model C14.Proofs C14.ModelPkg.

(* each of the four solvers, as it is in the source now, clears the dict whatever the numerical part does *)
Lemma exec_clears_HP f loads out : fst (exec prog_solve_T_at_HP f loads out) = [].
Proof. destruct out; reflexivity. Qed.
Lemma exec_clears_xHP f loads out : fst (exec prog_xsolve_T_at_HP f loads out) = [].
Proof. destruct out; reflexivity. Qed.
Lemma exec_clears_SP f loads out : fst (exec prog_solve_T_at_SP f loads out) = [].
Proof. destruct out; reflexivity. Qed.
Lemma exec_clears_xSP f loads out : fst (exec prog_xsolve_T_at_SP f loads out) = [].
Proof. destruct out; reflexivity. Qed.

Lemma exec_clears multi isS f loads out : fst (exec (prog_for multi isS) f loads out) = [].
Proof.
  destruct multi, isS; unfold prog_for;
    [apply exec_clears_xSP | apply exec_clears_xHP | apply exec_clears_SP | apply exec_clears_HP].
Qed.

Lemma exec_clears_eq multi isS f loads out f1 r1 :
  exec (prog_for multi isS) f loads out = (f1, r1) -> f1 = [].
Proof. intros E. pose proof (exec_clears multi isS f loads out) as H. rewrite E in H. exact H. Qed.

(* the result of a solver call (temperature or exception) does not depend on what the dict held before the call *)
Lemma exec_result_indep multi isS f g loads out :
  snd (exec (prog_for multi isS) f loads out) = snd (exec (prog_for multi isS) g loads out).
Proof. destruct multi, isS, out; reflexivity. Qed.

Section PkgProofs.
Variable ideal : nat -> option phase -> vec -> Q -> Q -> option Q.
Variable dep : nat -> phase -> Q -> fargs -> Q.
Variable sk : bool.
Variable cv : nat -> phase -> Q -> Q -> Q.

Notation pstep := (pstep ideal dep sk cv).
Notation prun := (prun ideal dep sk cv).
Notation prun_world := (prun_world ideal dep sk cv).
Notation c1 := (eos1 ideal dep []).
Notation cx := (eosx ideal dep []).

(* one operation: the dict is empty afterwards if it was empty before *)
Lemma pstep_fea pw o : pw_fea pw = [] -> pw_fea (fst (pstep pw o)) = [].
Proof.
  intros Hf. destruct o as [o' | i isS zero out1 out2]; unfold ModelPkg.pstep.
  - destruct (uses_solver o'); [exact Hf|].
    destruct (step _ _ _ _ _ _) as [w1 b]. exact Hf.
  - destruct (negb _); [exact Hf|].
    destruct (zero && _); [exact Hf|].
    destruct (exec _ (pw_fea pw) _ out1) as [f1 r1] eqn:E1.
    pose proof (exec_clears_eq _ _ _ _ _ _ _ E1) as H1.
    destruct r1 as [T | e].
    + destruct (lift _ _) as [w1 b]. exact H1.
    + destruct (i_multi _); [exact H1|].
      destruct (Nat.eqb _ 2); [exact H1|].
      destruct (set_phase _ _ _) as [s1 [e1|]]; [exact H1|].
      destruct (exec _ f1 _ out2) as [f2 r2] eqn:E2.
      pose proof (exec_clears_eq _ _ _ _ _ _ _ E2) as H2.
      destruct r2 as [T | e2]; [destruct (lift _ _) as [w2 b]|]; exact H2.
Qed.

Lemma prun_fea ops : forall pw, pw_fea pw = [] -> pw_fea (prun_world pw ops) = [].
Proof.
  induction ops as [|o t IH]; intros pw Hf; [exact Hf|].
  unfold ModelPkg.prun_world. cbn [ModelPkg.prun].
  pose proof (pstep_fea pw o Hf) as H1.
  destruct (pstep pw o) as [p1 b]. cbn [fst] in H1.
  specialize (IH p1 H1). unfold ModelPkg.prun_world in IH.
  destruct (prun p1 t) as [p2 bs]. exact IH.
Qed.

Lemma run_world_app (w : world) a b :
  run_world c1 cx sk cv w (a ++ b) = run_world c1 cx sk cv (run_world c1 cx sk cv w a) b.
Proof.
  revert w. induction a as [|o t IH]; intros w; [reflexivity|].
  unfold run_world in *. cbn [app run].
  destruct (step c1 cx sk cv w o) as [w1 b1].
  specialize (IH w1).
  destruct (run c1 cx sk cv w1 (t ++ b)) as [w2 bs] eqn:E2.
  destruct (run c1 cx sk cv w1 t) as [w3 bs3] eqn:E3.
  cbn [fst] in *. exact IH.
Qed.

Lemma run_world_one (w : world) o : run_world c1 cx sk cv w [o] = fst (step c1 cx sk cv w o).
Proof. unfold run_world. cbn [run]. destruct (step c1 cx sk cv w o) as [w1 b]. reflexivity. Qed.

Lemma step_valid_idx (w : world) o :
  forallb (fun i => Nat.ltb i (length (cobjs (w_cs w)))) (op_objs o) = true ->
  step c1 cx sk cv w o = step_valid c1 cx sk cv w o.
Proof. intros H. unfold step. rewrite H. reflexivity. Qed.

(* one operation with an empty dict moves the world exactly as the plain operations do under the stateless functions *)
Lemma pstep_world pw o : pw_fea pw = [] ->
  pw_w (fst (pstep pw o)) = run_world c1 cx sk cv (pw_w pw) (plain (pw_w pw) o).
Proof.
  intros Hf. destruct pw as [w f]. cbn [pw_fea pw_w] in *. subst f.
  destruct o as [o' | i isS zero out1 out2]; unfold ModelPkg.pstep, plain; cbn [pw_fea pw_w].
  - destruct (uses_solver o'); [reflexivity|].
    rewrite run_world_one. destruct (step c1 cx sk cv w o') as [w1 b]. reflexivity.
  - destruct (negb (Nat.ltb i _)) eqn:Hi; [reflexivity|].
    apply Bool.negb_false_iff in Hi.
    destruct (zero && _); [reflexivity|].
    destruct (exec _ [] _ out1) as [f1 r1] eqn:E1. cbn [snd].
    destruct r1 as [T | e].
    + rewrite run_world_one, step_valid_idx by (cbn [op_objs forallb]; rewrite Hi; reflexivity).
      cbn [step_valid]. destruct (lift w _) as [w1 b]. reflexivity.
    + destruct (i_multi _); [reflexivity|].
      destruct (Nat.eqb _ 2); [reflexivity|].
      cbv zeta.
      destruct (Nat.eqb (phase_of (w_st w) (imol_of (w_st w) (o_imol (obj_of (w_st w) i)))) 0).
      all: match goal with |- context [set_phase _ _ ?q] => pose (p' := q) end.
      all: assert (HP : run_world c1 cx sk cv w [OSetPhase i p'] = mkw (fst (set_phase (w_st w) i p')) (w_cs w))
        by (rewrite run_world_one, step_valid_idx by (cbn [op_objs forallb]; rewrite Hi; reflexivity);
            cbn [step_valid]; unfold lift; reflexivity).
      all: unfold p' in HP; clear p'.
      all: destruct (set_phase (w_st w) i _) as [s1 [e1|]] eqn:ES; [rewrite HP; reflexivity|].
      all: destruct (exec _ f1 _ out2) as [f2 r2] eqn:E2.
      all: destruct (exec (prog_for false isS) [] (loads_of s1 i) out2) as [f3 r3] eqn:E3.
      all: pose proof (exec_result_indep false isS f1 [] (loads_of s1 i) out2) as HR; rewrite E2, E3 in HR; cbn [snd] in HR; subst r2.
      all: cbn [snd].
      all: destruct r3 as [T | e2]; [|rewrite HP; reflexivity].
      all: match goal with |- context [[OSetPhase ?i0 ?q; OSetT _ ?T0]] =>
             change [OSetPhase i0 q; OSetT i0 T0] with ([OSetPhase i0 q] ++ [OSetT i0 T0]) end.
      all: rewrite run_world_app, HP; cbn [fst].
      all: rewrite run_world_one, step_valid_idx by (cbn [op_objs forallb w_cs]; rewrite Hi; reflexivity).
      all: cbn [step_valid w_st w_cs]; destruct (lift _ _) as [w2 b]; reflexivity.
Qed.

(* every world reachable with the stateful package is reachable with the stateless functions, and the dict is empty *)
Lemma prun_reachable pops : forall pw, pw_fea pw = [] ->
  exists ops, pw_w (prun_world pw pops) = run_world c1 cx sk cv (pw_w pw) ops.
Proof.
  induction pops as [|o t IH]; intros pw Hf.
  - exists []. reflexivity.
  - pose proof (pstep_fea pw o Hf) as H1. pose proof (pstep_world pw o Hf) as HW.
    unfold ModelPkg.prun_world. cbn [ModelPkg.prun].
    destruct (pstep pw o) as [p1 b]. cbn [fst] in H1, HW.
    destruct (IH p1 H1) as [ops Hops]. unfold ModelPkg.prun_world in Hops.
    destruct (prun p1 t) as [p2 bs]. cbn [fst] in *.
    exists (plain (pw_w pw) o ++ ops).
    rewrite run_world_app, <- HW. exact Hops.
Qed.

(* THE CLAUSE: after every history of operations on streams of a stateful package -- energy specifications that fail
   included -- a read returns what the package computes, with an EMPTY dict (= what a freshly built package computes),
   for the stream's current phase(s), T, P and composition *)
Lemma eos_read_fresh :
  sk = true -> calc1_respects c1 -> calcx_respects cx ->
  forall pops i name flow nophase,
    let pw := prun_world pw0 pops in
    (i < length (cobjs (w_cs (pw_w pw))))%nat ->
    rd_equiv (snd (get_property (eos1 ideal dep (pw_fea pw)) (eosx ideal dep (pw_fea pw)) (pw_w pw) i name flow nophase))
             (spec_read c1 cx (pw_w pw) i name flow nophase).
Proof.
  intros Hsk H1 Hx pops i name flow nophase pw Hi.
  assert (Hf : pw_fea pw = []) by (apply prun_fea; reflexivity).
  destruct (prun_reachable pops pw0 eq_refl) as [ops Hops].
  fold pw in Hops. rewrite Hf. cbn [pw_w pw0] in Hops. rewrite Hops in *. subst sk.
  exact (read_fresh_gen c1 cx true H1 Hx cv ops w0 i name flow nophase (or_introl eq_refl) (Inv_cs0 c1 cx) Hi).
Qed.

End PkgProofs.
