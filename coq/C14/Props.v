From V Require Import Common.NumFacts C14.Model C14.Proofs.
Example C14_placeholder : w0 = w0. Proof. reflexivity. Qed.
