(* C14 -- property theorems only.  Each is closed by [exact <lemma>] and followed by Print Assumptions.
   [calc1] / [calcx] are the property-package functions (oracles): the theorems hold for every pair of
   functions that respect numeric equality of their arguments.  The third argument of [run_world] / [step]
   is [shared_key]: true = source with the repair pending_fixes/C14_1 (proxy shares the key cell together
   with the memo dict), false = source before the repair (proxy shares the dict, copies the key). *)
From V Require Import Common.NumFacts C14.Model C14.Proofs C14.ProofsDeep C14.Sprog C14.Gen_Solvers C14.ModelPkg C14.ProofsPkg.

(* MAIN.  After EVERY history of operations (reads of any property in any order, T / P / phase / phases
   changes, in-place flow edits, scaling, emptying, mixing, copy_like, link_with / unlink, proxies, flow
   proxies, copies, phase views, reset_cache, property-package reset) starting from the empty object table,
   a read of any property on any existing object returns the value the property package computes for the
   object's CURRENT phase(s), T, P and normalised composition (times the current total flow where the
   source scales) -- never a memoised value of another state.  [spec_read] never looks at a memo.
   The property functions are PARTIAL (None = the function raises and the caller catches the exception): a read
   raises exactly when a fresh stream in the same state raises ([RErr] on both sides), and a read that raised
   earlier in the history never leaves a memo that a later read could mistake for the current state. *)
Theorem C14_read_fresh : forall calc1 calcx cv,
  calc1_respects calc1 -> calcx_respects calcx ->
  forall ops i name flow nophase,
    let w' := run_world calc1 calcx true cv w0 ops in
    (i < length (cobjs (w_cs w')))%nat ->
    rd_equiv (snd (get_property calc1 calcx w' i name flow nophase))
             (spec_read calc1 calcx w' i name flow nophase).
Proof.
  intros calc1 calcx cv H1 Hx ops i name flow nophase w' Hi.
  exact (read_fresh_gen calc1 calcx true H1 Hx cv ops w0 i name flow nophase (or_introl eq_refl) (Inv_cs0 calc1 calcx) Hi).
Qed.
Print Assumptions C14_read_fresh.

(* The same for what a history observes: a read operation appended to any history yields a value equivalent
   to the specification and leaves every flow, phase, T and P cell untouched (or names no object). *)
Theorem C14_read_op_fresh : forall calc1 calcx cv,
  calc1_respects calc1 -> calcx_respects calcx ->
  forall ops i name flow nophase,
    let w' := run_world calc1 calcx true cv w0 ops in
    (exists r, snd (step calc1 calcx true cv w' (ORead i name flow nophase))
                 = match r with RErr => BErr ERuntime | _ => BVal r end /\
               rd_equiv r (spec_read calc1 calcx w' i name flow nophase) /\
               w_st (fst (step calc1 calcx true cv w' (ORead i name flow nophase))) = w_st w')
    \/ ((length (cobjs (w_cs w')) <= i)%nat /\
        step calc1 calcx true cv w' (ORead i name flow nophase) = (w', BErr EIndex)).
Proof.
  intros calc1 calcx cv H1 Hx ops i name flow nophase.
  exact (read_op_fresh calc1 calcx true H1 Hx cv ops w0 i name flow nophase (or_introl eq_refl) (Inv_cs0 calc1 calcx)).
Qed.
Print Assumptions C14_read_op_fresh.

(* The specification value depends only on (class, phases, flows, T, P) of the object and its package:
   two objects -- in any two worlds, reached by any two histories -- in the same state have the same value. *)
Theorem C14_spec_depends_only_on_state : forall calc1 calcx w1 i1 w2 i2 name flow nophase,
  pstate_of (w_st w1) i1 = pstate_of (w_st w2) i2 ->
  c_pkg (cobj_of (w_cs w1) i1) = c_pkg (cobj_of (w_cs w2) i2) ->
  spec_read calc1 calcx w1 i1 name flow nophase = spec_read calc1 calcx w2 i2 name flow nophase.
Proof. exact spec_read_pstate. Qed.
Print Assumptions C14_spec_depends_only_on_state.

(* A freshly constructed single-phase stream is in exactly the state it was constructed with. *)
Theorem C14_new_stream_state : forall calc1 calcx sk cv w d p T P pkg,
  let w' := fst (step calc1 calcx sk cv w (ONew [d] [p] T P pkg)) in
  pstate_of (w_st w') (length (objs (w_st w))) = mkps false [p] [d] T P /\
  (length (objs (w_st w)) = length (cobjs (w_cs w)) ->
   c_pkg (cobj_of (w_cs w') (length (objs (w_st w)))) = pkg /\
   length (objs (w_st w')) = length (cobjs (w_cs w'))).
Proof. exact new_stream_pstate. Qed.
Print Assumptions C14_new_stream_state.

(* THE PROPERTY AS WORDED: after every history, a read on a single-phase stream equals the same read on a
   stream freshly constructed (appended to the table) with the same flows, phase, T and P and the same package. *)
Theorem C14_read_equals_fresh_stream : forall calc1 calcx cv,
  calc1_respects calc1 -> calcx_respects calcx ->
  forall ops i name flow nophase d p T P,
    let w' := run_world calc1 calcx true cv w0 ops in
    (i < length (cobjs (w_cs w')))%nat ->
    pstate_of (w_st w') i = mkps false [p] [d] T P ->
    let wn := fst (step calc1 calcx true cv w' (ONew [d] [p] T P (c_pkg (cobj_of (w_cs w') i)))) in
    rd_equiv (snd (get_property calc1 calcx w' i name flow nophase))
             (snd (get_property calc1 calcx wn (length (objs (w_st w'))) name flow nophase)).
Proof. exact equals_fresh_stream. Qed.
Print Assumptions C14_read_equals_fresh_stream.

(* ... and for EVERY object kind (Stream, MultiStream, phase view, proxy, copy ...): the constructor call
   [new_op_of p pkg] = ONew (flows of p) (phases of p) T P pkg re-creates the state p of object i, and the read on i
   equals the read on that new object.  A phase view is a single-phase object, so it needs no side condition; the side
   condition on MultiStreams only excludes one-row MultiStreams, which the modelled constructor cannot build. *)
Theorem C14_read_equals_fresh_stream_any : forall calc1 calcx cv,
  calc1_respects calc1 -> calcx_respects calcx ->
  forall ops i name flow nophase,
    let w' := run_world calc1 calcx true cv w0 ops in
    (i < length (cobjs (w_cs w')))%nat ->
    let p := pstate_of (w_st w') i in
    (ps_multi p = true -> length (ps_rows p) <> 1%nat) ->
    let wn := fst (step calc1 calcx true cv w' (new_op_of p (c_pkg (cobj_of (w_cs w') i)))) in
    rd_equiv (snd (get_property calc1 calcx w' i name flow nophase))
             (snd (get_property calc1 calcx wn (length (objs (w_st w'))) name flow nophase)).
Proof. exact equals_fresh_stream_any. Qed.
Print Assumptions C14_read_equals_fresh_stream_any.

(* a freshly constructed MultiStream is in exactly the state it was constructed with *)
Theorem C14_new_multistream_state : forall calc1 calcx sk cv w flows ps T P pkg,
  length flows <> 1%nat ->
  let w' := fst (step calc1 calcx sk cv w (ONew flows ps T P pkg)) in
  pstate_of (w_st w') (length (objs (w_st w))) = mkps true ps flows T P /\
  (length (objs (w_st w)) = length (cobjs (w_cs w)) ->
   c_pkg (cobj_of (w_cs w') (length (objs (w_st w)))) = pkg /\
   length (objs (w_st w')) = length (cobjs (w_cs w'))).
Proof. exact new_multistream_pstate. Qed.
Print Assumptions C14_new_multistream_state.

(* the state-side and cache-side object tables stay aligned along every history (model sanity) *)
Theorem C14_tables_aligned : forall calc1 calcx sk cv ops,
  length (objs (w_st (run_world calc1 calcx sk cv w0 ops))) = length (cobjs (w_cs (run_world calc1 calcx sk cv w0 ops))).
Proof. intros calc1 calcx sk cv ops. apply (run_aligned calc1 calcx sk cv ops w0). reflexivity. Qed.
Print Assumptions C14_tables_aligned.

(* VOLUMETRIC FLOWS (Stream.vol / MultiStream.vol, read through indexer.by_volume and the _data_cache dict that
   link_with may share): after every history in the domain [run_adm] (MultiStreams that link flows and T/P have
   the same phase tuple), for either variant of proxy(), a vol read returns exactly what a volumetric view built
   at that moment on the stream's own current flows, phase(s) and T/P returns -- never the view of another
   stream's phase or data.  [spec_vol] never looks at a _data_cache. *)
Theorem C14_vol_fresh : forall calc1 calcx sk cv ops i,
  run_adm calc1 calcx sk cv w0 ops = true ->
  let w' := run_world calc1 calcx sk cv w0 ops in
  (i < length (cobjs (w_cs w')))%nat ->
  snd (step calc1 calcx sk cv w' (ORVol i)) = BVec (spec_vol cv (w_st w') i).
Proof. exact vol_op_fresh. Qed.
Print Assumptions C14_vol_fresh.

(* ... and that value is a function of (class, phases, flows, T, P) only *)
Theorem C14_vol_depends_only_on_state : forall cv s i, spec_vol cv s i = vol_of_pstate cv (pstate_of s i).
Proof. exact spec_vol_pstate. Qed.
Print Assumptions C14_vol_depends_only_on_state.

(* The domain restriction [run_adm] of C14_vol_fresh cannot be dropped: MultiStream A (phases g, l) links flows and
   T/P with MultiStream B (phases l, s); B reads vol first, and A then gets B's cached view, built for B's phase tuple,
   instead of a view for its own phases.  (link_with does not check the phase tuples; the model transcribes it.) *)
Definition adm_ops : list op :=
  [ONew [[1; 2; 0]; [0; 1; 4]] [0%nat; 1%nat] 300 101325 O; ONew [[2; 0; 1]; [3; 1; 0]] [1%nat; 2%nat] 320 65536 O;
   OLink O 1%nat true false true; ORVol 1%nat].
Theorem C14_vol_adm_needed :
  run_adm stub_calc1 stub_calcx true stub_cvol w0 adm_ops = false /\
  let w' := run_world stub_calc1 stub_calcx true stub_cvol w0 adm_ops in
  (0 < length (cobjs (w_cs w')))%nat /\
  exists v, snd (step stub_calc1 stub_calcx true stub_cvol w' (ORVol O)) = BVec v /\
            veqb v (spec_vol stub_cvol (w_st w') O) = false.
Proof.
  split; [vm_compute; reflexivity|]. split; [vm_compute; lia|].
  eexists. split; vm_compute; reflexivity.
Qed.
Print Assumptions C14_vol_adm_needed.

(* The memo key is a VALUE: operations that only edit flows, T, P or the phase (in place, through a linked stream or
   a phase view, by mixing into a single- or multi-phase receiver, by H / S assignment) leave every key and every memo
   exactly as they were -- a later edit of the flows can never edit a stored key. *)
Theorem C14_state_only_ops_keep_keys_and_memos : forall calc1 calcx sk cv w o,
  state_only o = true -> w_cs (fst (step calc1 calcx sk cv w o)) = w_cs w.
Proof. exact state_only_keeps_cache. Qed.
Print Assumptions C14_state_only_ops_keep_keys_and_memos.

(* Source BEFORE the repair: the statement still holds for every history that creates no proxy ... *)
Theorem C14_read_fresh_without_proxy : forall calc1 calcx cv,
  calc1_respects calc1 -> calcx_respects calcx ->
  forall ops i name flow nophase,
    forallb (fun o => negb (is_proxy o)) ops = true ->
    let w' := run_world calc1 calcx false cv w0 ops in
    (i < length (cobjs (w_cs w')))%nat ->
    rd_equiv (snd (get_property calc1 calcx w' i name flow nophase))
             (spec_read calc1 calcx w' i name flow nophase).
Proof.
  intros calc1 calcx cv H1 Hx ops i name flow nophase NP w' Hi.
  exact (read_fresh_gen calc1 calcx false H1 Hx cv ops w0 i name flow nophase (or_intror NP) (Inv_cs0 calc1 calcx) Hi).
Qed.
Print Assumptions C14_read_fresh_without_proxy.

(* ... and is REFUTED with a proxy: read h on the original, change T, read h on the proxy, change T back,
   read h on the original returns the value memoised by the proxy for the other temperature. *)
Definition witness_ops : list op :=
  [ONew [[1; 3; 0]] [1%nat] 300 101325 O; OProxy O; ORead O O false false; OSetT O 320;
   ORead 1%nat O false false; OSetT O 300].

Theorem C14_read_fresh_before_repair_refuted :
  calc1_respects stub_calc1 /\ calcx_respects stub_calcx /\
  let w' := run_world stub_calc1 stub_calcx false stub_cvol w0 witness_ops in
  (0 < length (cobjs (w_cs w')))%nat /\
  ~ rd_equiv (snd (get_property stub_calc1 stub_calcx w' O O false false))
             (spec_read stub_calc1 stub_calcx w' O O false false).
Proof.
  split; [exact stub_calc1_respects|]. split; [exact stub_calcx_respects|].
  split; [vm_compute; lia|].
  apply rd_equivb_false. vm_compute. reflexivity.
Qed.
Print Assumptions C14_read_fresh_before_repair_refuted.

(* non-vacuity: the oracle contract is satisfiable (by the stub the harness installs), and the same
   5-step history on the repaired source returns the fresh value *)
Example C14_contract_satisfiable : calc1_respects stub_calc1 /\ calcx_respects stub_calcx.
Proof. split; [exact stub_calc1_respects | exact stub_calcx_respects]. Qed.

Example C14_witness_repaired :
  let w' := run_world stub_calc1 stub_calcx true stub_cvol w0 witness_ops in
  (1 < length (cobjs (w_cs w')))%nat /\
  snd (get_property stub_calc1 stub_calcx w' O O false false) = spec_read stub_calc1 stub_calcx w' O O false false /\
  c_m (cobj_of (w_cs w') O) = c_m (cobj_of (w_cs w') 1%nat) /\
  exists v, spec_read stub_calc1 stub_calcx w' O O false false = RVal v /\ ~ v == 0.
Proof.
  split; [vm_compute; lia|]. split; [vm_compute; reflexivity|]. split; [vm_compute; reflexivity|].
  eexists. split; [vm_compute; reflexivity|]. intros E. unfold Qeq in E. vm_compute in E. discriminate E.
Qed.

(* the hypotheses of C14_read_equals_fresh_stream are met after the witness history (object 0, liquid, T = 300) *)
Example C14_fresh_stream_hypotheses :
  let w' := run_world stub_calc1 stub_calcx true stub_cvol w0 witness_ops in
  pstate_of (w_st w') O = mkps false [1%nat] [[1; 3; 0]] 300 101325.
Proof. vm_compute. reflexivity. Qed.

(* non-vacuity of C14_vol_fresh: a gas stream linked to a liquid stream with (flow, TP) but not the phase; both read vol,
   the history is in the domain, and the two streams get different volumetric flows for the same molar flows *)
Definition vol_ops : list op :=
  [ONew [[1; 2; 1 # 2]] [0%nat] 256 65536 O; ONew [[4; 0; 0]] [1%nat] 300 101325 O;
   OLink O 1%nat true false true; ORVol 1%nat; ORVol O; OSetT 1%nat 320; ORVol O].
Example C14_vol_hypotheses :
  run_adm stub_calc1 stub_calcx true stub_cvol w0 vol_ops = true /\
  let w' := run_world stub_calc1 stub_calcx true stub_cvol w0 vol_ops in
  (1 < length (cobjs (w_cs w')))%nat /\
  veqb (spec_vol stub_cvol (w_st w') O) (spec_vol stub_cvol (w_st w') 1%nat) = false /\
  i_data (imol_of (w_st w') (o_imol (obj_of (w_st w') O))) = i_data (imol_of (w_st w') (o_imol (obj_of (w_st w') 1%nat))).
Proof. split; [vm_compute; reflexivity|]. split; [vm_compute; lia|]. split; vm_compute; reflexivity. Qed.

(* non-vacuity of C14_read_equals_fresh_stream_any for a MultiStream and for a phase view of it *)
Definition ms_ops : list op :=
  [ONew [[1; 2; 0]; [0; 1; 4]] [0%nat; 1%nat] 300 101325 O; OView O 1%nat; ORead O O true false; ORead 1%nat O true false;
   OSetFlow 1%nat O O 3; OSetHS O false 320].
Example C14_fresh_any_hypotheses :
  let w' := run_world stub_calc1 stub_calcx true stub_cvol w0 ms_ops in
  (1 < length (cobjs (w_cs w')))%nat /\
  ps_multi (pstate_of (w_st w') O) = true /\ length (ps_rows (pstate_of (w_st w') O)) = 2%nat /\
  ps_multi (pstate_of (w_st w') 1%nat) = false /\
  exists v, snd (get_property stub_calc1 stub_calcx w' 1%nat O true false) = RVal v /\ ~ v == 0.
Proof.
  split; [vm_compute; lia|]. repeat (split; [vm_compute; reflexivity|]).
  eexists. split; [vm_compute; reflexivity|]. intros E. unfold Qeq in E. vm_compute in E. discriminate E.
Qed.

(* the error path is reachable: mu raises at T = 384 K after H was memoised at 300 K; the failed read leaves the key
   of the new state over an EMPTY dict, and the next read of H recomputes *)
Definition raise_ops : list op :=
  [ONew [[1; 2; 0]; [0; 1; 4]] [0%nat; 1%nat] 300 101325 O; ORead O O true false; OSetT O 384; ORead O 5%nat false false].
Example C14_error_path :
  let wb := run stub_calc1 stub_calcx true stub_cvol w0 raise_ops in
  nth 3 (snd wb) BOk = BErr ERuntime /\
  memo_of (w_cs (fst wb)) (c_m (cobj_of (w_cs (fst wb)) O)) = [] /\
  (exists k, key_of (w_cs (fst wb)) (c_k (cobj_of (w_cs (fst wb)) O)) = Some k) /\
  rd_equivb (snd (get_property stub_calc1 stub_calcx (fst wb) O O true false))
            (spec_read stub_calc1 stub_calcx (fst wb) O O true false) = true /\
  spec_read stub_calc1 stub_calcx (fst wb) O 5%nat false false = RErr.
Proof.
  split; [vm_compute; reflexivity|]. split; [vm_compute; reflexivity|].
  split; [eexists; vm_compute; reflexivity|]. split; vm_compute; reflexivity.
Qed.

(* non-vacuity of C14_vol_fresh through mix_from into a multi-phase receiver whose phases are expanded in place: the
   MultiStream (g, l) has read vol (its _data_cache is filled), a solid inlet arrives, and the history is in the domain;
   the receiver then has three phases and a volumetric flow for the solid *)
Definition mixm_ops : list op :=
  [ONew [[1; 2; 0]; [0; 1; 4]] [0%nat; 1%nat] 300 101325 O; ONew [[0; 0; 2]] [2%nat] 320 65536 O;
   ONew [[1; 0; 0]] [1%nat] 300 101325 O; ORVol O; OMix O [1%nat; 2%nat] false 0].
Example C14_vol_mix_hypotheses :
  run_adm stub_calc1 stub_calcx true stub_cvol w0 mixm_ops = true /\
  let w' := run_world stub_calc1 stub_calcx true stub_cvol w0 mixm_ops in
  ps_phases (pstate_of (w_st w') O) = [0%nat; 1%nat; 2%nat] /\
  ps_rows (pstate_of (w_st w') O) = [[0; 0; 0]; [1 + 0; 0 + 0; 0 + 0]; [0 + 0; 0 + 0; 2 + 0]] /\
  dc_of (w_st w') (i_dc (imol_of (w_st w') (o_imol (obj_of (w_st w') O)))) = [].
Proof. split; [vm_compute; reflexivity|]. split; [vm_compute; reflexivity|]. split; vm_compute; reflexivity. Qed.

(* ================= deepening round: one-row MultiStreams, necessity of the second domain condition ================= *)

(* A MultiStream with a single phase (one row) cannot come out of the one-step constructor [ONew] of the model, which
   builds a Stream from one row; it is re-created by [one_row_ops]: construction with one spare row followed by the
   package reset, whose reset_chemicals re-creates the flow array with len(_phases) rows.  The new object is in
   exactly the requested state, has the requested package and an empty memo. *)
Theorem C14_new_one_row_multistream_state : forall calc1 calcx sk cv w d q T P pkg,
  length (objs (w_st w)) = length (cobjs (w_cs w)) ->
  let n := length (objs (w_st w)) in
  let w2 := run_world calc1 calcx sk cv w (one_row_ops n d q T P pkg) in
  pstate_of (w_st w2) n = mkps true [q] [d] T P /\
  c_pkg (cobj_of (w_cs w2) n) = pkg /\
  length (objs (w_st w2)) = length (cobjs (w_cs w2)) /\ (n < length (cobjs (w_cs w2)))%nat.
Proof. exact one_row_pstate. Qed.
Print Assumptions C14_new_one_row_multistream_state.

(* THE PROPERTY AS WORDED, FOR EVERY OBJECT with no exception for one-row MultiStreams: after every history a read on
   object i equals the read on the object that [new_ops_of] constructs from scratch in the state of i.  The only
   hypothesis left says that a MultiStream with one row has one phase (its phase tuple and its rows agree). *)
Theorem C14_read_equals_fresh_stream_all : forall calc1 calcx cv,
  calc1_respects calc1 -> calcx_respects calcx ->
  forall ops i name flow nophase,
    let w' := run_world calc1 calcx true cv w0 ops in
    (i < length (cobjs (w_cs w')))%nat ->
    let p := pstate_of (w_st w') i in
    (ps_multi p = true -> length (ps_rows p) = 1%nat -> length (ps_phases p) = 1%nat) ->
    let n := length (objs (w_st w')) in
    let wn := run_world calc1 calcx true cv w' (new_ops_of n p (c_pkg (cobj_of (w_cs w') i))) in
    rd_equiv (snd (get_property calc1 calcx w' i name flow nophase))
             (snd (get_property calc1 calcx wn n name flow nophase)).
Proof. exact equals_fresh_stream_all. Qed.
Print Assumptions C14_read_equals_fresh_stream_all.

(* the same for the volumetric flows, on the domain of C14_vol_fresh and for either variant of proxy() *)
Theorem C14_vol_equals_fresh_stream_all : forall calc1 calcx sk cv ops i pkg,
  run_adm calc1 calcx sk cv w0 ops = true ->
  let w' := run_world calc1 calcx sk cv w0 ops in
  (i < length (cobjs (w_cs w')))%nat ->
  let p := pstate_of (w_st w') i in
  (ps_multi p = true -> length (ps_rows p) = 1%nat -> length (ps_phases p) = 1%nat) ->
  let n := length (objs (w_st w')) in
  let wn := run_world calc1 calcx sk cv w' (new_ops_of n p pkg) in
  snd (read_vol cv (w_st w') i) = snd (read_vol cv (w_st wn) n).
Proof. exact vol_equals_fresh_stream_all. Qed.
Print Assumptions C14_vol_equals_fresh_stream_all.

(* The SECOND condition of run_adm (a receiver whose phases mix_from expands in place is the only holder of its
   SparseArray) cannot be dropped either: B links only the flows of A (this link is inside the domain), B reads vol,
   A receives a gas inlet (phases (l, s) -> (g, l, s) in place); B's cached view and a view built now disagree. *)
Theorem C14_vol_adm_mix_needed :
  run_adm stub_calc1 stub_calcx true stub_cvol w0 (firstn 6 adm_mix_ops) = true /\
  adm_mix (w_st (run_world stub_calc1 stub_calcx true stub_cvol w0 (firstn 6 adm_mix_ops))) O [2%nat; 3%nat] = false /\
  let w' := run_world stub_calc1 stub_calcx true stub_cvol w0 adm_mix_ops in
  (1 < length (cobjs (w_cs w')))%nat /\
  exists v, snd (step stub_calc1 stub_calcx true stub_cvol w' (ORVol 1%nat)) = BVec v /\
            veqb v (spec_vol stub_cvol (w_st w') 1%nat) = false.
Proof. exact vol_adm_mix_needed. Qed.
Print Assumptions C14_vol_adm_mix_needed.

(* non-vacuity: a one-row MultiStream is reachable (by the very operations above), has been read and mutated, and meets
   the hypotheses of the three theorems; its read returns a value *)
Definition one_row_history : list op :=
  one_row_ops O [1; 2; 0] 1%nat 300 101325 O ++ [ORead O O true false; OSetT O 320; ORVol O; OSetFlow O 1%nat 2%nat 4].
Example C14_one_row_hypotheses :
  run_adm stub_calc1 stub_calcx true stub_cvol w0 one_row_history = true /\
  let w' := run_world stub_calc1 stub_calcx true stub_cvol w0 one_row_history in
  (0 < length (cobjs (w_cs w')))%nat /\
  pstate_of (w_st w') O = mkps true [1%nat] [[1; 2; 4]] 320 101325 /\
  length (objs (w_st w0)) = length (cobjs (w_cs w0)) /\
  exists v, snd (get_property stub_calc1 stub_calcx w' O O true false) = RVal v /\ ~ v == 0.
Proof.
  split; [vm_compute; reflexivity|]. split; [vm_compute; lia|]. split; [vm_compute; reflexivity|].
  split; [reflexivity|]. eexists. split; [vm_compute; reflexivity|].
  intros E. unfold Qeq in E. vm_compute in E. discriminate E.
Qed.

(* PROPERTY PACKAGES WITH STATE (equation-of-state mixtures keep Mixture._free_energy_args between calls; H, S and Cn use
   an entry of that dict instead of the arguments they are given).  The four temperature solvers, AS THEY ARE IN THE
   SOURCE NOW (Gen_Solvers.v is regenerated from mixture.py on every run), leave the dict empty on every exit:
   whatever it held, whatever is loaded, whether the numerical part returns a temperature or raises. *)
Theorem C14_solvers_clear_free_energy_args : forall multi isS f loads out,
  fst (exec (prog_for multi isS) f loads out) = [].
Proof. exact exec_clears. Qed.
Print Assumptions C14_solvers_clear_free_energy_args.

(* ... hence after EVERY history of stream operations on such a package -- H / S specifications that fail (first solver
   call, phase flip g <-> l, second solver call) included -- the dict is empty *)
Theorem C14_free_energy_args_empty_after_every_history : forall ideal dep sk cv pops,
  pw_fea (prun_world ideal dep sk cv pw0 pops) = [].
Proof. intros ideal dep sk cv pops. apply prun_fea. reflexivity. Qed.
Print Assumptions C14_free_energy_args_empty_after_every_history.

(* ... and every property read returns what the package computes with an empty dict (what a freshly built, identical
   package computes) for the stream's CURRENT phase(s), T, P and composition, or raises exactly when that raises.
   [ideal] / [dep] are the ideal-mixture functions and the departure term (oracles). *)
Theorem C14_eos_read_fresh : forall ideal dep cv,
  calc1_respects (eos1 ideal dep []) -> calcx_respects (eosx ideal dep []) ->
  forall pops i name flow nophase,
    let pw := prun_world ideal dep true cv pw0 pops in
    (i < length (cobjs (w_cs (pw_w pw))))%nat ->
    rd_equiv (snd (get_property (eos1 ideal dep (pw_fea pw)) (eosx ideal dep (pw_fea pw)) (pw_w pw) i name flow nophase))
             (spec_read (eos1 ideal dep []) (eosx ideal dep []) (pw_w pw) i name flow nophase).
Proof. intros ideal dep cv H1 Hx. exact (eos_read_fresh ideal dep true cv eq_refl H1 Hx). Qed.
Print Assumptions C14_eos_read_fresh.

(* the worlds reachable with a stateful package are worlds reachable with its stateless functions: every theorem above
   about [run_world] applies to them *)
Theorem C14_eos_worlds_reachable : forall ideal dep sk cv pops,
  exists ops, pw_w (prun_world ideal dep sk cv pw0 pops)
              = run_world (eos1 ideal dep []) (eosx ideal dep []) sk cv w0 ops.
Proof. intros ideal dep sk cv pops. exact (prun_reachable ideal dep sk cv pops pw0 eq_refl). Qed.
Print Assumptions C14_eos_worlds_reachable.

(* non-vacuity and necessity: a failed H specification on a gas stream (both solver calls raise) leaves the dict empty
   with the source's solvers; with the try/finally flattened (load; solve; clear; return) the same history leaves the
   entries of both phases behind, and a later read of H on ANOTHER composition uses them *)
Definition eos_fail_ops : list pop :=
  [PS (ONew [[1; 2; 0]] [0%nat] 300 65536 O); PSetHS O false false (Err ERuntime) (Err ERuntime)].
Example C14_eos_failed_spec_leaves_nothing :
  map fst (pw_fea (prun_world estub_ideal estub_dep true stub_cvol pw0 eos_fail_ops)) = [].
Proof. vm_compute. reflexivity. Qed.
Example C14_flattened_solver_leaks :
  map fst (fst (exec (mksp [ALoad; ASolve; AClear; ARet] None []) [] [(0%nat, ([1; 2; 0], 65536))] (Err ERuntime))) = [0%nat].
Proof. vm_compute. reflexivity. Qed.
