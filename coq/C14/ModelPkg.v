(* C14 -- property packages with state (equation-of-state mixtures, thermosteam/mixture/mixture.py):
     EOSMixture.H / S / Cn (ideal term + departure term; the departure term is computed from
       self._free_energy_args[phase] when the phase is in that dict, from eos_args(phase, mol, T, P) otherwise),
     EOSMixture._load_free_energy_args / _load_xfree_energy_args, Mixture.xH / xS / xCn,
     Mixture.solve_T_at_HP / xsolve_T_at_HP / solve_T_at_SP / xsolve_T_at_SP (skeletons generated from the source:
       Gen_Solvers.v; load, try: numerical part, finally: clear),
     the H / S setters of Stream (with the `except Exception` branch that flips g <-> l and solves again) and of
       MultiStream (_stream.py, _multi_stream.py).
   The stream side is the model of Model.v, run one operation at a time with the property-package functions the
   package computes IN ITS CURRENT STATE.  Definitions only. *)
From V Require Export C14.Model C14.Sprog C14.Gen_Solvers.

Section Pkg.
(* oracles: the ideal-mixture functions (partial: None = raises) and the departure term (eos_mol included) as a function of
   (name, phase, T, pinned args) *)
Variable ideal : nat -> option phase -> vec -> Q -> Q -> option Q.
Variable dep : nat -> phase -> Q -> fargs -> Q.
Variable shared_key : bool.
Variable cvol : nat -> phase -> Q -> Q -> Q.

(* EOSMixture.H / S / Cn (names 0, 1, 2); the other names are plain functions of their arguments *)
Definition eos1 (f : fea) (pkg name : nat) (p : option phase) (z : vec) (T P : Q) : option Q :=
  match p with
  | Some ph =>
      if Nat.ltb name 3 then
        if negb (nonzero_row z) then Some 0                    (* if not mol.dct: return 0 *)
        else match ideal name p z T P with
             | None => None
             | Some v =>
                 if Nat.eqb ph 2 then Some v                   (* phase == 's': no departure term *)
                 else Some (v + dep name ph T (match fea_get ph f with Some a => a | None => (z, P) end))
             end
      else ideal name p z T P
  | None => ideal name None z T P
  end.
(* Mixture.xH & co: sum([H(phase, mol, T, P) for phase, mol in phase_mol]) *)
Definition eosx (f : fea) (pkg name : nat) (l : list (phase * vec)) (T P : Q) : option Q :=
  fold_right (fun a acc => match a, acc with Some x, Some y => Some (x + y) | _, _ => None end) (Some 0)
             (map (fun pz => eos1 f pkg name (Some (fst pz)) (snd pz) T P) l).

Inductive pop :=
| PS (o : op)                                              (* any operation of Model.v that does not call a T solver *)
| PSetHS (i : nat) (isS zero : bool) (out1 out2 : res Q).  (* s.H = v / s.S = v; out = what the numerical part of the
                                                              first / second solver call does (oracle) *)
Record pworld := mkpw { pw_w : world; pw_fea : fea }.
Definition pw0 : pworld := mkpw w0 [].

Definition uses_solver (o : op) : bool :=
  match o with OSetHS _ _ _ => true | OMix _ _ e _ => e | _ => false end.

(* what _load_free_energy_args(phase, self.mol, T, P) / _load_xfree_energy_args(tuple(self._imol), T, P) store *)
Definition loads_of (s : state) (i : nat) : list (nat * fargs) :=
  let o := obj_of s i in let im := imol_of s (o_imol o) in let P := snd (tc_of s (o_tc o)) in
  if i_multi im
  then flat_map (fun pr => if nonzero_row (snd pr) then [(fst pr, (snd pr, P))] else [])
                (combine (i_phases im) (data_rows s im))
  else [(phase_of s im, (hd [] (data_rows s im), P))].

Definition prog_for (multi isS : bool) : sprog :=
  if multi then (if isS then prog_xsolve_T_at_SP else prog_xsolve_T_at_HP)
  else (if isS then prog_solve_T_at_SP else prog_solve_T_at_HP).

Definition pstep (pw : pworld) (o : pop) : pworld * obs :=
  let w := pw_w pw in let f := pw_fea pw in let s := w_st w in
  match o with
  | PS o' =>
      if uses_solver o' then (pw, BErr EIndex)
      else let (w1, b) := step (eos1 f) (eosx f) shared_key cvol w o' in (mkpw w1 f, b)
  | PSetHS i isS zero out1 out2 =>
      if negb (Nat.ltb i (length (cobjs (w_cs w)))) then (pw, BErr EIndex) else
      let im := imol_of s (o_imol (obj_of s i)) in
      if zero && isempty s im then (pw, BOk) else                  (* if not H and self.isempty(): return *)
      let multi := i_multi im in
      let (f1, r1) := exec (prog_for multi isS) f (loads_of s i) out1 in
      match r1 with
      | Ok T => let (w1, b) := lift w (set_T s i T) in (mkpw w1 f1, b)
      | Err e =>
          if multi then (mkpw w f1, BErr e) else                   (* MultiStream: no except clause *)
          let ph := phase_of s im in
          if Nat.eqb ph 2 then (mkpw w f1, BErr e) else            (* neither 'g' nor 'l': raise error *)
          match set_phase s i (if Nat.eqb ph 0 then 1%nat else 0%nat) with
          | (s1, Some e1) => (mkpw (mkw s1 (w_cs w)) f1, BErr e1)
          | (s1, None) =>
              let (f2, r2) := exec (prog_for false isS) f1 (loads_of s1 i) out2 in
              match r2 with
              | Ok T => let (w2, b) := lift (mkw s1 (w_cs w)) (set_T s1 i T) in (mkpw w2 f2, b)
              | Err e2 => (mkpw (mkw s1 (w_cs w)) f2, BErr e2)
              end
          end
      end
  end.

Fixpoint prun (pw : pworld) (ops : list pop) : pworld * list (obs * list nat) :=
  match ops with
  | [] => (pw, [])
  | o :: t => let (p1, b) := pstep pw o in
              let (p2, bs) := prun p1 t in (p2, (b, map fst (pw_fea p1)) :: bs)
  end.
Definition prun_world (pw : pworld) (ops : list pop) : pworld := fst (prun pw ops).

(* the stream-level operations that change the world exactly as a package-level operation does (observations aside) *)
Definition plain (w : world) (o : pop) : list op :=
  let s := w_st w in
  match o with
  | PS o' => if uses_solver o' then [] else [o']
  | PSetHS i isS zero out1 out2 =>
      if negb (Nat.ltb i (length (cobjs (w_cs w)))) then [] else
      let im := imol_of s (o_imol (obj_of s i)) in
      if zero && isempty s im then [] else
      match snd (exec (prog_for (i_multi im) isS) [] (loads_of s i) out1) with
      | Ok T => [OSetT i T]
      | Err e =>
          if i_multi im then [] else
          let ph := phase_of s im in
          if Nat.eqb ph 2 then [] else
          let p' := if Nat.eqb ph 0 then 1%nat else 0%nat in
          match set_phase s i p' with
          | (s1, Some _) => [OSetPhase i p']
          | (s1, None) =>
              match snd (exec (prog_for false isS) [] (loads_of s1 i) out2) with
              | Ok T => [OSetPhase i p'; OSetT i T]
              | Err _ => [OSetPhase i p']
              end
          end
      end
  end.

End Pkg.

(* ---------- the stub equation-of-state package of the harness (same formulas on both sides) ---------- *)
Definition estub_ideal (name : nat) (p : option phase) (z : vec) (T P : Q) : option Q :=
  if Qle_bool 64 T && Qle_bool T 2048 then
    Some (inject_Z (Z.of_nat (name + 1)%nat)
          * (3 + match p with None => 0 | Some q => inject_Z (Z.of_nat (5 * (q + 1))%nat) end
             + match p with None => 1 | Some q => 1 + inject_Z (Z.of_nat (q + 1)%nat) / 2 end * vdot [8; 16; 32] z
             + T / 4 + P / 16384))
  else None.
Definition estub_dep (name : nat) (ph : phase) (T : Q) (a : fargs) : Q :=
  let m := fst a in let tot := qsum m in
  inject_Z (Z.of_nat (name + 1)%nat)
  * ((if Nat.eqb ph 1 then 4 else 2) + vdot [2; 4; 8] m / tot + T / 128 + snd a / 32768) * tot.

Definition pobs_eqb (a : obs * list nat) (b : obs * list nat) : bool :=
  obs_eqb (fst a) (fst b) && list_eqb Nat.eqb (snd a) (snd b).
Definition prun_eqb (shared : bool) (ops : list pop) (expect : list (obs * list nat)) (final : list snap) : bool :=
  let (pw, bs) := prun estub_ideal estub_dep shared stub_cvol pw0 ops in
  let w := pw_w pw in
  list_eqb pobs_eqb bs expect
  && Nat.eqb (length (objs (w_st w))) (length final)
  && list_eqb snap_eqb (map (snap_of w) (seq O (length final))) final.
