(* C14 -- deepening: the constructor lemma for one-row MultiStreams, and necessity of the second domain condition of
   C14_vol_fresh.  Only new lemmas about the existing model. *)
From V Require Import Common.NumFacts C14.Model C14.Proofs.
From Coq Require Import Lia Arith.

(* ---------- (2) the sole-holder condition of run_adm is necessary ---------- *)
(* MultiStream A (phases l, s) and MultiStream B (phases l, s); B links only the FLOWS of A (no T/P, so the link
   condition of run_adm is met and B keeps its own _data_cache); B reads vol; A then receives a gas and a liquid inlet
   through mix_from, which expands A's phases in place to (g, l, s): the shared SparseArray now starts with the new gas
   row, B still says (l, s).  B's cached volumetric view (built on the old rows) and a view built now disagree. *)
Definition adm_mix_ops : list op :=
  [ONew [[1; 2; 0]; [0; 1; 4]] [1%nat; 2%nat] 300 101325 O; ONew [[2; 0; 1]; [3; 1; 0]] [1%nat; 2%nat] 320 65536 O;
   ONew [[1; 1; 1]] [0%nat] 300 101325 O; ONew [[0; 2; 0]] [1%nat] 300 101325 O;
   OLink 1%nat O true false false; ORVol 1%nat; OMix O [2%nat; 3%nat] false 0].

Lemma vol_adm_mix_needed :
  run_adm stub_calc1 stub_calcx true stub_cvol w0 (firstn 6 adm_mix_ops) = true /\
  adm_mix (w_st (run_world stub_calc1 stub_calcx true stub_cvol w0 (firstn 6 adm_mix_ops))) O [2%nat; 3%nat] = false /\
  let w' := run_world stub_calc1 stub_calcx true stub_cvol w0 adm_mix_ops in
  (1 < length (cobjs (w_cs w')))%nat /\
  exists v, snd (step stub_calc1 stub_calcx true stub_cvol w' (ORVol 1%nat)) = BVec v /\
            veqb v (spec_vol stub_cvol (w_st w') 1%nat) = false.
Proof.
  split; [vm_compute; reflexivity|]. split; [vm_compute; reflexivity|]. split; [vm_compute; lia|].
  eexists. split; vm_compute; reflexivity.
Qed.

(* ---------- (1) one-row MultiStreams ---------- *)
(* The constructor operation [ONew] builds a Stream from one row.  A MultiStream with a single phase is built in the
   model by constructing it with one spare row and letting the package reset re-create its flow array for its phase
   tuple ([OSetPkg]: indexer.reset_chemicals allocates len(_phases) rows); both steps leave an empty memo. *)
Lemma reset_chem_pstate s n :
  (o_imol (obj_of s n) < length (imols s))%nat ->
  i_multi (imol_of s (o_imol (obj_of s n))) = true ->
  o_views (obj_of s n) = [] ->
  let im := imol_of s (o_imol (obj_of s n)) in
  pstate_of (reset_chem s n) n =
    mkps true (i_phases im) (firstn (length (i_phases im)) (data_rows s im))
         (fst (tc_of s (o_tc (obj_of s n)))) (snd (tc_of s (o_tc (obj_of s n)))).
Proof.
  intros OI M V. cbv zeta. unfold reset_chem. rewrite M, V.
  set (im := imol_of s (o_imol (obj_of s n))) in *.
  destruct (new_rows s (firstn (length (i_phases im)) (map (row s) (arr s (i_data im))))) as [sa rs] eqn:E.
  apply new_rows_spec in E as (R & S & A & PH & TC & I & O & D).
  unfold new_arr, new_dc. cbn [fst snd fold_left].
  unfold pstate_of, obj_of, imol_of, tc_of, data_rows, arr, row, wr_imol.
  cbn [objs imols tcs rows arrs set_imols set_dcs set_arrs i_multi i_data i_phases].
  rewrite O, I, TC, R, A.
  unfold obj_of, imol_of in OI. rewrite nth_upd_same_ref by exact OI.
  cbn [i_multi i_data i_phases]. rewrite nth_app_new.
  f_equal. rewrite S. unfold data_rows. rewrite M. apply map_nth_seq_app.
Qed.

Lemma obj_of_ensure_views s n k :
  o_imol (obj_of (ensure_views s n) k) = o_imol (obj_of s k) /\
  o_tc (obj_of (ensure_views s n) k) = o_tc (obj_of s k) /\
  o_views (obj_of (ensure_views s n) k) = o_views (obj_of s k).
Proof.
  unfold ensure_views. destruct (is_multi s n); [|auto].
  unfold obj_of, wr_obj; cbn [objs set_objs]. rewrite nth_upd.
  destruct (Nat.eqb_spec n k) as [<-|N]; cbn [andb]; [|auto].
  destruct (Nat.ltb n (length (objs s))); cbn; auto.
Qed.

Lemma ensure_views_same s n :
  imols (ensure_views s n) = imols s /\ tcs (ensure_views s n) = tcs s /\ rows (ensure_views s n) = rows s /\
  arrs (ensure_views s n) = arrs s /\ phs (ensure_views s n) = phs s.
Proof. unfold ensure_views. destruct (is_multi s n); repeat split. Qed.

(* what the constructor leaves behind for two or more rows *)
Lemma new_multi_struct calc1 calcx sk cv w d1 d2 t ps T P pkg :
  let w1 := fst (step calc1 calcx sk cv w (ONew (d1 :: d2 :: t) ps T P pkg)) in
  let n := length (objs (w_st w)) in
  (o_imol (obj_of (w_st w1) n) < length (imols (w_st w1)))%nat /\
  o_views (obj_of (w_st w1) n) = [] /\
  length (objs (w_st w1)) = S n.
Proof.
  destruct w as [s c]. unfold step. cbn [op_objs forallb]. unfold step_valid. cbn [w_st w_cs].
  unfold new_tc. destruct (new_rows (set_tcs s (tcs s ++ [(T, P)])) (d1 :: d2 :: t)) as [sa rs] eqn:E.
  apply new_rows_spec in E as (R & S & A & PH & TC & I & O & D). cbn in I, O.
  unfold new_arr, new_imol, new_obj. cbn [fst snd w_st].
  unfold obj_of. cbn [objs imols set_objs set_imols set_dcs set_arrs]. rewrite O, I, nth_app_new, !app_length.
  cbn. repeat split; lia.
Qed.

Definition one_row_ops (n : nat) (d : vec) (q : phase) (T P : Q) (pkg : nat) : list op :=
  [ONew [d; vzero nchem] [q] T P pkg; OSetPkg n pkg].

Lemma pstate_of_congr s s' k :
  objs s' = objs s -> imols s' = imols s -> tcs s' = tcs s -> rows s' = rows s -> arrs s' = arrs s -> phs s' = phs s ->
  pstate_of s' k = pstate_of s k.
Proof.
  intros O I T R A P. unfold pstate_of, obj_of, imol_of, tc_of, data_rows, phase_of, pcell_of, row, arr.
  rewrite O, I, T, R, A, P. reflexivity.
Qed.

Lemma one_row_pstate calc1 calcx sk cv w d q T P pkg :
  aligned w ->
  let n := length (objs (w_st w)) in
  let w2 := run_world calc1 calcx sk cv w (one_row_ops n d q T P pkg) in
  pstate_of (w_st w2) n = mkps true [q] [d] T P /\
  c_pkg (cobj_of (w_cs w2) n) = pkg /\
  aligned w2 /\ (n < nobj (w_cs w2))%nat.
Proof.
  intros A n w2. unfold w2, one_row_ops. rewrite !run_world_cons. cbn [Model.run_world Model.run fst].
  set (w1 := fst (step calc1 calcx sk cv w (ONew [d; vzero nchem] [q] T P pkg))).
  assert (A1 : aligned w1) by (apply step_aligned; exact A).
  destruct (new_multi_struct calc1 calcx sk cv w d (vzero nchem) [] [q] T P pkg) as (OI & OV & LN).
  fold w1 n in OI, OV, LN.
  assert (NL : length [d; vzero nchem] <> 1%nat) by (cbn; lia).
  destruct (new_multistream_pstate calc1 calcx sk cv w [d; vzero nchem] [q] T P pkg NL) as (PS & _).
  fold w1 n in PS.
  assert (G : (n < length (cobjs (w_cs w1)))%nat) by (unfold aligned in A1; lia).
  unfold step. cbn [op_objs forallb]. rewrite Bool.andb_true_r.
  destruct (Nat.ltb_spec n (length (cobjs (w_cs w1)))) as [_|X]; [|lia].
  destruct w1 as [s1 c1] eqn:EW. cbn [w_st w_cs] in *. unfold step_valid. cbn [w_st w_cs fst].
  (* facts about the object just constructed *)
  assert (M1 : is_multi s1 n = true /\ i_phases (imol_of s1 (o_imol (obj_of s1 n))) = [q] /\
               data_rows s1 (imol_of s1 (o_imol (obj_of s1 n))) = [d; vzero nchem] /\
               tc_of s1 (o_tc (obj_of s1 n)) = (T, P)).
  { unfold pstate_of in PS. unfold is_multi.
    destruct (i_multi (imol_of s1 (o_imol (obj_of s1 n)))) eqn:M; injection PS as P1 P2 P3 P4; [|discriminate].
    repeat split; auto. destruct (tc_of s1 (o_tc (obj_of s1 n))); cbn in *; congruence. }
  destruct M1 as (M1 & PH1 & DR1 & TC1).
  destruct (obj_of_ensure_views s1 n n) as (EO & ET & EV).
  destruct (ensure_views_same s1 n) as (EI & ETC & ER & EA & EP).
  split; [|split; [|split]].
  - rewrite reset_chem_pstate.
    + unfold imol_of, tc_of, data_rows, row, arr. rewrite EO, ET, EI, ETC, ER, EA.
      fold (imol_of s1 (o_imol (obj_of s1 n))). unfold is_multi in M1. rewrite M1.
      change (map (fun r => nth r (rows s1) []) (nth (i_data (imol_of s1 (o_imol (obj_of s1 n)))) (arrs s1) []))
        with (map (row s1) (arr s1 (i_data (imol_of s1 (o_imol (obj_of s1 n)))))).
      unfold data_rows in DR1. rewrite M1 in DR1. rewrite DR1, PH1.
      fold (tc_of s1 (o_tc (obj_of s1 n))). rewrite TC1. reflexivity.
    + rewrite EO. unfold imol_of in *. rewrite EI. exact OI.
    + rewrite EO. unfold imol_of. rewrite EI. exact M1.
    + rewrite EV. exact OV.
  - unfold reset_cache. rewrite M1, OV. cbn [map flat_map reset_cache_list].
    rewrite cobj_of_reset, Nat.eqb_refl. unfold nobj.
    destruct (Nat.ltb_spec n (length (cobjs c1))); [reflexivity | lia].
  - unfold aligned. cbn [w_st w_cs]. rewrite reset_cache_len.
    pose proof (reset_chem_nob (ensure_views s1 n) n) as U. pose proof (ensure_views_nob s1 n) as U2.
    unfold nob, aligned in *. cbn [w_st w_cs] in A1. lia.
  - unfold nobj. cbn [w_cs]. rewrite reset_cache_len. exact G.
Qed.

Lemma equals_fresh_stream_one_row calc1 calcx cv :
  calc1_respects calc1 -> calcx_respects calcx ->
  forall ops i name flow nophase q d T P,
    let w' := run_world calc1 calcx true cv w0 ops in
    (i < length (cobjs (w_cs w')))%nat ->
    pstate_of (w_st w') i = mkps true [q] [d] T P ->
    let n := length (objs (w_st w')) in
    let wn := run_world calc1 calcx true cv w' (one_row_ops n d q T P (c_pkg (cobj_of (w_cs w') i))) in
    rd_equiv (snd (get_property calc1 calcx w' i name flow nophase))
             (snd (get_property calc1 calcx wn n name flow nophase)).
Proof.
  intros H1 Hx ops i name flow nophase q d T P w' Hi HP n wn.
  assert (A : aligned w') by (apply run_aligned; reflexivity).
  assert (I' : Inv calc1 calcx (w_cs w'))
    by exact (run_inv calc1 calcx true H1 Hx cv ops w0 (or_introl eq_refl) (Inv_cs0 calc1 calcx)).
  destruct (one_row_pstate calc1 calcx true cv w' d q T P (c_pkg (cobj_of (w_cs w') i)) A) as (NP & NK & NA & NN).
  fold n wn in NP, NK, NA, NN.
  assert (In' : Inv calc1 calcx (w_cs wn))
    by exact (run_inv calc1 calcx true H1 Hx cv _ w' (or_introl eq_refl) I').
  eapply rd_equiv_trans; [apply (get_property_spec calc1 calcx H1 Hx w' i); [exact I' | exact Hi]|].
  apply rd_equiv_sym.
  eapply rd_equiv_trans; [apply (get_property_spec calc1 calcx H1 Hx wn n); [exact In' | exact NN]|].
  rewrite (spec_read_pstate calc1 calcx wn n w' i); [apply rd_equiv_refl| |exact NK].
  rewrite NP, HP. reflexivity.
Qed.

(* every object: a phase view, a Stream, a MultiStream with any number of rows (a one-row MultiStream has one phase) *)
Definition new_ops_of (n : nat) (p : pstate) (pkg : nat) : list op :=
  if ps_multi p && Nat.eqb (length (ps_rows p)) 1
  then one_row_ops n (hd [] (ps_rows p)) (hd O (ps_phases p)) (ps_T p) (ps_P p) pkg
  else [new_op_of p pkg].

Lemma equals_fresh_stream_all calc1 calcx cv :
  calc1_respects calc1 -> calcx_respects calcx ->
  forall ops i name flow nophase,
    let w' := run_world calc1 calcx true cv w0 ops in
    (i < length (cobjs (w_cs w')))%nat ->
    let p := pstate_of (w_st w') i in
    (ps_multi p = true -> length (ps_rows p) = 1%nat -> length (ps_phases p) = 1%nat) ->
    let n := length (objs (w_st w')) in
    let wn := run_world calc1 calcx true cv w' (new_ops_of n p (c_pkg (cobj_of (w_cs w') i))) in
    rd_equiv (snd (get_property calc1 calcx w' i name flow nophase))
             (snd (get_property calc1 calcx wn n name flow nophase)).
Proof.
  intros H1 Hx ops i name flow nophase w' Hi p HC n wn.
  unfold wn, new_ops_of.
  destruct (ps_multi p) eqn:M; cbn [andb].
  - destruct (Nat.eqb_spec (length (ps_rows p)) 1) as [L1|NL].
    + specialize (HC eq_refl L1).
      assert (EP : p = mkps true [hd O (ps_phases p)] [hd [] (ps_rows p)] (ps_T p) (ps_P p)).
      { destruct p as [m phs rws T P]. cbn in *. subst m.
        destruct rws as [|r [|r2 rt]]; cbn in L1; try discriminate.
        destruct phs as [|q [|q2 qt]]; cbn in HC; try discriminate. reflexivity. }
      apply (equals_fresh_stream_one_row calc1 calcx cv H1 Hx ops i name flow nophase); [exact Hi | exact EP].
    + cbn [Model.run_world Model.run]. 
      pose proof (equals_fresh_stream_any calc1 calcx cv H1 Hx ops i name flow nophase Hi) as R.
      cbv zeta in R. fold w' p n in R. specialize (R (fun _ => NL)).
      unfold Model.run_world. cbn [Model.run].
      destruct (step calc1 calcx true cv w' (new_op_of p (c_pkg (cobj_of (w_cs w') i)))) as [w1 b] eqn:E.
      cbn [fst] in *. exact R.
  - pose proof (equals_fresh_stream_any calc1 calcx cv H1 Hx ops i name flow nophase Hi) as R.
    cbv zeta in R. fold w' p n in R. specialize (R (fun X => ltac:(rewrite M in X; discriminate X))).
    unfold Model.run_world. cbn [Model.run].
    destruct (step calc1 calcx true cv w' (new_op_of p (c_pkg (cobj_of (w_cs w') i)))) as [w1 b] eqn:E.
    cbn [fst] in *. exact R.
Qed.

(* ---------- the re-creating operations put the new object into the requested state, for every kind ---------- *)
Lemma new_ops_pstate calc1 calcx sk cv w p pkg :
  aligned w ->
  (ps_multi p = false -> exists d q, ps_rows p = [d] /\ ps_phases p = [q]) ->
  (ps_multi p = true -> length (ps_rows p) = 1%nat -> length (ps_phases p) = 1%nat) ->
  let n := length (objs (w_st w)) in
  let wn := run_world calc1 calcx sk cv w (new_ops_of n p pkg) in
  pstate_of (w_st wn) n = p /\ c_pkg (cobj_of (w_cs wn) n) = pkg /\ aligned wn /\ (n < nobj (w_cs wn))%nat.
Proof.
  intros A HS HC n wn. unfold wn, new_ops_of.
  assert (GEN : (ps_multi p = true -> length (ps_rows p) <> 1%nat) ->
     let w1 := run_world calc1 calcx sk cv w [new_op_of p pkg] in
     pstate_of (w_st w1) n = p /\ c_pkg (cobj_of (w_cs w1) n) = pkg /\ aligned w1 /\ (n < nobj (w_cs w1))%nat).
  { intros HM w1. unfold w1. rewrite run_world_cons. cbn [Model.run_world Model.run fst].
    destruct (new_op_of_pstate calc1 calcx sk cv w p pkg HM HS) as (NP & NA). fold n in NP, NA.
    destruct (NA A) as (NK & NL).
    split; [exact NP|]. split; [exact NK|]. split; [exact NL|].
    unfold nobj, new_op_of. rewrite step_new_cs. unfold new_cobj_fresh; cbn. rewrite app_length; cbn.
    unfold aligned in A. fold n in A. lia. }
  destruct (ps_multi p) eqn:M; cbn [andb].
  - destruct (Nat.eqb_spec (length (ps_rows p)) 1) as [L1|NL].
    + specialize (HC eq_refl L1).
      assert (EP : p = mkps true [hd O (ps_phases p)] [hd [] (ps_rows p)] (ps_T p) (ps_P p)).
      { destruct p as [m phs rws T P]. cbn in *. subst m.
        destruct rws as [|r [|r2 rt]]; cbn in L1; try discriminate.
        destruct phs as [|q [|q2 qt]]; cbn in HC; try discriminate. reflexivity. }
      destruct (one_row_pstate calc1 calcx sk cv w (hd [] (ps_rows p)) (hd O (ps_phases p)) (ps_T p) (ps_P p) pkg A)
        as (NP & NK & NA & NN).
      fold n in NP, NK, NA, NN. split; [rewrite NP; symmetry; exact EP | auto].
    + apply GEN. intros _. exact NL.
  - apply GEN. intros X. discriminate X.
Qed.

(* the property as worded for the volumetric flows: in the domain run_adm, vol read on any object equals vol read on
   a stream freshly constructed in the same state *)
Lemma vol_equals_fresh_stream_all calc1 calcx sk cv ops i pkg :
  run_adm calc1 calcx sk cv w0 ops = true ->
  let w' := run_world calc1 calcx sk cv w0 ops in
  (i < length (cobjs (w_cs w')))%nat ->
  let p := pstate_of (w_st w') i in
  (ps_multi p = true -> length (ps_rows p) = 1%nat -> length (ps_phases p) = 1%nat) ->
  let n := length (objs (w_st w')) in
  let wn := run_world calc1 calcx sk cv w' (new_ops_of n p pkg) in
  snd (read_vol cv (w_st w') i) = snd (read_vol cv (w_st wn) n).
Proof.
  intros R w' Hi p HC n wn.
  destruct (run_sinv calc1 calcx sk cv ops w0 SInv_st0 eq_refl R) as [H A]. fold w' in H, A.
  destruct (new_ops_pstate calc1 calcx sk cv w' p pkg A (pstate_single _ _) HC) as (NP & _ & NA & NN).
  fold n wn in NP, NA, NN.
  assert (RN : run_adm calc1 calcx sk cv w' (new_ops_of n p pkg) = true).
  { unfold new_ops_of, one_row_ops, new_op_of. destruct (_ && _)%bool; reflexivity. }
  destruct (run_sinv calc1 calcx sk cv _ w' H A RN) as [Hn An]. fold wn in Hn, An.
  rewrite (read_vol_spec cv (w_st w') i H) by (unfold aligned in A; lia).
  rewrite (read_vol_spec cv (w_st wn) n Hn) by (unfold aligned, nobj in *; lia).
  rewrite !spec_vol_pstate, NP. reflexivity.
Qed.
