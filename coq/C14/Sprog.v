(* C14 -- the state a property package (Mixture object) carries between calls: Mixture._free_energy_args, and the
   control-flow skeleton of the four temperature solvers Mixture.solve_T_at_HP / xsolve_T_at_HP / solve_T_at_SP /
   xsolve_T_at_SP (thermosteam/mixture/mixture.py).  The skeletons themselves are regenerated from the source on every
   run (tr/C14_solvers.py -> Gen_Solvers.v); this file gives them their meaning.  Definitions only. *)
From V Require Export Common.Num.

(* what eos_args(phase, mol, T, P) pins: the material (eos_mol and zs are derived from it) and the pressure; the
   temperature it was built at is overridden by eos.to_TP_zs(T=T, ...) at every use *)
Definition fargs := (vec * Q)%type.
(* Mixture._free_energy_args : dict phase -> args (insertion ordered) *)
Definition fea := list (nat * fargs).

Fixpoint fea_get (p : nat) (f : fea) : option fargs :=
  match f with
  | [] => None
  | (q, a) :: t => if Nat.eqb p q then Some a else fea_get p t
  end.
Fixpoint fea_set (p : nat) (a : fargs) (f : fea) : fea :=
  match f with
  | [] => [(p, a)]
  | (q, b) :: t => if Nat.eqb p q then (q, a) :: t else (q, b) :: fea_set p a t
  end.
Definition fea_load (f : fea) (l : list (nat * fargs)) : fea :=
  fold_left (fun acc pa => fea_set (fst pa) (snd pa) acc) l f.

(* statements of a solver body, as the translator classifies them:
   ALoad  = self._load_free_energy_args(...) / self._load_xfree_energy_args(...)
   ASolve = the statements that compute T through flexsolve and the package functions (they may raise)
   AClear = self._free_energy_args.clear()
   ARet   = return *)
Inductive satom := ALoad | ASolve | AClear | ARet.
(* statements before the try, the try body with its finally block (no except clauses), statements after it *)
Record sprog := mksp { sp_pre : list satom; sp_try : option (list satom * list satom); sp_post : list satom }.

Record sst := mkss { ss_f : fea; ss_T : option Q; ss_exc : option err; ss_ret : bool }.
Definition is_some {A} (o : option A) : bool := match o with Some _ => true | None => false end.
Definition stopped (s : sst) : bool := ss_ret s || is_some (ss_exc s).

(* [out]: what the numerical part does on this call -- the temperature it finds or the exception it raises (oracle) *)
Definition atom1 (loads : list (nat * fargs)) (out : res Q) (s : sst) (a : satom) : sst :=
  if stopped s then s else
  match a with
  | ALoad => mkss (fea_load (ss_f s) loads) (ss_T s) None false
  | ASolve => match ss_T s with
              | Some _ => s
              | None => match out with
                        | Ok T => mkss (ss_f s) (Some T) None false
                        | Err e => mkss (ss_f s) None (Some e) false
                        end
              end
  | AClear => mkss [] (ss_T s) None false
  | ARet => mkss (ss_f s) (ss_T s) None true
  end.
Definition atoms (loads : list (nat * fargs)) (out : res Q) (l : list satom) (s : sst) : sst :=
  fold_left (atom1 loads out) l s.

Definition exec (p : sprog) (f : fea) (loads : list (nat * fargs)) (out : res Q) : fea * res Q :=
  let s1 := atoms loads out (sp_pre p) (mkss f None None false) in
  let s2 := match sp_try p with
            | None => s1
            | Some (body, fin) =>
                if stopped s1 then s1 else
                let sb := atoms loads out body s1 in
                (* finally: runs whatever happened in the body; the pending return / exception resumes afterwards *)
                let sf := atoms loads out fin (mkss (ss_f sb) (ss_T sb) None false) in
                if stopped sf then sf else mkss (ss_f sf) (ss_T sf) (ss_exc sb) (ss_ret sb)
            end in
  let s3 := atoms loads out (sp_post p) s2 in
  (ss_f s3,
   match ss_exc s3 with
   | Some e => Err e
   | None => if ss_ret s3 then match ss_T s3 with Some T => Ok T | None => Err EType end else Err EType
   end).
