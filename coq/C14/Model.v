(* C14 -- executable object-graph model of the property memo of thermosteam streams.
   Source modelled (thermosteam/_stream.py, _multi_stream.py, indexer.py, _phase.py):
     Stream._get_property / MultiStream._get_property (key = literal + composition copy,
     nophase variant, clear-on-miss, flow scaling), reset_cache (both classes) and its call
     sites (construction, copy, flow_proxy, unlink, phases change, _reset_thermo),
     proxy, flow_proxy, copy, link_with, unlink, copy_like, copy_thermal_condition,
     copy_phase, mix_from (single-phase receiver), T/P/phase setters, imol[...] = v, scale,
     F_mol setter, empty, MultiStream.__getitem__ (phase views with their own memos),
     Stream.phases / MultiStream.phases / MultiStream.phase setters (class changes).
   Python objects are cells of typed stores addressed by nat references; a stream object is a
   record of references.  The part of an object that only _get_property / reset_cache / proxy
   touch (key cell, memo dict, property package) lives in [cstate]; everything a mutator can
   touch lives in [state], so a mutator of type [state -> state * option err] cannot write a memo.
   [shared_key = true]  : proxy() shares the key cell together with the memo dict (repaired source)
   [shared_key = false] : proxy() shares the dict but copies the key (source before the repair).
   No lemmas in this file. *)
From V Require Export Common.Num.

Definition phase := nat.                       (* 0 = 'g', 1 = 'l', 2 = 's' (sorted order) *)

(* ---------- memo keys ---------- *)
Inductive lphase := LNo | LOne (p : phase) | LMany (ps : list phase).
Record literal := mklit { l_ph : lphase; l_T : Q; l_P : Q }.
Inductive compkey := CK1 (z : vec) | CKn (zs : list vec).
Definition key := option (literal * compkey).  (* None = (None, None) after reset_cache *)
Definition memo := list (nat * Q).             (* name -> per-mole value, sorted by name *)

Definition lphase_eqb (a b : lphase) : bool :=
  match a, b with
  | LNo, LNo => true
  | LOne p, LOne q => Nat.eqb p q
  | LMany ps, LMany qs => list_eqb Nat.eqb ps qs
  | _, _ => false
  end.
Definition literal_eqb (a b : literal) : bool :=
  lphase_eqb (l_ph a) (l_ph b) && qeqb (l_T a) (l_T b) && qeqb (l_P a) (l_P b).
Definition compkey_eqb (a b : compkey) : bool :=
  match a, b with
  | CK1 x, CK1 y => veqb x y
  | CKn xs, CKn ys => list_eqb veqb xs ys
  | _, _ => false
  end.
(* literal == last_literal and composition_key == last_composition_key *)
Definition key_matches (last : key) (lit : literal) (ck : compkey) : bool :=
  match last with
  | None => false
  | Some (l, c) => literal_eqb lit l && compkey_eqb ck c
  end.

Fixpoint mget (m : memo) (n : nat) : option Q :=
  match m with
  | [] => None
  | (k, v) :: t => if Nat.eqb k n then Some v else mget t n
  end.
Fixpoint mset (m : memo) (n : nat) (v : Q) : memo :=
  match m with
  | [] => [(n, v)]
  | (k, w) :: t => if Nat.eqb k n then (n, v) :: t
                   else if Nat.ltb n k then (n, v) :: (k, w) :: t
                   else (k, w) :: mset t n v
  end.

(* ---------- stores ---------- *)
Record pcell := mkp { p_val : phase; p_locked : bool }.
Record imol := mkimol {
  i_multi : bool;          (* MaterialIndexer (2-d) or ChemicalIndexer (1-d) *)
  i_data : nat;            (* ref: row (1-d) or SparseArray (2-d) *)
  i_ph : nat;              (* ref to the Phase object (1-d only) *)
  i_phases : list phase;   (* _phases (2-d only) *)
  i_dc : nat               (* ref to the _data_cache dict (cached volumetric views) *)
}.
(* an entry of _data_cache: the (Chemical)VolumetricFlowIndexer built by by_volume(TP).  It is keyed by the
   ThermalCondition OBJECT and holds the molar data it was built on (row dict, or the rows of the SparseArray;
   the modelled operations never mutate a SparseArray's row list, so the array reference stands for its rows),
   the phase container (1-d) or the phase tuple (2-d), and the same ThermalCondition object *)
Record dcent := mkde { d_tc : nat; d_data : nat; d_phases : list phase; d_ph : option nat }.
Record sobj := mkobj {
  o_imol : nat;            (* ref to the indexer object *)
  o_tc : nat;              (* ref to the ThermalCondition *)
  o_views : list (phase * nat);  (* MultiStream._streams: phase -> object index *)
  o_hasv : bool                  (* the object has a _streams attribute (a proxy() of a MultiStream has none until reset_cache) *)
}.
Record state := mkst {
  rows : list vec;         (* SparseVector objects *)
  arrs : list (list nat);  (* SparseArray objects: list of row refs *)
  phs : list pcell;        (* Phase / LockedPhase objects; refs 0,1,2 are the LockedPhase singletons *)
  tcs : list (Q * Q);      (* ThermalCondition objects *)
  imols : list imol;
  objs : list sobj;
  dcs : list (list dcent)  (* _data_cache dicts *)
}.
Record cobj := mkc { c_k : nat; c_m : nat; c_pkg : nat }.
Record cstate := mkcs { cobjs : list cobj; keys : list key; memos : list memo }.
Record world := mkw { w_st : state; w_cs : cstate }.

Definition st0 : state := mkst [] [] [mkp 0%nat true; mkp 1%nat true; mkp 2%nat true] [] [] [] [].
Definition cs0 : cstate := mkcs [] [] [].
Definition w0 : world := mkw st0 cs0.

Definition d_imol := mkimol false O O [] O.
Definition d_obj := mkobj O O [] false.
Definition d_cobj := mkc O O O.
Definition d_p := mkp O false.

Definition row (s : state) (r : nat) : vec := nth r (rows s) [].
Definition arr (s : state) (r : nat) : list nat := nth r (arrs s) [].
Definition pcell_of (s : state) (r : nat) : pcell := nth r (phs s) d_p.
Definition tc_of (s : state) (r : nat) : Q * Q := nth r (tcs s) (0, 0).
Definition imol_of (s : state) (r : nat) : imol := nth r (imols s) d_imol.
Definition obj_of (s : state) (i : nat) : sobj := nth i (objs s) d_obj.
Definition cobj_of (c : cstate) (i : nat) : cobj := nth i (cobjs c) d_cobj.
Definition key_of (c : cstate) (r : nat) : key := nth r (keys c) None.
Definition memo_of (c : cstate) (r : nat) : memo := nth r (memos c) [].

Definition set_rows (s : state) x := mkst x (arrs s) (phs s) (tcs s) (imols s) (objs s) (dcs s).
Definition set_arrs (s : state) x := mkst (rows s) x (phs s) (tcs s) (imols s) (objs s) (dcs s).
Definition set_phs (s : state) x := mkst (rows s) (arrs s) x (tcs s) (imols s) (objs s) (dcs s).
Definition set_tcs (s : state) x := mkst (rows s) (arrs s) (phs s) x (imols s) (objs s) (dcs s).
Definition set_imols (s : state) x := mkst (rows s) (arrs s) (phs s) (tcs s) x (objs s) (dcs s).
Definition set_objs (s : state) x := mkst (rows s) (arrs s) (phs s) (tcs s) (imols s) x (dcs s).

Definition wr_row (s : state) (r : nat) (v : vec) := set_rows s (upd (rows s) r v).
Definition wr_tc (s : state) (r : nat) (v : Q * Q) := set_tcs s (upd (tcs s) r v).
Definition wr_p (s : state) (r : nat) (v : pcell) := set_phs s (upd (phs s) r v).
Definition set_dcs (s : state) x := mkst (rows s) (arrs s) (phs s) (tcs s) (imols s) (objs s) x.
Definition dc_of (s : state) (r : nat) : list dcent := nth r (dcs s) [].
Definition new_dc (s : state) : state * nat := (set_dcs s (dcs s ++ [[]]), length (dcs s)).
Definition wr_imol (s : state) (r : nat) (v : imol) := set_imols s (upd (imols s) r v).
Definition wr_obj (s : state) (r : nat) (v : sobj) := set_objs s (upd (objs s) r v).

Definition new_row (s : state) (v : vec) : state * nat := (set_rows s (rows s ++ [v]), length (rows s)).
Definition new_arr (s : state) (v : list nat) : state * nat := (set_arrs s (arrs s ++ [v]), length (arrs s)).
Definition new_p (s : state) (v : pcell) : state * nat := (set_phs s (phs s ++ [v]), length (phs s)).
Definition new_tc (s : state) (v : Q * Q) : state * nat := (set_tcs s (tcs s ++ [v]), length (tcs s)).
(* every new indexer object comes with its own empty _data_cache *)
Definition new_imol (s : state) (v : nat -> imol) : state * nat :=
  (set_imols (set_dcs s (dcs s ++ [[]])) (imols s ++ [v (length (dcs s))]), length (imols s)).
Definition new_obj (s : state) (v : sobj) : state * nat := (set_objs s (objs s ++ [v]), length (objs s)).

(* allocate several rows with the given contents *)
Fixpoint new_rows (s : state) (vs : list vec) : state * list nat :=
  match vs with
  | [] => (s, [])
  | v :: t => let (s1, r) := new_row s v in let (s2, rs) := new_rows s1 t in (s2, r :: rs)
  end.

(* ---------- reading the current state of an object ---------- *)
Definition nchem : nat := 3%nat.
Definition is_multi (s : state) (i : nat) : bool := i_multi (imol_of s (o_imol (obj_of s i))).
Definition data_rows (s : state) (im : imol) : list vec :=
  if i_multi im then map (row s) (arr s (i_data im)) else [row s (i_data im)].
Definition total_of (s : state) (im : imol) : Q := qsum (map qsum (data_rows s im)).
Definition vsum_rows (zs : list vec) : vec := fold_right vadd (vzero nchem) zs.
Definition nonzero_row (v : vec) : bool := existsb (fun x => negb (qzerob x)) v.
Definition isempty (s : state) (im : imol) : bool := negb (existsb nonzero_row (data_rows s im)).
Definition phase_of (s : state) (im : imol) : phase := p_val (pcell_of s (i_ph im)).

(* literal and composition that _get_property builds; None when total == 0 *)
Definition cur_key (s : state) (i : nat) (nophase : bool) : option (Q * literal * compkey) :=
  let o := obj_of s i in
  let im := imol_of s (o_imol o) in
  let tp := tc_of s (o_tc o) in
  let total := total_of s im in
  if qzerob total then None
  else
    let comps := map (fun r => vdivs r total) (data_rows s im) in
    let lp := if nophase then LNo
              else if i_multi im then LMany (i_phases im) else LOne (phase_of s im) in
    let ck := if i_multi im then CKn comps else CK1 (nth O comps []) in
    Some (total, mklit lp (fst tp) (snd tp), ck).

Inductive rd := RNone | RVal (v : Q) | RErr.   (* None, a value, or the property function raised *)

Section Model.
(* property-package oracles: mixture.<name>(phase, z, T, P) / mixture.<name>(z, T, P), and
   mixture.x<name>(zip(phases, rows), T, P).  They are PARTIAL: None = the function raises (a model outside its
   validity range, a missing model); the exception propagates out of _get_property to the caller. *)
Variable calc1 : nat -> nat -> option phase -> vec -> Q -> Q -> option Q.
Variable calcx : nat -> nat -> list (phase * vec) -> Q -> Q -> option Q.
Variable shared_key : bool.
(* Chemical.V of chemical j: molar volume (phase, T, P) *)
Variable cvol : nat -> phase -> Q -> Q -> Q.

(* the value the mixture computes for a given literal and composition *)
Definition value_at (pkg name : nat) (lit : literal) (ck : compkey) : option Q :=
  match l_ph lit, ck with
  | LNo, CK1 z => calc1 pkg name None z (l_T lit) (l_P lit)
  | LNo, CKn zs => calc1 pkg name None (vsum_rows zs) (l_T lit) (l_P lit)
  | LOne p, CK1 z => calc1 pkg name (Some p) z (l_T lit) (l_P lit)
  | LMany ps, CKn zs => calcx pkg name (combine ps zs) (l_T lit) (l_P lit)
  | LOne p, CKn zs => calc1 pkg name (Some p) (vsum_rows zs) (l_T lit) (l_P lit)   (* not produced by cur_key *)
  | LMany ps, CK1 z => calcx pkg name (combine ps [z]) (l_T lit) (l_P lit)          (* not produced by cur_key *)
  end.

Definition out_val (flow : bool) (total v : Q) : rd := RVal (if flow then v * total else v).

(* Stream._get_property and MultiStream._get_property (they differ only in how literal,
   composition key and the mixture call are built, which cur_key / value_at carry) *)
Definition get_property (w : world) (i name : nat) (flow nophase : bool) : world * rd :=
  let s := w_st w in let c := w_cs w in
  match cur_key s i nophase with
  | None => (w, if flow then RVal 0 else RNone)
  | Some (total, lit, ck) =>
      let co := cobj_of c i in
      let hit := key_matches (key_of c (c_k co)) lit ck in
      let m := memo_of c (c_m co) in
      match (if hit then mget m name else None) with
      | Some v => (w, out_val flow total v)
      | None =>
          let m1 := if hit then m else [] in                       (* property_cache.clear() *)
          (* the key is updated BEFORE the calculation: when it raises, the key describes the new state and the
             dict is what the clear left (empty on a miss, untouched on a hit without the name) *)
          match value_at (c_pkg co) name lit ck with
          | Some v =>
              let c1 := mkcs (cobjs c) (upd (keys c) (c_k co) (Some (lit, ck)))
                             (upd (memos c) (c_m co) (mset m1 name v)) in
              (mkw s c1, out_val flow total v)
          | None =>
              let c1 := mkcs (cobjs c) (upd (keys c) (c_k co) (Some (lit, ck)))
                             (upd (memos c) (c_m co) m1) in
              (mkw s c1, RErr)
          end
      end
  end.

(* what a stream whose memo is empty returns in the same state *)
Definition spec_read (w : world) (i name : nat) (flow nophase : bool) : rd :=
  match cur_key (w_st w) i nophase with
  | None => if flow then RVal 0 else RNone
  | Some (total, lit, ck) =>
      match value_at (c_pkg (cobj_of (w_cs w) i)) name lit ck with
      | Some v => out_val flow total v
      | None => RErr
      end
  end.

(* ---------- cache-side primitives ---------- *)
(* Stream.reset_cache: a new key and a new dict for object i *)
(* [pk = Some p]: the object's _thermo is replaced as well (_reset_thermo) *)
Definition reset_cache1 (pk : option nat) (c : cstate) (i : nat) : cstate :=
  let co := cobj_of c i in
  mkcs (upd (cobjs c) i (mkc (length (keys c)) (length (memos c)) (match pk with Some p => p | None => c_pkg co end)))
       (keys c ++ [None]) (memos c ++ [[]]).
Fixpoint reset_cache_list (pk : option nat) (c : cstate) (l : list nat) : cstate :=
  match l with [] => c | i :: t => reset_cache_list pk (reset_cache1 pk c i) t end.
(* every object below [i] in the _streams tree (a phase view that was itself turned into a MultiStream has views) *)
Fixpoint sub_targets (fuel : nat) (s : state) (i : nat) : list nat :=
  match fuel with
  | O => []
  | S f => if is_multi s i
           then flat_map (fun v => v :: sub_targets f s v) (map snd (o_views (obj_of s i)))
           else []
  end.
(* class-dispatched reset_cache: MultiStream.reset_cache also calls reset_cache() on every view in _streams, which
   recurses when the view is a MultiStream.  [pk = Some p] (_reset_thermo) replaces the package of the object and of
   its direct views only.  A view is always a younger object than its owner, so the number of objects bounds the depth. *)
Definition reset_cache (pk : option nat) (s : state) (c : cstate) (i : nat) : cstate :=
  let direct := if is_multi s i then map snd (o_views (obj_of s i)) else [] in
  reset_cache_list None (reset_cache_list pk c (i :: direct))
                   (flat_map (sub_targets (length (objs s)) s) direct).
(* a new object with fresh key / memo *)
Definition new_cobj_fresh (c : cstate) (pkg : nat) : cstate :=
  mkcs (cobjs c ++ [mkc (length (keys c)) (length (memos c)) pkg]) (keys c ++ [None]) (memos c ++ [[]]).
(* proxy(): shares the dict; the key is shared (repaired) or copied (before the repair) *)
Definition new_cobj_proxy (c : cstate) (i : nat) : cstate :=
  let co := cobj_of c i in
  if shared_key then mkcs (cobjs c ++ [co]) (keys c) (memos c)
  else mkcs (cobjs c ++ [mkc (length (keys c)) (c_m co) (c_pkg co)])
            (keys c ++ [key_of c (c_k co)]) (memos c).

(* ---------- state-side mutators: state -> state * option err ---------- *)
Definition ok (s : state) : state * option err := (s, None).
Definition fail (s : state) (e : err) : state * option err := (s, Some e).

Definition set_T (s : state) (i : nat) (T : Q) :=
  let r := o_tc (obj_of s i) in ok (wr_tc s r (T, snd (tc_of s r))).
Definition set_P (s : state) (i : nat) (P : Q) :=
  let r := o_tc (obj_of s i) in ok (wr_tc s r (fst (tc_of s r), P)).

(* Phase.phase = p  /  LockedPhase.__setattr__ *)
Definition set_pcell (s : state) (r : nat) (p : phase) : state * option err :=
  let pc := pcell_of s r in
  if p_locked pc then (if Nat.eqb p (p_val pc) then ok s else fail s EOther)   (* AttributeError *)
  else ok (wr_p s r (mkp p false)).

(* MultiStream.phase = p (one character): becomes a Stream holding the summed row *)
Definition multi_to_single (s : state) (i : nat) (p : phase) : state :=
  let o := obj_of s i in
  let im := imol_of s (o_imol o) in
  let (s1, r) := new_row s (vsum_rows (data_rows s im)) in
  let (s2, pr) := new_p s1 (mkp p false) in
  let (s3, ir) := new_imol s2 (mkimol false r pr []) in
  wr_obj s3 i (mkobj ir (o_tc o) [] true).

Definition set_phase (s : state) (i : nat) (p : phase) : state * option err :=
  let im := imol_of s (o_imol (obj_of s i)) in
  if i_multi im then ok (multi_to_single s i p) else set_pcell s (i_ph im) p.

Fixpoint index_of (p : phase) (l : list phase) : option nat :=
  match l with
  | [] => None
  | q :: t => if Nat.eqb p q then Some O else option_map S (index_of p t)
  end.

(* imol[ID] = v  /  imol[phase, ID] = v *)
Definition set_flow (s : state) (i : nat) (p : phase) (j : nat) (v : Q) : state * option err :=
  let im := imol_of s (o_imol (obj_of s i)) in
  if i_multi im then
    match index_of p (i_phases im) with
    | None => fail s EUndefPhase
    | Some k =>
        (* after link_with between MultiStreams with different phase sets, _phases and data.rows can differ in length *)
        match nth_error (arr s (i_data im)) k with
        | None => fail s EIndex
        | Some r => ok (wr_row s r (upd (row s r) j v))
        end
    end
  else ok (wr_row s (i_data im) (upd (row s (i_data im)) j v)).

Definition data_refs (s : state) (im : imol) : list nat :=
  if i_multi im then arr s (i_data im) else [i_data im].
Fixpoint map_rows (s : state) (f : vec -> vec) (rs : list nat) : state :=
  match rs with [] => s | r :: t => map_rows (wr_row s r (f (row s r))) f t end.

(* data *= k *)
Definition scale (s : state) (i : nat) (k : Q) : state * option err :=
  ok (map_rows s (vscale k) (data_refs s (imol_of s (o_imol (obj_of s i))))).
(* F_mol = F_mol * k *)
Definition fmol_times (s : state) (i : nat) (k : Q) : state * option err :=
  let im := imol_of s (o_imol (obj_of s i)) in
  if qzerob (total_of s im) then fail s EOther else scale s i k.
Definition empty (s : state) (i : nat) : state * option err :=
  ok (map_rows s (fun v => vzero (length v)) (data_refs s (imol_of s (o_imol (obj_of s i))))).

(* indexer._copy_without_data + given data ref: new Phase copy (unlocked) for 1-d *)
Definition copy_imol_with (s : state) (im : imol) (d : nat) : state * nat :=
  if i_multi im then new_imol s (mkimol true d O (i_phases im))
  else let (s1, pr) := new_p s (mkp (phase_of s im) false) in new_imol s1 (mkimol false d pr []).
(* data.copy() *)
Definition copy_data (s : state) (im : imol) : state * nat :=
  if i_multi im then
    let (s1, rs) := new_rows s (map (row s) (arr s (i_data im))) in new_arr s1 rs
  else new_row s (row s (i_data im)).

Definition st_proxy (s : state) (i : nat) : state :=
  let o := obj_of s i in fst (new_obj s (mkobj (o_imol o) (o_tc o) [] false)).
Definition st_flow_proxy (s : state) (i : nat) : state :=
  let o := obj_of s i in
  let im := imol_of s (o_imol o) in
  let (s1, ir) := copy_imol_with s im (i_data im) in
  let (s2, tr) := new_tc s1 (tc_of s (o_tc o)) in
  fst (new_obj s2 (mkobj ir tr [] (i_multi im))).
Definition st_copy (s : state) (i : nat) : state :=
  let o := obj_of s i in
  let im := imol_of s (o_imol o) in
  let (s1, d) := copy_data s im in
  let (s2, ir) := copy_imol_with s1 im d in
  let (s3, tr) := new_tc s2 (tc_of s (o_tc o)) in
  fst (new_obj s3 (mkobj ir tr [] (i_multi im))).

(* Stream.link_with(other, flow, phase, TP) *)
Definition link_with (s : state) (i j : nat) (fl ph tp : bool) : state * option err :=
  let o := obj_of s i in let o2 := obj_of s j in
  let im := imol_of s (o_imol o) in let im2 := imol_of s (o_imol o2) in
  if negb (Bool.eqb (i_multi im) (i_multi im2)) then fail s ERuntime
  else
    let s1 := if tp then wr_obj s i (mkobj (o_imol o) (o_tc o2) (o_views o) (o_hasv o)) else s in
    (* _data_cache: shared when T/P, flows and (1-d) the phase are all linked, otherwise a new empty dict *)
    let (s2, dc) := if tp && fl && (ph || i_multi im) then (s1, i_dc im2) else new_dc s1 in
    let dat := if fl then i_data im2 else i_data im in
    let phr := if ph && negb (i_multi im) then i_ph im2 else i_ph im in
    ok (wr_imol s2 (o_imol o) (mkimol (i_multi im) dat phr (i_phases im) dc)).

(* MultiStream.reset_cache, state part: `self._streams = {}` when the attribute is missing *)
Definition ensure_views (s : state) (i : nat) : state :=
  let o := obj_of s i in
  if is_multi s i then wr_obj s i (mkobj (o_imol o) (o_tc o) (o_views o) true) else s.

(* Stream.unlink, state part (reset_cache is done by the caller) *)
Definition unlink (s : state) (i : nat) : state * option err :=
  let o := obj_of s i in
  let im := imol_of s (o_imol o) in
  if negb (i_multi im) && p_locked (pcell_of s (i_ph im)) then fail s ERuntime
  else
    let (s1, pr) := if i_multi im then (s, i_ph im) else new_p s (mkp (phase_of s im) false) in
    let (s2, d) := copy_data s1 im in
    let (s2, dc) := new_dc s2 in                                  (* imol._data_cache = {} *)
    let s3 := wr_imol s2 (o_imol o) (mkimol (i_multi im) d pr (i_phases im) dc) in
    let (s4, tr) := new_tc s3 (tc_of s (o_tc o)) in
    (* MultiStream.reset_cache creates _streams when the object has none *)
    ok (wr_obj s4 i (mkobj (o_imol o) tr (o_views o) (o_hasv o || i_multi im))).

(* Stream.phases = ps on a single-phase stream with >= 2 phases, current phase in ps:
   becomes a MultiStream whose row for the current phase holds a copy of the data *)
Definition single_to_multi (s : state) (i : nat) (ps : list phase) : state :=
  let o := obj_of s i in
  let im := imol_of s (o_imol o) in
  let p := phase_of s im in
  let d := row s (i_data im) in
  let (s1, rs) := new_rows s (map (fun q => if Nat.eqb q p then d else vzero (length d)) ps) in
  let (s2, a) := new_arr s1 rs in
  let (s3, ir) := new_imol s2 (mkimol true a O ps) in
  wr_obj s3 i (mkobj ir (o_tc o) [] true).

(* MaterialIndexer.to_material_indexer(ps) *)
Definition multi_rephase (s : state) (i : nat) (ps : list phase) : state * option err :=
  let o := obj_of s i in
  let im := imol_of s (o_imol o) in
  let old := combine (i_phases im) (data_rows s im) in
  if existsb (fun pr => nonzero_row (snd pr) && negb (existsb (Nat.eqb (fst pr)) ps)) old
  then fail s EUndefPhase
  else
    let content q := match index_of q (i_phases im) with
                     | Some k => nth k (data_rows s im) (vzero nchem)
                     | None => vzero nchem end in
    let (s1, rs) := new_rows s (map content ps) in
    let (s2, a) := new_arr s1 rs in
    let (s3, ir) := new_imol s2 (mkimol true a O ps) in
    (* cached sub-streams are re-attached to the new rows; those whose phase has no row are dropped *)
    let '(s4, vs) :=
      fold_left (fun acc pn =>
                   let '(st, kept) := acc in
                   (* a view that was itself made multi-phase (its class is no longer Stream) is dropped as well *)
                   match (if is_multi st (snd pn) then None else index_of (fst pn) ps) with
                   | Some k => let (st1, vr) := new_imol st (mkimol false (nth k rs O) (fst pn) []) in
                               let v := obj_of st1 (snd pn) in
                               (wr_obj st1 (snd pn) (mkobj vr (o_tc v) (o_views v) (o_hasv v)), kept ++ [pn])
                   | None => (st, kept)
                   end) (o_views o) (s3, []) in
    ok (wr_obj s4 i (mkobj ir (o_tc o) vs true)).

Definition copy_tc (s : state) (i j : nat) : state * option err :=
  ok (wr_tc s (o_tc (obj_of s i)) (tc_of s (o_tc (obj_of s j)))).

(* Stream.copy_flow(other) with default arguments, same chemicals: self.mol[:] = other.mol *)
Definition copy_flow (s : state) (i j : nat) : state * option err :=
  ok (wr_row s (i_data (imol_of s (o_imol (obj_of s i)))) (row s (i_data (imol_of s (o_imol (obj_of s j)))))).

(* indexer.reset_chemicals(chemicals) for a package with the same chemicals in the same order: the data
   is re-created (new SparseVector / SparseArray), and _reset_thermo re-creates the indexers of the views *)
Definition reset_chem (s : state) (i : nat) : state :=
  let o := obj_of s i in
  let im := imol_of s (o_imol o) in
  (* 2-d: SparseArray.from_shape([len(_phases), size]) filled from old_data[i, j], i < len(_phases) *)
  let (s1, d) := if i_multi im
                 then let (sa, rs) := new_rows s (firstn (length (i_phases im)) (map (row s) (arr s (i_data im)))) in new_arr sa rs
                 else copy_data s im in
  let (s1, dc) := new_dc s1 in                                    (* self._data_cache = {} *)
  let s2 := wr_imol s1 (o_imol o) (mkimol (i_multi im) d (i_ph im) (i_phases im) dc) in
  if i_multi im then
    fold_left (fun st pn =>
                 match index_of (fst pn) (i_phases im) with
                 | Some k => let (st1, ir) := new_imol st (mkimol false (nth k (arr st d) O) (fst pn) []) in
                             let v := obj_of st1 (snd pn) in
                             wr_obj st1 (snd pn) (mkobj ir (o_tc v) (o_views v) (o_hasv v))
                 | None => st
                 end) (o_views o) s2
  else s2.

(* Stream.copy_phase: direct slot write on Phase, __setattr__ on LockedPhase *)
Definition copy_phase (s : state) (i j : nat) : state * option err :=
  let im := imol_of s (o_imol (obj_of s i)) in let im2 := imol_of s (o_imol (obj_of s j)) in
  if i_multi im2 then fail s EValue
  else if i_multi im then fail s EOther
  else set_pcell s (i_ph im) (phase_of s im2).

(* Stream.copy_like(other), both single-phase with the same chemicals *)
Definition copy_like_11 (s : state) (i j : nat) : state * option err :=
  let o := obj_of s i in let o2 := obj_of s j in
  let im := imol_of s (o_imol o) in let im2 := imol_of s (o_imol o2) in
  let r := if Nat.eqb (o_imol o) (o_imol o2) then (s, None)
           else let s1 := wr_row s (i_data im) (row s (i_data im2)) in
                set_pcell s1 (i_ph im) (phase_of s im2) in
  match r with
  | (s2, Some e) => (s2, Some e)
  | (s2, None) => copy_tc s2 i j
  end.

(* ChemicalIndexer.mix_from(others): single-phase receiver, same chemicals; a multi-phase inlet contributes all its rows *)
Definition mix_flows_1 (s : state) (i : nat) (srcs : list nat) : state :=
  let im := imol_of s (o_imol (obj_of s i)) in
  let sims := map (fun j => imol_of s (o_imol (obj_of s j))) srcs in
  (* set_main_phase: all inlets single-phase with the same phase -> receiver's phase is set; failures (a locked phase, an
     inlet without a phase container) are swallowed *)
  let s1 := match sims with
            | [] => s
            | f :: t => let p := phase_of s f in
                        if forallb (fun x => negb (i_multi x)) sims && forallb (fun x => Nat.eqb (phase_of s x) p) t
                        then fst (set_pcell s (i_ph im) p) else s
            end in
  let total := fold_right vadd (vzero nchem) (flat_map (data_rows s) sims) in
  wr_row s1 (i_data im) total.

(* MaterialIndexer._expand_phases(other_phases), phases within g, l, s *)
Fixpoint row_of_phase (p : phase) (l : list (phase * nat)) : option nat :=
  match l with
  | [] => None
  | (q, r) :: t => if Nat.eqb p q then Some r else row_of_phase p t
  end.
Fixpoint build_rows (s : state) (old : list (phase * nat)) (ps : list phase) : state * list nat :=
  match ps with
  | [] => (s, [])
  | p :: t =>
      match row_of_phase p old with
      | Some r => let (s1, rs) := build_rows s old t in (s1, r :: rs)
      | None => let (s1, r) := new_row s (vzero nchem) in           (* SparseVector.from_size(size) *)
                let (s2, rs) := build_rows s1 old t in (s2, r :: rs)
      end
  end.
Definition needs_expansion (im : imol) (others : list phase) : bool :=
  negb (forallb (fun p => existsb (Nat.eqb p) (i_phases im)) others).
Definition expand_phases (s : state) (ir : nat) (others : list phase) : state :=
  let im := imol_of s ir in
  if negb (needs_expansion im others) then s
  else
    let merged := filter (fun p => existsb (Nat.eqb p) (i_phases im ++ others)) (seq O 3) in     (* phase_tuple *)
    let (s1, rs) := build_rows s (combine (i_phases im) (arr s (i_data im))) merged in
    let (s2, a) := new_arr s1 rs in
    (* `data.rows = [...]` replaces the row list of the SparseArray IN PLACE: every indexer holding this SparseArray sees
       the new rows, while a cached volumetric view keeps the rows it was built on.  SparseArray cells are immutable
       here, so the same effect is a new cell to which every holder of the old one is re-pointed. *)
    let a0 := i_data im in
    let s3 := set_imols s2 (map (fun x => if i_multi x && Nat.eqb (i_data x) a0
                                          then mkimol true a (i_ph x) (i_phases x) (i_dc x) else x) (imols s2)) in
    let im3 := imol_of s3 ir in
    let s4 := wr_imol s3 ir (mkimol true (i_data im3) (i_ph im3) merged (i_dc im3)) in          (* _set_phases *)
    set_dcs s4 (upd (dcs s4) (i_dc im3) []).                                                     (* _data_cache.clear() *)

Definition phases_of_src (s : state) (x : imol) : list phase := if i_multi x then i_phases x else [phase_of s x].
(* the rows an inlet files under phase p *)
Definition src_rows_for (s : state) (p : phase) (x : imol) : list nat :=
  if i_multi x then map fst (filter (fun rp => Nat.eqb (snd rp) p) (combine (arr s (i_data x)) (i_phases x)))
  else if Nat.eqb (phase_of s x) p then [i_data x] else [].

(* MaterialIndexer.mix_from(others): multi-phase receiver, same chemicals *)
Definition mixm (s : state) (i : nat) (srcs : list nat) : state :=
  let ir := o_imol (obj_of s i) in
  let srefs := map (fun j => o_imol (obj_of s j)) srcs in
  let others := flat_map (fun r => phases_of_src s (imol_of s r)) srefs in
  let s1 := expand_phases s ir others in
  let im := imol_of s1 ir in
  (* for phase, sv in zip(phases, self.data.rows): sv.mix_from(rows filed under that phase) *)
  fold_left (fun st pr =>
               wr_row st (snd pr) (fold_right vadd (vzero nchem)
                    (map (row st) (flat_map (fun x => src_rows_for st (fst pr) (imol_of st x)) srefs))))
            (combine (i_phases im) (arr s1 (i_data im))) s1.

(* self._imol.mix_from([i._imol for i in streams]) *)
Definition mix_flows (s : state) (i : nat) (srcs : list nat) : state :=
  if is_multi s i then mixm s i srcs else mix_flows_1 s i srcs.

(* ---------- volumetric flows: Stream.vol / MultiStream.vol through indexer.by_volume and _data_cache ---------- *)
Fixpoint find_dc (t : nat) (l : list dcent) : option dcent :=
  match l with
  | [] => None
  | e :: r => if Nat.eqb (d_tc e) t then Some e else find_dc t r
  end.

(* what a newly built volumetric view of indexer [im] holds *)
Definition capture (tc : nat) (im : imol) : dcent :=
  if i_multi im then mkde tc (i_data im) (i_phases im) None          (* rows zipped with _phases *)
  else mkde tc (i_data im) [] (Some (i_ph im)).                     (* data.dct and the phase container *)

(* self._imol.by_volume(self._thermal_condition): the cached view for this ThermalCondition object, or a new one *)
Definition by_volume (s : state) (i : nat) : state * dcent :=
  let o := obj_of s i in
  let im := imol_of s (o_imol o) in
  match find_dc (o_tc o) (dc_of s (i_dc im)) with
  | Some e => (s, e)
  | None => let e := capture (o_tc o) im in
            (set_dcs s (upd (dcs s) (i_dc im) (dc_of s (i_dc im) ++ [e])), e)
  end.

(* VolumetricFlowDict.output over the stored entries: mol * 1000 * V_j(phase, T, P) with the view's own phase
   container / phase and ThermalCondition.  (The per-chemical (T, P, phase)-keyed molar-volume memo inside
   VolumetricFlowDict belongs to C11's model; its result is taken as V_j at its key.) *)
Definition view_rows (s : state) (e : dcent) : list vec :=
  let tp := tc_of s (d_tc e) in
  let conv (p : phase) (r : vec) := map2 (fun j x => x * (1000 * cvol j p (fst tp) (snd tp))) (seq O nchem) r in
  match d_ph e with
  | Some pr => [conv (p_val (pcell_of s pr)) (row s (d_data e))]
  | None => map (fun rp => conv (snd rp) (row s (fst rp))) (combine (arr s (d_data e)) (d_phases e))
  end.
(* Stream.vol = ivol.data ; MultiStream.vol = ivol.data.sum(0) *)
Definition read_vol (s : state) (i : nat) : state * vec :=
  let (s1, e) := by_volume s i in (s1, vsum_rows (view_rows s1 e)).
(* what a stream with an empty _data_cache returns in the same state *)
Definition spec_vol (s : state) (i : nat) : vec :=
  let o := obj_of s i in vsum_rows (view_rows s (capture (o_tc o) (imol_of s (o_imol o)))).

(* ---------- operations ---------- *)
Inductive op :=
| ONew (flows : list vec) (ps : list phase) (T P : Q) (pkg : nat)   (* one row: Stream(phase = hd ps); else MultiStream *)
| ORead (i name : nat) (flow nophase : bool)
| ORVol (i : nat)                               (* read s.vol *)
| OSetT (i : nat) (T : Q) | OSetP (i : nat) (P : Q) | OSetPhase (i : nat) (p : phase)
| OSetFlow (i : nat) (p : phase) (j : nat) (v : Q)
| OScale (i : nat) (k : Q) | OFmol (i : nat) (k : Q) | OEmpty (i : nat)
| OProxy (i : nat) | OFlowProxy (i : nat) | OCopy (i : nat)
| OLink (i j : nat) (fl ph tp : bool) | OUnlink (i : nat)
| OCopyLike (i j : nat) | OCopyFlow (i j : nat) | OCopyTC (i j : nat) | OCopyPhase (i j : nat)
| OMix (i : nat) (srcs : list nat) (energy : bool) (Tnew : Q)
| OMix1 (i j : nat)      (* mix_from with exactly one non-empty inlet and energy_balance=False *)
| OView (i : nat) (p : phase)
| OSetPhases (i : nat) (ps : list phase)
| OResetCache (i : nat)
| OSetPkg (i : nat) (pkg : nat)
| ONop
| OSetHS (i : nat) (zero : bool) (Tnew : Q).   (* s.H = v / s.S = v: zero = (v == 0); Tnew = what the T solver returns *)

Inductive obs := BOk | BErr (e : err) | BVal (r : rd) | BIdx (n : nat) | BVec (v : vec).

Definition lift (w : world) (r : state * option err) : world * obs :=
  (mkw (fst r) (w_cs w), match snd r with None => BOk | Some e => BErr e end).

Fixpoint find_view (p : phase) (l : list (phase * nat)) : option nat :=
  match l with
  | [] => None
  | (q, n) :: t => if Nat.eqb p q then Some n else find_view p t
  end.

(* sum([i.H for i in streams], Q): one memo read per source, in order *)
(* the sum stops at the first inlet whose H raises; the flag tells whether all reads returned *)
Fixpoint read_all (w : world) (l : list nat) : world * bool :=
  match l with
  | [] => (w, true)
  | j :: t => let (w1, r) := get_property w j O true false in
              match r with RErr => (w1, false) | _ => read_all w1 t end
  end.

(* object indices an operation mentions *)
Definition op_objs (o : op) : list nat :=
  match o with
  | ONew _ _ _ _ _ | ONop => []
  | OSetHS i _ _ => [i]
  | ORead i _ _ _ | ORVol i | OSetT i _ | OSetP i _ | OSetPhase i _ | OSetFlow i _ _ _ | OScale i _ | OFmol i _ | OEmpty i
  | OProxy i | OFlowProxy i | OCopy i | OUnlink i | OView i _ | OSetPhases i _ | OResetCache i | OSetPkg i _ => [i]
  | OLink i j _ _ _ | OCopyLike i j | OCopyFlow i j | OCopyTC i j | OCopyPhase i j | OMix1 i j => [i; j]
  | OMix i srcs _ _ => i :: srcs
  end.

Definition step_valid (w : world) (o : op) : world * obs :=
  let s := w_st w in let c := w_cs w in
  match o with
  | ONew flows ps T P pkg =>
      let (s1, tr) := new_tc s (T, P) in
      let '(s2, ir) :=
        match flows with
        | [d] => let (sa, r) := new_row s1 d in
                 let (sb, pr) := new_p sa (mkp (hd O ps) false) in
                 new_imol sb (mkimol false r pr [])
        | _ => let (sa, rs) := new_rows s1 flows in
               let (sb, a) := new_arr sa rs in
               new_imol sb (mkimol true a O ps)
        end in
      let (s3, n) := new_obj s2 (mkobj ir tr [] (match flows with [_] => false | _ => true end)) in
      (mkw s3 (new_cobj_fresh c pkg), BIdx n)
  | ORead i name flow nophase =>
      let (w1, r) := get_property w i name flow nophase in
      (w1, match r with RErr => BErr ERuntime | _ => BVal r end)       (* the caller catches the exception *)
  | ORVol i => let (s1, v) := read_vol s i in (mkw s1 c, BVec v)
  | OSetT i T => lift w (set_T s i T)
  | OSetP i P => lift w (set_P s i P)
  | OSetPhase i p => lift w (set_phase s i p)
  | OSetFlow i p j v => lift w (set_flow s i p j v)
  | OScale i k => lift w (scale s i k)
  | OFmol i k => lift w (fmol_times s i k)
  | OEmpty i => lift w (empty s i)
  | OProxy i => (mkw (st_proxy s i) (new_cobj_proxy c i), BIdx (length (objs s)))
  | OFlowProxy i => (mkw (st_flow_proxy s i) (new_cobj_fresh c (c_pkg (cobj_of c i))), BIdx (length (objs s)))
  | OCopy i => (mkw (st_copy s i) (new_cobj_fresh c (c_pkg (cobj_of c i))), BIdx (length (objs s)))
  | OLink i j fl ph tp =>
      match link_with s i j fl ph tp with
      | (s1, Some e) => (mkw s1 c, BErr e)
      | (s1, None) =>
          (* `if TP: self.reset_cache()` at the end of link_with (class-dispatched, like every reset_cache call site) *)
          if tp then (mkw (ensure_views s1 i) (reset_cache None s1 c i), BOk) else (mkw s1 c, BOk)
      end
  | OUnlink i =>
      match unlink s i with
      | (s1, Some e) => (mkw s1 c, BErr e)
      | (s1, None) => (mkw s1 (reset_cache None s1 c i), BOk)
      end
  | OCopyLike i j => lift w (copy_like_11 s i j)
  | OCopyFlow i j => lift w (copy_flow s i j)
  | OCopyTC i j => lift w (copy_tc s i j)
  | OCopyPhase i j => lift w (copy_phase s i j)
  | OMix i srcs energy Tnew =>
      (* srcs: the non-empty single-phase inlets, at least two (resolved by the harness) *)
      (* energy balance: H = sum([i.H for i in streams], Q) is read first (one memo read per inlet) *)
      let (w, allok) := if energy then read_all w srcs else (w, true) in
      let c := w_cs w in
      if negb allok then (w, BErr ERuntime) else                  (* an inlet's H raised: nothing was mixed *)
      let P := fold_right (fun j m => Qmin m (snd (tc_of s (o_tc (obj_of s j)))))
                          (snd (tc_of s (o_tc (obj_of s (hd O srcs))))) srcs in
      let s1 := fst (set_P s i P) in
      let s2 := mix_flows s1 i srcs in
      if energy then lift (mkw s2 c) (set_T s2 i Tnew)
      else (mkw s2 c, BOk)
  | OMix1 i j => (mkw (mix_flows s i [j]) c, BOk)     (* self._imol.mix_from([streams[0]._imol]) *)
  | OView i p =>
      let ob := obj_of s i in
      let im := imol_of s (o_imol ob) in
      if i_multi im then
        if negb (o_hasv ob) then (w, BErr EOther)       (* no _streams attribute: AttributeError *)
        else
        match find_view p (o_views ob) with
        | Some n => (w, BIdx n)
        | None =>
            match index_of p (i_phases im) with
            | None => (w, BErr EUndefPhase)
            | Some k =>
              match nth_error (arr s (i_data im)) k with
              | None => (w, BErr EIndex)
              | Some rr =>
                let (s1, ir) := new_imol s (mkimol false rr p []) in
                let (s2, n) := new_obj s1 (mkobj ir (o_tc ob) [] false) in
                let s3 := wr_obj s2 i (mkobj (o_imol ob) (o_tc ob) (o_views ob ++ [(p, n)]) true) in
                (mkw s3 (new_cobj_fresh c (c_pkg (cobj_of c i))), BIdx n)
              end
            end
        end
      (* Stream.__getitem__: `raise tmo.UndefinedPhase(phase)` itself fails with AttributeError
         (the name lives in thermosteam.exceptions) *)
      else if Nat.eqb p (phase_of s im) then (w, BIdx i) else (w, BErr EOther)
  | OSetPhases i ps =>
      (* ps sorted, duplicate-free (phase_tuple); resolved by the harness *)
      let im := imol_of s (o_imol (obj_of s i)) in
      match ps with
      | [p] => lift w (set_phase s i p)
      | _ =>
          if i_multi im then
            if list_eqb Nat.eqb ps (i_phases im) then (w, BOk)
            else match multi_rephase s i ps with
                 | (s1, Some e) => (mkw s1 c, BErr e)
                 | (s1, None) => (mkw s1 (reset_cache None s1 c i), BOk)
                 end
          else (mkw (single_to_multi s i ps) c, BOk)
      end
  | OResetCache i => (mkw (ensure_views s i) (reset_cache None s c i), BOk)
  | OSetPkg i pkg =>
      (* _reset_thermo(thermo), thermo is not self._thermo (resolved by the harness), same chemical order:
         thermo replaced, indexer.reset_chemicals, reset_cache() (self and views), views get new indexers and the
         package; no read happens in between, so package and fresh memo are installed together per object *)
      (mkw (reset_chem (ensure_views s i) i) (reset_cache (Some pkg) s c i), BOk)
  | ONop => (w, BOk)
  | OSetHS i zero Tnew =>
      (* H / S setter: `if not v and self.isempty(): return`; otherwise self.T = mixture.(x)solve_T_at_HP/SP(...) *)
      lift w (if zero && isempty s (imol_of s (o_imol (obj_of s i))) then ok s else set_T s i Tnew)
  end.

(* a Python reference always denotes an existing object: operations naming an index outside the table are rejected *)
Definition step (w : world) (o : op) : world * obs :=
  if forallb (fun i => Nat.ltb i (length (cobjs (w_cs w)))) (op_objs o) then step_valid w o else (w, BErr EIndex).

(* domain of the volumetric-flow theorem: MultiStreams that link flows and T/P have the same phase tuple
   (link_with does not check this; otherwise _phases and data.rows of the receiver disagree from then on) *)
(* a multi-phase receiver whose phases are expanded in place must be the only holder of its SparseArray: another
   indexer holding it (a linked MultiStream) keeps its own _phases and, unless it shares the _data_cache too, its
   cached volumetric views of the old rows *)
Definition adm_mix (s : state) (i : nat) (srcs : list nat) : bool :=
  let ir := o_imol (obj_of s i) in let im := imol_of s ir in
  let others := flat_map (fun j => phases_of_src s (imol_of s (o_imol (obj_of s j)))) srcs in
  if i_multi im && needs_expansion im others
  then forallb (fun r => Nat.eqb r ir || negb (i_multi (imol_of s r) && Nat.eqb (i_data (imol_of s r)) (i_data im)))
               (seq O (length (imols s)))
  else true.
Definition adm (s : state) (o : op) : bool :=
  match o with
  | OLink i j fl ph tp =>
      let im := imol_of s (o_imol (obj_of s i)) in let im2 := imol_of s (o_imol (obj_of s j)) in
      if i_multi im && i_multi im2 && fl && tp then list_eqb Nat.eqb (i_phases im) (i_phases im2) else true
  | OMix i srcs _ _ => adm_mix s i srcs
  | OMix1 i j => adm_mix s i [j]
  | _ => true
  end.
Fixpoint run_adm (w : world) (ops : list op) : bool :=
  match ops with
  | [] => true
  | o :: t => adm (w_st w) o && run_adm (fst (step w o)) t
  end.

Fixpoint run (w : world) (ops : list op) : world * list obs :=
  match ops with
  | [] => (w, [])
  | o :: t => let (w1, b) := step w o in let (w2, bs) := run w1 t in (w2, b :: bs)
  end.
Definition run_world (w : world) (ops : list op) : world := fst (run w ops).

End Model.

(* ---------- comparison helpers for the correspondence files ---------- *)
Definition rd_eqb (a b : rd) : bool :=
  match a, b with RNone, RNone => true | RVal x, RVal y => qapproxb x y | RErr, RErr => true | _, _ => false end.
Definition obs_eqb (a b : obs) : bool :=
  match a, b with
  | BOk, BOk => true
  | BErr e, BErr f => err_eqb e f
  | BVal x, BVal y => rd_eqb x y
  | BIdx n, BIdx m => Nat.eqb n m
  | BVec x, BVec y => vapproxb x y
  | _, _ => false
  end.

(* snapshot of one object: multi?, phases, rows, T, P, memo (names and values),
   and the smallest object index sharing: memo dict, key cell, thermal condition, first data row, indexer *)
Record snap := mksnap {
  sn_multi : bool; sn_phases : list phase; sn_rows : list vec; sn_T : Q; sn_P : Q;
  sn_memo : list (nat * Q); sn_keyset : bool;
  sn_amemo : nat; sn_akey : nat; sn_atc : nat; sn_arow : nat; sn_aimol : nat }.

Fixpoint first_same (f : nat -> nat) (x : nat) (n k : nat) : nat :=
  (* smallest index j in [k, k+n) with f j = x, else k+n *)
  match n with
  | O => k
  | S n' => if Nat.eqb (f k) x then k else first_same f x n' (S k)
  end.

Definition snap_of (w : world) (i : nat) : snap :=
  let s := w_st w in let c := w_cs w in
  let o := obj_of s i in let im := imol_of s (o_imol o) in let co := cobj_of c i in
  let n := length (objs s) in
  let first_row j := hd O (data_refs s (imol_of s (o_imol (obj_of s j)))) in
  mksnap (i_multi im) (if i_multi im then i_phases im else [phase_of s im]) (data_rows s im)
         (fst (tc_of s (o_tc o))) (snd (tc_of s (o_tc o)))
         (memo_of c (c_m co)) (match key_of c (c_k co) with None => false | Some _ => true end)
         (first_same (fun j => c_m (cobj_of c j)) (c_m co) n O)
         (first_same (fun j => c_k (cobj_of c j)) (c_k co) n O)
         (first_same (fun j => o_tc (obj_of s j)) (o_tc o) n O)
         (first_same first_row (first_row i) n O)
         (first_same (fun j => o_imol (obj_of s j)) (o_imol o) n O).

Definition memo_eqb (a b : list (nat * Q)) : bool :=
  list_eqb (fun x y => Nat.eqb (fst x) (fst y) && qapproxb (snd x) (snd y)) a b.
Definition snap_eqb (a b : snap) : bool :=
  Bool.eqb (sn_multi a) (sn_multi b) && list_eqb Nat.eqb (sn_phases a) (sn_phases b)
  && list_eqb vapproxb (sn_rows a) (sn_rows b) && qapproxb (sn_T a) (sn_T b) && qapproxb (sn_P a) (sn_P b)
  && memo_eqb (sn_memo a) (sn_memo b) && Bool.eqb (sn_keyset a) (sn_keyset b)
  && Nat.eqb (sn_amemo a) (sn_amemo b) && Nat.eqb (sn_akey a) (sn_akey b)
  && Nat.eqb (sn_atc a) (sn_atc b) && Nat.eqb (sn_arow a) (sn_arow b) && Nat.eqb (sn_aimol a) (sn_aimol b).

(* the property-package stub used by the harness (same formula on both sides) *)
Definition stub_w (name : nat) : Q :=
  nth name [1; 1#2; 2; 1#4; 4; 1#8; 8; 1#16; 16] 1.
Definition stub_a (pkg : nat) : vec := if Nat.eqb pkg O then [8; 16; 32] else [24; 40; 4].
(* kappa and mu are "outside their validity range" at T = 384 K: the stub raises there *)
Definition stub_raises (name : nat) (T : Q) : bool := (Nat.eqb name 4 || Nat.eqb name 5) && Qeq_bool T 384.
Definition stub_calc1 (pkg name : nat) (p : option phase) (z : vec) (T P : Q) : option Q :=
  if stub_raises name T then None else Some (
  stub_w name * (inject_Z (Z.of_nat (3 * (name + 1) + 7 * pkg)%nat)
                 + match p with None => 0 | Some q => inject_Z (Z.of_nat (5 * (q + 1))%nat) end
                 (* the composition weight depends on the phase, so that the multi-phase value is sensitive to how the
                    material is distributed over the phases and not only to the overall composition *)
                 + match p with None => 1 | Some q => 1 + inject_Z (Z.of_nat (q + 1)%nat) / 2 end * vdot (stub_a pkg) z
                 + T / 64 + P / 16384)).
Definition stub_cvol (j : nat) (p : phase) (T P : Q) : Q :=
  inject_Z (Z.of_nat (j + 1 + 4 * (p + 1))%nat) / 1024 + T / 4194304.
Definition stub_calcx (pkg name : nat) (l : list (phase * vec)) (T P : Q) : option Q :=
  fold_right (fun a acc => match a, acc with Some x, Some y => Some (x + y) | _, _ => None end) (Some 0)
             (map (fun pz => stub_calc1 pkg name (Some (fst pz)) (snd pz) T P) l).

Definition run_eqb (shared : bool) (ops : list op) (expect : list obs) (final : list snap) : bool :=
  let (w, bs) := run stub_calc1 stub_calcx shared stub_cvol w0 ops in
  list_eqb obs_eqb bs expect
  && Nat.eqb (length (objs (w_st w))) (length final)
  && list_eqb snap_eqb (map (snap_of w) (seq O (length final))) final.
