From V Require Import Common.NumFacts C14.Model.
