(* C14 -- proofs: every read returns the value computed for the current state. *)
From V Require Import Common.NumFacts C14.Model.
From Coq Require Import Lia Arith.

(* ---------- list helpers ---------- *)
Lemma nth_upd {A} (l : list A) i j x d :
  nth j (upd l i x) d = if (Nat.eqb i j && Nat.ltb i (length l))%bool then x else nth j l d.
Proof.
  revert i j; induction l as [|h t IH]; intros i j.
  - cbn [upd length]. destruct i; cbn; rewrite ?Bool.andb_false_r; reflexivity.
  - destruct i as [|i], j as [|j]; cbn [upd nth]; try reflexivity.
    rewrite IH. reflexivity.
Qed.

Lemma nth_upd_same_ref {A} (l : list A) i x d : (i < length l)%nat -> nth i (upd l i x) d = x.
Proof.
  intros H. rewrite nth_upd, Nat.eqb_refl. destruct (Nat.ltb_spec i (length l)); [reflexivity | lia].
Qed.

Lemma nth_upd_other_ref {A} (l : list A) i j x d : i <> j -> nth j (upd l i x) d = nth j l d.
Proof.
  intros H. rewrite nth_upd. destruct (Nat.eqb_spec i j); [contradiction | reflexivity].
Qed.

Lemma nth_app_old {A} (l : list A) x j d : (j < length l)%nat -> nth j (l ++ [x]) d = nth j l d.
Proof. intros H. apply app_nth1; exact H. Qed.

Lemma nth_app_new {A} (l : list A) x d : nth (length l) (l ++ [x]) d = x.
Proof. rewrite app_nth2 by lia. rewrite Nat.sub_diag. reflexivity. Qed.

Lemma list_eqb_nat_eq (a b : list nat) : list_eqb Nat.eqb a b = true -> a = b.
Proof.
  revert b; induction a as [|x a IH]; intros [|y b] H; cbn in H; try discriminate; auto.
  apply Bool.andb_true_iff in H as [H1 H2]. apply Nat.eqb_eq in H1. f_equal; auto.
Qed.

(* ---------- memo lookups ---------- *)
Lemma mget_mset (m : memo) n v n' :
  mget (mset m n v) n' = if Nat.eqb n n' then Some v else mget m n'.
Proof.
  induction m as [|[k w] t IH]; cbn [mset mget].
  - reflexivity.
  - destruct (Nat.eqb_spec k n) as [E|NE].
    + subst k. cbn [mget]. destruct (Nat.eqb_spec n n'); reflexivity.
    + destruct (Nat.ltb n k) eqn:L; cbn [mget].
      * destruct (Nat.eqb_spec n n') as [E2|NE2]; [reflexivity|]. reflexivity.
      * rewrite IH. destruct (Nat.eqb_spec k n') as [E3|NE3]; [|reflexivity].
        subst k. destruct (Nat.eqb_spec n n') as [E4|NE4]; [congruence | reflexivity].
Qed.

(* ---------- numeric equality on vectors ---------- *)
Lemma qeqb_eq a b : qeqb a b = true -> a == b.
Proof. apply Qeq_bool_iff. Qed.

Lemma veqb_refl a : veqb a a = true.
Proof.
  induction a as [|x a IH]; cbn; auto. rewrite IH, Bool.andb_true_r.
  apply Qeq_bool_iff. reflexivity.
Qed.

Lemma veqb_vadd a a' b b' :
  veqb a a' = true -> veqb b b' = true -> veqb (vadd a b) (vadd a' b') = true.
Proof.
  revert a' b b'; induction a as [|x a IH]; intros [|x' a'] b b' H1 H2; cbn in H1; try discriminate.
  - reflexivity.
  - apply Bool.andb_true_iff in H1 as [Hx Ha].
    destruct b as [|y b], b' as [|y' b']; cbn in H2; try discriminate; cbn; auto.
    apply Bool.andb_true_iff in H2 as [Hy Hb].
    apply Bool.andb_true_iff; split.
    + apply Qeq_bool_iff. apply Qeq_bool_iff in Hx. apply Qeq_bool_iff in Hy. rewrite Hx, Hy. reflexivity.
    + apply IH; assumption.
Qed.

Lemma veqb_vsum zs zs' : list_eqb veqb zs zs' = true -> veqb (vsum_rows zs) (vsum_rows zs') = true.
Proof.
  revert zs'; induction zs as [|z zs IH]; intros [|z' zs'] H; cbn in H; try discriminate.
  - apply veqb_refl.
  - apply Bool.andb_true_iff in H as [H1 H2]. unfold vsum_rows; cbn [fold_right].
    apply veqb_vadd; [exact H1 | apply IH; exact H2].
Qed.

(* equality of the phase-tagged composition lists handed to mixture.x<name> *)
Definition pz_eqb (l l' : list (phase * vec)) : bool :=
  list_eqb (fun a b => Nat.eqb (fst a) (fst b) && veqb (snd a) (snd b)) l l'.

Lemma pz_eqb_combine ps zs zs' :
  list_eqb veqb zs zs' = true -> pz_eqb (combine ps zs) (combine ps zs') = true.
Proof.
  revert zs zs'; induction ps as [|p ps IH]; intros zs zs' H; cbn; auto.
  destruct zs as [|z zs], zs' as [|z' zs']; cbn in H; try discriminate; cbn; auto.
  apply Bool.andb_true_iff in H as [H1 H2].
  rewrite Nat.eqb_refl, H1. cbn. apply IH; exact H2.
Qed.

Inductive rd_equiv : rd -> rd -> Prop :=
| re_none : rd_equiv RNone RNone
| re_val x y : x == y -> rd_equiv (RVal x) (RVal y)
| re_err : rd_equiv RErr RErr.

Lemma rd_equiv_refl r : rd_equiv r r.
Proof. destruct r; constructor; reflexivity. Qed.

(* results of the partial property functions: both raise, or both return numerically equal values *)
Inductive oq_equiv : option Q -> option Q -> Prop :=
| oe_none : oq_equiv None None
| oe_some x y : x == y -> oq_equiv (Some x) (Some y).

Section Proofs.
Variable calc1 : nat -> nat -> option phase -> vec -> Q -> Q -> option Q.
Variable calcx : nat -> nat -> list (phase * vec) -> Q -> Q -> option Q.
Variable shared_key : bool.

(* the property-package functions respect numeric equality of their arguments *)
Definition calc1_respects : Prop := forall pkg name p z z' T T' P P',
  veqb z z' = true -> T == T' -> P == P' -> oq_equiv (calc1 pkg name p z T P) (calc1 pkg name p z' T' P').
Definition calcx_respects : Prop := forall pkg name l l' T T' P P',
  pz_eqb l l' = true -> T == T' -> P == P' -> oq_equiv (calcx pkg name l T P) (calcx pkg name l' T' P').

Hypothesis calc1_ext : calc1_respects.
Hypothesis calcx_ext : calcx_respects.

Notation value_at := (value_at calc1 calcx).
Notation get_property := (get_property calc1 calcx).
Notation spec_read := (spec_read calc1 calcx).
Notation read_all := (read_all calc1 calcx).

Lemma value_at_ext pkg name l0 c0 lit ck :
  key_matches (Some (l0, c0)) lit ck = true -> oq_equiv (value_at pkg name lit ck) (value_at pkg name l0 c0).
Proof.
  cbn [key_matches]. intros H. apply Bool.andb_true_iff in H as [HL HC].
  unfold literal_eqb in HL. apply Bool.andb_true_iff in HL as [HL HP]. apply Bool.andb_true_iff in HL as [HPh HT].
  apply qeqb_eq in HT. apply qeqb_eq in HP.
  unfold Model.value_at.
  destruct (l_ph lit) as [|p|ps], (l_ph l0) as [|p0|ps0]; cbn in HPh; try discriminate;
    destruct ck as [z|zs], c0 as [z0|zs0]; cbn in HC; try discriminate.
  - apply calc1_ext; assumption.
  - apply calc1_ext; try assumption. apply veqb_vsum; exact HC.
  - apply Nat.eqb_eq in HPh; subst p0. apply calc1_ext; assumption.
  - apply Nat.eqb_eq in HPh; subst p0. apply calc1_ext; try assumption. apply veqb_vsum; exact HC.
  - apply list_eqb_nat_eq in HPh; subst ps0. apply calcx_ext; try assumption.
    apply pz_eqb_combine. cbn. rewrite HC. reflexivity.
  - apply list_eqb_nat_eq in HPh; subst ps0. apply calcx_ext; try assumption.
    apply pz_eqb_combine; exact HC.
Qed.

(* ---------- the invariant ---------- *)
Definition nobj (c : cstate) : nat := length (cobjs c).

Definition cwf (c : cstate) : Prop :=
  forall i, (i < nobj c)%nat ->
    (c_k (cobj_of c i) < length (keys c))%nat /\ (c_m (cobj_of c i) < length (memos c))%nat.

(* objects share a memo dict exactly when they share the key cell; sharers use the same package *)
Definition lockstep (c : cstate) : Prop :=
  forall i j, (i < nobj c)%nat -> (j < nobj c)%nat ->
    (c_m (cobj_of c i) = c_m (cobj_of c j) <-> c_k (cobj_of c i) = c_k (cobj_of c j)) /\
    (c_m (cobj_of c i) = c_m (cobj_of c j) -> c_pkg (cobj_of c i) = c_pkg (cobj_of c j)).

(* every entry of the dict an object points to was computed for the key that object points to *)
Definition memo_ok (c : cstate) : Prop :=
  forall i, (i < nobj c)%nat -> forall lit ck,
    key_of c (c_k (cobj_of c i)) = Some (lit, ck) ->
    forall name v, mget (memo_of c (c_m (cobj_of c i))) name = Some v ->
      exists v', value_at (c_pkg (cobj_of c i)) name lit ck = Some v' /\ v == v'.

Definition Inv (c : cstate) : Prop := cwf c /\ lockstep c /\ memo_ok c.

Lemma Inv_cs0 : Inv cs0.
Proof.
  split; [|split].
  - intros j Hj. unfold nobj in Hj; cbn in Hj; lia.
  - intros j1 j2 Hj. unfold nobj in Hj; cbn in Hj; lia.
  - intros j Hj. unfold nobj in Hj; cbn in Hj; lia.
Qed.

(* ---------- a memo write preserves the invariant ---------- *)
Lemma write_inv c i lit ck m2 :
  Inv c -> (i < nobj c)%nat ->
  (forall name' v', mget m2 name' = Some v' ->
     exists v0, value_at (c_pkg (cobj_of c i)) name' lit ck = Some v0 /\ v' == v0) ->
  Inv (mkcs (cobjs c) (upd (keys c) (c_k (cobj_of c i)) (Some (lit, ck)))
            (upd (memos c) (c_m (cobj_of c i)) m2)).
Proof.
  intros (WF & LS & MO) Hi Hm2.
  destruct (WF i Hi) as [Hk Hm].
  remember (cobj_of c i) as co eqn:Eco.
  set (c' := mkcs (cobjs c) (upd (keys c) (c_k co) (Some (lit, ck))) (upd (memos c) (c_m co) m2)).
  assert (EC : forall j, cobj_of c' j = cobj_of c j) by reflexivity.
  assert (EN : nobj c' = nobj c) by reflexivity.
  assert (EK : forall r, key_of c' r = nth r (upd (keys c) (c_k co) (Some (lit, ck))) None) by reflexivity.
  assert (EM : forall r, memo_of c' r = nth r (upd (memos c) (c_m co) m2) []) by reflexivity.
  assert (LK : length (keys c') = length (keys c)) by (unfold c'; cbn; apply upd_length).
  assert (LM : length (memos c') = length (memos c)) by (unfold c'; cbn; apply upd_length).
  clearbody c'.
  split; [|split].
  - intros j Hj. rewrite EN in Hj. rewrite EC, LK, LM. apply WF; exact Hj.
  - intros j1 j2 H1 H2. rewrite EN in H1, H2. rewrite !EC. apply LS; assumption.
  - intros j Hj lit' ck' HK name' v' HV. rewrite EN in Hj. rewrite EC in HK, HV |- *.
    rewrite EK in HK. rewrite EM in HV.
    destruct (LS i j Hi Hj) as [LSa LSb]. rewrite <- Eco in LSa, LSb.
    destruct (Nat.eq_dec (c_m co) (c_m (cobj_of c j))) as [EMM|NM].
    + assert (EKK : c_k co = c_k (cobj_of c j)) by (apply LSa; exact EMM).
      assert (EP : c_pkg co = c_pkg (cobj_of c j)) by (apply LSb; exact EMM).
      rewrite <- EKK in HK. rewrite <- EMM in HV. rewrite <- EP.
      rewrite nth_upd_same_ref in HK by exact Hk. injection HK as <- <-.
      rewrite nth_upd_same_ref in HV by exact Hm.
      apply Hm2. exact HV.
    + assert (NK : c_k co <> c_k (cobj_of c j)) by (intros E; apply NM, LSa; exact E).
      rewrite nth_upd_other_ref in HK by exact NK.
      rewrite nth_upd_other_ref in HV by exact NM.
      apply (MO j Hj lit' ck'); assumption.
Qed.

(* what the clear leaves in the dict is valid for the new key *)
Lemma kept_valid c i lit ck :
  Inv c -> (i < nobj c)%nat ->
  let hit := key_matches (key_of c (c_k (cobj_of c i))) lit ck in
  let m1 := if hit then memo_of c (c_m (cobj_of c i)) else [] in
  forall name' v', mget m1 name' = Some v' ->
    exists v0, value_at (c_pkg (cobj_of c i)) name' lit ck = Some v0 /\ v' == v0.
Proof.
  intros (WF & LS & MO) Hi hit m1 name' v' HV. unfold m1, hit in *.
  destruct (key_matches (key_of c (c_k (cobj_of c i))) lit ck) eqn:KM; [|discriminate HV].
  destruct (key_of c (c_k (cobj_of c i))) as [[l0 c0]|] eqn:OK; [|discriminate KM].
  destruct (MO i Hi l0 c0 OK name' v' HV) as (v1 & E1 & Q1).
  pose proof (value_at_ext (c_pkg (cobj_of c i)) name' l0 c0 lit ck KM) as X. rewrite E1 in X.
  inversion X as [|x y Exy Ex Ey]. subst. exists x. split; [reflexivity|]. rewrite Q1. symmetry. exact Exy.
Qed.

(* ---------- _get_property ---------- *)
Ltac gp_cases w i name nophase :=
  unfold Model.get_property;
  destruct (cur_key (w_st w) i nophase) as [[[total lit] ck]|]; [|try reflexivity];
  [ destruct (if key_matches (key_of (w_cs w) (c_k (cobj_of (w_cs w) i))) lit ck
              then mget (memo_of (w_cs w) (c_m (cobj_of (w_cs w) i))) name else None) as [v|]; [try reflexivity|];
    destruct (Model.value_at calc1 calcx (c_pkg (cobj_of (w_cs w) i)) name lit ck) as [v|]; try reflexivity | .. ].

Lemma get_property_st w i name flow nophase :
  w_st (fst (get_property w i name flow nophase)) = w_st w.
Proof. gp_cases w i name nophase. Qed.

Lemma get_property_cobjs w i name flow nophase :
  cobjs (w_cs (fst (get_property w i name flow nophase))) = cobjs (w_cs w).
Proof. gp_cases w i name nophase. Qed.

Lemma get_property_inv w i name flow nophase :
  Inv (w_cs w) -> (i < nobj (w_cs w))%nat -> Inv (w_cs (fst (get_property w i name flow nophase))).
Proof.
  intros HI Hi. unfold Model.get_property.
  destruct (cur_key (w_st w) i nophase) as [[[total lit] ck]|]; [|exact HI].
  pose proof (kept_valid (w_cs w) i lit ck HI Hi) as KV. cbv zeta in KV.
  destruct (if key_matches (key_of (w_cs w) (c_k (cobj_of (w_cs w) i))) lit ck
            then mget (memo_of (w_cs w) (c_m (cobj_of (w_cs w) i))) name else None) as [v|]; [exact HI|].
  destruct (Model.value_at calc1 calcx (c_pkg (cobj_of (w_cs w) i)) name lit ck) as [v|] eqn:EV; cbn [fst w_cs].
  - apply write_inv; auto. intros name' v' HV. rewrite mget_mset in HV.
    destruct (Nat.eqb_spec name name') as [<-|NN].
    + injection HV as <-. exists v. split; [exact EV | reflexivity].
    + apply KV; exact HV.
  - apply write_inv; auto.
Qed.

Lemma get_property_spec w i name flow nophase :
  Inv (w_cs w) -> (i < nobj (w_cs w))%nat ->
  rd_equiv (snd (get_property w i name flow nophase)) (spec_read w i name flow nophase).
Proof.
  intros HI Hi. unfold Model.get_property, Model.spec_read.
  destruct (cur_key (w_st w) i nophase) as [[[total lit] ck]|]; [|apply rd_equiv_refl].
  pose proof (kept_valid (w_cs w) i lit ck HI Hi) as KV. cbv zeta in KV.
  destruct (key_matches (key_of (w_cs w) (c_k (cobj_of (w_cs w) i))) lit ck) eqn:KM.
  - destruct (mget (memo_of (w_cs w) (c_m (cobj_of (w_cs w) i))) name) as [v|] eqn:MG.
    + cbn [snd]. destruct (KV name v MG) as (v0 & E0 & Q0). rewrite E0. unfold out_val. constructor.
      destruct flow; rewrite Q0; reflexivity.
    + destruct (Model.value_at calc1 calcx (c_pkg (cobj_of (w_cs w) i)) name lit ck); cbn [snd]; apply rd_equiv_refl.
  - destruct (Model.value_at calc1 calcx (c_pkg (cobj_of (w_cs w) i)) name lit ck); cbn [snd]; apply rd_equiv_refl.
Qed.

(* ---------- reset_cache ---------- *)
Lemma cobj_of_reset pk c i j :
  cobj_of (reset_cache1 pk c i) j =
  if (Nat.eqb i j && Nat.ltb i (nobj c))%bool
  then mkc (length (keys c)) (length (memos c)) (match pk with Some p => p | None => c_pkg (cobj_of c i) end)
  else cobj_of c j.
Proof. unfold cobj_of, reset_cache1, nobj; cbn. apply nth_upd. Qed.

Lemma reset_cache1_inv pk c i : Inv c -> Inv (reset_cache1 pk c i).
Proof.
  intros (WF & LS & MO).
  assert (N : nobj (reset_cache1 pk c i) = nobj c) by (unfold nobj, reset_cache1; cbn; apply upd_length).
  assert (LK : length (keys (reset_cache1 pk c i)) = S (length (keys c)))
    by (unfold reset_cache1; cbn; rewrite app_length; cbn; lia).
  assert (LM : length (memos (reset_cache1 pk c i)) = S (length (memos c)))
    by (unfold reset_cache1; cbn; rewrite app_length; cbn; lia).
  split; [|split].
  - intros j Hj. rewrite N in Hj. rewrite LK, LM, cobj_of_reset.
    destruct (Nat.eqb i j && Nat.ltb i (nobj c))%bool; cbn; [lia|].
    destruct (WF j Hj); lia.
  - intros j1 j2 H1 H2. rewrite N in H1, H2. rewrite !cobj_of_reset.
    destruct (WF j1 H1) as [K1 M1]. destruct (WF j2 H2) as [K2 M2].
    destruct (Nat.eqb i j1 && Nat.ltb i (nobj c))%bool, (Nat.eqb i j2 && Nat.ltb i (nobj c))%bool; cbn.
    + split; [tauto | reflexivity].
    + split; [split; intros E; lia | intros E; lia].
    + split; [split; intros E; lia | intros E; lia].
    + apply LS; assumption.
  - intros j Hj lit ck HK name v HV. rewrite N in Hj.
    rewrite cobj_of_reset in HK, HV |- *.
    destruct (Nat.eqb i j && Nat.ltb i (nobj c))%bool.
    + cbn in HK. unfold key_of, reset_cache1 in HK; cbn in HK. rewrite nth_app_new in HK. discriminate.
    + destruct (WF j Hj) as [Kj Mj].
      unfold key_of, memo_of, reset_cache1 in HK, HV; cbn in HK, HV.
      rewrite nth_app_old in HK by exact Kj. rewrite nth_app_old in HV by exact Mj.
      apply (MO j Hj lit ck); assumption.
Qed.

Lemma reset_cache_list_inv pk l c : Inv c -> Inv (reset_cache_list pk c l).
Proof.
  revert c; induction l as [|i t IH]; intros c HI; cbn; auto.
  apply IH, reset_cache1_inv, HI.
Qed.

Lemma reset_cache_inv pk s c i : Inv c -> Inv (reset_cache pk s c i).
Proof. intros HI. unfold reset_cache. apply reset_cache_list_inv, reset_cache_list_inv, HI. Qed.

Lemma reset_cache1_nobj pk c i : nobj (reset_cache1 pk c i) = nobj c.
Proof. unfold nobj, reset_cache1; cbn; apply upd_length. Qed.
Lemma reset_cache_list_nobj pk l c : nobj (reset_cache_list pk c l) = nobj c.
Proof.
  revert c; induction l as [|i t IH]; intros c; cbn; auto. rewrite IH. apply reset_cache1_nobj.
Qed.

(* ---------- new objects ---------- *)
Lemma cobj_of_app c x ks ms j :
  cobj_of (mkcs (cobjs c ++ [x]) ks ms) j =
  if Nat.ltb j (nobj c) then cobj_of c j else if Nat.eqb j (nobj c) then x else d_cobj.
Proof.
  unfold cobj_of, nobj; cbn [cobjs].
  destruct (Nat.ltb_spec j (length (cobjs c))) as [L|G].
  - apply app_nth1; exact L.
  - destruct (Nat.eqb_spec j (length (cobjs c))) as [E|NE].
    + subst j. apply nth_app_new.
    + apply nth_overflow. rewrite app_length; cbn; lia.
Qed.

Lemma new_cobj_fresh_inv c pkg : Inv c -> Inv (new_cobj_fresh c pkg).
Proof.
  intros (WF & LS & MO). unfold new_cobj_fresh.
  set (x := mkc (length (keys c)) (length (memos c)) pkg).
  assert (N : forall ks ms, nobj (mkcs (cobjs c ++ [x]) ks ms) = S (nobj c))
    by (intros; unfold nobj; cbn; rewrite app_length; cbn; lia).
  split; [|split].
  - intros j Hj. rewrite N in Hj. rewrite cobj_of_app. cbn [keys memos]. rewrite !app_length; cbn [length].
    destruct (Nat.ltb_spec j (nobj c)) as [L|G].
    + destruct (WF j L); lia.
    + destruct (Nat.eqb_spec j (nobj c)); [subst x; cbn; lia | lia].
  - intros j1 j2 H1 H2. rewrite N in H1, H2. rewrite !cobj_of_app.
    destruct (Nat.ltb_spec j1 (nobj c)) as [L1|G1], (Nat.ltb_spec j2 (nobj c)) as [L2|G2].
    + apply LS; assumption.
    + destruct (Nat.eqb_spec j2 (nobj c)); [|lia]. destruct (WF j1 L1). subst x; cbn.
      split; [split; intros E; lia | intros E; lia].
    + destruct (Nat.eqb_spec j1 (nobj c)); [|lia]. destruct (WF j2 L2). subst x; cbn.
      split; [split; intros E; lia | intros E; lia].
    + destruct (Nat.eqb_spec j1 (nobj c)); [|lia]. destruct (Nat.eqb_spec j2 (nobj c)); [|lia].
      split; [tauto | reflexivity].
  - intros j Hj lit ck HK name v HV. rewrite N in Hj.
    rewrite cobj_of_app in HK, HV |- *.
    destruct (Nat.ltb_spec j (nobj c)) as [L|G].
    + destruct (WF j L) as [Kj Mj].
      unfold key_of, memo_of in HK, HV; cbn in HK, HV.
      rewrite nth_app_old in HK by exact Kj. rewrite nth_app_old in HV by exact Mj.
      apply (MO j L lit ck); assumption.
    + destruct (Nat.eqb_spec j (nobj c)); [|lia].
      subst x; unfold key_of in HK; cbn in HK. rewrite nth_app_new in HK. discriminate.
Qed.

Lemma new_cobj_proxy_inv c i :
  shared_key = true -> Inv c -> (i < nobj c)%nat -> Inv (new_cobj_proxy shared_key c i).
Proof.
  intros SK (WF & LS & MO) Hi. unfold new_cobj_proxy. rewrite SK.
  set (x := cobj_of c i).
  assert (N : nobj (mkcs (cobjs c ++ [x]) (keys c) (memos c)) = S (nobj c))
    by (unfold nobj; cbn; rewrite app_length; cbn; lia).
  (* every index of the new table denotes the cobj of an old index *)
  assert (R : forall j, (j < S (nobj c))%nat -> exists j', (j' < nobj c)%nat /\
              cobj_of (mkcs (cobjs c ++ [x]) (keys c) (memos c)) j = cobj_of c j').
  { intros j Hj. rewrite cobj_of_app. destruct (Nat.ltb_spec j (nobj c)) as [L|G].
    - exists j; auto.
    - destruct (Nat.eqb_spec j (nobj c)); [|lia]. exists i; auto. }
  split; [|split].
  - intros j Hj. rewrite N in Hj. destruct (R j Hj) as (j' & L & ->). cbn [keys memos]. apply WF; exact L.
  - intros j1 j2 H1 H2. rewrite N in H1, H2.
    destruct (R j1 H1) as (j1' & L1 & ->). destruct (R j2 H2) as (j2' & L2 & ->). apply LS; assumption.
  - intros j Hj lit ck HK name v HV. rewrite N in Hj.
    destruct (R j Hj) as (j' & L & E). rewrite E in HK, HV |- *.
    apply (MO j' L lit ck); assumption.
Qed.

(* ---------- the cache component along a step ---------- *)
Variable cvol : nat -> phase -> Q -> Q -> Q.
Notation step := (step calc1 calcx shared_key cvol).
Notation step_valid := (step_valid calc1 calcx shared_key cvol).
Notation run := (run calc1 calcx shared_key cvol).
Notation run_world := (run_world calc1 calcx shared_key cvol).
Inductive creach : cstate -> cstate -> Prop :=
| cr_refl c : creach c c
| cr_get c c' s i name fl np : (i < nobj c)%nat ->
    creach (w_cs (fst (get_property (mkw s c) i name fl np))) c' -> creach c c'
| cr_reset c c' pk i : creach (reset_cache1 pk c i) c' -> creach c c'
| cr_fresh c c' pkg : creach (new_cobj_fresh c pkg) c' -> creach c c'
| cr_proxy c c' i : shared_key = true -> (i < nobj c)%nat ->
    creach (new_cobj_proxy shared_key c i) c' -> creach c c'.

Lemma creach_inv c c' : creach c c' -> Inv c -> Inv c'.
Proof.
  induction 1 as [c | c c' s i name fl np Hi _ IH | c c' pk i _ IH | c c' pkg _ IH | c c' i SK Hi _ IH];
    intros HI; auto.
  - apply IH. apply (get_property_inv (mkw s c)); assumption.
  - apply IH, reset_cache1_inv, HI.
  - apply IH, new_cobj_fresh_inv, HI.
  - apply IH, new_cobj_proxy_inv; assumption.
Qed.

Lemma creach_reset_list pk l c c' : creach (reset_cache_list pk c l) c' -> creach c c'.
Proof.
  revert c; induction l as [|i t IH]; intros c H; cbn in H; auto.
  apply (cr_reset c c' pk i). apply IH. exact H.
Qed.

Lemma creach_read_all l s c c' :
  Forall (fun j => (j < nobj c)%nat) l ->
  creach (w_cs (fst (read_all (mkw s c) l))) c' -> creach c c'.
Proof.
  revert s c; induction l as [|j t IH]; intros s c HF H; cbn in H; auto.
  inversion HF as [|? ? Hj Ht]; subst.
  apply (cr_get c c' s j O true false Hj).
  destruct (get_property (mkw s c) j O true false) as [w1 r] eqn:E. cbn [fst].
  assert (EC : cobjs (w_cs w1) = cobjs c).
  { replace w1 with (fst (get_property (mkw s c) j O true false)) by (rewrite E; reflexivity).
    apply (get_property_cobjs (mkw s c)). }
  destruct w1 as [s1 c1]. cbn [w_cs] in *.
  destruct r; cbn [fst w_cs] in H; try exact H;
    (apply (IH s1 c1); [unfold nobj in *; rewrite EC; exact Ht | exact H]).
Qed.

Lemma lift_cs w r : w_cs (fst (lift w r)) = w_cs w.
Proof. reflexivity. Qed.

Definition is_proxy (o : op) : bool := match o with OProxy _ => true | _ => false end.

Lemma step_creach w o :
  shared_key = true \/ is_proxy o = false -> creach (w_cs w) (w_cs (fst (step w o))).
Proof.
  intros HP. unfold Model.step.
  destruct (forallb (fun i => Nat.ltb i (length (cobjs (w_cs w)))) (op_objs o)) eqn:G; [|apply cr_refl].
  assert (GV : forall i, In i (op_objs o) -> (i < nobj (w_cs w))%nat).
  { intros i Hi. rewrite forallb_forall in G. specialize (G i Hi). apply Nat.ltb_lt in G. exact G. }
  destruct w as [s c]. cbn [w_cs w_st] in *.
  destruct o; unfold Model.step_valid; cbn [w_st w_cs]; try (rewrite lift_cs; apply cr_refl); try apply cr_refl.
  - (* ONew *)
    destruct (new_tc s (T, P)) as [s1 tr].
    match goal with |- context [let '(a, b) := ?x in _] => destruct x as [s2 ir] end.
    destruct (new_obj s2 _) as [s3 n]. cbn [fst w_cs].
    eapply cr_fresh; apply cr_refl.
  - (* ORead *)
    destruct (get_property (mkw s c) i name flow nophase) as [w1 r] eqn:E. cbn [fst].
    apply (cr_get c (w_cs w1) s i name flow nophase); [apply GV; cbn; auto|].
    rewrite E. apply cr_refl.
  - (* ORVol *) destruct (read_vol cvol s i) as [s1 v]. apply cr_refl.
  - (* OProxy *)
    cbn [fst w_cs]. destruct HP as [SK|NP]; [|discriminate NP].
    apply (cr_proxy c _ i SK); [apply GV; cbn; auto | apply cr_refl].
  - (* OFlowProxy *) cbn [fst w_cs]. eapply cr_fresh; apply cr_refl.
  - (* OCopy *) cbn [fst w_cs]. eapply cr_fresh; apply cr_refl.
  - (* OLink *)
    destruct (link_with s i j fl ph tp) as [s1 [e|]]; cbn [fst w_cs]; [apply cr_refl|].
    destruct tp; cbn [fst w_cs]; [|apply cr_refl].
    unfold reset_cache. eapply creach_reset_list; eapply creach_reset_list; apply cr_refl.
  - (* OUnlink *)
    destruct (unlink s i) as [s1 [e|]]; cbn [fst w_cs]; [apply cr_refl|].
    unfold reset_cache. eapply creach_reset_list; eapply creach_reset_list; apply cr_refl.
  - (* OMix *)
    destruct energy.
    + assert (F : Forall (fun j => (j < nobj c)%nat) srcs)
        by (apply Forall_forall; intros j Hj; apply GV; cbn; right; exact Hj).
      pose proof (fun c' => creach_read_all srcs s c c' F) as R.
      destruct (read_all (mkw s c) srcs) as [w1 allok]. cbn [fst] in R.
      destruct allok; cbn [negb]; [rewrite lift_cs; cbn [w_cs] | cbn [fst]]; apply R, cr_refl.
    + cbn [fst w_cs negb]. apply cr_refl.
  - (* OView *)
    destruct (i_multi (imol_of s (o_imol (obj_of s i)))).
    + destruct (negb (o_hasv (obj_of s i))); [apply cr_refl|].
      destruct (find_view p (o_views (obj_of s i))); [apply cr_refl|].
      destruct (index_of p (i_phases (imol_of s (o_imol (obj_of s i))))) as [k|]; [|apply cr_refl].
      destruct (nth_error (arr s (i_data (imol_of s (o_imol (obj_of s i))))) k) as [rr|]; [|apply cr_refl].
      destruct (new_imol s _) as [s1 ir]. destruct (new_obj s1 _) as [s2 n]. cbn [fst w_cs].
      eapply cr_fresh; apply cr_refl.
    + destruct (Nat.eqb p (phase_of s (imol_of s (o_imol (obj_of s i))))); apply cr_refl.
  - (* OSetPhases *)
    destruct ps as [|p [|p2 ps]]; try (rewrite lift_cs; apply cr_refl);
    (destruct (i_multi (imol_of s (o_imol (obj_of s i)))); [|cbn [fst w_cs]; apply cr_refl];
     match goal with |- context [if ?b then _ else _] => destruct b end; [apply cr_refl|];
     match goal with |- context [multi_rephase ?a1 ?a2 ?a3] => destruct (multi_rephase a1 a2 a3) as [s1 [e|]] end;
     cbn [fst w_cs]; [apply cr_refl|];
     unfold reset_cache; eapply creach_reset_list; eapply creach_reset_list; apply cr_refl).
  - (* OResetCache *)
    cbn [fst w_cs]. unfold reset_cache. eapply creach_reset_list; eapply creach_reset_list; apply cr_refl.
  - (* OSetPkg *)
    cbn [fst w_cs]. unfold reset_cache. eapply creach_reset_list; eapply creach_reset_list; apply cr_refl.
Qed.

Lemma step_inv w o :
  shared_key = true \/ is_proxy o = false -> Inv (w_cs w) -> Inv (w_cs (fst (step w o))).
Proof. intros HP HI. apply (creach_inv (w_cs w)); [apply step_creach; exact HP | exact HI]. Qed.

Lemma run_world_cons w o t : run_world w (o :: t) = run_world (fst (step w o)) t.
Proof.
  unfold Model.run_world. cbn [Model.run].
  destruct (step w o) as [w1 b]. cbn [fst]. destruct (run w1 t) as [w2 bs]. reflexivity.
Qed.

Lemma run_inv ops w :
  shared_key = true \/ forallb (fun o => negb (is_proxy o)) ops = true ->
  Inv (w_cs w) -> Inv (w_cs (run_world w ops)).
Proof.
  revert w; induction ops as [|o t IH]; intros w HP HI.
  - exact HI.
  - rewrite run_world_cons. apply IH.
    + destruct HP as [SK|NP]; [left; exact SK|]. right. cbn in NP. apply Bool.andb_true_iff in NP. tauto.
    + apply step_inv; [|exact HI]. destruct HP as [SK|NP]; [left; exact SK|]. right.
      cbn in NP. apply Bool.andb_true_iff in NP. destruct NP as [NP _]. apply Bool.negb_true_iff. exact NP.
Qed.

(* ---------- main statements ---------- *)
(* for every history from the empty world (or any world satisfying the invariant), every read on every
   existing object returns what the property package computes for the object's current state *)
Definition read_fresh_statement : Prop :=
  forall ops w i name flow nophase,
    Inv (w_cs w) ->
    let w' := run_world w ops in
    (i < nobj (w_cs w'))%nat ->
    rd_equiv (snd (get_property w' i name flow nophase)) (spec_read w' i name flow nophase).

Lemma read_fresh_gen ops w i name flow nophase :
  shared_key = true \/ forallb (fun o => negb (is_proxy o)) ops = true ->
  Inv (w_cs w) ->
  (i < nobj (w_cs (run_world w ops)))%nat ->
  rd_equiv (snd (get_property (run_world w ops) i name flow nophase))
           (spec_read (run_world w ops) i name flow nophase).
Proof.
  intros HP HI Hi. apply get_property_spec; [apply run_inv; assumption | exact Hi].
Qed.

(* the same at the level of what a history observes: a read operation executed after any history *)
Lemma read_op_fresh ops w i name flow nophase :
  shared_key = true \/ forallb (fun o => negb (is_proxy o)) ops = true ->
  Inv (w_cs w) ->
  let w' := run_world w ops in
  (exists r, snd (step w' (ORead i name flow nophase)) = match r with RErr => BErr ERuntime | _ => BVal r end /\
             rd_equiv r (spec_read w' i name flow nophase) /\
             w_st (fst (step w' (ORead i name flow nophase))) = w_st w')
  \/ ((nobj (w_cs w') <= i)%nat /\ step w' (ORead i name flow nophase) = (w', BErr EIndex)).
Proof.
  intros HP HI w'. unfold Model.step. cbn [op_objs forallb]. rewrite Bool.andb_true_r.
  destruct (Nat.ltb_spec i (length (cobjs (w_cs w')))) as [L|G].
  - left. unfold Model.step_valid.
    destruct (get_property w' i name flow nophase) as [w1 r] eqn:E. exists r. cbn [snd fst].
    split; [reflexivity|]. split.
    + replace r with (snd (get_property w' i name flow nophase)) by (rewrite E; reflexivity).
      apply read_fresh_gen; assumption.
    + replace w1 with (fst (get_property w' i name flow nophase)) by (rewrite E; reflexivity).
      apply get_property_st.
  - right. split; [exact G | reflexivity].
Qed.

(* mutators never write a memo: the cache component is untouched by every state-only operation *)
Lemma mutator_keeps_cache w r : w_cs (fst (lift w r)) = w_cs w.
Proof. reflexivity. Qed.

End Proofs.

(* ---------- the spec depends only on (class, phases, flows, T, P) and the package ---------- *)
Record pstate := mkps { ps_multi : bool; ps_phases : list phase; ps_rows : list vec; ps_T : Q; ps_P : Q }.

Definition pstate_of (s : state) (i : nat) : pstate :=
  let o := obj_of s i in let im := imol_of s (o_imol o) in
  mkps (i_multi im) (if i_multi im then i_phases im else [phase_of s im]) (data_rows s im)
       (fst (tc_of s (o_tc o))) (snd (tc_of s (o_tc o))).

Definition key_of_pstate (p : pstate) (nophase : bool) : option (Q * literal * compkey) :=
  let total := qsum (map qsum (ps_rows p)) in
  if qzerob total then None
  else
    let comps := map (fun r => vdivs r total) (ps_rows p) in
    let lp := if nophase then LNo else if ps_multi p then LMany (ps_phases p) else LOne (hd O (ps_phases p)) in
    let ck := if ps_multi p then CKn comps else CK1 (nth O comps []) in
    Some (total, mklit lp (ps_T p) (ps_P p), ck).

Lemma cur_key_pstate s i nophase : cur_key s i nophase = key_of_pstate (pstate_of s i) nophase.
Proof.
  unfold cur_key, key_of_pstate, pstate_of, total_of. cbn [ps_rows ps_multi ps_phases ps_T ps_P].
  destruct (qzerob _); [reflexivity|].
  destruct (i_multi (imol_of s (o_imol (obj_of s i)))); reflexivity.
Qed.

(* two objects (possibly in different worlds) in the same pstate with the same package read the same spec value *)
Lemma spec_read_pstate calc1 calcx w1 i1 w2 i2 name flow nophase :
  pstate_of (w_st w1) i1 = pstate_of (w_st w2) i2 ->
  c_pkg (cobj_of (w_cs w1) i1) = c_pkg (cobj_of (w_cs w2) i2) ->
  spec_read calc1 calcx w1 i1 name flow nophase = spec_read calc1 calcx w2 i2 name flow nophase.
Proof.
  intros EP EK. unfold spec_read. rewrite !cur_key_pstate, EP, EK. reflexivity.
Qed.

(* a freshly constructed single-phase stream is in the pstate it was constructed with *)
Lemma new_stream_pstate calc1 calcx sk cv w d p T P pkg :
  let w' := fst (step calc1 calcx sk cv w (ONew [d] [p] T P pkg)) in
  pstate_of (w_st w') (length (objs (w_st w))) = mkps false [p] [d] T P /\
  (length (objs (w_st w)) = length (cobjs (w_cs w)) ->
   c_pkg (cobj_of (w_cs w') (length (objs (w_st w)))) = pkg /\
   length (objs (w_st w')) = length (cobjs (w_cs w'))).
Proof.
  destruct w as [s c]. unfold step. cbn [op_objs forallb]. unfold step_valid. cbn [w_st w_cs].
  unfold new_tc, new_row, new_p, new_imol, new_obj. cbn [fst snd w_st w_cs].
  split.
  - unfold pstate_of, obj_of, imol_of, tc_of, data_rows, phase_of, pcell_of, row. cbn.
    rewrite !nth_app_new. cbn. rewrite !nth_app_new. cbn. rewrite !nth_app_new. reflexivity.
  - intros EL. split.
    + unfold new_cobj_fresh, cobj_of. cbn. rewrite EL, nth_app_new. reflexivity.
    + unfold new_cobj_fresh. cbn. rewrite !app_length. cbn. lia.
Qed.

(* ---------- the harness stub satisfies the oracle contract (non-vacuity of the hypotheses) ---------- *)
Lemma vdot_respects a z z' : veqb z z' = true -> vdot a z == vdot a z'.
Proof.
  unfold vdot, vmul, qsum.
  revert z z'; induction a as [|x a IH]; intros [|y z] [|y' z'] H; cbn in H; try discriminate; cbn; try reflexivity.
  apply Bool.andb_true_iff in H as [H1 H2]. apply Qeq_bool_iff in H1.
  rewrite (IH z z' H2), H1. reflexivity.
Qed.

Lemma stub_calc1_respects : calc1_respects stub_calc1.
Proof.
  intros pkg name p z z' T T' P P' HZ HT HP. unfold stub_calc1, stub_raises.
  assert (EQ : Qeq_bool T 384 = Qeq_bool T' 384).
  { destruct (Qeq_bool T 384) eqn:A, (Qeq_bool T' 384) eqn:B; auto.
    - apply Qeq_bool_iff in A. rewrite HT in A. apply Qeq_bool_iff in A. congruence.
    - apply Qeq_bool_iff in B. rewrite <- HT in B. apply Qeq_bool_iff in B. congruence. }
  rewrite EQ. destruct ((Nat.eqb name 4 || Nat.eqb name 5) && Qeq_bool T' 384)%bool; constructor.
  rewrite (vdot_respects _ _ _ HZ), HT, HP. reflexivity.
Qed.

Lemma stub_calcx_respects : calcx_respects stub_calcx.
Proof.
  intros pkg name l l' T T' P P' HL HT HP. unfold stub_calcx.
  revert l' HL; induction l as [|[p z] l IH]; intros [|[p' z'] l'] HL; cbn in HL; try discriminate; cbn [map fold_right].
  - constructor. reflexivity.
  - apply Bool.andb_true_iff in HL as [H1 H2]. apply Bool.andb_true_iff in H1 as [Hp Hz]. cbn in Hp, Hz.
    apply Nat.eqb_eq in Hp; subst p'. cbn [fst snd].
    pose proof (stub_calc1_respects pkg name (Some p) z z' T T' P P' Hz HT HP) as A.
    pose proof (IH l' H2) as B.
    inversion A as [|x y Exy]; inversion B as [|u v Euv]; constructor.
    rewrite Exy, Euv. reflexivity.
Qed.

Definition rd_equivb (a b : rd) : bool :=
  match a, b with RNone, RNone => true | RVal x, RVal y => Qeq_bool x y | RErr, RErr => true | _, _ => false end.
Lemma rd_equivb_false a b : rd_equivb a b = false -> ~ rd_equiv a b.
Proof.
  intros H E. destruct E as [|x y E|]; cbn in H; [discriminate| |discriminate].
  apply Qeq_bool_iff in E. congruence.
Qed.
(* ---------- object table alignment: objs (state side) and cobjs (cache side) grow together ---------- *)
Lemma new_rows_objs s vs s' rs : new_rows s vs = (s', rs) -> objs s' = objs s.
Proof.
  revert s s' rs; induction vs as [|v t IH]; intros s s' rs H; cbn in H.
  - injection H as <- _. reflexivity.
  - destruct (new_rows (set_rows s (rows s ++ [v])) t) as [s2 rs2] eqn:E.
    injection H as <- _. apply IH in E. exact E.
Qed.

Lemma map_rows_objs f rs s : objs (map_rows s f rs) = objs s.
Proof. revert s; induction rs as [|r t IH]; intros s; cbn; auto. rewrite IH. reflexivity. Qed.

Lemma copy_data_objs s im s' d : copy_data s im = (s', d) -> objs s' = objs s.
Proof.
  unfold copy_data. destruct (i_multi im).
  - destruct (new_rows s _) as [s1 rs] eqn:E. intros H. injection H as <- _. apply new_rows_objs in E. exact E.
  - intros H. injection H as <- _. reflexivity.
Qed.

Lemma copy_imol_with_objs s im d s' r : copy_imol_with s im d = (s', r) -> objs s' = objs s.
Proof.
  unfold copy_imol_with. destruct (i_multi im); intros H; injection H as <- _; reflexivity.
Qed.

Lemma set_pcell_objs s r p : objs (fst (set_pcell s r p)) = objs s.
Proof. unfold set_pcell. destruct (p_locked _); [destruct (Nat.eqb _ _)|]; reflexivity. Qed.

Ltac pairs :=
  repeat match goal with
  | |- context [let (_, _) := ?x in _] =>
      let E := fresh "E" in destruct x as [? ?] eqn:E;
      first [apply new_rows_objs in E | apply copy_data_objs in E | apply copy_imol_with_objs in E
            | (injection E as <- <-) | idtac]
  end.

Definition nob (s : state) := length (objs s).

Lemma multi_to_single_nob s i p : nob (multi_to_single s i p) = nob s.
Proof. unfold nob, multi_to_single. cbn. apply upd_length. Qed.

Lemma set_phase_nob s i p : nob (fst (set_phase s i p)) = nob s.
Proof.
  unfold set_phase. destruct (i_multi _); cbn [fst ok]; [apply multi_to_single_nob|].
  unfold nob. rewrite set_pcell_objs. reflexivity.
Qed.

Lemma set_flow_nob s i p j v : nob (fst (set_flow s i p j v)) = nob s.
Proof.
  unfold set_flow. destruct (i_multi _); [|reflexivity].
  destruct (index_of _ _); [|reflexivity]. destruct (nth_error _ _); reflexivity.
Qed.

Lemma scale_nob s i k : nob (fst (scale s i k)) = nob s.
Proof. unfold scale, nob; cbn. rewrite map_rows_objs. reflexivity. Qed.

Lemma fmol_nob s i k : nob (fst (fmol_times s i k)) = nob s.
Proof. unfold fmol_times. destruct (qzerob _); [reflexivity | apply scale_nob]. Qed.

Lemma empty_nob s i : nob (fst (empty s i)) = nob s.
Proof. unfold empty, nob; cbn. rewrite map_rows_objs. reflexivity. Qed.

Lemma link_nob s i j a b c : nob (fst (link_with s i j a b c)) = nob s.
Proof.
  unfold link_with, new_dc, nob. destruct (negb _); [reflexivity|].
  destruct c, a, b, (i_multi (imol_of s (o_imol (obj_of s i)))); cbn; rewrite ?upd_length; reflexivity.
Qed.

Lemma unlink_nob s i : nob (fst (unlink s i)) = nob s.
Proof.
  unfold unlink. destruct (_ && _)%bool; [reflexivity|].
  destruct (i_multi (imol_of s (o_imol (obj_of s i)))) eqn:M.
  - destruct (copy_data s _) as [s2 d] eqn:E. apply copy_data_objs in E.
    unfold nob; cbn. rewrite upd_length. rewrite E. reflexivity.
  - unfold new_p. destruct (copy_data _ _) as [s2 d] eqn:E. apply copy_data_objs in E.
    unfold nob; cbn. rewrite upd_length. rewrite E. reflexivity.
Qed.

Lemma single_to_multi_nob s i ps : nob (single_to_multi s i ps) = nob s.
Proof.
  unfold single_to_multi. destruct (new_rows s _) as [s1 rs] eqn:E. apply new_rows_objs in E.
  unfold nob; cbn. rewrite upd_length, E. reflexivity.
Qed.

Lemma multi_rephase_nob s i ps : nob (fst (multi_rephase s i ps)) = nob s.
Proof.
  unfold multi_rephase. destruct (existsb _ _); [reflexivity|].
  destruct (new_rows s _) as [s1 rs] eqn:E. apply new_rows_objs in E.
  cbn [new_arr new_imol fst snd].
  match goal with |- context [fold_left ?f ?l ?a0] =>
    assert (G : forall l0 st kept, nob (fst (fold_left f l0 (st, kept))) = nob st) end.
  { induction l0 as [|[p n] t IH]; intros st kept; cbn [fold_left]; auto.
    cbn [fst snd]. destruct (if is_multi st n then None else index_of p ps); [|apply IH].
    cbn [new_imol]. rewrite IH. unfold nob; cbn. apply upd_length. }
  match goal with |- context [fold_left ?f ?l (?st, ?k)] =>
    specialize (G l st k); destruct (fold_left f l (st, k)) as [s4 vs] end.
  cbn [fst] in G. unfold nob in *; cbn. rewrite upd_length, G. cbn. rewrite E. reflexivity.
Qed.

Lemma ensure_views_nob s i : nob (ensure_views s i) = nob s.
Proof. unfold ensure_views, nob. destruct (is_multi s i); [cbn; apply upd_length | reflexivity]. Qed.

Lemma copy_phase_nob s i j : nob (fst (copy_phase s i j)) = nob s.
Proof.
  unfold copy_phase. destruct (i_multi _); [reflexivity|]. destruct (i_multi _); [reflexivity|].
  unfold nob. rewrite set_pcell_objs. reflexivity.
Qed.

Lemma copy_like_nob s i j : nob (fst (copy_like_11 s i j)) = nob s.
Proof.
  unfold copy_like_11. destruct (Nat.eqb _ _); [reflexivity|].
  destruct (set_pcell _ _ _) as [s2 [e|]] eqn:E; cbn [fst];
    replace s2 with (fst (set_pcell (wr_row s (i_data (imol_of s (o_imol (obj_of s i))))
       (row s (i_data (imol_of s (o_imol (obj_of s j))))))
       (i_ph (imol_of s (o_imol (obj_of s i)))) (phase_of s (imol_of s (o_imol (obj_of s j)))))) by (rewrite E; reflexivity);
    unfold nob; cbn; rewrite ?set_pcell_objs; reflexivity.
Qed.

Lemma mix_flows_1_nob s i srcs : nob (mix_flows_1 s i srcs) = nob s.
Proof.
  unfold mix_flows_1, nob. cbn.
  destruct (map _ srcs) as [|f t]; [reflexivity|].
  destruct (_ && _)%bool; [rewrite set_pcell_objs|]; reflexivity.
Qed.

Lemma build_rows_objs old ps s s' rs : build_rows s old ps = (s', rs) -> objs s' = objs s /\ imols s' = imols s /\ dcs s' = dcs s.
Proof.
  revert s s' rs; induction ps as [|p t IH]; intros s s' rs H; cbn in H.
  - injection H as <- _. auto.
  - destruct (row_of_phase p old).
    + destruct (build_rows s old t) as [s1 rs1] eqn:E. injection H as <- _. apply IH in E. exact E.
    + destruct (build_rows _ old t) as [s2 rs2] eqn:E. injection H as <- _. apply IH in E. cbn in E. exact E.
Qed.

Lemma fold_wr_row_objs {A} (g : state -> A -> nat) (h : state -> A -> vec) l s :
  let s' := fold_left (fun st x => wr_row st (g st x) (h st x)) l s in
  objs s' = objs s /\ imols s' = imols s /\ dcs s' = dcs s.
Proof.
  revert s; induction l as [|x t IH]; intros s; cbn; auto.
  destruct (IH (wr_row s (g s x) (h s x))) as (A1 & A2 & A3). cbn in *. auto.
Qed.

Lemma expand_phases_objs s ir others : objs (expand_phases s ir others) = objs s.
Proof.
  unfold expand_phases. destruct (negb _); [reflexivity|].
  destruct (build_rows s _ _) as [s1 rs] eqn:E. apply build_rows_objs in E as (E1 & _). cbn. exact E1.
Qed.

Lemma mixm_nob s i srcs : nob (mixm s i srcs) = nob s.
Proof.
  unfold mixm, nob.
  match goal with |- context [fold_left (fun st pr => wr_row st (@?g st pr) (@?h st pr)) ?l ?s0] =>
    destruct (fold_wr_row_objs g h l s0) as (A1 & _) end.
  cbv zeta in A1. rewrite A1. rewrite expand_phases_objs. reflexivity.
Qed.

Lemma mix_flows_nob s i srcs : nob (mix_flows s i srcs) = nob s.
Proof. unfold mix_flows. destruct (is_multi s i); [apply mixm_nob | apply mix_flows_1_nob]. Qed.

Lemma reset_chem_nob s i : nob (reset_chem s i) = nob s.
Proof.
  unfold reset_chem.
  set (im := imol_of s (o_imol (obj_of s i))).
  destruct (i_multi im) eqn:M.
  - destruct (new_rows s _) as [sa rs] eqn:E. apply new_rows_objs in E. cbn [new_arr new_dc fst snd].
    match goal with |- nob (fold_left ?f ?l ?s0) = _ =>
      assert (G : forall l0 s1, nob (fold_left f l0 s1) = nob s1) end.
    { induction l0 as [|[p n] t IH]; intros s1; cbn [fold_left]; auto.
      rewrite IH. cbn [fst snd]. destruct (index_of p (i_phases im)); [|reflexivity].
      unfold nob; cbn. apply upd_length. }
    rewrite G. unfold nob; cbn. rewrite E. reflexivity.
  - destruct (copy_data s im) as [s1 d] eqn:E. apply copy_data_objs in E.
    unfold nob; cbn. rewrite E. reflexivity.
Qed.

Lemma by_volume_objs s i : objs (fst (by_volume s i)) = objs s.
Proof. unfold by_volume. destruct (find_dc _ _); reflexivity. Qed.

Section Align.
Variable calc1 : nat -> nat -> option phase -> vec -> Q -> Q -> option Q.
Variable calcx : nat -> nat -> list (phase * vec) -> Q -> Q -> option Q.
Variable shared_key : bool.
Variable cvol : nat -> phase -> Q -> Q -> Q.

Definition aligned (w : world) : Prop := length (objs (w_st w)) = length (cobjs (w_cs w)).

Lemma reset_cache_len pk s c i : length (cobjs (reset_cache pk s c i)) = length (cobjs c).
Proof. unfold reset_cache. change (length (cobjs ?x)) with (nobj x). rewrite !reset_cache_list_nobj. reflexivity. Qed.

Lemma read_all_st l w : w_st (fst (read_all calc1 calcx w l)) = w_st w.
Proof.
  revert w; induction l as [|j t IH]; intros w; cbn; auto.
  pose proof (get_property_st calc1 calcx w j O true false) as G.
  destruct (get_property calc1 calcx w j O true false) as [w1 r]. cbn [fst] in G.
  destruct r; cbn [fst]; rewrite ?IH; exact G.
Qed.

Lemma read_all_cobjs l w : cobjs (w_cs (fst (read_all calc1 calcx w l))) = cobjs (w_cs w).
Proof.
  revert w; induction l as [|j t IH]; intros w; cbn; auto.
  pose proof (get_property_cobjs calc1 calcx w j O true false) as G.
  destruct (get_property calc1 calcx w j O true false) as [w1 r]. cbn [fst] in G.
  destruct r; cbn [fst]; rewrite ?IH; exact G.
Qed.

Lemma read_all_aligned l w : aligned w -> aligned (fst (read_all calc1 calcx w l)).
Proof. unfold aligned. rewrite read_all_st, read_all_cobjs. auto. Qed.

Lemma lift_aligned w r : nob (fst r) = nob (w_st w) -> aligned w -> aligned (fst (lift w r)).
Proof. unfold aligned, nob. cbn. intros -> A. exact A. Qed.

Lemma step_aligned w o : aligned w -> aligned (fst (step calc1 calcx shared_key cvol w o)).
Proof.
  intros A. unfold step. destruct (forallb _ _); [|exact A].
  destruct w as [s c]. unfold aligned in A; cbn [w_st w_cs] in A.
  destruct o; unfold step_valid; cbn [w_st w_cs].
  - (* ONew *)
    unfold new_tc.
    match goal with |- context [let '(a, b) := ?x in _] => destruct x as [s2 ir] eqn:E end.
    assert (O2 : objs s2 = objs s).
    { destruct flows as [|d [|d2 t]].
      - cbn in E. injection E as <- _. reflexivity.
      - cbn in E. injection E as <- _. reflexivity.
      - destruct (new_rows _ (d :: d2 :: t)) as [sa rs] eqn:E2. apply new_rows_objs in E2.
        cbn in E. injection E as <- _. cbn. exact E2. }
    unfold aligned, new_obj, new_cobj_fresh; cbn. rewrite !app_length, O2, A. reflexivity.
  - (* ORead *)
    destruct (get_property calc1 calcx (mkw s c) i name flow nophase) as [w1 r] eqn:E. cbn [fst].
    replace w1 with (fst (get_property calc1 calcx (mkw s c) i name flow nophase)) by (rewrite E; reflexivity).
    unfold aligned. rewrite get_property_st, get_property_cobjs. exact A.
  - (* ORVol *)
    unfold read_vol. pose proof (by_volume_objs s i) as U. destruct (by_volume s i) as [s1 e].
    cbn [fst] in U. unfold aligned; cbn [fst w_st w_cs]. rewrite U. exact A.
  - apply lift_aligned; [reflexivity | exact A].
  - apply lift_aligned; [reflexivity | exact A].
  - apply lift_aligned; [apply set_phase_nob | exact A].
  - apply lift_aligned; [apply set_flow_nob | exact A].
  - apply lift_aligned; [apply scale_nob | exact A].
  - apply lift_aligned; [apply fmol_nob | exact A].
  - apply lift_aligned; [apply empty_nob | exact A].
  - (* OProxy *)
    unfold aligned, st_proxy, new_cobj_proxy; cbn. destruct shared_key; cbn; rewrite !app_length, A; reflexivity.
  - (* OFlowProxy *)
    unfold aligned, st_flow_proxy, new_cobj_fresh.
    destruct (copy_imol_with s _ _) as [s1 ir] eqn:E. apply copy_imol_with_objs in E.
    cbn. rewrite !app_length, E, A. reflexivity.
  - (* OCopy *)
    unfold aligned, st_copy, new_cobj_fresh.
    destruct (copy_data s _) as [s1 d] eqn:E. apply copy_data_objs in E.
    destruct (copy_imol_with s1 _ _) as [s2 ir] eqn:E2. apply copy_imol_with_objs in E2.
    cbn. rewrite !app_length, E2, E, A. reflexivity.
  - (* OLink *)
    pose proof (link_nob s i j fl ph tp) as U. destruct (link_with s i j fl ph tp) as [s1 [e|]]; cbn [fst] in U |- *.
    + unfold aligned, nob in *; cbn [w_st w_cs]; lia.
    + pose proof (ensure_views_nob s1 i) as U2.
      destruct tp; unfold aligned, nob in *; cbn [fst w_st w_cs]; rewrite ?reset_cache_len; lia.
  - (* OUnlink *)
    pose proof (unlink_nob s i) as U. destruct (unlink s i) as [s1 [e|]]; cbn [fst] in U |- *;
      unfold aligned, nob in *; cbn [w_st w_cs]; rewrite ?reset_cache_len; lia.
  - apply lift_aligned; [apply copy_like_nob | exact A].
  - apply lift_aligned; [reflexivity | exact A].
  - apply lift_aligned; [reflexivity | exact A].
  - apply lift_aligned; [apply copy_phase_nob | exact A].
  - (* OMix *)
    match goal with |- context [mix_flows ?a ?b ?c] => pose proof (mix_flows_nob a b c) as MF; set (s2 := mix_flows a b c) in * end.
    assert (A0 : aligned (mkw s c)) by exact A.
    assert (MF' : length (objs s2) = length (objs s)) by (unfold nob in MF; rewrite MF; reflexivity). clear MF.
    destruct energy.
    + pose proof (read_all_aligned srcs _ A0) as A1. pose proof (read_all_cobjs srcs (mkw s c)) as C1.
      destruct (read_all calc1 calcx (mkw s c) srcs) as [w1 allok]. cbn [fst w_cs] in *.
      destruct allok; cbn [negb]; [|exact A1].
      apply lift_aligned; [reflexivity|]. unfold aligned, nob in *; cbn [w_st w_cs] in *. rewrite C1. lia.
    + cbn [negb]. unfold aligned, nob in *; cbn in *; lia.
  - (* OMix1 *)
    pose proof (mix_flows_nob s i [j]) as MF. unfold aligned, nob in *; cbn [fst w_st w_cs]. lia.
  - (* OView *)
    destruct (i_multi _).
    + destruct (negb _); [exact A|].
      destruct (find_view _ _); [exact A|]. destruct (index_of _ _); [|exact A].
      destruct (nth_error _ _); [|exact A].
      unfold aligned, new_imol, new_obj, new_cobj_fresh; cbn. rewrite upd_length, !app_length, A. reflexivity.
    + destruct (Nat.eqb _ _); exact A.
  - (* OSetPhases *)
    destruct ps as [|p [|p2 ps]]; try (apply lift_aligned; [apply set_phase_nob | exact A]);
    (destruct (i_multi _);
     [ match goal with |- context [if ?b then _ else _] => destruct b end; [exact A|];
       match goal with |- context [multi_rephase ?a1 ?a2 ?a3] =>
         pose proof (multi_rephase_nob a1 a2 a3) as U; destruct (multi_rephase a1 a2 a3) as [s1 [e|]] end;
       cbn [fst] in U |- *; unfold aligned, nob in *; cbn [w_st w_cs]; rewrite ?reset_cache_len; lia
     | pose proof (single_to_multi_nob s i) as U; unfold aligned, nob in *; cbn [fst w_st w_cs]; rewrite U; exact A ]).
  - (* OResetCache *)
    pose proof (ensure_views_nob s i) as U. unfold aligned, nob in *; cbn [fst w_st w_cs]. rewrite reset_cache_len. lia.
  - (* OSetPkg *)
    pose proof (reset_chem_nob (ensure_views s i) i) as U. pose proof (ensure_views_nob s i) as U2.
    unfold aligned, nob in *; cbn [fst w_st w_cs]. rewrite reset_cache_len. lia.
  - exact A.
  - (* OSetHS *) apply lift_aligned; [destruct (_ && _)%bool; reflexivity | exact A].
Qed.

Lemma run_aligned ops w : aligned w -> aligned (run_world calc1 calcx shared_key cvol w ops).
Proof.
  revert w; induction ops as [|o t IH]; intros w A; [exact A|].
  rewrite run_world_cons. apply IH, step_aligned, A.
Qed.
End Align.

(* ---------- a read equals the read on a freshly constructed stream in the same state ---------- *)
Lemma rd_equiv_sym a b : rd_equiv a b -> rd_equiv b a.
Proof. intros [|x y E|]; constructor. symmetry; exact E. Qed.
Lemma rd_equiv_trans a b c : rd_equiv a b -> rd_equiv b c -> rd_equiv a c.
Proof.
  intros [|x y E|] H; inversion H; subst; constructor.
  etransitivity; eassumption.
Qed.

Lemma step_new_cs calc1 calcx sk cv w fl ps T P pkg :
  w_cs (fst (step calc1 calcx sk cv w (ONew fl ps T P pkg))) = new_cobj_fresh (w_cs w) pkg.
Proof.
  destruct w as [s c]. unfold step. cbn [op_objs forallb]. unfold step_valid. cbn [w_st w_cs].
  destruct (new_tc s (T, P)) as [s1 tr].
  match goal with |- context [let '(a, b) := ?x in _] => destruct x as [s2 ir] end.
  destruct (new_obj s2 _) as [s3 n]. reflexivity.
Qed.

Lemma equals_fresh_stream calc1 calcx cv :
  calc1_respects calc1 -> calcx_respects calcx ->
  forall ops i name flow nophase d p T P,
    let w' := run_world calc1 calcx true cv w0 ops in
    (i < length (cobjs (w_cs w')))%nat ->
    pstate_of (w_st w') i = mkps false [p] [d] T P ->
    let wn := fst (step calc1 calcx true cv w' (ONew [d] [p] T P (c_pkg (cobj_of (w_cs w') i)))) in
    rd_equiv (snd (get_property calc1 calcx w' i name flow nophase))
             (snd (get_property calc1 calcx wn (length (objs (w_st w'))) name flow nophase)).
Proof.
  intros H1 Hx ops i name flow nophase d p T P w' Hi HP wn.
  assert (A : aligned w') by (apply run_aligned; reflexivity).
  assert (I' : Inv calc1 calcx (w_cs w')) by exact (run_inv calc1 calcx true H1 Hx cv ops w0 (or_introl eq_refl) (Inv_cs0 calc1 calcx)).
  pose proof (new_stream_pstate calc1 calcx true cv w' d p T P (c_pkg (cobj_of (w_cs w') i))) as [NP NA].
  destruct (NA A) as [NK NL]. fold wn in NP, NK, NL.
  assert (In' : Inv calc1 calcx (w_cs wn)).
  { unfold wn. rewrite step_new_cs. apply new_cobj_fresh_inv. exact I'. }
  assert (Hn : (length (objs (w_st w')) < nobj (w_cs wn))%nat).
  { unfold nobj, wn. rewrite step_new_cs. unfold new_cobj_fresh; cbn. rewrite app_length; cbn.
    unfold aligned in A. lia. }
  eapply rd_equiv_trans; [apply (get_property_spec calc1 calcx H1 Hx w' i); [exact I' | exact Hi]|].
  apply rd_equiv_sym.
  eapply rd_equiv_trans; [apply (get_property_spec calc1 calcx H1 Hx wn _); [exact In' | exact Hn]|].
  rewrite (spec_read_pstate calc1 calcx wn (length (objs (w_st w'))) w' i); [apply rd_equiv_refl| |exact NK].
  rewrite NP, HP. reflexivity.
Qed.
(* ---------- volumetric views: the _data_cache invariant ---------- *)
Definition capkey (im : imol) : nat * list phase * option nat :=
  if i_multi im then (i_data im, i_phases im, None) else (i_data im, [], Some (i_ph im)).
Definition ekey (e : dcent) : nat * list phase * option nat := (d_data e, d_phases e, d_ph e).

Lemma ekey_capture tc im : ekey (capture tc im) = capkey im.
Proof. unfold capture, capkey, ekey. destruct (i_multi im); reflexivity. Qed.

Record SInvG (ob : list sobj) (ims : list imol) (ds : list (list dcent)) : Prop := mkSI {
  si_owf : forall i, (i < length ob)%nat -> (o_imol (nth i ob d_obj) < length ims)%nat;
  si_dcwf : forall r, (r < length ims)%nat -> (i_dc (nth r ims d_imol) < length ds)%nat;
  si_cap : forall r, (r < length ims)%nat -> forall e, In e (nth (i_dc (nth r ims d_imol)) ds []) ->
             ekey e = capkey (nth r ims d_imol);
  si_share : forall r r', (r < length ims)%nat -> (r' < length ims)%nat ->
             i_dc (nth r ims d_imol) = i_dc (nth r' ims d_imol) ->
             capkey (nth r ims d_imol) = capkey (nth r' ims d_imol) }.

Definition SInv (s : state) : Prop := SInvG (objs s) (imols s) (dcs s).

Lemma SInv_st0 : SInv st0.
Proof. split; cbn; intros; lia. Qed.

(* P1: a new indexer with its own empty dict *)
Lemma si_new_imol ob ims ds v : i_dc v = length ds -> SInvG ob ims ds -> SInvG ob (ims ++ [v]) (ds ++ [[]]).
Proof.
  intros Hv [OW DW CA SH]. split.
  - intros i Hi. rewrite app_length; cbn. specialize (OW i Hi). lia.
  - intros r Hr. rewrite !app_length in *; cbn in *.
    destruct (Nat.eq_dec r (length ims)) as [->|N].
    + rewrite nth_app_new. lia.
    + rewrite nth_app_old by lia. specialize (DW r ltac:(lia)). lia.
  - intros r Hr e He. rewrite app_length in Hr; cbn in Hr.
    destruct (Nat.eq_dec r (length ims)) as [->|N].
    + rewrite nth_app_new in He |- *. rewrite Hv, nth_app_new in He. destruct He.
    + rewrite nth_app_old in He |- * by lia. pose proof (DW r ltac:(lia)) as D.
      rewrite nth_app_old in He by exact D. apply CA; [lia | exact He].
  - intros r r' Hr Hr' E. rewrite app_length in Hr, Hr'; cbn in Hr, Hr'.
    destruct (Nat.eq_dec r (length ims)) as [->|N], (Nat.eq_dec r' (length ims)) as [->|N']; auto.
    + rewrite nth_app_new in E. rewrite nth_app_old in E by lia. pose proof (DW r' ltac:(lia)). lia.
    + rewrite nth_app_new in E. rewrite nth_app_old in E by lia. pose proof (DW r ltac:(lia)). lia.
    + rewrite !nth_app_old in * by lia. apply SH; auto; lia.
Qed.

(* P2 / P3: objects *)
Lemma si_new_obj ob ims ds x : (o_imol x < length ims)%nat -> SInvG ob ims ds -> SInvG (ob ++ [x]) ims ds.
Proof.
  intros Hx [OW DW CA SH]. split; auto.
  intros i Hi. rewrite app_length in Hi; cbn in Hi.
  destruct (Nat.eq_dec i (length ob)) as [->|N]; [rewrite nth_app_new; exact Hx|].
  rewrite nth_app_old by lia. apply OW; lia.
Qed.

Lemma si_wr_obj ob ims ds i x :
  ((i < length ob)%nat -> (o_imol x < length ims)%nat) -> SInvG ob ims ds -> SInvG (upd ob i x) ims ds.
Proof.
  intros Hx [OW DW CA SH]. split; auto.
  intros k Hk. rewrite upd_length in Hk. rewrite nth_upd.
  destruct (Nat.eqb_spec i k) as [->|N]; cbn [andb]; [|apply OW; exact Hk].
  destruct (Nat.ltb_spec k (length ob)); [apply Hx; assumption | lia].
Qed.

(* P4: an indexer is rebound to a new empty dict (its data / phase may change at the same time) *)
Lemma si_rebind_fresh ob ims ds r im' : i_dc im' = length ds -> SInvG ob ims ds -> SInvG ob (upd ims r im') (ds ++ [[]]).
Proof.
  intros Hd [OW DW CA SH]. split.
  - intros i Hi. rewrite upd_length. apply OW; exact Hi.
  - intros k Hk. rewrite upd_length in Hk. rewrite app_length; cbn. rewrite nth_upd.
    destruct (Nat.eqb r k && Nat.ltb r (length ims))%bool; [lia | specialize (DW k Hk); lia].
  - intros k Hk e He. rewrite upd_length in Hk. rewrite nth_upd in He |- *.
    destruct (Nat.eqb r k && Nat.ltb r (length ims))%bool.
    + rewrite Hd, nth_app_new in He. destruct He.
    + pose proof (DW k Hk) as D. rewrite nth_app_old in He by exact D. apply CA; assumption.
  - intros k k' Hk Hk' E. rewrite upd_length in Hk, Hk'. rewrite !nth_upd in *.
    destruct (Nat.eqb r k && Nat.ltb r (length ims))%bool eqn:B, (Nat.eqb r k' && Nat.ltb r (length ims))%bool eqn:B'; auto.
    + pose proof (DW k' Hk'). lia.
    + pose proof (DW k Hk). lia.
Qed.

(* P5: an indexer is rebound to the dict of another indexer and ends up holding the same data / phase as that one *)
Lemma si_rebind_share ob ims ds r r2 im' :
  (r2 < length ims)%nat -> i_dc im' = i_dc (nth r2 ims d_imol) -> capkey im' = capkey (nth r2 ims d_imol) ->
  SInvG ob ims ds -> SInvG ob (upd ims r im') ds.
Proof.
  intros H2 Hd Hc [OW DW CA SH]. split.
  - intros i Hi. rewrite upd_length. apply OW; exact Hi.
  - intros k Hk. rewrite upd_length in Hk. rewrite nth_upd.
    destruct (Nat.eqb r k && Nat.ltb r (length ims))%bool; [rewrite Hd; apply DW; exact H2 | apply DW; exact Hk].
  - intros k Hk e He. rewrite upd_length in Hk. rewrite nth_upd in He |- *.
    destruct (Nat.eqb r k && Nat.ltb r (length ims))%bool.
    + rewrite Hd in He. rewrite Hc. apply CA; assumption.
    + apply CA; assumption.
  - intros k k' Hk Hk' E. rewrite upd_length in Hk, Hk'. rewrite !nth_upd in *.
    destruct (Nat.eqb r k && Nat.ltb r (length ims))%bool, (Nat.eqb r k' && Nat.ltb r (length ims))%bool; auto.
    + rewrite Hc. apply SH; auto. rewrite <- Hd. exact E.
    + rewrite Hc. symmetry. apply SH; auto. rewrite <- Hd. symmetry. exact E.
Qed.

(* P6: by_volume stores a new view in the dict of an indexer *)
Lemma si_add_entry ob ims ds r e :
  (r < length ims)%nat -> ekey e = capkey (nth r ims d_imol) -> SInvG ob ims ds ->
  SInvG ob ims (upd ds (i_dc (nth r ims d_imol)) (nth (i_dc (nth r ims d_imol)) ds [] ++ [e])).
Proof.
  intros Hr He [OW DW CA SH]. split; auto.
  - intros k Hk. rewrite upd_length. apply DW; exact Hk.
  - intros k Hk e' He'. rewrite nth_upd in He'.
    destruct (Nat.eqb_spec (i_dc (nth r ims d_imol)) (i_dc (nth k ims d_imol))) as [E|N]; cbn [andb] in He'.
    + destruct (Nat.ltb_spec (i_dc (nth r ims d_imol)) (length ds)) as [L|G]; [|pose proof (DW r Hr); lia].
      apply in_app_or in He' as [I|[<-|[]]].
      * rewrite E in I. apply CA; assumption.
      * rewrite He. apply SH; assumption.
    + apply CA; assumption.
Qed.

(* ---------- frames: operations that touch neither objects' indexer refs, nor indexers, nor dicts ---------- *)
Definition same3 (s s' : state) : Prop := objs s' = objs s /\ imols s' = imols s /\ dcs s' = dcs s.
Lemma same3_refl s : same3 s s. Proof. repeat split. Qed.
Lemma same3_trans a b c : same3 a b -> same3 b c -> same3 a c.
Proof. intros (A1 & A2 & A3) (B1 & B2 & B3). repeat split; congruence. Qed.
Lemma same3_sinv s s' : same3 s s' -> SInv s -> SInv s'.
Proof. intros (A1 & A2 & A3). unfold SInv. rewrite A1, A2, A3. auto. Qed.

Lemma new_rows_same3 vs s s' rs : new_rows s vs = (s', rs) -> same3 s s'.
Proof.
  revert s s' rs; induction vs as [|v t IH]; intros s s' rs H; cbn in H.
  - injection H as <- _. apply same3_refl.
  - destruct (new_rows (set_rows s (rows s ++ [v])) t) as [s2 rs2] eqn:E.
    injection H as <- _. apply IH in E. exact E.
Qed.
Lemma map_rows_same3 f rs s : same3 s (map_rows s f rs).
Proof.
  revert s; induction rs as [|r t IH]; intros s; cbn; [apply same3_refl|].
  eapply same3_trans; [|apply IH]. repeat split.
Qed.
Lemma copy_data_same3 s im s' d : copy_data s im = (s', d) -> same3 s s'.
Proof.
  unfold copy_data. destruct (i_multi im).
  - destruct (new_rows s _) as [s1 rs] eqn:E. intros H. injection H as <- _. apply new_rows_same3 in E.
    eapply same3_trans; [exact E|]. repeat split.
  - intros H. injection H as <- _. repeat split.
Qed.
Lemma set_pcell_same3 s r p : same3 s (fst (set_pcell s r p)).
Proof. unfold set_pcell. destruct (p_locked _); [destruct (Nat.eqb _ _)|]; repeat split. Qed.

Lemma set_flow_same3 s i p j v : same3 s (fst (set_flow s i p j v)).
Proof.
  unfold set_flow. destruct (i_multi _); [|repeat split].
  destruct (index_of _ _); [|repeat split]. destruct (nth_error _ _); repeat split.
Qed.
Lemma scale_same3 s i k : same3 s (fst (scale s i k)).
Proof. unfold scale; cbn. apply map_rows_same3. Qed.
Lemma fmol_same3 s i k : same3 s (fst (fmol_times s i k)).
Proof. unfold fmol_times. destruct (qzerob _); [apply same3_refl | apply scale_same3]. Qed.
Lemma empty_same3 s i : same3 s (fst (empty s i)).
Proof. unfold empty; cbn. apply map_rows_same3. Qed.
Lemma copy_phase_same3 s i j : same3 s (fst (copy_phase s i j)).
Proof.
  unfold copy_phase. destruct (i_multi _); [apply same3_refl|]. destruct (i_multi _); [apply same3_refl|].
  apply set_pcell_same3.
Qed.
Lemma copy_like_same3 s i j : same3 s (fst (copy_like_11 s i j)).
Proof.
  unfold copy_like_11. destruct (Nat.eqb _ _); [repeat split|].
  match goal with |- context [set_pcell ?a ?b ?c] => pose proof (set_pcell_same3 a b c) as U; destruct (set_pcell a b c) as [s2 [e|]] end;
    cbn [fst] in *; (eapply same3_trans; [|eapply same3_trans; [exact U|]]); repeat split.
Qed.
Lemma mix_flows_1_same3 s i srcs : same3 s (mix_flows_1 s i srcs).
Proof.
  unfold mix_flows_1. cbn.
  destruct (map _ srcs) as [|f t]; [repeat split|].
  destruct (_ && _)%bool; [|repeat split].
  match goal with |- context [set_pcell ?a ?b ?c] => pose proof (set_pcell_same3 a b c) as (U1 & U2 & U3) end.
  repeat split; cbn; assumption.
Qed.

(* ---------- structural operations ---------- *)
Lemma SInv_owf s i : SInv s -> (i < length (objs s))%nat -> (o_imol (obj_of s i) < length (imols s))%nat.
Proof. intros H Hi. apply (si_owf _ _ _ H i Hi). Qed.

Lemma multi_to_single_sinv s i p : SInv s -> SInv (multi_to_single s i p).
Proof.
  intros H. unfold SInv, multi_to_single; cbn.
  apply si_wr_obj; [intros _; cbn; rewrite app_length; cbn; lia|].
  apply si_new_imol; [reflexivity | exact H].
Qed.

Lemma set_phase_sinv s i p : SInv s -> SInv (fst (set_phase s i p)).
Proof.
  intros H. unfold set_phase. destruct (i_multi _); cbn [fst ok].
  - apply multi_to_single_sinv, H.
  - eapply same3_sinv; [apply set_pcell_same3 | exact H].
Qed.

Lemma copy_imol_with_sinv s im d s' r :
  copy_imol_with s im d = (s', r) -> SInv s ->
  SInv s' /\ r = length (imols s) /\ length (imols s') = S (length (imols s)) /\ objs s' = objs s.
Proof.
  unfold copy_imol_with. destruct (i_multi im); intros E H; injection E as <- <-; unfold SInv; cbn;
    (split; [apply si_new_imol; [reflexivity | exact H] | rewrite app_length; cbn; repeat split; lia]).
Qed.

Lemma st_proxy_sinv s i : SInv s -> (i < length (objs s))%nat -> SInv (st_proxy s i).
Proof.
  intros H Hi. unfold SInv, st_proxy; cbn. apply si_new_obj; [cbn; apply SInv_owf; assumption | exact H].
Qed.

Lemma st_flow_proxy_sinv s i : SInv s -> SInv (st_flow_proxy s i).
Proof.
  intros H. unfold st_flow_proxy.
  destruct (copy_imol_with s _ _) as [s1 ir] eqn:E. apply copy_imol_with_sinv in E as (H1 & -> & L & O); [|exact H].
  unfold SInv in *; cbn. apply si_new_obj; [cbn; lia | exact H1].
Qed.

Lemma st_copy_sinv s i : SInv s -> SInv (st_copy s i).
Proof.
  intros H. unfold st_copy.
  destruct (copy_data s _) as [s1 d] eqn:E. apply copy_data_same3 in E. pose proof (same3_sinv _ _ E H) as H1.
  destruct (copy_imol_with s1 _ _) as [s2 ir] eqn:E2. apply copy_imol_with_sinv in E2 as (H2 & -> & L & O); [|exact H1].
  unfold SInv in *; cbn. apply si_new_obj; [cbn; lia | exact H2].
Qed.

Lemma unlink_sinv s i : SInv s -> (i < length (objs s))%nat -> SInv (fst (unlink s i)).
Proof.
  intros H Hi. unfold unlink. destruct (_ && _)%bool; [exact H|].
  pose proof (SInv_owf s i H Hi) as OI.
  set (im := imol_of s (o_imol (obj_of s i))) in *.
  assert (G : forall s1, same3 s s1 ->
     SInv (fst (let (s2, d) := copy_data s1 im in
                let (s3, dc) := new_dc s2 in
                let s4 := wr_imol s3 (o_imol (obj_of s i)) (mkimol (i_multi im) d (if i_multi im then i_ph im else length (phs s)) (i_phases im) dc) in
                let (s5, tr) := new_tc s4 (tc_of s (o_tc (obj_of s i))) in
                ok (wr_obj s5 i (mkobj (o_imol (obj_of s i)) tr (o_views (obj_of s i)) (o_hasv (obj_of s i) || i_multi im)))))).
  { intros s1 S1. destruct (copy_data s1 im) as [s2 d] eqn:E. apply copy_data_same3 in E.
    pose proof (same3_trans _ _ _ S1 E) as (E1 & E2 & E3).
    unfold SInv; cbn. rewrite E1, E2, E3.
    apply si_wr_obj; [intros _; cbn; rewrite upd_length; exact OI|].
    apply si_rebind_fresh; [reflexivity | exact H]. }
  destruct (i_multi im) eqn:M.
  - apply (G s (same3_refl s)).
  - unfold new_p. cbv beta iota. apply (G (set_phs s (phs s ++ [mkp (phase_of s im) false]))). repeat split.
Qed.

Lemma single_to_multi_sinv s i ps : SInv s -> SInv (single_to_multi s i ps).
Proof.
  intros H. unfold single_to_multi.
  destruct (new_rows s _) as [s1 rs] eqn:E. apply new_rows_same3 in E as (E1 & E2 & E3).
  unfold SInv; cbn. rewrite E1, E2, E3.
  apply si_wr_obj; [intros _; cbn; rewrite app_length; cbn; lia|].
  apply si_new_imol; [reflexivity | exact H].
Qed.

(* re-attaching phase views: each step allocates an indexer and points a view object at it *)
Lemma reattach_step_sinv st n v : (forall d, i_dc (v d) = d) -> SInv st ->
  SInv (let (st1, vr) := new_imol st v in wr_obj st1 n (mkobj vr (o_tc (obj_of st1 n)) (o_views (obj_of st1 n)) (o_hasv (obj_of st1 n)))).
Proof.
  intros Hv H. unfold SInv; cbn.
  apply si_wr_obj; [intros _; cbn; rewrite app_length; cbn; lia|].
  apply si_new_imol; [apply Hv | exact H].
Qed.

Lemma multi_rephase_sinv s i ps : SInv s -> SInv (fst (multi_rephase s i ps)).
Proof.
  intros H. unfold multi_rephase. destruct (existsb _ _); [exact H|].
  destruct (new_rows s _) as [s1 rs] eqn:E. apply new_rows_same3 in E.
  cbn [new_arr fst snd].
  match goal with |- context [new_imol ?a ?b] => destruct (new_imol a b) as [s3 ir] eqn:E3 end.
  assert (H3 : SInv s3 /\ (ir < length (imols s3))%nat).
  { unfold new_imol in E3. injection E3 as <- <-. destruct E as (E1 & E2 & E3). unfold SInv; cbn. rewrite E1, E2, E3.
    split; [apply si_new_imol; [reflexivity | exact H] | rewrite app_length; cbn; lia]. }
  destruct H3 as [H3 L3].
  match goal with |- context [fold_left ?f ?l ?a0] =>
    assert (G : forall l0 st kept, SInv st -> (ir < length (imols st))%nat ->
                SInv (fst (fold_left f l0 (st, kept))) /\ (ir < length (imols (fst (fold_left f l0 (st, kept)))))%nat) end.
  { induction l0 as [|[p n] t IH]; intros st kept HS HL; cbn [fold_left]; [split; assumption|].
    cbn [fst snd]. destruct (if is_multi st n then None else index_of p ps) as [k|]; [|apply IH; assumption].
    cbn [new_imol]. apply IH.
    - apply (reattach_step_sinv st n (mkimol false (nth k rs O) p [])); [reflexivity | exact HS].
    - cbn. rewrite upd_length || idtac. cbn. rewrite app_length; cbn; lia. }
  match goal with |- context [fold_left ?f ?l (?st, ?k)] =>
    specialize (G l st k H3 L3); destruct (fold_left f l (st, k)) as [s4 vs] end.
  cbn [fst] in G. destruct G as [G1 G2]. cbn [fst ok].
  unfold SInv in *; cbn. apply si_wr_obj; [intros _; cbn; exact G2 | exact G1].
Qed.

Lemma reset_chem_sinv s i : SInv s -> (i < length (objs s))%nat -> SInv (reset_chem s i).
Proof.
  intros H Hi. unfold reset_chem. pose proof (SInv_owf s i H Hi) as OI.
  set (im := imol_of s (o_imol (obj_of s i))) in *.
  match goal with |- context [let (s1, d) := ?x in _] => destruct x as [s1 d] eqn:E end.
  assert (S1 : same3 s s1).
  { destruct (i_multi im).
    - destruct (new_rows s _) as [sa rs] eqn:E2. apply new_rows_same3 in E2. cbn in E. injection E as <- _.
      eapply same3_trans; [exact E2 | repeat split].
    - apply copy_data_same3 in E. exact E. }
  cbn [new_dc]. destruct S1 as (E1 & E2 & E3).
  set (s2 := wr_imol _ _ _).
  assert (H2 : SInv s2).
  { unfold s2, SInv; cbn. rewrite E1, E2, E3. apply si_rebind_fresh; [reflexivity | exact H]. }
  clearbody s2. destruct (i_multi im); [|exact H2].
  match goal with |- SInv (fold_left ?f ?l ?a0) =>
    assert (G : forall l0 st, SInv st -> SInv (fold_left f l0 st)) end.
  { induction l0 as [|[p n] t IH]; intros st HS; cbn [fold_left]; [exact HS|].
    apply IH. cbn [fst snd]. destruct (index_of p (i_phases im)) as [k|]; [|exact HS].
    apply (reattach_step_sinv st n (mkimol false (nth k (arr st d) O) p [])); [reflexivity | exact HS]. }
  apply G, H2.
Qed.

Lemma ensure_views_sinv s i : SInv s -> (i < length (objs s))%nat -> SInv (ensure_views s i).
Proof.
  intros H Hi. unfold ensure_views. destruct (is_multi s i); [|exact H].
  unfold SInv; cbn. apply si_wr_obj; [intros _; cbn; apply SInv_owf; assumption | exact H].
Qed.

Lemma by_volume_sinv s i : SInv s -> (i < length (objs s))%nat -> SInv (fst (by_volume s i)).
Proof.
  intros H Hi. unfold by_volume. destruct (find_dc _ _); [exact H|]. cbn [fst].
  unfold SInv; cbn. apply (si_add_entry (objs s) (imols s) (dcs s) (o_imol (obj_of s i))).
  - apply SInv_owf; assumption.
  - apply ekey_capture.
  - exact H.
Qed.

Lemma link_with_sinv s i j fl ph tp :
  SInv s -> (i < length (objs s))%nat -> (j < length (objs s))%nat -> adm s (OLink i j fl ph tp) = true ->
  SInv (fst (link_with s i j fl ph tp)).
Proof.
  intros H Hi Hj A. unfold link_with. cbn [adm] in A.
  set (o := obj_of s i) in *. set (o2 := obj_of s j) in *.
  set (im := imol_of s (o_imol o)) in *. set (im2 := imol_of s (o_imol o2)) in *.
  destruct (Bool.eqb (i_multi im) (i_multi im2)) eqn:EM; cbn [negb]; [|exact H].
  apply Bool.eqb_prop in EM.
  pose proof (SInv_owf s i H Hi) as OI. pose proof (SInv_owf s j H Hj) as OJ. fold o in OI. fold o2 in OJ.
  set (s1 := if tp then wr_obj s i (mkobj (o_imol o) (o_tc o2) (o_views o) (o_hasv o)) else s).
  assert (H1 : SInv s1 /\ imols s1 = imols s /\ dcs s1 = dcs s).
  { unfold s1. destruct tp; [|auto]. split; [|split; reflexivity].
    unfold SInv; cbn. apply si_wr_obj; [intros _; exact OI | exact H]. }
  destruct H1 as (H1 & I1 & D1). clearbody s1.
  destruct (tp && fl && (ph || i_multi im))%bool eqn:SH; cbn [fst ok].
  - apply Bool.andb_true_iff in SH as [SH1 SH3]. apply Bool.andb_true_iff in SH1 as [-> ->].
    unfold SInv in *; cbn. rewrite I1 in *.
    apply (si_rebind_share _ _ _ _ (o_imol o2)); [exact OJ | reflexivity | | exact H1].
    fold (imol_of s (o_imol o2)). fold im2. unfold capkey; cbn. rewrite <- EM.
    destruct (i_multi im) eqn:M.
    + rewrite <- EM in A. cbn in A. apply list_eqb_nat_eq in A. rewrite A. reflexivity.
    + rewrite Bool.orb_false_r in SH3. subst ph. reflexivity.
  - unfold new_dc. unfold SInv in *; cbn. rewrite I1, D1 in *.
    apply si_rebind_fresh; [reflexivity | exact H1].
Qed.

(* ---------- in-place phase expansion of a multi-phase receiver (MaterialIndexer._expand_phases) ---------- *)
Lemma map_id_on {A} (f : A -> A) (l : list A) d :
  (forall k, (k < length l)%nat -> f (nth k l d) = nth k l d) -> map f l = l.
Proof.
  induction l as [|x t IH]; intros H; cbn; auto.
  f_equal; [apply (H O); cbn; lia | apply IH; intros k Hk; apply (H (S k)); cbn; lia].
Qed.

Lemma map_is_upd {A} (f : A -> A) (l : list A) r d :
  (r < length l)%nat -> (forall k, (k < length l)%nat -> k <> r -> f (nth k l d) = nth k l d) ->
  map f l = upd l r (f (nth r l d)).
Proof.
  revert r; induction l as [|x t IH]; intros r Hr H; cbn in Hr; [lia|].
  destruct r as [|r]; cbn.
  - f_equal. apply (map_id_on f t d). intros k Hk. apply (H (S k)); cbn; lia.
  - f_equal; [apply (H O); cbn; lia|]. apply IH; [lia|]. intros k Hk N. apply (H (S k)); cbn; lia.
Qed.

(* P8: the indexer's data / phases change and its dict is cleared in place; no other indexer uses that dict *)
Lemma si_expand ob ims ds r im' :
  (r < length ims)%nat -> i_dc im' = i_dc (nth r ims d_imol) ->
  (forall k, (k < length ims)%nat -> k <> r -> i_dc (nth k ims d_imol) <> i_dc (nth r ims d_imol)) ->
  SInvG ob ims ds -> SInvG ob (upd ims r im') (upd ds (i_dc (nth r ims d_imol)) []).
Proof.
  intros Hr Hd HN [OW DW CA SH].
  assert (NU : forall k, nth k (upd ims r im') d_imol = if Nat.eqb r k then im' else nth k ims d_imol).
  { intros k. rewrite nth_upd. destruct (Nat.eqb r k); cbn [andb]; [|reflexivity].
    destruct (Nat.ltb_spec r (length ims)); [reflexivity | lia]. }
  split.
  - intros i Hi. rewrite upd_length. apply OW; exact Hi.
  - intros k Hk. rewrite upd_length in Hk. rewrite upd_length, NU.
    destruct (Nat.eqb_spec r k) as [<-|N]; [rewrite Hd|]; apply DW; assumption.
  - intros k Hk e He. rewrite upd_length in Hk. rewrite NU in He |- *.
    destruct (Nat.eqb_spec r k) as [<-|N].
    + rewrite Hd in He. rewrite nth_upd_same_ref in He by (apply DW; exact Hr). destruct He.
    + rewrite nth_upd_other_ref in He by (intros E; apply (HN k Hk (not_eq_sym N)); symmetry; exact E).
      apply CA; assumption.
  - intros k k' Hk Hk' E. rewrite upd_length in Hk, Hk'. rewrite !NU in *.
    destruct (Nat.eqb_spec r k) as [<-|N], (Nat.eqb_spec r k') as [<-|N']; auto.
    + rewrite Hd in E. exfalso. apply (HN k' Hk' (not_eq_sym N')). symmetry. exact E.
    + rewrite Hd in E. exfalso. apply (HN k Hk (not_eq_sym N)). exact E.
Qed.

Lemma expand_phases_sinv s ir others :
  SInv s -> (ir < length (imols s))%nat -> i_multi (imol_of s ir) = true ->
  (needs_expansion (imol_of s ir) others = true ->
   forallb (fun r => Nat.eqb r ir || negb (i_multi (imol_of s r) && Nat.eqb (i_data (imol_of s r)) (i_data (imol_of s ir))))
           (seq O (length (imols s))) = true) ->
  SInv (expand_phases s ir others).
Proof.
  intros H Hr M AD. unfold expand_phases.
  destruct (needs_expansion (imol_of s ir) others) eqn:NE; cbn [negb]; [|exact H].
  specialize (AD eq_refl). rewrite forallb_forall in AD.
  destruct (build_rows s _ _) as [s1 rs] eqn:E. apply build_rows_objs in E as (E1 & E2 & E3).
  set (im := imol_of s ir) in *. set (a := length (arrs s1)).
  (* under the side condition the re-pointing touches the receiver only *)
  assert (OTH : forall k, (k < length (imols s))%nat -> k <> ir ->
                (i_multi (nth k (imols s) d_imol) && Nat.eqb (i_data (nth k (imols s) d_imol)) (i_data im))%bool = false).
  { intros k Hk N. specialize (AD k ltac:(apply in_seq; lia)).
    destruct (Nat.eqb_spec k ir); [contradiction|]. cbn in AD. apply Bool.negb_true_iff in AD. exact AD. }
  assert (MAP : map (fun x => if (i_multi x && Nat.eqb (i_data x) (i_data im))%bool
                              then mkimol true a (i_ph x) (i_phases x) (i_dc x) else x) (imols s)
                = upd (imols s) ir (mkimol true a (i_ph im) (i_phases im) (i_dc im))).
  { rewrite (map_is_upd _ (imols s) ir d_imol Hr).
    - fold (imol_of s ir). fold im. rewrite M, Nat.eqb_refl. reflexivity.
    - intros k Hk N. rewrite (OTH k Hk N). reflexivity. }
  unfold new_arr. cbn [fst snd]. unfold SInv, imol_of.
  cbn [objs imols dcs set_dcs set_imols set_arrs wr_imol arrs]. fold a. rewrite E1, E2, E3, MAP.
  rewrite !nth_upd_same_ref by exact Hr. cbn [i_data i_ph i_dc].
  (* upd (upd ims ir x) ir y = upd ims ir y *)
  assert (UU : forall (l : list imol) n x y, upd (upd l n x) n y = upd l n y).
  { clear. induction l as [|h t IH]; intros [|n] x y; cbn; auto. f_equal. apply IH. }
  rewrite UU.
  replace (i_dc im) with (i_dc (nth ir (imols s) d_imol)) by reflexivity.
  apply si_expand; [exact Hr | reflexivity | | exact H].
  intros k Hk N E. pose proof (si_share _ _ _ H k ir Hk Hr E) as CK. unfold capkey in CK.
  fold (imol_of s ir) in CK. fold im in CK. rewrite M in CK.
  specialize (OTH k Hk N).
  destruct (i_multi (nth k (imols s) d_imol)); [|discriminate CK].
  injection CK as CD _. cbn in OTH. rewrite CD, Nat.eqb_refl in OTH. discriminate OTH.
Qed.

Lemma mixm_sinv s i srcs :
  SInv s -> (i < length (objs s))%nat -> is_multi s i = true -> adm_mix s i srcs = true -> SInv (mixm s i srcs).
Proof.
  intros H Hi M AD. unfold mixm.
  match goal with |- context [fold_left (fun st pr => wr_row st (@?g st pr) (@?h st pr)) ?l ?s0] =>
    destruct (fold_wr_row_objs g h l s0) as (A1 & A2 & A3) end.
  cbv zeta in A1, A2, A3. unfold SInv. rewrite A1, A2, A3.
  apply expand_phases_sinv; [exact H | apply SInv_owf; assumption | exact M |].
  intros NE. unfold adm_mix in AD. unfold is_multi in M. rewrite M in AD.
  unfold phases_of_src in *.
  replace (flat_map (fun r => if i_multi (imol_of s r) then i_phases (imol_of s r) else [phase_of s (imol_of s r)])
                    (map (fun j => o_imol (obj_of s j)) srcs))
    with (flat_map (fun j => if i_multi (imol_of s (o_imol (obj_of s j))) then i_phases (imol_of s (o_imol (obj_of s j)))
                             else [phase_of s (imol_of s (o_imol (obj_of s j)))]) srcs) in NE
    by (clear; induction srcs as [|x t IH]; cbn; [reflexivity | rewrite IH; reflexivity]).
  rewrite NE in AD. cbn in AD. exact AD.
Qed.

Lemma mix_flows_sinv s i srcs :
  SInv s -> (i < length (objs s))%nat -> adm_mix s i srcs = true -> SInv (mix_flows s i srcs).
Proof.
  intros H Hi AD. unfold mix_flows. destruct (is_multi s i) eqn:M.
  - apply mixm_sinv; assumption.
  - eapply same3_sinv; [apply mix_flows_1_same3 | exact H].
Qed.

Section Vol.
Variable calc1 : nat -> nat -> option phase -> vec -> Q -> Q -> option Q.
Variable calcx : nat -> nat -> list (phase * vec) -> Q -> Q -> option Q.
Variable shared_key : bool.
Variable cvol : nat -> phase -> Q -> Q -> Q.
Notation step := (step calc1 calcx shared_key cvol).
Notation run_world := (run_world calc1 calcx shared_key cvol).

Lemma lift_st w r : w_st (fst (lift w r)) = fst r.
Proof. reflexivity. Qed.

Lemma step_sinv w o :
  SInv (w_st w) -> aligned w -> adm (w_st w) o = true -> SInv (w_st (fst (step w o))).
Proof.
  intros H A AD. unfold Model.step.
  destruct (forallb (fun i => Nat.ltb i (length (cobjs (w_cs w)))) (op_objs o)) eqn:G; [|exact H].
  assert (GV : forall i, In i (op_objs o) -> (i < length (objs (w_st w)))%nat).
  { intros i Hi. rewrite forallb_forall in G. specialize (G i Hi). apply Nat.ltb_lt in G. unfold aligned in A. lia. }
  destruct w as [s c]. cbn [w_cs w_st] in *.
  destruct o; unfold step_valid; cbn [w_st w_cs]; rewrite ?lift_st.
  - (* ONew *)
    unfold new_tc.
    assert (E : forall sa, same3 s sa ->
       SInv (fst (let (sb, pr) := new_p sa (mkp (hd O ps) false) in new_imol sb (mkimol false (length (rows sa)) pr [])))).
    { intros sa (E1 & E2 & E3). unfold SInv; cbn. rewrite E2, E3. apply si_new_imol; [reflexivity|].
      rewrite E1. exact H. }
    match goal with |- context [let '(a, b) := ?x in _] => destruct x as [s2 ir] eqn:E2 end.
    assert (H2 : SInv s2 /\ (ir < length (imols s2))%nat /\ objs s2 = objs s).
    { destruct flows as [|d [|d2 t]].
      - cbn in E2. injection E2 as <- <-. unfold SInv; cbn. rewrite app_length; cbn.
        split; [apply si_new_imol; [reflexivity | exact H] | split; [lia | reflexivity]].
      - cbn in E2. injection E2 as <- <-. unfold SInv; cbn. rewrite app_length; cbn.
        split; [apply si_new_imol; [reflexivity | exact H] | split; [lia | reflexivity]].
      - destruct (new_rows _ (d :: d2 :: t)) as [sa rs] eqn:E3. apply new_rows_same3 in E3 as (F1 & F2 & F3).
        cbn in E2. injection E2 as <- <-. unfold SInv; cbn. cbn in F1, F2, F3. rewrite F1, F2, F3, app_length; cbn.
        split; [apply si_new_imol; [reflexivity | exact H] | split; [lia | reflexivity]]. }
    destruct H2 as (H2 & L2 & O2). unfold new_obj. cbn [fst w_st].
    unfold SInv in *; cbn. apply si_new_obj; [cbn; exact L2 | exact H2].
  - (* ORead *)
    destruct (get_property calc1 calcx (mkw s c) i name flow nophase) as [w1 r] eqn:E. cbn [fst].
    replace w1 with (fst (get_property calc1 calcx (mkw s c) i name flow nophase)) by (rewrite E; reflexivity).
    rewrite get_property_st. exact H.
  - (* ORVol *)
    unfold read_vol. pose proof (by_volume_sinv s i H (GV i ltac:(cbn; auto))) as U.
    destruct (by_volume s i) as [s1 e]. exact U.
  - exact H.
  - exact H.
  - apply set_phase_sinv, H.
  - eapply same3_sinv; [apply set_flow_same3 | exact H].
  - eapply same3_sinv; [apply scale_same3 | exact H].
  - eapply same3_sinv; [apply fmol_same3 | exact H].
  - eapply same3_sinv; [apply empty_same3 | exact H].
  - (* OProxy *) cbn [fst w_st]. apply st_proxy_sinv; [exact H | apply GV; cbn; auto].
  - cbn [fst w_st]. apply st_flow_proxy_sinv, H.
  - cbn [fst w_st]. apply st_copy_sinv, H.
  - (* OLink *)
    pose proof (link_with_sinv s i j fl ph tp H (GV i ltac:(cbn; auto)) (GV j ltac:(cbn; auto)) AD) as U.
    pose proof (link_nob s i j fl ph tp) as N.
    destruct (link_with s i j fl ph tp) as [s1 [e|]]; cbn [fst] in U, N |- *; [exact U|].
    destruct tp; cbn [fst w_st]; [|exact U].
    apply ensure_views_sinv; [exact U|]. unfold nob in N. rewrite N. apply GV; cbn; auto.
  - (* OUnlink *)
    pose proof (unlink_sinv s i H (GV i ltac:(cbn; auto))) as U.
    destruct (unlink s i) as [s1 [e|]]; exact U.
  - eapply same3_sinv; [apply copy_like_same3 | exact H].
  - exact H.
  - exact H.
  - eapply same3_sinv; [apply copy_phase_same3 | exact H].
  - (* OMix *)
    cbn [adm] in AD.
    match goal with |- context [mix_flows ?a ?b ?cc] =>
      assert (H2 : SInv (mix_flows a b cc)) by (apply mix_flows_sinv; [exact H | apply GV; cbn; auto | exact AD]);
      set (s2 := mix_flows a b cc) in * end.
    destruct energy; cbn [negb]; [|exact H2].
    pose proof (read_all_st calc1 calcx srcs (mkw s c)) as ES.
    destruct (read_all calc1 calcx (mkw s c) srcs) as [w1 allok]. cbn [fst w_st] in ES.
    destruct allok; cbn [negb]; [rewrite lift_st; exact H2 | cbn [fst]; rewrite ES; exact H].
  - (* OMix1 *) cbn [fst w_st adm] in *. apply mix_flows_sinv; [exact H | apply GV; cbn; auto | exact AD].
  - (* OView *)
    destruct (i_multi _); [|destruct (Nat.eqb _ _); exact H].
    destruct (negb _); [exact H|]. destruct (find_view _ _); [exact H|]. destruct (index_of _ _); [|exact H].
    destruct (nth_error _ _) as [rr|]; [|exact H].
    cbn [new_imol new_obj fst w_st]. unfold SInv; cbn.
    pose proof (SInv_owf s i H (GV i ltac:(cbn; auto))) as OI.
    apply si_wr_obj; [intros _; cbn; rewrite app_length; cbn; lia|].
    apply si_new_obj; [cbn; rewrite app_length; cbn; lia|].
    apply si_new_imol; [reflexivity | exact H].
  - (* OSetPhases *)
    destruct ps as [|p [|p2 ps]]; try (rewrite ?lift_st; apply set_phase_sinv, H);
    (destruct (i_multi _);
     [ match goal with |- context [if ?b then _ else _] => destruct b end; [exact H|];
       match goal with |- context [multi_rephase ?a1 ?a2 ?a3] =>
         pose proof (multi_rephase_sinv a1 a2 a3 H) as U; destruct (multi_rephase a1 a2 a3) as [s1 [e|]] end; exact U
     | cbn [fst w_st]; apply single_to_multi_sinv, H ]).
  - (* OResetCache *) cbn [fst w_st]. apply ensure_views_sinv; [exact H | apply GV; cbn; auto].
  - (* OSetPkg *)
    cbn [fst w_st]. pose proof (GV i ltac:(cbn; auto)) as Hi.
    apply reset_chem_sinv; [apply ensure_views_sinv; assumption|].
    pose proof (ensure_views_nob s i) as U. unfold nob in U. lia.
  - exact H.
  - (* OSetHS *) destruct (_ && _)%bool; exact H.
Qed.

Lemma find_dc_spec t l e : find_dc t l = Some e -> In e l /\ d_tc e = t.
Proof.
  induction l as [|x r IH]; cbn; [discriminate|].
  destruct (Nat.eqb_spec (d_tc x) t) as [E|N].
  - intros H; injection H as <-. auto.
  - intros H. destruct (IH H). auto.
Qed.

Lemma dcent_eq e e' : d_tc e = d_tc e' -> ekey e = ekey e' -> e = e'.
Proof. destruct e, e'; unfold ekey; cbn. intros -> H. injection H as -> -> ->. reflexivity. Qed.

Lemma capture_tc tc im : d_tc (capture tc im) = tc.
Proof. unfold capture. destruct (i_multi im); reflexivity. Qed.

(* a volumetric read returns what a view built now, on the stream's current data, phase and T/P, returns *)
Lemma read_vol_spec s i :
  SInv s -> (i < length (objs s))%nat -> snd (read_vol cvol s i) = spec_vol cvol s i.
Proof.
  intros H Hi. unfold read_vol, spec_vol, by_volume.
  pose proof (SInv_owf s i H Hi) as OI.
  destruct (find_dc _ _) as [e|] eqn:F; cbn [snd].
  - apply find_dc_spec in F as [IN TC].
    assert (E : e = capture (o_tc (obj_of s i)) (imol_of s (o_imol (obj_of s i)))).
    { apply dcent_eq; [rewrite capture_tc; exact TC|]. rewrite ekey_capture.
      apply (si_cap _ _ _ H (o_imol (obj_of s i)) OI e IN). }
    rewrite E. reflexivity.
  - reflexivity.
Qed.

Lemma run_sinv ops w :
  SInv (w_st w) -> aligned w -> run_adm calc1 calcx shared_key cvol w ops = true ->
  SInv (w_st (run_world w ops)) /\ aligned (run_world w ops).
Proof.
  revert w; induction ops as [|o t IH]; intros w H A R; [split; assumption|].
  cbn [run_adm] in R. apply Bool.andb_true_iff in R as [R1 R2].
  rewrite run_world_cons. apply IH; [apply step_sinv; assumption | apply step_aligned; exact A | exact R2].
Qed.

Lemma vol_fresh ops i :
  run_adm calc1 calcx shared_key cvol w0 ops = true ->
  (i < length (cobjs (w_cs (run_world w0 ops))))%nat ->
  snd (read_vol cvol (w_st (run_world w0 ops)) i) = spec_vol cvol (w_st (run_world w0 ops)) i.
Proof.
  intros R Hi. destruct (run_sinv ops w0 SInv_st0 eq_refl R) as [H A].
  apply read_vol_spec; [exact H | unfold aligned in A; lia].
Qed.

Lemma vol_op_fresh ops i :
  run_adm calc1 calcx shared_key cvol w0 ops = true ->
  (i < length (cobjs (w_cs (run_world w0 ops))))%nat ->
  snd (step (run_world w0 ops) (ORVol i)) = BVec (spec_vol cvol (w_st (run_world w0 ops)) i).
Proof.
  intros R Hi. unfold Model.step. cbn [op_objs forallb]. rewrite Bool.andb_true_r.
  destruct (Nat.ltb_spec i (length (cobjs (w_cs (run_world w0 ops))))) as [L|G]; [|lia].
  unfold step_valid. pose proof (vol_fresh ops i R Hi) as V.
  destruct (read_vol cvol (w_st (run_world w0 ops)) i) as [s1 v]. cbn [snd] in *. rewrite V. reflexivity.
Qed.
End Vol.
(* the volumetric specification is a function of (class, phases, flows, T, P) only *)
Definition vol_of_pstate (cvol : nat -> phase -> Q -> Q -> Q) (p : pstate) : vec :=
  let conv (q : phase) (r : vec) := map2 (fun j x => x * (1000 * cvol j q (ps_T p) (ps_P p))) (seq O nchem) r in
  vsum_rows (if ps_multi p then map (fun rp => conv (snd rp) (fst rp)) (combine (ps_rows p) (ps_phases p))
             else [conv (hd O (ps_phases p)) (hd [] (ps_rows p))]).

Lemma map_combine_map {A B C D} (g : A -> B) (f : B * C -> D) (l : list A) (l2 : list C) :
  map f (combine (map g l) l2) = map (fun rp => f (g (fst rp), snd rp)) (combine l l2).
Proof.
  revert l2; induction l as [|a l IH]; intros [|c l2]; cbn; auto. rewrite IH. reflexivity.
Qed.

Lemma spec_vol_pstate cvol s i : spec_vol cvol s i = vol_of_pstate cvol (pstate_of s i).
Proof.
  unfold spec_vol, vol_of_pstate, pstate_of, view_rows, capture, data_rows, phase_of.
  destruct (i_multi (imol_of s (o_imol (obj_of s i)))) eqn:M; cbn [d_ph d_data d_phases d_tc ps_multi ps_rows ps_phases ps_T ps_P hd].
  - f_equal. rewrite map_combine_map. reflexivity.
  - reflexivity.
Qed.
(* ---------- a freshly constructed MultiStream is in the state it was constructed with ---------- *)
Lemma new_rows_spec vs s s' rs :
  new_rows s vs = (s', rs) ->
  rows s' = rows s ++ vs /\ rs = seq (length (rows s)) (length vs) /\
  arrs s' = arrs s /\ phs s' = phs s /\ tcs s' = tcs s /\ imols s' = imols s /\ objs s' = objs s /\ dcs s' = dcs s.
Proof.
  revert s s' rs; induction vs as [|v t IH]; intros s s' rs H; cbn in H.
  - injection H as <- <-. rewrite app_nil_r. repeat split.
  - destruct (new_rows (set_rows s (rows s ++ [v])) t) as [s2 rs2] eqn:E.
    injection H as <- <-. apply IH in E as (R & S & A & P & T & I & O & D). cbn in *.
    rewrite R, <- app_assoc. cbn. rewrite S, app_length. cbn. rewrite Nat.add_1_r.
    repeat split; assumption.
Qed.

Lemma map_nth_seq_app {A} (l vs : list A) d :
  map (fun r => nth r (l ++ vs) d) (seq (length l) (length vs)) = vs.
Proof.
  revert l; induction vs as [|v t IH]; intros l; cbn; auto.
  rewrite app_nth2 by lia. rewrite Nat.sub_diag. cbn. f_equal.
  replace (l ++ v :: t) with ((l ++ [v]) ++ t) by (rewrite <- app_assoc; reflexivity).
  replace (S (length l)) with (length (l ++ [v])) by (rewrite app_length; cbn; lia).
  apply IH.
Qed.

Lemma new_multistream_pstate calc1 calcx sk cv w flows ps T P pkg :
  length flows <> 1%nat ->
  let w' := fst (step calc1 calcx sk cv w (ONew flows ps T P pkg)) in
  pstate_of (w_st w') (length (objs (w_st w))) = mkps true ps flows T P /\
  (length (objs (w_st w)) = length (cobjs (w_cs w)) ->
   c_pkg (cobj_of (w_cs w') (length (objs (w_st w)))) = pkg /\
   length (objs (w_st w')) = length (cobjs (w_cs w'))).
Proof.
  intros NL. destruct w as [s c]. unfold step. cbn [op_objs forallb]. unfold step_valid. cbn [w_st w_cs].
  unfold new_tc.
  assert (G : forall sa rs, new_rows (set_tcs s (tcs s ++ [(T, P)])) flows = (sa, rs) ->
     let w' := fst (let (s2, ir) := (let (sb, a) := new_arr sa rs in new_imol sb (mkimol true a O ps)) in
                    let (s3, n) := new_obj s2 (mkobj ir (length (tcs s)) [] true) in
                    (mkw s3 (new_cobj_fresh c pkg), BIdx n)) in
     pstate_of (w_st w') (length (objs s)) = mkps true ps flows T P /\
     (length (objs s) = length (cobjs c) ->
      c_pkg (cobj_of (w_cs w') (length (objs s))) = pkg /\ length (objs (w_st w')) = length (cobjs (w_cs w')))).
  { intros sa rs E. apply new_rows_spec in E as (R & S & A & PH & TC & I & O & D). cbn in R, A, PH, TC, I, O, D.
    unfold new_arr, new_imol, new_obj. cbn [fst snd w_st w_cs]. split.
    - unfold pstate_of, obj_of, imol_of, tc_of, data_rows, arr, row. cbn. rewrite O, I, A, TC, R.
      rewrite !nth_app_new. cbn. rewrite !nth_app_new. cbn. rewrite !nth_app_new.
      f_equal. rewrite S. apply map_nth_seq_app.
    - intros EL. split.
      + unfold new_cobj_fresh, cobj_of. cbn. rewrite EL, nth_app_new. reflexivity.
      + unfold new_cobj_fresh. cbn. rewrite O, !app_length. cbn. lia. }
  destruct flows as [|d [|d2 t]]; [| exfalso; apply NL; reflexivity |].
  - apply (G _ _ eq_refl).
  - destruct (new_rows (set_tcs s (tcs s ++ [(T, P)])) (d :: d2 :: t)) as [sa rs] eqn:E.
    apply (G sa rs eq_refl).
Qed.

(* the constructor call that re-creates a state *)
Definition new_op_of (p : pstate) (pkg : nat) : op := ONew (ps_rows p) (ps_phases p) (ps_T p) (ps_P p) pkg.

Lemma new_op_of_pstate calc1 calcx sk cv w p pkg :
  (ps_multi p = true -> length (ps_rows p) <> 1%nat) ->
  (ps_multi p = false -> exists d q, ps_rows p = [d] /\ ps_phases p = [q]) ->
  let w' := fst (step calc1 calcx sk cv w (new_op_of p pkg)) in
  pstate_of (w_st w') (length (objs (w_st w))) = p /\
  (length (objs (w_st w)) = length (cobjs (w_cs w)) ->
   c_pkg (cobj_of (w_cs w') (length (objs (w_st w)))) = pkg /\
   length (objs (w_st w')) = length (cobjs (w_cs w'))).
Proof.
  intros HM HS. destruct p as [m phs rws T P]. unfold new_op_of. cbn [ps_rows ps_phases ps_T ps_P ps_multi] in *.
  destruct m.
  - apply new_multistream_pstate. apply HM. reflexivity.
  - destruct (HS eq_refl) as (d & q & -> & ->). apply new_stream_pstate.
Qed.

Lemma pstate_single s i : ps_multi (pstate_of s i) = false ->
  exists d q, ps_rows (pstate_of s i) = [d] /\ ps_phases (pstate_of s i) = [q].
Proof.
  unfold pstate_of, data_rows. cbn. intros M. rewrite M. eexists; eexists; split; reflexivity.
Qed.

Lemma equals_fresh_stream_any calc1 calcx cv :
  calc1_respects calc1 -> calcx_respects calcx ->
  forall ops i name flow nophase,
    let w' := run_world calc1 calcx true cv w0 ops in
    (i < length (cobjs (w_cs w')))%nat ->
    let p := pstate_of (w_st w') i in
    (ps_multi p = true -> length (ps_rows p) <> 1%nat) ->
    let wn := fst (step calc1 calcx true cv w' (new_op_of p (c_pkg (cobj_of (w_cs w') i)))) in
    rd_equiv (snd (get_property calc1 calcx w' i name flow nophase))
             (snd (get_property calc1 calcx wn (length (objs (w_st w'))) name flow nophase)).
Proof.
  intros H1 Hx ops i name flow nophase w' Hi p HM wn.
  assert (A : aligned w') by (apply run_aligned; reflexivity).
  assert (I' : Inv calc1 calcx (w_cs w')) by exact (run_inv calc1 calcx true H1 Hx cv ops w0 (or_introl eq_refl) (Inv_cs0 calc1 calcx)).
  pose proof (new_op_of_pstate calc1 calcx true cv w' p (c_pkg (cobj_of (w_cs w') i)) HM (pstate_single _ _)) as [NP NA].
  destruct (NA A) as [NK NL]. fold wn in NP, NK, NL.
  assert (In' : Inv calc1 calcx (w_cs wn)).
  { unfold wn, new_op_of. rewrite step_new_cs. apply new_cobj_fresh_inv. exact I'. }
  assert (Hn : (length (objs (w_st w')) < nobj (w_cs wn))%nat).
  { unfold nobj, wn, new_op_of. rewrite step_new_cs. unfold new_cobj_fresh; cbn. rewrite app_length; cbn.
    unfold aligned in A. lia. }
  eapply rd_equiv_trans; [apply (get_property_spec calc1 calcx H1 Hx w' i); [exact I' | exact Hi]|].
  apply rd_equiv_sym.
  eapply rd_equiv_trans; [apply (get_property_spec calc1 calcx H1 Hx wn _); [exact In' | exact Hn]|].
  rewrite (spec_read_pstate calc1 calcx wn (length (objs (w_st w'))) w' i); [apply rd_equiv_refl| |exact NK].
  exact NP.
Qed.

(* ---------- operations that only edit flows / T / P / phase never touch a memo or a key ---------- *)
Definition state_only (o : op) : bool :=
  match o with
  | OSetT _ _ | OSetP _ _ | OSetPhase _ _ | OSetFlow _ _ _ _ | OScale _ _ | OFmol _ _ | OEmpty _
  | OCopyLike _ _ | OCopyFlow _ _ | OCopyTC _ _ | OCopyPhase _ _ | OMix1 _ _ | OSetHS _ _ _ | ORVol _ | ONop => true
  | OLink _ _ _ _ tp => negb tp
  | OMix _ _ energy _ => negb energy
  | _ => false
  end.

Lemma state_only_keeps_cache calc1 calcx sk cv w o :
  state_only o = true -> w_cs (fst (step calc1 calcx sk cv w o)) = w_cs w.
Proof.
  intros SO. unfold step. destruct (forallb _ _); [|reflexivity].
  destruct w as [s c]. destruct o; try discriminate SO; unfold step_valid; cbn [w_st w_cs]; try reflexivity.
  - destruct (read_vol cv s i) as [s1 v]. reflexivity.
  - cbn in SO. apply Bool.negb_true_iff in SO. subst tp.
    destruct (link_with s i j fl ph false) as [s1 [e|]]; reflexivity.
  - cbn in SO. apply Bool.negb_true_iff in SO. subst energy. reflexivity.
Qed.
