(* C02 -- deepening round: (2) exact read-back statements without the non-empty hypothesis,
   (1) totality of mixing with the phase-set expansion of MaterialIndexer.copy_like between MultiStreams. *)
From Coq Require Import Sorted.
From V Require Import Common.NumFacts C02.Model C02.ModelX C02.Proofs.
Open Scope Q_scope.

(* ------------------------------------------------------------------ (2) what an assignment leaves, exactly *)
(* a successful assignment of a flow property: the value read back is the assigned one, or 0 when the stream has no
   net flow (Stream.H of such a stream is 0 whatever its temperature) *)
Lemma set_with_readback_exact f solve s x s' :
  homog f -> solve_spec f solve ->
  set_with solve pm s x = (s', None) ->
  prop_flow f s' == (if qzerob (total s') then 0 else x).
Proof.
  intros Hh Hs H. destruct (qzerob (total s')) eqn:Z.
  - apply prop_flow_zero. now apply qzerob_true.
  - apply (set_with_roundtrip f solve s x s' Hh Hs H). now apply qzerob_false.
Qed.

Lemma set_with_readback_iff f solve s x s' :
  homog f -> solve_spec f solve ->
  set_with solve pm s x = (s', None) ->
  (prop_flow f s' == x <-> (~ total s == 0 \/ x == 0)).
Proof.
  intros Hh Hs H. pose proof (set_with_shape _ _ _ _ _ _ H) as Sh. pose proof (same_total _ _ Sh) as ET.
  pose proof (set_with_readback_exact f solve s x s' Hh Hs H) as E. rewrite ET in E.
  destruct (qzerob (total s)) eqn:Z.
  - apply qzerob_true in Z. split.
    + intros R. right. rewrite <- R, E. reflexivity.
    + intros [N|X0]; [contradiction|]. rewrite E, X0. reflexivity.
  - apply qzerob_false in Z. split; [intros _; now left|intros _; exact E].
Qed.

(* the guard `if not H and self.isempty(): return`: an empty stream assigned 0 keeps its T, P, phase(s) *)
Lemma set_with_empty_noop solve arg s x :
  isempty s = true -> x == 0 -> set_with solve arg s x = (s, None).
Proof.
  intros E X0. unfold set_with. apply qzerob_true in X0. now rewrite X0, E.
Qed.

(* ... and an empty stream stays empty (T may move, P and the flows do not) under any assignment *)
Lemma set_with_empty_stays solve arg s x s' e :
  isempty s = true -> set_with solve arg s x = (s', e) -> isempty s' = true /\ sP s' = sP s /\ total s' == 0.
Proof.
  intros E H. destruct (set_with_shape _ _ _ _ _ _ H) as (_ & R & P & _).
  assert (E' : isempty s' = true).
  { unfold isempty, pm_any in *. apply negb_true_iff in E. apply negb_true_iff.
    rewrite <- E. clear -R. revert R. generalize (pm s) as m. induction (pm s') as [|a l IH]; intros [|b m] R; simpl in *; try discriminate; auto.
    injection R as R1 R2. rewrite R1, (IH m R2). reflexivity. }
  split; [exact E'|]. split; [exact P|]. now apply isempty_total.
Qed.

(* mixing: the balance without assuming a non-empty result *)
Lemma mix_energy_exact O st r others Q0 st' ins s' :
  contracts O -> Forall wfs st ->
  mix_from O st r others Q0 = Ok st' ->
  streams_of st others <> [] ->
  sget_all st (streams_of st others) = Ok ins ->
  sget st' r = Ok s' ->
  getH O s' == (if qzerob (total s') then 0 else qsum (map (getH O) ins) + (Q0 + heats others)).
Proof.
  intros C W H NE SA Sr. destruct (qzerob (total s')) eqn:Z.
  - apply prop_flow_zero. now apply qzerob_true.
  - apply (mix_energy_lemma O st r others Q0 st' ins s' C W H NE SA Sr). now apply qzerob_false.
Qed.

(* no non-empty inlet: the receiver is emptied, T and P kept, H = 0, whatever Q *)
Lemma mix_no_inlets O st r others Q0 st' self :
  mix_from O st r others Q0 = Ok st' -> streams_of st others = [] -> sget st r = Ok self ->
  sget st' r = Ok (empty self) /\ getH O (empty self) == 0 /\ sT (empty self) = sT self /\ sP (empty self) = sP self.
Proof.
  intros H SS Sr. unfold mix_from in H. rewrite SS, Sr in H. cbn [bind] in H. injection H as <-.
  split; [apply sget_upd_same'; eapply sget_lt; eauto|]. split; [|split; reflexivity].
  apply prop_flow_zero. unfold total, empty. cbn [pm]. clear. induction (pm self) as [|pv m IH]; [reflexivity|].
  rewrite map_cons, pm_total_cons. cbn [snd]. rewrite qsum_vzero, IH. lra.
Qed.

Lemma sep_energy_exact O st r o st' sr so s' :
  contracts O ->
  separate_out O st r o = Ok st' -> r <> o ->
  sget st r = Ok sr -> sget st o = Ok so -> sget st' r = Ok s' ->
  getH O s' == (if qzerob (total s') then 0 else getH O sr - getH O so).
Proof.
  intros C H Ne Sr So Sr'. destruct (qzerob (total s')) eqn:Z.
  - apply prop_flow_zero. now apply qzerob_true.
  - apply (sep_energy_lemma O st r o st' sr so s' C H Ne Sr So Sr'). now apply qzerob_false.
Qed.

(* ------------------------------------------------------------------ (1) MaterialIndexer.copy_like between MultiStreams of
   different phase sets (indexer.py, same chemicals):
       if phase_indexer is other_phase_indexer: self.data.copy_like(other.data)
       else:
           if not phase_indexer.compatible_with(other_phase_indexer):
               self._expand_phases(other._phases); phase_indexer = self._phase_indexer
           self.empty()
           for i, j in other: data[phase_indexer(i)] = j
   followed by the copy of T and P (MultiStream.copy_like).  Model.v stops at this branch with an error; here it is. *)
(* the definitions (compat, place_rows, copy_like_mm, copy_like_x, mix_from_x) are in ModelX.v, where the
   correspondence executes them *)
(* the extended copy never raises ... *)
Lemma copy_like_x_total self other same : exists s1, copy_like_x self other same = Ok s1.
Proof.
  unfold copy_like_x. destruct (multi self) eqn:Ms; cbn [andb].
  - destruct same; cbn [negb andb].
    + unfold copy_like. rewrite Ms. eexists; reflexivity.
    + destruct (multi other) eqn:Mo; [eexists; reflexivity|].
      unfold copy_like. rewrite Ms, Mo. eexists; reflexivity.
  - unfold copy_like. rewrite Ms. destruct (multi other).
    + destruct (pm other) as [|pv [|? ?]]; eexists; reflexivity.
    + destruct same; eexists; reflexivity.
Qed.

(* ... and agrees with Model.copy_like wherever that one answers *)
Lemma copy_like_x_refines self other same s1 :
  copy_like self other same = Ok s1 -> copy_like_x self other same = Ok s1.
Proof.
  unfold copy_like_x. destruct (multi self) eqn:Ms; cbn [andb]; auto.
  destruct same; cbn [negb andb]; auto.
  destruct (multi other) eqn:Mo; auto.
  unfold copy_like, copy_like_mm. rewrite Ms, Mo.
  destruct (list_eqb Nat.eqb (phases self) (phases other)); [auto|discriminate].
Qed.

(* the only way Model.copy_like fails is that branch *)
Lemma copy_like_err_only_mm self other same e :
  copy_like self other same = Err e ->
  multi self = true /\ same = false /\ multi other = true /\ list_eqb Nat.eqb (phases self) (phases other) = false.
Proof.
  unfold copy_like. destruct (multi self); [|destruct (multi other); [destruct (pm other) as [|pv [|? ?]]|destruct same]; discriminate].
  destruct same; [discriminate|]. destruct (multi other); [|discriminate].
  destruct (list_eqb Nat.eqb (phases self) (phases other)); [discriminate|]. auto.
Qed.

Lemma mix_from_x_refines O st r others Q0 st' :
  mix_from O st r others Q0 = Ok st' -> mix_from_x O st r others Q0 = Ok st'.
Proof.
  unfold mix_from_x. destruct (streams_of st others) as [|i [|j l]] eqn:SS; auto.
  unfold mix_from. rewrite SS. unfold bind.
  destruct (sget st r) as [self|]; [|discriminate]. destruct (sget st i) as [o|]; [|discriminate].
  destruct (copy_like self o (r =? i)%nat) as [s1|] eqn:CL; [|discriminate].
  rewrite (copy_like_x_refines _ _ _ _ CL). auto.
Qed.

(* a solver call that raised *)
Definition solver_failed (O : oracles) : Prop := exists m x Tg P e, solveH O m x Tg P = Err e.

Lemma setH_err_is_solver O s x s' e : setH O s x = (s', Some e) -> solver_failed O.
Proof.
  unfold setH, set_with, solve_into. destruct (qzerob x && isempty s); [discriminate|].
  destruct (multi s).
  - destruct (solveH O (pm s) x (sT s) (sP s)) eqn:S; [discriminate|]. intros _. now exists (pm s), x, (sT s), (sP s), e0.
  - destruct (solveH O (pm s) x (sT s) (sP s)) eqn:S; [discriminate|]. intros _. now exists (pm s), x, (sT s), (sP s), e0.
Qed.

(* every way mix_from (extended) can raise starts with the temperature solver raising: with one non-empty inlet the
   solver's exception is what comes out; with several, the convert-to-multi-phase fallback runs only after it *)
Lemma mix_x_error_needs_solver_failure O st r others Q0 self e :
  sget st r = Ok self -> mix_from_x O st r others Q0 = Err e -> solver_failed O.
Proof.
  intros Sr H. unfold mix_from_x in H.
  pose proof (streams_of_valid st others) as V. pose proof (sget_lt _ _ _ Sr) as Lr.
  destruct (streams_of st others) as [|i [|j l]] eqn:SS.
  - unfold mix_from in H. rewrite SS, Sr in H. discriminate.
  - rewrite Sr in H. cbn [bind] in H.
    destruct (sget_all_valid _ _ V) as (ins & E & _). simpl in E. unfold bind in E.
    destruct (sget st i) as [o|] eqn:So; [|discriminate]. cbn [bind] in H.
    destruct (copy_like_x_total self o (r =? i)%nat) as [s1 CL]. rewrite CL in H. cbn [bind] in H.
    destruct (qzerob (heat_of others Q0)); [discriminate|].
    destruct (setH O s1 (getH O s1 + heat_of others Q0)) as [sa [ea|]] eqn:SH; [|discriminate].
    eapply setH_err_is_solver; eauto.
  - unfold mix_from in H. rewrite SS, Sr in H. cbn [bind] in H.
    destruct (sget_all_valid _ _ V) as (ins & E & L). rewrite E in H. cbn [bind] in H.
    destruct ins as [|s0 ins0]; [discriminate|]. cbn [minP bind] in H.
    rewrite (sget_upd_same' st r _ Lr) in H. cbn [bind] in H.
    destruct (sget_all_valid _ _ (valid_upd st _ r (set_P self (fold_left qmin (map sP ins0) (sP s0))) V)) as (ins1 & E1 & _).
    rewrite E1 in H. cbn [bind] in H.
    assert (IM : forall a b, exists s2, imol_mix a b = Ok s2)
      by (intros a b; unfold imol_mix; destruct (multi a); eexists; reflexivity).
    destruct (IM (set_P self (fold_left qmin (map sP ins0) (sP s0))) ins1) as [s2 E2]. rewrite E2 in H. cbn [bind] in H.
    destruct (setH O s2 (sum_H O (s0 :: ins0) (heat_of others Q0))) as [sa [ea|]] eqn:SH; [|discriminate].
    eapply setH_err_is_solver; eauto.
Qed.

(* hence: when the solver always answers, mixing (with the complete copy_like) always succeeds -- no side condition *)
Lemma mix_x_total O st r others Q0 self :
  solver_total O -> sget st r = Ok self -> exists st', mix_from_x O st r others Q0 = Ok st'.
Proof.
  intros Tot Sr. destruct (mix_from_x O st r others Q0) as [st'|e] eqn:H; [now exists st'|].
  exfalso. destruct (mix_x_error_needs_solver_failure O st r others Q0 self e Sr H) as (m & x & Tg & P & e' & F).
  destruct (Tot m x Tg P) as [T' E]. congruence.
Qed.

(* ------------------------------------------------------------------ the copied MultiStream has the source's enthalpy *)
Lemma qsum_map_ext {A} (a b : A -> Q) l : (forall x, In x l -> a x == b x) -> qsum (map a l) == qsum (map b l).
Proof.
  induction l as [|x l IH]; intros E; [reflexivity|].
  rewrite !map_cons, !qsum_cons, (E x (or_introl eq_refl)), IH; [reflexivity|].
  intros y Iy. apply E. now right.
Qed.
Lemma qsum_map_plus {A} (a b : A -> Q) l : qsum (map (fun x => a x + b x) l) == qsum (map a l) + qsum (map b l).
Proof. induction l as [|x l IH]; [simpl; lra|]. rewrite !map_cons, !qsum_cons, IH. lra. Qed.
Lemma qsum_app a b : qsum (a ++ b) == qsum a + qsum b.
Proof. induction a as [|x a IH]; [simpl; lra|]. rewrite <- app_comm_cons, !qsum_cons, IH. lra. Qed.
Lemma qsum_rev a : qsum (rev a) == qsum a.
Proof. induction a as [|x a IH]; [reflexivity|]. simpl rev. rewrite qsum_app, IH, qsum_cons. simpl. lra. Qed.

Section Placed.
  Variable G : phase -> vec -> Q.
  Variable n : nat.
  Variable tg : phase * vec -> phase.
  Hypothesis Gz : forall q, G q (vzero n) == 0.

  Definition found (l : pmol) (q : phase) : vec :=
    match find (fun pv => (tg pv =? q)%nat) l with Some pv => snd pv | None => vzero n end.

  Lemma found_absent l q : ~ In q (map tg l) -> found l q = vzero n.
  Proof.
    unfold found. induction l as [|pv l IH]; intros NI; [reflexivity|].
    simpl. destruct (tg pv =? q)%nat eqn:E.
    - apply Nat.eqb_eq in E. exfalso. apply NI. simpl. now left.
    - apply IH. intros I. apply NI. simpl. now right.
  Qed.

  Lemma sum_found ps l :
    NoDup ps -> NoDup (map tg l) -> (forall pv, In pv l -> In (tg pv) ps) ->
    qsum (map (fun q => G q (found l q)) ps) == qsum (map (fun pv => G (tg pv) (snd pv)) l).
  Proof.
    intros NDp. induction l as [|pv l IH]; intros NDl Hin.
    - simpl map at 2. rewrite (qsum_map_ext _ (fun _ => 0)).
      + clear. induction ps as [|q ps IH]; [reflexivity|]. rewrite map_cons, qsum_cons, IH. lra.
      + intros q _. unfold found. simpl. apply Gz.
    - simpl in NDl. inversion NDl as [|x y NI NDl']; subst.
      rewrite map_cons, qsum_cons, <- IH; auto; [|intros pv0 I0; apply Hin; now right].
      rewrite (qsum_map_ext _ (fun q => (if (q =? tg pv)%nat then G (tg pv) (snd pv) else 0) + G q (found l q))).
      + rewrite qsum_map_plus, (qsum_indicator ps (tg pv) (G (tg pv) (snd pv)) NDp (Hin pv (or_introl eq_refl))). reflexivity.
      + intros q _. unfold found at 1. simpl. rewrite Nat.eqb_sym.
        destruct (q =? tg pv)%nat eqn:E.
        * apply Nat.eqb_eq in E. subst q. rewrite (found_absent l (tg pv) NI), Gz. lra.
        * fold (found l q). lra.
  Qed.
End Placed.

Lemma xsum_map_rows f (r : phase -> vec) ps T P :
  xsum f (map (fun q => (q, r q)) ps) T P = qsum (map (fun q => f q (r q) T P) ps).
Proof. induction ps as [|q ps IH]; [reflexivity|]. rewrite !map_cons, xsum_cons, qsum_cons, IH. reflexivity. Qed.
Lemma pm_total_map_rows (r : phase -> vec) ps :
  pm_total (map (fun q => (q, r q)) ps) = qsum (map (fun q => qsum (r q)) ps).
Proof. induction ps as [|q ps IH]; [reflexivity|]. rewrite !map_cons, pm_total_cons, qsum_cons, IH. reflexivity. Qed.
Lemma xsum_as_qsum f m T P : xsum f m T P = qsum (map (fun pv => f (fst pv) (snd pv) T P) m).
Proof. induction m as [|pv m IH]; [reflexivity|]. rewrite map_cons, xsum_cons, qsum_cons, IH. reflexivity. Qed.
Lemma pm_total_as_qsum m : pm_total m = qsum (map (fun pv => qsum (snd pv)) m).
Proof. induction m as [|pv m IH]; [reflexivity|]. rewrite map_cons, pm_total_cons, qsum_cons, IH. reflexivity. Qed.

Lemma target_phase_cases ps p : target_phase ps p = p \/ target_phase ps p = swapcase p.
Proof. unfold target_phase. destruct (mem p ps); auto. Qed.

(* rows placed without collisions and without losses carry the same total flow and the same enthalpy *)
Lemma place_rows_reads O ps n o T P :
  contracts O -> NoDup ps ->
  NoDup (map (fun pv : phase * vec => target_phase ps (fst pv)) o) ->
  (forall pv, In pv o -> In (target_phase ps (fst pv)) ps) ->
  pm_total (place_rows ps n o) == pm_total o /\
  xsum (Hmix O) (place_rows ps n o) T P == xsum (Hmix O) o T P.
Proof.
  intros C NDp NDo Hin.
  set (tg := fun pv : phase * vec => target_phase ps (fst pv)).
  assert (NDr : NoDup (map tg (rev o))) by (rewrite map_rev; apply NoDup_rev; exact NDo).
  assert (Hr : forall pv, In pv (rev o) -> In (tg pv) ps) by (intros pv I; apply Hin; now apply in_rev).
  unfold place_rows. split.
  - rewrite (pm_total_map_rows (fun q => found n tg (rev o) q)).
    rewrite (sum_found (fun _ v => qsum v) n tg (fun _ => qsum_vzero n) ps (rev o) NDp NDr Hr).
    rewrite map_rev, qsum_rev, pm_total_as_qsum. reflexivity.
  - rewrite (xsum_map_rows (Hmix O) (fun q => found n tg (rev o) q)).
    rewrite (sum_found (fun q v => Hmix O q v T P) n tg (fun q => cH_zero _ C q n T P) ps (rev o) NDp NDr Hr).
    rewrite map_rev, qsum_rev, xsum_as_qsum. apply qsum_map_ext. intros pv _. unfold tg.
    destruct (target_phase_cases ps (fst pv)) as [-> | ->]; [reflexivity|apply (cH_case _ C)].
Qed.

Lemma mem_In p ps : In p ps -> mem p ps = true.
Proof. intros I. unfold mem. apply existsb_exists. exists p. split; [exact I|apply Nat.eqb_refl]. Qed.

(* in the "compatible" case ('l' <-> 'L', 's' <-> 'S' renamings) the rows must land on distinct existing rows; stated
   as a checkable side condition (it is not derived from compatible_with here) *)
Definition compat_placed (self o : stream) : Prop :=
  compat (phases self) (phases o) = true ->
  NoDup (map (target_phase (phases self)) (phases o)) /\
  (forall q, In q (phases o) -> In (target_phase (phases self) q) (phases self)).

Lemma copy_like_mm_reads O self o :
  contracts O -> wfs self -> wfs o -> compat_placed self o ->
  getH O (copy_like_mm self o) == getH O o /\ sP (copy_like_mm self o) = sP o /\ sT (copy_like_mm self o) = sT o.
Proof.
  intros C [_ NDs] [_ NDo] CP. unfold copy_like_mm.
  destruct (list_eqb Nat.eqb (phases self) (phases o)); [repeat split; reflexivity|].
  split; [|split; reflexivity].
  set (ps := if compat (phases self) (phases o) then phases self else phase_set (phases self ++ phases o)).
  assert (K : NoDup ps /\ NoDup (map (fun pv : phase * vec => target_phase ps (fst pv)) (pm o)) /\
              (forall pv, In pv (pm o) -> In (target_phase ps (fst pv)) ps)).
  { unfold ps. destruct (compat (phases self) (phases o)) eqn:CO.
    - destruct (CP CO) as [I1 I2]. split; [exact NDs|]. split.
      + unfold phases in I1. rewrite map_map in I1. exact I1.
      + intros pv Ipv. apply I2. unfold phases. now apply in_map.
    - destruct (phase_set_spec (phases self ++ phases o)) as [SS II].
      assert (Id : forall pv, In pv (pm o) -> target_phase (phase_set (phases self ++ phases o)) (fst pv) = fst pv).
      { intros pv Ipv. unfold target_phase. rewrite mem_In; [reflexivity|].
        apply II. apply in_or_app. right. unfold phases. now apply in_map. }
      split; [now apply sorted_NoDup|]. split.
      + rewrite (map_ext_in _ fst); [exact NDo|]. exact Id.
      + intros pv Ipv. rewrite (Id pv Ipv). apply II. apply in_or_app. right. unfold phases. now apply in_map. }
  destruct K as (K1 & K2 & K3).
  destruct (place_rows_reads O ps (ncomp self) (pm o) (sT o) (sP o) C K1 K2 K3) as [Pt Px].
  apply prop_flow_eq_of; [apply (cH_homog _ C)|exact Pt|exact Px].
Qed.

(* copy_like_x keeps what H and P depend on, whichever branch runs *)
Lemma copy_like_x_reads O self o same s1 :
  contracts O -> wfs self -> wfs o -> compat_placed self o -> (same = true -> self = o) ->
  copy_like_x self o same = Ok s1 -> getH O s1 == getH O o /\ sP s1 = sP o.
Proof.
  intros C Ws Wo CP Same H. unfold copy_like_x in H.
  destruct (multi self && negb same && multi o) eqn:B.
  - injection H as <-. destruct (copy_like_mm_reads O self o C Ws Wo CP) as (A1 & A2 & _). now split.
  - now apply (copy_like_reads O self o same s1 C Ws Wo Same).
Qed.

(* the energy balance of the extended mixing: as C02_mix_energy, now also through the expansion branch *)
Lemma mix_x_energy O st r others Q0 st' ins s' :
  contracts O -> Forall wfs st ->
  (forall i self o, streams_of st others = [i] -> sget st r = Ok self -> sget st i = Ok o -> compat_placed self o) ->
  mix_from_x O st r others Q0 = Ok st' ->
  streams_of st others <> [] ->
  sget_all st (streams_of st others) = Ok ins ->
  sget st' r = Ok s' ->
  getH O s' == (if qzerob (total s') then 0 else qsum (map (getH O) ins) + (Q0 + heats others)).
Proof.
  intros C W CP H NE SA Sr'.
  destruct (qzerob (total s')) eqn:Z; [apply prop_flow_zero; now apply qzerob_true|].
  apply qzerob_false in Z.
  unfold mix_from_x in H. destruct (streams_of st others) as [|i [|j l]] eqn:SS;
    try (rewrite <- SS in *; now apply (mix_energy_lemma O st r others Q0 st' ins s' C W H)).
  unfold bind in H. destruct (sget st r) as [self|] eqn:Sr; [|discriminate].
  destruct (sget st i) as [o|] eqn:So; [|discriminate].
  destruct (copy_like_x self o (r =? i)%nat) as [s1|] eqn:CL; [|discriminate].
  destruct (sget_all_one _ _ _ SA) as (o' & So' & ->). assert (o' = o) by congruence. subst o'.
  assert (Same : (r =? i)%nat = true -> self = o) by (intros Eq; apply Nat.eqb_eq in Eq; subst i; congruence).
  destruct (copy_like_x_reads O self o _ s1 C (sget_wfs _ _ _ W Sr) (sget_wfs _ _ _ W So) (CP i self o eq_refl eq_refl So) Same CL) as [HH _].
  pose proof (sget_lt _ _ _ Sr) as Lr.
  destruct (qzerob (heat_of others Q0)) eqn:ZQ.
  - injection H as <-. rewrite sget_upd_same' in Sr' by exact Lr. injection Sr' as <-.
    apply qzerob_true in ZQ. rewrite heat_of_heats in ZQ. rewrite HH. simpl. lra.
  - destruct (setH O s1 (getH O s1 + heat_of others Q0)) as [sa [ea|]] eqn:SH; [discriminate|].
    injection H as <-. rewrite sget_upd_same' in Sr' by exact Lr. injection Sr' as <-.
    unfold getH at 1.
    rewrite (set_with_roundtrip (Hmix O) (solveH O) _ _ _ (cH_homog _ C) (cH_spec _ C) SH Z).
    rewrite HH, heat_of_heats. simpl. lra.
Qed.

(* compatible_with does give every source phase a row (under its own name or the other-case one) *)
Lemma lowerp_eq a q : lowerp a = lowerp q -> a = q \/ a = swapcase q.
Proof.
  destruct a as [|[|[|[|[|[|a]]]]]]; destruct q as [|[|[|[|[|[|q]]]]]]; simpl; intros H; try discriminate; auto; try lia.
Qed.

Lemma compat_In ps qs q :
  compat ps qs = true -> In q qs -> exists a, In a ps /\ lowerp a = lowerp q.
Proof.
  unfold compat. revert qs. induction ps as [|a ps IH]; intros [|b qs] H I; simpl in *; try discriminate; try contradiction.
  apply andb_true_iff in H. destruct H as [H1 H2]. apply Nat.eqb_eq in H1.
  destruct I as [<-|I].
  - exists a. split; [now left|exact H1].
  - destruct (IH qs H2 I) as (x & Ix & Ex). exists x. split; [now right|exact Ex].
Qed.

Lemma compat_target_In ps qs q : compat ps qs = true -> In q qs -> In (target_phase ps q) ps.
Proof.
  intros C I. destruct (compat_In ps qs q C I) as (a & Ia & Ea).
  unfold target_phase. destruct (mem q ps) eqn:M.
  - unfold mem in M. apply existsb_exists in M. destruct M as (x & Ix & Ex). apply Nat.eqb_eq in Ex. now subst.
  - destruct (lowerp_eq a q Ea) as [-> | ->]; [|exact Ia].
    exfalso. rewrite (mem_In q ps Ia) in M. discriminate.
Qed.

(* so the side condition reduces to: no two source phases land on the same row *)
Lemma compat_placed_of_inj self o :
  (compat (phases self) (phases o) = true -> NoDup (map (target_phase (phases self)) (phases o))) ->
  compat_placed self o.
Proof.
  intros Inj CO. split; [now apply Inj|]. intros q Iq. now apply (compat_target_In _ (phases o)).
Qed.

(* and it is vacuous for the expansion case, the subject of this round *)
Lemma compat_placed_expansion self o : compat (phases self) (phases o) = false -> compat_placed self o.
Proof. intros F CO. congruence. Qed.

(* ------------------------------------------------------------------ compatible_with never makes two source phases collide *)
Lemma NoDup_map_local {A B} (f : A -> B) l :
  NoDup l -> (forall x y, In x l -> In y l -> f x = f y -> x = y) -> NoDup (map f l).
Proof.
  induction l as [|a l IH]; intros ND Inj; [constructor|].
  inversion ND as [|x y NI ND']; subst. simpl. constructor.
  - intros I. apply in_map_iff in I. destruct I as (b & E & Ib).
    assert (b = a) by (apply Inj; simpl; auto). subst b. contradiction.
  - apply IH; auto. intros x y Ix Iy. apply Inj; simpl; auto.
Qed.

Lemma lowerp_swapcase q : lowerp (swapcase q) = lowerp q.
Proof. destruct q as [|[|[|[|[|[|q]]]]]]; reflexivity. Qed.

Lemma count_two (l : list nat) u su v :
  In u l -> In su l -> u <> su -> lowerp u = v -> lowerp su = v ->
  (2 <= count_occ Nat.eq_dec (map lowerp l) v)%nat.
Proof.
  induction l as [|a l IH]; intros Iu Is Ne Eu Es; [destruct Iu|].
  simpl. destruct Iu as [->|Iu], Is as [->|Is]; try congruence.
  - destruct (Nat.eq_dec (lowerp u) v); [|congruence].
    assert (1 <= count_occ Nat.eq_dec (map lowerp l) v)%nat.
    { apply count_occ_In. rewrite <- Es. now apply in_map. } lia.
  - destruct (Nat.eq_dec (lowerp su) v); [|congruence].
    assert (1 <= count_occ Nat.eq_dec (map lowerp l) v)%nat.
    { apply count_occ_In. rewrite <- Eu. now apply in_map. } lia.
  - specialize (IH Iu Is Ne Eu Es). destruct (Nat.eq_dec (lowerp a) v); lia.
Qed.

Lemma two_of_count (l : list nat) v :
  (2 <= count_occ Nat.eq_dec (map lowerp l) v)%nat ->
  exists a b, In a l /\ In b l /\ (NoDup l -> a <> b) /\ lowerp a = v /\ lowerp b = v.
Proof.
  induction l as [|a l IH]; simpl; intros H; [lia|].
  destruct (Nat.eq_dec (lowerp a) v) as [E|E].
  - assert (H1 : (1 <= count_occ Nat.eq_dec (map lowerp l) v)%nat) by lia.
    apply count_occ_In in H1. apply in_map_iff in H1. destruct H1 as (b & Eb & Ib).
    exists a, b. repeat split; auto.
    intros ND. inversion ND; subst. intros ->. contradiction.
  - destruct (IH H) as (x & y & Ix & Iy & Nxy & Ex & Ey). exists x, y. repeat split; auto.
    intros ND. inversion ND; subst. auto.
Qed.

Lemma compat_targets_NoDup ps qs :
  NoDup ps -> NoDup qs -> compat ps qs = true -> NoDup (map (target_phase ps) qs).
Proof.
  intros NDp NDq C. apply NoDup_map_local; [exact NDq|].
  intros q1 q2 I1 I2 E. destruct (Nat.eq_dec q1 q2) as [|Ne]; [assumption|exfalso].
  assert (LE : map lowerp ps = map lowerp qs) by (apply (list_eqb_eq Nat.eqb); [intros x y; apply Nat.eqb_eq|exact C]).
  assert (T : forall q, (mem q ps = true /\ target_phase ps q = q) \/ (mem q ps = false /\ target_phase ps q = swapcase q)).
  { intros q. unfold target_phase. destruct (mem q ps); auto. }
  assert (Lt : forall q, lowerp (target_phase ps q) = lowerp q).
  { intros q. destruct (T q) as [[_ ->]|[_ ->]]; [reflexivity|apply lowerp_swapcase]. }
  assert (EL : lowerp q1 = lowerp q2) by (rewrite <- (Lt q1), <- (Lt q2), E; reflexivity).
  (* both occur in qs with the same lower-case name: it occurs twice in ps as well *)
  pose proof (count_two qs q1 q2 (lowerp q1) I1 I2 Ne eq_refl (eq_sym EL)) as C2. rewrite <- LE in C2.
  destruct (two_of_count ps (lowerp q1) C2) as (a & b & Ia & Ib & Nab & Ea & Eb). specialize (Nab NDp).
  (* a and b are q1 and its other-case variant; hence both q1 and q2 are in ps and are their own targets *)
  assert (M : forall q, lowerp q = lowerp q1 -> In q qs -> mem q ps = true).
  { intros q Eq Iq. destruct (lowerp_eq a q (eq_trans Ea (eq_sym Eq))) as [->|Ha]; [now apply mem_In|].
    destruct (lowerp_eq b q (eq_trans Eb (eq_sym Eq))) as [->|Hb]; [now apply mem_In|]. congruence. }
  destruct (T q1) as [[_ T1]|[F1 _]]; [|rewrite (M q1 eq_refl I1) in F1; discriminate].
  destruct (T q2) as [[_ T2]|[F2 _]]; [|rewrite (M q2 (eq_sym EL) I2) in F2; discriminate].
  congruence.
Qed.

Lemma compat_placed_always self o : wfs self -> wfs o -> compat_placed self o.
Proof.
  intros [_ NDs] [_ NDo]. apply compat_placed_of_inj. intros C. now apply compat_targets_NoDup.
Qed.

Lemma mix_x_energy_full O st r others Q0 st' ins s' :
  contracts O -> Forall wfs st ->
  mix_from_x O st r others Q0 = Ok st' ->
  streams_of st others <> [] ->
  sget_all st (streams_of st others) = Ok ins ->
  sget st' r = Ok s' ->
  getH O s' == (if qzerob (total s') then 0 else qsum (map (getH O) ins) + (Q0 + heats others)).
Proof.
  intros C W. apply mix_x_energy; auto.
  intros i self o _ Sr So. apply compat_placed_always; eapply sget_wfs; eauto.
Qed.
