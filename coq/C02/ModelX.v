(* C02 -- executable model, second part (definitions only): the complete MaterialIndexer.copy_like between
   MultiStreams of different phase sets, Stream.mix_from with that copy, and Stream.mix_from(conserve_phases=True).
   The correspondence evaluates every definition of this file on the inputs the implementation was run on
   (kinds mix / mixs / mixmm / copy / mixcp of props/C02.py). *)
From V Require Import Common.Num C02.Model.
Open Scope Q_scope.

(* ------------------------------------------------------------------ MaterialIndexer.copy_like between MultiStreams
   (indexer.py; same chemicals, or another package in the coordinates of the union of the chemicals):
       if phase_indexer is other_phase_indexer: self.data.copy_like(other.data)
       else:
           if not phase_indexer.compatible_with(other_phase_indexer):
               self._expand_phases(other._phases); phase_indexer = self._phase_indexer
           self.empty()
           for i, j in other: data[phase_indexer(i)] = j
   followed by the copy of T and P (MultiStream.copy_like). *)
(* PhaseIndexer.compatible_with: the lower-cased sorted phases agree *)
Definition compat (ps qs : list phase) : bool := list_eqb Nat.eqb (map lowerp ps) (map lowerp qs).
(* data[phase_indexer(i)] = j for every row of the source, in order (a later row overwrites an earlier one) *)
Definition place_rows (ps : list phase) (n : nat) (o : pmol) : pmol :=
  map (fun q => (q, match find (fun pv => (target_phase ps (fst pv) =? q)%nat) (rev o) with
                    | Some pv => snd pv
                    | None => vzero n
                    end)) ps.
Definition copy_like_mm (self other : stream) : stream :=
  if list_eqb Nat.eqb (phases self) (phases other) then mkS true (pm other) (sT other) (sP other)
  else
    let ps := if compat (phases self) (phases other) then phases self
              else phase_set (phases self ++ phases other) in
    mkS true (place_rows ps (ncomp self) (pm other)) (sT other) (sP other).
Definition copy_like_x (self other : stream) (same : bool) : res stream :=
  if multi self && negb same && multi other then Ok (copy_like_mm self other)
  else copy_like self other same.

(* Stream.mix_from with that copy_like: only the one-non-empty-inlet shortcut calls copy_like *)
Definition mix_from_x (O : oracles) (st : store) (r : nat) (others : list inlet) (Q0 : Q) : res store :=
  match streams_of st others with
  | [i] =>
      do self <- sget st r;
      do o <- sget st i;
      do s1 <- copy_like_x self o (r =? i)%nat;
      if qzerob (heat_of others Q0) then Ok (upd st r s1)
      else match setH O s1 (getH O s1 + heat_of others Q0) with
           | (s', None) => Ok (upd st r s')
           | (_, Some e) => Err e
           end
  | _ => mix_from O st r others Q0
  end.

(* ------------------------------------------------------------------ Stream.mix_from(..., energy_balance=True, vle=False,
   conserve_phases=True), _stream.py.  With fewer than two non-empty inlets the flag is not looked at.  Otherwise:
       H = sum([i.H for i in streams], Q)
       self.P = P = min([i.P for i in streams])
       phases = self.phase + ''.join([i.phase for i in others])     # ALL of others: empty streams too; None, Heat -> AttributeError
       self.phases = phases                                         # may turn the receiver into a MultiStream (or back)
       imols = [i._imol.copy() if i is self else i._imol for i in streams]     # the receiver's own flows AFTER the conversion
       self._imol.mix_from(imols)
       self.H = H                                                   # no fallback: what the solver raises comes out *)
Definition mix_from_cp (O : oracles) (st : store) (r : nat) (others : list inlet) (Q0 : Q) : res store :=
  match streams_of st others with
  | i :: j :: l =>
      let streams := i :: j :: l in
      let Q := heat_of others Q0 in
      do self <- sget st r;
      do ins <- sget_all st streams;
      let H := sum_H O ins Q in
      do P <- minP ins;
      let st1 := upd st r (set_P self P) in
      do self1 <- sget st1 r;
      do chars <- others_phase_str st1 others;
      do s2 <- set_phases self1 (phase_str self1 ++ chars);
      let st2 := upd st1 r s2 in
      do ins1 <- sget_all st2 streams;
      do s3 <- imol_mix s2 ins1;
      match setH O s3 H with
      | (s', None) => Ok (upd st2 r s')
      | (_, Some e) => Err e
      end
  | _ => mix_from_x O st r others Q0
  end.

(* ------------------------------------------------------------------ what the case files evaluate *)
(* self.copy_like(other) called directly: the receiver afterwards (class, phases, rows, T, P) and its enthalpy *)
Definition copy_check (O : oracles) (self other : stream) (same : bool) (expected : res stream) (H : option Q) : bool :=
  let got := copy_like_x self other same in
  res_eqb stream_eqb got expected &&
  match got, H with Ok s, Some h => qapproxb (getH O s) h | _, _ => true end.
