(* C02 -- property theorems only.  Each is closed by [exact <lemma>] (or a two-line combination) and
   followed by Print Assumptions.  [O] is an arbitrary property package + solver; [contracts O] is
   what is assumed about it (homogeneity of H and S in mol, H(0) = 0, 'L'/'S' use the models of 'l'/'s', and: a
   returned temperature satisfies the equation that was to be solved). *)
From V Require Import Common.NumFacts C02.Model C02.ModelX C02.ModelS C02.Proofs C02.ProofsDeep C02.ProofsX C02.ProofsS.
Open Scope Q_scope.

(* ---------------------------------------------------------------- mixing *)
(* at least one non-empty inlet: H of the receiver afterwards = sum of H of the non-empty inlets as they
   were before the call (the receiver may be among them) + Q + heat of the Heat/Power objects *)
Theorem C02_mix_energy : forall O st r others Q0 st' ins s',
  contracts O -> Forall wfs st ->
  mix_from O st r others Q0 = Ok st' ->
  streams_of st others <> [] ->
  sget_all st (streams_of st others) = Ok ins ->
  sget st' r = Ok s' ->
  ~ total s' == 0 ->
  getH O s' == qsum (map (getH O) ins) + (Q0 + heats others).
Proof. exact mix_energy_lemma. Qed.
Print Assumptions C02_mix_energy.

(* ... and its pressure is the lowest pressure among the non-empty inlets *)
Theorem C02_mix_pressure : forall O st r others Q0 st' ins s',
  contracts O -> Forall wfs st ->
  mix_from O st r others Q0 = Ok st' ->
  streams_of st others <> [] ->
  sget_all st (streams_of st others) = Ok ins ->
  sget st' r = Ok s' ->
  (forall s, In s ins -> sP s' <= sP s) /\ exists s, In s ins /\ sP s = sP s'.
Proof. exact mix_pressure_lemma. Qed.
Print Assumptions C02_mix_pressure.

(* nothing but the receiver changes *)
Theorem C02_mix_frame : forall O st r others Q0 st',
  mix_from O st r others Q0 = Ok st' ->
  length st' = length st /\ forall k, k <> r -> nth_error st' k = nth_error st k.
Proof. exact mix_frame_lemma. Qed.
Print Assumptions C02_mix_frame.

(* mixing succeeds whenever the temperature solver answers (it never gets to the convert-to-multi-phase fallback);
   the side condition concerns MaterialIndexer.copy_like between different phase sets, which is not modelled *)
Theorem C02_mix_total : forall O st r others Q0 self,
  solver_total O -> sget st r = Ok self ->
  (forall i o, streams_of st others = [i] -> sget st i = Ok o -> multi self = true -> multi o = true ->
               phases self = phases o) ->
  exists st', mix_from O st r others Q0 = Ok st'.
Proof. exact mix_total_lemma. Qed.
Print Assumptions C02_mix_total.

(* the stub package: no hypothesis on the oracles is left *)
Theorem C02_mix_energy_stub : forall c hf Tref st r others Q0 st' ins s',
  Forall wfs st ->
  mix_from (lin_oracles c hf Tref) st r others Q0 = Ok st' ->
  streams_of st others <> [] ->
  sget_all st (streams_of st others) = Ok ins ->
  sget st' r = Ok s' ->
  ~ total s' == 0 ->
  getH (lin_oracles c hf Tref) s' == qsum (map (getH (lin_oracles c hf Tref)) ins) + (Q0 + heats others).
Proof. exact mix_energy_stub_lemma. Qed.
Print Assumptions C02_mix_energy_stub.

(* ---------------------------------------------------------------- separating *)
Theorem C02_sep_energy : forall O st r o st' sr so s',
  contracts O ->
  separate_out O st r o = Ok st' -> r <> o ->
  sget st r = Ok sr -> sget st o = Ok so -> sget st' r = Ok s' ->
  ~ total s' == 0 ->
  getH O s' == getH O sr - getH O so.
Proof. exact sep_energy_lemma. Qed.
Print Assumptions C02_sep_energy.

(* separating a stream from itself leaves H(self) - H(self) = 0 *)
Theorem C02_sep_self : forall O st r st' s',
  Forall wfs st -> separate_out O st r r = Ok st' -> sget st' r = Ok s' -> getH O s' == 0.
Proof. exact sep_self_lemma. Qed.
Print Assumptions C02_sep_self.

(* taking a phase out of a multi-phase stream, ms.separate_out(ms[p]) (or a phase of another stream): the view shares
   its flow data with the receiver without being the receiver; what is left is H(receiver before) - H(view before) *)
Theorem C02_sep_view_energy : forall O st r j p st' sr sj v s',
  contracts O ->
  separate_view O st r j p = Ok st' ->
  sget st r = Ok sr -> sget st j = Ok sj -> view sj p = Ok v -> sget st' r = Ok s' ->
  ~ total s' == 0 ->
  getH O s' == getH O sr - getH O v.
Proof. exact sep_view_energy_lemma. Qed.
Print Assumptions C02_sep_view_energy.

(* mixing with phase views ms[p] among the inlets, the receiver possibly being their parent: same balance, the views
   entering with the enthalpy they have when the call starts *)
Theorem C02_mix_views_energy : forall O st r vs others Q0 st' vstreams ins s',
  contracts O -> Forall wfs st ->
  views st vs = Ok vstreams ->
  mix_views O st r vs others Q0 = Ok st' ->
  let ext := st ++ vstreams in
  let ot := map IStream (seq (length st) (length vstreams)) ++ others in
  streams_of ext ot <> [] ->
  sget_all ext (streams_of ext ot) = Ok ins ->
  sget st' r = Ok s' -> (r < length st)%nat ->
  ~ total s' == 0 ->
  getH O s' == qsum (map (getH O) ins) + (Q0 + heats ot).
Proof. exact mix_views_energy_lemma. Qed.
Print Assumptions C02_mix_views_energy.

Theorem C02_sep_frame : forall O st r o st',
  separate_out O st r o = Ok st' ->
  length st' = length st /\ forall k, k <> r -> nth_error st' k = nth_error st k.
Proof. exact sep_frame_lemma. Qed.
Print Assumptions C02_sep_frame.

(* ---------------------------------------------------------------- assigning H, S, h, Hnet (Stream and MultiStream,
   including the branch that flips the phase after a failed solve) *)
Theorem C02_setH_roundtrip : forall O s h s',
  contracts O -> setH O s h = (s', None) -> ~ total s == 0 ->
  getH O s' == h /\ same_but_T_phase s s'.
Proof.
  intros O s h s' C H Hn. pose proof (set_with_shape _ _ _ _ _ _ H) as Sh. split; [|exact Sh].
  apply (set_with_roundtrip (Hmix O) (solveH O) s h s' (cH_homog _ C) (cH_spec _ C) H).
  now rewrite (same_total _ _ Sh).
Qed.
Print Assumptions C02_setH_roundtrip.

Theorem C02_setS_roundtrip : forall O s x s',
  contracts O -> setS O s x = (s', None) -> ~ total s == 0 ->
  getS O s' == x /\ same_but_T_phase s s'.
Proof.
  intros O s x s' C H Hn. pose proof (set_with_shape _ _ _ _ _ _ H) as Sh. split; [|exact Sh].
  apply (set_with_roundtrip (Smix O) (solveS O) s x s' (cS_homog _ C) (cS_spec _ C) H).
  now rewrite (same_total _ _ Sh).
Qed.
Print Assumptions C02_setS_roundtrip.

Theorem C02_seth_roundtrip : forall O s h s',
  contracts O -> seth O s h = (s', None) -> ~ total s == 0 ->
  exists v, geth O s' = Some v /\ v == h.
Proof.
  intros O s h s' C H Hn. destruct (seth_roundtrip O s h s' (cH_spec _ C) H Hn) as [G V].
  eexists. split; [exact G|exact V].
Qed.
Print Assumptions C02_seth_roundtrip.

Theorem C02_setHnet_roundtrip : forall O s x s',
  contracts O -> setHnet O s x = (s', None) -> ~ total s' == 0 -> getHnet O s' == x.
Proof. exact setHnet_roundtrip. Qed.
Print Assumptions C02_setHnet_roundtrip.

(* a setter that does not succeed leaves flows and pressure alone as well *)
Theorem C02_set_frame : forall O s x s' e,
  (setH O s x = (s', e) \/ setS O s x = (s', e) \/ setHnet O s x = (s', e)) -> same_but_T_phase s s'.
Proof.
  intros O s x s' e [H|[H|H]]; exact (set_with_shape _ _ _ _ _ _ H).
Qed.
Print Assumptions C02_set_frame.

(* assigning the value the stream already has changes nothing but (up to ==) T, and T stays *)
Theorem C02_setH_idem : forall O s,
  contracts O -> solve_fix (Hmix O) (solveH O) -> ~ total s == 0 ->
  exists T', setH O s (getH O s) = (set_T s T', None) /\ T' == sT s.
Proof. intros O s C F. exact (set_with_idem (Hmix O) (solveH O) s (cH_homog _ C) F). Qed.
Print Assumptions C02_setH_idem.

Theorem C02_setS_idem : forall O s,
  contracts O -> solve_fix (Smix O) (solveS O) -> ~ total s == 0 ->
  exists T', setS O s (getS O s) = (set_T s T', None) /\ T' == sT s.
Proof. intros O s C F. exact (set_with_idem (Smix O) (solveS O) s (cS_homog _ C) F). Qed.
Print Assumptions C02_setS_idem.

(* when the solver always answers, the assignment succeeds *)
Theorem C02_setH_total : forall O s h, solver_total O -> exists s', setH O s h = (s', None).
Proof. exact setH_total_lemma. Qed.
Print Assumptions C02_setH_total.

(* ---------------------------------------------------------------- the in-repo part of the temperature solver *)
(* a temperature that already satisfies H = H(T) is a fixed point of iter_T_at_HP *)
Theorem C02_iter_fixed : forall T H Hm Cnm c T' c',
  iter_T_at_HP T H Hm Cnm c = Ok (T', c') -> H == Hm T -> T' == T.
Proof. exact iter_fixed_lemma. Qed.
Print Assumptions C02_iter_fixed.

(* enthalpy affine in T with the slope the step divides by: one step lands on the root *)
Theorem C02_iter_affine : forall T H Hm Cnm c T' c' a b,
  iter_T_at_HP T H Hm Cnm c = Ok (T', c') ->
  (forall t, Hm t == a * t + b) ->
  (forall cn, cn_used Cnm T c = Some cn -> cn == a) ->
  Hm T' == H.
Proof. exact iter_affine_lemma. Qed.
Print Assumptions C02_iter_affine.

Theorem C02_iter_S_fixed : forall expf T S Sm Cnm c T' c',
  (forall x, x == 0 -> expf x == 1) ->
  iter_T_at_SP expf T S Sm Cnm c = Ok (T', c') -> S == Sm T -> T' == T.
Proof. exact iter_S_fixed_lemma. Qed.
Print Assumptions C02_iter_S_fixed.

(* Mixture.solve_T_at_HP: whatever flexsolve.aitken returned, the wrapper takes one Newton step from it; in the
   affine case that step is the root, and it is what is returned unless the secant polish is entered *)
Theorem C02_solve_wrapper : forall aitken secant tol H Tguess Hm Cnm T a b Tg c,
  solve_T_at_HP aitken secant tol H Tguess Hm Cnm = Ok T ->
  aitken Tguess = Ok (Tg, c) ->
  (forall t, Hm t == a * t + b) ->
  (forall cn, cn_used Cnm Tg c = Some cn -> cn == a) ->
  exists T1, T1 == Tg + (H - Hm Tg) / a /\ Hm T1 == H /\
     (qltb tol (Qabs (T1 - Tg)) = false -> T = T1) /\
     (qltb tol (Qabs (T1 - Tg)) = true -> secant Tg T1 = Ok T).
Proof. exact solve_wrapper_lemma. Qed.
Print Assumptions C02_solve_wrapper.

(* Mixture.(x)solve_T_at_HP / SP release the mixture's work-space (_free_energy_args) whether the solve returns
   or raises, so no later property evaluation can see another stream's entries *)
Theorem C02_workspace_released_H : forall loaded aitken secant tol H Tguess Hm Cnm,
  snd (solve_T_at_HP_ws loaded aitken secant tol H Tguess Hm Cnm) = [].
Proof. intros. apply workspace_released_lemma. Qed.
Print Assumptions C02_workspace_released_H.
Theorem C02_workspace_released_S : forall loaded expf aitken secant tol S Tguess Sm Cnm,
  snd (solve_T_at_SP_ws loaded expf aitken secant tol S Tguess Sm Cnm) = [].
Proof. intros. apply workspace_released_lemma. Qed.
Print Assumptions C02_workspace_released_S.

(* ---------------------------------------------------------------- histories: the property memo shared by a stream
   and its proxies never shows.  For EVERY sequence of proxy creations, reads of H / S / h through any handle,
   assignments of T, P, phase, H, S, h, Hnet (also `s.X = s.X`), mixes and separations, starting from sound memos:
   each observation and each stream state is exactly what the memo-free machine gives, i.e. every read (including
   those made inside mix_from / separate_out and by `s.X = s.X`) returns the property of the CURRENT state *)
Theorem C02_history_memo_transparent : forall O ops cells hs,
  Forall (memo_wf O) cells ->
  Forall (memo_wf O) (fst (snd (hrun O (get_prop O) (cells, hs) ops))) /\
  trun O (map cs cells, hs) ops =
    (fst (hrun O (get_prop O) (cells, hs) ops),
     (map cs (fst (snd (hrun O (get_prop O) (cells, hs) ops))), snd (snd (hrun O (get_prop O) (cells, hs) ops)))).
Proof. exact hrun_sim. Qed.
Print Assumptions C02_history_memo_transparent.

(* one read through the memo *)
Theorem C02_read_current_state : forall O name flow c,
  memo_wf O c ->
  fst (get_prop O name flow c) = tval O name flow (cs c) /\
  cs (snd (get_prop O name flow c)) = cs c /\ memo_wf O (snd (get_prop O name flow c)).
Proof. exact get_prop_spec. Qed.
Print Assumptions C02_read_current_state.

(* ---------------------------------------------------------------- mixture/ideal_mixture_model.py meets the homogeneity
   contract: the getters evaluate the model on the normalised composition and multiply by the total flow, the
   setters hand the raw flows to the solver; both see the same function only if the model is homogeneous of degree one.
   [lnf] is math.log, of which only "a function of the number" is used *)
Theorem C02_ideal_H_homog : forall models p v k T P,
  ~ k == 0 -> ideal_sum models p (vdivs v k) T P * k == ideal_sum models p v T P.
Proof. exact ideal_sum_homog. Qed.
Print Assumptions C02_ideal_H_homog.
Theorem C02_ideal_S_homog : forall lnf models p v k T P,
  (forall a b, a == b -> lnf a == lnf b) -> ~ k == 0 -> ~ qsum v == 0 ->
  ideal_S lnf models p (vdivs v k) T P * k == ideal_S lnf models p v T P.
Proof. exact ideal_S_homog. Qed.
Print Assumptions C02_ideal_S_homog.

(* ---------------------------------------------------------------- the contracts are satisfiable: the linear stub
   (H = sum n (Cn(phase) (T - Tref) + L(phase)), solver = one step of iter_T_at_HP) meets all of them *)
Theorem C02_stub_contracts : forall c hf Tref, contracts (lin_oracles c hf Tref).
Proof. exact lin_contracts. Qed.
Print Assumptions C02_stub_contracts.

Theorem C02_stub_solve_fix : forall c Tref m x T P,
  ~ lin_Cn c m == 0 -> xsum (lin_H c Tref) m T P == x ->
  exists T', lin_solve c Tref m x T P = Ok T' /\ T' == T.
Proof. exact lin_solve_fix. Qed.
Print Assumptions C02_stub_solve_fix.

(* ---------------------------------------------------------------- non-vacuity *)
Definition exC := mkP [64; 32; 128] [32; 16; 64] [8192; 4096; 16384] [4; 2; 8] [16; 8; 32] [1; 2; 1] [16; 8; 32] 101325.
Definition exO := lin_oracles exC [-1024; -512; 256] (5963 # 20).
Definition exA := mkS false [(4%nat, [2; 0; 0])] 350 200000.
Definition exB := mkS false [(3%nat, [0; 4; 0])] 320 101325.
Definition exM := mkS true [(3%nat, [0; 1; 0]); (4%nat, [1; 0; 1])] 310 150000.
Definition exE := mkS false [(4%nat, [0; 0; 0])] 300 50000.
Definition exSt : store := [exA; exB; exM; exE].

Lemma exSt_wfs : Forall wfs exSt.
Proof.
  repeat constructor; simpl; try lia; intros F; simpl in F; intuition discriminate.
Qed.

(* receiver among three non-empty inlets, an empty inlet, a heat object and Q <> 0 *)
Example C02_mix_nonvacuous :
  exists st' ins s',
    mix_from exO exSt 0 [IStream 0; IStream 3; IStream 1; IHeat 512; IStream 2] 1024 = Ok st' /\
    streams_of exSt [IStream 0; IStream 3; IStream 1; IHeat 512; IStream 2] <> [] /\
    sget_all exSt (streams_of exSt [IStream 0; IStream 3; IStream 1; IHeat 512; IStream 2]) = Ok ins /\
    sget st' 0 = Ok s' /\ ~ total s' == 0 /\ Forall wfs exSt /\ contracts exO /\
    getH exO s' == getH exO exA + getH exO exB + getH exO exM + (1024 + 512) /\ sP s' == 101325.
Proof.
  eexists; eexists; eexists.
  split; [vm_compute; reflexivity|]. split; [vm_compute; discriminate|].
  split; [vm_compute; reflexivity|]. split; [vm_compute; reflexivity|].
  split; [vm_compute; discriminate|]. split; [exact exSt_wfs|]. split; [apply lin_contracts|].
  split; vm_compute; reflexivity.
Qed.

(* exactly one non-empty inlet and Q <> 0 *)
Example C02_mix_one_nonvacuous :
  exists st' s',
    mix_from exO exSt 3 [IStream 3; IStream 0] 1024 = Ok st' /\ sget st' 3 = Ok s' /\
    ~ total s' == 0 /\ getH exO s' == getH exO exA + 1024.
Proof.
  eexists; eexists. split; [vm_compute; reflexivity|]. split; [vm_compute; reflexivity|].
  split; [vm_compute; discriminate|]. vm_compute; reflexivity.
Qed.

Example C02_sep_nonvacuous :
  exists st' s', separate_out exO exSt 2 0 = Ok st' /\ sget st' 2 = Ok s' /\ ~ total s' == 0 /\
                 getH exO s' == getH exO exM - getH exO exA.
Proof.
  eexists; eexists. split; [vm_compute; reflexivity|]. split; [vm_compute; reflexivity|].
  split; [vm_compute; discriminate|]. vm_compute; reflexivity.
Qed.

Example C02_setH_nonvacuous :
  exists s', setH exO exM 8192 = (s', None) /\ ~ total exM == 0 /\ getH exO s' == 8192 /\
             sT s' == (5963 # 20) + (8192 - 4096 - 10 * (150000 - 101325) / 1024) / 208.
Proof.
  eexists. split; [vm_compute; reflexivity|]. split; [vm_compute; discriminate|].
  split; vm_compute; reflexivity.
Qed.

(* the phase-flip branch: the first solve fails, the flipped phase is solved *)
Definition exOs := mkO (lin_H exC (5963 # 20)) (lin_S exC (5963 # 20))
                       (fun m x Tg P => match m with [(4%nat, _)] => Err ERuntime | _ => lin_solve exC (5963 # 20) m x Tg P end)
                       (fun _ _ _ _ => Err EOther) [].
Example C02_setH_flip_nonvacuous :
  exists s', setH exOs exA 8192 = (s', None) /\ phase1 s' = 3%nat /\ getH exOs s' == 8192.
Proof. eexists. split; [vm_compute; reflexivity|]. split; vm_compute; reflexivity. Qed.

Example C02_iter_nonvacuous :
  exists T' c', iter_T_at_HP 350 8192 (fun t => 224 * t - 224 * (5963 # 20)) (fun _ => 224) (O, None) = Ok (T', c') /\
                224 * T' - 224 * (5963 # 20) == 8192.
Proof. eexists; eexists. split; vm_compute; reflexivity. Qed.

(* a history with a proxy: read through the proxy, move the stream through the original, read there, come back to the
   first temperature, read through the proxy again: a memo hit, and the value of the current state *)
Example C02_history_nonvacuous :
  let ops := [HProxy 0; HRead 1 0 true; HSet 0 0 8192; HRead 0 0 true; HSetT 1 350; HRead 1 0 true] in
  let r := hrun exO (get_prop exO) ([mkCell exA None], [0%nat]) ops in
  Forall (memo_wf exO) [mkCell exA None] /\
  nth 5 (fst r) ONone = OVal (Some (getH exO exA)) /\ nth 3 (fst r) ONone <> nth 5 (fst r) ONone /\
  snd (snd r) = [0%nat; 0%nat].
Proof.
  split; [repeat constructor|]. split; [vm_compute; reflexivity|]. split; [vm_compute; discriminate|].
  vm_compute; reflexivity.
Qed.

Example C02_sep_view_nonvacuous :
  exists st' s' v, separate_view exO exSt 2 2 3%nat = Ok st' /\ sget st' 2 = Ok s' /\ view exM 3%nat = Ok v /\
                   ~ total s' == 0 /\ getH exO s' == getH exO exM - getH exO v /\ ~ getH exO v == 0.
Proof.
  eexists; eexists; eexists. split; [vm_compute; reflexivity|]. split; [vm_compute; reflexivity|].
  split; [vm_compute; reflexivity|]. split; [vm_compute; discriminate|]. split; [vm_compute; reflexivity|].
  vm_compute; discriminate.
Qed.

(* the receiver's own gas phase is its only non-empty inlet, plus heat *)
Definition exG := mkS true [(3%nat, [1; 0; 4]); (4%nat, [0; 0; 0])] 350 101325.
Example C02_mix_views_nonvacuous :
  exists st' s' v, mix_views exO [exG] 0 [(0%nat, 3%nat)] [] 512 = Ok st' /\ sget st' 0 = Ok s' /\ view exG 3%nat = Ok v /\
                   ~ total s' == 0 /\ getH exO s' == getH exO v + 512.
Proof.
  eexists; eexists; eexists. split; [vm_compute; reflexivity|]. split; [vm_compute; reflexivity|].
  split; [vm_compute; reflexivity|]. split; [vm_compute; discriminate|]. vm_compute; reflexivity.
Qed.

(* ================================================================ deepening round *)
(* ---------------------------------------------------------------- exact read-back: no non-empty hypothesis *)
(* after a successful assignment the value read back is the assigned one exactly when the stream has a net flow or
   the assigned value is 0; otherwise Stream.H reads 0 *)
Theorem C02_setH_readback_exact : forall O s h s',
  contracts O -> setH O s h = (s', None) ->
  getH O s' == (if qzerob (total s') then 0 else h) /\ (getH O s' == h <-> (~ total s == 0 \/ h == 0)).
Proof.
  intros O s h s' C H. split.
  - exact (set_with_readback_exact (Hmix O) (solveH O) s h s' (cH_homog _ C) (cH_spec _ C) H).
  - exact (set_with_readback_iff (Hmix O) (solveH O) s h s' (cH_homog _ C) (cH_spec _ C) H).
Qed.
Print Assumptions C02_setH_readback_exact.
Theorem C02_setS_readback_exact : forall O s x s',
  contracts O -> setS O s x = (s', None) ->
  getS O s' == (if qzerob (total s') then 0 else x) /\ (getS O s' == x <-> (~ total s == 0 \/ x == 0)).
Proof.
  intros O s x s' C H. split.
  - exact (set_with_readback_exact (Smix O) (solveS O) s x s' (cS_homog _ C) (cS_spec _ C) H).
  - exact (set_with_readback_iff (Smix O) (solveS O) s x s' (cS_homog _ C) (cS_spec _ C) H).
Qed.
Print Assumptions C02_setS_readback_exact.

(* an empty stream: assigning 0 is a no-op (T, P, phases kept); any assignment leaves it empty with P and flows kept *)
Theorem C02_set_empty : forall O s x,
  isempty s = true ->
  (x == 0 -> setH O s x = (s, None) /\ setS O s x = (s, None)) /\
  (forall s' e, setH O s x = (s', e) -> isempty s' = true /\ sP s' = sP s /\ total s' == 0).
Proof.
  intros O s x E. split.
  - intros X0. split; now apply set_with_empty_noop.
  - intros s' e H. exact (set_with_empty_stays _ _ s x s' e E H).
Qed.
Print Assumptions C02_set_empty.

Theorem C02_mix_energy_exact : forall O st r others Q0 st' ins s',
  contracts O -> Forall wfs st ->
  mix_from O st r others Q0 = Ok st' ->
  streams_of st others <> [] ->
  sget_all st (streams_of st others) = Ok ins ->
  sget st' r = Ok s' ->
  getH O s' == (if qzerob (total s') then 0 else qsum (map (getH O) ins) + (Q0 + heats others)).
Proof. exact mix_energy_exact. Qed.
Print Assumptions C02_mix_energy_exact.

(* no non-empty inlet: the receiver is emptied, keeps T and P, H = 0, whatever Q *)
Theorem C02_mix_no_inlets : forall O st r others Q0 st' self,
  mix_from O st r others Q0 = Ok st' -> streams_of st others = [] -> sget st r = Ok self ->
  sget st' r = Ok (empty self) /\ getH O (empty self) == 0 /\ sT (empty self) = sT self /\ sP (empty self) = sP self.
Proof. exact mix_no_inlets. Qed.
Print Assumptions C02_mix_no_inlets.

Theorem C02_sep_energy_exact : forall O st r o st' sr so s',
  contracts O ->
  separate_out O st r o = Ok st' -> r <> o ->
  sget st r = Ok sr -> sget st o = Ok so -> sget st' r = Ok s' ->
  getH O s' == (if qzerob (total s') then 0 else getH O sr - getH O so).
Proof. exact sep_energy_exact. Qed.
Print Assumptions C02_sep_energy_exact.

(* ---------------------------------------------------------------- totality with the complete MaterialIndexer.copy_like
   (MultiStream <- MultiStream of another phase set: compatible renaming or phase-set expansion; ProofsDeep.v) *)
Theorem C02_copy_like_x_total : forall self other same, exists s1, copy_like_x self other same = Ok s1.
Proof. exact copy_like_x_total. Qed.
Print Assumptions C02_copy_like_x_total.
Theorem C02_copy_like_x_conservative : forall self other same,
  (forall s1, copy_like self other same = Ok s1 -> copy_like_x self other same = Ok s1) /\
  (forall e, copy_like self other same = Err e ->
     multi self = true /\ same = false /\ multi other = true /\ list_eqb Nat.eqb (phases self) (phases other) = false).
Proof. intros. split; [apply copy_like_x_refines|apply copy_like_err_only_mm]. Qed.
Print Assumptions C02_copy_like_x_conservative.
Theorem C02_mix_x_conservative : forall O st r others Q0 st',
  mix_from O st r others Q0 = Ok st' -> mix_from_x O st r others Q0 = Ok st'.
Proof. exact mix_from_x_refines. Qed.
Print Assumptions C02_mix_x_conservative.
(* mixing raises only after the temperature solver raised; so with a solver that always answers it always succeeds,
   for every store, every receiver class and every inlet list -- the side condition of C02_mix_total is gone *)
Theorem C02_mix_x_error_needs_solver_failure : forall O st r others Q0 self e,
  sget st r = Ok self -> mix_from_x O st r others Q0 = Err e -> solver_failed O.
Proof. exact mix_x_error_needs_solver_failure. Qed.
Print Assumptions C02_mix_x_error_needs_solver_failure.
Theorem C02_mix_x_total : forall O st r others Q0 self,
  solver_total O -> sget st r = Ok self -> exists st', mix_from_x O st r others Q0 = Ok st'.
Proof. exact mix_x_total. Qed.
Print Assumptions C02_mix_x_total.
(* the copied MultiStream carries the source's enthalpy, T and P, in the expansion case and in the compatible-renaming
   case alike (compatible_with never lets two source phases land on one row: C02_compat_targets_distinct) *)
Theorem C02_compat_targets_distinct : forall ps qs,
  NoDup ps -> NoDup qs -> compat ps qs = true ->
  NoDup (map (target_phase ps) qs) /\ (forall q, In q qs -> In (target_phase ps q) ps).
Proof. intros ps qs Np Nq C. split; [now apply compat_targets_NoDup|intros q I; now apply (compat_target_In ps qs)]. Qed.
Print Assumptions C02_compat_targets_distinct.
Theorem C02_copy_like_mm_energy : forall O self o,
  contracts O -> wfs self -> wfs o ->
  getH O (copy_like_mm self o) == getH O o /\ sP (copy_like_mm self o) = sP o /\ sT (copy_like_mm self o) = sT o.
Proof. intros O self o C Ws Wo. apply copy_like_mm_reads; auto. now apply compat_placed_always. Qed.
Print Assumptions C02_copy_like_mm_energy.
(* the energy balance of mixing with the complete copy_like, exact form: no side condition, no non-empty hypothesis *)
Theorem C02_mix_x_energy : forall O st r others Q0 st' ins s',
  contracts O -> Forall wfs st ->
  mix_from_x O st r others Q0 = Ok st' ->
  streams_of st others <> [] ->
  sget_all st (streams_of st others) = Ok ins ->
  sget st' r = Ok s' ->
  getH O s' == (if qzerob (total s') then 0 else qsum (map (getH O) ins) + (Q0 + heats others)).
Proof. exact mix_x_energy_full. Qed.
Print Assumptions C02_mix_x_energy.

(* ---------------------------------------------------------------- non-vacuity of the deepening theorems *)
(* an empty stream: assigning 0 keeps it, H reads 0; a non-empty one reads back what was assigned *)
Example C02_readback_exact_nonvacuous :
  setH exO exE 0 = (exE, None) /\ isempty exE = true /\ getH exO exE == 0 /\
  exists s', setH exO exM 8192 = (s', None) /\ ~ total exM == 0 /\ getH exO s' == 8192.
Proof.
  split; [vm_compute; reflexivity|]. split; [reflexivity|]. split; [vm_compute; reflexivity|].
  eexists. split; [vm_compute; reflexivity|]. split; [vm_compute; discriminate|vm_compute; reflexivity].
Qed.
(* only empty inlets: receiver emptied, T and P kept; and a separation that leaves nothing reads H = 0 *)
Example C02_empty_results_nonvacuous :
  (exists st', mix_from exO exSt 0 [IStream 3; IHeat 512] 1024 = Ok st' /\ streams_of exSt [IStream 3; IHeat 512] = [] /\
               sget st' 0 = Ok (empty exA)) /\
  (exists st' s', separate_out exO [exA; exA] 0 1 = Ok st' /\ sget st' 0 = Ok s' /\ qzerob (total s') = true /\ getH exO s' == 0).
Proof.
  split.
  - eexists. split; [vm_compute; reflexivity|]. split; vm_compute; reflexivity.
  - eexists; eexists. split; [vm_compute; reflexivity|]. split; [vm_compute; reflexivity|]. split; vm_compute; reflexivity.
Qed.
(* a gas/solid MultiStream is the only non-empty inlet of a gas/liquid MultiStream receiver: Model.mix_from stops at the
   unmodelled branch, the extended one expands the phases to (S.., g, l, s) and conserves the enthalpy plus Q *)
Definition exGS := mkS true [(3%nat, [1; 0; 2]); (5%nat, [0; 3; 0])] 330 200000.
Example C02_mix_x_nonvacuous :
  mix_from exO [exM; exGS] 0 [IStream 1] 512 = Err EOther /\
  compat (phases exM) (phases exGS) = false /\ Forall wfs [exM; exGS] /\
  exists st' s', mix_from_x exO [exM; exGS] 0 [IStream 1] 512 = Ok st' /\ sget st' 0 = Ok s' /\
                 phases s' = [3%nat; 4%nat; 5%nat] /\ ~ total s' == 0 /\ getH exO s' == getH exO exGS + 512 /\
                 getH exO (copy_like_mm exM exGS) == getH exO exGS /\ sP s' == 200000.
Proof.
  split; [vm_compute; reflexivity|]. split; [reflexivity|].
  split; [repeat constructor; simpl; try lia; intros F; simpl in F; intuition discriminate|].
  eexists; eexists. split; [vm_compute; reflexivity|]. split; [vm_compute; reflexivity|].
  split; [vm_compute; reflexivity|]. split; [vm_compute; discriminate|].
  split; [vm_compute; reflexivity|]. split; vm_compute; reflexivity.
Qed.

(* a compatible renaming: receiver phases (L, g), source phases (g, l): the liquid row lands on 'L' *)
Definition exLg := mkS true [(1%nat, [2; 0; 0]); (3%nat, [0; 1; 0])] 300 101325.
Example C02_compat_nonvacuous :
  compat (phases exLg) (phases exM) = false /\ compat [1%nat; 5%nat] [4%nat; 5%nat] = true /\
  NoDup (map (target_phase [1%nat; 5%nat]) [4%nat; 5%nat]) /\ map (target_phase [1%nat; 5%nat]) [4%nat; 5%nat] = [1%nat; 5%nat].
Proof.
  split; [reflexivity|]. split; [reflexivity|]. split; [|reflexivity].
  simpl. repeat constructor; simpl; intuition discriminate.
Qed.

(* ---------------------------------------------------------------- round 3: pressure and frame of the extended mixing,
   conserve_phases=True, non-negative flows *)
Theorem C02_mix_x_pressure : forall O st r others Q0 st' ins s',
  contracts O -> Forall wfs st ->
  mix_from_x O st r others Q0 = Ok st' ->
  streams_of st others <> [] ->
  sget_all st (streams_of st others) = Ok ins ->
  sget st' r = Ok s' ->
  (forall s, In s ins -> sP s' <= sP s) /\ exists s, In s ins /\ sP s = sP s'.
Proof. exact mix_x_pressure. Qed.
Print Assumptions C02_mix_x_pressure.
Theorem C02_mix_x_frame : forall O st r others Q0 st',
  contracts O -> Forall wfs st ->
  mix_from_x O st r others Q0 = Ok st' ->
  length st' = length st /\ forall k, k <> r -> nth_error st' k = nth_error st k.
Proof. exact mix_x_frame. Qed.
Print Assumptions C02_mix_x_frame.
(* mix_from(..., conserve_phases=True): the same balance (exact form), the same pressure rule, nothing else touched *)
Theorem C02_mix_cp_energy : forall O st r others Q0 st' ins s',
  contracts O -> Forall wfs st ->
  mix_from_cp O st r others Q0 = Ok st' ->
  streams_of st others <> [] ->
  sget_all st (streams_of st others) = Ok ins ->
  sget st' r = Ok s' ->
  getH O s' == (if qzerob (total s') then 0 else qsum (map (getH O) ins) + (Q0 + heats others)).
Proof. exact mix_cp_energy. Qed.
Print Assumptions C02_mix_cp_energy.
Theorem C02_mix_cp_pressure : forall O st r others Q0 st' ins s',
  contracts O -> Forall wfs st ->
  mix_from_cp O st r others Q0 = Ok st' ->
  streams_of st others <> [] ->
  sget_all st (streams_of st others) = Ok ins ->
  sget st' r = Ok s' ->
  (forall s, In s ins -> sP s' <= sP s) /\ exists s, In s ins /\ sP s = sP s'.
Proof. exact mix_cp_pressure. Qed.
Print Assumptions C02_mix_cp_pressure.
Theorem C02_mix_cp_frame : forall O st r others Q0 st',
  contracts O -> Forall wfs st ->
  mix_from_cp O st r others Q0 = Ok st' ->
  length st' = length st /\ forall k, k <> r -> nth_error st' k = nth_error st k.
Proof. exact mix_cp_frame. Qed.
Print Assumptions C02_mix_cp_frame.
(* non-negative flows: a stream the code calls non-empty (not isempty()) has a positive total flow, so the balance of a
   result with non-negative flows needs only the test the code itself makes *)
Theorem C02_nonneg_nonempty : forall s, nonneg s -> isempty s = false -> 0 < total s.
Proof. exact nonneg_nonempty. Qed.
Print Assumptions C02_nonneg_nonempty.
Theorem C02_mix_x_energy_nonneg : forall O st r others Q0 st' ins s',
  contracts O -> Forall wfs st ->
  mix_from_x O st r others Q0 = Ok st' ->
  streams_of st others <> [] ->
  sget_all st (streams_of st others) = Ok ins ->
  sget st' r = Ok s' ->
  nonneg s' -> isempty s' = false ->
  getH O s' == qsum (map (getH O) ins) + (Q0 + heats others).
Proof. exact mix_x_energy_nonneg. Qed.
Print Assumptions C02_mix_x_energy_nonneg.

(* conserve_phases=True with a liquid and a gas inlet: the single-phase receiver becomes a gas/liquid MultiStream (no
   solver failure needed), the balance holds with the heat, P is the lower pressure *)
Example C02_mix_cp_nonvacuous :
  Forall wfs exSt /\
  exists st' s', mix_from_cp exO exSt 3 [IStream 0; IStream 1] 512 = Ok st' /\ sget st' 3 = Ok s' /\
                 multi s' = true /\ phases s' = [3%nat; 4%nat] /\ nonneg s' /\ isempty s' = false /\
                 getH exO s' == getH exO exA + getH exO exB + 512 /\ sP s' == 101325 /\
                 nth_error st' 0 = Some exA /\ nth_error st' 1 = Some exB.
Proof.
  split; [repeat constructor; simpl; try lia; intros F; simpl in F; intuition discriminate|].
  eexists; eexists. split; [vm_compute; reflexivity|]. split; [vm_compute; reflexivity|].
  split; [reflexivity|]. split; [reflexivity|].
  split; [repeat constructor; simpl; discriminate|]. split; [reflexivity|].
  split; [vm_compute; reflexivity|]. split; [vm_compute; reflexivity|]. split; reflexivity.
Qed.

(* the material step of Stream.mix_from (ChemicalIndexer / MaterialIndexer.mix_from, any receiver class, any phase sets,
   with or without phase expansion): the receiver's total flow is the sum of the inlets' total flows ... *)
Theorem C02_imol_mix_material : forall self ins s2 n,
  wfs self -> Forall (wfn n) ins -> ncomp self = n ->
  imol_mix self ins = Ok s2 -> total s2 == qsum (map total ins).
Proof. exact imol_mix_total. Qed.
Print Assumptions C02_imol_mix_material.
(* ... hence positive when the inlets' flows are non-negative and one inlet is non-empty: the hypothesis `total <> 0`
   of the balance is derived for the receiver as imol.mix_from leaves it *)
Theorem C02_imol_mix_nonempty : forall self ins s2 n,
  wfs self -> Forall (wfn n) ins -> ncomp self = n ->
  Forall nonneg ins -> Exists (fun s => isempty s = false) ins ->
  imol_mix self ins = Ok s2 -> 0 < total s2.
Proof. exact imol_mix_nonempty. Qed.
Print Assumptions C02_imol_mix_nonempty.
Example C02_imol_mix_nonvacuous :
  wfs exM /\ Forall (wfn 3) [exA; exGS] /\ ncomp exM = 3%nat /\ Forall nonneg [exA; exGS] /\
  Exists (fun s => isempty s = false) [exA; exGS] /\
  exists s2, imol_mix exM [exA; exGS] = Ok s2 /\ phases s2 = [3%nat; 4%nat; 5%nat] /\ total s2 == 8.
Proof.
  split; [split; [simpl; lia|repeat constructor; simpl; intuition discriminate]|].
  split; [repeat constructor|]. split; [reflexivity|].
  split; [repeat constructor; simpl; discriminate|]. split; [left; reflexivity|].
  eexists. split; [vm_compute; reflexivity|]. split; [reflexivity|vm_compute; reflexivity].
Qed.

(* ---------------------------------------------------------------- histories of temperature solves (ModelS.v)
   The [oracles] record above takes the solver to be a FUNCTION of (flows, target, guess, pressure).  That is a statement
   about mixture.py: the four wrappers hand the iteration function a scratch list [counter, Cn] and the last heat capacity
   must not outlive the solve.  Here the scratch lists are cells of a process-wide heap, the iteration function mutates
   the cell it is given, and the driver (standing for flexsolve.aitken) is any sequence of relaxed fixed-point steps. *)
(* the k-th solve of any history, in any process state, returns / raises exactly what the same request does alone, and
   ends with the same scratch-list content *)
Theorem C02_solve_history_free : forall tol before r after p,
  nth_error (fst (solve_seq tol p (before ++ r :: after))) (length before) = Some (solve_alone tol r).
Proof. exact solve_history_free. Qed.
Print Assumptions C02_solve_history_free.
Theorem C02_solve_seq_is_map : forall tol rs p, fst (solve_seq tol p rs) = map (solve_alone tol) rs.
Proof. exact solve_seq_obs. Qed.
Print Assumptions C02_solve_seq_is_map.
(* frame: the scratch lists that existed are left as they were, every solve adds its own, the work-space ends empty *)
Theorem C02_solve_seq_frame : forall tol rs h w,
  snd (solve_seq tol (h, w) rs) =
  (h ++ map (fun r => snd (solve_alone tol r)) rs, match rs with [] => w | _ => [] end).
Proof. exact solve_seq_state. Qed.
Print Assumptions C02_solve_seq_frame.
(* a solve alone IS the wrapper of Model.v with the driver as its aitken oracle (both variables) *)
Theorem C02_solve_refines_HP : forall H Hm Cnm ws sec tol Tg,
  fst (solve1 (formula_HP H Hm) Cnm ws sec tol Tg) =
  solve_T_at_HP (aitken_of (formula_HP H Hm) Cnm ws) sec tol H Tg Hm Cnm.
Proof. exact solve1_refines_HP. Qed.
Print Assumptions C02_solve_refines_HP.
Theorem C02_solve_refines_SP : forall expf S Sm Cnm ws sec tol Tg,
  fst (solve1 (formula_SP expf S Sm) Cnm ws sec tol Tg) =
  solve_T_at_SP expf (aitken_of (formula_SP expf S Sm) Cnm ws) sec tol S Tg Sm Cnm.
Proof. exact solve1_refines_SP. Qed.
Print Assumptions C02_solve_refines_SP.
(* and the iteration functions on a cell are those of Model.v *)
Theorem C02_iter_cell_is_iter : forall expf T X Xm Cnm c,
  iter_T_at_HP T X Xm Cnm c = lift (iter_cell (formula_HP X Xm) Cnm T c) /\
  iter_T_at_SP expf T X Xm Cnm c = lift (iter_cell (formula_SP expf X Xm) Cnm T c).
Proof. intros; split; [apply iter_cell_HP|apply iter_cell_SP]. Qed.
Print Assumptions C02_iter_cell_is_iter.
(* with a temperature-independent heat capacity (every ideal package whose Cn models are constants; the stub) each
   iteration of each solve of a history uses THIS request's heat capacity: the solve is the scratch-free [solve0] *)
Theorem C02_solve_history_own_Cn : forall tol before r after p cn,
  (forall T, rq_Cn r T = cn) ->
  exists c, nth_error (fst (solve_seq tol p (before ++ r :: after))) (length before) =
            Some (solve0 (rq_g r) cn (rq_ws r) (rq_sec r) tol (rq_T r), c).
Proof. exact solve_history_own_Cn. Qed.
Print Assumptions C02_solve_history_own_Cn.
(* hence: once the driver is at a temperature where the entropy (enthalpy) model gives the assigned value, the solve hands
   out that temperature, whatever was solved before it -- the read-back clause of the S / H setters for this wrapper *)
Theorem C02_solve_history_root_SP : forall tol before after p expf S Sm cn ws sec Tg load T,
  0 <= tol -> ~ cn == 0 -> Sm T == S -> expf ((S - Sm T) / cn) == 1 ->
  drive0 (fun T => formula_SP expf S Sm T cn) ws Tg = Ok T ->
  exists T' c, T' == T /\
    nth_error (fst (solve_seq tol p (before ++ mkReq (formula_SP expf S Sm) (fun _ => cn) ws sec Tg load :: after)))
              (length before) = Some (Ok T', c).
Proof.
  intros tol before after p expf S Sm cn ws sec Tg load T Htol Hcn HS He Hd.
  destruct (formula_SP_root expf S Sm T cn Hcn HS He) as [T' [Hf HT]].
  destruct (solve_history_own_Cn tol before (mkReq (formula_SP expf S Sm) (fun _ => cn) ws sec Tg load) after p cn
              (fun _ => eq_refl)) as [c Hc].
  exists T', c. split; [exact HT|]. rewrite Hc. cbn [rq_g rq_ws rq_sec rq_T].
  rewrite (solve0_root _ _ _ _ _ _ _ _ Htol Hd Hf HT). reflexivity.
Qed.
Print Assumptions C02_solve_history_root_SP.
Theorem C02_solve_history_root_HP : forall tol before after p H Hm cn ws sec Tg load T,
  0 <= tol -> ~ cn == 0 -> Hm T == H ->
  drive0 (fun T => formula_HP H Hm T cn) ws Tg = Ok T ->
  exists T' c, T' == T /\
    nth_error (fst (solve_seq tol p (before ++ mkReq (formula_HP H Hm) (fun _ => cn) ws sec Tg load :: after)))
              (length before) = Some (Ok T', c).
Proof.
  intros tol before after p H Hm cn ws sec Tg load T Htol Hcn HH Hd.
  destruct (formula_HP_root H Hm T cn Hcn HH) as [T' [Hf HT]].
  destruct (solve_history_own_Cn tol before (mkReq (formula_HP H Hm) (fun _ => cn) ws sec Tg load) after p cn
              (fun _ => eq_refl)) as [c Hc].
  exists T', c. split; [exact HT|]. rewrite Hc. cbn [rq_g rq_ws rq_sec rq_T].
  rewrite (solve0_root _ _ _ _ _ _ _ _ Htol Hd Hf HT). reflexivity.
Qed.
Print Assumptions C02_solve_history_root_HP.
(* non-vacuity: a 1/1024-scale entropy solve followed by a 1024-scale one (S = F (T/4 + 8), Cn = 64 F, exp y ~ 1 + y,
   target the value at 350 K): the second lands where it lands when made alone, with its own heat capacity in its list *)
Definition exReq (F : Q) : request :=
  mkReq (formula_SP (fun y => 1 + y) (F * (350 / 4 + 8)) (fun T => F * (T / 4 + 8))) (fun _ => 64 * F) [1; 1; 1]
        (fun _ _ => Ok 350) 300 [4%nat].
Example C02_solve_history_nonvacuous :
  exists T c, solve_alone (1 # 1000000) (exReq 1024) = (Ok T, c) /\ snd c = Some (64 * 1024) /\
  nth_error (fst (solve_seq (1 # 1000000) ([(7%nat, Some (1 # 16))], [3%nat]) [exReq (1 # 1024); exReq 1024])) 1
    = Some (Ok T, c) /\
  drive0 (fun T => formula_SP (fun y => 1 + y) 100 (fun T => T / 4 + 8) T 64) [] 368 = Ok 368.
Proof. eexists. eexists. split; [vm_compute; reflexivity|]. split; [vm_compute; reflexivity|]. split; vm_compute; reflexivity. Qed.
