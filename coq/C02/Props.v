From V Require Import Common.NumFacts C02.Model C02.Proofs.
