(* C02 -- stream energy balance.  Executable model (definitions only) of the energy path of
   thermosteam/_stream.py (Stream.mix_from, Stream.separate_out, H / h / S / Hnet setters and getters),
   thermosteam/_multi_stream.py (H / h / S setters), and thermosteam/mixture/mixture.py
   (iter_T_at_HP, iter_T_at_SP, the solve_T_at_HP wrapper).

   Numbers are exact rationals.  Streams live in a store (list) and are addressed by index, so that
   "the receiver is one of the inlets" is expressible.  The property package and the third-party
   solver are oracles collected in a record; every definition takes the record as an argument. *)
From V Require Import Common.Num.
Open Scope Q_scope.

(* phases: 1 'L', 2 'S', 3 'g', 4 'l', 5 's'   (ASCII order, which is the order of phase_tuple) *)
Definition phase := nat.
Definition pmol := list (phase * vec).      (* what iterating a MaterialIndexer yields: (phase, row) pairs *)

(* multi = false : Stream (ChemicalIndexer), pm = [(phase, mol)]
   multi = true  : MultiStream (MaterialIndexer), pm = rows in phase_tuple order *)
Record stream := mkS { multi : bool; pm : pmol; sT : Q; sP : Q }.

Record oracles := mkO {
  Hmix : phase -> vec -> Q -> Q -> Q;        (* mixture.H(phase, mol, T, P) *)
  Smix : phase -> vec -> Q -> Q -> Q;        (* mixture.S(phase, mol, T, P) *)
  solveH : pmol -> Q -> Q -> Q -> res Q;     (* mixture.solve_T_at_HP / xsolve_T_at_HP (phase_mol, H, T_guess, P); may raise *)
  solveS : pmol -> Q -> Q -> Q -> res Q;     (* mixture.solve_T_at_SP / xsolve_T_at_SP *)
  Hform : vec                                (* chemicals.Hf *)
}.

(* ------------------------------------------------------------------ flows *)
Definition row_any (v : vec) : bool := existsb (fun x => negb (qzerob x)) v.
Definition pm_any (m : pmol) : bool := existsb (fun pv => row_any (snd pv)) m.
Definition isempty (s : stream) : bool := negb (pm_any (pm s)).             (* not data.any() *)
Definition pm_total (m : pmol) : Q := fold_right (fun pv acc => qsum (snd pv) + acc) 0 m.   (* data.sum() *)
Definition total (s : stream) : Q := pm_total (pm s).
Definition empty (s : stream) : stream :=                                     (* data.clear() *)
  mkS (multi s) (map (fun pv => (fst pv, vzero (length (snd pv)))) (pm s)) (sT s) (sP s).
Definition phase1 (s : stream) : phase := match pm s with pv :: _ => fst pv | [] => O end.
Definition row1 (s : stream) : vec := match pm s with pv :: _ => snd pv | [] => [] end.
Definition ncomp (s : stream) : nat := length (row1 s).
Definition phases (s : stream) : list phase := map fst (pm s).
Definition vsum (n : nat) (rows : list vec) : vec := fold_left vadd rows (vzero n).
Definition mol_sum (s : stream) : vec := vsum (ncomp s) (map snd (pm s)).     (* Stream.mol / data.sum(0) *)
Definition pm_div (m : pmol) (k : Q) : pmol := map (fun pv => (fst pv, vdivs (snd pv) k)) m.
Definition set_T (s : stream) (T : Q) : stream := mkS (multi s) (pm s) T (sP s).
Definition set_P (s : stream) (P : Q) : stream := mkS (multi s) (pm s) (sT s) P.
Definition set_phase1 (s : stream) (p : phase) : stream :=
  match pm s with pv :: t => mkS (multi s) ((p, snd pv) :: t) (sT s) (sP s) | [] => s end.
Definition has_phase (s : stream) (p : phase) : bool := existsb (Nat.eqb p) (phases s).

(* ------------------------------------------------------------------ property getters (_get_property) *)
(* mixture.xH(phase_mol, T, P) = sum([H(phase, mol, T, P) for phase, mol in phase_mol]) *)
Definition xsum (f : phase -> vec -> Q -> Q -> Q) (m : pmol) (T P : Q) : Q :=
  fold_right (fun pv acc => f (fst pv) (snd pv) T P + acc) 0 m.
(* flow=True:  total == 0 -> 0 ; else calculate(composition) * total *)
Definition prop_flow (f : phase -> vec -> Q -> Q -> Q) (s : stream) : Q :=
  let tot := total s in
  if qzerob tot then 0 else xsum f (pm_div (pm s) tot) (sT s) (sP s) * tot.
(* flow=False: total == 0 -> None *)
Definition prop_spec (f : phase -> vec -> Q -> Q -> Q) (s : stream) : option Q :=
  let tot := total s in
  if qzerob tot then None else Some (xsum f (pm_div (pm s) tot) (sT s) (sP s)).
Definition getH (O : oracles) : stream -> Q := prop_flow (Hmix O).
Definition getS (O : oracles) : stream -> Q := prop_flow (Smix O).
Definition geth (O : oracles) : stream -> option Q := prop_spec (Hmix O).
Definition getHf (O : oracles) (s : stream) : Q := vdot (Hform O) (mol_sum s).
Definition getHnet (O : oracles) (s : stream) : Q := getH O s + getHf O s.

(* ------------------------------------------------------------------ setters *)
(* a setter mutates the stream even when it ends by raising (the phase flip), so it returns the
   stream together with the exception, if any *)
Definition sres := (stream * option err)%type.

(* phase.lower(): 'g' -> 'l' ; 'l' (and 'L') -> 'g' ; anything else re-raises *)
Definition flip (p : phase) : option phase :=
  match p with
  | 3%nat => Some 4%nat
  | 4%nat | 1%nat => Some 3%nat
  | _ => None
  end.

Definition solve_into (solve : pmol -> Q -> Q -> Q -> res Q) (s : stream) (m : pmol) (x : Q) : sres :=
  match solve m x (sT s) (sP s) with
  | Ok T' => (set_T s T', None)
  | Err e => (s, Some e)
  end.

(* body shared by Stream.H / Stream.h / Stream.S setters (try / flip the phase / try again) and by the
   MultiStream setters (single call); [arg] is what the solver is given: the flows (H, S) or the
   composition (h) *)
Definition set_with (solve : pmol -> Q -> Q -> Q -> res Q) (arg : stream -> pmol) (s : stream) (x : Q) : sres :=
  if qzerob x && isempty s then (s, None) else
  if multi s then solve_into solve s (arg s) x else
  match solve (arg s) x (sT s) (sP s) with
  | Ok T' => (set_T s T', None)
  | Err e =>
      match flip (phase1 s) with
      | None => (s, Some e)
      | Some p' => let s1 := set_phase1 s p' in solve_into solve s1 (arg s1) x
      end
  end.

Definition setH (O : oracles) : stream -> Q -> sres := set_with (solveH O) pm.
Definition setS (O : oracles) : stream -> Q -> sres := set_with (solveS O) pm.

(* h setter: Stream uses z_mol = mol / mol.sum() (raises ZeroDivisionError for a non-empty stream of zero
   total), MultiStream uses iter_composition = data / (total or 1) *)
Definition comp (s : stream) : pmol :=
  if qzerob (total s) then pm s else pm_div (pm s) (total s).
Definition seth (O : oracles) (s : stream) (h : Q) : sres :=
  if qzerob h && isempty s then (s, None) else
  if negb (multi s) && qzerob (total s) && negb (isempty s) then (s, Some EZeroDiv) else
  set_with (solveH O) comp s h.

Definition setHnet (O : oracles) (s : stream) (x : Q) : sres := setH O s (x - getHf O s).

(* ------------------------------------------------------------------ store *)
Definition store := list stream.
Definition sget (st : store) (i : nat) : res stream :=
  match nth_error st i with Some s => Ok s | None => Err EIndex end.
Fixpoint sget_all (st : store) (l : list nat) : res (list stream) :=
  match l with
  | [] => Ok []
  | i :: t => do s <- sget st i; do r <- sget_all st t; Ok (s :: r)
  end.

(* what may appear in [others]: a stream, a Heat/Power object (always truthy), None *)
Inductive inlet := IStream (i : nat) | IHeat (q : Q) | INone.

Fixpoint streams_of (st : store) (others : list inlet) : list nat :=
  match others with
  | [] => []
  | IStream i :: t =>
      match nth_error st i with
      | Some s => if isempty s then streams_of st t else i :: streams_of st t
      | None => streams_of st t
      end
  | _ :: t => streams_of st t
  end.
Definition heat_of (others : list inlet) (Q0 : Q) : Q :=
  fold_left (fun acc o => match o with IHeat q => acc + q | _ => acc end) others Q0.

Definition qmin (a b : Q) : Q := if Qle_bool a b then a else b.
Definition minP (ins : list stream) : res Q :=
  match ins with
  | [] => Err EValue
  | s :: t => Ok (fold_left qmin (map sP t) (sP s))
  end.

(* ------------------------------------------------------------------ material part, one property package *)
(* PhaseIndexer: a phase is found under its own name or under its other-case variant *)
Definition swapcase (p : phase) : phase :=
  match p with 1%nat => 4%nat | 4%nat => 1%nat | 2%nat => 5%nat | 5%nat => 2%nat | _ => p end.
Definition mem (p : phase) (l : list phase) : bool := existsb (Nat.eqb p) l.
Definition target_phase (ps : list phase) (p : phase) : phase := if mem p ps then p else swapcase p.

Fixpoint insert_phase (p : phase) (l : list phase) : list phase :=
  match l with
  | [] => [p]
  | q :: t => if (p =? q)%nat then l else if (p <? q)%nat then p :: l else q :: insert_phase p t
  end.
Definition phase_set (l : list phase) : list phase := fold_right insert_phase [] l.   (* phase_tuple(set(...)) *)
(* set_main_phase: the receiver takes the inlets' phase when all of them are single-phase with one phase *)
Definition common_phase (ins : list stream) : option phase :=
  match ins with
  | s0 :: t =>
      if multi s0 then None
      else if forallb (fun s => negb (multi s) && (phase1 s =? phase1 s0)%nat) t then Some (phase1 s0) else None
  | [] => None
  end.
Definition all_rows (ins : list stream) : list vec := flat_map (fun s => map snd (pm s)) ins.
(* rows of the inlets that land in row [p] of a receiver with phases [ps]: an inlet phase the receiver lacks goes to
   its other-case variant ('l' <-> 'L', 's' <-> 'S') *)
Definition rows_of_phase (ps : list phase) (p : phase) (ins : list stream) : list vec :=
  flat_map (fun s => map snd (filter (fun pv => (target_phase ps (fst pv) =? p)%nat) (pm s))) ins.
Definition phases_of (ins : list stream) : list phase := flat_map phases ins.

(* ChemicalIndexer.mix_from / MaterialIndexer.mix_from; [ins] are the inlets' indexers (the receiver's, when it is
   among them, being its copy).  A multi-phase receiver keeps its phases when every inlet phase is found in its
   PhaseIndexer (under its own name or its other-case variant); otherwise _expand_phases adds ALL inlet phases it
   does not have by name and every row is then placed by name. *)
Definition imol_mix (self : stream) (ins : list stream) : res stream :=
  if multi self then
    let ps := if forallb (fun p => mem (target_phase (phases self) p) (phases self)) (phases_of ins)
              then phases self else phase_set (phases self ++ phases_of ins) in
    Ok (mkS true (map (fun p => (p, vsum (ncomp self) (rows_of_phase ps p ins))) ps) (sT self) (sP self))
  else
    let p := match common_phase ins with Some p => p | None => phase1 self end in
    Ok (mkS false [(p, vsum (ncomp self) (all_rows ins))] (sT self) (sP self)).

(* Stream.copy_like / MultiStream.copy_like, [same] = (self is other) *)
Definition copy_like (self other : stream) (same : bool) : res stream :=
  if multi self then
    if same then Ok self
    else if multi other then
      if list_eqb Nat.eqb (phases self) (phases other) then Ok (mkS true (pm other) (sT other) (sP other))
      else Err EOther                      (* MaterialIndexer.copy_like between different phase sets: not modelled *)
    else
      (* MaterialIndexer.copy_like(ChemicalIndexer): empty; a phase the PhaseIndexer does not know is added; the row
         found for the phase takes the flows *)
      let p := phase1 other in
      let ps := if mem (target_phase (phases self) p) (phases self) then phases self else phase_set (phases self ++ [p]) in
      Ok (mkS true (map (fun q => (q, if (q =? target_phase ps p)%nat then row1 other else vzero (ncomp self))) ps)
              (sT other) (sP other))
  else if multi other then
    match pm other with
    | [pv] => Ok (mkS false [pv] (sT self) (sP self))     (* one-phase MultiStream: returns before T, P are copied *)
    | _ => Ok (mkS true (pm other) (sT other) (sP other)) (* self.empty(); self.phases = other.phases; copy rows, T, P *)
    end
  else if same then Ok self
  else Ok (mkS false (pm other) (sT other) (sP other)).

(* ChemicalIndexer.separate_out / MaterialIndexer.separate_out *)
Fixpoint sub_phase (m : pmol) (p : phase) (v : vec) : res pmol :=
  match m with
  | [] => Err EUndefPhase
  | pv :: t => if (fst pv =? p)%nat then Ok ((fst pv, vsub (snd pv) v) :: t)
               else do t' <- sub_phase t p v; Ok (pv :: t')
  end.
Fixpoint sub_rows (m : pmol) (o : pmol) : res pmol :=
  match o with
  | [] => Ok m
  | pv :: t => if row_any (snd pv) then do m' <- sub_phase m (target_phase (map fst m) (fst pv)) (snd pv); sub_rows m' t
               else sub_rows m t
  end.
Definition imol_sep (self other : stream) : res stream :=
  if multi self then
    if multi other then
      if list_eqb Nat.eqb (phases self) (phases other) then
        Ok (mkS true (map2 (fun a b => (fst a, vsub (snd a) (snd b))) (pm self) (pm other)) (sT self) (sP self))
      else do m <- sub_rows (pm self) (pm other); Ok (mkS true m (sT self) (sP self))
    else do m <- sub_phase (pm self) (target_phase (phases self) (phase1 other)) (row1 other); Ok (mkS true m (sT self) (sP self))
  else Ok (mkS false [(phase1 self, vsub (row1 self) (mol_sum other))] (sT self) (sP self)).

(* ------------------------------------------------------------------ phases setter (used by the fallback of mix_from) *)
Definition group_nonempty (s : stream) (a b : phase) : bool :=
  existsb (fun pv => ((fst pv =? a)%nat || (fst pv =? b)%nat) && row_any (snd pv)) (pm s).
(* Stream.phase / MultiStream.phase as a list of characters *)
Definition phase_str (s : stream) : list phase :=
  if multi s then
    (if group_nonempty s 3%nat 3%nat then [3%nat] else []) ++
    (if group_nonempty s 4%nat 1%nat then [4%nat] else []) ++
    (if group_nonempty s 5%nat 2%nat then [5%nat] else [])
  else [phase1 s].
Definition set_phases (s : stream) (chars : list phase) : res stream :=
  let ps := phase_set chars in
  match ps with
  | [p] =>
      (* self.phase = p : a MultiStream becomes a Stream holding the sum of its rows *)
      if multi s then Ok (mkS false [(p, mol_sum s)] (sT s) (sP s)) else Ok (set_phase1 s p)
  | _ =>
      if multi s then
        if list_eqb Nat.eqb ps (phases s) then Ok s
        else if forallb (fun pv => negb (row_any (snd pv)) || mem (target_phase ps (fst pv)) ps) (pm s) then
          Ok (mkS true (map (fun p => (p, vsum (ncomp s)
                 (map snd (filter (fun pv => row_any (snd pv) && (target_phase ps (fst pv) =? p)%nat) (pm s))))) ps)
                  (sT s) (sP s))
        else Err EUndefPhase
      else
        let p := target_phase ps (phase1 s) in
        if mem p ps then
          Ok (mkS true (map (fun q => (q, if (q =? p)%nat then row1 s else vzero (ncomp s))) ps) (sT s) (sP s))
        else Err EUndefPhase
  end.

(* [i.phase for i in others]: a Heat/Power object or None has no phase -> AttributeError *)
Fixpoint others_phase_str (st : store) (others : list inlet) : res (list phase) :=
  match others with
  | [] => Ok []
  | IStream i :: t => do s <- sget st i; do r <- others_phase_str st t; Ok (phase_str s ++ r)
  | _ :: _ => Err EOther
  end.

(* ------------------------------------------------------------------ Stream.mix_from, energy_balance=True, vle=False,
   conserve_phases=False; statement by statement *)
Definition sum_H (O : oracles) (ins : list stream) (Q0 : Q) : Q :=
  fold_left (fun acc s => acc + getH O s) ins Q0.                 (* sum([i.H for i in streams], Q) *)

Definition mix_from (O : oracles) (st : store) (r : nat) (others : list inlet) (Q0 : Q) : res store :=
  let streams := streams_of st others in
  let Q := heat_of others Q0 in
  do self <- sget st r;
  match streams with
  | [] => Ok (upd st r (empty self))                               (* self.empty() *)
  | [i] =>
      do o <- sget st i;
      do s1 <- copy_like self o (r =? i)%nat;                      (* self.copy_like(streams[0]) *)
      if qzerob Q then Ok (upd st r s1)
      else match setH O s1 (getH O s1 + Q) with                    (* if Q: self.H += Q *)
           | (s', None) => Ok (upd st r s')
           | (_, Some e) => Err e
           end
  | _ =>
      do ins <- sget_all st streams;
      let H := sum_H O ins Q in                                    (* H = sum([i.H for i in streams], Q) *)
      do P <- minP ins;
      let st1 := upd st r (set_P self P) in                        (* self.P = P = min([i.P for i in streams]) *)
      do self1 <- sget st1 r;
      do ins1 <- sget_all st1 streams;                             (* imols = [i._imol.copy() if i is self else i._imol ...] *)
      do self2 <- imol_mix self1 ins1;                             (* self._imol.mix_from(imols) *)
      let st2 := upd st1 r self2 in
      match setH O self2 H with                                    (* try: self.H = H *)
      | (s', None) => Ok (upd st2 r s')
      | (s3, Some _) =>                                            (* except: *)
          let st3 := upd st2 r s3 in
          do chars <- others_phase_str st3 others;
          do s4 <- set_phases s3 (phase_str s3 ++ chars);          (* self.phases = self.phase + ''.join(...) *)
          let st4 := upd st3 r s4 in
          do s5 <- imol_mix s4 ins1;                               (* self._imol.mix_from(imols): the inlets' flows do not
                                                                      change in between and the receiver's are its copy *)
          match setH O s5 H with                                   (* self.H = H *)
          | (s', None) => Ok (upd st4 r s')
          | (_, Some e) => Err e
          end
      end
  end.

(* Stream.separate_out(other, energy_balance=True) *)
Definition separate_out (O : oracles) (st : store) (r o : nat) : res store :=
  do self0 <- sget st r;
  do _ <- sget st o;
  let st1 := if (r =? o)%nat then upd st r (empty self0) else st in    (* if self is other: self.empty() *)
  do self1 <- sget st1 r;
  do other1 <- sget st1 o;
  let Hnew := getH O self1 - getH O other1 in                            (* H_new = self.H - other.H *)
  do self2 <- imol_sep self1 other1;                                     (* self._imol.separate_out(other._imol) *)
  let st2 := upd st1 r self2 in
  match setH O self2 Hnew with                                           (* self.H = H_new *)
  | (s', None) => Ok (upd st2 r s')
  | (_, Some e) => Err e
  end.

(* ------------------------------------------------------------------ mixture.py: the in-repo iteration maps *)
(* Cn_cache = [counter, Cn]; (phase, mol, P) are closed over in the two model functions *)
Definition cn_cache := (nat * option Q)%type.
Definition refresh (Cnm : Q -> Q) (T : Q) (c : cn_cache) : cn_cache * option Q :=
  let '(counter, Cn) := c in
  let Cn' := if (counter mod 5 =? 0)%nat then Some (Cnm T) else Cn in
  ((S counter, Cn'), Cn').
(* iter_T_at_HP / xiter_T_at_HP:  T + (H - H_model(T)) / Cn *)
Definition iter_T_at_HP (T H : Q) (Hm Cnm : Q -> Q) (c : cn_cache) : res (Q * cn_cache) :=
  let '(c', Cn) := refresh Cnm T c in
  match Cn with
  | None => Err EType
  | Some cn => if qzerob cn then Err EZeroDiv else Ok (T + (H - Hm T) / cn, c')
  end.
(* iter_T_at_SP / xiter_T_at_SP:  T * exp((S - S_model(T)) / Cn) *)
Definition iter_T_at_SP (expf : Q -> Q) (T S : Q) (Sm Cnm : Q -> Q) (c : cn_cache) : res (Q * cn_cache) :=
  let '(c', Cn) := refresh Cnm T c in
  match Cn with
  | None => Err EType
  | Some cn => if qzerob cn then Err EZeroDiv else Ok (T * expf ((S - Sm T) / cn), c')
  end.

(* Mixture.solve_T_at_HP around the two flexsolve calls (oracles [aitken], [secant]) *)
Definition solve_T_at_HP (aitken : Q -> res (Q * cn_cache)) (secant : Q -> Q -> res Q) (tol : Q)
           (H Tguess : Q) (Hm Cnm : Q -> Q) : res Q :=
  do a <- aitken Tguess;
  let '(Tg, c) := a in
  do b <- iter_T_at_HP Tg H Hm Cnm c;
  let T := fst b in
  if qltb tol (Qabs (T - Tg)) then secant Tg T else Ok T.

(* the same wrapper for entropy (solve_T_at_SP / xsolve_T_at_SP) *)
Definition solve_T_at_SP (expf : Q -> Q) (aitken : Q -> res (Q * cn_cache)) (secant : Q -> Q -> res Q) (tol : Q)
           (S Tguess : Q) (Sm Cnm : Q -> Q) : res Q :=
  do a <- aitken Tguess;
  let '(Tg, c) := a in
  do b <- iter_T_at_SP expf Tg S Sm Cnm c;
  let T := fst b in
  if qltb tol (Qabs (T - Tg)) then secant Tg T else Ok T.

(* The mixture's work-space (_free_energy_args, a dict keyed by phase): _load_(x)free_energy_args fills it before the
   solve, and the four wrappers are  `try: <solve> finally: self._free_energy_args.clear()`.  What a wrapper leaves
   behind is part of its result: the entries present when it returns OR raises. *)
Definition workspace := list phase.
Definition with_workspace {A} (loaded : workspace) (body : workspace -> res A) : res A * workspace :=
  let r := body loaded in (r, []).                       (* finally: clear() *)
Definition solve_T_at_HP_ws (loaded : workspace) aitken secant tol H Tguess Hm Cnm : res Q * workspace :=
  with_workspace loaded (fun _ => solve_T_at_HP aitken secant tol H Tguess Hm Cnm).
Definition solve_T_at_SP_ws (loaded : workspace) expf aitken secant tol S Tguess Sm Cnm : res Q * workspace :=
  with_workspace loaded (fun _ => solve_T_at_SP expf aitken secant tol S Tguess Sm Cnm).

(* ------------------------------------------------------------------ phase sub-streams and moving material between phases *)
(* MultiStream.__getitem__(phase): a Stream whose flows ARE the row of that phase (same SparseVector object) and whose
   thermal condition IS the MultiStream's; its phase label is the one asked for.  Stream.__getitem__(key) is the
   stream itself when key.lower() == phase.lower().  The value of such a view when a call starts: *)
Definition lowerp (p : phase) : phase := match p with 1%nat => 4%nat | 2%nat => 5%nat | _ => p end.
Definition view (s : stream) (p : phase) : res stream :=
  if multi s then
    match find (fun pv => (fst pv =? target_phase (phases s) p)%nat) (pm s) with
    | Some pv => Ok (mkS false [(p, snd pv)] (sT s) (sP s))
    | None => Err EUndefPhase
    end
  else if (lowerp p =? lowerp (phase1 s))%nat then Ok s
  else Err EOther.      (* `raise tmo.UndefinedPhase(phase)`: thermosteam has no such attribute, so this is an AttributeError *)
(* rows[p2] += k * rows[p1]; rows[p1] -= k * rows[p1]  (T, P and the overall composition do not change) *)
Definition move_phase (s : stream) (p1 p2 : phase) (k : Q) : stream :=
  match find (fun pv => (fst pv =? p1)%nat) (pm s) with
  | Some pv1 =>
      let d := vscale k (snd pv1) in
      mkS (multi s)
          (map (fun pv => if (fst pv =? p1)%nat then (fst pv, vsub (snd pv) d)
                          else if (fst pv =? p2)%nat then (fst pv, vadd (snd pv) d) else pv) (pm s))
          (sT s) (sP s)
  | None => s
  end.
(* Stream.separate_out(other) where other is the phase view [p] of stream [j] (possibly of the receiver itself: then
   other shares its flow data with self without being self).  The call reads other.H and other's flows before it
   changes anything, so the view enters with the value it has when the call starts. *)
Definition separate_view (O : oracles) (st : store) (r j : nat) (p : phase) : res store :=
  do sj <- sget st j;
  do v <- view sj p;
  do st' <- separate_out O (st ++ [v]) r (length st);
  Ok (firstn (length st) st').

(* Stream.mix_from with phase views among the inlets (views first): every read of a view that mix_from makes (its H,
   its emptiness, its pressure, its flows for imol.mix_from / copy_like) sees the value the view has when the call
   starts, except the second imol.mix_from of the convert-to-multi-phase fallback when the view belongs to the receiver
   (not generated) *)
Fixpoint views (st : store) (vs : list (nat * phase)) : res (list stream) :=
  match vs with
  | [] => Ok []
  | (j, p) :: t => do sj <- sget st j; do v <- view sj p; do r <- views st t; Ok (v :: r)
  end.
Definition mix_views (O : oracles) (st : store) (r : nat) (vs : list (nat * phase)) (others : list inlet) (Q0 : Q) : res store :=
  do vstreams <- views st vs;
  let ot := map IStream (seq (length st) (length vstreams)) ++ others in
  do st' <- mix_from O (st ++ vstreams) r ot Q0;
  Ok (firstn (length st) st').

(* ------------------------------------------------------------------ the per-stream property memo and handles *)
(* _property_cache (dict name -> value per unit flow) and _property_cache_key (mutable 2-list [literal, composition])
   belong to the stream's data: Stream.proxy() hands BOTH objects to the proxy, together with the flows and the
   thermal condition.  A cell is one such bundle; a handle (the original or any of its proxies) is an index of a cell.
   Keys are compared as Python compares them: exact equality of phase(s), T, P and of the composition entries. *)
Definition leib_q (a b : Q) : bool := Z.eqb (Qnum a) (Qnum b) && Pos.eqb (Qden a) (Qden b).
Definition leib_pv (a b : phase * vec) : bool := (fst a =? fst b)%nat && list_eqb leib_q (snd a) (snd b).
Record pkey := mkK { kcomp : pmol; kT : Q; kP : Q }.
Definition pkey_eqb (a b : pkey) : bool :=
  list_eqb leib_pv (kcomp a) (kcomp b) && leib_q (kT a) (kT b) && leib_q (kP a) (kP b).
Definition memo := option (pkey * list (nat * Q)).            (* None = [None, None] / {} *)
Record cell := mkCell { cs : stream; cm : memo }.
Definition key_of (s : stream) : pkey := mkK (pm_div (pm s) (total s)) (sT s) (sP s).
(* property names: 0 = 'H', anything else = 'S' *)
Definition pname (O : oracles) (name : nat) : phase -> vec -> Q -> Q -> Q :=
  match name with 0%nat => Hmix O | _ => Smix O end.
Definition calc (O : oracles) (name : nat) (k : pkey) : Q := xsum (pname O name) (kcomp k) (kT k) (kP k).
Fixpoint lookup (name : nat) (vals : list (nat * Q)) : option Q :=
  match vals with
  | [] => None
  | nv :: t => if (fst nv =? name)%nat then Some (snd nv) else lookup name t
  end.
Definition out_val (flow : bool) (v tot : Q) : option Q := Some (if flow then v * tot else v).

(* Stream._get_property / MultiStream._get_property, nophase=False *)
Definition get_prop (O : oracles) (name : nat) (flow : bool) (c : cell) : option Q * cell :=
  let s := cs c in
  let tot := total s in
  if qzerob tot then ((if flow then Some 0 else None), c) else
  let k := key_of s in
  let fresh := calc O name k in
  match cm c with
  | Some (k0, vals) =>
      if pkey_eqb k k0 then
        match lookup name vals with
        | Some v => (out_val flow v tot, c)                                     (* name in property_cache *)
        | None => (out_val flow fresh tot, mkCell s (Some (k, (name, fresh) :: vals)))
        end
      else (out_val flow fresh tot, mkCell s (Some (k, [(name, fresh)])))      (* property_cache.clear() *)
  | None => (out_val flow fresh tot, mkCell s (Some (k, [(name, fresh)])))
  end.
(* the getter without a memo *)
Definition get_plain (O : oracles) (name : nat) (flow : bool) (c : cell) : option Q * cell :=
  ((if flow then Some (prop_flow (pname O name) (cs c)) else prop_spec (pname O name) (cs c)), c).

Definition tval (O : oracles) (name : nat) (flow : bool) (s : stream) : option Q :=
  if flow then Some (prop_flow (pname O name) s) else prop_spec (pname O name) s.
Definition reader := nat -> bool -> cell -> option Q * cell.

(* ------------------------------------------------------------------ histories over handles *)
Inductive hop :=
| HProxy (h : nat)                                  (* p = s.proxy() : a new handle of the same cell *)
| HRead (h : nat) (name : nat) (flow : bool)        (* s.H, s.S (flow) / s.h (not flow) *)
| HSetT (h : nat) (T : Q)
| HSetP (h : nat) (P : Q)
| HPhase (h : nat) (p : phase)                      (* s.phase = p  (single-phase streams) *)
| HSet (h : nat) (which : nat) (x : Q)              (* 0: s.H = x, 1: s.S = x, 2: s.h = x, 3: s.Hnet = x *)
| HSetCur (h : nat) (which : nat)                   (* s.H = s.H, ... : the value comes from the getter *)
| HMix (h : nat) (others : list inlet) (Q0 : Q)     (* handles inside [others] *)
| HSep (h o : nat)
| HMove (h : nat) (p1 p2 : phase) (k : Q)           (* material moved between the phases of a MultiStream *)
| HReadView (h : nat) (p : phase) (name : nat) (flow : bool)   (* s[p].H ... (the view object has a memo of its own: not modelled) *)
| HSepView (h o : nat) (p : phase)                  (* s.separate_out(t[p]), t possibly s itself *)
| HMixV (h : nat) (vs : list (nat * phase)) (others : list inlet) (Q0 : Q).   (* s.mix_from([t[p], ...] + others, Q=Q0) *)
Inductive obs := ONone | OVal (v : option Q) | OErr (e : option err) | OStop (e : err).
Definition hstate := (list cell * list nat)%type.

Definition with_s (c : cell) (s : stream) : cell := mkCell s (cm c).
Definition idx_of (hs : list nat) (h : nat) : option nat := nth_error hs h.
Definition tr_inlets (hs : list nat) (others : list inlet) : list inlet :=
  map (fun o => match o with
                | IStream h => match nth_error hs h with Some i => IStream i | None => INone end
                | x => x
                end) others.
Definition apply_set (O : oracles) (which : nat) (s : stream) (x : Q) : sres :=
  match which with
  | 0%nat => setH O s x
  | 1%nat => setS O s x
  | 2%nat => seth O s x
  | _ => setHnet O s x
  end.
Definition opt0 (v : option Q) : Q := match v with Some x => x | None => 0 end.
(* what the right-hand side of `s.X = s.X` evaluates to *)
Definition cur_value (O : oracles) (rd : reader) (which : nat) (c : cell) : Q * cell :=
  match which with
  | 0%nat => let r := rd 0%nat true c in (opt0 (fst r), snd r)
  | 1%nat => let r := rd 1%nat true c in (opt0 (fst r), snd r)
  | 2%nat => let r := rd 0%nat false c in (opt0 (fst r), snd r)
  | _ => let r := rd 0%nat true c in (opt0 (fst r) + getHf O (cs c), snd r)      (* Hnet = H + Hf *)
  end.
Definition read_at (rd : reader) (cells : list cell) (i : nat) : list cell :=
  match nth_error cells i with Some c => upd cells i (snd (rd 0%nat true c)) | None => cells end.
(* the enthalpy reads mix_from makes: i.H of every non-empty inlet (before anything is changed), or self.H after
   copy_like when there is one non-empty inlet and heat to add *)
Definition mix_reads (O : oracles) (rd : reader) (cells : list cell) (r : nat) (others : list inlet) (Q0 : Q) : list cell :=
  let st := map cs cells in
  match streams_of st others with
  | [] => cells
  | [i] =>
      if qzerob (heat_of others Q0) then cells else
      match nth_error cells r, nth_error st i with
      | Some cr, Some o =>
          match copy_like (cs cr) o (r =? i)%nat with
          | Ok s1 => upd cells r (snd (rd 0%nat true (mkCell s1 (cm cr))))
          | Err _ => cells
          end
      | _, _ => cells
      end
  | l => fold_left (read_at rd) l cells
  end.
Definition set_streams (cells : list cell) (st : store) : list cell := map2 with_s cells st.

Definition hstep (O : oracles) (rd : reader) (stt : hstate) (op : hop) : obs * hstate :=
  let '(cells, hs) := stt in
  let at_h (h : nat) (k : nat -> cell -> obs * hstate) : obs * hstate :=
    match idx_of hs h with
    | Some i => match nth_error cells i with Some c => k i c | None => (ONone, stt) end
    | None => (ONone, stt)
    end in
  match op with
  | HProxy h => at_h h (fun i _ => (ONone, (cells, hs ++ [i])))
  | HRead h name flow => at_h h (fun i c => let r := rd name flow c in (OVal (fst r), (upd cells i (snd r), hs)))
  | HSetT h T => at_h h (fun i c => (ONone, (upd cells i (with_s c (set_T (cs c) T)), hs)))
  | HSetP h P => at_h h (fun i c => (ONone, (upd cells i (with_s c (set_P (cs c) P)), hs)))
  | HPhase h p => at_h h (fun i c => (ONone, (upd cells i (with_s c (set_phase1 (cs c) p)), hs)))
  | HSet h which x => at_h h (fun i c => let r := apply_set O which (cs c) x in
                                         (OErr (snd r), (upd cells i (with_s c (fst r)), hs)))
  | HSetCur h which => at_h h (fun i c => let v := cur_value O rd which c in
                                          let c1 := snd v in
                                          let r := apply_set O which (cs c1) (fst v) in
                                          (OErr (snd r), (upd cells i (with_s c1 (fst r)), hs)))
  | HMix h others Q0 =>
      at_h h (fun i _ =>
        let ot := tr_inlets hs others in
        match mix_from O (map cs cells) i ot Q0 with
        | Ok st' => (ONone, (set_streams (mix_reads O rd cells i ot Q0) st', hs))
        | Err e => (OStop e, stt)
        end)
  | HSep h o =>
      at_h h (fun i _ =>
        match idx_of hs o with
        | Some j =>
            match separate_out O (map cs cells) i j with
            | Ok st' => (ONone, (set_streams (if (i =? j)%nat then cells else read_at rd (read_at rd cells i) j) st', hs))
            | Err e => (OStop e, stt)
            end
        | None => (ONone, stt)
        end)
  | HMove h p1 p2 k => at_h h (fun i c => (ONone, (upd cells i (with_s c (move_phase (cs c) p1 p2 k)), hs)))
  | HReadView h p name flow =>
      at_h h (fun i c => match view (cs c) p with
                         | Ok v => (OVal (tval O name flow v), stt)
                         | Err e => (OStop e, stt)
                         end)
  | HSepView h o p =>
      at_h h (fun i _ =>
        match idx_of hs o with
        | Some j =>
            match separate_view O (map cs cells) i j p with
            | Ok st' => (ONone, (set_streams (read_at rd cells i) st', hs))
            | Err e => (OStop e, stt)
            end
        | None => (ONone, stt)
        end)
  | HMixV h vs others Q0 =>
      at_h h (fun i _ =>
        let vt := map (fun jp => (match nth_error hs (fst jp) with Some j => j | None => length cells end, snd jp)) vs in
        let ot := tr_inlets hs others in
        match mix_views O (map cs cells) i vt ot Q0 with
        | Ok st' =>
            (* memo reads: the inlets named by handles and the receiver (the view objects have memos of their own) *)
            (ONone, (set_streams (firstn (length cells)
                       (match views (map cs cells) vt with
                        | Ok vstreams => mix_reads O rd (cells ++ map (fun s => mkCell s None) vstreams) i
                                           (map IStream (seq (length cells) (length vstreams)) ++ ot) Q0
                        | Err _ => cells
                        end)) st', hs))
        | Err e => (OStop e, stt)
        end)
  end.

(* a history; it ends at the first mix / separation that raises (the objects are then in an unspecified state) *)
Fixpoint hrun (O : oracles) (rd : reader) (stt : hstate) (ops : list hop) : list obs * hstate :=
  match ops with
  | [] => ([], stt)
  | op :: t =>
      let r := hstep O rd stt op in
      match fst r with
      | OStop e => ([OStop e], snd r)
      | o => let r2 := hrun O rd (snd r) t in (o :: fst r2, snd r2)
      end
  end.

(* the same histories WITHOUT any memo: every read evaluates the property of the current state.  This is the
   specification machine; C02_history_memo_transparent says the real one (shared memo, handles) cannot be told apart *)
Definition tstate := (store * list nat)%type.
Definition tcur (O : oracles) (which : nat) (s : stream) : Q :=
  fst (cur_value O (get_plain O) which (mkCell s None)).
Definition tstep (O : oracles) (stt : tstate) (op : hop) : obs * tstate :=
  let '(st, hs) := stt in
  let at_h (h : nat) (k : nat -> stream -> obs * tstate) : obs * tstate :=
    match idx_of hs h with
    | Some i => match nth_error st i with Some s => k i s | None => (ONone, stt) end
    | None => (ONone, stt)
    end in
  match op with
  | HProxy h => at_h h (fun i _ => (ONone, (st, hs ++ [i])))
  | HRead h name flow => at_h h (fun i s => (OVal (tval O name flow s), stt))
  | HSetT h T => at_h h (fun i s => (ONone, (upd st i (set_T s T), hs)))
  | HSetP h P => at_h h (fun i s => (ONone, (upd st i (set_P s P), hs)))
  | HPhase h p => at_h h (fun i s => (ONone, (upd st i (set_phase1 s p), hs)))
  | HSet h which x => at_h h (fun i s => let r := apply_set O which s x in (OErr (snd r), (upd st i (fst r), hs)))
  | HSetCur h which => at_h h (fun i s => let r := apply_set O which s (tcur O which s) in
                                          (OErr (snd r), (upd st i (fst r), hs)))
  | HMix h others Q0 =>
      at_h h (fun i _ => match mix_from O st i (tr_inlets hs others) Q0 with
                         | Ok st' => (ONone, (st', hs))
                         | Err e => (OStop e, stt)
                         end)
  | HSep h o =>
      at_h h (fun i _ => match idx_of hs o with
                         | Some j => match separate_out O st i j with
                                     | Ok st' => (ONone, (st', hs))
                                     | Err e => (OStop e, stt)
                                     end
                         | None => (ONone, stt)
                         end)
  | HMove h p1 p2 k => at_h h (fun i s => (ONone, (upd st i (move_phase s p1 p2 k), hs)))
  | HReadView h p name flow =>
      at_h h (fun i s => match view s p with
                         | Ok v => (OVal (tval O name flow v), stt)
                         | Err e => (OStop e, stt)
                         end)
  | HSepView h o p =>
      at_h h (fun i _ => match idx_of hs o with
                         | Some j => match separate_view O st i j p with
                                     | Ok st' => (ONone, (st', hs))
                                     | Err e => (OStop e, stt)
                                     end
                         | None => (ONone, stt)
                         end)
  | HMixV h vs others Q0 =>
      at_h h (fun i _ =>
        let vt := map (fun jp => (match nth_error hs (fst jp) with Some j => j | None => length st end, snd jp)) vs in
        match mix_views O st i vt (tr_inlets hs others) Q0 with
        | Ok st' => (ONone, (st', hs))
        | Err e => (OStop e, stt)
        end)
  end.
Fixpoint trun (O : oracles) (stt : tstate) (ops : list hop) : list obs * tstate :=
  match ops with
  | [] => ([], stt)
  | op :: t =>
      let r := tstep O stt op in
      match fst r with
      | OStop e => ([OStop e], snd r)
      | o => let r2 := trun O (snd r) t in (o :: fst r2, snd r2)
      end
  end.

(* ------------------------------------------------------------------ mixture/ideal_mixture_model.py *)
(* IdealTPMixtureModel / IdealTMixtureModel:  sum([j * models[i](phase, T, P) for i, j in mol.dct.items()])
   (mol.dct holds the non-zero entries; a zero entry contributes nothing either way) *)
Definition pure_model := phase -> Q -> Q -> Q.
Definition ideal_sum (models : list pure_model) (p : phase) (mol : vec) (T P : Q) : Q :=
  qsum (map2 (fun j (f : pure_model) => if qzerob j then 0 else j * f p T P) mol models).
(* IdealEntropyModel:  total_mol = mol.sum();  sum([j * models[i](phase, T, P) + j * log(j / total_mol) for ...]);
   [lnf] stands for math.log *)
Definition ideal_S (lnf : Q -> Q) (models : list pure_model) (p : phase) (mol : vec) (T P : Q) : Q :=
  let tot := qsum mol in
  qsum (map2 (fun j (f : pure_model) => if qzerob j then 0 else j * f p T P + j * lnf (j / tot)) mol models).

(* ------------------------------------------------------------------ instances used by the correspondence *)
(* stub package: H(phase) = sum n_i (Cn_i(phase) (T - Tref) + L_i(phase)) with one heat capacity for the condensed
   phases, another for the gas, and a latent offset for the gas; the solver lands on the closed-form root, which is
   one Newton step of iter_T_at_HP from the guess *)
Record stubp := mkP { cnl : vec; cng : vec; latg : vec; s0l : vec; s0g : vec; kpl : vec; kpg : vec; Pref : Q }.
  (* Cn of the condensed phases, Cn of the gas, latent offset of the gas, entropy offsets, pressure coefficients *)
Definition cn_of (c : stubp) (p : phase) : vec := if (p =? 3)%nat then cng c else cnl c.
Definition lat_of (c : stubp) (p : phase) : vec := if (p =? 3)%nat then latg c else [].
Definition s0_of (c : stubp) (p : phase) : vec := if (p =? 3)%nat then s0g c else s0l c.
Definition kp_of (c : stubp) (p : phase) : vec := if (p =? 3)%nat then kpg c else kpl c.
Definition lin_sum (f : stubp -> phase -> vec) (c : stubp) (m : pmol) : Q :=
  fold_right (fun pv acc => vdot (f c (fst pv)) (snd pv) + acc) 0 m.
Definition lin_Cn : stubp -> pmol -> Q := lin_sum cn_of.
Definition lin_L : stubp -> pmol -> Q := lin_sum lat_of.
Definition lin_S0 : stubp -> pmol -> Q := lin_sum s0_of.
Definition lin_K : stubp -> pmol -> Q := lin_sum kp_of.
(* enthalpy depends on phase, temperature AND pressure (as with an equation of state or excess energies):
   H = sum n_i (Cn_i(phase) (T - Tref) + L_i(phase) + k_i(phase) (P - Pref) / 1024) *)
Definition lin_H (c : stubp) (Tref : Q) : phase -> vec -> Q -> Q -> Q :=
  fun p v T P => vdot (cn_of c p) v * (T - Tref) + vdot (lat_of c p) v + vdot (kp_of c p) v * (P - Pref c) / 1024.
(* S = sum n_i (Cn_i(phase) (T - Tref) / 256 + s0_i(phase) - k_i(phase) (P - Pref) / 65536) *)
Definition lin_S (c : stubp) (Tref : Q) : phase -> vec -> Q -> Q -> Q :=
  fun p v T P => vdot (cn_of c p) v * (T - Tref) / 256 + vdot (s0_of c p) v - vdot (kp_of c p) v * (P - Pref c) / 65536.
Definition lin_solve (c : stubp) (Tref : Q) : pmol -> Q -> Q -> Q -> res Q := fun m h Tg P =>
  do r <- iter_T_at_HP Tg h (fun T => xsum (lin_H c Tref) m T P) (fun _ => lin_Cn c m) (O, None);
  Ok (Qred (fst r)).                 (* the same number in lowest terms: keeps the case files small *)
(* entropy: the root in closed form (division by Cn = 0 raises as in iter_T_at_SP) *)
Definition lin_solveS (c : stubp) (Tref : Q) : pmol -> Q -> Q -> Q -> res Q := fun m x Tg P =>
  if qzerob (lin_Cn c m) then Err EZeroDiv
  else Ok (Qred (Tref + 256 * (x - lin_S0 c m + lin_K c m * (P - Pref c) / 65536) / lin_Cn c m)).
Definition lin_oracles (c : stubp) (hf : vec) (Tref : Q) : oracles :=
  mkO (lin_H c Tref) (lin_S c Tref) (lin_solve c Tref) (lin_solveS c Tref) hf.

(* scripted solver: keyed on the phases it is called with; None = raises RuntimeError,
   Some (a, b, c) = returns a + b * target + c * T_guess *)
Definition script := list (list phase * option (Q * Q * Q)).
Fixpoint script_solve (tbl : script) (m : pmol) (x Tg P : Q) : res Q :=
  match tbl with
  | [] => Err ERuntime
  | (ps, r) :: t =>
      if list_eqb Nat.eqb ps (map fst m) then
        match r with
        | None => Err ERuntime
        | Some (a, b, c) => Ok (a + b * x + c * Tg)
        end
      else script_solve t m x Tg P
  end.
Definition script_oracles (c : stubp) (hf : vec) (Tref : Q) (th ts : script) : oracles :=
  mkO (lin_H c Tref) (lin_S c Tref) (script_solve th) (script_solve ts) hf.

(* ------------------------------------------------------------------ comparison helpers for the case files *)
Definition pv_eqb (a b : phase * vec) : bool := (fst a =? fst b)%nat && veqb (snd a) (snd b).
Definition stream_eqb (a b : stream) : bool :=
  Bool.eqb (multi a) (multi b) && list_eqb pv_eqb (pm a) (pm b) && qapproxb (sT a) (sT b) && qeqb (sP a) (sP b).
Definition store_eqb (a b : store) : bool := list_eqb stream_eqb a b.
Definition sres_eqb (a : sres) (b : stream) (e : option err) : bool :=
  stream_eqb (fst a) b && opt_eqb err_eqb (snd a) e.
Definition it_eqb (a : res (Q * cn_cache)) (b : res (Q * cn_cache)) : bool :=
  res_eqb (fun x y => qapproxb (fst x) (fst y) && (fst (snd x) =? fst (snd y))%nat
                      && opt_eqb qeqb (snd (snd x)) (snd (snd y))) a b.

(* what the case files evaluate *)
Definition Hs_ok (O : oracles) (st : store) (Hs : vec) : bool := vapproxb (map (getH O) st) Hs.
Definition store_check (O : oracles) (got : res store) (expected : res store) (Hs : vec) : bool :=
  res_eqb store_eqb got expected && match got with Ok st' => Hs_ok O st' Hs | Err _ => true end.

Definition obs_eqb (a b : obs) : bool :=
  match a, b with
  | ONone, ONone => true
  | OVal x, OVal y => opt_eqb qapproxb x y
  | OErr x, OErr y => opt_eqb err_eqb x y
  | OStop x, OStop y => err_eqb x y
  | _, _ => false
  end.
Definition hist_check (O : oracles) (init : store) (ops : list hop) (expected : list obs) (final : store) (hs : list nat)
           (cmp_final : bool) : bool :=
  let r := hrun O (get_prop O) (map (fun s => mkCell s None) init, seq 0 (length init)) ops in
  list_eqb obs_eqb (fst r) expected &&
  (negb cmp_final || (store_eqb (map cs (fst (snd r))) final && list_eqb Nat.eqb (snd (snd r)) hs)).
Definition ws_eqb (a : res Q * workspace) (b : res Q) (n : nat) : bool :=
  res_eqb qapproxb (fst a) b && (length (snd a) =? n)%nat.
