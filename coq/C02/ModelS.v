(* C02 -- executable model, third part (definitions only): the LIFE-TIME of the [counter, Cn] scratch list of
   mixture.py's temperature solves, over histories of solves made one after the other in one process.

       def solve_T_at_SP(self, phase, mol, S, T_guess, P):
           self._load_free_energy_args(phase, mol, T_guess, P)
           try:
               args = (S, self.S, phase, mol, P, self.Cn, [0, None])          <- a NEW list object for every solve
               T_guess = flx.aitken(iter_T_at_SP, T_guess, self.T_tol, args, self.maxiter, checkiter=False)
               T = iter_T_at_SP(T_guess, *args)                               <- the same list object again
               return (flx.aitken_secant(...) if abs(T - T_guess) > self.T_tol else T)
           finally:
               self._free_energy_args.clear()

   (the same shape for solve_T_at_HP, xsolve_T_at_HP, xsolve_T_at_SP).  The list objects are cells of a heap; the
   iteration functions read and mutate the cell whose address they are handed.  Nothing here assumes that a solve starts
   with a fresh cell: the wrapper allocates one, and that is a fact about the code which the correspondence (kind wseq:
   sequences of solves of very different extensive scale, a driver that really calls the iteration function) checks. *)
From V Require Import Common.Num C02.Model.
Open Scope Q_scope.

(* the arithmetic of one iteration once Cn is known (Python divides AFTER the cache has been mutated) *)
Definition formula := Q -> Q -> res Q.
Definition formula_HP (H : Q) (Hm : Q -> Q) : formula :=
  fun T cn => if qzerob cn then Err EZeroDiv else Ok (T + (H - Hm T) / cn).
Definition formula_SP (expf : Q -> Q) (S : Q) (Sm : Q -> Q) : formula :=
  fun T cn => if qzerob cn then Err EZeroDiv else Ok (T * expf ((S - Sm T) / cn)).

(* (x)iter_T_at_HP / SP on one list object: the value returned or the exception, AND what the list holds afterwards
       counter, Cn = Cn_cache
       if not counter % 5: Cn_cache[1] = Cn = Cn_model(...)
       Cn_cache[0] += 1
       return <formula>                      (TypeError when Cn is still None, ZeroDivisionError when it is 0) *)
Definition iter_cell (g : formula) (Cnm : Q -> Q) (T : Q) (c : cn_cache) : res Q * cn_cache :=
  let '(c', Cn) := refresh Cnm T c in
  (match Cn with None => Err EType | Some cn => g T cn end, c').

(* the heap of scratch lists alive in the process; addresses are positions *)
Definition heap := list cn_cache.
Definition iter_at (g : formula) (Cnm : Q -> Q) (h : heap) (a : nat) (T : Q) : res Q * heap :=
  match nth_error h a with
  | None => (Err EIndex, h)
  | Some c => let r := iter_cell g Cnm T c in (fst r, upd h a (snd r))
  end.

(* a fixed-point driver standing for flexsolve.aitken: it calls f(x, *args) once per weight and moves to
   x + w (f(x) - x)  (w = 1: plain iteration; other weights: relaxed / accelerated steps; Qred = the same number in lowest terms); an exception of f propagates *)
Fixpoint drive (g : formula) (Cnm : Q -> Q) (ws : list Q) (h : heap) (a : nat) (x : Q) : res Q * heap :=
  match ws with
  | [] => (Ok x, h)
  | w :: t => match iter_at g Cnm h a x with
              | (Ok y, h') => drive g Cnm t h' a (Qred (x + w * (y - x)))
              | (Err e, h') => (Err e, h')
              end
  end.

(* the body of the four wrappers between `try:` and `finally:` *)
Definition solve_h (g : formula) (Cnm : Q -> Q) (ws : list Q) (secant : Q -> Q -> res Q) (tol Tguess : Q) (h : heap)
  : res Q * heap :=
  let a := length h in
  let h1 := h ++ [(O, None)] in                                   (* args = (..., [0, None]) *)
  match drive g Cnm ws h1 a Tguess with                           (* T_guess = flx.aitken(iter, T_guess, ..., args, ...) *)
  | (Err e, h2) => (Err e, h2)
  | (Ok Tg, h2) =>
      match iter_at g Cnm h2 a Tg with                            (* T = iter(T_guess, *args) *)
      | (Err e, h3) => (Err e, h3)
      | (Ok T, h3) => (if qltb tol (Qabs (T - Tg)) then secant Tg T else Ok T, h3)
      end
  end.

(* one solve request and the process state it runs in (heap of scratch lists, the mixture's work-space) *)
Record request := mkReq { rq_g : formula; rq_Cn : Q -> Q; rq_ws : list Q; rq_sec : Q -> Q -> res Q; rq_T : Q;
                          rq_load : workspace }.
Definition pstate := (heap * workspace)%type.
(* observed of a solve: what it returned / raised and the final content of ITS scratch list *)
Definition sobs := (res Q * cn_cache)%type.
Definition solve_p (tol : Q) (p : pstate) (r : request) : sobs * pstate :=
  let '(h, w) := p in
  let loaded := w ++ rq_load r in                                 (* _load_(x)free_energy_args *)
  let x := solve_h (rq_g r) (rq_Cn r) (rq_ws r) (rq_sec r) tol (rq_T r) h in
  ((fst x, nth (length h) (snd x) (O, None)), (snd x, @nil phase)).   (* finally: clear() *)
Fixpoint solve_seq (tol : Q) (p : pstate) (rs : list request) : list sobs * pstate :=
  match rs with
  | [] => ([], p)
  | r :: t => let x := solve_p tol p r in
              let y := solve_seq tol (snd x) t in
              (fst x :: fst y, snd y)
  end.

(* ------------------------------------------------------------------ the same on ONE cell, and with no cell at all
   (specification side: ProofsS shows the heap versions cannot be told apart from these) *)
Fixpoint drive1 (g : formula) (Cnm : Q -> Q) (ws : list Q) (c : cn_cache) (x : Q) : res Q * cn_cache :=
  match ws with
  | [] => (Ok x, c)
  | w :: t => match iter_cell g Cnm x c with
              | (Ok y, c') => drive1 g Cnm t c' (Qred (x + w * (y - x)))
              | (Err e, c') => (Err e, c')
              end
  end.
Definition solve1 (g : formula) (Cnm : Q -> Q) (ws : list Q) (secant : Q -> Q -> res Q) (tol Tguess : Q) : sobs :=
  match drive1 g Cnm ws (O, None) Tguess with
  | (Err e, c2) => (Err e, c2)
  | (Ok Tg, c2) =>
      match iter_cell g Cnm Tg c2 with
      | (Err e, c3) => (Err e, c3)
      | (Ok T, c3) => (if qltb tol (Qabs (T - Tg)) then secant Tg T else Ok T, c3)
      end
  end.
Definition solve_alone (tol : Q) (r : request) : sobs :=
  solve1 (rq_g r) (rq_Cn r) (rq_ws r) (rq_sec r) tol (rq_T r).
(* the driver on a function of the temperature alone (the heat capacity fixed) *)
Fixpoint drive0 (f : Q -> res Q) (ws : list Q) (x : Q) : res Q :=
  match ws with
  | [] => Ok x
  | w :: t => match f x with Ok y => drive0 f t (Qred (x + w * (y - x))) | Err e => Err e end
  end.
(* the driver as the [aitken] oracle of Model.solve_T_at_HP / solve_T_at_SP *)
Definition aitken_of (g : formula) (Cnm : Q -> Q) (ws : list Q) : Q -> res (Q * cn_cache) :=
  fun Tg => match drive1 g Cnm ws (O, None) Tg with (Ok x, c) => Ok (x, c) | (Err e, _) => Err e end.

(* ------------------------------------------------------------------ what the case files evaluate (kind wseq) *)
(* expected per solve: result, (number of model evaluations = counter, last Cn handed out), number of Cn evaluations;
   a fresh list refreshes at calls 0, 5, 10, ...: ceil(counter / 5) evaluations of the heat capacity *)
Definition sobs_eqb (a : sobs) (b : res Q * (nat * option Q) * nat) : bool :=
  let '(r, (n, cn), ncn) := b in
  res_eqb qapproxb (fst a) r && (fst (snd a) =? n)%nat && opt_eqb qapproxb (snd (snd a)) cn &&
  (((fst (snd a) + 4) / 5)%nat =? ncn)%nat.
Fixpoint sobs_all (a : list sobs) (b : list (res Q * (nat * option Q) * nat)) : bool :=
  match a, b with
  | [], [] => true
  | x :: a', y :: b' => sobs_eqb x y && sobs_all a' b'
  | _, _ => false
  end.
Definition wseq_check (tol : Q) (rs : list request) (expected : list (res Q * (nat * option Q) * nat)) (left : nat) : bool :=
  let r := solve_seq tol ([], []) rs in
  sobs_all (fst r) expected && (length (snd (snd r)) =? left)%nat && (length (fst (snd r)) =? length rs)%nat.
