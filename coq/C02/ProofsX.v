(* C02 -- third proof file: (A) Stream.mix_from(conserve_phases=True) and the pressure / frame clauses of the extended
   mixing; (B) material carried by the mixing, from which the non-emptiness of the result follows for non-negative
   flows with one non-zero inlet. *)
From Coq Require Import Sorted.
From V Require Import Common.NumFacts C02.Model C02.ModelX C02.Proofs C02.ProofsDeep.
Open Scope Q_scope.

(* ------------------------------------------------------------------ (A) pressure and frame of mix_from_x *)
Lemma mix_x_one O st r others Q0 st' i self :
  contracts O -> Forall wfs st ->
  streams_of st others = [i] -> sget st r = Ok self ->
  mix_from_x O st r others Q0 = Ok st' ->
  exists o s1 s', sget st i = Ok o /\ copy_like_x self o (r =? i)%nat = Ok s1 /\ sget st' r = Ok s' /\ sP s' = sP o /\
    same_but_T_phase s1 s' /\
    length st' = length st /\ (forall k, k <> r -> nth_error st' k = nth_error st k).
Proof.
  intros C W SS Sr H. unfold mix_from_x in H. rewrite SS, Sr in H. cbn [bind] in H. unfold bind in H.
  pose proof (sget_lt _ _ _ Sr) as Lr.
  dres H. rename a into o. dres H. rename a into s1.
  assert (Same : (r =? i)%nat = true -> self = o).
  { intros Eq. apply Nat.eqb_eq in Eq. subst i. congruence. }
  destruct (copy_like_x_reads O self o _ s1 C (sget_wfs _ _ _ W Sr) (sget_wfs _ _ _ W E)
              (compat_placed_always _ _ (sget_wfs _ _ _ W Sr) (sget_wfs _ _ _ W E)) Same E0) as [_ PP].
  destruct (qzerob (heat_of others Q0)) eqn:ZQ.
  - injection H as <-. exists o, s1, s1. split; [reflexivity|]. split; [exact E0|].
    split; [now apply sget_upd_same'|]. split; [exact PP|]. split; [apply same_refl|].
    split; [apply upd_length|]. intros k Hk. now rewrite nth_error_upd_other by auto.
  - destruct (setH O s1 (getH O s1 + heat_of others Q0)) as [sa [ea|]] eqn:SH; [discriminate|].
    injection H as <-. exists o, s1, sa. split; [reflexivity|]. split; [exact E0|].
    split; [now apply sget_upd_same'|].
    split; [rewrite (setH_P _ _ _ _ _ SH); exact PP|].
    split; [exact (set_with_shape _ _ _ _ _ _ SH)|].
    split; [apply upd_length|]. intros k Hk. now rewrite nth_error_upd_other by auto.
Qed.

Lemma mix_x_pressure O st r others Q0 st' ins s' :
  contracts O -> Forall wfs st ->
  mix_from_x O st r others Q0 = Ok st' ->
  streams_of st others <> [] ->
  sget_all st (streams_of st others) = Ok ins ->
  sget st' r = Ok s' ->
  (forall s, In s ins -> sP s' <= sP s) /\ exists s, In s ins /\ sP s = sP s'.
Proof.
  intros C W H NE SA Sr'.
  destruct (streams_of st others) as [|i [|j l]] eqn:SS; [congruence| |].
  - destruct (sget st r) as [self|e] eqn:Sr; [|unfold mix_from_x in H; rewrite SS, Sr in H; discriminate].
    destruct (mix_x_one O st r others Q0 st' i self C W SS Sr H) as (o & s1 & s2 & So & _ & S2 & PP & _).
    destruct (sget_all_one _ _ _ SA) as (o' & So' & ->).
    assert (o' = o) by congruence. subst o'. assert (s2 = s') by congruence. subst s2.
    split.
    + intros s [<-|[]]. rewrite PP. lra.
    + exists o. split; [now left|now rewrite PP].
  - assert (H' : mix_from O st r others Q0 = Ok st') by (unfold mix_from_x in H; now rewrite SS in H).
    rewrite <- SS in SA. apply (mix_pressure_lemma O st r others Q0 st' ins s' C W H'); auto. rewrite SS. discriminate.
Qed.

Lemma mix_x_frame O st r others Q0 st' :
  contracts O -> Forall wfs st ->
  mix_from_x O st r others Q0 = Ok st' ->
  length st' = length st /\ forall k, k <> r -> nth_error st' k = nth_error st k.
Proof.
  intros C W H.
  destruct (streams_of st others) as [|i [|j l]] eqn:SS;
    try (apply (mix_frame_lemma O st r others Q0); unfold mix_from_x in H; now rewrite SS in H).
  destruct (sget st r) as [self|e] eqn:Sr; [|unfold mix_from_x in H; rewrite SS, Sr in H; discriminate].
  destruct (mix_x_one O st r others Q0 st' i self C W SS Sr H) as (o & s1 & s2 & _ & _ & _ & _ & _ & L & F).
  now split.
Qed.

(* ------------------------------------------------------------------ (A) conserve_phases=True *)
Lemma mix_cp_many O st r others Q0 st' i j l self :
  streams_of st others = i :: j :: l -> sget st r = Ok self ->
  mix_from_cp O st r others Q0 = Ok st' ->
  exists ins P chars s2 ins1 s3 s',
    sget_all st (i :: j :: l) = Ok ins /\ minP ins = Ok P /\
    others_phase_str (upd st r (set_P self P)) others = Ok chars /\
    set_phases (set_P self P) (phase_str (set_P self P) ++ chars) = Ok s2 /\
    sget_all (upd (upd st r (set_P self P)) r s2) (i :: j :: l) = Ok ins1 /\
    imol_mix s2 ins1 = Ok s3 /\
    setH O s3 (sum_H O ins (heat_of others Q0)) = (s', None) /\ sP s3 = P /\
    sget st' r = Ok s' /\ length st' = length st /\
    (forall k, k <> r -> nth_error st' k = nth_error st k).
Proof.
  intros SS Sr H. unfold mix_from_cp in H. rewrite SS, Sr in H. cbn [bind] in H.
  pose proof (sget_lt _ _ _ Sr) as Lr.
  unfold bind in H.
  dres H. rename a into ins. dres H. rename a into P.
  dres H. rename a into self1.
  assert (G1 : self1 = set_P self P).
  { rewrite sget_upd_same' in E1 by exact Lr. now injection E1 as <-. }
  subst self1.
  dres H. rename a into chars. dres H. rename a into s2. dres H. rename a into ins1. dres H. rename a into s3.
  destruct (setH O s3 (sum_H O ins (heat_of others Q0))) as [sa [ea|]] eqn:SH; [discriminate|].
  injection H as <-.
  exists ins, P, chars, s2, ins1, s3, sa.
  repeat (split; [first [reflexivity|eassumption]|]).
  split.
  { destruct (imol_mix_TP _ _ _ E5) as [_ P5]. rewrite P5, (set_phases_P _ _ _ E3). reflexivity. }
  split; [|split].
  - apply sget_upd_same'. rewrite !upd_length. exact Lr.
  - rewrite !upd_length. reflexivity.
  - intros k Hk. rewrite !nth_error_upd_other by auto. reflexivity.
Qed.

(* the balance, the pressure and the frame with conserve_phases=True; for fewer than two non-empty inlets the call IS
   mix_from_x *)
Lemma mix_cp_energy O st r others Q0 st' ins s' :
  contracts O -> Forall wfs st ->
  mix_from_cp O st r others Q0 = Ok st' ->
  streams_of st others <> [] ->
  sget_all st (streams_of st others) = Ok ins ->
  sget st' r = Ok s' ->
  getH O s' == (if qzerob (total s') then 0 else qsum (map (getH O) ins) + (Q0 + heats others)).
Proof.
  intros C W H NE SA Sr'.
  destruct (streams_of st others) as [|i [|j l]] eqn:SS; [congruence| |].
  - rewrite <- SS in SA. apply (mix_x_energy_full O st r others Q0 st' ins s' C W); auto.
    + unfold mix_from_cp in H. now rewrite SS in H.
    + rewrite SS. discriminate.
  - destruct (qzerob (total s')) eqn:Z; [apply prop_flow_zero; now apply qzerob_true|]. apply qzerob_false in Z.
    destruct (sget st r) as [self|e] eqn:Sr; [|unfold mix_from_cp in H; rewrite SS, Sr in H; discriminate].
    destruct (mix_cp_many O st r others Q0 st' i j l self SS Sr H)
      as (ins' & P & chars & s2 & ins1 & s3 & sx & SA' & _ & _ & _ & _ & _ & SH & _ & S2 & _).
    assert (ins' = ins) by congruence. subst ins'. assert (sx = s') by congruence. subst sx.
    unfold getH at 1.
    rewrite (set_with_roundtrip (Hmix O) (solveH O) _ _ _ (cH_homog _ C) (cH_spec _ C) SH Z).
    rewrite sum_H_fold, heat_of_heats. reflexivity.
Qed.

Lemma mix_cp_pressure O st r others Q0 st' ins s' :
  contracts O -> Forall wfs st ->
  mix_from_cp O st r others Q0 = Ok st' ->
  streams_of st others <> [] ->
  sget_all st (streams_of st others) = Ok ins ->
  sget st' r = Ok s' ->
  (forall s, In s ins -> sP s' <= sP s) /\ exists s, In s ins /\ sP s = sP s'.
Proof.
  intros C W H NE SA Sr'.
  destruct (streams_of st others) as [|i [|j l]] eqn:SS; [congruence| |].
  - rewrite <- SS in SA. apply (mix_x_pressure O st r others Q0 st' ins s' C W); auto.
    + unfold mix_from_cp in H. now rewrite SS in H.
    + rewrite SS. discriminate.
  - destruct (sget st r) as [self|e] eqn:Sr; [|unfold mix_from_cp in H; rewrite SS, Sr in H; discriminate].
    destruct (mix_cp_many O st r others Q0 st' i j l self SS Sr H)
      as (ins' & P & chars & s2 & ins1 & s3 & sx & SA' & MP & _ & _ & _ & _ & SH & PX & S2 & _).
    assert (ins' = ins) by congruence. subst ins'. assert (sx = s') by congruence. subst sx.
    rewrite (setH_P _ _ _ _ _ SH), PX. now apply minP_spec.
Qed.

Lemma mix_cp_frame O st r others Q0 st' :
  contracts O -> Forall wfs st ->
  mix_from_cp O st r others Q0 = Ok st' ->
  length st' = length st /\ forall k, k <> r -> nth_error st' k = nth_error st k.
Proof.
  intros C W H.
  destruct (streams_of st others) as [|i [|j l]] eqn:SS;
    try (apply (mix_x_frame O st r others Q0 st' C W); unfold mix_from_cp in H; now rewrite SS in H).
  destruct (sget st r) as [self|e] eqn:Sr; [|unfold mix_from_cp in H; rewrite SS, Sr in H; discriminate].
  destruct (mix_cp_many O st r others Q0 st' i j l self SS Sr H)
    as (ins' & P & chars & s2 & ins1 & s3 & sx & _ & _ & _ & _ & _ & _ & _ & _ & _ & L & F).
  now split.
Qed.

(* ------------------------------------------------------------------ (B) non-negative flows: "not isempty()" is "total flow > 0" *)
Definition nonneg_row (v : vec) : Prop := Forall (fun x => 0 <= x) v.
Definition nonneg (s : stream) : Prop := Forall (fun pv : phase * vec => nonneg_row (snd pv)) (pm s).

Lemma nonneg_row_qsum v : nonneg_row v -> 0 <= qsum v.
Proof.
  induction v as [|x v IH]; intros N; [simpl; lra|].
  inversion N as [|y w Nx Nv]; subst. rewrite qsum_cons. specialize (IH Nv). lra.
Qed.

Lemma nonneg_row_any v : nonneg_row v -> row_any v = true -> 0 < qsum v.
Proof.
  induction v as [|x v IH]; intros N A; [discriminate|].
  inversion N as [|y w Nx Nv]; subst. rewrite qsum_cons.
  pose proof (nonneg_row_qsum v Nv) as G.
  unfold row_any in A. simpl in A. apply orb_true_iff in A. destruct A as [A|A].
  - apply negb_true_iff in A. apply qzerob_false in A. lra.
  - specialize (IH Nv A). lra.
Qed.

Lemma nonneg_pm_total m : Forall (fun pv : phase * vec => nonneg_row (snd pv)) m -> 0 <= pm_total m.
Proof.
  induction m as [|pv m IH]; intros N; [simpl; lra|].
  inversion N as [|y w Nx Nm]; subst. rewrite pm_total_cons.
  pose proof (nonneg_row_qsum _ Nx). specialize (IH Nm). lra.
Qed.

Lemma nonneg_nonempty s : nonneg s -> isempty s = false -> 0 < total s.
Proof.
  unfold nonneg, isempty, total, pm_any. intros N E. apply negb_false_iff in E.
  induction (pm s) as [|pv m IH]; [discriminate|].
  inversion N as [|y w Nx Nm]; subst. rewrite pm_total_cons.
  pose proof (nonneg_row_qsum _ Nx) as G1. pose proof (nonneg_pm_total _ Nm) as G2.
  simpl in E. apply orb_true_iff in E. destruct E as [E|E].
  - pose proof (nonneg_row_any _ Nx E). lra.
  - specialize (IH Nm E). lra.
Qed.

(* hence, for a result with non-negative flows, the balance needs only what the code itself tests (isempty()) *)
Lemma mix_x_energy_nonneg O st r others Q0 st' ins s' :
  contracts O -> Forall wfs st ->
  mix_from_x O st r others Q0 = Ok st' ->
  streams_of st others <> [] ->
  sget_all st (streams_of st others) = Ok ins ->
  sget st' r = Ok s' ->
  nonneg s' -> isempty s' = false ->
  getH O s' == qsum (map (getH O) ins) + (Q0 + heats others).
Proof.
  intros C W H NE SA Sr' N E.
  pose proof (mix_x_energy_full O st r others Q0 st' ins s' C W H NE SA Sr') as B.
  pose proof (nonneg_nonempty s' N E) as Pos.
  destruct (qzerob (total s')) eqn:Z; [apply qzerob_true in Z; lra|exact B].
Qed.

(* ------------------------------------------------------------------ (B) the material step of mixing: imol.mix_from carries the
   inlets' total flow, so non-negative inlets with one non-empty inlet leave a receiver with a positive total flow *)
Definition wfn (n : nat) (s : stream) : Prop := Forall (fun pv : phase * vec => length (snd pv) = n) (pm s).

Lemma qsum_vadd a b : length a = length b -> qsum (vadd a b) == qsum a + qsum b.
Proof.
  unfold vadd. revert b. induction a as [|x a IH]; intros [|y b] L; simpl in *; try discriminate; try lra.
  injection L as L. rewrite (IH b L). lra.
Qed.

Lemma qsum_fold_vadd rows acc n :
  length acc = n -> Forall (fun v : vec => length v = n) rows ->
  qsum (fold_left vadd rows acc) == qsum acc + qsum (map qsum rows).
Proof.
  revert acc. induction rows as [|v rows IH]; intros acc La F; simpl; [lra|].
  inversion F as [|x y Lv Fr]; subst. rewrite IH; auto.
  - rewrite qsum_vadd by congruence. lra.
  - rewrite vadd_length; congruence.
Qed.

Lemma qsum_vsum n rows : Forall (fun v : vec => length v = n) rows -> qsum (vsum n rows) == qsum (map qsum rows).
Proof.
  intros F. unfold vsum. rewrite (qsum_fold_vadd rows (vzero n) n); auto.
  - rewrite qsum_vzero. lra.
  - apply repeat_length.
Qed.

Definition all_pm (ins : list stream) : pmol := flat_map pm ins.

Lemma rows_of_phase_filter ps q ins :
  rows_of_phase ps q ins = map snd (filter (fun pv => (target_phase ps (fst pv) =? q)%nat) (all_pm ins)).
Proof.
  unfold rows_of_phase, all_pm. induction ins as [|s ins IH]; [reflexivity|].
  simpl. rewrite filter_app, map_app, IH. reflexivity.
Qed.

Lemma all_rows_all_pm ins : all_rows ins = map snd (all_pm ins).
Proof.
  unfold all_rows, all_pm. induction ins as [|s ins IH]; [reflexivity|]. simpl. rewrite map_app, IH. reflexivity.
Qed.

Lemma total_all_pm ins : qsum (map (fun pv : phase * vec => qsum (snd pv)) (all_pm ins)) == qsum (map total ins).
Proof.
  unfold all_pm. induction ins as [|s ins IH]; [reflexivity|].
  simpl. rewrite map_app, qsum_app, IH. unfold total at 2. rewrite pm_total_as_qsum. reflexivity.
Qed.

Lemma qsum_map_zero {A} (l : list A) : qsum (map (fun _ => 0) l) == 0.
Proof. induction l as [|x l IH]; [reflexivity|]. rewrite map_cons, qsum_cons, IH. lra. Qed.

Lemma partition_sum ps (all : pmol) :
  NoDup ps -> (forall pv, In pv all -> In (target_phase ps (fst pv)) ps) ->
  qsum (map (fun q => qsum (map qsum (map snd (filter (fun pv => (target_phase ps (fst pv) =? q)%nat) all)))) ps)
  == qsum (map (fun pv : phase * vec => qsum (snd pv)) all).
Proof.
  intros ND. induction all as [|pv all IH]; intros Hin.
  - simpl. apply qsum_map_zero.
  - rewrite map_cons, qsum_cons, <- IH by (intros x I; apply Hin; now right).
    rewrite (qsum_map_ext _ (fun q => (if (q =? target_phase ps (fst pv))%nat then qsum (snd pv) else 0)
                + qsum (map qsum (map snd (filter (fun pv0 => (target_phase ps (fst pv0) =? q)%nat) all))))).
    + rewrite qsum_map_plus, (qsum_indicator ps _ (qsum (snd pv)) ND (Hin pv (or_introl eq_refl))). reflexivity.
    + intros q _. simpl. rewrite (Nat.eqb_sym q). destruct (target_phase ps (fst pv) =? q)%nat; simpl; lra.
Qed.

Lemma mem_In_inv p ps : mem p ps = true -> In p ps.
Proof. unfold mem. intros M. apply existsb_exists in M. destruct M as (x & Ix & Ex). apply Nat.eqb_eq in Ex. now subst. Qed.

Lemma in_all_pm_phase pv ins : In pv (all_pm ins) -> In (fst pv) (phases_of ins).
Proof.
  unfold all_pm, phases_of. intros I. apply in_flat_map in I. destruct I as (s & Is & Ip).
  apply in_flat_map. exists s. split; [exact Is|]. unfold phases. now apply in_map.
Qed.

Lemma Forall_filter_keep {A} (P : A -> Prop) f l : Forall P l -> Forall P (filter f l).
Proof. intros F. apply Forall_forall. intros x I. apply filter_In in I. destruct I as [I _]. revert x I. now apply Forall_forall. Qed.

(* the indexer-level mixing carries all the material of the inlets and nothing else *)
Lemma imol_mix_total self ins s2 n :
  wfs self -> Forall (wfn n) ins -> ncomp self = n ->
  imol_mix self ins = Ok s2 -> total s2 == qsum (map total ins).
Proof.
  intros [_ NDs] Wn Nc H.
  assert (LA : Forall (fun pv : phase * vec => length (snd pv) = n) (all_pm ins)).
  { unfold all_pm. apply Forall_forall. intros pv I. apply in_flat_map in I. destruct I as (s & Is & Ip).
    pose proof (proj1 (Forall_forall _ _) Wn s Is) as Ws. exact (proj1 (Forall_forall _ _) Ws pv Ip). }
  unfold imol_mix in H. destruct (multi self).
  - injection H as <-. unfold total. cbn [pm]. rewrite Nc.
    set (ps := if forallb _ _ then _ else _).
    assert (K : NoDup ps /\ forall pv, In pv (all_pm ins) -> In (target_phase ps (fst pv)) ps).
    { unfold ps. destruct (forallb _ _) eqn:FB.
      - split; [exact NDs|]. intros pv I. apply mem_In_inv.
        exact (proj1 (forallb_forall _ _) FB (fst pv) (in_all_pm_phase _ _ I)).
      - destruct (phase_set_spec (phases self ++ phases_of ins)) as [SS II].
        split; [now apply sorted_NoDup|]. intros pv I.
        assert (Ip : In (fst pv) (phase_set (phases self ++ phases_of ins))).
        { apply II. apply in_or_app. right. now apply in_all_pm_phase. }
        unfold target_phase. rewrite (mem_In _ _ Ip). exact Ip. }
    destruct K as [K1 K2].
    rewrite (pm_total_map_rows (fun q => vsum n (rows_of_phase ps q ins))).
    rewrite (qsum_map_ext _ (fun q => qsum (map qsum (map snd (filter (fun pv => (target_phase ps (fst pv) =? q)%nat) (all_pm ins)))))).
    + rewrite (partition_sum ps (all_pm ins) K1 K2). apply total_all_pm.
    + intros q _. rewrite rows_of_phase_filter. apply qsum_vsum.
      apply Forall_forall. intros v Iv. apply in_map_iff in Iv. destruct Iv as (pv & <- & Ipv).
      apply filter_In in Ipv. destruct Ipv as [Ipv _]. exact (proj1 (Forall_forall _ _) LA pv Ipv).
  - injection H as <-. unfold total. cbn [pm]. rewrite pm_total_cons. cbn [snd pm_total fold_right]. rewrite Nc.
    rewrite qsum_vsum.
    + rewrite all_rows_all_pm, map_map. pose proof (total_all_pm ins) as TA. unfold total in TA. rewrite TA. lra.
    + rewrite all_rows_all_pm. apply Forall_forall. intros v Iv. apply in_map_iff in Iv. destruct Iv as (pv & <- & Ipv).
      exact (proj1 (Forall_forall _ _) LA pv Ipv).
Qed.

Lemma qsum_pos_of_nonneg (l : list stream) :
  Forall nonneg l -> Exists (fun s => isempty s = false) l -> 0 < qsum (map total l).
Proof.
  intros N E. induction l as [|s l IH]; [inversion E|].
  inversion N as [|x y Ns Nl]; subst. rewrite map_cons, qsum_cons.
  assert (G : 0 <= qsum (map total l)).
  { clear -Nl. induction l as [|t l IH]; [simpl; lra|]. inversion Nl as [|x y Nt Nl']; subst.
    rewrite map_cons, qsum_cons. pose proof (nonneg_pm_total _ Nt) as Gt. unfold total at 1. specialize (IH Nl'). lra. }
  pose proof (nonneg_pm_total _ Ns) as Gs. fold (total s) in Gs.
  inversion E as [x y Es|x y El]; subst.
  - pose proof (nonneg_nonempty s Ns Es). lra.
  - specialize (IH Nl El). lra.
Qed.

(* non-negative inlets, one of them non-empty: what the indexer-level mixing leaves has a positive total flow *)
Lemma imol_mix_nonempty self ins s2 n :
  wfs self -> Forall (wfn n) ins -> ncomp self = n ->
  Forall nonneg ins -> Exists (fun s => isempty s = false) ins ->
  imol_mix self ins = Ok s2 -> 0 < total s2.
Proof.
  intros W Wn Nc N E H. rewrite (imol_mix_total self ins s2 n W Wn Nc H). now apply qsum_pos_of_nonneg.
Qed.
