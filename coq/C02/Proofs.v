(* C02 -- lemmas.  The oracles (property package, third-party solver) are arbitrary; what is assumed
   about them is collected in [contracts]. *)
From V Require Import Common.NumFacts C02.Model.
Open Scope Q_scope.

(* ------------------------------------------------------------------ contracts on the oracles *)
Definition homog (f : phase -> vec -> Q -> Q -> Q) : Prop :=
  forall p v k T P, ~ k == 0 -> f p (vdivs v k) T P * k == f p v T P.
Definition zero_at_zero (f : phase -> vec -> Q -> Q -> Q) : Prop :=
  forall p n T P, f p (vzero n) T P == 0.
Definition solve_spec (f : phase -> vec -> Q -> Q -> Q) (solve : pmol -> Q -> Q -> Q -> res Q) : Prop :=
  forall m x Tg P T', solve m x Tg P = Ok T' -> xsum f m T' P == x.
Definition solve_fix (f : phase -> vec -> Q -> Q -> Q) (solve : pmol -> Q -> Q -> Q -> res Q) : Prop :=
  forall m x T P, xsum f m T P == x -> exists T', solve m x T P = Ok T' /\ T' == T.

Record contracts (O : oracles) : Prop := mkC {
  cH_homog : homog (Hmix O);
  cS_homog : homog (Smix O);
  cH_zero : zero_at_zero (Hmix O);
  cH_spec : solve_spec (Hmix O) (solveH O);
  cS_spec : solve_spec (Smix O) (solveS O)
}.

(* well-formed streams: a Stream has one row, a MultiStream at least two phases *)
Definition wf (s : stream) : Prop :=
  if multi s then (2 <= length (pm s))%nat else length (pm s) = 1%nat.

(* ------------------------------------------------------------------ sums *)
Lemma xsum_homog f m k T P : homog f -> ~ k == 0 -> xsum f (pm_div m k) T P * k == xsum f m T P.
Proof.
  intros Hh Hk. induction m as [|pv m IH]; simpl.
  - lra.
  - rewrite <- IH. rewrite <- (Hh (fst pv) (snd pv) k T P Hk). lra.
Qed.

Lemma pm_div_phases m k : map fst (pm_div m k) = map fst m.
Proof. induction m as [|pv m IH]; simpl; congruence. Qed.

Lemma row_any_false_qsum v : row_any v = false -> qsum v == 0.
Proof.
  induction v as [|x v IH]; simpl; intros H.
  - lra.
  - apply orb_false_elim in H. destruct H as [Hx Hv].
    apply negb_false_iff in Hx. apply qzerob_true in Hx. rewrite (IH Hv). lra.
Qed.

Lemma pm_any_false_total m : pm_any m = false -> pm_total m == 0.
Proof.
  induction m as [|pv m IH]; simpl; intros H.
  - lra.
  - apply orb_false_elim in H. destruct H as [Hx Hm].
    rewrite (row_any_false_qsum _ Hx), (IH Hm). lra.
Qed.

Lemma isempty_total s : isempty s = true -> total s == 0.
Proof.
  unfold isempty, total. intros H. apply negb_true_iff in H. now apply pm_any_false_total.
Qed.

Lemma prop_flow_zero f s : total s == 0 -> prop_flow f s == 0.
Proof.
  intros H. unfold prop_flow. apply qzerob_true in H. rewrite H. lra.
Qed.

Lemma prop_flow_nonzero f s : homog f -> ~ total s == 0 ->
  prop_flow f s == xsum f (pm s) (sT s) (sP s).
Proof.
  intros Hh Hn. unfold prop_flow. pose proof Hn as Hn'. apply qzerob_false in Hn'. rewrite Hn'.
  now apply xsum_homog.
Qed.

(* ------------------------------------------------------------------ setters *)
Lemma total_set_T s T : total (set_T s T) = total s.
Proof. reflexivity. Qed.

Lemma rows_set_phase1 s p : map snd (pm (set_phase1 s p)) = map snd (pm s).
Proof. unfold set_phase1. destruct (pm s) as [|pv t] eqn:E; simpl; rewrite ?E; reflexivity. Qed.

Lemma pm_total_rows m m' : map snd m = map snd m' -> pm_total m = pm_total m'.
Proof.
  revert m'; induction m as [|pv m IH]; intros [|pv' m'] H; simpl in *; try discriminate; auto.
  injection H as H1 H2. rewrite H1, (IH m' H2). reflexivity.
Qed.

Lemma total_set_phase1 s p : total (set_phase1 s p) = total s.
Proof. unfold total. apply pm_total_rows, rows_set_phase1. Qed.

Lemma sP_set_phase1 s p : sP (set_phase1 s p) = sP s.
Proof. unfold set_phase1. destruct (pm s); reflexivity. Qed.
Lemma sT_set_phase1 s p : sT (set_phase1 s p) = sT s.
Proof. unfold set_phase1. destruct (pm s); reflexivity. Qed.
Lemma multi_set_phase1 s p : multi (set_phase1 s p) = multi s.
Proof. unfold set_phase1. destruct (pm s); reflexivity. Qed.

(* what a successful setter did: it moved T (and possibly flipped the phase label of a Stream) and the
   solver was called on the resulting flows *)
Definition same_but_T_phase (s s' : stream) : Prop :=
  multi s' = multi s /\ map snd (pm s') = map snd (pm s) /\ sP s' = sP s /\
  (multi s = true -> pm s' = pm s).

Lemma same_refl s : same_but_T_phase s s.
Proof. repeat split; auto. Qed.

Lemma same_set_T s T : same_but_T_phase s (set_T s T).
Proof. repeat split; auto. Qed.

Lemma same_total s s' : same_but_T_phase s s' -> total s' = total s.
Proof. intros (_ & R & _). unfold total. now apply pm_total_rows. Qed.

Lemma set_with_shape solve arg s x s' e :
  set_with solve arg s x = (s', e) -> same_but_T_phase s s'.
Proof.
  unfold set_with. destruct (qzerob x && isempty s).
  - intros H; injection H as <- _. apply same_refl.
  - destruct (multi s) eqn:M.
    + unfold solve_into. destruct (solve (arg s) x (sT s) (sP s)); intros H; injection H as <- _.
      apply same_set_T. apply same_refl.
    + destruct (solve (arg s) x (sT s) (sP s)).
      * intros H; injection H as <- _. apply same_set_T.
      * destruct (flip (phase1 s)) as [p'|].
        -- unfold solve_into.
           destruct (solve (arg (set_phase1 s p')) x (sT (set_phase1 s p')) (sP (set_phase1 s p')));
             intros H; injection H as <- _; unfold same_but_T_phase; simpl;
             rewrite multi_set_phase1, rows_set_phase1, sP_set_phase1, M; repeat split; auto; discriminate.
        -- intros H; injection H as <- _. apply same_refl.
Qed.

(* the solver call behind a successful, non-trivial assignment *)
Lemma set_with_solved solve arg s x s' :
  set_with solve arg s x = (s', None) -> ~ total s == 0 ->
  exists s1, same_but_T_phase s s1 /\ sT s1 = sT s /\
             solve (arg s1) x (sT s1) (sP s1) = Ok (sT s') /\ s' = set_T s1 (sT s').
Proof.
  unfold set_with. intros H Hn.
  destruct (isempty s) eqn:E.
  { exfalso. apply Hn. now apply isempty_total. }
  rewrite andb_false_r in H.
  destruct (multi s) eqn:M.
  - unfold solve_into in H. destruct (solve (arg s) x (sT s) (sP s)) as [T'|] eqn:S; [|discriminate].
    injection H as <-. exists s. simpl. repeat split; auto.
  - destruct (solve (arg s) x (sT s) (sP s)) as [T'|] eqn:S.
    + injection H as <-. exists s. simpl. repeat split; auto.
    + destruct (flip (phase1 s)) as [p'|]; [|discriminate].
      unfold solve_into in H.
      destruct (solve (arg (set_phase1 s p')) x (sT (set_phase1 s p')) (sP (set_phase1 s p'))) as [T'|] eqn:S2;
        [|discriminate].
      injection H as <-. exists (set_phase1 s p'). simpl. split; [|split; [|split]]; auto.
      * unfold same_but_T_phase. rewrite multi_set_phase1, rows_set_phase1, sP_set_phase1, M.
        repeat split; auto; discriminate.
      * apply sT_set_phase1.
Qed.

(* reading back a flow property (H, S) after assigning it *)
Lemma set_with_roundtrip f solve s x s' :
  homog f -> solve_spec f solve ->
  set_with solve pm s x = (s', None) -> ~ total s' == 0 ->
  prop_flow f s' == x.
Proof.
  intros Hh Hs H Hn.
  pose proof (set_with_shape _ _ _ _ _ _ H) as Sh.
  rewrite (same_total _ _ Sh) in Hn.
  destruct (set_with_solved _ _ _ _ _ H Hn) as (s1 & Sh1 & _ & Sv & ->).
  rewrite prop_flow_nonzero; auto.
  - simpl. apply (Hs _ _ _ _ _ Sv).
  - rewrite total_set_T, (same_total _ _ Sh1). exact Hn.
Qed.

Lemma set_with_roundtrip_empty f solve s x s' :
  set_with solve pm s x = (s', None) -> total s' == 0 -> x == 0 -> prop_flow f s' == x.
Proof. intros _ H0 Hx. rewrite prop_flow_zero; auto. lra. Qed.

(* ------------------------------------------------------------------ h (specific enthalpy) *)
Lemma comp_nonzero s : ~ total s == 0 -> comp s = pm_div (pm s) (total s).
Proof. intros H. unfold comp. apply qzerob_false in H. now rewrite H. Qed.

Lemma seth_roundtrip O s h s' :
  solve_spec (Hmix O) (solveH O) ->
  seth O s h = (s', None) -> ~ total s == 0 -> geth O s' = Some (xsum (Hmix O) (pm_div (pm s') (total s')) (sT s') (sP s'))
    /\ xsum (Hmix O) (pm_div (pm s') (total s')) (sT s') (sP s') == h.
Proof.
  intros Hs H Hn. unfold seth in H.
  destruct (isempty s) eqn:E.
  { exfalso. apply Hn. now apply isempty_total. }
  assert (Z : qzerob (total s) = false) by now apply qzerob_false.
  rewrite Z, !andb_false_r in H. simpl in H.
  pose proof (set_with_shape _ _ _ _ _ _ H) as Sh.
  destruct (set_with_solved _ _ _ _ _ H Hn) as (s1 & Sh1 & _ & Sv & ->).
  unfold geth, prop_spec. rewrite total_set_T, (same_total _ _ Sh1), Z. split; [reflexivity|].
  simpl. apply Hs in Sv. rewrite comp_nonzero in Sv.
  - rewrite (same_total _ _ Sh1) in Sv. exact Sv.
  - now rewrite (same_total _ _ Sh1).
Qed.

(* ------------------------------------------------------------------ Hnet *)
Lemma mol_sum_rows s s' : map snd (pm s') = map snd (pm s) -> mol_sum s' = mol_sum s.
Proof.
  intros R. unfold mol_sum, ncomp, row1. rewrite R.
  destruct (pm s) as [|pv t], (pm s') as [|pv' t']; simpl in *; try discriminate; auto.
  injection R as R1 R2. now rewrite R1.
Qed.

Lemma setHnet_roundtrip O s x s' :
  contracts O -> setHnet O s x = (s', None) -> ~ total s' == 0 -> getHnet O s' == x.
Proof.
  intros C H Hn. unfold setHnet in H. unfold getHnet.
  pose proof (set_with_shape _ _ _ _ _ _ H) as (_ & R & _).
  unfold getH. rewrite (set_with_roundtrip (Hmix O) (solveH O) s _ s' (cH_homog _ C) (cH_spec _ C) H Hn).
  unfold getHf. rewrite (mol_sum_rows _ _ R). lra.
Qed.

(* ------------------------------------------------------------------ assigning the current value *)
Lemma eta_stream s : mkS (multi s) (pm s) (sT s) (sP s) = s.
Proof. destruct s; reflexivity. Qed.

Lemma set_with_idem f solve s :
  homog f -> solve_fix f solve -> ~ total s == 0 ->
  exists T', set_with solve pm s (prop_flow f s) = (set_T s T', None) /\ T' == sT s.
Proof.
  intros Hh Hf Hn. unfold set_with.
  destruct (isempty s) eqn:E.
  { exfalso. apply Hn. now apply isempty_total. }
  rewrite andb_false_r.
  assert (X : xsum f (pm s) (sT s) (sP s) == prop_flow f s) by (symmetry; now apply prop_flow_nonzero).
  destruct (Hf _ _ _ _ X) as (T' & Sv & ET).
  exists T'. split; auto.
  destruct (multi s); unfold solve_into; rewrite Sv; reflexivity.
Qed.

(* ------------------------------------------------------------------ store *)
Lemma sget_Some st i s : sget st i = Ok s -> nth_error st i = Some s.
Proof. unfold sget. destruct (nth_error st i); intros H; inversion H; auto. Qed.

Lemma sget_upd_same st i s s0 : sget st i = Ok s0 -> sget (upd st i s) i = Ok s.
Proof.
  intros H. apply sget_Some in H. unfold sget. rewrite nth_error_upd_same; auto.
  apply nth_error_Some. congruence.
Qed.

Lemma sget_upd_other st i j s : i <> j -> sget (upd st i s) j = sget st j.
Proof. intros H. unfold sget. now rewrite nth_error_upd_other. Qed.

Lemma sum_H_fold O ins Q0 : sum_H O ins Q0 == qsum (map (getH O) ins) + Q0.
Proof.
  unfold sum_H. revert Q0. induction ins as [|s ins IH]; intros Q0; simpl.
  - lra.
  - rewrite IH. lra.
Qed.

Definition heats (others : list inlet) : Q :=
  qsum (map (fun o => match o with IHeat q => q | _ => 0 end) others).
Lemma heat_of_heats others Q0 : heat_of others Q0 == Q0 + heats others.
Proof.
  unfold heat_of, heats. revert Q0. induction others as [|o t IH]; intros Q0; simpl.
  - lra.
  - rewrite IH. destruct o; lra.
Qed.

(* ------------------------------------------------------------------ copy_like keeps what H depends on *)
Lemma pm_div_cons pv m k : pm_div (pv :: m) k = (fst pv, vdivs (snd pv) k) :: pm_div m k.
Proof. reflexivity. Qed.
Lemma xsum_cons f pv m T P : xsum f (pv :: m) T P = f (fst pv) (snd pv) T P + xsum f m T P.
Proof. reflexivity. Qed.
Lemma qsum_cons x l : qsum (x :: l) = x + qsum l.
Proof. reflexivity. Qed.

Lemma xsum_single_row f (m : pmol) p v T P k :
  zero_at_zero f -> homog f -> ~ k == 0 ->
  xsum f (pm_div (map (fun pv : phase * vec => (fst pv, if (fst pv =? p)%nat then v else vzero (length (snd pv)))) m) k) T P * k
  == qsum (map (fun pv : phase * vec => if (fst pv =? p)%nat then f (fst pv) v T P else 0) m).
Proof.
  intros Hz Hh Hk. induction m as [|pv m IH].
  - simpl. lra.
  - rewrite !map_cons, pm_div_cons, xsum_cons, qsum_cons. cbn [fst snd].
    destruct (fst pv =? p)%nat.
    + pose proof (Hh (fst pv) v k T P Hk) as E. nra.
    + pose proof (Hh (fst pv) (vzero (length (snd pv))) k T P Hk) as E.
      pose proof (Hz (fst pv) (length (snd pv)) T P) as Z0. nra.
Qed.

Lemma qsum_vzero n : qsum (vzero n) == 0.
Proof.
  induction n as [|n IH]; [reflexivity|].
  change (vzero (S n)) with (0 :: vzero n). rewrite qsum_cons, IH. lra.
Qed.

Lemma pm_total_cons pv m : pm_total (pv :: m) = qsum (snd pv) + pm_total m.
Proof. reflexivity. Qed.

Lemma pm_total_single_row (m : pmol) p v :
  pm_total (map (fun pv : phase * vec => (fst pv, if (fst pv =? p)%nat then v else vzero (length (snd pv)))) m)
  == qsum (map (fun pv : phase * vec => if (fst pv =? p)%nat then qsum v else 0) m).
Proof.
  induction m as [|pv m IH].
  - simpl. lra.
  - rewrite !map_cons, pm_total_cons, qsum_cons, IH. cbn [fst snd].
    destruct (fst pv =? p)%nat; [lra|]. rewrite qsum_vzero. lra.
Qed.
