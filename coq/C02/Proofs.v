(* C02 -- lemmas.  The oracles (property package, third-party solver) are arbitrary; what is assumed
   about them is collected in [contracts]. *)
From Coq Require Import Sorted.
From V Require Import Common.NumFacts C02.Model.
Open Scope Q_scope.

(* ------------------------------------------------------------------ contracts on the oracles *)
Definition homog (f : phase -> vec -> Q -> Q -> Q) : Prop :=
  forall p v k T P, ~ k == 0 -> f p (vdivs v k) T P * k == f p v T P.
Definition zero_at_zero (f : phase -> vec -> Q -> Q -> Q) : Prop :=
  forall p n T P, f p (vzero n) T P == 0.
Definition solve_spec (f : phase -> vec -> Q -> Q -> Q) (solve : pmol -> Q -> Q -> Q -> res Q) : Prop :=
  forall m x Tg P T', solve m x Tg P = Ok T' -> xsum f m T' P == x.
Definition solve_fix (f : phase -> vec -> Q -> Q -> Q) (solve : pmol -> Q -> Q -> Q -> res Q) : Prop :=
  forall m x T P, xsum f m T P == x -> exists T', solve m x T P = Ok T' /\ T' == T.

Record contracts (O : oracles) : Prop := mkC {
  cH_homog : homog (Hmix O);
  cS_homog : homog (Smix O);
  cH_zero : zero_at_zero (Hmix O);
  cH_case : forall p v T P, Hmix O (swapcase p) v T P == Hmix O p v T P;   (* 'L' / 'S' use the models of 'l' / 's' *)
  cH_spec : solve_spec (Hmix O) (solveH O);
  cS_spec : solve_spec (Smix O) (solveS O)
}.

(* well-formed streams: a Stream has one row, a MultiStream at least two phases *)
Definition wf (s : stream) : Prop :=
  if multi s then (2 <= length (pm s))%nat else length (pm s) = 1%nat.

(* ------------------------------------------------------------------ sums *)
Lemma xsum_homog f m k T P : homog f -> ~ k == 0 -> xsum f (pm_div m k) T P * k == xsum f m T P.
Proof.
  intros Hh Hk. induction m as [|pv m IH]; simpl.
  - lra.
  - rewrite <- IH. rewrite <- (Hh (fst pv) (snd pv) k T P Hk). lra.
Qed.

Lemma pm_div_phases m k : map fst (pm_div m k) = map fst m.
Proof. induction m as [|pv m IH]; simpl; congruence. Qed.

Lemma row_any_false_qsum v : row_any v = false -> qsum v == 0.
Proof.
  induction v as [|x v IH]; simpl; intros H.
  - lra.
  - apply orb_false_elim in H. destruct H as [Hx Hv].
    apply negb_false_iff in Hx. apply qzerob_true in Hx. rewrite (IH Hv). lra.
Qed.

Lemma pm_any_false_total m : pm_any m = false -> pm_total m == 0.
Proof.
  induction m as [|pv m IH]; simpl; intros H.
  - lra.
  - apply orb_false_elim in H. destruct H as [Hx Hm].
    rewrite (row_any_false_qsum _ Hx), (IH Hm). lra.
Qed.

Lemma isempty_total s : isempty s = true -> total s == 0.
Proof.
  unfold isempty, total. intros H. apply negb_true_iff in H. now apply pm_any_false_total.
Qed.

Lemma prop_flow_zero f s : total s == 0 -> prop_flow f s == 0.
Proof.
  intros H. unfold prop_flow. apply qzerob_true in H. rewrite H. lra.
Qed.

Lemma prop_flow_nonzero f s : homog f -> ~ total s == 0 ->
  prop_flow f s == xsum f (pm s) (sT s) (sP s).
Proof.
  intros Hh Hn. unfold prop_flow. pose proof Hn as Hn'. apply qzerob_false in Hn'. rewrite Hn'.
  now apply xsum_homog.
Qed.

(* ------------------------------------------------------------------ setters *)
Lemma total_set_T s T : total (set_T s T) = total s.
Proof. reflexivity. Qed.

Lemma rows_set_phase1 s p : map snd (pm (set_phase1 s p)) = map snd (pm s).
Proof. unfold set_phase1. destruct (pm s) as [|pv t] eqn:E; simpl; rewrite ?E; reflexivity. Qed.

Lemma pm_total_rows m m' : map snd m = map snd m' -> pm_total m = pm_total m'.
Proof.
  revert m'; induction m as [|pv m IH]; intros [|pv' m'] H; simpl in *; try discriminate; auto.
  injection H as H1 H2. rewrite H1, (IH m' H2). reflexivity.
Qed.

Lemma total_set_phase1 s p : total (set_phase1 s p) = total s.
Proof. unfold total. apply pm_total_rows, rows_set_phase1. Qed.

Lemma sP_set_phase1 s p : sP (set_phase1 s p) = sP s.
Proof. unfold set_phase1. destruct (pm s); reflexivity. Qed.
Lemma sT_set_phase1 s p : sT (set_phase1 s p) = sT s.
Proof. unfold set_phase1. destruct (pm s); reflexivity. Qed.
Lemma multi_set_phase1 s p : multi (set_phase1 s p) = multi s.
Proof. unfold set_phase1. destruct (pm s); reflexivity. Qed.

(* what a successful setter did: it moved T (and possibly flipped the phase label of a Stream) and the
   solver was called on the resulting flows *)
Definition same_but_T_phase (s s' : stream) : Prop :=
  multi s' = multi s /\ map snd (pm s') = map snd (pm s) /\ sP s' = sP s /\
  (multi s = true -> pm s' = pm s).

Lemma same_refl s : same_but_T_phase s s.
Proof. repeat split; auto. Qed.

Lemma same_set_T s T : same_but_T_phase s (set_T s T).
Proof. repeat split; auto. Qed.

Lemma same_total s s' : same_but_T_phase s s' -> total s' = total s.
Proof. intros (_ & R & _). unfold total. now apply pm_total_rows. Qed.

Lemma set_with_shape solve arg s x s' e :
  set_with solve arg s x = (s', e) -> same_but_T_phase s s'.
Proof.
  unfold set_with. destruct (qzerob x && isempty s).
  - intros H; injection H as <- _. apply same_refl.
  - destruct (multi s) eqn:M.
    + unfold solve_into. destruct (solve (arg s) x (sT s) (sP s)); intros H; injection H as <- _.
      apply same_set_T. apply same_refl.
    + destruct (solve (arg s) x (sT s) (sP s)).
      * intros H; injection H as <- _. apply same_set_T.
      * destruct (flip (phase1 s)) as [p'|].
        -- unfold solve_into.
           destruct (solve (arg (set_phase1 s p')) x (sT (set_phase1 s p')) (sP (set_phase1 s p')));
             intros H; injection H as <- _; unfold same_but_T_phase; simpl;
             rewrite multi_set_phase1, rows_set_phase1, sP_set_phase1, M; repeat split; auto; discriminate.
        -- intros H; injection H as <- _. apply same_refl.
Qed.

(* the solver call behind a successful, non-trivial assignment *)
Lemma set_with_solved solve arg s x s' :
  set_with solve arg s x = (s', None) -> ~ total s == 0 ->
  exists s1, same_but_T_phase s s1 /\ sT s1 = sT s /\
             solve (arg s1) x (sT s1) (sP s1) = Ok (sT s') /\ s' = set_T s1 (sT s').
Proof.
  unfold set_with. intros H Hn.
  destruct (isempty s) eqn:E.
  { exfalso. apply Hn. now apply isempty_total. }
  rewrite andb_false_r in H.
  destruct (multi s) eqn:M.
  - unfold solve_into in H. destruct (solve (arg s) x (sT s) (sP s)) as [T'|] eqn:S; [|discriminate].
    injection H as <-. exists s. simpl. repeat split; auto.
  - destruct (solve (arg s) x (sT s) (sP s)) as [T'|] eqn:S.
    + injection H as <-. exists s. simpl. repeat split; auto.
    + destruct (flip (phase1 s)) as [p'|]; [|discriminate].
      unfold solve_into in H.
      destruct (solve (arg (set_phase1 s p')) x (sT (set_phase1 s p')) (sP (set_phase1 s p'))) as [T'|] eqn:S2;
        [|discriminate].
      injection H as <-. exists (set_phase1 s p'). simpl. split; [|split; [|split]]; auto.
      * unfold same_but_T_phase. rewrite multi_set_phase1, rows_set_phase1, sP_set_phase1, M.
        repeat split; auto; discriminate.
      * apply sT_set_phase1.
Qed.

(* reading back a flow property (H, S) after assigning it *)
Lemma set_with_roundtrip f solve s x s' :
  homog f -> solve_spec f solve ->
  set_with solve pm s x = (s', None) -> ~ total s' == 0 ->
  prop_flow f s' == x.
Proof.
  intros Hh Hs H Hn.
  pose proof (set_with_shape _ _ _ _ _ _ H) as Sh.
  rewrite (same_total _ _ Sh) in Hn.
  destruct (set_with_solved _ _ _ _ _ H Hn) as (s1 & Sh1 & _ & Sv & ->).
  rewrite prop_flow_nonzero; auto.
  - simpl. apply (Hs _ _ _ _ _ Sv).
  - rewrite total_set_T, (same_total _ _ Sh1). exact Hn.
Qed.

Lemma set_with_roundtrip_empty f solve s x s' :
  set_with solve pm s x = (s', None) -> total s' == 0 -> x == 0 -> prop_flow f s' == x.
Proof. intros _ H0 Hx. rewrite prop_flow_zero; auto. lra. Qed.

(* ------------------------------------------------------------------ h (specific enthalpy) *)
Lemma comp_nonzero s : ~ total s == 0 -> comp s = pm_div (pm s) (total s).
Proof. intros H. unfold comp. apply qzerob_false in H. now rewrite H. Qed.

Lemma seth_roundtrip O s h s' :
  solve_spec (Hmix O) (solveH O) ->
  seth O s h = (s', None) -> ~ total s == 0 -> geth O s' = Some (xsum (Hmix O) (pm_div (pm s') (total s')) (sT s') (sP s'))
    /\ xsum (Hmix O) (pm_div (pm s') (total s')) (sT s') (sP s') == h.
Proof.
  intros Hs H Hn. unfold seth in H.
  destruct (isempty s) eqn:E.
  { exfalso. apply Hn. now apply isempty_total. }
  assert (Z : qzerob (total s) = false) by now apply qzerob_false.
  rewrite Z, !andb_false_r in H. simpl in H.
  pose proof (set_with_shape _ _ _ _ _ _ H) as Sh.
  destruct (set_with_solved _ _ _ _ _ H Hn) as (s1 & Sh1 & _ & Sv & ->).
  unfold geth, prop_spec. rewrite total_set_T, (same_total _ _ Sh1), Z. split; [reflexivity|].
  simpl. apply Hs in Sv. rewrite comp_nonzero in Sv.
  - rewrite (same_total _ _ Sh1) in Sv. exact Sv.
  - now rewrite (same_total _ _ Sh1).
Qed.

(* ------------------------------------------------------------------ Hnet *)
Lemma mol_sum_rows s s' : map snd (pm s') = map snd (pm s) -> mol_sum s' = mol_sum s.
Proof.
  intros R. unfold mol_sum, ncomp, row1. rewrite R.
  destruct (pm s) as [|pv t], (pm s') as [|pv' t']; simpl in *; try discriminate; auto.
  injection R as R1 R2. now rewrite R1.
Qed.

Lemma setHnet_roundtrip O s x s' :
  contracts O -> setHnet O s x = (s', None) -> ~ total s' == 0 -> getHnet O s' == x.
Proof.
  intros C H Hn. unfold setHnet in H. unfold getHnet.
  pose proof (set_with_shape _ _ _ _ _ _ H) as (_ & R & _).
  unfold getH. rewrite (set_with_roundtrip (Hmix O) (solveH O) s _ s' (cH_homog _ C) (cH_spec _ C) H Hn).
  unfold getHf. rewrite (mol_sum_rows _ _ R). lra.
Qed.

(* ------------------------------------------------------------------ assigning the current value *)
Lemma eta_stream s : mkS (multi s) (pm s) (sT s) (sP s) = s.
Proof. destruct s; reflexivity. Qed.

Lemma set_with_idem f solve s :
  homog f -> solve_fix f solve -> ~ total s == 0 ->
  exists T', set_with solve pm s (prop_flow f s) = (set_T s T', None) /\ T' == sT s.
Proof.
  intros Hh Hf Hn. unfold set_with.
  destruct (isempty s) eqn:E.
  { exfalso. apply Hn. now apply isempty_total. }
  rewrite andb_false_r.
  assert (X : xsum f (pm s) (sT s) (sP s) == prop_flow f s) by (symmetry; now apply prop_flow_nonzero).
  destruct (Hf _ _ _ _ X) as (T' & Sv & ET).
  exists T'. split; auto.
  destruct (multi s); unfold solve_into; rewrite Sv; reflexivity.
Qed.

(* ------------------------------------------------------------------ store *)
Lemma sget_Some st i s : sget st i = Ok s -> nth_error st i = Some s.
Proof. unfold sget. destruct (nth_error st i); intros H; inversion H; auto. Qed.

Lemma sget_upd_same st i s s0 : sget st i = Ok s0 -> sget (upd st i s) i = Ok s.
Proof.
  intros H. apply sget_Some in H. unfold sget. rewrite nth_error_upd_same; auto.
  apply nth_error_Some. congruence.
Qed.

Lemma sget_upd_other st i j s : i <> j -> sget (upd st i s) j = sget st j.
Proof. intros H. unfold sget. now rewrite nth_error_upd_other. Qed.

Lemma sum_H_fold O ins Q0 : sum_H O ins Q0 == qsum (map (getH O) ins) + Q0.
Proof.
  unfold sum_H. revert Q0. induction ins as [|s ins IH]; intros Q0; simpl.
  - lra.
  - rewrite IH. lra.
Qed.

Definition heats (others : list inlet) : Q :=
  qsum (map (fun o => match o with IHeat q => q | _ => 0 end) others).
Lemma heat_of_heats others Q0 : heat_of others Q0 == Q0 + heats others.
Proof.
  unfold heat_of, heats. revert Q0. induction others as [|o t IH]; intros Q0; simpl.
  - lra.
  - rewrite IH. destruct o; lra.
Qed.

(* ------------------------------------------------------------------ copy_like keeps what H depends on *)
Lemma pm_div_cons pv m k : pm_div (pv :: m) k = (fst pv, vdivs (snd pv) k) :: pm_div m k.
Proof. reflexivity. Qed.
Lemma xsum_cons f pv m T P : xsum f (pv :: m) T P = f (fst pv) (snd pv) T P + xsum f m T P.
Proof. reflexivity. Qed.
Lemma qsum_cons x l : qsum (x :: l) = x + qsum l.
Proof. reflexivity. Qed.

Lemma qsum_vzero n : qsum (vzero n) == 0.
Proof.
  induction n as [|n IH]; [reflexivity|].
  change (vzero (S n)) with (0 :: vzero n). rewrite qsum_cons, IH. lra.
Qed.

Lemma pm_total_cons pv m : pm_total (pv :: m) = qsum (snd pv) + pm_total m.
Proof. reflexivity. Qed.

Lemma pm_total_single_row (ps : list phase) p v n :
  pm_total (map (fun q : phase => (q, if (q =? p)%nat then v else vzero n)) ps)
  == qsum (map (fun q : phase => if (q =? p)%nat then qsum v else 0) ps).
Proof.
  induction ps as [|q ps IH].
  - simpl. lra.
  - rewrite !map_cons, pm_total_cons, qsum_cons, IH. cbn [fst snd].
    destruct (q =? p)%nat; [lra|]. rewrite qsum_vzero. lra.
Qed.

Lemma xsum_single_row0 f (ps : list phase) p v n T P :
  zero_at_zero f ->
  xsum f (map (fun q : phase => (q, if (q =? p)%nat then v else vzero n)) ps) T P
  == qsum (map (fun q : phase => if (q =? p)%nat then f p v T P else 0) ps).
Proof.
  intros Hz. induction ps as [|q ps IH].
  - simpl. lra.
  - rewrite !map_cons, xsum_cons, qsum_cons, IH. cbn [fst snd].
    destruct (q =? p)%nat eqn:E.
    + apply Nat.eqb_eq in E. rewrite E. lra.
    + pose proof (Hz q n T P) as Z0. rewrite Z0. lra.
Qed.

Lemma qsum_indicator (ps : list phase) p c :
  NoDup ps -> In p ps ->
  qsum (map (fun q : phase => if (q =? p)%nat then c else 0) ps) == c.
Proof.
  induction ps as [|q ps IH]; intros ND I.
  - destruct I.
  - rewrite map_cons, qsum_cons. inversion ND as [|x l NI ND']; subst.
    destruct (q =? p)%nat eqn:E.
    + apply Nat.eqb_eq in E. subst p.
      assert (Z : qsum (map (fun q0 : phase => if (q0 =? q)%nat then c else 0) ps) == 0).
      { clear IH ND ND' I. induction ps as [|r ps IHm]; [reflexivity|].
        rewrite map_cons, qsum_cons. destruct (r =? q)%nat eqn:E2.
        - apply Nat.eqb_eq in E2. exfalso. apply NI. simpl. now left.
        - rewrite IHm; [lra|]. intros I. apply NI. simpl. now right. }
      rewrite Z. lra.
    + destruct I as [I|I]; [apply Nat.eqb_neq in E; congruence|]. rewrite (IH ND' I). lra.
Qed.

(* phase_set yields a strictly increasing list containing exactly the given phases *)
Lemma insert_phase_spec p l :
  StronglySorted lt l ->
  StronglySorted lt (insert_phase p l) /\ (forall q, In q (insert_phase p l) <-> q = p \/ In q l).
Proof.
  induction l as [|a l IH]; intros S; simpl.
  - split; [repeat constructor|]. intros q. simpl. intuition.
  - inversion S as [|x y S' F]; subst.
    destruct (p =? a)%nat eqn:E.
    + apply Nat.eqb_eq in E. subst a. split; [exact S|]. intros q. simpl. intuition.
    + destruct (p <? a)%nat eqn:L.
      * apply Nat.ltb_lt in L. split.
        -- constructor; [exact S|]. constructor; [exact L|].
           rewrite Forall_forall in *. intros z Iz. specialize (F z Iz). lia.
        -- intros q. simpl. intuition.
      * apply Nat.ltb_ge in L. apply Nat.eqb_neq in E. destruct (IH S') as [S2 I2]. split.
        -- constructor; [exact S2|]. rewrite Forall_forall in *. intros z Iz. apply I2 in Iz.
           destruct Iz as [->|Iz]; [lia|now apply F].
        -- intros q. simpl. rewrite I2. intuition.
Qed.

Lemma phase_set_spec l : StronglySorted lt (phase_set l) /\ (forall q, In q (phase_set l) <-> In q l).
Proof.
  induction l as [|a l [S I]]; simpl.
  - split; [constructor|]. intuition.
  - destruct (insert_phase_spec a (phase_set l) S) as [S2 I2]. split; [exact S2|].
    intros q. rewrite I2, I. intuition.
Qed.

Lemma sorted_NoDup l : StronglySorted lt l -> NoDup l.
Proof.
  induction l as [|a l IH]; intros S; [constructor|].
  inversion S as [|x y S' F]; subst. constructor; [|now apply IH].
  intros I. rewrite Forall_forall in F. specialize (F a I). lia.
Qed.

Lemma qzerob_compat a b : a == b -> qzerob a = qzerob b.
Proof.
  intros E. destruct (qzerob b) eqn:B.
  - apply qzerob_true. apply qzerob_true in B. lra.
  - apply qzerob_false. apply qzerob_false in B. intros Z. apply B. lra.
Qed.

(* well-formed store entries *)
Definition wfs (s : stream) : Prop :=
  (if multi s then (2 <= length (pm s))%nat else length (pm s) = 1%nat) /\ NoDup (phases s).

Lemma has_phase_In s p : mem p (phases s) = true -> In p (phases s).
Proof.
  unfold mem. intros H. apply existsb_exists in H. destruct H as (x & I & E).
  apply Nat.eqb_eq in E. now subst.
Qed.

Lemma getH_any_div f s : homog f -> ~ total s == 0 -> prop_flow f s == xsum f (pm s) (sT s) (sP s).
Proof. apply prop_flow_nonzero. Qed.

Lemma prop_flow_eq_of f s1 s2 :
  homog f -> total s1 == total s2 ->
  xsum f (pm s1) (sT s1) (sP s1) == xsum f (pm s2) (sT s2) (sP s2) ->
  prop_flow f s1 == prop_flow f s2.
Proof.
  intros Hh Ht Hx. unfold prop_flow. rewrite (qzerob_compat _ _ Ht).
  destruct (qzerob (total s2)) eqn:Z; [reflexivity|].
  apply qzerob_false in Z.
  assert (Z1 : ~ total s1 == 0) by (rewrite Ht; exact Z).
  rewrite (xsum_homog _ (pm s1) _ _ _ Hh Z1), (xsum_homog _ (pm s2) _ _ _ Hh Z). exact Hx.
Qed.

Lemma copy_like_reads O self o same s1 :
  contracts O -> wfs self -> wfs o -> (same = true -> self = o) ->
  copy_like self o same = Ok s1 ->
  getH O s1 == getH O o /\ sP s1 = sP o.
Proof.
  intros C Ws Wo Same H. unfold copy_like in H.
  destruct (multi self) eqn:Ms.
  - destruct same.
    + injection H as <-. rewrite (Same eq_refl). split; reflexivity.
    + destruct (multi o) eqn:Mo.
      * destruct (list_eqb Nat.eqb (phases self) (phases o)); [|discriminate].
        injection H as <-. split; reflexivity.
      * injection H as <-. split; [|reflexivity].
        destruct Wo as [Lo _]. rewrite Mo in Lo.
        destruct (pm o) as [|pv [|? ?]] eqn:Po; simpl in Lo; try discriminate.
        assert (P1 : phase1 o = fst pv) by (unfold phase1; now rewrite Po).
        assert (R1 : row1 o = snd pv) by (unfold row1; now rewrite Po).
        destruct Ws as [_ NDs].
        set (ps := if mem (target_phase (phases self) (phase1 o)) (phases self) then phases self
                   else phase_set (phases self ++ [phase1 o])).
        assert (Hps : NoDup ps /\ In (target_phase ps (phase1 o)) ps).
        { unfold ps. destruct (mem (target_phase (phases self) (phase1 o)) (phases self)) eqn:HP.
          - split; [exact NDs|]. now apply has_phase_In in HP.
          - destruct (phase_set_spec (phases self ++ [phase1 o])) as [SS II]. split; [now apply sorted_NoDup|].
            assert (I0 : In (phase1 o) (phase_set (phases self ++ [phase1 o]))).
            { apply II. apply in_or_app. right. now left. }
            unfold target_phase.
            destruct (mem (phase1 o) (phase_set (phases self ++ [phase1 o]))) eqn:M2; [exact I0|].
            exfalso. unfold mem in M2.
            assert (existsb (Nat.eqb (phase1 o)) (phase_set (phases self ++ [phase1 o])) = true).
            { apply existsb_exists. exists (phase1 o). split; [exact I0|apply Nat.eqb_refl]. }
            congruence. }
        destruct Hps as [NDp Inp].
        apply prop_flow_eq_of; [apply (cH_homog _ C)| |]; unfold total; cbn [pm sT sP]; fold ps.
        -- rewrite pm_total_single_row, qsum_indicator; auto.
           rewrite Po, R1. simpl. lra.
        -- rewrite (xsum_single_row0 _ _ _ _ _ _ _ (cH_zero _ C)), qsum_indicator; auto.
           rewrite Po, R1. simpl. rewrite P1. unfold target_phase.
           destruct (mem (fst pv) ps); [lra|]. rewrite (cH_case _ C). lra.
  - destruct (multi o) eqn:Mo.
    + destruct Wo as [Lo _]. rewrite Mo in Lo.
      destruct (pm o) as [|pv [|pv2 t]] eqn:Po; simpl in Lo; try lia.
      injection H as <-. unfold getH, prop_flow, total. cbn [pm sT sP]. rewrite Po. split; reflexivity.
    + destruct same.
      * injection H as <-. rewrite (Same eq_refl). split; reflexivity.
      * injection H as <-. split; reflexivity.
Qed.

Lemma imol_mix_TP self ins s2 : imol_mix self ins = Ok s2 -> sT s2 = sT self /\ sP s2 = sP self.
Proof.
  unfold imol_mix. destruct (multi self); intros H; injection H as <-; auto.
Qed.

Lemma set_phases_P s chars s' : set_phases s chars = Ok s' -> sP s' = sP s.
Proof.
  unfold set_phases. intros H.
  repeat match type of H with
  | context [match ?x with _ => _ end] => destruct x
  end; try discriminate; injection H as <-; auto using sP_set_phase1.
Qed.

Lemma sget_lt st i s : sget st i = Ok s -> (i < length st)%nat.
Proof. intros H. apply sget_Some in H. apply nth_error_Some. congruence. Qed.

Lemma sget_upd_same' st i s : (i < length st)%nat -> sget (upd st i s) i = Ok s.
Proof. intros H. unfold sget. now rewrite nth_error_upd_same. Qed.

Lemma sget_all_one st i ins : sget_all st [i] = Ok ins -> exists o, sget st i = Ok o /\ ins = [o].
Proof.
  simpl. unfold bind. destruct (sget st i) as [o|]; [|discriminate].
  intros H; injection H as <-. now exists o.
Qed.

Lemma sget_wfs st i s : Forall wfs st -> sget st i = Ok s -> wfs s.
Proof.
  intros F H. apply sget_Some in H. apply nth_error_In in H.
  rewrite Forall_forall in F. now apply F.
Qed.

Ltac dres H :=
  match type of H with
  | context [match ?x with Ok _ => _ | Err _ => _ end] =>
      let E := fresh "E" in destruct x eqn:E; [|discriminate]
  end.

Lemma setH_P O s x s' e : setH O s x = (s', e) -> sP s' = sP s.
Proof. intros H. apply set_with_shape in H. now destruct H as (_ & _ & P & _). Qed.

(* the state of the receiver at the end of mix_from with at least two non-empty inlets: it is what a
   successful [self.H = H] produced, with H the sum read from the initial store and P the lowest pressure *)
Lemma mix_from_many O st r others Q0 st' i j l self :
  streams_of st others = i :: j :: l -> sget st r = Ok self ->
  mix_from O st r others Q0 = Ok st' ->
  exists ins P sx s',
    sget_all st (i :: j :: l) = Ok ins /\ minP ins = Ok P /\
    setH O sx (sum_H O ins (heat_of others Q0)) = (s', None) /\ sP sx = P /\
    sget st' r = Ok s' /\ length st' = length st /\
    (forall k, k <> r -> nth_error st' k = nth_error st k).
Proof.
  intros SS Sr H. unfold mix_from in H. rewrite SS, Sr in H. cbn [bind] in H.
  pose proof (sget_lt _ _ _ Sr) as Lr.
  unfold bind in H.
  dres H. rename a into ins. dres H. rename a into P.
  dres H. rename a into self1. dres H. rename a into ins1. dres H. rename a into self2.
  assert (G1 : self1 = set_P self P).
  { rewrite sget_upd_same' in E1 by exact Lr. now injection E1 as <-. }
  destruct (imol_mix_TP _ _ _ E3) as [_ P2]. rewrite G1 in P2. simpl in P2.
  destruct (setH O self2 (sum_H O ins (heat_of others Q0))) as [sa [ea|]] eqn:SH.
  - dres H. rename a into chars. dres H. rename a into s4. dres H. rename a into s5.
    destruct (setH O s5 (sum_H O ins (heat_of others Q0))) as [sb [eb|]] eqn:SH2; [discriminate|].
    injection H as <-.
    exists ins, P, s5, sb. split; [reflexivity|]. split; [exact E0|]. split; [exact SH2|].
    split.
    { destruct (imol_mix_TP _ _ _ E6) as [_ P5]. rewrite P5, (set_phases_P _ _ _ E5), (setH_P _ _ _ _ _ SH). exact P2. }
    assert (L4 : length (upd (upd (upd (upd st r (set_P self P)) r self2) r sa) r s4) = length st)
      by (rewrite !upd_length; reflexivity).
    split; [|split].
    + apply sget_upd_same'. rewrite L4. exact Lr.
    + rewrite upd_length. exact L4.
    + intros k Hk. rewrite !nth_error_upd_other by auto. reflexivity.
  - injection H as <-.
    exists ins, P, self2, sa. split; [reflexivity|]. split; [exact E0|]. split; [exact SH|].
    split; [exact P2|].
    split; [|split].
    + apply sget_upd_same'. rewrite !upd_length. exact Lr.
    + rewrite !upd_length. reflexivity.
    + intros k Hk. rewrite !nth_error_upd_other by auto. reflexivity.
Qed.

Lemma mix_from_one O st r others Q0 st' i self :
  contracts O -> Forall wfs st ->
  streams_of st others = [i] -> sget st r = Ok self ->
  mix_from O st r others Q0 = Ok st' ->
  exists o s', sget st i = Ok o /\ sget st' r = Ok s' /\ sP s' = sP o /\
    (~ total s' == 0 -> getH O s' == getH O o + heat_of others Q0) /\
    length st' = length st /\ (forall k, k <> r -> nth_error st' k = nth_error st k).
Proof.
  intros C W SS Sr H. unfold mix_from in H. rewrite SS, Sr in H. cbn [bind] in H. unfold bind in H.
  pose proof (sget_lt _ _ _ Sr) as Lr.
  dres H. rename a into o. dres H. rename a into s1.
  assert (Same : (r =? i)%nat = true -> self = o).
  { intros Eq. apply Nat.eqb_eq in Eq. subst i. congruence. }
  destruct (copy_like_reads O self o _ s1 C (sget_wfs _ _ _ W Sr) (sget_wfs _ _ _ W E) Same E0) as [HH PP].
  destruct (qzerob (heat_of others Q0)) eqn:ZQ.
  - injection H as <-. exists o, s1. split; [reflexivity|]. split; [now apply sget_upd_same'|]. split; [exact PP|].
    split; [|split].
    + intros _. apply qzerob_true in ZQ. rewrite HH, ZQ. lra.
    + apply upd_length.
    + intros k Hk. now rewrite nth_error_upd_other by auto.
  - destruct (setH O s1 (getH O s1 + heat_of others Q0)) as [sa [ea|]] eqn:SH; [discriminate|].
    injection H as <-. exists o, sa. split; [reflexivity|]. split; [now apply sget_upd_same'|].
    split; [rewrite (setH_P _ _ _ _ _ SH); exact PP|].
    split; [|split].
    + intros Hn. unfold getH at 1.
      rewrite (set_with_roundtrip (Hmix O) (solveH O) _ _ _ (cH_homog _ C) (cH_spec _ C) SH Hn).
      rewrite HH. reflexivity.
    + apply upd_length.
    + intros k Hk. now rewrite nth_error_upd_other by auto.
Qed.

(* ------------------------------------------------------------------ the lowest pressure *)
Lemma qmin_le_l a b : qmin a b <= a.
Proof. unfold qmin. destruct (Qle_bool a b) eqn:E; [lra|]. 
  assert (~ a <= b) by (intros L; apply Qle_bool_iff in L; congruence). lra. Qed.
Lemma qmin_le_r a b : qmin a b <= b.
Proof. unfold qmin. destruct (Qle_bool a b) eqn:E; [now apply Qle_bool_iff|lra]. Qed.
Lemma qmin_cases a b : qmin a b = a \/ qmin a b = b.
Proof. unfold qmin. destruct (Qle_bool a b); auto. Qed.

Lemma fold_qmin_spec l a :
  fold_left qmin l a <= a /\ (forall x, In x l -> fold_left qmin l a <= x) /\
  (fold_left qmin l a = a \/ In (fold_left qmin l a) l).
Proof.
  revert a. induction l as [|b l IH]; intros a; simpl.
  - split; [lra|]. split; [intros x []|now left].
  - destruct (IH (qmin a b)) as (L1 & L2 & L3).
    pose proof (qmin_le_l a b). pose proof (qmin_le_r a b).
    split; [lra|]. split.
    + intros x [<-|I]; [lra|now apply L2].
    + destruct L3 as [L3|L3]; [|now right; right].
      destruct (qmin_cases a b) as [Q|Q]; rewrite L3, Q; [now left|now right; left].
Qed.

Lemma minP_spec ins P : minP ins = Ok P ->
  (forall s, In s ins -> P <= sP s) /\ exists s, In s ins /\ sP s = P.
Proof.
  unfold minP. destruct ins as [|s t]; [discriminate|]. intros H; injection H as <-.
  destruct (fold_qmin_spec (map sP t) (sP s)) as (L1 & L2 & L3). split.
  - intros s0 [<-|I]; [exact L1|]. apply L2. now apply in_map.
  - destruct L3 as [L3|L3].
    + exists s. split; [now left|now rewrite L3].
    + apply in_map_iff in L3. destruct L3 as (s0 & E & I). exists s0. split; [now right|exact E].
Qed.

(* ------------------------------------------------------------------ the two main mixing lemmas *)
Lemma mix_energy_lemma O st r others Q0 st' ins s' :
  contracts O -> Forall wfs st ->
  mix_from O st r others Q0 = Ok st' ->
  streams_of st others <> [] ->
  sget_all st (streams_of st others) = Ok ins ->
  sget st' r = Ok s' ->
  ~ total s' == 0 ->
  getH O s' == qsum (map (getH O) ins) + (Q0 + heats others).
Proof.
  intros C W H NE SA Sr' Hn.
  destruct (sget st r) as [self|e] eqn:Sr; [|unfold mix_from in H; rewrite Sr in H; discriminate].
  destruct (streams_of st others) as [|i [|j l]] eqn:SS; [congruence| |].
  - destruct (mix_from_one O st r others Q0 st' i self C W SS Sr H) as (o & s2 & So & S2 & _ & HH & _).
    destruct (sget_all_one _ _ _ SA) as (o' & So' & ->).
    assert (o' = o) by congruence. subst o'. assert (s2 = s') by congruence. subst s2.
    rewrite (HH Hn), heat_of_heats. simpl. lra.
  - destruct (mix_from_many O st r others Q0 st' i j l self SS Sr H) as (ins' & P & sx & s2 & SA' & _ & SH & _ & S2 & _).
    assert (ins' = ins) by congruence. subst ins'. assert (s2 = s') by congruence. subst s2.
    unfold getH at 1.
    rewrite (set_with_roundtrip (Hmix O) (solveH O) _ _ _ (cH_homog _ C) (cH_spec _ C) SH Hn).
    rewrite sum_H_fold, heat_of_heats. reflexivity.
Qed.

Lemma mix_pressure_lemma O st r others Q0 st' ins s' :
  contracts O -> Forall wfs st ->
  mix_from O st r others Q0 = Ok st' ->
  streams_of st others <> [] ->
  sget_all st (streams_of st others) = Ok ins ->
  sget st' r = Ok s' ->
  (forall s, In s ins -> sP s' <= sP s) /\ exists s, In s ins /\ sP s = sP s'.
Proof.
  intros C W H NE SA Sr'.
  destruct (sget st r) as [self|e] eqn:Sr; [|unfold mix_from in H; rewrite Sr in H; discriminate].
  destruct (streams_of st others) as [|i [|j l]] eqn:SS; [congruence| |].
  - destruct (mix_from_one O st r others Q0 st' i self C W SS Sr H) as (o & s2 & So & S2 & PP & _).
    destruct (sget_all_one _ _ _ SA) as (o' & So' & ->).
    assert (o' = o) by congruence. subst o'. assert (s2 = s') by congruence. subst s2.
    split.
    + intros s [<-|[]]. rewrite PP. lra.
    + exists o. split; [now left|now rewrite PP].
  - destruct (mix_from_many O st r others Q0 st' i j l self SS Sr H) as (ins' & P & sx & s2 & SA' & MP & SH & PX & S2 & _).
    assert (ins' = ins) by congruence. subst ins'. assert (s2 = s') by congruence. subst s2.
    rewrite (setH_P _ _ _ _ _ SH), PX. now apply minP_spec.
Qed.

Lemma mix_frame_lemma O st r others Q0 st' :
  mix_from O st r others Q0 = Ok st' ->
  length st' = length st /\ forall k, k <> r -> nth_error st' k = nth_error st k.
Proof.
  intros H.
  destruct (sget st r) as [self|e] eqn:Sr; [|unfold mix_from in H; rewrite Sr in H; discriminate].
  destruct (streams_of st others) as [|i [|j l]] eqn:SS.
  - unfold mix_from in H. rewrite SS, Sr in H. cbn [bind] in H. injection H as <-. split.
    + apply upd_length.
    + intros k Hk. now rewrite nth_error_upd_other by auto.
  - unfold mix_from in H. rewrite SS, Sr in H. cbn [bind] in H. unfold bind in H.
    dres H. dres H.
    destruct (qzerob (heat_of others Q0)).
    + injection H as <-. split; [apply upd_length|]. intros k Hk. now rewrite nth_error_upd_other by auto.
    + destruct (setH O a0 _) as [sa [ea|]]; [discriminate|]. injection H as <-.
      split; [apply upd_length|]. intros k Hk. now rewrite nth_error_upd_other by auto.
  - destruct (mix_from_many O st r others Q0 st' i j l self SS Sr H) as (ins0 & P0 & sx0 & s0 & _ & _ & _ & _ & _ & L & F).
    now split.
Qed.

(* ------------------------------------------------------------------ separate_out *)
Lemma sep_energy_lemma O st r o st' sr so s' :
  contracts O ->
  separate_out O st r o = Ok st' -> r <> o ->
  sget st r = Ok sr -> sget st o = Ok so -> sget st' r = Ok s' ->
  ~ total s' == 0 ->
  getH O s' == getH O sr - getH O so.
Proof.
  intros C H Ne Sr So Sr' Hn. unfold separate_out in H. rewrite Sr, So in H. cbn [bind] in H.
  apply Nat.eqb_neq in Ne. rewrite Ne, Sr, So in H. cbn [bind] in H. unfold bind in H.
  dres H. rename a into self2.
  destruct (setH O self2 (getH O sr - getH O so)) as [sa [ea|]] eqn:SH; [discriminate|].
  injection H as <-.
  rewrite sget_upd_same' in Sr' by (rewrite upd_length; eapply sget_lt; eauto).
  injection Sr' as <-.
  unfold getH at 1.
  apply (set_with_roundtrip (Hmix O) (solveH O) _ _ _ (cH_homog _ C) (cH_spec _ C) SH Hn).
Qed.

Lemma sep_frame_lemma O st r o st' :
  separate_out O st r o = Ok st' ->
  length st' = length st /\ forall k, k <> r -> nth_error st' k = nth_error st k.
Proof.
  intros H. unfold separate_out in H. unfold bind in H.
  dres H. dres H. dres H. dres H. dres H.
  destruct (setH O a3 _) as [sa [ea|]]; [discriminate|]. injection H as <-.
  destruct (r =? o)%nat.
  - split; [now rewrite !upd_length|]. intros k Hk. now rewrite !nth_error_upd_other by auto.
  - split; [now rewrite !upd_length|]. intros k Hk. now rewrite !nth_error_upd_other by auto.
Qed.

Lemma qsum_vsub_zero n : qsum (vsub (vzero n) (vzero n)) == 0.
Proof.
  induction n as [|n IH]; [reflexivity|].
  change (vsub (vzero (S n)) (vzero (S n))) with ((0 - 0) :: vsub (vzero n) (vzero n)).
  rewrite qsum_cons, IH. lra.
Qed.
Lemma qsum_vsub_zero2 n : qsum (vsub (vzero n) (vadd (vzero n) (vzero n))) == 0.
Proof.
  induction n as [|n IH]; [reflexivity|].
  change (vsub (vzero (S n)) (vadd (vzero (S n)) (vzero (S n))))
    with ((0 - (0 + 0)) :: vsub (vzero n) (vadd (vzero n) (vzero n))).
  rewrite qsum_cons, IH. lra.
Qed.
Lemma list_eqb_nat_refl l : list_eqb Nat.eqb l l = true.
Proof. induction l as [|x l IH]; simpl; auto. now rewrite Nat.eqb_refl. Qed.

Lemma total_sep_empty_self s s2 : wfs s -> imol_sep (empty s) (empty s) = Ok s2 -> total s2 == 0.
Proof.
  intros [L _] H. unfold imol_sep in H. cbn [multi empty] in H.
  destruct (multi s) eqn:M.
  - rewrite list_eqb_nat_refl in H. injection H as <-. unfold total. cbn [pm empty].
    clear L. induction (pm s) as [|pv m IH]; [reflexivity|].
    rewrite map_cons. cbn [map2 fst snd]. rewrite pm_total_cons. cbn [snd].
    rewrite qsum_vsub_zero, IH. lra.
  - injection H as <-. unfold total. cbn [pm]. rewrite pm_total_cons. cbn [snd pm_total fold_right].
    destruct (pm s) as [|pv [|? ?]] eqn:Pm; simpl in L; try discriminate.
    unfold row1, mol_sum, ncomp, row1, vsum, empty. cbn [pm]. rewrite Pm. cbn [map fst snd fold_left].
    unfold vzero at 3. rewrite repeat_length. fold (vzero (length (snd pv))).
    rewrite qsum_vsub_zero2. lra.
Qed.

Lemma sep_self_lemma O st r st' s' :
  Forall wfs st -> separate_out O st r r = Ok st' -> sget st' r = Ok s' -> getH O s' == 0.
Proof.
  intros W H Sr'. unfold separate_out in H. rewrite Nat.eqb_refl in H. unfold bind in H.
  dres H. rename a into self0.
  rewrite sget_upd_same' in H by (eapply sget_lt; eauto).
  dres H. rename a into self2.
  destruct (setH O self2 _) as [sa [ea|]] eqn:SH; [discriminate|]. injection H as <-.
  rewrite sget_upd_same' in Sr' by (rewrite !upd_length; eapply sget_lt; eauto).
  injection Sr' as <-.
  apply prop_flow_zero.
  rewrite (same_total _ _ (set_with_shape _ _ _ _ _ _ SH)).
  eapply total_sep_empty_self; eauto. eapply sget_wfs; eauto.
Qed.

(* ------------------------------------------------------------------ in-repo iteration maps *)
Lemma iter_fixed_lemma T H Hm Cnm c T' c' :
  iter_T_at_HP T H Hm Cnm c = Ok (T', c') -> H == Hm T -> T' == T.
Proof.
  unfold iter_T_at_HP. destruct (refresh Cnm T c) as [c1 [cn|]]; [|discriminate].
  destruct (qzerob cn) eqn:Z; [discriminate|]. intros E HH. injection E as <- _.
  apply qzerob_false in Z. rewrite HH. field. exact Z.
Qed.

(* the heat capacity the step divides by *)
Definition cn_used (Cnm : Q -> Q) (T : Q) (c : cn_cache) : option Q := snd (refresh Cnm T c).

Lemma iter_affine_lemma T H Hm Cnm c T' c' a b :
  iter_T_at_HP T H Hm Cnm c = Ok (T', c') ->
  (forall t, Hm t == a * t + b) ->
  (forall cn, cn_used Cnm T c = Some cn -> cn == a) ->
  Hm T' == H.
Proof.
  unfold iter_T_at_HP, cn_used. destruct (refresh Cnm T c) as [c1 [cn|]]; [|discriminate].
  destruct (qzerob cn) eqn:Z; [discriminate|]. intros E Aff Cn. injection E as <- _.
  apply qzerob_false in Z. specialize (Cn cn eq_refl).
  rewrite Aff, Aff. assert (Za : ~ a == 0) by (rewrite <- Cn; exact Z).
  rewrite Cn. field. exact Za.
Qed.

Lemma iter_S_fixed_lemma expf T S Sm Cnm c T' c' :
  (forall x, x == 0 -> expf x == 1) ->
  iter_T_at_SP expf T S Sm Cnm c = Ok (T', c') -> S == Sm T -> T' == T.
Proof.
  intros Ex. unfold iter_T_at_SP. destruct (refresh Cnm T c) as [c1 [cn|]]; [|discriminate].
  destruct (qzerob cn) eqn:Z; [discriminate|]. intros E HH. injection E as <- _.
  apply qzerob_false in Z. rewrite Ex; [lra|]. rewrite HH. field. exact Z.
Qed.

Lemma refresh_counter Cnm T c : fst (fst (refresh Cnm T c)) = S (fst c).
Proof. destruct c as [n cn]. reflexivity. Qed.

(* the wrapper returns the Newton step from flexsolve's answer when the polish is skipped *)
Lemma solve_wrapper_lemma aitken secant tol H Tguess Hm Cnm T a b Tg c :
  solve_T_at_HP aitken secant tol H Tguess Hm Cnm = Ok T ->
  aitken Tguess = Ok (Tg, c) ->
  (forall t, Hm t == a * t + b) ->
  (forall cn, cn_used Cnm Tg c = Some cn -> cn == a) ->
  (exists T1, T1 == Tg + (H - Hm Tg) / a /\ Hm T1 == H /\
     (qltb tol (Qabs (T1 - Tg)) = false -> T = T1) /\
     (qltb tol (Qabs (T1 - Tg)) = true -> secant Tg T1 = Ok T)).
Proof.
  unfold solve_T_at_HP. intros S A Aff Cn. rewrite A in S. cbn [bind] in S.
  destruct (iter_T_at_HP Tg H Hm Cnm c) as [[T1 c1]|] eqn:I; [|discriminate]. cbn [bind fst] in S.
  exists T1. split; [|split; [|split]].
  - unfold iter_T_at_HP, cn_used in *. destruct (refresh Cnm Tg c) as [c2 [cn|]]; [|discriminate].
    destruct (qzerob cn) eqn:Z; [discriminate|]. injection I as <- _.
    apply qzerob_false in Z. specialize (Cn cn eq_refl).
    assert (Za : ~ a == 0) by (rewrite <- Cn; exact Z).
    rewrite Cn. reflexivity.
  - eapply iter_affine_lemma; eauto.
  - intros F. rewrite F in S. now injection S.
  - intros F. now rewrite F in S.
Qed.

(* ------------------------------------------------------------------ the linear stub satisfies the contracts *)
Lemma vdot_cons a x b y : vdot (a :: x) (b :: y) = a * b + vdot x y.
Proof. reflexivity. Qed.
Lemma vdot_vdivs cn v k : ~ k == 0 -> vdot cn (vdivs v k) * k == vdot cn v.
Proof.
  intros Hk. revert v. induction cn as [|a cn IH]; intros [|x v]; try (unfold vdot, vmul, vdivs, qsum; simpl; lra).
  change (vdivs (x :: v) k) with ((x / k) :: vdivs v k). rewrite !vdot_cons.
  rewrite <- (IH v). field. exact Hk.
Qed.
Lemma vdot_vzero cn n : vdot cn (vzero n) == 0.
Proof.
  revert n. induction cn as [|a cn IH]; intros [|n]; try (unfold vdot, vmul, vzero, qsum; simpl; lra).
  change (vzero (S n)) with (0 :: vzero n). rewrite vdot_cons, IH. lra.
Qed.

Lemma lin_sum_cons f c pv m : lin_sum f c (pv :: m) = vdot (f c (fst pv)) (snd pv) + lin_sum f c m.
Proof. reflexivity. Qed.

Lemma xsum_lin c Tref m T P :
  xsum (lin_H c Tref) m T P == lin_Cn c m * (T - Tref) + lin_L c m + lin_K c m * (P - Pref c) / 1024.
Proof.
  induction m as [|pv m IH]; [simpl; field|].
  rewrite xsum_cons. unfold lin_Cn, lin_L, lin_K in *. rewrite !lin_sum_cons, IH. unfold lin_H. field.
Qed.

Local Opaque Qred.

Lemma lin_solve_value c Tref m h Tg P T' :
  lin_solve c Tref m h Tg P = Ok T' ->
  ~ lin_Cn c m == 0 /\
  T' == Tg + (h - (lin_Cn c m * (Tg - Tref) + lin_L c m + lin_K c m * (P - Pref c) / 1024)) / lin_Cn c m.
Proof.
  unfold lin_solve, iter_T_at_HP, refresh. simpl Nat.eqb. cbv iota.
  destruct (qzerob (lin_Cn c m)) eqn:Z; [discriminate|]. cbn [bind fst]. intros E; injection E as <-.
  apply qzerob_false in Z. split; [exact Z|]. etransitivity; [apply Qred_correct|]. rewrite xsum_lin. reflexivity.
Qed.

Lemma vdot_nil_l v : vdot [] v == 0.
Proof. reflexivity. Qed.

Lemma swapcase_gas p : (swapcase p =? 3)%nat = (p =? 3)%nat.
Proof. destruct p as [|[|[|[|[|[|p]]]]]]; reflexivity. Qed.

Lemma xsum_linS c Tref m T P :
  xsum (lin_S c Tref) m T P == lin_Cn c m * (T - Tref) / 256 + lin_S0 c m - lin_K c m * (P - Pref c) / 65536.
Proof.
  induction m as [|pv m IH]; [simpl; field|].
  rewrite xsum_cons. unfold lin_Cn, lin_S0, lin_K in *. rewrite !lin_sum_cons, IH. unfold lin_S. field.
Qed.

Lemma lin_contracts c hf Tref : contracts (lin_oracles c hf Tref).
Proof.
  constructor; cbn [Hmix Smix solveH solveS lin_oracles].
  - intros p v k T P Hk. unfold lin_H.
    rewrite <- (vdot_vdivs (cn_of c p) v k Hk), <- (vdot_vdivs (lat_of c p) v k Hk), <- (vdot_vdivs (kp_of c p) v k Hk). field.
  - intros p v k T P Hk. unfold lin_S.
    rewrite <- (vdot_vdivs (cn_of c p) v k Hk), <- (vdot_vdivs (s0_of c p) v k Hk), <- (vdot_vdivs (kp_of c p) v k Hk). field.
  - intros p n T P. unfold lin_H. rewrite !vdot_vzero. field.
  - intros p v T P. unfold lin_H, cn_of, lat_of, kp_of. rewrite swapcase_gas. reflexivity.
  - intros m x Tg P T' S. apply lin_solve_value in S. destruct S as [Z ET].
    rewrite xsum_lin, ET. field. exact Z.
  - intros m x Tg P T' S. unfold lin_solveS in S.
    destruct (qzerob (lin_Cn c m)) eqn:Z; [discriminate|]. injection S as <-. apply qzerob_false in Z.
    rewrite xsum_linS. rewrite (Qred_correct (Tref + 256 * (x - lin_S0 c m + lin_K c m * (P - Pref c) / 65536) / lin_Cn c m)). field. exact Z.
Qed.

Lemma lin_solve_fix c Tref :
  forall m x T P, ~ lin_Cn c m == 0 -> xsum (lin_H c Tref) m T P == x ->
  exists T', lin_solve c Tref m x T P = Ok T' /\ T' == T.
Proof.
  intros m x T P Z X. unfold lin_solve, iter_T_at_HP, refresh. simpl Nat.eqb. cbv iota.
  pose proof Z as Z'. apply qzerob_false in Z'. rewrite Z'. cbn [bind fst].
  eexists. split; [reflexivity|]. etransitivity; [apply Qred_correct|]. rewrite X. field. exact Z.
Qed.

(* ------------------------------------------------------------------ totality: when the solver always answers, mixing succeeds *)
Definition solver_total (O : oracles) : Prop := forall m x Tg P, exists T', solveH O m x Tg P = Ok T'.

Lemma setH_total_lemma O s h : solver_total O -> exists s', setH O s h = (s', None).
Proof.
  intros Tot. unfold setH, set_with, solve_into.
  destruct (qzerob h && isempty s); [eexists; reflexivity|].
  destruct (Tot (pm s) h (sT s) (sP s)) as [T' E]. rewrite E.
  destruct (multi s); eexists; reflexivity.
Qed.

Definition valid (st : store) (l : list nat) : Prop := Forall (fun i => (i < length st)%nat) l.

Lemma streams_of_valid st others : valid st (streams_of st others).
Proof.
  unfold valid. induction others as [|o t IH]; simpl; [constructor|].
  destruct o as [i| |]; auto.
  destruct (nth_error st i) as [s|] eqn:E; auto.
  destruct (isempty s); auto. constructor; auto. apply nth_error_Some. congruence.
Qed.

Lemma sget_all_valid st l : valid st l -> exists ins, sget_all st l = Ok ins /\ length ins = length l.
Proof.
  unfold valid. induction l as [|i l IH]; intros V; simpl.
  - exists []. auto.
  - inversion V as [|x y Hi V']; subst. destruct (IH V') as (ins & E & L).
    unfold sget. destruct (nth_error st i) as [s|] eqn:N.
    + cbn [bind]. rewrite E. cbn [bind]. exists (s :: ins). simpl. auto.
    + apply nth_error_None in N. lia.
Qed.

Lemma valid_upd st l i s : valid st l -> valid (upd st i s) l.
Proof. unfold valid. now rewrite upd_length. Qed.

Lemma mix_total_lemma O st r others Q0 self :
  solver_total O -> sget st r = Ok self ->
  (forall i o, streams_of st others = [i] -> sget st i = Ok o -> multi self = true -> multi o = true ->
               phases self = phases o) ->
  exists st', mix_from O st r others Q0 = Ok st'.
Proof.
  intros Tot Sr Ph. unfold mix_from. rewrite Sr. cbn [bind].
  pose proof (streams_of_valid st others) as V.
  pose proof (sget_lt _ _ _ Sr) as Lr.
  destruct (streams_of st others) as [|i [|j l]] eqn:SS.
  - eexists; reflexivity.
  - destruct (sget_all_valid _ _ V) as (ins & E & _). simpl in E. unfold bind in E.
    destruct (sget st i) as [o|] eqn:So; [|discriminate]. cbn [bind].
    assert (CL : exists s1, copy_like self o (r =? i)%nat = Ok s1).
    { unfold copy_like. destruct (multi self) eqn:Ms.
      - destruct (r =? i)%nat; [eexists; reflexivity|].
        destruct (multi o) eqn:Mo; [|eexists; reflexivity].
        rewrite (Ph i o eq_refl So eq_refl Mo), list_eqb_nat_refl. eexists; reflexivity.
      - destruct (multi o).
        + destruct (pm o) as [|pv [|? ?]]; eexists; reflexivity.
        + destruct (r =? i)%nat; eexists; reflexivity. }
    destruct CL as [s1 ->]. cbn [bind].
    destruct (qzerob (heat_of others Q0)); [eexists; reflexivity|].
    destruct (setH_total_lemma O s1 (getH O s1 + heat_of others Q0) Tot) as [s' ->]. eexists; reflexivity.
  - destruct (sget_all_valid _ _ V) as (ins & E & L). rewrite E. cbn [bind].
    destruct ins as [|s0 ins0]; [discriminate|]. cbn [minP bind].
    rewrite (sget_upd_same' st r _ Lr). cbn [bind].
    destruct (sget_all_valid _ _ (valid_upd st _ r (set_P self (fold_left qmin (map sP ins0) (sP s0))) V)) as (ins1 & E1 & _).
    rewrite E1. cbn [bind].
    assert (IM : forall a b, exists s2, imol_mix a b = Ok s2)
      by (intros a b; unfold imol_mix; destruct (multi a); eexists; reflexivity).
    destruct (IM (set_P self (fold_left qmin (map sP ins0) (sP s0))) ins1) as [s2 ->]. cbn [bind].
    destruct (setH_total_lemma O s2 (sum_H O (s0 :: ins0) (heat_of others Q0)) Tot) as [s' ->].
    eexists; reflexivity.
Qed.

(* the stub: closed statement, no hypotheses on the oracles *)
Lemma mix_energy_stub_lemma c hf Tref st r others Q0 st' ins s' :
  Forall wfs st ->
  mix_from (lin_oracles c hf Tref) st r others Q0 = Ok st' ->
  streams_of st others <> [] ->
  sget_all st (streams_of st others) = Ok ins ->
  sget st' r = Ok s' ->
  ~ total s' == 0 ->
  getH (lin_oracles c hf Tref) s' == qsum (map (getH (lin_oracles c hf Tref)) ins) + (Q0 + heats others).
Proof. intros W. apply mix_energy_lemma; auto. apply lin_contracts. Qed.

(* ------------------------------------------------------------------ separating a phase view out *)
Lemma separate_view_length O st r j p st' : separate_view O st r j p = Ok st' -> length st' = length st.
Proof.
  unfold separate_view, bind. intros H. dres H. dres H. dres H. injection H as <-.
  destruct (sep_frame_lemma _ _ _ _ _ E1) as [L _]. rewrite app_length in L. simpl in L.
  rewrite firstn_length. lia.
Qed.

Lemma sget_app_l st x i s : sget st i = Ok s -> sget (st ++ [x]) i = Ok s.
Proof.
  intros H. pose proof (sget_lt _ _ _ H) as L. apply sget_Some in H. unfold sget.
  rewrite nth_error_app1 by exact L. now rewrite H.
Qed.
Lemma sget_app_last st x : sget (st ++ [x]) (length st) = Ok x.
Proof. unfold sget. rewrite nth_error_app2 by lia. now rewrite Nat.sub_diag. Qed.

Lemma sget_firstn st n i s : (i < n)%nat -> sget st i = Ok s -> sget (firstn n st) i = Ok s.
Proof.
  intros L H. apply sget_Some in H. unfold sget.
  assert (E : nth_error (firstn n st) i = nth_error st i).
  { revert st i L H. induction n as [|n IH]; intros [|a st] [|i] L H; simpl in *; try lia; try discriminate; auto.
    apply IH; [lia|exact H]. }
  now rewrite E, H.
Qed.

(* the receiver is left with H(self before) - H(view before), also when the view shares its flows with the receiver *)
Lemma sep_view_energy_lemma O st r j p st' sr sj v s' :
  contracts O ->
  separate_view O st r j p = Ok st' ->
  sget st r = Ok sr -> sget st j = Ok sj -> view sj p = Ok v -> sget st' r = Ok s' ->
  ~ total s' == 0 ->
  getH O s' == getH O sr - getH O v.
Proof.
  intros C H Sr Sj V Sr' Hn. unfold separate_view in H. rewrite Sj in H. cbn [bind] in H. rewrite V in H. cbn [bind] in H.
  unfold bind in H. dres H. rename a into st2. injection H as <-.
  pose proof (sget_lt _ _ _ Sr) as Lr.
  assert (Ne : r <> length st) by lia.
  destruct (sep_frame_lemma _ _ _ _ _ E) as [L2 _]. rewrite app_length in L2. simpl in L2.
  assert (S2 : sget st2 r = Ok s').
  { unfold sget in *. destruct (nth_error (firstn (length st) st2) r) as [x|] eqn:N; [|discriminate].
    injection Sr' as <-.
    assert (E2 : nth_error (firstn (length st) st2) r = nth_error st2 r).
    { clear -Lr. revert st2 r Lr. generalize (length st). induction n as [|n IH]; intros [|a l] [|i] L; simpl; try lia; auto.
      apply IH. lia. }
    now rewrite <- E2, N. }
  apply (sep_energy_lemma O (st ++ [v]) r (length st) st2 sr v s' C E Ne (sget_app_l _ _ _ _ Sr) (sget_app_last _ _) S2 Hn).
Qed.

Lemma Forall_firstn_keep {A} (P : A -> Prop) n l : Forall P l -> Forall P (firstn n l).
Proof.
  revert l. induction n as [|n IH]; intros [|a l] F; simpl; try constructor.
  - inversion F; auto.
  - inversion F; subst. now apply IH.
Qed.

Lemma mix_views_length O st r vs others Q0 st' : mix_views O st r vs others Q0 = Ok st' -> length st' = length st.
Proof.
  unfold mix_views, bind. intros H. dres H. dres H. injection H as <-.
  destruct (mix_frame_lemma _ _ _ _ _ _ E0) as [L _]. rewrite app_length in L.
  rewrite firstn_length. lia.
Qed.

(* ------------------------------------------------------------------ the property memo is transparent, for every history *)
Definition memo_wf (O : oracles) (c : cell) : Prop :=
  match cm c with
  | Some (k, vals) => Forall (fun nv => snd nv = calc O (fst nv) k) vals
  | None => True
  end.

Lemma leib_q_eq a b : leib_q a b = true -> a = b.
Proof.
  unfold leib_q. intros H. apply andb_true_iff in H. destruct H as [H1 H2].
  apply Z.eqb_eq in H1. apply Pos.eqb_eq in H2. destruct a, b; simpl in *; congruence.
Qed.
Lemma list_eqb_eq {A} (eqb : A -> A -> bool) :
  (forall x y, eqb x y = true -> x = y) -> forall a b, list_eqb eqb a b = true -> a = b.
Proof.
  intros E. induction a as [|x a IH]; intros [|y b] H; simpl in H; try discriminate; auto.
  apply andb_true_iff in H. destruct H as [H1 H2]. rewrite (E _ _ H1), (IH _ H2). reflexivity.
Qed.
Lemma leib_pv_eq a b : leib_pv a b = true -> a = b.
Proof.
  unfold leib_pv. intros H. apply andb_true_iff in H. destruct H as [H1 H2].
  apply Nat.eqb_eq in H1. apply (list_eqb_eq leib_q leib_q_eq) in H2. destruct a, b; simpl in *; congruence.
Qed.
Lemma pkey_eqb_eq a b : pkey_eqb a b = true -> a = b.
Proof.
  unfold pkey_eqb. intros H. apply andb_true_iff in H. destruct H as [H H3].
  apply andb_true_iff in H. destruct H as [H1 H2].
  apply (list_eqb_eq leib_pv leib_pv_eq) in H1. apply leib_q_eq in H2. apply leib_q_eq in H3.
  destruct a, b; simpl in *; congruence.
Qed.
Lemma lookup_In name vals v : lookup name vals = Some v -> In (name, v) vals.
Proof.
  induction vals as [|nv t IH]; simpl; [discriminate|].
  destruct (fst nv =? name)%nat eqn:E.
  - intros H; injection H as <-. apply Nat.eqb_eq in E. left. destruct nv; simpl in *; congruence.
  - intros H. right. now apply IH.
Qed.

(* one read: the value is the property of the current state, the stream is untouched, the memo stays sound *)
Lemma get_prop_spec O name flow c :
  memo_wf O c ->
  fst (get_prop O name flow c) = tval O name flow (cs c) /\
  cs (snd (get_prop O name flow c)) = cs c /\ memo_wf O (snd (get_prop O name flow c)).
Proof.
  intros W. unfold get_prop, tval, prop_flow, prop_spec.
  destruct (qzerob (total (cs c))) eqn:Z.
  - cbn [fst snd]. destruct flow; auto.
  - assert (F : calc O name (key_of (cs c)) =
                xsum (pname O name) (pm_div (pm (cs c)) (total (cs c))) (sT (cs c)) (sP (cs c))) by reflexivity.
    assert (Wnew : memo_wf O (mkCell (cs c) (Some (key_of (cs c), [(name, calc O name (key_of (cs c)))])))).
    { unfold memo_wf. cbn [cm]. constructor; [reflexivity|constructor]. }
    destruct (cm c) as [[k0 vals]|] eqn:M.
    + destruct (pkey_eqb (key_of (cs c)) k0) eqn:K.
      * apply pkey_eqb_eq in K. subst k0.
        destruct (lookup name vals) as [v|] eqn:L.
        -- cbn [fst snd]. apply lookup_In in L. pose proof W as W0. unfold memo_wf in W. rewrite M in W.
           rewrite Forall_forall in W. specialize (W _ L). cbn [fst snd] in W. subst v.
           rewrite F. unfold out_val. destruct flow; auto.
        -- cbn [fst snd cs]. rewrite F. unfold out_val. split; [destruct flow; auto|]. split; [reflexivity|].
           unfold memo_wf in *. cbn [cm]. rewrite M in W. constructor; [reflexivity|exact W].
      * cbn [fst snd cs]. rewrite F. unfold out_val. split; [destruct flow; auto|]. split; [reflexivity|exact Wnew].
    + cbn [fst snd cs]. rewrite F. unfold out_val. split; [destruct flow; auto|]. split; [reflexivity|exact Wnew].
Qed.

Lemma memo_wf_with_s O c s : memo_wf O c -> memo_wf O (with_s c s).
Proof. unfold memo_wf, with_s. auto. Qed.

Lemma Forall_upd {A} (P : A -> Prop) l i x : Forall P l -> P x -> Forall P (upd l i x).
Proof.
  revert i. induction l as [|a l IH]; intros i F Px; simpl; [constructor|].
  inversion F; subst. destruct i; constructor; auto.
Qed.
Lemma Forall_nth_error {A} (P : A -> Prop) l i x : Forall P l -> nth_error l i = Some x -> P x.
Proof. intros F N. rewrite Forall_forall in F. apply F. eapply nth_error_In; eauto. Qed.

Lemma map_cs_upd cells i c : map cs (upd cells i c) = upd (map cs cells) i (cs c).
Proof. revert i. induction cells as [|a l IH]; intros [|i]; simpl; auto. now rewrite IH. Qed.
Lemma upd_same_nth {A} (l : list A) i x : nth_error l i = Some x -> upd l i x = l.
Proof.
  revert i. induction l as [|a l IH]; intros [|i] H; simpl in *; try discriminate; auto.
  - now injection H as ->.
  - now rewrite IH.
Qed.
Lemma nth_error_map_cs cells i : nth_error (map cs cells) i = option_map cs (nth_error cells i).
Proof. apply nth_error_map. Qed.

Lemma set_streams_wf O cells st : Forall (memo_wf O) cells -> Forall (memo_wf O) (set_streams cells st).
Proof.
  unfold set_streams. revert st. induction cells as [|c l IH]; intros [|s st] F; simpl; try constructor.
  - inversion F; subst. now apply memo_wf_with_s.
  - inversion F; subst. now apply IH.
Qed.
Lemma set_streams_cs cells st : length cells = length st -> map cs (set_streams cells st) = st.
Proof.
  unfold set_streams. revert st. induction cells as [|c l IH]; intros [|s st] L; simpl in *; try discriminate; auto.
  rewrite IH by lia. reflexivity.
Qed.

Lemma read_at_props O cells i :
  Forall (memo_wf O) cells ->
  Forall (memo_wf O) (read_at (get_prop O) cells i) /\ length (read_at (get_prop O) cells i) = length cells.
Proof.
  intros F. unfold read_at. destruct (nth_error cells i) as [c|] eqn:N; [|auto].
  rewrite upd_length. split; [|reflexivity]. apply Forall_upd; auto.
  apply (get_prop_spec O 0%nat true c). eapply Forall_nth_error; eauto.
Qed.

Lemma mix_reads_props O cells r others Q0 :
  Forall (memo_wf O) cells ->
  Forall (memo_wf O) (mix_reads O (get_prop O) cells r others Q0) /\
  length (mix_reads O (get_prop O) cells r others Q0) = length cells.
Proof.
  intros F. unfold mix_reads.
  destruct (streams_of (map cs cells) others) as [|i [|j l]]; [auto| |].
  - destruct (qzerob (heat_of others Q0)); [auto|].
    destruct (nth_error cells r) as [cr|] eqn:Nr; [|auto].
    destruct (nth_error (map cs cells) i) as [o|]; [|auto].
    destruct (copy_like (cs cr) o (r =? i)%nat) as [s1|]; [|auto].
    rewrite upd_length. split; [|reflexivity]. apply Forall_upd; auto.
    apply (get_prop_spec O 0%nat true (mkCell s1 (cm cr))).
    pose proof (Forall_nth_error _ _ _ _ F Nr) as W. exact W.
  - generalize (i :: j :: l). intros idxs. revert cells F.
    induction idxs as [|k t IH]; intros cells F; simpl; [auto|].
    destruct (read_at_props O cells k F) as [F1 L1].
    destruct (IH _ F1) as [F2 L2]. split; [exact F2|congruence].
Qed.

Lemma cur_value_spec O which c :
  memo_wf O c ->
  fst (cur_value O (get_prop O) which c) = tcur O which (cs c) /\
  cs (snd (cur_value O (get_prop O) which c)) = cs c /\ memo_wf O (snd (cur_value O (get_prop O) which c)).
Proof.
  intros W. unfold tcur, cur_value, get_plain.
  destruct which as [|[|[|w]]]; cbn [fst snd cs];
    [destruct (get_prop_spec O 0%nat true c W) as (V & S & M)
    |destruct (get_prop_spec O 1%nat true c W) as (V & S & M)
    |destruct (get_prop_spec O 0%nat false c W) as (V & S & M)
    |destruct (get_prop_spec O 0%nat true c W) as (V & S & M)];
    rewrite V; unfold tval; auto.
Qed.

Lemma hstep_sim O cells hs op o cells' hs' :
  Forall (memo_wf O) cells ->
  hstep O (get_prop O) (cells, hs) op = (o, (cells', hs')) ->
  Forall (memo_wf O) cells' /\ tstep O (map cs cells, hs) op = (o, (map cs cells', hs')).
Proof.
  intros F H. unfold hstep in H. unfold tstep.
  assert (AT : forall h, match idx_of hs h with Some i => nth_error (map cs cells) i = option_map cs (nth_error cells i) | None => True end)
    by (intros h; destruct (idx_of hs h); auto; apply nth_error_map).
  destruct op as [h|h name flow|h T|h P|h p|h which x|h which|h others Q0|h oh|h p1 p2 k|h p name flow|h oh p|h vs others Q0];
    (destruct (idx_of hs h) as [i|] eqn:I; [|injection H as <- <- <-; auto]);
    rewrite nth_error_map_cs; (destruct (nth_error cells i) as [c|] eqn:N; cbn [option_map]; [|injection H as <- <- <-; auto]).
  - injection H as <- <- <-. auto.
  - destruct (get_prop_spec O name flow c (Forall_nth_error _ _ _ _ F N)) as (V & S & M).
    injection H as <- <- <-. split; [now apply Forall_upd|].
    rewrite V, map_cs_upd, S, upd_same_nth; [reflexivity|].
    rewrite nth_error_map_cs, N. reflexivity.
  - injection H as <- <- <-. split; [apply Forall_upd; auto; apply memo_wf_with_s; eapply Forall_nth_error; eauto|].
    now rewrite map_cs_upd.
  - injection H as <- <- <-. split; [apply Forall_upd; auto; apply memo_wf_with_s; eapply Forall_nth_error; eauto|].
    now rewrite map_cs_upd.
  - injection H as <- <- <-. split; [apply Forall_upd; auto; apply memo_wf_with_s; eapply Forall_nth_error; eauto|].
    now rewrite map_cs_upd.
  - injection H as <- <- <-. split; [apply Forall_upd; auto; apply memo_wf_with_s; eapply Forall_nth_error; eauto|].
    now rewrite map_cs_upd.
  - destruct (cur_value_spec O which c (Forall_nth_error _ _ _ _ F N)) as (V & S & M).
    injection H as <- <- <-. split; [apply Forall_upd; auto; now apply memo_wf_with_s|].
    rewrite map_cs_upd. cbn [with_s cs]. rewrite S, V. reflexivity.
  - destruct (mix_from O (map cs cells) i (tr_inlets hs others) Q0) as [st'|e] eqn:MX.
    + injection H as <- <- <-.
      destruct (mix_reads_props O cells i (tr_inlets hs others) Q0 F) as [F1 L1].
      split; [now apply set_streams_wf|].
      rewrite set_streams_cs; [reflexivity|].
      destruct (mix_frame_lemma _ _ _ _ _ _ MX) as [L _]. rewrite L1, L, map_length. reflexivity.
    + injection H as <- <- <-. auto.
  - destruct (idx_of hs oh) as [j|] eqn:J; [|injection H as <- <- <-; auto].
    destruct (separate_out O (map cs cells) i j) as [st'|e] eqn:SP.
    + injection H as <- <- <-.
      destruct (sep_frame_lemma _ _ _ _ _ SP) as [L _]. rewrite map_length in L.
      destruct (i =? j)%nat.
      * split; [now apply set_streams_wf|]. rewrite set_streams_cs; [reflexivity|lia].
      * destruct (read_at_props O cells i F) as [F1 L1]. destruct (read_at_props O _ j F1) as [F2 L2].
        split; [now apply set_streams_wf|]. rewrite set_streams_cs; [reflexivity|lia].
    + injection H as <- <- <-. auto.
  - injection H as <- <- <-. split; [apply Forall_upd; auto; apply memo_wf_with_s; eapply Forall_nth_error; eauto|].
    now rewrite map_cs_upd.
  - destruct (view (cs c) p) as [v|e]; injection H as <- <- <-; auto.
  - destruct (idx_of hs oh) as [j|] eqn:J; [|injection H as <- <- <-; auto].
    destruct (separate_view O (map cs cells) i j p) as [st'|e] eqn:SP.
    + injection H as <- <- <-.
      destruct (read_at_props O cells i F) as [F1 L1].
      split; [now apply set_streams_wf|]. rewrite set_streams_cs; [reflexivity|].
      rewrite L1. symmetry. pose proof (separate_view_length _ _ _ _ _ _ SP) as L. now rewrite map_length in L.
    + injection H as <- <- <-. auto.
  - rewrite map_length.
    destruct (mix_views O (map cs cells) i _ (tr_inlets hs others) Q0) as [st'|e] eqn:MV.
    + injection H as <- <- <-.
      pose proof (mix_views_length _ _ _ _ _ _ _ MV) as L. rewrite map_length in L.
      match goal with |- context [firstn (length cells) ?X] => set (X0 := X) end.
      assert (P0 : Forall (memo_wf O) X0 /\ (length cells <= length X0)%nat).
      { unfold X0. destruct (views (map cs cells) _) as [vstreams|]; [|split; [exact F|lia]].
        assert (Fe : Forall (memo_wf O) (cells ++ map (fun s => mkCell s None) vstreams)).
        { apply Forall_app. split; [exact F|]. apply Forall_forall. intros c0 Ic. apply in_map_iff in Ic.
          destruct Ic as (x & <- & _). exact Logic.I. }
        destruct (mix_reads_props O _ i (map IStream (seq (length cells) (length vstreams)) ++ tr_inlets hs others) Q0 Fe) as [F1 L1].
        split; [exact F1|]. rewrite L1, app_length. lia. }
      destruct P0 as [F0 L0].
      assert (Ff : Forall (memo_wf O) (firstn (length cells) X0)).
      { now apply Forall_firstn_keep. }
      split; [now apply set_streams_wf|]. rewrite set_streams_cs; [reflexivity|].
      rewrite firstn_length. lia.
    + injection H as <- <- <-. auto.
Qed.

Lemma hrun_sim O ops cells hs :
  Forall (memo_wf O) cells ->
  Forall (memo_wf O) (fst (snd (hrun O (get_prop O) (cells, hs) ops))) /\
  trun O (map cs cells, hs) ops =
    (fst (hrun O (get_prop O) (cells, hs) ops),
     (map cs (fst (snd (hrun O (get_prop O) (cells, hs) ops))), snd (snd (hrun O (get_prop O) (cells, hs) ops)))).
Proof.
  revert cells hs. induction ops as [|op t IH]; intros cells hs F; [simpl; auto|].
  cbn [hrun trun].
  destruct (hstep O (get_prop O) (cells, hs) op) as [o [cells' hs']] eqn:HS.
  destruct (hstep_sim O cells hs op o cells' hs' F HS) as [F' TS]. rewrite TS. cbn [fst snd].
  destruct o; cbn [fst snd]; try (destruct (IH cells' hs' F') as [F2 E2]; rewrite E2; cbn [fst snd]; auto).
  auto.
Qed.

(* the work-space is released whatever the solve does *)
Lemma workspace_released_lemma {A} loaded (body : workspace -> res A) : snd (with_workspace loaded body) = [].
Proof. reflexivity. Qed.

(* ------------------------------------------------------------------ the in-repo ideal mixture models meet the homogeneity contract *)
Lemma qzerob_div j k : ~ k == 0 -> qzerob (j / k) = qzerob j.
Proof.
  intros Hk. destruct (qzerob j) eqn:Z.
  - apply qzerob_true in Z. apply qzerob_true. rewrite Z. field. exact Hk.
  - apply qzerob_false in Z. apply qzerob_false. intros E. apply Z.
    assert (j == j / k * k) by (field; exact Hk). rewrite H, E. ring.
Qed.

Lemma qsum_vdivs v k : ~ k == 0 -> qsum (vdivs v k) == qsum v / k.
Proof.
  intros Hk. induction v as [|x v IH]; [simpl; field; exact Hk|].
  change (vdivs (x :: v) k) with ((x / k) :: vdivs v k). rewrite !qsum_cons, IH. field. exact Hk.
Qed.

Lemma ideal_sum_homog models p v k T P :
  ~ k == 0 -> ideal_sum models p (vdivs v k) T P * k == ideal_sum models p v T P.
Proof.
  intros Hk. unfold ideal_sum. revert models. induction v as [|j v IH]; intros [|f models]; try (simpl; ring).
  change (vdivs (j :: v) k) with ((j / k) :: vdivs v k). cbn [map2]. rewrite !qsum_cons.
  rewrite (qzerob_div j k Hk). specialize (IH models).
  destruct (qzerob j).
  - rewrite <- IH. ring.
  - rewrite <- IH. field. exact Hk.
Qed.

Lemma ideal_terms_homog (lnf : Q -> Q) models p v k T P tot tot' :
  (forall a b, a == b -> lnf a == lnf b) -> ~ k == 0 -> ~ tot == 0 -> tot' == tot / k ->
  qsum (map2 (fun j (f : pure_model) => if qzerob j then 0 else j * f p T P + j * lnf (j / tot')) (vdivs v k) models) * k
  == qsum (map2 (fun j (f : pure_model) => if qzerob j then 0 else j * f p T P + j * lnf (j / tot)) v models).
Proof.
  intros Hln Hk Ht Et. revert models. induction v as [|j v IH]; intros [|f models]; try (simpl; ring).
  change (vdivs (j :: v) k) with ((j / k) :: vdivs v k). cbn [map2]. rewrite !qsum_cons.
  rewrite (qzerob_div j k Hk). specialize (IH models).
  destruct (qzerob j).
  - rewrite <- IH. ring.
  - rewrite <- IH.
    assert (E : j / k / tot' == j / tot) by (rewrite Et; field; split; assumption).
    rewrite (Hln _ _ E). field. exact Hk.
Qed.

Lemma ideal_S_homog lnf models p v k T P :
  (forall a b, a == b -> lnf a == lnf b) -> ~ k == 0 -> ~ qsum v == 0 ->
  ideal_S lnf models p (vdivs v k) T P * k == ideal_S lnf models p v T P.
Proof.
  intros Hln Hk Ht. unfold ideal_S. apply ideal_terms_homog; auto. now apply qsum_vdivs.
Qed.

(* ------------------------------------------------------------------ mixing with phase views among the inlets *)
Lemma view_wfs s p v : wfs s -> view s p = Ok v -> wfs v.
Proof.
  intros W H. unfold view in H. destruct (multi s).
  - match type of H with context [find ?f ?l] => destruct (find f l) as [pv|] end; [|discriminate]. injection H as <-.
    split; simpl; [reflexivity|]. constructor; [intros []|constructor].
  - destruct (lowerp p =? lowerp (phase1 s))%nat; [|discriminate]. now injection H as <-.
Qed.

Lemma views_wfs st vs vstreams : Forall wfs st -> views st vs = Ok vstreams -> Forall wfs vstreams.
Proof.
  intros W. revert vstreams. induction vs as [|[j p] t IH]; intros vstreams H; simpl in H.
  - injection H as <-. constructor.
  - unfold bind in H. dres H. dres H. dres H. injection H as <-.
    constructor; [|now apply IH]. eapply view_wfs; [|exact E0]. eapply sget_wfs; eauto.
Qed.

Lemma nth_error_firstn_lt {A} (l : list A) n i : (i < n)%nat -> nth_error (firstn n l) i = nth_error l i.
Proof.
  revert l i. induction n as [|n IH]; intros [|a l] [|i] L; simpl; try lia; auto. apply IH. lia.
Qed.

Lemma mix_views_energy_lemma O st r vs others Q0 st' vstreams ins s' :
  contracts O -> Forall wfs st ->
  views st vs = Ok vstreams ->
  mix_views O st r vs others Q0 = Ok st' ->
  let ext := st ++ vstreams in
  let ot := map IStream (seq (length st) (length vstreams)) ++ others in
  streams_of ext ot <> [] ->
  sget_all ext (streams_of ext ot) = Ok ins ->
  sget st' r = Ok s' -> (r < length st)%nat ->
  ~ total s' == 0 ->
  getH O s' == qsum (map (getH O) ins) + (Q0 + heats ot).
Proof.
  intros C W V H ext ot NE SA Sr Lr Hn. unfold mix_views in H. rewrite V in H. cbn [bind] in H.
  unfold bind in H. dres H. rename a into st2. injection H as <-.
  assert (S2 : sget st2 r = Ok s').
  { unfold sget in *. rewrite nth_error_firstn_lt in Sr by exact Lr. exact Sr. }
  apply (mix_energy_lemma O ext r ot Q0 st2 ins s' C); auto.
  apply Forall_app. split; [exact W|]. eapply views_wfs; eauto.
Qed.
