(* C02 -- lemmas about ModelS.v: a temperature solve owns its scratch list, so its result is a function of its own
   arguments in every history of solves; with a temperature-independent heat capacity every iteration uses the
   request's own Cn. *)
From V Require Import Common.NumFacts C02.Model C02.ModelS.
Open Scope Q_scope.

(* ---------------------------------------------------------------- tie to Model.iter_T_at_HP / iter_T_at_SP *)
Definition lift (x : res Q * cn_cache) : res (Q * cn_cache) :=
  match x with (Ok v, c) => Ok (v, c) | (Err e, _) => Err e end.

Lemma iter_cell_HP : forall T H Hm Cnm c,
  iter_T_at_HP T H Hm Cnm c = lift (iter_cell (formula_HP H Hm) Cnm T c).
Proof.
  intros T H Hm Cnm c. unfold iter_T_at_HP, iter_cell, formula_HP, lift.
  destruct (refresh Cnm T c) as [c' [cn|]]; [|reflexivity].
  destruct (qzerob cn); reflexivity.
Qed.
Lemma iter_cell_SP : forall expf T S Sm Cnm c,
  iter_T_at_SP expf T S Sm Cnm c = lift (iter_cell (formula_SP expf S Sm) Cnm T c).
Proof.
  intros expf T S Sm Cnm c. unfold iter_T_at_SP, iter_cell, formula_SP, lift.
  destruct (refresh Cnm T c) as [c' [cn|]]; [|reflexivity].
  destruct (qzerob cn); reflexivity.
Qed.

(* ---------------------------------------------------------------- the heap versions act on the allocated cell only *)
Lemma nth_error_last : forall (h : heap) c, nth_error (h ++ [c]) (length h) = Some c.
Proof. intros h c. rewrite nth_error_app2 by lia. rewrite Nat.sub_diag. reflexivity. Qed.
Lemma upd_last : forall (h : heap) c c', upd (h ++ [c]) (length h) c' = h ++ [c'].
Proof. induction h as [|x t IH]; intros c c'; simpl; [reflexivity|]. rewrite IH. reflexivity. Qed.
Lemma nth_last : forall (h : heap) c d, nth (length h) (h ++ [c]) d = c.
Proof. intros h c d. rewrite app_nth2 by lia. rewrite Nat.sub_diag. reflexivity. Qed.

Lemma iter_at_last : forall g Cnm h c T,
  iter_at g Cnm (h ++ [c]) (length h) T = (fst (iter_cell g Cnm T c), h ++ [snd (iter_cell g Cnm T c)]).
Proof. intros g Cnm h c T. unfold iter_at. rewrite nth_error_last. cbn zeta. rewrite upd_last. reflexivity. Qed.

Lemma drive_last : forall g Cnm ws h c x,
  drive g Cnm ws (h ++ [c]) (length h) x = (fst (drive1 g Cnm ws c x), h ++ [snd (drive1 g Cnm ws c x)]).
Proof.
  intros g Cnm ws. induction ws as [|w t IH]; intros h c x; simpl; [reflexivity|].
  rewrite iter_at_last. destruct (iter_cell g Cnm x c) as [[y|e] c']; simpl; [apply IH|reflexivity].
Qed.

Lemma solve_h_char : forall g Cnm ws sec tol Tg h,
  solve_h g Cnm ws sec tol Tg h = (fst (solve1 g Cnm ws sec tol Tg), h ++ [snd (solve1 g Cnm ws sec tol Tg)]).
Proof.
  intros g Cnm ws sec tol Tg h. unfold solve_h, solve1. rewrite drive_last.
  destruct (drive1 g Cnm ws (0%nat, None) Tg) as [[x|e] c2]; simpl; [|reflexivity].
  rewrite iter_at_last. destruct (iter_cell g Cnm x c2) as [[y|e] c3]; simpl; reflexivity.
Qed.

(* one solve in any process state: its observation is that of the solve made alone; it leaves the existing scratch
   lists as they were, adds its own, and leaves the work-space empty *)
Lemma solve_p_char : forall tol h w r,
  solve_p tol (h, w) r = (solve_alone tol r, (h ++ [snd (solve_alone tol r)], [])).
Proof.
  intros tol h w r. unfold solve_p, solve_alone. rewrite solve_h_char. cbn [fst snd].
  rewrite nth_last. destruct (solve1 _ _ _ _ _ _); reflexivity.
Qed.

Lemma solve_seq_obs : forall tol rs p, fst (solve_seq tol p rs) = map (solve_alone tol) rs.
Proof.
  intros tol rs. induction rs as [|r t IH]; intros [h w]; [reflexivity|].
  cbn [solve_seq]. rewrite solve_p_char. cbn [fst snd map]. rewrite IH. reflexivity.
Qed.

Lemma solve_seq_state : forall tol rs h w,
  snd (solve_seq tol (h, w) rs) =
  (h ++ map (fun r => snd (solve_alone tol r)) rs, match rs with [] => w | _ => [] end).
Proof.
  intros tol rs. induction rs as [|r t IH]; intros h w.
  - simpl. rewrite app_nil_r. reflexivity.
  - cbn [solve_seq]. rewrite solve_p_char. cbn [fst snd]. rewrite IH. cbn [map].
    rewrite <- app_assoc. cbn [app]. destruct t; reflexivity.
Qed.

(* the result of the k-th solve of a history is the result of that request in a fresh process *)
Lemma solve_history_free : forall tol before r after p,
  nth_error (fst (solve_seq tol p (before ++ r :: after))) (length before) = Some (solve_alone tol r).
Proof.
  intros tol before r after p. rewrite solve_seq_obs, map_app. cbn [map].
  rewrite nth_error_app2 by (rewrite map_length; lia). rewrite map_length, Nat.sub_diag. reflexivity.
Qed.

(* ---------------------------------------------------------------- refinement of the wrappers of Model.v *)
Lemma solve1_refines_HP : forall H Hm Cnm ws sec tol Tg,
  fst (solve1 (formula_HP H Hm) Cnm ws sec tol Tg) =
  solve_T_at_HP (aitken_of (formula_HP H Hm) Cnm ws) sec tol H Tg Hm Cnm.
Proof.
  intros H Hm Cnm ws sec tol Tg. unfold solve1, solve_T_at_HP, aitken_of.
  destruct (drive1 (formula_HP H Hm) Cnm ws (0%nat, None) Tg) as [[x|e] c2]; cbn [bind fst]; [|reflexivity].
  rewrite iter_cell_HP. destruct (iter_cell (formula_HP H Hm) Cnm x c2) as [[y|e] c3]; cbn [lift bind fst]; reflexivity.
Qed.
Lemma solve1_refines_SP : forall expf S Sm Cnm ws sec tol Tg,
  fst (solve1 (formula_SP expf S Sm) Cnm ws sec tol Tg) =
  solve_T_at_SP expf (aitken_of (formula_SP expf S Sm) Cnm ws) sec tol S Tg Sm Cnm.
Proof.
  intros expf S Sm Cnm ws sec tol Tg. unfold solve1, solve_T_at_SP, aitken_of.
  destruct (drive1 (formula_SP expf S Sm) Cnm ws (0%nat, None) Tg) as [[x|e] c2]; cbn [bind fst]; [|reflexivity].
  rewrite iter_cell_SP. destruct (iter_cell (formula_SP expf S Sm) Cnm x c2) as [[y|e] c3]; cbn [lift bind fst]; reflexivity.
Qed.

(* ---------------------------------------------------------------- the request's own heat capacity *)
(* a scratch list that only ever held this request's (temperature-independent) heat capacity *)
Definition cache_own (cn : Q) (c : cn_cache) : Prop := c = (O, None) \/ exists k, c = (k, Some cn).

Lemma iter_cell_own : forall g cn T c,
  cache_own cn c ->
  fst (iter_cell g (fun _ => cn) T c) = g T cn /\ cache_own cn (snd (iter_cell g (fun _ => cn) T c)).
Proof.
  intros g cn T c [Hc|[k Hc]]; subst c; unfold iter_cell, refresh.
  - cbn. split; [reflexivity|]. right. eexists. reflexivity.
  - destruct (k mod 5 =? 0)%nat; cbn [fst snd]; (split; [reflexivity|]); right; eexists; reflexivity.
Qed.

Lemma drive1_own : forall g cn ws c x,
  cache_own cn c ->
  fst (drive1 g (fun _ => cn) ws c x) = drive0 (fun T => g T cn) ws x /\
  cache_own cn (snd (drive1 g (fun _ => cn) ws c x)).
Proof.
  intros g cn ws. induction ws as [|w t IH]; intros c x Hc; cbn [drive1 drive0].
  - split; [reflexivity|exact Hc].
  - destruct (iter_cell_own g cn x c Hc) as [Hv Hc'].
    destruct (iter_cell g (fun _ => cn) x c) as [[y|e] c'] eqn:E; cbn [fst snd] in Hv, Hc'; rewrite <- Hv.
    + apply IH. exact Hc'.
    + split; [reflexivity|exact Hc'].
Qed.

(* the whole solve, written without any scratch list *)
Definition solve0 (g : formula) (cn : Q) (ws : list Q) (sec : Q -> Q -> res Q) (tol Tguess : Q) : res Q :=
  match drive0 (fun T => g T cn) ws Tguess with
  | Err e => Err e
  | Ok Tg => match g Tg cn with
             | Err e => Err e
             | Ok T => if qltb tol (Qabs (T - Tg)) then sec Tg T else Ok T
             end
  end.

Lemma solve1_own : forall g cn ws sec tol Tg,
  fst (solve1 g (fun _ => cn) ws sec tol Tg) = solve0 g cn ws sec tol Tg.
Proof.
  intros g cn ws sec tol Tg. unfold solve1, solve0.
  destruct (drive1_own g cn ws (0%nat, None) Tg (or_introl eq_refl)) as [Hv Hc].
  destruct (drive1 g (fun _ => cn) ws (0%nat, None) Tg) as [[x|e] c2]; cbn [fst snd] in Hv, Hc; rewrite <- Hv;
    [|reflexivity].
  destruct (iter_cell_own g cn x c2 Hc) as [Hv2 _].
  destruct (iter_cell g (fun _ => cn) x c2) as [[y|e] c3]; cbn [fst] in Hv2; rewrite <- Hv2; reflexivity.
Qed.

Lemma solve_history_own_Cn : forall tol before r after p cn,
  (forall T, rq_Cn r T = cn) ->
  exists c, nth_error (fst (solve_seq tol p (before ++ r :: after))) (length before) =
            Some (solve0 (rq_g r) cn (rq_ws r) (rq_sec r) tol (rq_T r), c).
Proof.
  intros tol before r after p cn Hcn. rewrite solve_history_free.
  exists (snd (solve_alone tol r)). f_equal. rewrite (surjective_pairing (solve_alone tol r)) at 1. f_equal.
  unfold solve_alone.
  assert (E : forall g ws sec T0 f, (forall T, f T = cn) ->
              fst (solve1 g f ws sec tol T0) = fst (solve1 g (fun _ => cn) ws sec tol T0)).
  { intros g ws sec T0 f Hf. unfold solve1.
    assert (D : forall ws0 c x, drive1 g f ws0 c x = drive1 g (fun _ => cn) ws0 c x).
    { induction ws0 as [|w t IH]; intros c x; cbn [drive1]; [reflexivity|].
      assert (I : iter_cell g f x c = iter_cell g (fun _ => cn) x c).
      { unfold iter_cell, refresh. destruct c as [k o]. rewrite Hf. reflexivity. }
      rewrite I. destruct (iter_cell g (fun _ => cn) x c) as [[y|e] c']; [apply IH|reflexivity]. }
    rewrite D. destruct (drive1 g (fun _ => cn) ws (0%nat, None) T0) as [[x|e] c2]; [|reflexivity].
    assert (I : iter_cell g f x c2 = iter_cell g (fun _ => cn) x c2).
    { unfold iter_cell, refresh. destruct c2 as [k o]. rewrite Hf. reflexivity. }
    rewrite I. reflexivity. }
  rewrite (E _ _ _ _ _ Hcn). apply solve1_own.
Qed.

(* a driver that has arrived at a root of the equation: the wrapper hands that root out, whatever was solved before *)
Lemma solve0_root : forall g cn ws sec tol Tg T T',
  0 <= tol -> drive0 (fun T => g T cn) ws Tg = Ok T -> g T cn = Ok T' -> T' == T ->
  solve0 g cn ws sec tol Tg = Ok T'.
Proof.
  intros g cn ws sec tol Tg T T' Htol Hd Hg HT. unfold solve0. rewrite Hd, Hg.
  assert (E : qltb tol (Qabs (T' - T)) = false).
  { unfold qltb. apply Bool.negb_false_iff. apply Qle_bool_iff.
    setoid_replace (T' - T) with 0 by (rewrite HT; ring). exact Htol. }
  rewrite E. reflexivity.
Qed.

(* the entropy formula at a temperature where the entropy model gives the assigned value is a fixed point *)
Lemma formula_SP_root : forall expf S Sm T cn,
  ~ cn == 0 -> Sm T == S -> expf ((S - Sm T) / cn) == 1 ->
  exists T', formula_SP expf S Sm T cn = Ok T' /\ T' == T.
Proof.
  intros expf S Sm T cn Hcn HS He. unfold formula_SP.
  destruct (qzerob cn) eqn:E.
  - exfalso. apply Hcn. apply Qeq_bool_iff. exact E.
  - eexists. split; [reflexivity|]. rewrite He. ring.
Qed.
Lemma formula_HP_root : forall H Hm T cn,
  ~ cn == 0 -> Hm T == H ->
  exists T', formula_HP H Hm T cn = Ok T' /\ T' == T.
Proof.
  intros H Hm T cn Hcn HH. unfold formula_HP.
  destruct (qzerob cn) eqn:E.
  - exfalso. apply Hcn. apply Qeq_bool_iff. exact E.
  - eexists. split; [reflexivity|]. rewrite HH. field. exact Hcn.
Qed.
