(* C06 — lemmas about the heat of reaction and adiabatic / isothermal reaction *)
From V Require Import Common.NumFacts C05.Model C05.Proofs C06.Model.

(* ---------- dH ---------- *)
Lemma dH_mol_lemma c r : phases r = [] -> wt r = false ->
  dH c r = Ok (X r * vdot (c_hf c) (st r)).
Proof. intros P W. unfold dH, heats. rewrite P, W. reflexivity. Qed.

Lemma dH_wt_phaseless_lemma c r : phases r = [] -> wt r = true ->
  dH c r = Ok (X r * vdot (map2 Qdiv (c_hf c) (c_mw c ++ [])) (st r)).
Proof. intros P W. unfold dH, heats. rewrite P, W. reflexivity. Qed.

Lemma dH_phases_lemma c r lat : phases r <> [] ->
  latent_rows (length (c_hf c)) (phases r) (c_pref c) (c_hvap c) (c_hfus c) (st r) = Ok lat ->
  dH c r = Ok (X r * vdot (let h := vadd (tile (Nat.max 1 (length (phases r))) (c_hf c)) lat in
                           if wt r then map2 Qdiv h (tile (Nat.max 1 (length (phases r))) (c_mw c)) else h)
                          (st r)).
Proof.
  intros P L. unfold dH, heats. destruct (phases r) as [|p ps] eqn:E; [congruence|].
  rewrite L. simpl. destruct (wt r); reflexivity.
Qed.

(* the table of latent heats, spelled out *)
Lemma latent_table hv hf :
  latent 2 2 hv hf = Ok 0 /\ latent 1 1 hv hf = Ok 0 /\ latent 3 3 hv hf = Ok 0 /\
  latent 2 1 hv hf = Ok hv /\ latent 2 3 hv hf = Ok (- hf) /\
  latent 1 2 hv hf = Ok (- hv) /\ latent 1 3 hv hf = Ok (- (hv + hf)) /\
  latent 3 2 hv hf = Ok hf /\ latent 3 1 hv hf = Ok (hf + hv) /\
  latent 2 4 hv hf = Err ERuntime /\ latent 1 5 hv hf = Err ERuntime.
Proof. repeat split; reflexivity. Qed.

(* per-mass heat of reaction times the molecular weight of the reactant = per-mole heat of reaction,
   for any vector of per-entry heats h (formation + latent) *)
Lemma vdot_wt : forall (h w s s' : vec) (k : Q),
  length s' = length s -> length w = length s -> length h = length s ->
  Forall (fun x => ~ x == 0) w ->
  (forall i, nthq s' i * k == nthq s i * nthq w i) ->
  vdot (map2 Qdiv h w) s' * k == vdot h s.
Proof.
  induction h as [|x h IH]; intros w s s' k L1 L2 L3 NZ C.
  - simpl. rewrite !vdot_nil_l. lra.
  - destruct s as [|y s]; [discriminate|]. destruct s' as [|y' s']; [discriminate|].
    destruct w as [|z w]; [discriminate|]. simpl in *.
    inversion NZ as [|? ? Nz NZ']; subst.
    simpl map2. rewrite !vdot_cons.
    assert (C0 := C O). unfold nthq in C0; simpl in C0.
    assert (IH' : vdot (map2 Qdiv h w) s' * k == vdot h s).
    { apply IH; auto; try lia. intros i. exact (C (S i)). }
    assert (E : (x / z * y' + vdot (map2 Qdiv h w) s') * k ==
                x / z * (y' * k) + vdot (map2 Qdiv h w) s' * k) by ring.
    rewrite E, C0, IH'. field. exact Nz.
Qed.

Lemma dH_wt_lemma c r r' d d' : phases r = [] -> phases r' = [] -> wt r = false -> wt r' = true ->
  wt_of (c_mw c) r r' -> length (c_mw c) = length (st r) -> length (c_hf c) = length (st r) ->
  Forall (fun x => ~ x == 0) (c_mw c) ->
  dH c r = Ok d -> dH c r' = Ok d' -> d' * nthq (c_mw c) (ridx r) == d.
Proof.
  intros P P' W W' (R & Xe & Ls & NZr & C) Lw Lh NZ D D'.
  rewrite dH_mol_lemma in D by auto. rewrite dH_wt_phaseless_lemma in D' by auto.
  inversion D; inversion D'; subst. rewrite app_nil_r. rewrite Xe.
  assert (H := vdot_wt (c_hf c) (c_mw c) (st r) (st r') (nthq (c_mw c) (ridx r)) Ls Lw Lh NZ C).
  rewrite <- H. ring.
Qed.

(* ---------- enthalpy balance ---------- *)
Section Energy.
  Variable Hfun : vec -> Q -> Q.
  Variable solveT : vec -> Q -> res Q.
  Variable hf : vec.
  (* contract of the H/T inversion: the temperature it returns reproduces the requested enthalpy *)
  Hypothesis solve_ok : forall m h t, solveT m h = Ok t -> Hfun m t == h.
  (* an empty stream carries no enthalpy *)
  Hypothesis H_empty : forall m t, isempty m = true -> Hfun m t == 0.

  Lemma setH_roundtrip s h s' : setH solveT s h = Ok s' ->
    smol s' = smol s /\ Hfun (smol s') (sT s') == h.
  Proof.
    unfold setH. destruct (qzerob h && isempty (smol s)) eqn:E.
    - intros H; inversion H; subst. apply Bool.andb_true_iff in E. destruct E as (Z & Em).
      apply qzerob_true in Z. split; auto. rewrite (H_empty _ _ Em). lra.
    - destruct (solveT (smol s) h) as [t|e] eqn:S; simpl; [|discriminate].
      intros H; inversion H; subst. simpl. split; [reflexivity | apply (solve_ok _ _ _ S)].
  Qed.

  Lemma adiabatic_lemma is_stream w o s Qin s' :
    adiabatic Hfun solveT hf is_stream w o s Qin = (None, s') ->
    Hnet Hfun hf s' == Hnet Hfun hf s + Qin.
  Proof.
    unfold adiabatic. destruct is_stream; simpl; [|discriminate].
    unfold isothermal. destruct (call_stream w o (smol s)) as [[e|] mol'] eqn:C; [discriminate|].
    simpl. destruct (setH solveT _ _) as [s2|e] eqn:S; [|discriminate].
    intros H; inversion H; subst. destruct (setH_roundtrip _ _ _ S) as (M & V).
    simpl in M. unfold Hnet at 1. rewrite V, M. simpl. lra.
  Qed.

  Lemma adiabatic_flows is_stream w o s Qin s' :
    adiabatic Hfun solveT hf is_stream w o s Qin = (None, s') ->
    call_stream w o (smol s) = (None, smol s').
  Proof.
    unfold adiabatic. destruct is_stream; simpl; [|discriminate].
    unfold isothermal. destruct (call_stream w o (smol s)) as [[e|] mol'] eqn:C; [discriminate|].
    simpl. destruct (setH solveT _ _) as [s2|e] eqn:S; [|discriminate].
    intros H; inversion H; subst. destruct (setH_roundtrip _ _ _ S) as (M & _). rewrite M. reflexivity.
  Qed.

  (* ideal mixture: H is linear in the flows with per-entry enthalpies hs T *)
  Variable hs : Q -> vec.
  Hypothesis H_linear : forall m T, Hfun m T == vdot (hs T) m.

  Lemma isothermal_any_lemma w o s s' : isothermal w o s = (None, s') ->
    sT s' = sT s /\
    Hnet Hfun hf s' - Hnet Hfun hf s ==
      (vdot hf (smol s') - vdot hf (smol s)) + (vdot (hs (sT s)) (smol s') - vdot (hs (sT s)) (smol s)).
  Proof.
    unfold isothermal. destruct (call_stream w o (smol s)) as [e mol'] eqn:C.
    intros H; inversion H; subst. simpl. split; auto.
    unfold Hnet, Hf_of. simpl. rewrite !H_linear. lra.
  Qed.
End Energy.

Lemma vdot_vadd_l : forall a b m, length a = length b ->
  vdot (vadd a b) m == vdot a m + vdot b m.
Proof.
  induction a as [|x a IH]; intros [|y b] m L; simpl in L; try discriminate.
  - unfold vadd; simpl. rewrite !vdot_nil_l. lra.
  - destruct m as [|z m]; [rewrite !vdot_nil_r; lra|].
    unfold vadd in *. simpl map2. rewrite !vdot_cons, IH by lia. ring.
Qed.

Lemma vdot_vsub_l : forall a b m, length a = length b ->
  vdot (vsub a b) m == vdot a m - vdot b m.
Proof.
  induction a as [|x a IH]; intros [|y b] m L; simpl in L; try discriminate.
  - unfold vsub; simpl. rewrite !vdot_nil_l. lra.
  - destruct m as [|z m]; [rewrite !vdot_nil_r; lra|].
    unfold vsub in *. simpl map2. rewrite !vdot_cons, IH by lia. ring.
Qed.

Lemma vdot_zero_l : forall a m, (forall i, nthq a i == 0) -> vdot a m == 0.
Proof.
  induction a as [|x a IH]; intros m Z; [rewrite vdot_nil_l; lra|].
  destruct m as [|z m]; [rewrite vdot_nil_r; lra|]. rewrite vdot_cons.
  assert (Z0 := Z O). unfold nthq in Z0; simpl in Z0. rewrite Z0, IH; [lra|].
  intros i. exact (Z (S i)).
Qed.

(* one molar reaction applied isothermally (no clamp): the change of Hnet is the heat of reaction
   times the reactant fed plus the Kirchhoff term.  [lat] is the latent-heat part of the heats
   (zero vector for a phase-less reaction), so that X * (hf + lat) . S is Reaction.dH. *)
Lemma isothermal_single_lemma Hfun hf hs lat w r s s' :
  (forall m T, Hfun m T == vdot (hs T) m) ->
  wt r = false -> wf (length (smol s)) r -> length hf = length lat -> length (hs (sT s)) = length lat ->
  nonneg (react r (smol s)) ->
  isothermal w (Simple false (Single r)) s = (None, s') ->
  Hnet Hfun hf s' - Hnet Hfun hf s ==
    (X r * vdot (vadd hf lat) (st r)) * nthq (smol s) (ridx r)
    + (vdot (vsub (hs (sT s)) lat) (smol s') - vdot (vsub (hs (sT s)) lat) (smol s)).
Proof.
  intros HL Wt W L1 L2 Nn I.
  destruct (isothermal_any_lemma Hfun hf hs HL w _ s s' I) as (_ & E). rewrite E. clear E.
  unfold isothermal, call_stream in I. simpl in I. unfold process in I. simpl in I.
  destruct (qltb (neg_sum (react r (smol s))) (- eps)); [discriminate|].
  inversion I; subst. simpl. rewrite (clampv_id _ Nn).
  rewrite !vdot_vsub_l by auto. rewrite vdot_vadd_l by auto.
  rewrite !react_dot by exact W. ring.
Qed.

Lemma isothermal_at_ref_lemma Hfun hf hs lat w r s s' :
  (forall m T, Hfun m T == vdot (hs T) m) ->
  wt r = false -> wf (length (smol s)) r -> length hf = length lat -> length (hs (sT s)) = length lat ->
  nonneg (react r (smol s)) ->
  (forall i, nthq (hs (sT s)) i == nthq lat i) ->
  isothermal w (Simple false (Single r)) s = (None, s') ->
  Hnet Hfun hf s' - Hnet Hfun hf s == (X r * vdot (vadd hf lat) (st r)) * nthq (smol s) (ridx r).
Proof.
  intros HL Wt W L1 L2 Nn Ref I.
  rewrite (isothermal_single_lemma Hfun hf hs lat w r s s' HL Wt W L1 L2 Nn I).
  assert (Z : forall m, vdot (vsub (hs (sT s)) lat) m == 0).
  { intros m. apply vdot_zero_l. intros i. rewrite nthq_vsub by auto. rewrite Ref. lra. }
  rewrite !Z. lra.
Qed.

(* ====================================================================================== *)
(* conversions are shared: after any history of assignments every member of the object carries
   the entry of the one conversions array that every handle reads                           *)
Lemma write_range_length xs : forall off v, length (write_range off xs v) = length v.
Proof. induction xs as [|x t IH]; intros off v; simpl; auto. rewrite IH. apply upd_length. Qed.

Lemma xrun_length ops : forall v, length (xrun v ops) = length v.
Proof.
  unfold xrun. induction ops as [|o t IH]; intros v; simpl; auto. rewrite IH.
  destruct o; simpl; [apply upd_length|apply write_range_length].
Qed.

Lemma take_set_spec s l : (length (set_members s) <= length l)%nat ->
  set_members (fst (take_set s l)) = firstn (length (set_members s)) l /\
  snd (take_set s l) = skipn (length (set_members s)) l.
Proof.
  destruct s as [r|rs|rs]; simpl; intros L; auto.
  destruct l as [|x t]; simpl in *; [lia|]. auto.
Qed.

Lemma take_parts_flat ps : forall l,
  length (concat (map (fun p => set_members (snd p)) ps)) = length l ->
  concat (map (fun p => set_members (snd p)) (take_parts ps l)) = l.
Proof.
  induction ps as [|[b s] t IH]; intros l L; simpl in *.
  - destruct l; [reflexivity|discriminate].
  - rewrite app_length in L.
    destruct (take_set_spec s l) as (A & B); [lia|].
    destruct (take_set s l) as [s' l'] eqn:E. simpl in *. rewrite A, B. rewrite IH.
    + apply firstn_skipn.
    + rewrite skipn_length. lia.
Qed.

Lemma flat_rebuild o l : length l = length (flat_members o) -> flat_members (rebuild o l) = l.
Proof.
  destruct o as [b s|b ps]; simpl; intros L.
  - destruct (take_set_spec s l) as (A & _); [lia|]. rewrite A, <- L. apply firstn_all.
  - apply take_parts_flat. auto.
Qed.

Lemma xhist_members_lemma o ops :
  flat_members (apply_xhist o ops) = map2 set_X (flat_members o) (xrun (map X (flat_members o)) ops).
Proof.
  unfold apply_xhist, set_Xs. apply flat_rebuild.
  apply map2_length. rewrite xrun_length, map_length. reflexivity.
Qed.

Lemma nth_map2_set_X : forall (l : list rxn) (xs : vec) k r, length l = length xs ->
  nth_error (map2 set_X l xs) k = Some r ->
  exists r0, nth_error l k = Some r0 /\ X r = nthq xs k /\ st r = st r0 /\ ridx r = ridx r0 /\
             wt r = wt r0 /\ phases r = phases r0.
Proof.
  induction l as [|a l IH]; intros [|x xs] k r L H; simpl in *; try discriminate.
  - destruct k; discriminate.
  - destruct k as [|k]; simpl in *.
    + inversion H; subst. exists a. repeat split; reflexivity.
    + destruct (IH xs k r) as (r0 & A & B); auto. exists r0. split; auto.
Qed.

Lemma xhist_member_lemma o ops k r : nth_error (flat_members (apply_xhist o ops)) k = Some r ->
  exists r0, nth_error (flat_members o) k = Some r0 /\
    X r = nthq (xrun (map X (flat_members o)) ops) k /\
    st r = st r0 /\ ridx r = ridx r0 /\ wt r = wt r0 /\ phases r = phases r0.
Proof.
  rewrite xhist_members_lemma. apply nth_map2_set_X.
  rewrite xrun_length, map_length. reflexivity.
Qed.

(* ---------- heat released by sets: the sum of the members' heats of reaction times what each was fed ---------- *)
Definition heat_parallel (hf feed : vec) (rs : list rxn) : Q :=
  fold_right (fun r acc => X r * vdot hf (st r) * nthq feed (ridx r) + acc) 0 rs.
Fixpoint heat_series (hf : vec) (rs : list rxn) (m : vec) : Q :=
  match rs with
  | [] => 0
  | r :: t => X r * vdot hf (st r) * nthq m (ridx r) + heat_series hf t (react r m)
  end.

Lemma parallel_dot hf feed rs : forall m, Forall (wf (length m)) rs ->
  vdot hf (react_parallel_from feed rs m) == vdot hf m + heat_parallel hf feed rs.
Proof.
  induction rs as [|r rs IH]; intros m W; simpl; [lra|].
  inversion W as [|? ? Wr Wrs]; subst.
  assert (L : length (vadd m (vscale (nthq feed (ridx r) * X r) (st r))) = length m).
  { apply vadd_length. rewrite vscale_length. symmetry; exact Wr. }
  rewrite IH by (rewrite L; exact Wrs).
  rewrite vdot_vadd, vdot_vscale; [ring|]. rewrite vscale_length. symmetry; exact Wr.
Qed.

Lemma series_dot hf rs : forall m, Forall (wf (length m)) rs ->
  vdot hf (react_series rs m) == vdot hf m + heat_series hf rs m.
Proof.
  induction rs as [|r rs IH]; intros m W; simpl; [unfold react_series; simpl; lra|].
  inversion W as [|? ? Wr Wrs]; subst. unfold react_series in *. simpl.
  rewrite IH by (rewrite react_length; auto). rewrite react_dot by exact Wr. ring.
Qed.

Lemma isothermal_parallel_lemma Hfun hf hs w rs s s' :
  (forall m T, Hfun m T == vdot (hs T) m) ->
  Forall (wf (length (smol s))) rs -> nonneg (react_parallel rs (smol s)) ->
  isothermal w (Simple false (Parallel rs)) s = (None, s') ->
  Hnet Hfun hf s' - Hnet Hfun hf s ==
    heat_parallel hf (smol s) rs + (vdot (hs (sT s)) (smol s') - vdot (hs (sT s)) (smol s)).
Proof.
  intros HL W Nn I.
  destruct (isothermal_any_lemma Hfun hf hs HL w _ s s' I) as (_ & E). rewrite E. clear E.
  unfold isothermal, call_stream in I. simpl in I. unfold process in I. simpl in I.
  destruct (qltb (neg_sum (react_parallel rs (smol s))) (- eps)); [discriminate|].
  inversion I; subst. simpl. rewrite (clampv_id _ Nn).
  unfold react_parallel. rewrite parallel_dot by exact W. ring.
Qed.

Lemma isothermal_series_lemma Hfun hf hs w rs s s' :
  (forall m T, Hfun m T == vdot (hs T) m) ->
  Forall (wf (length (smol s))) rs -> nonneg (react_series rs (smol s)) ->
  isothermal w (Simple false (Series rs)) s = (None, s') ->
  Hnet Hfun hf s' - Hnet Hfun hf s ==
    heat_series hf rs (smol s) + (vdot (hs (sT s)) (smol s') - vdot (hs (sT s)) (smol s)).
Proof.
  intros HL W Nn I.
  destruct (isothermal_any_lemma Hfun hf hs HL w _ s s' I) as (_ & E). rewrite E. clear E.
  unfold isothermal, call_stream in I. simpl in I. unfold process in I. simpl in I.
  destruct (qltb (neg_sum (react_series rs (smol s))) (- eps)); [discriminate|].
  inversion I; subst. simpl. rewrite (clampv_id _ Nn).
  rewrite series_dot by exact W. ring.
Qed.
