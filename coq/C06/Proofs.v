(* C06 — lemmas about the heat of reaction and adiabatic / isothermal reaction *)
From V Require Import Common.NumFacts C05.Model C05.Proofs C06.Model.

(* ---------- dH ---------- *)
Lemma dH_mol_lemma c r : phases r = [] -> wt r = false ->
  dH c r = Ok (X r * vdot (c_hf c) (st r)).
Proof. intros P W. unfold dH, heats. rewrite P, W. reflexivity. Qed.

Lemma dH_wt_phaseless_lemma c r : phases r = [] -> wt r = true ->
  dH c r = Ok (X r * vdot (map2 Qdiv (c_hf c) (c_mw c ++ [])) (st r)).
Proof. intros P W. unfold dH, heats. rewrite P, W. reflexivity. Qed.

Lemma dH_phases_lemma c r lat : phases r <> [] ->
  latent_rows (length (c_hf c)) (phases r) (c_pref c) (c_hvap c) (c_hfus c) (st r) = Ok lat ->
  dH c r = Ok (X r * vdot (let h := vadd (tile (Nat.max 1 (length (phases r))) (c_hf c)) lat in
                           if wt r then map2 Qdiv h (tile (Nat.max 1 (length (phases r))) (c_mw c)) else h)
                          (st r)).
Proof.
  intros P L. unfold dH, heats. destruct (phases r) as [|p ps] eqn:E; [congruence|].
  rewrite L. simpl. destruct (wt r); reflexivity.
Qed.

(* the table of latent heats, spelled out *)
Lemma latent_table hv hf :
  latent 2 2 hv hf = Ok 0 /\ latent 1 1 hv hf = Ok 0 /\ latent 3 3 hv hf = Ok 0 /\
  latent 2 1 hv hf = Ok hv /\ latent 2 3 hv hf = Ok (- hf) /\
  latent 1 2 hv hf = Ok (- hv) /\ latent 1 3 hv hf = Ok (- (hv + hf)) /\
  latent 3 2 hv hf = Ok hf /\ latent 3 1 hv hf = Ok (hf + hv) /\
  latent 2 4 hv hf = Err ERuntime /\ latent 1 5 hv hf = Err ERuntime.
Proof. repeat split; reflexivity. Qed.

(* per-mass heat of reaction times the molecular weight of the reactant = per-mole heat of reaction,
   for any vector of per-entry heats h (formation + latent) *)
Lemma vdot_wt : forall (h w s s' : vec) (k : Q),
  length s' = length s -> length w = length s -> length h = length s ->
  Forall (fun x => ~ x == 0) w ->
  (forall i, nthq s' i * k == nthq s i * nthq w i) ->
  vdot (map2 Qdiv h w) s' * k == vdot h s.
Proof.
  induction h as [|x h IH]; intros w s s' k L1 L2 L3 NZ C.
  - simpl. rewrite !vdot_nil_l. lra.
  - destruct s as [|y s]; [discriminate|]. destruct s' as [|y' s']; [discriminate|].
    destruct w as [|z w]; [discriminate|]. simpl in *.
    inversion NZ as [|? ? Nz NZ']; subst.
    simpl map2. rewrite !vdot_cons.
    assert (C0 := C O). unfold nthq in C0; simpl in C0.
    assert (IH' : vdot (map2 Qdiv h w) s' * k == vdot h s).
    { apply IH; auto; try lia. intros i. exact (C (S i)). }
    assert (E : (x / z * y' + vdot (map2 Qdiv h w) s') * k ==
                x / z * (y' * k) + vdot (map2 Qdiv h w) s' * k) by ring.
    rewrite E, C0, IH'. field. exact Nz.
Qed.

Lemma dH_wt_lemma c r r' d d' : phases r = [] -> phases r' = [] -> wt r = false -> wt r' = true ->
  wt_of (c_mw c) r r' -> length (c_mw c) = length (st r) -> length (c_hf c) = length (st r) ->
  Forall (fun x => ~ x == 0) (c_mw c) ->
  dH c r = Ok d -> dH c r' = Ok d' -> d' * nthq (c_mw c) (ridx r) == d.
Proof.
  intros P P' W W' (R & Xe & Ls & NZr & C) Lw Lh NZ D D'.
  rewrite dH_mol_lemma in D by auto. rewrite dH_wt_phaseless_lemma in D' by auto.
  inversion D; inversion D'; subst. rewrite app_nil_r. rewrite Xe.
  assert (H := vdot_wt (c_hf c) (c_mw c) (st r) (st r') (nthq (c_mw c) (ridx r)) Ls Lw Lh NZ C).
  rewrite <- H. ring.
Qed.

(* ---------- enthalpy balance ---------- *)
Section Energy.
  Variable Hfun : vec -> Q -> Q.
  Variable solveT : vec -> Q -> res Q.
  Variable hf : vec.
  (* contract of the H/T inversion: the temperature it returns reproduces the requested enthalpy *)
  Hypothesis solve_ok : forall m h t, solveT m h = Ok t -> Hfun m t == h.
  (* an empty stream carries no enthalpy *)
  Hypothesis H_empty : forall m t, isempty m = true -> Hfun m t == 0.

  Lemma setH_roundtrip s h s' : setH solveT s h = Ok s' ->
    smol s' = smol s /\ Hfun (smol s') (sT s') == h.
  Proof.
    unfold setH. destruct (qzerob h && isempty (smol s)) eqn:E.
    - intros H; inversion H; subst. apply Bool.andb_true_iff in E. destruct E as (Z & Em).
      apply qzerob_true in Z. split; auto. rewrite (H_empty _ _ Em). lra.
    - destruct (solveT (smol s) h) as [t|e] eqn:S; simpl; [|discriminate].
      intros H; inversion H; subst. simpl. split; [reflexivity | apply (solve_ok _ _ _ S)].
  Qed.

  Lemma adiabatic_lemma is_stream w o s Qin s' :
    adiabatic Hfun solveT hf is_stream w o s Qin = (None, s') ->
    Hnet Hfun hf s' == Hnet Hfun hf s + Qin.
  Proof.
    unfold adiabatic. destruct is_stream; simpl; [|discriminate].
    unfold isothermal. destruct (call_stream w o (smol s)) as [[e|] mol'] eqn:C; [discriminate|].
    simpl. destruct (setH solveT _ _) as [s2|e] eqn:S; [|discriminate].
    intros H; inversion H; subst. destruct (setH_roundtrip _ _ _ S) as (M & V).
    simpl in M. unfold Hnet at 1. rewrite V, M. simpl. lra.
  Qed.

  Lemma adiabatic_flows is_stream w o s Qin s' :
    adiabatic Hfun solveT hf is_stream w o s Qin = (None, s') ->
    call_stream w o (smol s) = (None, smol s').
  Proof.
    unfold adiabatic. destruct is_stream; simpl; [|discriminate].
    unfold isothermal. destruct (call_stream w o (smol s)) as [[e|] mol'] eqn:C; [discriminate|].
    simpl. destruct (setH solveT _ _) as [s2|e] eqn:S; [|discriminate].
    intros H; inversion H; subst. destruct (setH_roundtrip _ _ _ S) as (M & _). rewrite M. reflexivity.
  Qed.

  (* ideal mixture: H is linear in the flows with per-entry enthalpies hs T *)
  Variable hs : Q -> vec.
  Hypothesis H_linear : forall m T, Hfun m T == vdot (hs T) m.

  Lemma isothermal_any_lemma w o s s' : isothermal w o s = (None, s') ->
    sT s' = sT s /\
    Hnet Hfun hf s' - Hnet Hfun hf s ==
      (vdot hf (smol s') - vdot hf (smol s)) + (vdot (hs (sT s)) (smol s') - vdot (hs (sT s)) (smol s)).
  Proof.
    unfold isothermal. destruct (call_stream w o (smol s)) as [e mol'] eqn:C.
    intros H; inversion H; subst. simpl. split; auto.
    unfold Hnet, Hf_of. simpl. rewrite !H_linear. lra.
  Qed.
End Energy.

Lemma vdot_vadd_l : forall a b m, length a = length b ->
  vdot (vadd a b) m == vdot a m + vdot b m.
Proof.
  induction a as [|x a IH]; intros [|y b] m L; simpl in L; try discriminate.
  - unfold vadd; simpl. rewrite !vdot_nil_l. lra.
  - destruct m as [|z m]; [rewrite !vdot_nil_r; lra|].
    unfold vadd in *. simpl map2. rewrite !vdot_cons, IH by lia. ring.
Qed.

Lemma vdot_vsub_l : forall a b m, length a = length b ->
  vdot (vsub a b) m == vdot a m - vdot b m.
Proof.
  induction a as [|x a IH]; intros [|y b] m L; simpl in L; try discriminate.
  - unfold vsub; simpl. rewrite !vdot_nil_l. lra.
  - destruct m as [|z m]; [rewrite !vdot_nil_r; lra|].
    unfold vsub in *. simpl map2. rewrite !vdot_cons, IH by lia. ring.
Qed.

Lemma vdot_zero_l : forall a m, (forall i, nthq a i == 0) -> vdot a m == 0.
Proof.
  induction a as [|x a IH]; intros m Z; [rewrite vdot_nil_l; lra|].
  destruct m as [|z m]; [rewrite vdot_nil_r; lra|]. rewrite vdot_cons.
  assert (Z0 := Z O). unfold nthq in Z0; simpl in Z0. rewrite Z0, IH; [lra|].
  intros i. exact (Z (S i)).
Qed.

(* one molar reaction applied isothermally (no clamp): the change of Hnet is the heat of reaction
   times the reactant fed plus the Kirchhoff term.  [lat] is the latent-heat part of the heats
   (zero vector for a phase-less reaction), so that X * (hf + lat) . S is Reaction.dH. *)
Lemma isothermal_single_lemma Hfun hf hs lat w r s s' :
  (forall m T, Hfun m T == vdot (hs T) m) ->
  wt r = false -> wf (length (smol s)) r -> length hf = length lat -> length (hs (sT s)) = length lat ->
  nonneg (react r (smol s)) ->
  isothermal w (Simple false (Single r)) s = (None, s') ->
  Hnet Hfun hf s' - Hnet Hfun hf s ==
    (X r * vdot (vadd hf lat) (st r)) * nthq (smol s) (ridx r)
    + (vdot (vsub (hs (sT s)) lat) (smol s') - vdot (vsub (hs (sT s)) lat) (smol s)).
Proof.
  intros HL Wt W L1 L2 Nn I.
  destruct (isothermal_any_lemma Hfun hf hs HL w _ s s' I) as (_ & E). rewrite E. clear E.
  unfold isothermal, call_stream in I. simpl in I. unfold process in I. simpl in I.
  destruct (qltb (neg_sum (react r (smol s))) (- eps)); [discriminate|].
  inversion I; subst. simpl. rewrite (clampv_id _ Nn).
  rewrite !vdot_vsub_l by auto. rewrite vdot_vadd_l by auto.
  rewrite !react_dot by exact W. ring.
Qed.

Lemma isothermal_at_ref_lemma Hfun hf hs lat w r s s' :
  (forall m T, Hfun m T == vdot (hs T) m) ->
  wt r = false -> wf (length (smol s)) r -> length hf = length lat -> length (hs (sT s)) = length lat ->
  nonneg (react r (smol s)) ->
  (forall i, nthq (hs (sT s)) i == nthq lat i) ->
  isothermal w (Simple false (Single r)) s = (None, s') ->
  Hnet Hfun hf s' - Hnet Hfun hf s == (X r * vdot (vadd hf lat) (st r)) * nthq (smol s) (ridx r).
Proof.
  intros HL Wt W L1 L2 Nn Ref I.
  rewrite (isothermal_single_lemma Hfun hf hs lat w r s s' HL Wt W L1 L2 Nn I).
  assert (Z : forall m, vdot (vsub (hs (sT s)) lat) m == 0).
  { intros m. apply vdot_zero_l. intros i. rewrite nthq_vsub by auto. rewrite Ref. lra. }
  rewrite !Z. lra.
Qed.

(* ====================================================================================== *)
(* conversions are shared: after any history of assignments every member of the object carries
   the entry of the one conversions array that every handle reads                           *)
Lemma write_range_length xs : forall off v, length (write_range off xs v) = length v.
Proof. induction xs as [|x t IH]; intros off v; simpl; auto. rewrite IH. apply upd_length. Qed.

Lemma xrun_length ops : forall v, length (xrun v ops) = length v.
Proof.
  unfold xrun. induction ops as [|o t IH]; intros v; simpl; auto. rewrite IH.
  destruct o; simpl; [apply upd_length|apply write_range_length].
Qed.

Lemma take_set_spec s l : (length (set_members s) <= length l)%nat ->
  set_members (fst (take_set s l)) = firstn (length (set_members s)) l /\
  snd (take_set s l) = skipn (length (set_members s)) l.
Proof.
  destruct s as [r|rs|rs]; simpl; intros L; auto.
  destruct l as [|x t]; simpl in *; [lia|]. auto.
Qed.

Lemma take_parts_flat ps : forall l,
  length (concat (map (fun p => set_members (snd p)) ps)) = length l ->
  concat (map (fun p => set_members (snd p)) (take_parts ps l)) = l.
Proof.
  induction ps as [|[b s] t IH]; intros l L; simpl in *.
  - destruct l; [reflexivity|discriminate].
  - rewrite app_length in L.
    destruct (take_set_spec s l) as (A & B); [lia|].
    destruct (take_set s l) as [s' l'] eqn:E. simpl in *. rewrite A, B. rewrite IH.
    + apply firstn_skipn.
    + rewrite skipn_length. lia.
Qed.

Lemma flat_rebuild o l : length l = length (flat_members o) -> flat_members (rebuild o l) = l.
Proof.
  destruct o as [b s|b ps]; simpl; intros L.
  - destruct (take_set_spec s l) as (A & _); [lia|]. rewrite A, <- L. apply firstn_all.
  - apply take_parts_flat. auto.
Qed.

Lemma xhist_members_lemma o ops :
  flat_members (apply_xhist o ops) = map2 set_X (flat_members o) (xrun (map X (flat_members o)) ops).
Proof.
  unfold apply_xhist, set_Xs. apply flat_rebuild.
  apply map2_length. rewrite xrun_length, map_length. reflexivity.
Qed.

Lemma nth_map2_set_X : forall (l : list rxn) (xs : vec) k r, length l = length xs ->
  nth_error (map2 set_X l xs) k = Some r ->
  exists r0, nth_error l k = Some r0 /\ X r = nthq xs k /\ st r = st r0 /\ ridx r = ridx r0 /\
             wt r = wt r0 /\ phases r = phases r0.
Proof.
  induction l as [|a l IH]; intros [|x xs] k r L H; simpl in *; try discriminate.
  - destruct k; discriminate.
  - destruct k as [|k]; simpl in *.
    + inversion H; subst. exists a. repeat split; reflexivity.
    + destruct (IH xs k r) as (r0 & A & B); auto. exists r0. split; auto.
Qed.

Lemma xhist_member_lemma o ops k r : nth_error (flat_members (apply_xhist o ops)) k = Some r ->
  exists r0, nth_error (flat_members o) k = Some r0 /\
    X r = nthq (xrun (map X (flat_members o)) ops) k /\
    st r = st r0 /\ ridx r = ridx r0 /\ wt r = wt r0 /\ phases r = phases r0.
Proof.
  rewrite xhist_members_lemma. apply nth_map2_set_X.
  rewrite xrun_length, map_length. reflexivity.
Qed.

(* ---------- heat released by sets: the sum of the members' heats of reaction times what each was fed ---------- *)
Definition heat_parallel (hf feed : vec) (rs : list rxn) : Q :=
  fold_right (fun r acc => X r * vdot hf (st r) * nthq feed (ridx r) + acc) 0 rs.
Fixpoint heat_series (hf : vec) (rs : list rxn) (m : vec) : Q :=
  match rs with
  | [] => 0
  | r :: t => X r * vdot hf (st r) * nthq m (ridx r) + heat_series hf t (react r m)
  end.

Lemma parallel_dot hf feed rs : forall m, Forall (wf (length m)) rs ->
  vdot hf (react_parallel_from feed rs m) == vdot hf m + heat_parallel hf feed rs.
Proof.
  induction rs as [|r rs IH]; intros m W; simpl; [lra|].
  inversion W as [|? ? Wr Wrs]; subst.
  assert (L : length (vadd m (vscale (nthq feed (ridx r) * X r) (st r))) = length m).
  { apply vadd_length. rewrite vscale_length. symmetry; exact Wr. }
  rewrite IH by (rewrite L; exact Wrs).
  rewrite vdot_vadd, vdot_vscale; [ring|]. rewrite vscale_length. symmetry; exact Wr.
Qed.

Lemma series_dot hf rs : forall m, Forall (wf (length m)) rs ->
  vdot hf (react_series rs m) == vdot hf m + heat_series hf rs m.
Proof.
  induction rs as [|r rs IH]; intros m W; simpl; [unfold react_series; simpl; lra|].
  inversion W as [|? ? Wr Wrs]; subst. unfold react_series in *. simpl.
  rewrite IH by (rewrite react_length; auto). rewrite react_dot by exact Wr. ring.
Qed.

Lemma isothermal_parallel_lemma Hfun hf hs w rs s s' :
  (forall m T, Hfun m T == vdot (hs T) m) ->
  Forall (wf (length (smol s))) rs -> nonneg (react_parallel rs (smol s)) ->
  isothermal w (Simple false (Parallel rs)) s = (None, s') ->
  Hnet Hfun hf s' - Hnet Hfun hf s ==
    heat_parallel hf (smol s) rs + (vdot (hs (sT s)) (smol s') - vdot (hs (sT s)) (smol s)).
Proof.
  intros HL W Nn I.
  destruct (isothermal_any_lemma Hfun hf hs HL w _ s s' I) as (_ & E). rewrite E. clear E.
  unfold isothermal, call_stream in I. simpl in I. unfold process in I. simpl in I.
  destruct (qltb (neg_sum (react_parallel rs (smol s))) (- eps)); [discriminate|].
  inversion I; subst. simpl. rewrite (clampv_id _ Nn).
  unfold react_parallel. rewrite parallel_dot by exact W. ring.
Qed.

Lemma isothermal_series_lemma Hfun hf hs w rs s s' :
  (forall m T, Hfun m T == vdot (hs T) m) ->
  Forall (wf (length (smol s))) rs -> nonneg (react_series rs (smol s)) ->
  isothermal w (Simple false (Series rs)) s = (None, s') ->
  Hnet Hfun hf s' - Hnet Hfun hf s ==
    heat_series hf rs (smol s) + (vdot (hs (sT s)) (smol s') - vdot (hs (sT s)) (smol s)).
Proof.
  intros HL W Nn I.
  destruct (isothermal_any_lemma Hfun hf hs HL w _ s s' I) as (_ & E). rewrite E. clear E.
  unfold isothermal, call_stream in I. simpl in I. unfold process in I. simpl in I.
  destruct (qltb (neg_sum (react_series rs (smol s))) (- eps)); [discriminate|].
  inversion I; subst. simpl. rewrite (clampv_id _ Nn).
  rewrite series_dot by exact W. ring.
Qed.

(* ====================================================================================== *)
(* dH on a weight basis for phase-tagged reactions                                          *)
Lemma vdot_wt_gen : forall (h w s s' : vec) (k : Q),
  length s' = length s -> length w = length s ->
  Forall (fun x => ~ x == 0) w ->
  (forall i, nthq s' i * k == nthq s i * nthq w i) ->
  vdot (map2 Qdiv h w) s' * k == vdot h s.
Proof.
  induction h as [|x h IH]; intros w s s' k L1 L2 NZ C.
  - simpl. rewrite !vdot_nil_l. lra.
  - destruct s as [|y s].
    + destruct s'; [|discriminate]. rewrite !vdot_nil_r. lra.
    + destruct s' as [|y' s']; [discriminate|]. destruct w as [|z w]; [discriminate|]. simpl in *.
      inversion NZ as [|? ? Nz NZ']; subst. simpl map2. rewrite !vdot_cons.
      assert (C0 := C O). unfold nthq in C0; simpl in C0.
      assert (IH' : vdot (map2 Qdiv h w) s' * k == vdot h s).
      { apply IH; auto; try lia. intros i. exact (C (S i)). }
      assert (E : (x / z * y' + vdot (map2 Qdiv h w) s') * k ==
                  x / z * (y' * k) + vdot (map2 Qdiv h w) s' * k) by ring.
      rewrite E, C0, IH'. field. exact Nz.
Qed.

Definition same_support (s s' : vec) : Prop := Forall2 (fun x y => qzerob x = qzerob y) s s'.

Lemma Forall2_firstn {A B} (R : A -> B -> Prop) n : forall l l', Forall2 R l l' -> Forall2 R (firstn n l) (firstn n l').
Proof. induction n as [|n IH]; intros l l' H; simpl; [constructor|]. destruct H; constructor; auto. Qed.
Lemma Forall2_skipn {A B} (R : A -> B -> Prop) n : forall l l', Forall2 R l l' -> Forall2 R (skipn n l) (skipn n l').
Proof. induction n as [|n IH]; intros l l' H; simpl; auto. destruct H; [constructor|auto]. Qed.

Lemma latent_row_support ph : forall prefs hv hf s s', same_support s s' ->
  latent_row ph prefs hv hf s = latent_row ph prefs hv hf s'.
Proof.
  induction prefs as [|p prefs IH]; intros hv hf s s' S; [reflexivity|].
  destruct hv as [|v hv]; [reflexivity|]. destruct hf as [|f hf]; [reflexivity|].
  destruct S as [|x y s s' Hxy S]; [reflexivity|]. simpl. rewrite Hxy, (IH hv hf s s' S). reflexivity.
Qed.

Lemma latent_rows_support n prefs hv hf : forall phs s s', same_support s s' ->
  latent_rows n phs prefs hv hf s = latent_rows n phs prefs hv hf s'.
Proof.
  induction phs as [|ph phs IH]; intros s s' S; [reflexivity|]. simpl.
  rewrite (latent_row_support ph prefs hv hf _ _ (Forall2_firstn _ n _ _ S)).
  rewrite (IH _ _ (Forall2_skipn _ n _ _ S)). reflexivity.
Qed.

Lemma support_of_pointwise : forall s s' : vec, length s' = length s ->
  (forall i, (i < length s)%nat -> qzerob (nthq s i) = qzerob (nthq s' i)) -> same_support s s'.
Proof.
  induction s as [|x s IH]; intros [|y s'] L P; simpl in L; try discriminate; constructor.
  - apply (P O). simpl. lia.
  - apply IH; [lia|]. intros i Hi. apply (P (S i)). simpl. lia.
Qed.

Lemma nz_nthq w : Forall (fun x => ~ x == 0) w -> forall i, (i < length w)%nat -> ~ nthq w i == 0.
Proof.
  induction 1 as [|x w Hx Hw IH]; intros i Hi; simpl in Hi; [lia|].
  destruct i; unfold nthq in *; simpl; auto. apply IH. lia.
Qed.

Lemma wt_of_support w r r' : wt_of w r r' -> length w = length (st r) -> Forall (fun x => ~ x == 0) w ->
  same_support (st r) (st r').
Proof.
  intros (R & Xe & Ls & NZr & C) Lw NZ. apply support_of_pointwise; auto.
  intros i Hi. specialize (C i). assert (Wi := nz_nthq w NZ i (eq_ind_r (fun n => (i < n)%nat) Hi Lw)).
  destruct (qzerob (nthq (st r) i)) eqn:A; destruct (qzerob (nthq (st r') i)) eqn:B; auto.
  - apply qzerob_true in A. apply qzerob_false in B. exfalso. rewrite A in C.
    assert (Z : nthq (st r') i * nthq w (ridx r) == 0) by (rewrite C; ring).
    apply Qmult_integral in Z. destruct Z; contradiction.
  - apply qzerob_false in A. apply qzerob_true in B. exfalso. rewrite B in C.
    assert (Z : nthq (st r) i * nthq w i == 0) by (rewrite <- C; ring).
    apply Qmult_integral in Z. destruct Z; contradiction.
Qed.

Lemma dH_wt_phases_lemma c r r' d d' :
  phases r <> [] -> phases r' = phases r -> wt r = false -> wt r' = true ->
  let W := tile (Nat.max 1 (length (phases r))) (c_mw c) in
  wt_of W r r' -> length W = length (st r) -> Forall (fun x => ~ x == 0) W ->
  dH c r = Ok d -> dH c r' = Ok d' -> d' * nthq W (ridx r) == d.
Proof.
  intros P P' Wr Wr' W WO LW NZ D D'.
  assert (S := wt_of_support W r r' WO LW NZ).
  destruct WO as (R & Xe & Ls & NZr & C).
  unfold dH, heats in D, D'. rewrite P' in D'.
  destruct (phases r) as [|p ps] eqn:E; [congruence|].
  rewrite <- (latent_rows_support _ _ _ _ _ _ _ S) in D'.
  destruct (latent_rows (length (c_hf c)) (p :: ps) (c_pref c) (c_hvap c) (c_hfus c) (st r)) as [lat|e]; simpl in D, D'; [|discriminate].
  rewrite Wr in D. rewrite Wr' in D'. inversion D; inversion D'; subst d d'.
  fold W. rewrite Xe.
  assert (H := vdot_wt_gen (vadd (tile (Nat.max 1 (length (p :: ps))) (c_hf c)) lat) W (st r) (st r')
                 (nthq W (ridx r)) Ls LW NZ C).
  unfold W in *. simpl in H |- *. rewrite <- H. ring.
Qed.

(* ====================================================================================== *)
(* isothermal reaction of any object on either basis: the heat released, member by member    *)
Definition heat_rset (g : vec) (s : rset) (v : vec) : Q :=
  match s with
  | Single r => X r * vdot g (st r) * nthq v (ridx r)
  | Parallel rs => heat_parallel g v rs
  | Series rs => heat_series g rs v
  end.
Fixpoint heat_parts (g : vec) (b : bool) (ps : list (bool * rset)) (v : vec) : Q :=
  match ps with
  | [] => 0
  | (pb, s) :: t => if Bool.eqb pb b then heat_rset g s v + heat_parts g b t (react_rset s v) else 0
  end.
Definition heat_obj (g : vec) (o : robj) (v : vec) : Q :=
  match o with Simple _ s => heat_rset g s v | System b ps => heat_parts g b ps v end.

Lemma rset_dot g s v : Forall (wf (length v)) (rset_members s) ->
  vdot g (react_rset s v) == vdot g v + heat_rset g s v.
Proof.
  destruct s as [r|rs|rs]; simpl; intros W.
  - inversion W; subst. rewrite react_dot by auto. ring.
  - unfold react_parallel. apply parallel_dot; auto.
  - apply series_dot; auto.
Qed.

Lemma parts_dot g b ps : forall v, Forall (wf (length v)) (concat (map (fun p => rset_members (snd p)) ps)) ->
  vdot g (fst (react_parts b ps v)) == vdot g v + heat_parts g b ps v.
Proof.
  induction ps as [|[pb s] t IH]; intros v W; simpl; [lra|].
  simpl in W. apply Forall_app in W. destruct W as (Ws & Wt).
  destruct (Bool.eqb pb b); simpl; [|lra].
  destruct (rset_spec s v Ws) as (L & _).
  rewrite IH by (rewrite L; auto). rewrite rset_dot by auto. ring.
Qed.

Lemma obj_dot g o v : Forall (wf (length v)) (obj_members o) ->
  vdot g (fst (react_obj o v)) == vdot g v + heat_obj g o v.
Proof.
  destruct o as [b s|b ps]; simpl; intros W; [apply rset_dot|apply parts_dot]; auto.
Qed.

(* any functional g of the molar flows of a stream, either basis, no clamp *)
Lemma stream_functional_lemma g w o mol mol' :
  length w = length mol -> Forall (fun x => ~ x == 0) w ->
  Forall (wf (length mol)) (obj_members o) ->
  nonneg (fst (react_obj o (buffer o w mol))) ->
  call_stream w o mol = (None, mol') ->
  vdot g mol' - vdot g mol == heat_obj (weights o w g) o (buffer o w mol).
Proof.
  intros L NZ W Nn C. destruct (call_stream_ok _ _ _ _ C) as (_ & E).
  assert (LB : length (buffer o w mol) = length mol).
  { unfold buffer, to_mass. destruct (obasis o); auto. apply vmul_length. auto. }
  assert (W' : Forall (wf (length (buffer o w mol))) (obj_members o)) by (rewrite LB; exact W).
  assert (D := obj_dot (weights o w g) o (buffer o w mol) W').
  assert (Base : vdot (weights o w g) (buffer o w mol) == vdot g mol).
  { unfold weights, buffer, to_mass. destruct (obasis o); [|lra]. apply vdot_div_mass; auto. }
  assert (Res : vdot g mol' == vdot (weights o w g) (fst (react_obj o (buffer o w mol)))).
  { rewrite E. rewrite (clampv_id _ Nn). unfold weights, of_mass. destruct (obasis o); [|lra]. apply vdot_of_mass. }
  rewrite Res, D, Base. ring.
Qed.

Lemma isothermal_object_lemma Hfun hf hs lat w o s s' :
  (forall m T, Hfun m T == vdot (hs T) m) ->
  length w = length (smol s) -> Forall (fun x => ~ x == 0) w ->
  Forall (wf (length (smol s))) (obj_members o) ->
  length hf = length lat -> length (hs (sT s)) = length lat ->
  nonneg (fst (react_obj o (buffer o w (smol s)))) ->
  isothermal w o s = (None, s') ->
  Hnet Hfun hf s' - Hnet Hfun hf s ==
    heat_obj (weights o w (vadd hf lat)) o (buffer o w (smol s))
    + (vdot (vsub (hs (sT s)) lat) (smol s') - vdot (vsub (hs (sT s)) lat) (smol s)).
Proof.
  intros HL L NZ W L1 L2 Nn I.
  destruct (isothermal_any_lemma Hfun hf hs HL w o s s' I) as (_ & E). rewrite E. clear E.
  assert (C : call_stream w o (smol s) = (None, smol s')).
  { unfold isothermal in I. destruct (call_stream w o (smol s)) as [e m']. inversion I; subst. reflexivity. }
  assert (F := stream_functional_lemma (vadd hf lat) w o (smol s) (smol s') L NZ W Nn C).
  rewrite !vdot_vadd_l in F by auto. rewrite !vdot_vsub_l by auto. rewrite <- F. ring.
Qed.

(* the summand of a member is its reported heat of reaction times the reactant it was fed: any two
   heat vectors that agree where the stoichiometry is non-zero give the same dH *)
Lemma vdot_support : forall (u v s : vec), length u = length v ->
  (forall j, ~ nthq s j == 0 -> nthq u j == nthq v j) -> vdot u s == vdot v s.
Proof. exact C05.Proofs.vdot_agree. Qed.

(* ====================================================================================== *)
(* adiabatic reaction of a single-phase Stream with the H setter's phase fallback            *)
Section FlipEnergy.
  Variable HfunP : nat -> vec -> Q -> Q.
  Variable solveP : nat -> vec -> Q -> res Q.
  Variable hf : vec.
  Hypothesis solveP_ok : forall ph m h t, solveP ph m h = Ok t -> HfunP ph m t == h.
  Hypothesis HP_empty : forall ph m t, isempty m = true -> HfunP ph m t == 0.

  Lemma retryH_ok s h ph' s' : retryH solveP s h ph' = (None, s') ->
    pmol s' = pmol s /\ pph s' = ph' /\ HfunP (pph s') (pmol s') (pT s') == h.
  Proof.
    unfold retryH. destruct (solveP ph' (pmol s) h) as [t|e] eqn:S; [|discriminate].
    intros H; inversion H; subst. simpl. split; [reflexivity|]. split; [reflexivity|]. apply (solveP_ok _ _ _ _ S).
  Qed.

  Lemma setH_flip_ok s h s' : setH_flip solveP s h = (None, s') ->
    pmol s' = pmol s /\ HfunP (pph s') (pmol s') (pT s') == h.
  Proof.
    unfold setH_flip. destruct (qzerob h && isempty (pmol s)) eqn:E.
    - intros H; inversion H; subst. apply Bool.andb_true_iff in E. destruct E as (Z & Em).
      apply qzerob_true in Z. split; auto. rewrite (HP_empty _ _ _ Em). lra.
    - destruct (solveP (pph s) (pmol s) h) as [t|e] eqn:S.
      + intros H; inversion H; subst. simpl. split; [reflexivity|]. apply (solveP_ok _ _ _ _ S).
      + destruct (lower_phase (pph s)) as [|[|[|n]]]; try discriminate;
          intros H; destruct (retryH_ok _ _ _ _ H) as (A & _ & B); auto.
  Qed.

  Lemma adiabatic_flip_lemma is_stream w o s Qin s' :
    adiabatic_flip HfunP solveP hf is_stream w o s Qin = (None, s') ->
    HnetP HfunP hf s' == HnetP HfunP hf s + Qin /\ call_stream w o (pmol s) = (None, pmol s').
  Proof.
    unfold adiabatic_flip. destruct is_stream; simpl; [|discriminate].
    destruct (call_stream w o (pmol s)) as [[e|] mol'] eqn:C; [discriminate|].
    intros H. destruct (setH_flip_ok _ _ _ H) as (M & V). simpl in M.
    split; [|rewrite M; reflexivity].
    unfold HnetP at 1. rewrite V, M. simpl. unfold HnetP. lra.
  Qed.

  (* what the stream holds when adiabatic_reaction raises: T is the one before; the flows are
     whatever the reaction step left; the phase is the original one unless the first solve failed
     in a fluid phase, in which case it is the OTHER fluid phase *)
  Lemma adiabatic_flip_error_lemma w o s Qin e s' :
    adiabatic_flip HfunP solveP hf true w o s Qin = (Some e, s') ->
    pT s' = pT s /\ pmol s' = snd (call_stream w o (pmol s)) /\
    (fst (call_stream w o (pmol s)) = Some e /\ pph s' = pph s \/
     fst (call_stream w o (pmol s)) = None /\
       exists h e1, solveP (pph s) (pmol s') h = Err e1 /\
         (lower_phase (pph s) = 1%nat /\ pph s' = 2%nat /\ solveP 2 (pmol s') h = Err e \/
          lower_phase (pph s) = 2%nat /\ pph s' = 1%nat /\ solveP 1 (pmol s') h = Err e \/
          lower_phase (pph s) <> 1%nat /\ lower_phase (pph s) <> 2%nat /\ pph s' = pph s /\ e = e1)).
  Proof.
    unfold adiabatic_flip. simpl.
    destruct (call_stream w o (pmol s)) as [[e0|] mol'] eqn:C; simpl.
    - intros H; inversion H; subst. simpl. repeat split; auto.
    - unfold setH_flip. simpl.
      destruct (qzerob _ && isempty mol'); [discriminate|].
      set (h := HnetP HfunP hf s + Qin - Hf_of hf mol').
      destruct (solveP (pph s) mol' h) as [t|e1] eqn:S1; [discriminate|].
      destruct (lower_phase (pph s)) as [|[|[|n]]] eqn:LP; unfold retryH; simpl.
      + intros H; inversion H; subst. simpl. repeat split; auto. right. split; auto.
        exists h, e. split; auto. right. right. repeat split; auto; lia.
      + destruct (solveP 2 mol' h) as [t|e2] eqn:S2; [discriminate|].
        intros H; inversion H; subst. simpl. repeat split; auto. right. split; auto.
        exists h, e1. split; auto.
      + destruct (solveP 1 mol' h) as [t|e2] eqn:S2; [discriminate|].
        intros H; inversion H; subst. simpl. repeat split; auto. right. split; auto.
        exists h, e1. split; auto.
      + intros H; inversion H; subst. simpl. repeat split; auto. right. split; auto.
        exists h, e. split; auto. right. right. repeat split; auto; lia.
  Qed.
End FlipEnergy.

(* ====================================================================================== *)
(* The H memo shared by a stream and its proxies is transparent                              *)
Section CacheProofs.
  Variable hspec : nat -> vec -> Q -> Q.
  (* the mixture model is a function of the VALUES of composition and temperature *)
  Hypothesis hspec_ext : forall ph z z' T T', T == T' -> veqb z z' = true -> hspec ph z T == hspec ph z' T'.

  Definition hkey (k : nat * Q * vec) : Q := let '(ph, T, z) := k in hspec ph z T.

  (* a stored value belongs to the stored key *)
  Definition cinv (c : hcache) : Prop :=
    match cH c with
    | Some v => exists k, ckey c = Some k /\ v == hkey k
    | None => True
    end.

  Lemma key_eqb_hkey k k' : key_eqb k k' = true -> hkey k == hkey k'.
  Proof.
    destruct k as [[p t] z], k' as [[p' t'] z']. unfold key_eqb, hkey.
    intros H. apply Bool.andb_true_iff in H. destruct H as (H & Hz).
    apply Bool.andb_true_iff in H. destruct H as (Hp & Ht).
    apply Nat.eqb_eq in Hp. subst. apply Qeq_bool_iff in Ht. apply hspec_ext; auto.
  Qed.

  Lemma get_H_spec c s : cinv c ->
    fst (get_H hspec c s) == HfunC hspec (pph s) (pmol s) (pT s) /\ cinv (snd (get_H hspec c s)).
  Proof.
    intros I. unfold get_H, HfunC.
    destruct (qzerob (qsum (pmol s))) eqn:Z.
    - apply qzerob_true in Z. cbn [fst snd]. split; [|exact I].
      assert (E : forall x, qsum (pmol s) * x == 0) by (intros x; rewrite Z; ring). rewrite E. reflexivity.
    - unfold cur_key. simpl.
      destruct (key_hit c s) eqn:K.
      + destruct (cH c) as [v|] eqn:E.
        * simpl. split; auto. unfold cinv in I. rewrite E in I. destruct I as (k & Ek & Ev).
          unfold key_hit in K. rewrite Ek in K. apply key_eqb_hkey in K.
          assert (K' : hkey (cur_key s) = hspec (pph s) (vdivs (pmol s) (qsum (pmol s))) (pT s)) by reflexivity.
          rewrite K' in K. rewrite Ev, K. ring.
        * simpl. split; [ring|]. unfold cinv. simpl. eexists. split; [reflexivity|]. unfold hkey. reflexivity.
      + simpl. split; [ring|]. unfold cinv. simpl. eexists. split; [reflexivity|]. unfold hkey. reflexivity.
  Qed.

  Lemma read_other_inv c s : cinv c -> cinv (read_other c s).
  Proof.
    intros I. unfold read_other. destruct (qzerob _); auto. destruct (key_hit c s); auto.
    unfold cinv. simpl. exact Logic.I.
  Qed.

  (* the same history without any memo *)
  Definition sstep_ref (s : pstream) (o : sop) : pstream * list Q :=
    match o with
    | SReadH => (s, [HfunC hspec (pph s) (pmol s) (pT s)])
    | SReadOther => (s, [])
    | SSetT t => (mkP (pmol s) t (pph s), [])
    | SSetFlows m => (mkP m (pT s) (pph s), [])
    | SSetPhase ph => (mkP (pmol s) (pT s) ph, [])
    end.
  Fixpoint srun_ref (s : pstream) (ops : list sop) : pstream * list Q :=
    match ops with
    | [] => (s, [])
    | o :: t => let (s1, r1) := sstep_ref s o in let (s2, r2) := srun_ref s1 t in (s2, r1 ++ r2)
    end.

  Lemma srun_transparent ops : forall s c, cinv c ->
    fst (fst (srun hspec (s, c) ops)) = fst (srun_ref s ops) /\
    Forall2 Qeq (snd (srun hspec (s, c) ops)) (snd (srun_ref s ops)) /\
    cinv (snd (fst (srun hspec (s, c) ops))).
  Proof.
    induction ops as [|o t IH]; intros s c I; simpl.
    - repeat split; auto.
    - destruct o as [| |x|m|ph]; simpl.
      + destruct (get_H_spec c s I) as (V & I').
        destruct (get_H hspec c s) as [v c'] eqn:G. simpl in V, I'.
        destruct (IH s c' I') as (A & B & C).
        destruct (srun hspec (s, c') t) as [[s2 c2] r2]. destruct (srun_ref s t) as [s3 r3]. simpl in *.
        repeat split; auto.
      + destruct (IH s (read_other c s) (read_other_inv c s I)) as (A & B & C).
        destruct (srun hspec (s, read_other c s) t) as [[s2 c2] r2]. destruct (srun_ref s t) as [s3 r3]. simpl in *. auto.
      + destruct (IH (mkP (pmol s) x (pph s)) c I) as (A & B & C).
        destruct (srun hspec (mkP (pmol s) x (pph s), c) t) as [[s2 c2] r2]. destruct (srun_ref _ t) as [s3 r3]. simpl in *. auto.
      + destruct (IH (mkP m (pT s) (pph s)) c I) as (A & B & C).
        destruct (srun hspec (mkP m (pT s) (pph s), c) t) as [[s2 c2] r2]. destruct (srun_ref _ t) as [s3 r3]. simpl in *. auto.
      + destruct (IH (mkP (pmol s) (pT s) ph) c I) as (A & B & C).
        destruct (srun hspec (mkP (pmol s) (pT s) ph, c) t) as [[s2 c2] r2]. destruct (srun_ref _ t) as [s3 r3]. simpl in *. auto.
  Qed.

  Lemma cinv_cache0 : cinv cache0.
  Proof. exact Logic.I. Qed.

  Variable solveP : nat -> vec -> Q -> res Q.
  Variable hf : vec.
  Hypothesis solveC_ok : forall ph m h t, solveP ph m h = Ok t -> HfunC hspec ph m t == h.

  Lemma isempty_qsum m : isempty m = true -> qsum m == 0.
  Proof.
    induction m as [|x m IH]; simpl; intros H; [reflexivity|].
    apply Bool.andb_true_iff in H. destruct H as (Zx & Hm). apply qzerob_true in Zx. rewrite Zx, IH; auto. ring.
  Qed.

  Lemma HfunC_empty ph m t : isempty m = true -> HfunC hspec ph m t == 0.
  Proof.
    intros E. unfold HfunC. assert (Z := isempty_qsum m E).
    assert (F : forall x, qsum m * x == 0) by (intros x; rewrite Z; ring). apply F.
  Qed.

  (* after ANY history on the stream and its proxies, for ANY reaction step [callf] (same package,
     other package, any object): a normal return closes the balance *)
  Lemma adiabatic_cached_lemma is_stream callf s c Qin s' c' :
    cinv c ->
    adiabatic_cached hspec solveP hf is_stream callf (s, c) Qin = (None, (s', c')) ->
    HfunC hspec (pph s') (pmol s') (pT s') + Hf_of hf (pmol s') ==
      HfunC hspec (pph s) (pmol s) (pT s) + Hf_of hf (pmol s) + Qin
    /\ callf (pmol s) = (None, pmol s') /\ cinv c'.
  Proof.
    intros I. unfold adiabatic_cached. destruct is_stream; simpl; [|discriminate].
    destruct (get_H_spec c s I) as (V & I1). destruct (get_H hspec c s) as [h0 c1]. simpl in V, I1.
    destruct (callf (pmol s)) as [[e|] mol'] eqn:C; [discriminate|].
    destruct (setH_flip solveP _ _) as [e2 s2] eqn:S. intros H; inversion H; subst; clear H.
    destruct (setH_flip_ok (HfunC hspec) solveP solveC_ok HfunC_empty _ _ _ S) as (M & W). simpl in M.
    split; [|split; auto; rewrite M; reflexivity].
    rewrite W, M. simpl. rewrite V. ring.
  Qed.
End CacheProofs.

(* ====================================================================================== *)
(* package arrays follow the chemicals through refresh_constants                              *)
Definition is_edit (o : pop) : bool := match o with PSetHf _ _ => true | _ => false end.
Definition syncedA (s : pkgstate) : Prop := arrA s = chemHf s.
Definition syncedB (ob : list nat) (s : pkgstate) : Prop := arrB s = map (nthq (chemHf s)) ob.

Lemma pstep_edit_keeps_arrays ob s i v :
  arrA (pstep ob s (PSetHf i v)) = arrA s /\ arrB (pstep ob s (PSetHf i v)) = arrB s.
Proof. split; reflexivity. Qed.

Lemma prun_noedit_syncedA ob post : forall s, forallb (fun o => negb (is_edit o)) post = true ->
  syncedA s -> syncedA (prun ob s post).
Proof.
  unfold prun. induction post as [|o t IH]; intros s N S; simpl; auto.
  simpl in N. apply Bool.andb_true_iff in N. destruct N as (No & Nt). apply IH; auto.
  destruct o; simpl in *; try discriminate; unfold syncedA in *; simpl; auto.
Qed.

Lemma prun_noedit_syncedB ob post : forall s, forallb (fun o => negb (is_edit o)) post = true ->
  syncedB ob s -> syncedB ob (prun ob s post).
Proof.
  unfold prun. induction post as [|o t IH]; intros s N S; simpl; auto.
  simpl in N. apply Bool.andb_true_iff in N. destruct N as (No & Nt). apply IH; auto.
  destruct o; simpl in *; try discriminate; unfold syncedB in *; simpl; auto.
Qed.

Lemma prun_app ob s a b : prun ob s (a ++ b) = prun ob (prun ob s a) b.
Proof. unfold prun. apply fold_left_app. Qed.

(* whatever was edited before, once refresh_constants has been called on a package and no chemical is
   edited afterwards, the package's array holds the chemicals' heats of formation *)
Lemma refresh_propagates_A ob s pre post : forallb (fun o => negb (is_edit o)) post = true ->
  syncedA (prun ob s (pre ++ PRefreshA :: post)).
Proof.
  intros N. rewrite prun_app. change (PRefreshA :: post) with ([PRefreshA] ++ post). rewrite prun_app.
  apply prun_noedit_syncedA; auto. unfold prun, syncedA. simpl. reflexivity.
Qed.

Lemma refresh_propagates_B ob s pre post : forallb (fun o => negb (is_edit o)) post = true ->
  syncedB ob (prun ob s (pre ++ PRefreshB :: post)).
Proof.
  intros N. rewrite prun_app. change (PRefreshB :: post) with ([PRefreshB] ++ post). rewrite prun_app.
  apply prun_noedit_syncedB; auto. unfold prun, syncedB. simpl. reflexivity.
Qed.

Lemma compiled_synced ob hf : syncedA (compiled ob hf) /\ syncedB ob (compiled ob hf).
Proof. split; reflexivity. Qed.

(* ====================================================================================== *)
(* the equation-of-state arguments never outlive the solve that loaded them                  *)
Fixpoint reads_ref (fresh : nat -> Q) (ops : list mop) : list Q :=
  match ops with
  | [] => []
  | MRead k :: t => fresh k :: reads_ref fresh t
  | MSolve _ _ :: t => reads_ref fresh t
  end.

Lemma mix_args_cleared fresh stale ops : forall m, margs m = None ->
  margs (fst (fst (mrun fresh stale m ops))) = None /\
  snd (fst (mrun fresh stale m ops)) = reads_ref fresh ops /\
  Forall (fun b => b = true) (snd (mrun fresh stale m ops)).
Proof.
  induction ops as [|o t IH]; intros m E; simpl; [repeat split; auto|].
  destruct o as [k|k ok]; simpl.
  - destruct (IH m E) as (A & B & C). destruct (mrun fresh stale m t) as [[m2 r2] f2]. simpl in *.
    rewrite E. repeat split; auto.
    + unfold H_eval. rewrite E. rewrite B. reflexivity.
  - destruct (IH (mkM None) eq_refl) as (A & B & C). destruct (mrun fresh stale (mkM None) t) as [[m2 r2] f2]. simpl in *.
    repeat split; auto.
Qed.

(* ====================================================================================== *)
(* Stream.copy: every copy is a separate (state, memo) pair                                   *)
Lemma hset_length {A} (h : list A) : forall i x, length (hset h i x) = length h.
Proof. induction h as [|y t IH]; intros [|i] x; simpl; auto. Qed.

Lemma nth_error_hset_same {A} (h : list A) : forall i x y, nth_error h i = Some y -> nth_error (hset h i x) i = Some x.
Proof. induction h as [|z t IH]; intros [|i] x y E; simpl in *; try discriminate; eauto. Qed.

Lemma nth_error_hset_other {A} (h : list A) : forall i j x, j <> i -> nth_error (hset h i x) j = nth_error h j.
Proof.
  induction h as [|z t IH]; intros [|i] [|j] x N; simpl; auto; try congruence.
Qed.

Lemma map_hset {A B} (f : A -> B) (h : list A) : forall i x, map f (hset h i x) = hset (map f h) i (f x).
Proof. induction h as [|z t IH]; intros [|i] x; simpl; auto. rewrite IH. reflexivity. Qed.

Lemma nth_error_map_fst {A B} (h : list (A * B)) : forall i,
  nth_error (map fst h) i = match nth_error h i with Some st => Some (fst st) | None => None end.
Proof. induction h as [|z t IH]; intros [|i]; simpl; auto. Qed.

Lemma Forall_hset {A} (P : A -> Prop) (h : list A) : forall i x, Forall P h -> P x -> Forall P (hset h i x).
Proof.
  induction h as [|z t IH]; intros [|i] x F Px; simpl; auto.
  - inversion F; subst. constructor; auto.
  - inversion F; subst. constructor; auto.
Qed.

Lemma Forall_nth_error {A} (P : A -> Prop) (h : list A) i x : Forall P h -> nth_error h i = Some x -> P x.
Proof. intros F E. rewrite Forall_forall in F. apply F. eapply nth_error_In; eauto. Qed.

Section HeapProofs.
  Variable hspec : nat -> vec -> Q -> Q.
  Hypothesis hspec_ext : forall ph z z' T T', T == T' -> veqb z z' = true -> hspec ph z T == hspec ph z' T'.

  (* the heap without any memo: one state per stream; a copy appends the state of its source *)
  Definition shstep_ref (h : list pstream) (o : hsop) : list pstream * list Q :=
    match o with
    | HOn i o => match nth_error h i with
                 | Some s => let (s', r) := sstep_ref hspec s o in (hset h i s', r)
                 | None => (h, [])
                 end
    | HCopyS i => match nth_error h i with
                  | Some s => (h ++ [s], [])
                  | None => (h, [])
                  end
    end.
  Fixpoint shrun_ref (h : list pstream) (ops : list hsop) : list pstream * list Q :=
    match ops with
    | [] => (h, [])
    | o :: t => let (h1, r1) := shstep_ref h o in let (h2, r2) := shrun_ref h1 t in (h2, r1 ++ r2)
    end.

  Definition hinv (h : sheap) : Prop := Forall (fun st => cinv hspec (snd st)) h.

  Lemma sstep_transparent s c o : cinv hspec c ->
    fst (fst (sstep hspec (s, c) o)) = fst (sstep_ref hspec s o) /\
    Forall2 Qeq (snd (sstep hspec (s, c) o)) (snd (sstep_ref hspec s o)) /\
    cinv hspec (snd (fst (sstep hspec (s, c) o))).
  Proof.
    intros I. destruct o as [| |x|m|ph]; simpl; auto.
    - destruct (get_H_spec hspec hspec_ext c s I) as (V & I').
      destruct (get_H hspec c s) as [v c'] eqn:G. simpl in *. repeat split; auto.
    - repeat split; auto. apply read_other_inv; auto.
  Qed.

  Lemma shstep_transparent h o : hinv h ->
    map fst (fst (shstep hspec h o)) = fst (shstep_ref (map fst h) o) /\
    Forall2 Qeq (snd (shstep hspec h o)) (snd (shstep_ref (map fst h) o)) /\
    hinv (fst (shstep hspec h o)).
  Proof.
    intros I. destruct o as [i o|i]; unfold shstep, shstep_ref; rewrite nth_error_map_fst.
    - destruct (nth_error h i) as [[s c]|] eqn:E; cbn [fst snd]; [|repeat split; auto].
      assert (Ic : cinv hspec c) by (apply (Forall_nth_error _ h i (s, c) I E)).
      destruct (sstep_transparent s c o Ic) as (A & B & C).
      destruct (sstep hspec (s, c) o) as [[s' c'] r] eqn:S. destruct (sstep_ref hspec s o) as [s2 r2] eqn:R.
      cbn [fst snd] in *. subst s2. split; [|split]; auto.
      + rewrite map_hset. reflexivity.
      + apply Forall_hset; auto.
    - destruct (nth_error h i) as [[s c]|] eqn:E; cbn [fst snd]; [|repeat split; auto].
      split; [|split]; auto.
      + rewrite map_app. unfold copy_entry. simpl. destruct s; reflexivity.
      + apply Forall_app. split; auto. constructor; [exact Logic.I|constructor].
  Qed.

  (* ANY history over the heap -- reads, changes, copies of anything, in any order: every stream ends in
     the state of the memo-free run (so no stream is changed through another one, and a copy starts in the
     state of its source), every H read is the enthalpy of the state of the stream it was read from,
     all memos stay consistent *)
  Lemma shrun_transparent ops : forall h, hinv h ->
    map fst (fst (shrun hspec h ops)) = fst (shrun_ref (map fst h) ops) /\
    Forall2 Qeq (snd (shrun hspec h ops)) (snd (shrun_ref (map fst h) ops)) /\
    hinv (fst (shrun hspec h ops)).
  Proof.
    induction ops as [|o t IH]; intros h I; simpl; [repeat split; auto|].
    destruct (shstep_transparent h o I) as (A & B & C).
    destruct (shstep hspec h o) as [h1 r1]. destruct (shstep_ref (map fst h) o) as [g1 q1]. simpl in *. subst g1.
    destruct (IH h1 C) as (A2 & B2 & C2).
    destruct (shrun hspec h1 t) as [h2 r2]. destruct (shrun_ref (map fst h1) t) as [g2 q2]. simpl in *.
    repeat split; auto. apply Forall2_app; auto.
  Qed.

  (* frame: an operation through stream i leaves every other stream AND its memo as they were *)
  Lemma shstep_frame h i o j : j <> i -> nth_error (fst (shstep hspec h (HOn i o))) j = nth_error h j.
  Proof.
    intros N. simpl. destruct (nth_error h i) as [st|]; auto.
    destruct (sstep hspec st o) as [st' r]. simpl. apply nth_error_hset_other; auto.
  Qed.

  (* copy: every existing stream and memo as they were; the new one has the state of the source and an EMPTY memo *)
  Lemma shstep_copy h i s c : nth_error h i = Some (s, c) ->
    (forall j, (j < length h)%nat -> nth_error (fst (shstep hspec h (HCopyS i))) j = nth_error h j) /\
    nth_error (fst (shstep hspec h (HCopyS i))) (length h) = Some (s, cache0) /\
    snd (shstep hspec h (HCopyS i)) = [].
  Proof.
    intros E. simpl. rewrite E. simpl. repeat split; auto.
    - intros j L. apply nth_error_app1; auto.
    - rewrite nth_error_app2; auto. rewrite Nat.sub_diag. simpl. destruct s; reflexivity.
  Qed.

  Variable solveP : nat -> vec -> Q -> res Q.
  Variable hf : vec.
  Hypothesis solveC_ok : forall ph m h t, solveP ph m h = Ok t -> HfunC hspec ph m t == h.

  Definition HN (p : pstream) : Q := HfunC hspec (pph p) (pmol p) (pT p) + Hf_of hf (pmol p).

  (* adiabatic_reaction through stream i of a heap with consistent memos *)
  Lemma hadiabatic_lemma is_stream callf h i Qin h' : hinv h ->
    hadiabatic hspec solveP hf is_stream callf h i Qin = (None, h') ->
    exists s c s' c', nth_error h i = Some (s, c) /\ nth_error h' i = Some (s', c') /\
      HN s' == HN s + Qin /\ callf (pmol s) = (None, pmol s') /\
      (forall j, j <> i -> nth_error h' j = nth_error h j) /\ hinv h'.
  Proof.
    intros I. unfold hadiabatic. destruct (nth_error h i) as [[s c]|] eqn:E; [|discriminate].
    assert (Ic : cinv hspec c) by (apply (Forall_nth_error _ h i (s, c) I E)).
    destruct (adiabatic_cached hspec solveP hf is_stream callf (s, c) Qin) as [e [s' c']] eqn:A.
    intros H; inversion H; subst; clear H.
    destruct (adiabatic_cached_lemma hspec hspec_ext solveP hf solveC_ok is_stream callf s c Qin s' c' Ic A) as (B & C & D).
    exists s, c, s', c'. repeat split; auto.
    - eapply nth_error_hset_same; eauto.
    - intros j N. apply nth_error_hset_other; auto.
    - apply Forall_hset; auto.
  Qed.

  (* the isothermal call through stream i: flows of stream i change by the reaction, T and phase stay,
     nothing else in the heap changes *)
  Lemma hisothermal_lemma callf h i e h' :
    hisothermal callf h i = (e, h') -> (i < length h)%nat ->
    exists s c, nth_error h i = Some (s, c) /\
      nth_error h' i = Some (mkP (snd (callf (pmol s))) (pT s) (pph s), c) /\ e = fst (callf (pmol s)) /\
      (forall j, j <> i -> nth_error h' j = nth_error h j).
  Proof.
    unfold hisothermal. intros H L. destruct (nth_error h i) as [[s c]|] eqn:E.
    - unfold isothermal_cached in H. destruct (callf (pmol s)) as [e1 mol'] eqn:C.
      inversion H; subst; clear H. exists s, c. rewrite C. cbn [fst snd]. split; [|split; [|split]]; auto.
      + eapply nth_error_hset_same; eauto.
      + intros j N. apply nth_error_hset_other; auto.
    - apply nth_error_None in E. lia.
  Qed.

  (* end to end: a program that makes streams by copying, reads and changes them in any order, then reacts
     one of them adiabatically *)
  Lemma adiabatic_after_copies ops s0 is_stream callf i Qin h' :
    hadiabatic hspec solveP hf is_stream callf (fst (shrun hspec [(s0, cache0)] ops)) i Qin = (None, h') ->
    exists s s', nth_error (fst (shrun_ref [s0] ops)) i = Some s /\ nth_error (map fst h') i = Some s' /\
      HN s' == HN s + Qin /\ callf (pmol s) = (None, pmol s') /\
      (forall j, j <> i -> nth_error (map fst h') j = nth_error (fst (shrun_ref [s0] ops)) j).
  Proof.
    intros A.
    assert (I0 : hinv [(s0, cache0)]) by (constructor; [exact Logic.I|constructor]).
    destruct (shrun_transparent ops _ I0) as (T1 & _ & T3). simpl in T1.
    destruct (hadiabatic_lemma _ _ _ _ _ _ T3 A) as (s & c & s' & c' & E & E' & B & C & F & _).
    exists s, s'. rewrite <- T1. rewrite !nth_error_map_fst. rewrite E, E'. simpl. repeat split; auto.
    intros j N. rewrite !nth_error_map_fst. rewrite F; auto.
  Qed.
End HeapProofs.
