(* C06 — executable model of the heat of reaction and of adiabatic / isothermal reaction.
   Source modelled:
     thermosteam/reaction/_reaction.py  Reaction.dH (also what a ReactionItem of a set reports),
       Reaction.adiabatic_reaction (shared by ReactionSet and ReactionSystem), Reaction.__call__
       (through V.C05.Model.call_stream);
     thermosteam/_stream.py  Stream.Hf, Stream.Hnet, the H setter's early return for an empty
       stream (same in _multi_stream.py);
     thermosteam/_chemicals.py  the Hf / MW arrays (inputs here).
   The enthalpy of the mixture and its inversion in T (mixture.solve_T_at_HP / xsolve_T_at_HP,
   third-party solvers inside) are parameters [Hfun], [solveT]; the theorems are stated for every
   such pair that satisfies H (solveT m h) = h.  For the correspondence run they are instantiated
   with the closed forms of the stub package (constant heat capacities).
   Phase codes: g = 1, l = 2, s = 3, L = 4, S = 5.  Phase-tagged data flattened row-major.
   No proofs in this file. *)
From V Require Export Common.Num C17.Model C05.Model.

(* ---------- Reaction.dH ---------- *)
(* the latent-heat table of Reaction.dH: chemical with reference phase [pref], appearing in
   phase [ph] of the reaction *)
Definition latent (pref ph : nat) (hvap hfus : Q) : res Q :=
  if Nat.eqb pref ph then Ok 0
  else match pref with
       | 2%nat => match ph with 1%nat => Ok hvap | 3%nat => Ok (- hfus) | _ => Err ERuntime end
       | 1%nat => match ph with 2%nat => Ok (- hvap) | 3%nat => Ok (- (hvap + hfus)) | _ => Err ERuntime end
       | 3%nat => match ph with 2%nat => Ok hfus | 1%nat => Ok (hfus + hvap) | _ => Err ERuntime end
       | _ => Err ERuntime
       end.

(* one phase row: entries are looked at only where the stoichiometry is non-zero *)
Fixpoint latent_row (ph : nat) (prefs : list nat) (hvaps hfuss srow : vec) : res vec :=
  match prefs, hvaps, hfuss, srow with
  | p :: prefs', hv :: hvaps', hf :: hfuss', s :: srow' =>
      do x <- (if qzerob s then Ok 0 else latent p ph hv hf);
      do t <- latent_row ph prefs' hvaps' hfuss' srow';
      Ok (x :: t)
  | _, _, _, _ => Ok []
  end.

Fixpoint latent_rows (n : nat) (phs : list nat) (prefs : list nat) (hvaps hfuss s : vec) : res vec :=
  match phs with
  | [] => Ok []
  | ph :: phs' =>
      do r <- latent_row ph prefs hvaps hfuss (firstn n s);
      do t <- latent_rows n phs' prefs hvaps hfuss (skipn n s);
      Ok (r ++ t)
  end.

Fixpoint tile {A} (k : nat) (l : list A) : list A :=
  match k with O => [] | S k' => l ++ tile k' l end.

Record chemdata := mkchem {
  c_hf : vec; c_mw : vec; c_hvap : vec; c_hfus : vec; c_pref : list nat }.

(* the per-entry heats that multiply the stoichiometry *)
Definition heats (c : chemdata) (r : rxn) : res vec :=
  let n := length (c_hf c) in
  let P := Nat.max 1 (length (phases r)) in
  do hfs <- (match phases r with
             | [] => Ok (c_hf c)
             | phs => do lat <- latent_rows n phs (c_pref c) (c_hvap c) (c_hfus c) (st r);
                      Ok (vadd (tile P (c_hf c)) lat)
             end);
  Ok (if wt r then map2 Qdiv hfs (tile P (c_mw c)) else hfs).

Definition dH (c : chemdata) (r : rxn) : res Q :=
  do h <- heats c r; Ok (X r * vdot h (st r)).

(* ---------- streams ---------- *)
Record stream := mkS { smol : vec; sT : Q }.

(* Stream.Hf = sum(chemicals.Hf * mol); [hf] is tiled over the phases of a MultiStream *)
Definition Hf_of (hf mol : vec) : Q := vdot hf mol.

Section Thermal.
  Variable Hfun : vec -> Q -> Q.            (* Stream.H as a function of flows and T *)
  Variable solveT : vec -> Q -> res Q.      (* mixture.(x)solve_T_at_HP *)
  Variable hf : vec.

  Definition Hnet (s : stream) : Q := Hfun (smol s) (sT s) + Hf_of hf (smol s).

  Definition isempty (mol : vec) : bool := forallb qzerob mol.

  (* H setter: `if not H and self.isempty(): return` *)
  Definition setH (s : stream) (h : Q) : res stream :=
    if qzerob h && isempty (smol s) then Ok s
    else do t <- solveT (smol s) h; Ok (mkS (smol s) t).

  (* reaction(stream): flows change, T stays *)
  Definition isothermal (w : vec) (o : robj) (s : stream) : option err * stream :=
    let (e, mol') := call_stream w o (smol s) in (e, mkS mol' (sT s)).

  (* adiabatic_reaction(stream, Q); is_stream = isinstance(stream, tmo.Stream) *)
  Definition adiabatic (is_stream : bool) (w : vec) (o : robj) (s : stream) (Qin : Q) : option err * stream :=
    if negb is_stream then (Some EValue, s)
    else
      let hnet := Hnet s + Qin in
      let (e, s1) := isothermal w o s in
      match e with
      | Some e => (Some e, s1)
      | None => match setH s1 (hnet - Hf_of hf (smol s1)) with
                | Ok s2 => (None, s2)
                | Err e => (Some e, s1)
                end
      end.
End Thermal.

(* ---------- the stub package: constant heat capacities, reference 298.15 K ---------- *)
(* 298.15 as the double the implementation uses *)
Definition Tref : Q := 2622555134571315 # 8796093022208.
Definition stubH (cn : vec) (mol : vec) (T : Q) : Q := vdot cn mol * (T - Tref).
Definition stubSolve (cn : vec) (mol : vec) (h : Q) : res Q :=
  let c := vdot cn mol in
  if qzerob c then Err EZeroDiv else Ok (Tref + h / c).

(* ---------- comparison helpers for the correspondence files ---------- *)
Definition resq_eqb (a : res Q) (e : option err) (x : Q) : bool :=
  match a, e with
  | Ok v, None => qapproxb v x
  | Err e1, Some e2 => err_eqb e1 e2
  | _, _ => false
  end.

Definition dHs_eqb (c : chemdata) (o : res robj) (members : robj -> list rxn)
           (expect : list (option err * Q)) : bool :=
  match o with
  | Err _ => false
  | Ok ob => Nat.eqb (length (members ob)) (length expect) &&
             forallb (fun b : bool => b)
               (map2 (fun (r : rxn) (x : option err * Q) => resq_eqb (dH c r) (fst x) (snd x))
                     (members ob) expect)
  end.

Definition members_of (o : robj) : list rxn :=
  let of_set s := match s with Single r => [r] | Parallel rs => rs | Series rs => rs end in
  match o with
  | Simple _ s => of_set s
  | System _ ps => concat (map (fun p => of_set (snd p)) ps)
  end.

(* scale used for comparing enthalpy flows (differences of large numbers) *)
Definition qapprox_scaled (scale a b : Q) : bool :=
  Qle_bool (Qabs (a - b)) (qtol * Qmax 1 (Qmax scale (Qmax (Qabs a) (Qabs b)))).

Definition thermal_eqb (cn hf w : vec) (o : res robj) (adiab is_stream : bool) (s : stream) (Qin : Q)
           (hnet0 : Q) (e : option err) (mol' : vec) (T' hnet' : Q) : bool :=
  match o with
  | Err _ => false
  | Ok ob =>
      let H := stubH cn in
      let r := if adiab then adiabatic H (stubSolve cn) hf is_stream w ob s Qin
               else isothermal w ob s in
      let scale := Qabs hnet0 + Qabs Qin in
      qapprox_scaled scale (Hnet H hf s) hnet0 &&
      oerr_eqb (fst r) e &&
      match e with
      | Some _ => true
      | None => vapproxb (smol (snd r)) mol' && qapproxb (sT (snd r)) T' &&
                qapprox_scaled scale (Hnet H hf (snd r)) hnet'
      end
  end.

(* ====================================================================================== *)
(* Conversions of a set live in ONE array (ReactionSet._X): ReactionItem._X is that array,
   a slice sub-set holds a numpy view of it, `set.X = v` writes into it (`self._X[:] = v`),
   `item.X = x` writes entry index, `set.X[i] = x` likewise; ReactionSystem.X = [...] forwards
   to each part.  All handles, old or new, therefore read the entries the set itself uses.
   Flattened over the members of the object, every such assignment is a write of one entry or
   of a contiguous range. *)
Inductive xop := XWrite (k : nat) (x : Q) | XRange (off : nat) (xs : vec).

Fixpoint write_range (off : nat) (xs : vec) (v : vec) : vec :=
  match xs with [] => v | x :: t => write_range (S off) t (upd v off x) end.
Definition xstep (v : vec) (o : xop) : vec :=
  match o with XWrite k x => upd v k x | XRange off xs => write_range off xs v end.
Definition xrun (v : vec) (ops : list xop) : vec := fold_left xstep ops v.

(* the object with the conversions of its members replaced, in member order *)
Definition set_Xs (o : robj) (xs : vec) : robj := rebuild o (map2 set_X (flat_members o) xs).
Definition apply_xhist (o : robj) (ops : list xop) : robj :=
  set_Xs o (xrun (map X (flat_members o)) ops).
Definition xhist_res (o : res robj) (ops : list xop) : res robj := do x <- o; Ok (apply_xhist x ops).

(* what every handle reads after the history *)
Definition xs_eqb (o : res robj) (ops : list xop) (seen : list vec) : bool :=
  match o with
  | Err _ => false
  | Ok ob => forallb (fun s => vapproxb (xrun (map X (flat_members ob)) ops) s) seen
  end.

(* a + b of two reactions (V.C17.Model.radd), used to obtain a chemical in two phases *)
Definition rsum (mws : vec) (a b : res rxn) : res rxn := do x <- a; do y <- b; radd mws x y.

(* ====================================================================================== *)
(* Single-phase Stream: the H setter (thermosteam/_stream.py) catches ANY exception of the solver
   and retries once in the other fluid phase ('g' <-> 'l', decided on phase.lower()); the phase
   attribute is changed before the retry and stays changed whatever the retry does.  A MultiStream
   has no such fallback (the model above). *)
Record pstream := mkP { pmol : vec; pT : Q; pph : nat }.
Definition lower_phase (ph : nat) : nat := match ph with 4%nat => 2%nat | 5%nat => 3%nat | x => x end.

Section Flip.
  Variable HfunP : nat -> vec -> Q -> Q.
  Variable solveP : nat -> vec -> Q -> res Q.
  Variable hf : vec.

  Definition HnetP (s : pstream) : Q := HfunP (pph s) (pmol s) (pT s) + Hf_of hf (pmol s).

  Definition retryH (s : pstream) (h : Q) (ph' : nat) : option err * pstream :=
    match solveP ph' (pmol s) h with
    | Ok t => (None, mkP (pmol s) t ph')
    | Err e => (Some e, mkP (pmol s) (pT s) ph')
    end.

  Definition setH_flip (s : pstream) (h : Q) : option err * pstream :=
    if qzerob h && isempty (pmol s) then (None, s)
    else match solveP (pph s) (pmol s) h with
         | Ok t => (None, mkP (pmol s) t (pph s))
         | Err e => match lower_phase (pph s) with
                    | 1%nat => retryH s h 2
                    | 2%nat => retryH s h 1
                    | _ => (Some e, s)
                    end
         end.

  Definition adiabatic_flip (is_stream : bool) (w : vec) (o : robj) (s : pstream) (Qin : Q)
    : option err * pstream :=
    if negb is_stream then (Some EValue, s)
    else
      let hnet := HnetP s + Qin in
      let (e, mol') := call_stream w o (pmol s) in
      let s1 := mkP mol' (pT s) (pph s) in
      match e with
      | Some e => (Some e, s1)
      | None => setH_flip s1 (hnet - Hf_of hf mol')
      end.
End Flip.

(* stub solver that can be told to raise in given phases *)
Definition stubSolveP (cn : vec) (fails : list nat) (ph : nat) (mol : vec) (h : Q) : res Q :=
  if existsb (Nat.eqb ph) fails then Err ERuntime else stubSolve cn mol h.

Definition thermal_flip_eqb (cn hf w : vec) (fails : list nat) (o : res robj) (is_stream : bool)
           (s : pstream) (Qin : Q) (hnet0 : Q) (e : option err) (mol' : vec) (T' : Q) (ph' : nat) (hnet' : Q) : bool :=
  match o with
  | Err _ => false
  | Ok ob =>
      let H := fun (_ : nat) => stubH cn in
      let r := adiabatic_flip H (stubSolveP cn fails) hf is_stream w ob s Qin in
      let scale := Qabs hnet0 + Qabs Qin in
      qapprox_scaled scale (HnetP H hf s) hnet0 && oerr_eqb (fst r) e &&
      (* the state of the stream is compared after a normal return AND after an exception *)
      vapproxb (pmol (snd r)) mol' && qapproxb (pT (snd r)) T' && Nat.eqb (pph (snd r)) ph' &&
      qapprox_scaled scale (HnetP H hf (snd r)) hnet'
  end.

(* ====================================================================================== *)
(* Stream._get_property: the memo behind Stream.H.  A stream and all its proxies share ONE cache
   dictionary and ONE key list (Stream.proxy copies the references; the key list is updated in
   place), as they share the flows and the thermal condition.  In the model there is therefore one
   state and one cache whatever handle is used.  The key is (phase, T, composition) [P is constant
   here]; the cached value is per unit of total flow.  Reading any other cached property (Cn, S, ...)
   moves the key too and empties the dictionary when the key changed. *)
Record hcache := mkC { ckey : option (nat * Q * vec); cH : option Q }.
Definition cache0 : hcache := mkC None None.

Definition key_eqb (a b : nat * Q * vec) : bool :=
  let '(p1, t1, z1) := a in let '(p2, t2, z2) := b in
  Nat.eqb p1 p2 && Qeq_bool t1 t2 && veqb z1 z2.

Definition cur_key (s : pstream) : nat * Q * vec :=
  (pph s, pT s, vdivs (pmol s) (qsum (pmol s))).

Definition key_hit (c : hcache) (s : pstream) : bool :=
  match ckey c with Some k => key_eqb k (cur_key s) | None => false end.

Section Cache.
  Variable hspec : nat -> vec -> Q -> Q.     (* mixture.H(phase, composition, T, P) *)

  (* Stream.H *)
  Definition get_H (c : hcache) (s : pstream) : Q * hcache :=
    let total := qsum (pmol s) in
    if qzerob total then (0, c)
    else
      let '(ph, T, z) := cur_key s in
      if key_hit c s then
        match cH c with
        | Some v => (v * total, c)
        | None => let v := hspec ph z T in (v * total, mkC (Some (ph, T, z)) (Some v))
        end
      else let v := hspec ph z T in (v * total, mkC (Some (ph, T, z)) (Some v)).

  (* any other property served by _get_property *)
  Definition read_other (c : hcache) (s : pstream) : hcache :=
    if qzerob (qsum (pmol s)) then c
    else if key_hit c s then c else mkC (Some (cur_key s)) None.

  Inductive sop :=
  | SReadH | SReadOther | SSetT (t : Q) | SSetFlows (m : vec) | SSetPhase (ph : nat).

  Definition sstep (st : pstream * hcache) (o : sop) : (pstream * hcache) * list Q :=
    let (s, c) := st in
    match o with
    | SReadH => let (v, c') := get_H c s in ((s, c'), [v])
    | SReadOther => ((s, read_other c s), [])
    | SSetT t => ((mkP (pmol s) t (pph s), c), [])
    | SSetFlows m => ((mkP m (pT s) (pph s), c), [])
    | SSetPhase ph => ((mkP (pmol s) (pT s) ph, c), [])
    end.

  Fixpoint srun (st : pstream * hcache) (ops : list sop) : (pstream * hcache) * list Q :=
    match ops with
    | [] => (st, [])
    | o :: t => let (st1, r1) := sstep st o in let (st2, r2) := srun st1 t in (st2, r1 ++ r2)
    end.

  (* the enthalpy the mixture model assigns to the state *)
  Definition HfunC (ph : nat) (mol : vec) (T : Q) : Q :=
    qsum mol * hspec ph (vdivs mol (qsum mol)) T.

  Variable solveP : nat -> vec -> Q -> res Q.
  Variable hf : vec.

  (* adiabatic_reaction through any handle: Hnet is read through the memo; [callf] is the reaction step
     (V.C05.Model.call_stream, or call_other for a stream of another package) *)
  Definition adiabatic_cached (is_stream : bool) (callf : vec -> option err * vec)
             (st : pstream * hcache) (Qin : Q) : option err * (pstream * hcache) :=
    let (s, c) := st in
    if negb is_stream then (Some EValue, st)
    else
      let (h0, c1) := get_H c s in
      let hnet := h0 + Hf_of hf (pmol s) + Qin in
      let (e, mol') := callf (pmol s) in
      let s1 := mkP mol' (pT s) (pph s) in
      match e with
      | Some e => (Some e, (s1, c1))
      | None => let (e2, s2) := setH_flip solveP s1 (hnet - Hf_of hf mol') in (e2, (s2, c1))
      end.

  Definition isothermal_cached (callf : vec -> option err * vec) (st : pstream * hcache)
    : option err * (pstream * hcache) :=
    let (s, c) := st in let (e, mol') := callf (pmol s) in (e, (mkP mol' (pT s) (pph s), c)).
End Cache.

(* stub: constant heat capacities *)
Definition stub_hspec (cn : vec) (ph : nat) (z : vec) (T : Q) : Q := vdot cn z * (T - Tref).

Definition thermal_cached_eqb (cn hf : vec) (fails : list nat) (o : res robj) (callf : robj -> vec -> option err * vec)
           (adiab is_stream : bool) (s : pstream) (pre : list sop) (reads : vec) (Qin : Q)
           (e : option err) (mol' : vec) (T' : Q) (ph' : nat) (hnet0 hnet' : Q) : bool :=
  match o with
  | Err _ => false
  | Ok ob =>
      let hs := stub_hspec cn in
      let '(st1, rd) := srun hs (s, cache0) pre in
      let r := if adiab then adiabatic_cached hs (stubSolveP cn fails) hf is_stream (callf ob) st1 Qin
               else isothermal_cached (callf ob) st1 in
      let HN := fun p : pstream => HfunC hs (pph p) (pmol p) (pT p) + Hf_of hf (pmol p) in
      let scale := Qabs hnet0 + Qabs Qin in
      vapproxb rd reads && oerr_eqb (fst r) e &&
      qapprox_scaled scale (HN (fst st1)) hnet0 &&
      vapproxb (pmol (fst (snd r))) mol' && qapproxb (pT (fst (snd r))) T' && Nat.eqb (pph (fst (snd r))) ph' &&
      qapprox_scaled scale (HN (fst (snd r))) hnet'
  end.

(* ---------- heats of reaction after a history on copies (V.C05.Model.hist_run) ---------- *)
Definition dH_list_eqb (c : chemdata) (l : list rxn) (expect : list (option err * Q)) : bool :=
  Nat.eqb (length l) (length expect) &&
  forallb (fun b : bool => b)
    (map2 (fun (r : rxn) (x : option err * Q) => resq_eqb (dH c r) (fst x) (snd x)) l expect).

Definition dHs_hist_eqb (c : chemdata) (mws : vec) (o : res robj) (ops : list hop) (oks : list bool)
           (members derived : list (option err * Q)) : bool :=
  match o with
  | Err _ => false
  | Ok ob =>
      let '(ob', oks', der') := hist_run mws ob ops in
      list_eqb Bool.eqb oks' oks && dH_list_eqb c (flat_members ob') members && dH_list_eqb c der' derived
  end.

(* ====================================================================================== *)
(* The heats of formation a compiled package works with are ARRAYS taken from the chemicals when the
   package is compiled (thermosteam/_chemicals.py CompiledChemicals._compile) and again by
   CompiledChemicals.refresh_constants(); `chemical.Hf = v` changes the chemical only.  Reaction.dH
   reads the array of the reaction's package, Stream.Hf the array of the stream's package.
   [arrB] is kept in the order of package B ([orderB]: position in B -> index of the chemical). *)
Record pkgstate := mkPk { chemHf : vec; arrA : vec; arrB : vec }.
Inductive pop := PSetHf (i : nat) (v : Q) | PRefreshA | PRefreshB.

Definition pstep (orderB : list nat) (s : pkgstate) (o : pop) : pkgstate :=
  match o with
  | PSetHf i v => mkPk (upd (chemHf s) i v) (arrA s) (arrB s)
  | PRefreshA => mkPk (chemHf s) (chemHf s) (arrB s)
  | PRefreshB => mkPk (chemHf s) (arrA s) (map (nthq (chemHf s)) orderB)
  end.
Definition prun (orderB : list nat) (s : pkgstate) (ops : list pop) : pkgstate :=
  fold_left (pstep orderB) ops s.
Definition compiled (orderB : list nat) (hf : vec) : pkgstate := mkPk hf hf (map (nthq hf) orderB).

(* ====================================================================================== *)
(* Mixture._free_energy_args (thermosteam/mixture/mixture.py): the temperature solvers load
   equation-of-state arguments for the phase being solved, iterate, and clear them in a `finally`.
   While arguments are loaded, EOSMixture.H of that phase is evaluated with them (whatever the
   composition asked for); otherwise from the composition asked for.  States are numbered by the
   harness; [fresh k] is the enthalpy of state k from its own composition, [stale j k] what is
   returned for state k while the arguments of state j are loaded. *)
Record mixstate := mkM { margs : option nat }.
Inductive mop :=
| MRead (k : nat)                 (* H of state k is evaluated *)
| MSolve (k : nat) (ok : bool).   (* a T solve for state k; ok = the solver returned (false: it raised) *)

Section MixArgs.
  Variable fresh : nat -> Q.
  Variable stale : nat -> nat -> Q.
  Definition H_eval (m : mixstate) (k : nat) : Q :=
    match margs m with None => fresh k | Some j => stale j k end.
  (* (mixture after, values read, "is the argument dictionary empty now") *)
  Definition mstep (m : mixstate) (o : mop) : mixstate * list Q :=
    match o with
    | MRead k => (m, [H_eval m k])
    | MSolve k ok =>
        let m1 := mkM (Some k) in               (* _load_free_energy_args *)
        let _ := ok in                          (* the iterations; their outcome does not matter here *)
        (mkM None, [])                          (* finally: self._free_energy_args.clear() *)
    end.
  Fixpoint mrun (m : mixstate) (ops : list mop) : mixstate * list Q * list bool :=
    match ops with
    | [] => (m, [], [])
    | o :: t => let (m1, r1) := mstep m o in
                let '(m2, r2, f2) := mrun m1 t in
                (m2, r1 ++ r2, match margs m1 with None => true | Some _ => false end :: f2)
    end.
End MixArgs.

Definition mix_eqb (tbl : vec) (ops : list mop) (reads : vec) (flags : list bool) : bool :=
  let '(_, r, f) := mrun (nthq tbl) (fun _ _ => 0) (mkM None) ops in
  list_eqb Bool.eqb f flags &&
  Nat.eqb (length r) (length reads) &&
  forallb (fun b : bool => b) (map2 (fun a b => qapprox_scaled (Qabs b) a b) r reads).

(* ====================================================================================== *)
(* Stream.copy (thermosteam/_stream.py; also __copy__, and MultiStream inherits it): the new stream
   gets `self._imol.copy()` and `self._thermal_condition.copy()` -- its own flows, T and phase with the
   values of the original -- and then `new.reset_cache()`: a NEW key list [None, None] and a NEW, empty
   dictionary.  (`thermo or self._thermo`: with no package, or the stream's own package, nothing is
   re-indexed.)  Nothing of the original is touched.  So where a stream and its proxies are ONE
   (state, memo) pair, every copy is ANOTHER pair; the streams of a program form a heap of such pairs,
   and every read / change / reaction addresses one of them. *)
Definition sheap := list (pstream * hcache).
Definition hdflt : pstream * hcache := (mkP [] 0 0, cache0).

Inductive hsop :=
| HOn (i : nat) (o : sop)         (* [o] through any handle of stream i *)
| HCopyS (i : nat).               (* stream i .copy(): appended to the heap *)

Fixpoint hset {A} (h : list A) (i : nat) (x : A) : list A :=
  match h, i with
  | [], _ => []
  | _ :: t, O => x :: t
  | y :: t, S i' => y :: hset t i' x
  end.

Section Heap.
  Variable hspec : nat -> vec -> Q -> Q.

  Definition copy_entry (st : pstream * hcache) : pstream * hcache :=
    (mkP (pmol (fst st)) (pT (fst st)) (pph (fst st)), cache0).

  Definition shstep (h : sheap) (o : hsop) : sheap * list Q :=
    match o with
    | HOn i o => match nth_error h i with
                 | Some st => let (st', r) := sstep hspec st o in (hset h i st', r)
                 | None => (h, [])
                 end
    | HCopyS i => match nth_error h i with
                  | Some st => (h ++ [copy_entry st], [])
                  | None => (h, [])
                  end
    end.

  Fixpoint shrun (h : sheap) (ops : list hsop) : sheap * list Q :=
    match ops with
    | [] => (h, [])
    | o :: t => let (h1, r1) := shstep h o in let (h2, r2) := shrun h1 t in (h2, r1 ++ r2)
    end.

  Variable solveP : nat -> vec -> Q -> res Q.
  Variable hf : vec.

  (* reaction.adiabatic_reaction(stream_i, Q) / reaction(stream_i) with the other streams around *)
  Definition hadiabatic (is_stream : bool) (callf : vec -> option err * vec) (h : sheap) (i : nat) (Qin : Q)
    : option err * sheap :=
    match nth_error h i with
    | Some st => let (e, st') := adiabatic_cached hspec solveP hf is_stream callf st Qin in (e, hset h i st')
    | None => (Some EIndex, h)
    end.

  Definition hisothermal (callf : vec -> option err * vec) (h : sheap) (i : nat) : option err * sheap :=
    match nth_error h i with
    | Some st => let (e, st') := isothermal_cached callf st in (e, hset h i st')
    | None => (Some EIndex, h)
    end.
End Heap.

(* states of all streams of the heap against what was observed *)
Fixpoint states_eqb (h : sheap) (obs : list (vec * Q * nat)) : bool :=
  match h, obs with
  | [], [] => true
  | (s, _) :: h', (m, t, ph) :: obs' =>
      vapproxb (pmol s) m && qapproxb (pT s) t && Nat.eqb (pph s) ph && states_eqb h' obs'
  | _, _ => false
  end.

(* history over the heap (copies included), the operation through stream [via], then H read back
   through EVERY stream of the heap; compared: every read before, exception class, Hnet (memo-free) of
   the target before and after, the state of every stream after, every H read back *)
Definition thermal_heap_eqb (cn hf : vec) (fails : list nat) (o : res robj) (callf : robj -> vec -> option err * vec)
           (adiab is_stream : bool) (s : pstream) (pre : list hsop) (reads : vec) (via : nat) (Qin : Q)
           (e : option err) (after : list (vec * Q * nat)) (hnet0 hnet' : Q) (post : vec) : bool :=
  match o with
  | Err _ => false
  | Ok ob =>
      let hs := stub_hspec cn in
      let '(h1, rd) := shrun hs [(s, cache0)] pre in
      let r := if adiab then hadiabatic hs (stubSolveP cn fails) hf is_stream (callf ob) h1 via Qin
               else hisothermal (callf ob) h1 via in
      let h2 := snd r in
      let '(_, rd2) := shrun hs h2 (map (fun i => HOn i SReadH) (seq 0 (length h2))) in
      let HN := fun p : pstream => HfunC hs (pph p) (pmol p) (pT p) + Hf_of hf (pmol p) in
      let scale := Qabs hnet0 + Qabs Qin in
      vapproxb rd reads && oerr_eqb (fst r) e &&
      qapprox_scaled scale (HN (fst (nth via h1 hdflt))) hnet0 &&
      states_eqb h2 after &&
      qapprox_scaled scale (HN (fst (nth via h2 hdflt))) hnet' &&
      vapproxb rd2 post
  end.
