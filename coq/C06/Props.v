(* C06 — property theorems only.  Each is closed by [exact <lemma>] and followed by Print Assumptions.
   [c] holds the package data (Hf, MW, Hvap(298.15), Hfus, reference phases); [hf] is c_hf tiled over
   the phases of the stream; [Hfun]/[solveT] are the enthalpy of the mixture and its inversion in T
   (oracles: every theorem holds for all of them that satisfy the stated contract). *)
From V Require Import Common.NumFacts C05.Model C05.Proofs C06.Model C06.Proofs.

(* dH_mol: conversion times the stoichiometry-weighted heats of formation *)
Theorem C06_dH_mol : forall c r, phases r = [] -> wt r = false ->
  dH c r = Ok (X r * vdot (c_hf c) (st r)).
Proof. exact dH_mol_lemma. Qed.
Print Assumptions C06_dH_mol.

(* ... including the latent heats between reference phase and named phase for a phase-tagged
   reaction, and per unit mass on a weight basis *)
Theorem C06_dH_phases : forall c r lat, phases r <> [] ->
  latent_rows (length (c_hf c)) (phases r) (c_pref c) (c_hvap c) (c_hfus c) (st r) = Ok lat ->
  dH c r = Ok (X r * vdot (let h := vadd (tile (Nat.max 1 (length (phases r))) (c_hf c)) lat in
                           if wt r then map2 Qdiv h (tile (Nat.max 1 (length (phases r))) (c_mw c)) else h)
                          (st r)).
Proof. exact dH_phases_lemma. Qed.
Print Assumptions C06_dH_phases.

Theorem C06_latent_table : forall hv hf,
  latent 2 2 hv hf = Ok 0 /\ latent 1 1 hv hf = Ok 0 /\ latent 3 3 hv hf = Ok 0 /\
  latent 2 1 hv hf = Ok hv /\ latent 2 3 hv hf = Ok (- hf) /\
  latent 1 2 hv hf = Ok (- hv) /\ latent 1 3 hv hf = Ok (- (hv + hf)) /\
  latent 3 2 hv hf = Ok hf /\ latent 3 1 hv hf = Ok (hf + hv) /\
  latent 2 4 hv hf = Err ERuntime /\ latent 1 5 hv hf = Err ERuntime.
Proof. exact latent_table. Qed.
Print Assumptions C06_latent_table.

(* dH_wt: the per-mass heat of reaction times the reactant's molecular weight is the per-mole one;
   first for any vector of per-entry heats (formation + latent), then for Reaction.dH *)
Theorem C06_dH_wt_heats : forall (h w s s' : vec) (k : Q),
  length s' = length s -> length w = length s -> length h = length s ->
  Forall (fun x => ~ x == 0) w ->
  (forall i, nthq s' i * k == nthq s i * nthq w i) ->
  vdot (map2 Qdiv h w) s' * k == vdot h s.
Proof. exact vdot_wt. Qed.
Print Assumptions C06_dH_wt_heats.

Theorem C06_dH_wt : forall c r r' d d', phases r = [] -> phases r' = [] -> wt r = false -> wt r' = true ->
  wt_of (c_mw c) r r' -> length (c_mw c) = length (st r) -> length (c_hf c) = length (st r) ->
  Forall (fun x => ~ x == 0) (c_mw c) ->
  dH c r = Ok d -> dH c r' = Ok d' -> d' * nthq (c_mw c) (ridx r) == d.
Proof. exact dH_wt_lemma. Qed.
Print Assumptions C06_dH_wt.

(* adiabatic: for every kind of reaction object, basis and phase layout, whenever
   adiabatic_reaction returns normally, Hnet after = Hnet before + Q *)
Theorem C06_adiabatic : forall (Hfun : vec -> Q -> Q) (solveT : vec -> Q -> res Q) (hf : vec),
  (forall m h t, solveT m h = Ok t -> Hfun m t == h) ->
  (forall m t, isempty m = true -> Hfun m t == 0) ->
  forall is_stream w o s Qin s',
  adiabatic Hfun solveT hf is_stream w o s Qin = (None, s') ->
  Hnet Hfun hf s' == Hnet Hfun hf s + Qin.
Proof. exact adiabatic_lemma. Qed.
Print Assumptions C06_adiabatic.

(* ... and the flows are exactly those of the isothermal call (so C05 applies to them) *)
Theorem C06_adiabatic_flows : forall (Hfun : vec -> Q -> Q) (solveT : vec -> Q -> res Q) (hf : vec),
  (forall m h t, solveT m h = Ok t -> Hfun m t == h) ->
  (forall m t, isempty m = true -> Hfun m t == 0) ->
  forall is_stream w o s Qin s',
  adiabatic Hfun solveT hf is_stream w o s Qin = (None, s') ->
  call_stream w o (smol s) = (None, smol s').
Proof. exact adiabatic_flows. Qed.
Print Assumptions C06_adiabatic_flows.

(* isothermal, any object: T is kept and Hnet changes by the formation term plus the sensible term *)
Theorem C06_isothermal_any : forall (Hfun : vec -> Q -> Q) (hf : vec) (hs : Q -> vec),
  (forall m T, Hfun m T == vdot (hs T) m) ->
  forall w o s s', isothermal w o s = (None, s') ->
  sT s' = sT s /\
  Hnet Hfun hf s' - Hnet Hfun hf s ==
    (vdot hf (smol s') - vdot hf (smol s)) + (vdot (hs (sT s)) (smol s') - vdot (hs (sT s)) (smol s)).
Proof. exact isothermal_any_lemma. Qed.
Print Assumptions C06_isothermal_any.

(* isothermal_general: Hnet' - Hnet = dH * reactant fed + sum_i (h_i(T) - latent_i) * dm_i *)
Theorem C06_isothermal_general : forall Hfun hf hs lat w r s s',
  (forall m T, Hfun m T == vdot (hs T) m) ->
  wt r = false -> wf (length (smol s)) r -> length hf = length lat -> length (hs (sT s)) = length lat ->
  nonneg (react r (smol s)) ->
  isothermal w (Simple false (Single r)) s = (None, s') ->
  Hnet Hfun hf s' - Hnet Hfun hf s ==
    (X r * vdot (vadd hf lat) (st r)) * nthq (smol s) (ridx r)
    + (vdot (vsub (hs (sT s)) lat) (smol s') - vdot (vsub (hs (sT s)) lat) (smol s)).
Proof. exact isothermal_single_lemma. Qed.
Print Assumptions C06_isothermal_general.

(* isothermal_at_ref: where every species' enthalpy equals its latent offset (zero for a phase-less
   reaction: the reference state), the clause as written *)
Theorem C06_isothermal_at_ref : forall Hfun hf hs lat w r s s',
  (forall m T, Hfun m T == vdot (hs T) m) ->
  wt r = false -> wf (length (smol s)) r -> length hf = length lat -> length (hs (sT s)) = length lat ->
  nonneg (react r (smol s)) ->
  (forall i, nthq (hs (sT s)) i == nthq lat i) ->
  isothermal w (Simple false (Single r)) s = (None, s') ->
  Hnet Hfun hf s' - Hnet Hfun hf s == (X r * vdot (vadd hf lat) (st r)) * nthq (smol s) (ridx r).
Proof. exact isothermal_at_ref_lemma. Qed.
Print Assumptions C06_isothermal_at_ref.

(* ---------- non-vacuity: the stub package satisfies the contracts; a concrete adiabatic run ---------- *)
Definition exCn : vec := [64; 32; 16; 128; 8; 48].
Definition exHf : vec := [-1024; 256; 0; -2048; -512; 128].
Definition exMW : vec := [16; 32; 8; 4; 64; 2].
Definition exR : rxn := mkrxn [-1; 0; -2; 1; 0; 0] 0 (1 # 2) false [].
Definition exS : stream := mkS [4; 64; 64; 64; 64; 64] 350.

Example C06_stub_contract :
  (forall m h t, stubSolve exCn m h = Ok t -> stubH exCn m t == h) /\
  (forall m T, stubH exCn m T == vdot (map (fun c => c * (T - Tref)) exCn) m).
Proof.
  split.
  - intros m h t. unfold stubSolve, stubH. destruct (qzerob (vdot exCn m)) eqn:Z; [discriminate|].
    intros H; inversion H; subst. apply qzerob_false in Z. field. exact Z.
  - intros m T. unfold stubH. generalize exCn. intros cn. revert m.
    induction cn as [|x cn IH]; intros m.
    + simpl. rewrite !vdot_nil_l. ring.
    + destruct m as [|y m]; [simpl; rewrite !vdot_nil_r; ring|].
      simpl map. rewrite !vdot_cons, <- IH. ring.
Qed.

Example C06_nonvacuous_adiabatic :
  exists s', adiabatic (stubH exCn) (stubSolve exCn) exHf true exMW (Simple false (Single exR)) exS 1024 = (None, s')
    /\ Hnet (stubH exCn) exHf s' == Hnet (stubH exCn) exHf exS + 1024.
Proof. eexists. split; [vm_compute; reflexivity|]. vm_compute. reflexivity. Qed.

Example C06_nonvacuous_dH : dH (mkchem exHf exMW [512;256;1024;128;64;2048] [128;32;16;64;8;256] [2;2;1;1;3;2]%nat) exR
  = Ok ((1 # 2) * vdot exHf (st exR)).
Proof. reflexivity. Qed.

(* ---------- conversions assigned through the set, its items, slices or the system ---------- *)
(* after ANY history of such assignments every member of the object keeps its stoichiometry,
   reactant, basis and phases and carries entry k of the one conversions array — the entry that
   every handle (item, slice, item of a slice; obtained before or after) reads.  Reaction.dH of
   a handle is therefore the heat of reaction the object applies. *)
Theorem C06_conversions_shared : forall o ops k r,
  nth_error (flat_members (apply_xhist o ops)) k = Some r ->
  exists r0, nth_error (flat_members o) k = Some r0 /\
    X r = nthq (xrun (map X (flat_members o)) ops) k /\
    st r = st r0 /\ ridx r = ridx r0 /\ wt r = wt r0 /\ phases r = phases r0.
Proof. exact xhist_member_lemma. Qed.
Print Assumptions C06_conversions_shared.

Theorem C06_conversions_members : forall o ops,
  flat_members (apply_xhist o ops) = map2 set_X (flat_members o) (xrun (map X (flat_members o)) ops).
Proof. exact xhist_members_lemma. Qed.
Print Assumptions C06_conversions_members.

(* isothermal, parallel and series sets (molar, no clamp): Hnet changes by the sum over the members of
   X_k * (Hf . S_k) — their reported dH (C06_dH_mol) — times the reactant each one was fed: the feed
   for parallel reactions, the running composition for series reactions; plus the sensible term *)
Theorem C06_isothermal_parallel : forall Hfun hf hs w rs s s',
  (forall m T, Hfun m T == vdot (hs T) m) ->
  Forall (wf (length (smol s))) rs -> nonneg (react_parallel rs (smol s)) ->
  isothermal w (Simple false (Parallel rs)) s = (None, s') ->
  Hnet Hfun hf s' - Hnet Hfun hf s ==
    heat_parallel hf (smol s) rs + (vdot (hs (sT s)) (smol s') - vdot (hs (sT s)) (smol s)).
Proof. exact isothermal_parallel_lemma. Qed.
Print Assumptions C06_isothermal_parallel.

Theorem C06_isothermal_series : forall Hfun hf hs w rs s s',
  (forall m T, Hfun m T == vdot (hs T) m) ->
  Forall (wf (length (smol s))) rs -> nonneg (react_series rs (smol s)) ->
  isothermal w (Simple false (Series rs)) s = (None, s') ->
  Hnet Hfun hf s' - Hnet Hfun hf s ==
    heat_series hf rs (smol s) + (vdot (hs (sT s)) (smol s') - vdot (hs (sT s)) (smol s)).
Proof. exact isothermal_series_lemma. Qed.
Print Assumptions C06_isothermal_series.

(* non-vacuity: a history whose writes overlap; a reaction with one chemical in two phases, whose
   two entries get different latent heats *)
Example C06_nonvacuous_xhist :
  let o := Simple false (Parallel [exR; mkrxn [0; -1; 0; 0; 2; 0] 1 (1 # 4) false []]) in
  map X (flat_members (apply_xhist o [XRange 0 [1 # 8; 3 # 4]; XWrite 1 (1 # 2)])) = [1 # 8; 1 # 2].
Proof. reflexivity. Qed.

Example C06_nonvacuous_two_phases :
  let c := mkchem exHf exMW [512;256;1024;128;64;2048] [128;32;16;64;8;256] [2;2;1;1;3;2]%nat in
  let r := mkrxn [-1; 0; 0; 0; 0; 1 # 2;   0; 2; 0; 0; 0; 1 # 2] 0 (1 # 2) false [1; 2]%nat in
  exists d, dH c r = Ok d /\ d == 1088.
Proof. eexists. split; [vm_compute; reflexivity|]. reflexivity. Qed.

(* ---------- dH on a weight basis, phase-tagged reactions included ---------- *)
(* r' is r per unit mass (C05_rebase_is_wt_of); W the molecular weights tiled over the phases *)
Theorem C06_dH_wt_phases : forall c r r' d d',
  phases r <> [] -> phases r' = phases r -> wt r = false -> wt r' = true ->
  let W := tile (Nat.max 1 (length (phases r))) (c_mw c) in
  wt_of W r r' -> length W = length (st r) -> Forall (fun x => ~ x == 0) W ->
  dH c r = Ok d -> dH c r' = Ok d' -> d' * nthq W (ridx r) == d.
Proof. exact dH_wt_phases_lemma. Qed.
Print Assumptions C06_dH_wt_phases.

(* ---------- isothermal reaction, any object, either basis ---------- *)
(* [heat_obj g o v] adds up, member by member and in the order the object applies them,
   X_k * (g . S_k) * v[r_k], v being the buffer (molar flows, or mass flows on a weight basis) at the
   moment member k acts: the feed for the members of a parallel set, the running composition for a
   series set and from part to part of a system.  With g = weights o w (hf + lat), X_k * (g . S_k) is
   the dH the member reports (C06_dH_mol / C06_dH_phases, per mole or per mass).  So:
   Hnet' - Hnet = sum_k dH_k * (reactant fed to k) + sum_i (h_i(T) - latent_i) * dm_i. *)
Theorem C06_isothermal_object : forall Hfun hf hs lat w o s s',
  (forall m T, Hfun m T == vdot (hs T) m) ->
  length w = length (smol s) -> Forall (fun x => ~ x == 0) w ->
  Forall (wf (length (smol s))) (obj_members o) ->
  length hf = length lat -> length (hs (sT s)) = length lat ->
  nonneg (fst (react_obj o (buffer o w (smol s)))) ->
  isothermal w o s = (None, s') ->
  Hnet Hfun hf s' - Hnet Hfun hf s ==
    heat_obj (weights o w (vadd hf lat)) o (buffer o w (smol s))
    + (vdot (vsub (hs (sT s)) lat) (smol s') - vdot (vsub (hs (sT s)) lat) (smol s)).
Proof. exact isothermal_object_lemma. Qed.
Print Assumptions C06_isothermal_object.

(* the decomposition itself, for any linear functional of the flows *)
Theorem C06_stream_functional : forall g w o mol mol',
  length w = length mol -> Forall (fun x => ~ x == 0) w ->
  Forall (wf (length mol)) (obj_members o) ->
  nonneg (fst (react_obj o (buffer o w mol))) ->
  call_stream w o mol = (None, mol') ->
  vdot g mol' - vdot g mol == heat_obj (weights o w g) o (buffer o w mol).
Proof. exact stream_functional_lemma. Qed.
Print Assumptions C06_stream_functional.

(* heats that agree wherever the stoichiometry is non-zero give the same dH (the latent table is
   only consulted there) *)
Theorem C06_dH_support : forall (u v s : vec), length u = length v ->
  (forall j, ~ nthq s j == 0 -> nthq u j == nthq v j) -> vdot u s == vdot v s.
Proof. exact vdot_support. Qed.
Print Assumptions C06_dH_support.

(* ---------- single-phase Stream: the H setter's phase fallback ---------- *)
(* the solver is an oracle that may raise in any phase; whenever adiabatic_reaction returns normally
   the balance closes, with Hnet evaluated in the phase the stream ends up in *)
Theorem C06_adiabatic_flip : forall (HfunP : nat -> vec -> Q -> Q) (solveP : nat -> vec -> Q -> res Q) (hf : vec),
  (forall ph m h t, solveP ph m h = Ok t -> HfunP ph m t == h) ->
  (forall ph m t, isempty m = true -> HfunP ph m t == 0) ->
  forall is_stream w o s Qin s',
  adiabatic_flip HfunP solveP hf is_stream w o s Qin = (None, s') ->
  HnetP HfunP hf s' == HnetP HfunP hf s + Qin /\ call_stream w o (pmol s) = (None, pmol s').
Proof. exact adiabatic_flip_lemma. Qed.
Print Assumptions C06_adiabatic_flip.

(* when it raises: T is the old one, the flows are what the reaction step left, and the phase has been
   switched to the other fluid phase exactly when the first solve failed in a fluid phase *)
Theorem C06_adiabatic_flip_error : forall (HfunP : nat -> vec -> Q -> Q) (solveP : nat -> vec -> Q -> res Q) (hf : vec),
  forall w o s Qin e s',
  adiabatic_flip HfunP solveP hf true w o s Qin = (Some e, s') ->
  pT s' = pT s /\ pmol s' = snd (call_stream w o (pmol s)) /\
  (fst (call_stream w o (pmol s)) = Some e /\ pph s' = pph s \/
   fst (call_stream w o (pmol s)) = None /\
     exists h e1, solveP (pph s) (pmol s') h = Err e1 /\
       (lower_phase (pph s) = 1%nat /\ pph s' = 2%nat /\ solveP 2%nat (pmol s') h = Err e \/
        lower_phase (pph s) = 2%nat /\ pph s' = 1%nat /\ solveP 1%nat (pmol s') h = Err e \/
        lower_phase (pph s) <> 1%nat /\ lower_phase (pph s) <> 2%nat /\ pph s' = pph s /\ e = e1)).
Proof. exact adiabatic_flip_error_lemma. Qed.
Print Assumptions C06_adiabatic_flip_error.

(* non-vacuity: the solver raises in the liquid phase; the gas phase is tried and the balance closes *)
Example C06_nonvacuous_flip :
  exists s', adiabatic_flip (fun _ => stubH exCn) (stubSolveP exCn [2%nat]) exHf true exMW
               (Simple false (Single exR)) (mkP [4; 64; 64; 64; 64; 64] 350 2) 1024 = (None, s')
    /\ pph s' = 1%nat.
Proof. eexists. split; [vm_compute; reflexivity|]. reflexivity. Qed.

Example C06_nonvacuous_flip_error :
  exists e s', adiabatic_flip (fun _ => stubH exCn) (stubSolveP exCn [1%nat; 2%nat]) exHf true exMW
               (Simple false (Single exR)) (mkP [4; 64; 64; 64; 64; 64] 350 2) 1024 = (Some e, s')
    /\ pph s' = 1%nat /\ pT s' = 350.
Proof. eexists. eexists. split; [vm_compute; reflexivity|]. split; reflexivity. Qed.

(* ---------- the H memo shared by a stream and its proxies ---------- *)
(* [hspec]: the mixture model's specific enthalpy, a function of the VALUES of composition and T.
   For every history of reads (H or any other memoised property) and changes of T, flows and phase
   through whichever handle: the stream ends in the state the memo-free run ends in, every H that
   was read is the enthalpy of the state it was read in, and the memo stays consistent. *)
Theorem C06_memo_transparent : forall (hspec : nat -> vec -> Q -> Q),
  (forall ph z z' T T', T == T' -> veqb z z' = true -> hspec ph z T == hspec ph z' T') ->
  forall ops s c, cinv hspec c ->
  fst (fst (srun hspec (s, c) ops)) = fst (srun_ref hspec s ops) /\
  Forall2 Qeq (snd (srun hspec (s, c) ops)) (snd (srun_ref hspec s ops)) /\
  cinv hspec (snd (fst (srun hspec (s, c) ops))).
Proof. exact srun_transparent. Qed.
Print Assumptions C06_memo_transparent.

(* adiabatic_reaction through any handle, after any such history (consistent memo), for ANY reaction
   step [callf] — same package, another package (V.C05.Model.call_other), any object — with the
   H setter's phase fallback: a normal return closes the balance, evaluated memo-free *)
Theorem C06_adiabatic_cached : forall (hspec : nat -> vec -> Q -> Q),
  (forall ph z z' T T', T == T' -> veqb z z' = true -> hspec ph z T == hspec ph z' T') ->
  forall (solveP : nat -> vec -> Q -> res Q) (hf : vec),
  (forall ph m h t, solveP ph m h = Ok t -> HfunC hspec ph m t == h) ->
  forall is_stream callf s c Qin s' c', cinv hspec c ->
  adiabatic_cached hspec solveP hf is_stream callf (s, c) Qin = (None, (s', c')) ->
  HfunC hspec (pph s') (pmol s') (pT s') + Hf_of hf (pmol s') ==
    HfunC hspec (pph s) (pmol s) (pT s) + Hf_of hf (pmol s) + Qin
  /\ callf (pmol s) = (None, pmol s') /\ cinv hspec c'.
Proof. exact adiabatic_cached_lemma. Qed.
Print Assumptions C06_adiabatic_cached.

Example C06_memo_initial : forall hspec, cinv hspec cache0.
Proof. exact cinv_cache0. Qed.

(* non-vacuity: state A read, state B read, back to A, read again: the values are those of A, B, A *)
Example C06_nonvacuous_memo :
  snd (srun (stub_hspec exCn) (mkP [4; 64; 64; 64; 64; 64] 350 2, cache0)
            [SReadH; SSetT 400; SReadH; SSetT 350; SReadOther; SReadH])
  = snd (srun_ref (stub_hspec exCn) (mkP [4; 64; 64; 64; 64; 64] 350 2)
            [SReadH; SSetT 400; SReadH; SSetT 350; SReadOther; SReadH]).
Proof. vm_compute. reflexivity. Qed.

(* ---------- the package's heats of formation follow the chemicals ---------- *)
(* `chemical.Hf = v` changes the chemical only (the arrays keep their values until refreshed) ... *)
Theorem C06_edit_keeps_arrays : forall ob s i v,
  arrA (pstep ob s (PSetHf i v)) = arrA s /\ arrB (pstep ob s (PSetHf i v)) = arrB s.
Proof. exact pstep_edit_keeps_arrays. Qed.
Print Assumptions C06_edit_keeps_arrays.

(* ... and for ANY history of edits and refreshes: once refresh_constants() has run on a package and no
   chemical is edited afterwards, the array that Reaction.dH (package A) / Stream.Hf (the stream's package)
   read IS the chemicals' heats of formation, so C06_dH_mol etc. speak about the chemicals' current values *)
Theorem C06_refresh_propagates_A : forall ob s pre post,
  forallb (fun o => negb (is_edit o)) post = true -> syncedA (prun ob s (pre ++ PRefreshA :: post)).
Proof. exact refresh_propagates_A. Qed.
Print Assumptions C06_refresh_propagates_A.

Theorem C06_refresh_propagates_B : forall ob s pre post,
  forallb (fun o => negb (is_edit o)) post = true -> syncedB ob (prun ob s (pre ++ PRefreshB :: post)).
Proof. exact refresh_propagates_B. Qed.
Print Assumptions C06_refresh_propagates_B.

Theorem C06_compiled_synced : forall ob hf, syncedA (compiled ob hf) /\ syncedB ob (compiled ob hf).
Proof. exact compiled_synced. Qed.
Print Assumptions C06_compiled_synced.

(* ---------- equation-of-state arguments of the mixture ---------- *)
(* for ANY interleaving of enthalpy evaluations and temperature solves (returning or raising), starting
   with no arguments loaded: none are loaded afterwards, the dictionary was empty after every operation,
   and every enthalpy read outside a solve is the one of the state asked for (never a stale one) *)
Theorem C06_mix_args_cleared : forall fresh stale ops m, margs m = None ->
  margs (fst (fst (mrun fresh stale m ops))) = None /\
  snd (fst (mrun fresh stale m ops)) = reads_ref fresh ops /\
  Forall (fun b => b = true) (snd (mrun fresh stale m ops)).
Proof. exact mix_args_cleared. Qed.
Print Assumptions C06_mix_args_cleared.

Example C06_nonvacuous_refresh :
  let s := prun [1; 0]%nat (compiled [1; 0]%nat [-1024; 256]) [PSetHf 1 (-4096); PRefreshA; PRefreshB] in
  arrA s = [-1024; -4096] /\ arrB s = [-4096; -1024] /\
  arrA (prun [1; 0]%nat (compiled [1; 0]%nat [-1024; 256]) [PSetHf 1 (-4096)]) = [-1024; 256].
Proof. repeat split; reflexivity. Qed.

(* ---------- Stream.copy: every copy is its own (state, memo) pair ---------- *)
(* A program makes streams by copying (of originals, of copies), reads H or any other memoised property and
   changes T / flows / phase through any of them in any order.  Then: every stream ends in the state the
   memo-free heap ends in (no stream is changed through another; a copy starts in the state of its source),
   every H that was read is the enthalpy of the state of the stream it was read FROM, all memos stay consistent. *)
Theorem C06_copies_transparent : forall (hspec : nat -> vec -> Q -> Q),
  (forall ph z z' T T', T == T' -> veqb z z' = true -> hspec ph z T == hspec ph z' T') ->
  forall ops h, hinv hspec h ->
  map fst (fst (shrun hspec h ops)) = fst (shrun_ref hspec (map fst h) ops) /\
  Forall2 Qeq (snd (shrun hspec h ops)) (snd (shrun_ref hspec (map fst h) ops)) /\
  hinv hspec (fst (shrun hspec h ops)).
Proof. exact shrun_transparent. Qed.
Print Assumptions C06_copies_transparent.

(* what must NOT change: an operation through stream i leaves every other stream and its memo as they were *)
Theorem C06_copies_frame : forall hspec h i o j, j <> i ->
  nth_error (fst (shstep hspec h (HOn i o))) j = nth_error h j.
Proof. exact shstep_frame. Qed.
Print Assumptions C06_copies_frame.

(* copy(): all existing streams and memos as they were, the new stream has the state of its source and an
   EMPTY memo of its own, nothing is read *)
Theorem C06_copy_fresh_memo : forall hspec h i s c, nth_error h i = Some (s, c) ->
  (forall j, (j < length h)%nat -> nth_error (fst (shstep hspec h (HCopyS i))) j = nth_error h j) /\
  nth_error (fst (shstep hspec h (HCopyS i))) (length h) = Some (s, cache0) /\
  snd (shstep hspec h (HCopyS i)) = [].
Proof. exact shstep_copy. Qed.
Print Assumptions C06_copy_fresh_memo.

(* adiabatic_reaction on stream i of such a heap, for any reaction step and any heat input, after ANY such
   program starting from one stream: on a normal return Hnet of stream i, evaluated memo-free, is Hnet of the
   state the memo-free run left it in plus Q, its flows are those of the reaction step, and no other stream moved *)
Theorem C06_adiabatic_after_copies : forall (hspec : nat -> vec -> Q -> Q),
  (forall ph z z' T T', T == T' -> veqb z z' = true -> hspec ph z T == hspec ph z' T') ->
  forall (solveP : nat -> vec -> Q -> res Q) (hf : vec),
  (forall ph m h t, solveP ph m h = Ok t -> HfunC hspec ph m t == h) ->
  forall ops s0 is_stream callf i Qin h',
  hadiabatic hspec solveP hf is_stream callf (fst (shrun hspec [(s0, cache0)] ops)) i Qin = (None, h') ->
  exists s s', nth_error (fst (shrun_ref hspec [s0] ops)) i = Some s /\ nth_error (map fst h') i = Some s' /\
    HN hspec hf s' == HN hspec hf s + Qin /\ callf (pmol s) = (None, pmol s') /\
    (forall j, j <> i -> nth_error (map fst h') j = nth_error (fst (shrun_ref hspec [s0] ops)) j).
Proof. exact adiabatic_after_copies. Qed.
Print Assumptions C06_adiabatic_after_copies.

(* the same from any heap with consistent memos, memos included in the frame *)
Theorem C06_adiabatic_heap : forall (hspec : nat -> vec -> Q -> Q),
  (forall ph z z' T T', T == T' -> veqb z z' = true -> hspec ph z T == hspec ph z' T') ->
  forall (solveP : nat -> vec -> Q -> res Q) (hf : vec),
  (forall ph m h t, solveP ph m h = Ok t -> HfunC hspec ph m t == h) ->
  forall is_stream callf h i Qin h', hinv hspec h ->
  hadiabatic hspec solveP hf is_stream callf h i Qin = (None, h') ->
  exists s c s' c', nth_error h i = Some (s, c) /\ nth_error h' i = Some (s', c') /\
    HN hspec hf s' == HN hspec hf s + Qin /\ callf (pmol s) = (None, pmol s') /\
    (forall j, j <> i -> nth_error h' j = nth_error h j) /\ hinv hspec h'.
Proof. exact hadiabatic_lemma. Qed.
Print Assumptions C06_adiabatic_heap.

(* the isothermal call through stream i: its flows become those of the reaction step, T and phase stay, its memo
   is untouched (the key no longer matches), no other stream or memo moves; returning or raising *)
Theorem C06_isothermal_heap : forall callf h i e h',
  hisothermal callf h i = (e, h') -> (i < length h)%nat ->
  exists s c, nth_error h i = Some (s, c) /\
    nth_error h' i = Some (mkP (snd (callf (pmol s))) (pT s) (pph s), c) /\ e = fst (callf (pmol s)) /\
    (forall j, j <> i -> nth_error h' j = nth_error h j).
Proof. exact hisothermal_lemma. Qed.
Print Assumptions C06_isothermal_heap.

(* non-vacuity: the feed is read, copied, the copy heated and read, the feed read again, a second copy made and
   read: the reads are those of feed, heated copy, feed, feed *)
Example C06_nonvacuous_copies :
  let ops := [HOn 0 SReadH; HCopyS 0; HOn 1 (SSetT 400); HOn 1 SReadH; HOn 0 SReadH; HCopyS 0; HOn 2 SReadH] in
  let s0 := mkP [4; 64; 64; 64; 64; 64] 350 2 in
  snd (shrun (stub_hspec exCn) [(s0, cache0)] ops) = snd (shrun_ref (stub_hspec exCn) [s0] ops) /\
  length (fst (shrun (stub_hspec exCn) [(s0, cache0)] ops)) = 3%nat /\
  (exists a b, snd (shrun (stub_hspec exCn) [(s0, cache0)] ops) = [a; b; a; a] /\ ~ a == b).
Proof.
  split; [vm_compute; reflexivity|]. split; [vm_compute; reflexivity|].
  eexists. eexists. split; [vm_compute; reflexivity|]. intros H. vm_compute in H. discriminate.
Qed.

Example C06_nonvacuous_adiabatic_heap :
  exists h', hadiabatic (stub_hspec exCn) (stubSolveP exCn []) exHf true (call_stream exMW (Simple false (Single exR)))
               (fst (shrun (stub_hspec exCn) [(mkP [4; 64; 64; 64; 64; 64] 350 2, cache0)]
                          [HOn 0 SReadH; HCopyS 0; HOn 1 (SSetT 400); HOn 1 SReadH; HCopyS 0])) 2 1024 = (None, h')
             /\ length h' = 3%nat.
Proof. eexists. split; vm_compute; reflexivity. Qed.
