(* C17 — lemmas about the reaction-arithmetic model *)
From V Require Import Common.NumFacts C17.Model.

(* a reaction is normalised when the reactant's coefficient is -1 (what _rescale establishes) *)
Definition normalised (r : rxn) : Prop := nthq (st r) (ridx r) == -1.

Lemma nthq_react r m i : length (st r) = length m ->
  nthq (react r m) i == nthq m i + nthq m (ridx r) * X r * nthq (st r) i.
Proof.
  intros L. unfold react. rewrite nthq_vadd, nthq_vscale; [lra|].
  rewrite vscale_length. auto.
Qed.

Lemma react_length r m : length (st r) = length m -> length (react r m) = length m.
Proof. intros L. unfold react. apply vadd_length. rewrite vscale_length; auto. Qed.

Lemma rescale_spec r r' : rescale r = Ok r' ->
  ~ nthq (st r) (ridx r) == 0 /\
  st r' = vdivs (st r) (- nthq (st r) (ridx r)) /\ ridx r' = ridx r /\ X r' = X r
  /\ wt r' = wt r /\ phases r' = phases r.
Proof.
  unfold rescale. destruct (qzerob _) eqn:E; [discriminate|].
  intros H; inversion H; subst; clear H. apply qzerob_false in E. simpl.
  repeat split; auto. intros Z. apply E. rewrite Z. lra.
Qed.

Lemma rescale_normalised r r' : rescale r = Ok r' -> normalised r'.
Proof.
  intros H. destruct (rescale_spec _ _ H) as (NZ & S & R & _).
  unfold normalised. rewrite S, R, nthq_vdivs. field. lra.
Qed.

Lemma sdiv_spec v k v' : sdiv v k = Ok v' -> ~ k == 0 -> v' = vdivs v k.
Proof.
  unfold sdiv. destruct (qzerob k) eqn:E.
  - apply qzerob_true in E. intros _ N. contradiction.
  - intros H _. inversion H; auto.
Qed.

(* ---- value of a + b / a - b ---- *)
Lemma combine_spec sgn mws a b c :
  combine sgn mws a b = Ok c ->
  exists b', compat mws a b = Ok b' /\
    let s := vadd (vscale (X a) (st a)) (vscale (sgn * X b') (st b')) in
    sdiv s (- nthq s (ridx b')) = Ok (st c) /\ ridx c = ridx b' /\
    X c = X a + sgn * X b' /\ wt c = wt b' /\ phases c = phases b'.
Proof.
  unfold combine. destruct (compat mws a b) as [b'|e] eqn:C; simpl; [|discriminate].
  destruct (sdiv _ _) as [s'|e] eqn:S; simpl; [|discriminate].
  intros H; inversion H; subst; clear H. exists b'. simpl. repeat split; auto.
Qed.

Lemma phases_eqb_refl p : phases_eqb p p = true.
Proof. unfold phases_eqb. induction p as [|x l IH]; simpl; auto. rewrite Nat.eqb_refl; auto. Qed.

Lemma compat_spec mws a b b' : compat mws a b = Ok b' ->
  set_basis mws b (wt a) = Ok b' /\ ridx b' = ridx a /\ phases_eqb (phases a) (phases b') = true.
Proof.
  unfold compat. destruct (set_basis mws b (wt a)) as [x|e]; simpl; [|discriminate].
  destruct (phases_eqb _ _) eqn:P; simpl; [|discriminate].
  destruct (Nat.eqb _ _) eqn:R; simpl; [|discriminate].
  intros H; inversion H; subst. apply Nat.eqb_eq in R. auto.
Qed.

Lemma set_basis_normalised mws b w b' : normalised b -> set_basis mws b w = Ok b' -> normalised b'.
Proof.
  unfold set_basis. destruct (Bool.eqb w (wt b)).
  - intros N H; inversion H; subst; auto.
  - intros _. destruct (rescale _) as [r|e] eqn:R; simpl; [|discriminate].
    intros H; inversion H; subst. apply rescale_normalised in R.
    unfold normalised in *. simpl. exact R.
Qed.

Lemma set_basis_length mws b w b' : set_basis mws b w = Ok b' -> length (st b) = length mws ->
  length (st b') = length (st b).
Proof.
  unfold set_basis. destruct (Bool.eqb w (wt b)).
  - intros H; inversion H; auto.
  - destruct (rescale _) as [r|e] eqn:R; simpl; [|discriminate].
    intros H L; inversion H; subst. simpl.
    destruct (rescale_spec _ _ R) as (_ & S & _). rewrite S, vdivs_length. simpl.
    destruct w; [unfold vmul|]; apply map2_length; auto.
Qed.

(* pointwise stoichiometry and conversion of  a (+/-) b' , both normalised on the same reactant *)
Lemma combine_value sgn mws a b c b' :
  combine sgn mws a b = Ok c -> compat mws a b = Ok b' ->
  normalised a -> normalised b' -> length (st a) = length (st b') ->
  ~ X a + sgn * X b' == 0 ->
  ridx c = ridx a /\ X c == X a + sgn * X b' /\ length (st c) = length (st a) /\
  forall i, nthq (st c) i * (X a + sgn * X b') == X a * nthq (st a) i + sgn * X b' * nthq (st b') i.
Proof.
  intros C K Na Nb L NZ.
  destruct (combine_spec _ _ _ _ _ C) as (b2 & K2 & S & R & Xc & _).
  rewrite K in K2; inversion K2; subst b2; clear K2.
  destruct (compat_spec _ _ _ _ K) as (_ & Rb & _).
  set (s := vadd (vscale (X a) (st a)) (vscale (sgn * X b') (st b'))) in *.
  assert (Ls : length (vscale (X a) (st a)) = length (vscale (sgn * X b') (st b')))
    by (rewrite !vscale_length; auto).
  assert (Sr : nthq s (ridx b') == - (X a + sgn * X b')).
  { unfold s. rewrite nthq_vadd, !nthq_vscale by auto.
    unfold normalised in *. rewrite Rb at 1. rewrite Na, Nb. lra. }
  assert (D : ~ - nthq s (ridx b') == 0) by (rewrite Sr; lra).
  apply sdiv_spec in S; auto.
  repeat split.
  - congruence.
  - rewrite Xc. reflexivity.
  - rewrite S, vdivs_length. unfold s. rewrite vadd_length, vscale_length; auto.
  - intros i. rewrite S, nthq_vdivs. unfold s at 1. rewrite nthq_vadd, !nthq_vscale by auto.
    rewrite Sr. field. lra.
Qed.

(* a + b applied to a feed = a and b' in parallel on that feed *)
Lemma add_is_parallel_lemma mws a b c b' m :
  radd mws a b = Ok c -> has_reaction b = true -> compat mws a b = Ok b' ->
  normalised a -> normalised b' -> length (st a) = length m -> length (st b') = length m ->
  ~ X a + X b' == 0 ->
  veq (react c m) (react_parallel [a; b'] m).
Proof.
  intros A HR K Na Nb La Lb NZ. unfold radd in A. rewrite HR in A.
  assert (NZ' : ~ X a + 1 * X b' == 0) by (intros Z; apply NZ; lra).
  destruct (combine_value 1 mws a b c b' A K Na Nb ltac:(congruence) NZ') as (Rc & Xc & Lc & V).
  destruct (compat_spec _ _ _ _ K) as (_ & Rb & _).
  split.
  - rewrite react_length by congruence. unfold react_parallel; simpl.
    rewrite !vadd_length; rewrite ?vscale_length; auto.
    rewrite vadd_length; rewrite ?vscale_length; auto.
  - intros i. rewrite nthq_react by congruence. unfold react_parallel; simpl.
    rewrite !nthq_vadd, !nthq_vscale; rewrite ?vscale_length; auto.
    2:{ rewrite vadd_length; rewrite ?vscale_length; auto. }
    rewrite Rc, Rb, Xc. specialize (V i).
    transitivity (nthq m i + nthq m (ridx a) * (nthq (st c) i * (X a + 1 * X b'))); [lra|].
    rewrite V. lra.
Qed.

(* (a + b) - b has a's stoichiometry and conversion *)
Lemma add_sub_cancel_lemma mws a b c d b' :
  radd mws a b = Ok c -> rsub mws c b = Ok d -> has_reaction b = true ->
  compat mws a b = Ok b' -> normalised a -> normalised b' -> length (st a) = length (st b') ->
  ~ X a + X b' == 0 -> ~ X a == 0 ->
  ridx d = ridx a /\ X d == X a /\ length (st d) = length (st a) /\
  forall i, nthq (st d) i == nthq (st a) i.
Proof.
  intros A S HR K Na Nb L NZ NZa. unfold radd in A; unfold rsub in S. rewrite HR in *.
  assert (NZ' : ~ X a + 1 * X b' == 0) by (intros Z; apply NZ; lra).
  destruct (combine_value 1 mws a b c b' A K Na Nb L NZ') as (Rc & Xc & Lc & V).
  destruct (combine_spec _ _ _ _ _ A) as (b2 & K2 & _ & _ & _ & Wc & Pc).
  rewrite K in K2; inversion K2; subst b2; clear K2.
  destruct (compat_spec _ _ _ _ K) as (SB & Rb & Pb).
  (* compat of c with b gives the same b' : c has a's basis, phases and reactant *)
  assert (Kc : compat mws c b = Ok b').
  { unfold compat. assert (W : wt c = wt a).
    { rewrite Wc. unfold set_basis in SB. destruct (Bool.eqb (wt a) (wt b)) eqn:E.
      - inversion SB; subst. symmetry. apply Bool.eqb_prop; auto.
      - destruct (rescale _) as [r|e]; simpl in SB; [|discriminate]. inversion SB; subst; reflexivity. }
    rewrite W, SB; simpl. rewrite Pc.
    rewrite phases_eqb_refl; simpl. rewrite Rc, <- Rb, Nat.eqb_refl; simpl. reflexivity. }
  assert (Nc : normalised c).
  { unfold normalised. rewrite Rc.
    assert (Nb' : nthq (st b') (ridx a) == -1) by (rewrite <- Rb; exact Nb).
    pose proof (V (ridx a)) as Vr. unfold normalised in Na. rewrite Na, Nb' in Vr.
    apply (Qmult_inj_r _ _ (X a + 1 * X b') NZ'). rewrite Vr. ring. }
  assert (NZc : ~ X c + -1 * X b' == 0) by (rewrite Xc; lra).
  destruct (combine_value (-1) mws c b d b' S Kc Nc Nb ltac:(congruence) NZc) as (Rd & Xd & Ld & W).
  repeat split.
  - congruence.
  - rewrite Xd, Xc. lra.
  - congruence.
  - intros i. specialize (W i). specialize (V i).
    apply (Qmult_inj_r _ _ (X c + -1 * X b') NZc).
    rewrite W. rewrite Xc.
    transitivity (nthq (st c) i * (X a + 1 * X b') + -1 * X b' * nthq (st b') i); [ring|].
    rewrite V. ring.
Qed.

Lemma react_ext a d m : ridx d = ridx a -> X d == X a -> length (st d) = length (st a) ->
  length (st a) = length m -> (forall i, nthq (st d) i == nthq (st a) i) ->
  veq (react d m) (react a m).
Proof.
  intros R Xe L Lm V. split.
  - rewrite !react_length; congruence.
  - intros i. rewrite !nthq_react by congruence. rewrite R, Xe, V. reflexivity.
Qed.

(* k * a and a / k *)
Lemma scale_lemma a k m : length (st a) = length m ->
  forall i, nthq (react (rmul a k) m) i == nthq m i + nthq m (ridx a) * (X a * k) * nthq (st a) i.
Proof. intros L i. rewrite nthq_react by auto. simpl. reflexivity. Qed.

Lemma div_lemma a k a' : rdiv a k = Ok a' -> ~ k == 0 /\ X a' == X a / k /\ st a' = st a /\ ridx a' = ridx a.
Proof.
  unfold rdiv. destruct (qzerob k) eqn:E; [discriminate|]. apply qzerob_false in E.
  intros H; inversion H; subst; simpl. repeat split; auto. field. auto.
Qed.

(* ---- objects ---- *)
Lemma getr_some s i r : getr s i = Ok r -> nth_error s i = Some r.
Proof. unfold getr. destruct (nth_error s i); intros H; inversion H; auto. Qed.

Ltac binds :=
  repeat match goal with
  | H : bind ?r _ = Ok _ |- _ => let x := fresh "x" in let E := fresh "E" in
      destruct r as [x|?] eqn:E; simpl in H; [|discriminate]
  end.

Lemma step_binary_appends mws s o s' :
  inplace o = false -> step mws s o = Ok s' -> exists n, s' = s ++ [n].
Proof.
  intros I H. destruct o; simpl in I; try discriminate; simpl in H; binds;
    inversion H; eexists; reflexivity.
Qed.

Definition target (o : op) : option nat :=
  match o with
  | OIAdd i _ | OISub i _ | OIMul i _ | OIDiv i _ | OSetX i _ => Some i
  | _ => None
  end.

Lemma step_inplace_frame mws s o s' i :
  target o = Some i -> step mws s o = Ok s' ->
  length s' = length s /\ forall k, k <> i -> nth_error s' k = nth_error s k.
Proof.
  intros T H. destruct o; simpl in T; try discriminate; inversion T; subst;
    simpl in H; binds; inversion H; subst;
    (split; [apply upd_length | intros k0 N0; apply nth_error_upd_other; congruence]).
Qed.

Lemma step_preserves_untargeted mws s o s' k :
  step mws s o = Ok s' -> target o <> Some k -> (k < length s)%nat ->
  nth_error s' k = nth_error s k.
Proof.
  intros H T L. destruct (inplace o) eqn:I.
  - destruct o; simpl in I; try discriminate;
      (match type of H with step _ _ ?o0 = _ =>
         match eval simpl in (target o0) with Some ?i0 =>
           destruct (step_inplace_frame mws s o0 s' i0 eq_refl H) as (_ & F) end end;
       apply F; simpl in T; congruence).
  - destruct (step_binary_appends _ _ _ _ I H) as (n & ->). apply nth_error_app1; auto.
Qed.

Lemma step_length_mono mws s o s' : step mws s o = Ok s' -> (length s <= length s')%nat.
Proof.
  intros H. destruct (inplace o) eqn:I.
  - destruct o; simpl in I; try discriminate;
      (match type of H with step _ _ ?o0 = _ =>
         match eval simpl in (target o0) with Some ?i0 =>
           destruct (step_inplace_frame mws s o0 s' i0 eq_refl H) as (L & _) end end; lia).
  - destruct (step_binary_appends _ _ _ _ I H) as (n & ->). rewrite app_length; simpl; lia.
Qed.

(* every history: an object is changed only by an in-place operation aimed at it *)
Lemma run_preserves_untargeted mws ops : forall s k,
  (forall o, In o ops -> target o <> Some k) -> (k < length s)%nat ->
  nth_error (fst (run mws s ops)) k = nth_error s k.
Proof.
  induction ops as [|o t IH]; intros s k T L; simpl; auto.
  destruct (step mws s o) as [s'|e] eqn:S.
  - destruct (run mws s' t) as (f, oks) eqn:R. simpl.
    change f with (fst (f, oks)). rewrite <- R.
    rewrite IH.
    + eapply step_preserves_untargeted; eauto. apply T; left; auto.
    + intros o' I. apply T; right; auto.
    + pose proof (step_length_mono _ _ _ _ S). lia.
  - destruct (run mws s t) as (f, oks) eqn:R. simpl.
    change f with (fst (f, oks)). rewrite <- R. apply IH; auto.
    intros o' I. apply T; right; auto.
Qed.

(* in-place form stores exactly what the binary form returns *)
Lemma upd_app_same (s : store) i n : (i < length s)%nat ->
  nth_error (upd s i n) i = nth_error (s ++ [n]) (length s).
Proof.
  intros L. rewrite nth_error_app2, Nat.sub_diag by lia. simpl.
  apply nth_error_upd_same; auto.
Qed.

Lemma getr_lt s i r : getr s i = Ok r -> (i < length s)%nat.
Proof. intros H. apply getr_some in H. apply nth_error_Some. congruence. Qed.

Lemma inplace_eq_binary_add mws s i j s1 s2 :
  step mws s (OIAdd i j) = Ok s1 -> step mws s (OAdd i j) = Ok s2 ->
  nth_error s1 i = nth_error s2 (length s).
Proof.
  cbn [step]; intros H1 H2.
  destruct (getr s i) as [a|] eqn:Ei; cbn [bind] in *; try discriminate.
  destruct (getr s j) as [b|] eqn:Ej; cbn [bind] in *; try discriminate.
  destruct (radd mws a b) as [n|] eqn:Er; cbn [bind] in *; try discriminate.
  inversion H1; inversion H2; subst; apply upd_app_same; eapply getr_lt; eauto.
Qed.

Lemma inplace_eq_binary_sub mws s i j s1 s2 :
  step mws s (OISub i j) = Ok s1 -> step mws s (OSub i j) = Ok s2 ->
  nth_error s1 i = nth_error s2 (length s).
Proof.
  cbn [step]; intros H1 H2.
  destruct (getr s i) as [a|] eqn:Ei; cbn [bind] in *; try discriminate.
  destruct (getr s j) as [b|] eqn:Ej; cbn [bind] in *; try discriminate.
  destruct (rsub mws a b) as [n|] eqn:Er; cbn [bind] in *; try discriminate.
  inversion H1; inversion H2; subst; apply upd_app_same; eapply getr_lt; eauto.
Qed.

Lemma inplace_eq_binary_mul mws s i k s1 s2 :
  step mws s (OIMul i k) = Ok s1 -> step mws s (OMul i k) = Ok s2 ->
  nth_error s1 i = nth_error s2 (length s).
Proof.
  cbn [step]; intros H1 H2.
  destruct (getr s i) as [a|] eqn:Ei; cbn [bind] in *; try discriminate.
  inversion H1; inversion H2; subst; apply upd_app_same; eapply getr_lt; eauto.
Qed.

Lemma inplace_eq_binary_div mws s i k s1 s2 :
  step mws s (OIDiv i k) = Ok s1 -> step mws s (ODiv i k) = Ok s2 ->
  nth_error s1 i = nth_error s2 (length s).
Proof.
  cbn [step]; intros H1 H2.
  destruct (getr s i) as [a|] eqn:Ei; cbn [bind] in *; try discriminate.
  destruct (rdiv a k) as [n|] eqn:Er; cbn [bind] in *; try discriminate.
  inversion H1; inversion H2; subst; apply upd_app_same; eapply getr_lt; eauto.
Qed.

(* reaction sets share one conversion array with their items *)
Lemma item_set_shared_lemma s i x :
  (i < length (Xs s))%nat ->
  item_X (item_set_X s i x) i = x /\
  (forall j, j <> i -> item_X (item_set_X s i x) j = item_X s j) /\
  rows (item_set_X s i x) = rows s /\ ridxs (item_set_X s i x) = ridxs s.
Proof.
  intros L. unfold item_X, item_set_X; simpl. repeat split.
  - apply nth_upd_same; auto.
  - intros j N. apply nth_upd_other. congruence.
Qed.

Lemma set_item_shared_lemma s xs i w ph :
  X (item_of (set_set_Xs s xs) i w ph) = nthq xs i /\
  st (item_of (set_set_Xs s xs) i w ph) = st (item_of s i w ph).
Proof. split; reflexivity. Qed.

(* ---- handles onto a set's conversion array ---- *)
Lemma write_from_length ys : forall xs lo, length (write_from xs lo ys) = length xs.
Proof. induction ys as [|y t IH]; intros xs lo; simpl; auto. rewrite IH. apply upd_length. Qed.

Lemma write_from_outside ys : forall xs lo j, (j < lo \/ lo + length ys <= j)%nat ->
  nthq (write_from xs lo ys) j = nthq xs j.
Proof.
  induction ys as [|y t IH]; intros xs lo j H; simpl in *; auto.
  rewrite IH by lia. apply nth_upd_other. lia.
Qed.

Lemma write_from_inside ys : forall xs lo k, (k < length ys)%nat -> (lo + length ys <= length xs)%nat ->
  nthq (write_from xs lo ys) (lo + k) = nthq ys k.
Proof.
  induction ys as [|y t IH]; intros xs lo k Hk Hl; simpl in *; [lia|].
  destruct k as [|k].
  - rewrite Nat.add_0_r. rewrite write_from_outside by lia. unfold nthq at 2; simpl.
    apply nth_upd_same. lia.
  - replace (lo + S k)%nat with (S lo + k)%nat by lia. rewrite IH.
    + unfold nthq; reflexivity.
    + lia.
    + rewrite upd_length. lia.
Qed.

Lemma set_all_visible_lemma xs ys xs' :
  sstep xs (SSetAll ys) = Ok xs' -> length ys = length xs ->
  length xs' = length xs /\ forall i, (i < length xs)%nat -> hread xs' (HItem i) = [nthq ys i].
Proof.
  unfold sstep, broadcast. intros H L.
  assert (B : (match ys with [y] => Ok (repeat y (length xs)) | _ =>
              if Nat.eqb (length ys) (length xs) then Ok ys else Err EValue end) = Ok ys).
  { destruct ys as [|y [|y2 t]]; simpl in *.
    - rewrite <- L. reflexivity.
    - rewrite <- L. reflexivity.
    - rewrite <- L. simpl. rewrite Nat.eqb_refl. reflexivity. }
  rewrite B in H. simpl in H. inversion H; subst. split.
  - apply write_from_length.
  - intros i Hi. simpl. f_equal. change i with (0 + i)%nat at 1.
    apply write_from_inside; lia.
Qed.

Lemma item_set_visible_lemma xs i x xs' :
  sstep xs (SItemSet i x) = Ok xs' ->
  hread xs' HSet = upd xs i x /\ nthq xs' i = x /\ (forall j, j <> i -> nthq xs' j = nthq xs j)
  /\ length xs' = length xs.
Proof.
  unfold sstep. destruct (Nat.ltb i (length xs)) eqn:E; [|discriminate].
  apply Nat.ltb_lt in E. intros H; inversion H; subst. simpl. repeat split.
  - apply nth_upd_same; auto.
  - intros j N. apply nth_upd_other. congruence.
  - apply upd_length.
Qed.

(* a sub-set [lo, lo+len) sees a write through the parent, and the parent sees a write through it *)
Lemma sub_elem_visible_lemma xs lo len i x xs' :
  sstep xs (SSubElem lo len i x) = Ok xs' -> (lo + len <= length xs)%nat ->
  nthq xs' (lo + i) = x /\ (forall j, j <> (lo + i)%nat -> nthq xs' j = nthq xs j).
Proof.
  unfold sstep. destruct (Nat.ltb i len) eqn:E; [|discriminate]. apply Nat.ltb_lt in E.
  intros H L; inversion H; subst. split.
  - apply nth_upd_same. lia.
  - intros j N. apply nth_upd_other. congruence.
Qed.

(* in-place scaling of an ITEM changes that item's conversion only: its siblings in the set are spared *)
Lemma item_mul_spares_siblings_lemma xs i k xs' :
  sstep xs (SItemMul i k) = Ok xs' ->
  nthq xs' i = nthq xs i * k /\ (forall j, j <> i -> nthq xs' j = nthq xs j) /\ length xs' = length xs.
Proof.
  unfold sstep. destruct (Nat.ltb i (length xs)) eqn:E; [|discriminate].
  apply Nat.ltb_lt in E. intros H; inversion H; subst. repeat split.
  - apply nth_upd_same; auto.
  - intros j N. apply nth_upd_other. congruence.
  - apply upd_length.
Qed.

Lemma item_div_spares_siblings_lemma xs i k xs' :
  sstep xs (SItemDiv i k) = Ok xs' ->
  ~ k == 0 /\ nthq xs' i = nthq xs i * (1 / k) /\ (forall j, j <> i -> nthq xs' j = nthq xs j)
  /\ length xs' = length xs.
Proof.
  unfold sstep. destruct (qzerob k) eqn:Z; [discriminate|]. apply qzerob_false in Z.
  destruct (Nat.ltb i (length xs)) eqn:E; [|discriminate].
  apply Nat.ltb_lt in E. intros H; inversion H; subst. repeat split; auto.
  - apply nth_upd_same; auto.
  - intros j N. apply nth_upd_other. congruence.
  - apply upd_length.
Qed.
