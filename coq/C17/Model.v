(* C17 — executable model of thermosteam.reaction._reaction arithmetic.
   Source modelled: Reaction.{copy, _rescale, has_reaction, _math_compatible_reaction,
   __add__, __iadd__, __sub__, __isub__, __mul__, __imul__, __truediv__, __itruediv__,
   __neg__, backwards, _reaction, X setter}, set_reaction_basis, ReactionSet X sharing
   with ReactionItem, ParallelReaction._reaction.
   Phase-tagged stoichiometry (a 2-d SparseArray, M phases x N chemicals) is modelled
   flattened row-major: index (p, j) |-> p*N + j; [phases] keeps the phase labels so the
   compatibility test can compare them.  No proofs in this file. *)
From V Require Export Common.Num.

Record rxn := mkrxn {
  st  : vec;          (* _stoichiometry, flattened *)
  ridx : nat;         (* _reactant_index, flattened *)
  X   : Q;            (* _X *)
  wt  : bool;         (* _basis == 'wt' *)
  phases : list nat   (* _phases as small codes; [] = phase-less *)
}.

Definition set_st (r : rxn) (s : vec) := mkrxn s (ridx r) (X r) (wt r) (phases r).
Definition set_X (r : rxn) (x : Q) := mkrxn (st r) (ridx r) x (wt r) (phases r).
Definition set_ridx (r : rxn) (i : nat) := mkrxn (st r) i (X r) (wt r) (phases r).
Definition set_wt (r : rxn) (b : bool) := mkrxn (st r) (ridx r) (X r) b (phases r).

Definition any_nonzero (v : vec) : bool := existsb (fun x => negb (qzerob x)) v.

(* SparseVector / python float: dividing stored (non-zero) entries by 0.0 raises
   ZeroDivisionError; an all-zero vector has no stored entries and passes through. *)
Definition sdiv (v : vec) (k : Q) : res vec :=
  if qzerob k then (if any_nonzero v then Err EZeroDiv else Ok v)
  else Ok (vdivs v k).

(* Reaction._rescale *)
Definition rescale (r : rxn) : res rxn :=
  let scale := - nthq (st r) (ridx r) in
  if qzerob scale then Err ERuntime
  else Ok (set_st r (vdivs (st r) scale)).

(* Reaction.has_reaction *)
Definition has_reaction (r : rxn) : bool := negb (qzerob (X r)) && any_nonzero (st r).

(* set_reaction_basis on a (copied) reaction; mws is the molecular-weight vector tiled
   over the phases (same length as st). *)
Definition set_basis (mws : vec) (r : rxn) (b : bool) : res rxn :=
  if Bool.eqb b (wt r) then Ok r
  else
    let s := if b then vmul (st r) mws else map2 Qdiv (st r) mws in
    do r' <- rescale (set_st r s);
    Ok (set_wt r' b).

(* Reaction.copy(basis) *)
Definition copy_basis (mws : vec) (r : rxn) (b : option bool) : res rxn :=
  match b with None => Ok r | Some b => set_basis mws r b end.

Definition phases_eqb (a b : list nat) : bool := list_eqb Nat.eqb a b.

(* Reaction._math_compatible_reaction: the copy is to self's basis *)
Definition compat (mws : vec) (a b : rxn) : res rxn :=
  do b' <- set_basis mws b (wt a);
  if negb (phases_eqb (phases a) (phases b')) then Err EValue
  else if negb (Nat.eqb (ridx a) (ridx b')) then Err EValue
  else Ok b'.

Definition combine (sgn : Q) (mws : vec) (a b : rxn) : res rxn :=
  do b' <- compat mws a b;
  let s := vadd (vscale (X a) (st a)) (vscale (sgn * X b') (st b')) in
  do s' <- sdiv s (- nthq s (ridx b'));
  Ok (mkrxn s' (ridx b') (X a + sgn * X b') (wt b') (phases b')).

(* __add__ / __iadd__ / __sub__ / __isub__ as values (what the result object holds) *)
Definition radd (mws : vec) (a b : rxn) : res rxn :=
  if has_reaction b then combine 1 mws a b else Ok a.
Definition rsub (mws : vec) (a b : rxn) : res rxn :=
  if has_reaction b then combine (-1) mws a b else Ok a.

Definition rmul (a : rxn) (k : Q) : rxn := set_X a (X a * k).
Definition rdiv (a : rxn) (k : Q) : res rxn :=
  if qzerob k then Err EZeroDiv else Ok (set_X a (X a * (1 / k))).
Definition rneg (a : rxn) : rxn := set_X a (X a * (-1)).

(* indices of strictly positive entries (SparseVector.positive_index) *)
Fixpoint pos_idx_from (i : nat) (v : vec) : list nat :=
  match v with
  | [] => []
  | x :: t => if qltb 0 x then i :: pos_idx_from (S i) t else pos_idx_from (S i) t
  end.
Definition pos_idx (v : vec) := pos_idx_from 0 v.

(* Reaction.backwards(reactant, X) *)
Definition backwards (a : rxn) (r : option nat) (x : option Q) : res rxn :=
  do i <- match r with
          | Some i => Ok i
          | None => match pos_idx (st a) with [i] => Ok i | _ => Err EValue end
          end;
  let n := set_ridx a i in
  let n := match x with Some x => set_X n x | None => n end in
  rescale n.

(* Reaction._reaction on a flat material array *)
Definition react (r : rxn) (m : vec) : vec :=
  vadd m (vscale (nthq m (ridx r) * X r) (st r)).

(* ParallelReaction._reaction: every extent is computed from the feed *)
Fixpoint react_parallel_from (feed : vec) (rs : list rxn) (m : vec) : vec :=
  match rs with
  | [] => m
  | r :: t => react_parallel_from feed t (vadd m (vscale (nthq feed (ridx r) * X r) (st r)))
  end.
Definition react_parallel (rs : list rxn) (m : vec) : vec := react_parallel_from m rs m.

(* ---------- object store: which objects an operation creates or changes ---------- *)
Inductive op :=
| OCopy (i : nat) (b : option bool)
| OAdd (i j : nat) | OSub (i j : nat)
| OIAdd (i j : nat) | OISub (i j : nat)
| OMul (i : nat) (k : Q) | ODiv (i : nat) (k : Q)
| OIMul (i : nat) (k : Q) | OIDiv (i : nat) (k : Q)
| ONeg (i : nat)
| OBackwards (i : nat) (r : option nat) (x : option Q)
| OSetX (i : nat) (x : Q).

Definition store := list rxn.
Definition getr (s : store) (i : nat) : res rxn :=
  match nth_error s i with Some r => Ok r | None => Err EIndex end.

(* non-in-place operations append the new object; in-place ones overwrite slot i *)
Definition step (mws : vec) (s : store) (o : op) : res store :=
  match o with
  | OCopy i b => do a <- getr s i; do n <- copy_basis mws a b; Ok (s ++ [n])
  | OAdd i j => do a <- getr s i; do b <- getr s j; do n <- radd mws a b; Ok (s ++ [n])
  | OSub i j => do a <- getr s i; do b <- getr s j; do n <- rsub mws a b; Ok (s ++ [n])
  | OIAdd i j => do a <- getr s i; do b <- getr s j; do n <- radd mws a b; Ok (upd s i n)
  | OISub i j => do a <- getr s i; do b <- getr s j; do n <- rsub mws a b; Ok (upd s i n)
  | OMul i k => do a <- getr s i; Ok (s ++ [rmul a k])
  | ODiv i k => do a <- getr s i; do n <- rdiv a k; Ok (s ++ [n])
  | OIMul i k => do a <- getr s i; Ok (upd s i (rmul a k))
  | OIDiv i k => do a <- getr s i; do n <- rdiv a k; Ok (upd s i n)
  | ONeg i => do a <- getr s i; Ok (s ++ [rneg a])
  | OBackwards i r x => do a <- getr s i; do n <- backwards a r x; Ok (s ++ [n])
  | OSetX i x => do a <- getr s i; Ok (upd s i (set_X a x))
  end.

Definition inplace (o : op) : bool :=
  match o with OIAdd _ _ | OISub _ _ | OIMul _ _ | OIDiv _ _ | OSetX _ _ => true | _ => false end.

(* run a history; an operation that raises leaves the store as it was (the harness
   observes the same: every raise in the modelled methods happens before any write) *)
Fixpoint run (mws : vec) (s : store) (ops : list op) : store * list bool :=
  match ops with
  | [] => (s, [])
  | o :: t => match step mws s o with
              | Ok s' => let (f, oks) := run mws s' t in (f, true :: oks)
              | Err _ => let (f, oks) := run mws s t in (f, false :: oks)
              end
  end.

(* ---------- reaction sets: conversions live in one shared array ---------- *)
Record rset := mkrset { rows : list vec; ridxs : list nat; Xs : vec }.
Definition item_X (s : rset) (i : nat) : Q := nthq (Xs s) i.
Definition item_set_X (s : rset) (i : nat) (x : Q) : rset := mkrset (rows s) (ridxs s) (upd (Xs s) i x).
Definition set_set_Xs (s : rset) (xs : vec) : rset := mkrset (rows s) (ridxs s) xs.
Definition item_of (s : rset) (i : nat) (w : bool) (ph : list nat) : rxn :=
  mkrxn (nth i (rows s) []) (nth i (ridxs s) O) (item_X s i) w ph.

(* Handles onto one set's conversion array: the set itself, items rxnset[i], and slice
   sub-sets rxnset[lo:lo+len] (numpy basic-slice views).  ReactionSet.X's setter writes
   in place ([self._X[:] = X], numpy broadcasting: a scalar or length-1 list is repeated, any
   other wrong length raises ValueError), so every handle keeps seeing the one array. *)
Inductive handle := HSet | HItem (i : nat) | HSub (lo len : nat).
Inductive sop :=
| SItemSet (i : nat) (x : Q)              (* item.X = x *)
| SSetElem (i : nat) (x : Q)              (* rxnset.X[i] = x *)
| SSetAll (ys : vec)                      (* rxnset.X = ys  *)
| SSubAll (lo len : nat) (ys : vec)       (* rxnset[lo:lo+len].X = ys *)
| SSubElem (lo len i : nat) (x : Q)       (* rxnset[lo:lo+len].X[i] = x *)
| SItemMul (i : nat) (k : Q)              (* item *= k : Reaction.__imul__ goes through the item's X property *)
| SItemDiv (i : nat) (k : Q)              (* item /= k : __itruediv__ = __imul__(1./k) *)
| SReduce.                                (* rxnset.reduce(): returns a NEW set, the receiver is untouched *)

Fixpoint write_from (xs : vec) (lo : nat) (ys : vec) : vec :=
  match ys with
  | [] => xs
  | y :: t => write_from (upd xs lo y) (S lo) t
  end.

Definition broadcast (n : nat) (ys : vec) : res vec :=
  match ys with
  | [y] => Ok (repeat y n)
  | _ => if Nat.eqb (length ys) n then Ok ys else Err EValue
  end.

Definition sstep (xs : vec) (o : sop) : res vec :=
  match o with
  | SItemSet i x => if Nat.ltb i (length xs) then Ok (upd xs i x) else Err EIndex
  | SSetElem i x => if Nat.ltb i (length xs) then Ok (upd xs i x) else Err EIndex
  | SSetAll ys => do zs <- broadcast (length xs) ys; Ok (write_from xs 0 zs)
  | SSubAll lo len ys => do zs <- broadcast len ys; Ok (write_from xs lo zs)
  | SSubElem lo len i x => if Nat.ltb i len then Ok (upd xs (lo + i) x) else Err EIndex
  | SItemMul i k => if Nat.ltb i (length xs) then Ok (upd xs i (nthq xs i * k)) else Err EIndex
  | SReduce => Ok xs
  | SItemDiv i k => if qzerob k then Err EZeroDiv
                    else if Nat.ltb i (length xs) then Ok (upd xs i (nthq xs i * (1 / k))) else Err EIndex
  end.

Definition hread (xs : vec) (h : handle) : vec :=
  match h with
  | HSet => xs
  | HItem i => [nthq xs i]
  | HSub lo len => firstn len (skipn lo xs)
  end.

Fixpoint srun (xs : vec) (ops : list sop) : vec * list bool :=
  match ops with
  | [] => (xs, [])
  | o :: t => match sstep xs o with
              | Ok xs' => let (f, oks) := srun xs' t in (f, true :: oks)
              | Err _ => let (f, oks) := srun xs t in (f, false :: oks)
              end
  end.

Definition srun_eqb (xs : vec) (ops : list sop) (hs : list handle)
           (expect : list vec) (oks : list bool) : bool :=
  let (f, k) := srun xs ops in
  list_eqb vapproxb (map (hread f) hs) expect && list_eqb Bool.eqb k oks.


(* ---------- ReactionSet.reduce ---------- *)
(* rxn = first.copy(); for i in rest: rxn += i     (one reactant group) *)
Fixpoint fold_add (mws : vec) (acc : rxn) (rs : list rxn) : res rxn :=
  match rs with
  | [] => Ok acc
  | b :: t => match radd mws acc b with Ok c => fold_add mws c t | Err e => Err e end
  end.

(* groups are (first, rest) pairs; the reduced set is the list of folded reactions *)
Fixpoint reduce_groups (mws : vec) (gs : list (rxn * list rxn)) : res (list rxn) :=
  match gs with
  | [] => Ok []
  | (a, rs) :: t =>
      match fold_add mws a rs with
      | Err e => Err e
      | Ok c => match reduce_groups mws t with Ok cs => Ok (c :: cs) | Err e => Err e end
      end
  end.

Fixpoint members (gs : list (rxn * list rxn)) : list rxn :=
  match gs with [] => [] | (a, rs) :: t => (a :: rs) ++ members t end.

(* the set's members with the conversions the set holds now *)
Fixpoint set_Xs (rs : list rxn) (xs : vec) : list rxn :=
  match rs, xs with
  | r :: rt, x :: xt => set_X r x :: set_Xs rt xt
  | _, _ => []
  end.

(* groups given as index lists into the set (first index: the member that is copied) *)
Definition pick_list (rs : list rxn) (g : list nat) : list rxn :=
  flat_map (fun j => match nth_error rs j with Some r => [r] | None => [] end) g.
Definition pick (rs : list rxn) (g : list nat) : list (rxn * list rxn) :=
  match pick_list rs g with [] => [] | a :: t => [(a, t)] end.
Definition reduce_sel (mws : vec) (rs : list rxn) (gs : list (list nat)) : res (list rxn) :=
  reduce_groups mws (flat_map (pick rs) gs).

(* ---------- comparison helpers for the correspondence files ---------- *)
Definition rxn_eqb (a b : rxn) : bool :=
  vapproxb (st a) (st b) && Nat.eqb (ridx a) (ridx b) && qapproxb (X a) (X b)
  && Bool.eqb (wt a) (wt b) && phases_eqb (phases a) (phases b).
Definition store_eqb (a b : store) : bool := list_eqb rxn_eqb a b.
Definition run_eqb (mws : vec) (s : store) (ops : list op)
           (expect : store) (oks : list bool) (feed : vec) (reacted : list vec) : bool :=
  let (f, k) := run mws s ops in
  store_eqb f expect && list_eqb Bool.eqb k oks
  && list_eqb vapproxb (map (fun r => react r feed) f) reacted.

(* conversion (change of the feed) of a parallel set whose conversions are [xs] *)
Fixpoint set_conv (rs : list rxn) (xs : vec) (feed acc : vec) : vec :=
  match rs, xs with
  | r :: rt, x :: xt => set_conv rt xt feed (vadd acc (vscale (nthq feed (ridx r) * x) (st r)))
  | _, _ => acc
  end.
Definition set_acts_eqb (rs : list rxn) (xs : vec) (feed : vec) (expect : vec) : bool :=
  vapproxb (set_conv rs xs feed (vzero (length feed))) expect.

(* reduce(): the implementation's reduced set against the model's, for the grouping the implementation used *)
Definition reduce_eqb (mws : vec) (rs : list rxn) (xs : vec) (gs : list (list nat)) (expect : list rxn) : bool :=
  match reduce_sel mws (set_Xs rs xs) gs with
  | Ok cs => store_eqb cs expect
  | Err _ => false
  end.
