(* C17 — property theorems only.  Each is closed by [exact <lemma>] and followed by
   Print Assumptions. *)
From Coq Require Import Permutation.
From V Require Import Common.NumFacts C17.Model C17.Proofs C17.ProofsDeep.

(* a + b applied to any feed = a and b (converted to a's basis) in parallel on that feed *)
Theorem C17_add_is_parallel : forall mws a b c b' m,
  radd mws a b = Ok c -> has_reaction b = true -> compat mws a b = Ok b' ->
  normalised a -> normalised b' -> length (st a) = length m -> length (st b') = length m ->
  ~ X a + X b' == 0 ->
  veq (react c m) (react_parallel [a; b'] m).
Proof. exact add_is_parallel_lemma. Qed.
Print Assumptions C17_add_is_parallel.

(* (a + b) - b is a: same reactant, conversion and stoichiometry *)
Theorem C17_add_sub_cancel : forall mws a b c d b',
  radd mws a b = Ok c -> rsub mws c b = Ok d -> has_reaction b = true ->
  compat mws a b = Ok b' -> normalised a -> normalised b' -> length (st a) = length (st b') ->
  ~ X a + X b' == 0 -> ~ X a == 0 ->
  ridx d = ridx a /\ X d == X a /\ length (st d) = length (st a) /\
  forall i, nthq (st d) i == nthq (st a) i.
Proof. exact add_sub_cancel_lemma. Qed.
Print Assumptions C17_add_sub_cancel.

(* ... hence acts like a on every feed *)
Theorem C17_add_sub_acts_like_a : forall mws a b c d b' m,
  radd mws a b = Ok c -> rsub mws c b = Ok d -> has_reaction b = true ->
  compat mws a b = Ok b' -> normalised a -> normalised b' -> length (st a) = length (st b') ->
  ~ X a + X b' == 0 -> ~ X a == 0 -> length (st a) = length m ->
  veq (react d m) (react a m).
Proof.
  intros mws a b c d b' m A S HR K Na Nb L NZ NZa Lm.
  destruct (add_sub_cancel_lemma mws a b c d b' A S HR K Na Nb L NZ NZa) as (R & Xe & Ld & V).
  exact (react_ext a d m R Xe Ld Lm V).
Qed.
Print Assumptions C17_add_sub_acts_like_a.

(* k*a acts like a with conversion X*k; a/k has conversion X/k and is rejected for k = 0 *)
Theorem C17_scale_mul : forall a k m, length (st a) = length m ->
  forall i, nthq (react (rmul a k) m) i == nthq m i + nthq m (ridx a) * (X a * k) * nthq (st a) i.
Proof. exact scale_lemma. Qed.
Print Assumptions C17_scale_mul.

Theorem C17_scale_div : forall a k a', rdiv a k = Ok a' ->
  ~ k == 0 /\ X a' == X a / k /\ st a' = st a /\ ridx a' = ridx a.
Proof. exact div_lemma. Qed.
Print Assumptions C17_scale_div.

(* each in-place form leaves in the target exactly the reaction the binary form returns *)
Theorem C17_inplace_eq_binary_add : forall mws s i j s1 s2,
  step mws s (OIAdd i j) = Ok s1 -> step mws s (OAdd i j) = Ok s2 ->
  nth_error s1 i = nth_error s2 (length s).
Proof. exact inplace_eq_binary_add. Qed.
Print Assumptions C17_inplace_eq_binary_add.
Theorem C17_inplace_eq_binary_sub : forall mws s i j s1 s2,
  step mws s (OISub i j) = Ok s1 -> step mws s (OSub i j) = Ok s2 ->
  nth_error s1 i = nth_error s2 (length s).
Proof. exact inplace_eq_binary_sub. Qed.
Print Assumptions C17_inplace_eq_binary_sub.
Theorem C17_inplace_eq_binary_mul : forall mws s i k s1 s2,
  step mws s (OIMul i k) = Ok s1 -> step mws s (OMul i k) = Ok s2 ->
  nth_error s1 i = nth_error s2 (length s).
Proof. exact inplace_eq_binary_mul. Qed.
Print Assumptions C17_inplace_eq_binary_mul.
Theorem C17_inplace_eq_binary_div : forall mws s i k s1 s2,
  step mws s (OIDiv i k) = Ok s1 -> step mws s (ODiv i k) = Ok s2 ->
  nth_error s1 i = nth_error s2 (length s).
Proof. exact inplace_eq_binary_div. Qed.
Print Assumptions C17_inplace_eq_binary_div.

(* copy / negate / reverse / combine / re-base return a new object and spare every operand *)
Theorem C17_operands_unchanged : forall mws s o s',
  inplace o = false -> step mws s o = Ok s' -> exists n, s' = s ++ [n].
Proof. exact step_binary_appends. Qed.
Print Assumptions C17_operands_unchanged.

(* in-place forms change only their target *)
Theorem C17_inplace_frame : forall mws s o s' i,
  target o = Some i -> step mws s o = Ok s' ->
  length s' = length s /\ forall k, k <> i -> nth_error s' k = nth_error s k.
Proof. exact step_inplace_frame. Qed.
Print Assumptions C17_inplace_frame.

(* for every history: an object changes only through an in-place operation aimed at it *)
Theorem C17_history_operands_unchanged : forall mws ops s k,
  (forall o, In o ops -> target o <> Some k) -> (k < length s)%nat ->
  nth_error (fst (run mws s ops)) k = nth_error s k.
Proof. exact run_preserves_untargeted. Qed.
Print Assumptions C17_history_operands_unchanged.

(* a set and its items share the conversions *)
Theorem C17_item_set_shared : forall s i x, (i < length (Xs s))%nat ->
  item_X (item_set_X s i x) i = x /\
  (forall j, j <> i -> item_X (item_set_X s i x) j = item_X s j) /\
  rows (item_set_X s i x) = rows s /\ ridxs (item_set_X s i x) = ridxs s.
Proof. exact item_set_shared_lemma. Qed.
Print Assumptions C17_item_set_shared.
Theorem C17_set_item_shared : forall s xs i w ph,
  X (item_of (set_set_Xs s xs) i w ph) = nthq xs i /\
  st (item_of (set_set_Xs s xs) i w ph) = st (item_of s i w ph).
Proof. exact set_item_shared_lemma. Qed.
Print Assumptions C17_set_item_shared.

(* wholesale assignment rxnset.X = ys reaches every item obtained earlier; an item write reaches the set;
   writes through a slice sub-set reach the parent (all handles read one array) *)
Theorem C17_set_all_visible_in_items : forall xs ys xs',
  sstep xs (SSetAll ys) = Ok xs' -> length ys = length xs ->
  length xs' = length xs /\ forall i, (i < length xs)%nat -> hread xs' (HItem i) = [nthq ys i].
Proof. exact set_all_visible_lemma. Qed.
Print Assumptions C17_set_all_visible_in_items.
Theorem C17_item_write_visible_in_set : forall xs i x xs',
  sstep xs (SItemSet i x) = Ok xs' ->
  hread xs' HSet = upd xs i x /\ nthq xs' i = x /\ (forall j, j <> i -> nthq xs' j = nthq xs j)
  /\ length xs' = length xs.
Proof. exact item_set_visible_lemma. Qed.
Print Assumptions C17_item_write_visible_in_set.
Theorem C17_subset_write_visible_in_set : forall xs lo len i x xs',
  sstep xs (SSubElem lo len i x) = Ok xs' -> (lo + len <= length xs)%nat ->
  nthq xs' (lo + i) = x /\ (forall j, j <> (lo + i)%nat -> nthq xs' j = nthq xs j).
Proof. exact sub_elem_visible_lemma. Qed.
Print Assumptions C17_subset_write_visible_in_set.

(* item *= k and item /= k change that item's conversion only; every sibling of the set is spared *)
Theorem C17_item_inplace_scale_spares_siblings : forall xs i k xs',
  sstep xs (SItemMul i k) = Ok xs' ->
  nthq xs' i = nthq xs i * k /\ (forall j, j <> i -> nthq xs' j = nthq xs j) /\ length xs' = length xs.
Proof. exact item_mul_spares_siblings_lemma. Qed.
Print Assumptions C17_item_inplace_scale_spares_siblings.
Theorem C17_item_inplace_div_spares_siblings : forall xs i k xs',
  sstep xs (SItemDiv i k) = Ok xs' ->
  ~ k == 0 /\ nthq xs' i = nthq xs i * (1 / k) /\ (forall j, j <> i -> nthq xs' j = nthq xs j)
  /\ length xs' = length xs.
Proof. exact item_div_spares_siblings_lemma. Qed.
Print Assumptions C17_item_inplace_div_spares_siblings.

(* reduce() combines members with a common reactant into a NEW set and leaves the receiver's conversions alone *)
Theorem C17_reduce_spares_receiver : forall xs, sstep xs SReduce = Ok xs.
Proof. reflexivity. Qed.
Print Assumptions C17_reduce_spares_receiver.

(* reduce(), one reactant group: the member it builds (first.copy(), then += every other member) acts on every feed like
   the members it was folded from, whenever no partial sum of conversions cancels (the 0/0 case of the source) *)
Theorem C17_reduce_group_acts_like_members : forall mws feed acc rs c,
  fold_add mws acc rs = Ok c -> normalised acc -> length (st acc) = length feed ->
  group_ok (length feed) acc (X acc) rs ->
  veq (react c feed) (react_parallel (acc :: rs) feed).
Proof. exact reduce_group_acts_lemma. Qed.
Print Assumptions C17_reduce_group_acts_like_members.

(* reduce(), whole set: however the set orders its members, the reduced ParallelReaction acts like the set *)
Theorem C17_reduce_acts_like_set : forall mws feed set gs cs,
  Permutation set (members gs) -> reduce_groups mws gs = Ok cs -> groups_ok (length feed) gs ->
  veq (react_parallel cs feed) (react_parallel set feed).
Proof. exact reduce_acts_like_set_lemma. Qed.
Print Assumptions C17_reduce_acts_like_set.

(* ... and folding such a group never raises *)
Theorem C17_reduce_group_total : forall mws n rs acc,
  normalised acc -> length (st acc) = n -> group_ok n acc (X acc) rs ->
  exists c, fold_add mws acc rs = Ok c.
Proof. exact (fun mws n => fold_add_total mws n). Qed.
Print Assumptions C17_reduce_group_total.

(* non-vacuity: the hypotheses of the algebraic theorems are met by a concrete pair *)
Definition exA := mkrxn [-1; 1#2; 0; 0] 0 (1#2) false [].
Definition exB := mkrxn [-1; 0; 2; 0] 0 (1#4) false [].
Example C17_nonvacuous :
  exists c d, radd [16;32;8;4] exA exB = Ok c /\ rsub [16;32;8;4] c exB = Ok d /\
    has_reaction exB = true /\ compat [16;32;8;4] exA exB = Ok exB /\
    normalised exA /\ normalised exB /\ ~ X exA + X exB == 0 /\ ~ X exA == 0.
Proof.
  eexists; eexists. split; [vm_compute; reflexivity|]. split; [vm_compute; reflexivity|].
  repeat split; try (vm_compute; reflexivity); unfold normalised; vm_compute; congruence.
Qed.

(* non-vacuity of the reduce theorems: a set of three members, two sharing the reactant, listed in another order *)
Definition exC := mkrxn [0; -1; 0; 3] 1 (1#8) false [].
Example C17_reduce_nonvacuous :
  groups_ok 4 [(exA, [exB]); (exC, [])] /\
  Permutation [exA; exC; exB] (members [(exA, [exB]); (exC, [])]) /\
  exists cs, reduce_groups [16;32;8;4] [(exA, [exB]); (exC, [])] = Ok cs /\ length cs = 2%nat.
Proof.
  split; [|split].
  - simpl. unfold same_kind, normalised. repeat split; try reflexivity; try (vm_compute; congruence).
  - simpl. apply perm_skip. apply perm_swap.
  - eexists. split; [vm_compute; reflexivity|reflexivity].
Qed.
