(* C17 deepening: ParallelReaction.reduce() — the reactions that share a reactant are folded with `+=`;
   the reduced set acts on every feed like the set it was made from. *)
From Coq Require Import QArith List Bool Lia Lqa Permutation.
From V Require Import Common.Num Common.NumFacts C17.Model C17.Proofs.
Import ListNotations.
Open Scope Q_scope.

(* members of one group of a ParallelReaction: same basis, phases and reactant *)
Definition same_kind (a b : rxn) : Prop := wt b = wt a /\ phases b = phases a /\ ridx b = ridx a.

(* the group can be folded without meeting the 0/0 case: every member reacts, is normalised, and no
   partial sum of conversions cancels (x is the conversion accumulated so far) *)
Fixpoint group_ok (n : nat) (a : rxn) (x : Q) (rs : list rxn) : Prop :=
  match rs with
  | [] => True
  | b :: t => same_kind a b /\ normalised b /\ has_reaction b = true /\ length (st b) = n /\
              ~ x + X b == 0 /\ group_ok n a (x + X b) t
  end.

(* extent of a list of parallel reactions on a feed, component i *)
Fixpoint ext (feed : vec) (rs : list rxn) (i : nat) : Q :=
  match rs with
  | [] => 0
  | r :: t => nthq feed (ridx r) * X r * nthq (st r) i + ext feed t i
  end.

Definition lens (n : nat) (rs : list rxn) : Prop := forall r, In r rs -> length (st r) = n.

Lemma rpf_length feed rs m : lens (length m) rs -> length (react_parallel_from feed rs m) = length m.
Proof.
  revert m. induction rs as [|r t IH]; intros m L; simpl; auto.
  assert (Lr : length (st r) = length m) by (apply L; left; auto).
  rewrite IH.
  - apply vadd_length. rewrite vscale_length; auto.
  - rewrite vadd_length by (rewrite vscale_length; auto).
    intros r' I. apply L. right; auto.
Qed.

Lemma rpf_nth feed rs m i : lens (length m) rs ->
  nthq (react_parallel_from feed rs m) i == nthq m i + ext feed rs i.
Proof.
  revert m. induction rs as [|r t IH]; intros m L; simpl.
  - lra.
  - assert (Lr : length (st r) = length m) by (apply L; left; auto).
    rewrite IH.
    + rewrite nthq_vadd by (rewrite vscale_length; auto). rewrite nthq_vscale. lra.
    + rewrite vadd_length by (rewrite vscale_length; auto).
      intros r' I. apply L. right; auto.
Qed.

Lemma ext_app feed a b i : ext feed (a ++ b) i == ext feed a i + ext feed b i.
Proof. induction a as [|r t IH]; simpl; [lra | rewrite IH; lra]. Qed.

Lemma ext_perm feed a b i : Permutation a b -> ext feed a i == ext feed b i.
Proof.
  intros P. induction P; simpl.
  - lra.
  - rewrite IHP. lra.
  - lra.
  - rewrite IHP1, IHP2. lra.
Qed.

Lemma compat_same mws a b : same_kind a b -> compat mws a b = Ok b.
Proof.
  intros (W & P & R). unfold compat, set_basis. rewrite W, Bool.eqb_reflx. simpl.
  rewrite P, phases_eqb_refl. simpl. rewrite R, Nat.eqb_refl. simpl. reflexivity.
Qed.

Lemma group_ok_ext n a x y rs : x == y -> group_ok n a x rs -> group_ok n a y rs.
Proof.
  revert x y. induction rs as [|b t IH]; intros x y E G; simpl in *; auto.
  destruct G as (K & Nb & HR & L & NZ & G).
  split; [exact K|]. split; [exact Nb|]. split; [exact HR|]. split; [exact L|]. split.
  - intros Z; apply NZ; lra.
  - apply (IH (x + X b)); auto. lra.
Qed.

Lemma group_ok_kind n a a' x rs :
  wt a' = wt a -> phases a' = phases a -> ridx a' = ridx a ->
  group_ok n a x rs -> group_ok n a' x rs.
Proof.
  intros W P R. revert x. induction rs as [|b t IH]; intros x G; simpl in *; auto.
  destruct G as ((Wb & Pb & Rb) & Nb & HR & L & NZ & G). repeat split; auto; congruence.
Qed.

(* one `+=` step: value facts about the accumulated reaction *)
Lemma radd_same_facts mws a b c :
  radd mws a b = Ok c -> same_kind a b -> has_reaction b = true ->
  normalised a -> normalised b -> length (st a) = length (st b) -> ~ X a + X b == 0 ->
  wt c = wt a /\ phases c = phases a /\ ridx c = ridx a /\ X c == X a + X b /\
  length (st c) = length (st a) /\ normalised c /\
  forall i, nthq (st c) i * (X a + X b) == X a * nthq (st a) i + X b * nthq (st b) i.
Proof.
  intros A K HR Na Nb L NZ.
  pose proof (compat_same mws a b K) as C.
  destruct K as (W & P & R).
  assert (NZ' : ~ X a + 1 * X b == 0) by (intros Z; apply NZ; lra).
  assert (A' := A). unfold radd in A'. rewrite HR in A'.
  destruct (combine_value 1 mws a b c b A' C Na Nb L NZ') as (Rc & Xc & Lc & V).
  unfold combine in A'. rewrite C in A'. simpl in A'.
  destruct (sdiv _ _) as [s'|e]; simpl in A'; [|discriminate].
  inversion A'; subst c; simpl in *.
  split; [exact W|]. split; [exact P|]. split; [exact R|]. split; [lra|]. split; [exact Lc|]. split.
  - unfold normalised; simpl. rewrite R.
    assert (Nb' : nthq (st b) (ridx a) == -1) by (rewrite <- R; exact Nb).
    pose proof (V (ridx a)) as Vr. unfold normalised in Na. rewrite Na, Nb' in Vr.
    apply (Qmult_inj_r _ _ (X a + 1 * X b) NZ'). rewrite Vr. ring.
  - intros i. specialize (V i).
    transitivity (nthq s' i * (X a + 1 * X b)); [ring|]. rewrite V. ring.
Qed.

(* the folded reaction has the extent of the whole group, on every feed *)
Lemma fold_add_ext mws feed : forall rs acc c,
  fold_add mws acc rs = Ok c -> normalised acc -> length (st acc) = length feed ->
  group_ok (length feed) acc (X acc) rs ->
  wt c = wt acc /\ phases c = phases acc /\ ridx c = ridx acc /\ length (st c) = length feed /\
  normalised c /\ forall i, ext feed [c] i == ext feed (acc :: rs) i.
Proof.
  induction rs as [|b t IH]; intros acc c F Na La G; simpl in F.
  - inversion F; subst c. repeat split; auto; try (intros i; simpl; lra).
  - destruct (radd mws acc b) as [c1|e] eqn:A; [|discriminate].
    simpl in G. destruct G as (K & Nb & HR & Lb & NZ & G).
    destruct (radd_same_facts mws acc b c1 A K HR Na Nb ltac:(congruence) NZ)
      as (W1 & P1 & R1 & X1 & L1 & N1 & V1).
    assert (G1 : group_ok (length feed) c1 (X c1) t).
    { apply group_ok_kind with (a := acc); auto.
      apply group_ok_ext with (x := X acc + X b); auto. rewrite X1. reflexivity. }
    destruct (IH c1 c F N1 ltac:(congruence) G1) as (W & P & R & L & N & E).
    repeat split; try congruence; auto.
    intros i. rewrite E. simpl.
    destruct K as (_ & _ & Rb). rewrite R1, Rb, X1.
    specialize (V1 i).
    transitivity (nthq feed (ridx acc) * (nthq (st c1) i * (X acc + X b)) + (ext feed t i + 0)); [ring|].
    rewrite V1. ring.
Qed.

(* --- one group: reduce()'s member for a reactant acts like the members it was folded from --- *)
Lemma reduce_group_acts_lemma mws feed acc rs c :
  fold_add mws acc rs = Ok c -> normalised acc -> length (st acc) = length feed ->
  group_ok (length feed) acc (X acc) rs ->
  veq (react c feed) (react_parallel (acc :: rs) feed).
Proof.
  intros F Na La G.
  destruct (fold_add_ext mws feed rs acc c F Na La G) as (_ & _ & _ & L & _ & E).
  assert (LS : lens (length feed) (acc :: rs)).
  { intros r [I|I]; [subst; auto|].
    clear F E. revert I G. generalize (X acc). induction rs as [|b t IH]; intros x I G; [destruct I|].
    simpl in G. destruct G as (_ & _ & _ & Lb & _ & G). destruct I as [I|I]; [subst; auto|].
    apply (IH (x + X b)); auto. }
  split.
  - rewrite react_length by auto. unfold react_parallel. rewrite rpf_length; auto.
  - intros i. rewrite nthq_react by auto. unfold react_parallel. rewrite rpf_nth by auto.
    specialize (E i). simpl in E. simpl. lra.
Qed.

(* --- the whole set: groups are (first, rest) pairs; the reduced set is the list of folded reactions --- *)
Fixpoint groups_ok (n : nat) (gs : list (rxn * list rxn)) : Prop :=
  match gs with
  | [] => True
  | (a, rs) :: t => normalised a /\ length (st a) = n /\ group_ok n a (X a) rs /\ groups_ok n t
  end.

Lemma members_lens n gs : groups_ok n gs -> lens n (members gs).
Proof.
  induction gs as [|[a rs] t IH]; simpl; intros G r I; [destruct I|].
  destruct G as (_ & La & Ga & Gt).
  destruct I as [I|I]; [subst; auto|].
  apply in_app_or in I. destruct I as [I|I]; [|apply IH; auto].
  clear IH Gt. revert I Ga. generalize (X a). induction rs as [|b t' IH]; intros x I G; [destruct I|].
  simpl in G. destruct G as (_ & _ & _ & Lb & _ & G). destruct I as [I|I]; [subst; auto|].
  apply (IH (x + X b)); auto.
Qed.

Lemma reduce_groups_ext mws feed : forall gs cs,
  reduce_groups mws gs = Ok cs -> groups_ok (length feed) gs ->
  lens (length feed) cs /\ forall i, ext feed cs i == ext feed (members gs) i.
Proof.
  induction gs as [|[a rs] t IH]; intros cs R G; simpl in R.
  - inversion R; subst. split; [intros r []|intros i; simpl; lra].
  - destruct (fold_add mws a rs) as [c|e] eqn:F; [|discriminate].
    destruct (reduce_groups mws t) as [cs'|e] eqn:R'; [|discriminate].
    inversion R; subst cs. simpl in G. destruct G as (Na & La & Ga & Gt).
    destruct (fold_add_ext mws feed rs a c F Na La Ga) as (_ & _ & _ & Lc & _ & E).
    destruct (IH cs' eq_refl Gt) as (Ls & Es).
    split.
    + intros r [I|I]; [subst; auto|apply Ls; auto].
    + intros i. change (members ((a, rs) :: t)) with ((a :: rs) ++ members t).
      rewrite (ext_app feed (a :: rs) (members t) i). specialize (E i). specialize (Es i). simpl in *. lra.
Qed.

(* reduce(): whatever the order in which the set lists its members, the reduced set acts like the set *)
Lemma reduce_acts_like_set_lemma mws feed set gs cs :
  Permutation set (members gs) -> reduce_groups mws gs = Ok cs -> groups_ok (length feed) gs ->
  veq (react_parallel cs feed) (react_parallel set feed).
Proof.
  intros P R G.
  destruct (reduce_groups_ext mws feed gs cs R G) as (Ls & E).
  pose proof (members_lens _ _ G) as Lm.
  assert (Lset : lens (length feed) set).
  { intros r I. apply Lm. eapply Permutation_in; eauto. }
  split.
  - unfold react_parallel. rewrite !rpf_length; auto.
  - intros i. unfold react_parallel. rewrite !rpf_nth by auto.
    rewrite E. rewrite (ext_perm feed set (members gs) i P). reflexivity.
Qed.

(* reduce() never raises on such a set *)
Lemma fold_add_total mws n : forall rs acc,
  normalised acc -> length (st acc) = n -> group_ok n acc (X acc) rs ->
  exists c, fold_add mws acc rs = Ok c.
Proof.
  induction rs as [|b t IH]; intros acc Na La G; simpl; [eauto|].
  simpl in G. destruct G as (K & Nb & HR & Lb & NZ & G).
  assert (exists c1, radd mws acc b = Ok c1) as (c1 & A).
  { unfold radd. rewrite HR. unfold combine. rewrite (compat_same mws acc b K). simpl.
    assert (S : - nthq (vadd (vscale (X acc) (st acc)) (vscale (1 * X b) (st b))) (ridx b) == X acc + X b).
    { destruct K as (_ & _ & R). unfold normalised in Na, Nb. rewrite R in *.
      rewrite nthq_vadd by (rewrite !vscale_length; congruence).
      rewrite !nthq_vscale. rewrite Na, Nb. ring. }
    unfold sdiv.
    destruct (qzerob _) eqn:Z.
    - exfalso. apply qzerob_true in Z. apply NZ. rewrite <- S. exact Z.
    - simpl. eauto. }
  rewrite A.
  destruct (radd_same_facts mws acc b c1 A K HR Na Nb ltac:(congruence) NZ)
    as (W1 & P1 & R1 & X1 & L1 & N1 & _).
  apply IH; auto; try congruence.
  apply group_ok_kind with (a := acc); auto.
  apply group_ok_ext with (x := X acc + X b); auto. rewrite X1. reflexivity.
Qed.
