(* C01 — split_to on either feed class (Stream.split_to and MultiStream.split_to) *)
From V Require Import Common.NumFacts C01.Model C01.Proofs C01.ProofsMulti C01.ProofsMix C01.ProofsOps C01.ProofsTotal.

(* what the first outlet must hold of chemical c: split * flow, summed over the feed's phases *)
Definition split_part (f : stream) (sp : splitv) (c : nat) : Q :=
  rows_tot (spkg f) (map (fun r => vmul r (split_vec (length r) sp)) (srows f)) c.

Lemma split_rows_map rows sp :
  fst (split_rows rows sp) = map (fun r => vmul r (split_vec (length r) sp)) rows /\
  snd (split_rows rows sp) = map (fun r => vsub r (vmul r (split_vec (length r) sp))) rows.
Proof. induction rows as [|r rows [A B]]; simpl; auto. rewrite A, B. auto. Qed.

Lemma remap_rows_value left right rows rows' : remap_rows left right rows = Ok rows' ->
  wf_pkg left -> wf_pkg right -> (forall r, In r rows -> length r = psize right) ->
  length rows' = length rows /\ (forall r, In r rows' -> length r = psize left) /\
  forall c, rows_tot left rows' c == rows_tot right rows c.
Proof.
  intros H WL WR. revert rows' H; induction rows as [|r rows IH]; intros rows' H L; simpl in H.
  - inversion H; subst. split; auto. split; [intros ? []|]. intros; reflexivity.
  - destruct (remap left right r) as [x|] eqn:E; simpl in H; [|discriminate].
    destruct (remap_rows left right rows) as [y|] eqn:E2; simpl in H; [|discriminate].
    inversion H; subst. destruct (remap_getc _ _ _ _ E WL WR (L r (or_introl eq_refl))) as [LX VX].
    destruct (IH y eq_refl (fun z I => L z (or_intror I))) as [A [B C]].
    split; [simpl; lia|]. split; [intros z [I|I]; subst; auto|].
    intros c. rewrite !rows_tot_cons. rewrite VX, C. reflexivity.
Qed.

Lemma fill_rows_value fpkg rows o1 a : fill_rows fpkg rows o1 = Ok a ->
  wf_pkg fpkg -> wf_stream o1 -> coherent (spkg o1) fpkg ->
  (forall r, In r rows -> length r = psize fpkg) ->
  forall c, tot a c == rows_tot fpkg rows c.
Proof.
  intros H WF [WP _] CO L c. destruct o1 as [c1|m]; unfold fill_rows in H; simpl in WP, CO.
  - destruct rows as [|r [|r2 t]]; try discriminate.
    destruct (put_values_value fpkg r (SS c1) a H WF WP CO (L r (or_introl eq_refl))) as [_ V].
    rewrite V. rewrite rows_tot_cons, rows_tot_nil. lra.
  - destruct (same_pkg (mpkg m) fpkg) eqn:SP.
    + inversion H; subst. unfold tot. simpl. rewrite (same_pkg_eq _ _ SP CO). reflexivity.
    + destruct (remap_rows (mpkg m) fpkg rows) as [rows'|] eqn:E; simpl in H; [|discriminate].
      inversion H; subst. destruct (remap_rows_value _ _ _ _ E WP WF L) as [_ [_ V]].
      unfold tot. simpl. apply V.
Qed.

Lemma qsum_scale {A} (f : A -> Q) k l : qsum (map (fun x => f x * k) l) == qsum (map f l) * k.
Proof.
  induction l as [|x l IH]; [simpl; lra|]. cbn [map]. rewrite !qsum_cons. rewrite IH. lra.
Qed.

Lemma vmul_vsum_getc pk n rows s c : (forall r, In r rows -> length r = n) -> length s = n ->
  getc pk (vmul (vsum n rows) s) c == qsum (map (fun r => getc pk (vmul r s) c) rows).
Proof.
  intros L LS. unfold getc. destruct (index_of c (cas pk)) as [i|].
  - rewrite nthq_vmul by (rewrite vsum_length; auto). rewrite nthq_vsum by auto.
    rewrite <- qsum_scale. apply qsum_map_ext. intros r I. rewrite nthq_vmul; [reflexivity|].
    rewrite (L r I). auto.
  - symmetry. apply qsum_zero. intros; reflexivity.
Qed.

Lemma split_to_value f s1 s2 sp eb a b :
  split_to f s1 s2 sp eb = Ok (a, b) ->
  wf_stream f -> wf_stream s1 -> wf_stream s2 ->
  coherent (spkg s1) (spkg f) -> coherent (spkg s2) (spkg f) ->
  length (split_vec (psize (spkg f)) sp) = psize (spkg f) ->
  forall c, tot a c == split_part f sp c /\ tot b c == tot f c - split_part f sp c /\
            tot a c + tot b c == tot f c.
Proof.
  intros H WF W1 W2 C1 C2 LS c.
  pose proof WF as [WPf [WLf _]]. pose proof W1 as [WP1 _]. pose proof W2 as [WP2 _].
  assert (tot a c == split_part f sp c /\ tot b c == tot f c - split_part f sp c) as [A B];
    [|split; [exact A|split; [exact B|rewrite A, B; lra]]].
  destruct f as [c0|m]; unfold split_to in H; simpl in WPf, WLf, C1, C2, LS.
  - assert (length (crow c0) = psize (cpkg c0)) as LC by (apply WLf; left; auto).
    destruct (split_single_value _ _ _ _ _ _ _ _ _ H WPf LC) with (c := c) as [VA [VB _]]; auto.
    { rewrite LC. auto. }
    rewrite VA, VB. unfold split_part, tot. cbn [spkg srows map]. rewrite !rows_tot_cons, !rows_tot_nil. split; lra.
  - assert (forall r, In r (mrows m) -> length (vmul r (split_vec (length r) sp)) = psize (mpkg m)) as LV.
    { intros r I. rewrite (WLf r I). unfold vmul. rewrite map2_length; [apply WLf; auto|]. rewrite LS. apply WLf; auto. }
    destruct (eb || is_multi s1 || is_multi s2).
    + destruct (split_rows_map (mrows m) sp) as [F S]. rewrite F, S in H.
      destruct (set_phases s1 (mphases m)) as [o1|] eqn:SP1; cbn [bind] in H; [|discriminate].
      destruct (set_phases s2 (mphases m)) as [o2|] eqn:SP2; cbn [bind] in H; [|discriminate].
      destruct (set_phases_wf _ _ _ SP1 W1) as [WO1 PO1]. destruct (set_phases_wf _ _ _ SP2 W2) as [WO2 PO2].
      destruct (fill_rows (mpkg m) (map (fun r => vmul r (split_vec (length r) sp)) (mrows m)) o1) as [x|] eqn:F1;
        cbn [bind] in H; [|discriminate].
      destruct (fill_rows (mpkg m) (map (fun r => vsub r (vmul r (split_vec (length r) sp))) (mrows m)) o2) as [y|] eqn:F2;
        cbn [bind] in H; [|discriminate].
      inversion H; subst x y.
      split.
      * rewrite (fill_rows_value _ _ _ _ F1 WPf WO1); [reflexivity | rewrite PO1; auto|].
        intros r I. apply in_map_iff in I. destruct I as [r0 [E I]]. subst. auto.
      * rewrite (fill_rows_value _ _ _ _ F2 WPf WO2); [| rewrite PO2; auto|].
        -- unfold split_part, tot, rows_tot. simpl. rewrite !map_map.
           clear - WLf LV. induction (mrows m) as [|r rows IH]; [simpl; lra|].
           cbn [map]. rewrite !qsum_cons. rewrite getc_vsub.
           ++ rewrite IH; [lra | intros; apply WLf; right; auto | intros; apply LV; right; auto].
           ++ rewrite LV by (left; auto). apply WLf. left; auto.
        -- intros r I. apply in_map_iff in I. destruct I as [r0 [E I]]. subst.
           unfold vsub. rewrite map2_length; [apply WLf; auto|]. rewrite LV by auto. apply WLf; auto.
    + assert (length (vsum (psize (mpkg m)) (mrows m)) = psize (mpkg m)) as LC by (apply vsum_length; auto).
      destruct (split_single_value _ _ _ _ _ _ _ _ _ H WPf LC) with (c := c) as [VA [VB _]]; auto.
      { rewrite LC. auto. }
      assert (getc (mpkg m) (vmul (vsum (psize (mpkg m)) (mrows m)) (split_vec (length (vsum (psize (mpkg m)) (mrows m))) sp)) c
              == split_part (MS m) sp c) as E.
      { rewrite LC. rewrite vmul_vsum_getc; auto. unfold split_part, rows_tot. simpl. rewrite map_map.
        apply qsum_map_ext. intros r I. rewrite (WLf r I). reflexivity. }
      rewrite VA, VB, E. rewrite getc_vsum by auto. unfold tot, rows_tot. simpl. split; lra.
Qed.
