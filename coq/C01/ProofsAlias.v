(* C01 — histories with aliases: several stream objects on one flow data *)
From V Require Import Common.NumFacts C01.Model C01.Proofs C01.ProofsMulti C01.ProofsMix C01.ProofsOps.

Lemma views_nth cs l vst : views cs l = Ok vst ->
  length vst = length l /\
  forall k h, nth_error l k = Some h -> exists s, view_of cs h = Ok s /\ nth_error vst k = Some s.
Proof.
  revert vst; induction l as [|h0 l IH]; intros vst H; simpl in H.
  - inversion H; subst. split; auto. intros [|k] h E; discriminate.
  - destruct (view_of cs h0) as [s0|] eqn:E0; simpl in H; [|discriminate].
    destruct (views cs l) as [r|] eqn:E1; simpl in H; [|discriminate].
    inversion H; subst. destruct (IH r eq_refl) as [L N]. split; [simpl; lia|].
    intros [|k] h E; simpl in E.
    + inversion E; subst. exists s0. auto.
    + apply N; auto.
Qed.

(* what a receiver handle shows after its new value has been written to its cell *)
Lemma write_back_receiver a k h s rs a' :
  nth_error (hs a) k = Some h -> (match h with HView _ _ _ => False | _ => True end) ->
  view_of (cells a) h = Ok rs -> spkg s = spkg rs ->
  write_back a k s = Ok a' ->
  exists x, nth_error (cells a') (hcell h) = Some x /\ spkg x = spkg s /\ srows x = srows s /\
  (forall j', j' <> hcell h -> nth_error (cells a') j' = nth_error (cells a) j') /\
  length (hs a') = length (hs a).
Proof.
  intros NH NV VO PK WB. unfold write_back in WB. rewrite NH in WB.
  destruct h as [j|j ph|j p lbl|j phs]; [| |contradiction|]; simpl in *.
  - inversion WB; subst a'. simpl.
    assert (j < length (cells a))%nat as L by (eapply gets_lt; eauto).
    exists s. split; [apply nth_error_upd_same; auto|]. split; auto. split; auto. split; auto.
    intros j' N. apply nth_error_upd_other. auto.
  - destruct (gets (cells a) j) as [old|] eqn:G; simpl in *; [|discriminate].
    assert (j < length (cells a))%nat as L by (eapply gets_lt; eauto).
    destruct old as [c|m]; [|discriminate]. inversion VO; subst rs. simpl in PK.
    destruct s as [c'|m']; [|discriminate]. inversion WB; subst a'. simpl.
    exists (SS (mkc (cpkg c) (cphase c) (crow c'))). split; [apply nth_error_upd_same; auto|].
    simpl in *. split; [auto|]. split; auto. split; [|apply upd_length].
    intros j' N. apply nth_error_upd_other. auto.
  - destruct (gets (cells a) j) as [old|] eqn:G; simpl in *; [|discriminate].
    assert (j < length (cells a))%nat as L by (eapply gets_lt; eauto).
    destruct old as [c|m]; [discriminate|]. inversion VO; subst rs. simpl in PK.
    destruct s as [c'|m']; [discriminate|]. inversion WB; subst a'. simpl.
    exists (MS (mkm (mpkg m) (mphases m') (mrows m'))). split; [apply nth_error_upd_same; auto|].
    simpl in *. split; [auto|]. split; auto. split; [|apply upd_length].
    intros j' N. apply nth_error_upd_other. auto.
Qed.

Lemma write_back_lengths a k s a' : write_back a k s = Ok a' ->
  length (hs a') = length (hs a) /\ length (cells a') = length (cells a).
Proof.
  unfold write_back. destruct (nth_error (hs a) k) as [[j|j ph|j p lbl|j phs]|]; intros H; try discriminate.
  - inversion H; subst; simpl. rewrite upd_length. auto.
  - destruct (gets (cells a) j) as [[c|m]|]; simpl in H; try discriminate. destruct s; [|discriminate].
    inversion H; subst; simpl. rewrite !upd_length. auto.
  - destruct (gets (cells a) j) as [[c|m]|]; simpl in H; try discriminate. destruct s; [|discriminate].
    destruct (pindex_exact p (mphases m)); simpl in H; [|discriminate]. inversion H; subst; simpl. rewrite upd_length. auto.
  - destruct (gets (cells a) j) as [[c|m]|]; simpl in H; try discriminate. destruct s; [discriminate|].
    inversion H; subst; simpl. rewrite !upd_length. auto.
Qed.

Lemma tot_same_rows x s c : spkg x = spkg s -> srows x = srows s -> tot x c = tot s c.
Proof. intros P R. unfold tot. rewrite P, R. reflexivity. Qed.

(* mixing through handles, the receiver's indexer is not replaced: the receiver's cell ends with the sum of
   what the inlet handles showed, every handle on that cell sees it (they all read the cell), every other
   cell is untouched *)
Lemma alias_mix_value a r ins eb hf a' vst h :
  views (cells a) (hs a) = Ok vst -> wf_store vst -> nth_error (hs a) r = Some h ->
  mix_rebind vst r ins eb hf = None ->
  astep a (OMix r ins eb hf) = Ok a' ->
  exists x, nth_error (cells a') (hcell h) = Some x /\
    (forall c, tot x c == qsum (map (tot_at vst c) ins)) /\
    (forall j', j' <> hcell h -> nth_error (cells a') j' = nth_error (cells a) j') /\
    length (hs a') = length (hs a).
Proof.
  intros V WS NH NRB H. unfold astep in H. rewrite V in H. cbn [bind] in H.
  destruct (safe_op (hs a) vst (OMix r ins eb hf)) eqn:SAFE; cbn [negb] in H; [|discriminate].
  simpl in H.
  destruct (mix vst r ins eb hf) as [s|] eqn:MX; cbn [bind] in H; [|discriminate].
  destruct (views_nth _ _ _ V) as [LV NV]. destruct (NV r h NH) as [rs [VO NR]].
  assert (r < length vst)%nat as LR by (apply nth_error_Some; congruence).
  unfold write_target in H. unfold gets at 1 in H. rewrite nth_error_upd_same in H by auto. cbn [bind] in H.
  cbn [rebind_info] in H. rewrite NRB in H.
  destruct (write_back a r s) as [a1|] eqn:WB; cbn [bind] in H; [|discriminate]. inversion H; subst a1. clear H.
  destruct (mix_result_thm _ _ _ _ _ _ _ WS NR MX) as [PK _].
  assert (match h with HView _ _ _ => False | _ => True end) as NVW.
  { simpl in SAFE. apply andb_true_iff in SAFE. destruct SAFE as [_ S1]. unfold is_view in S1. rewrite NH in S1.
    destruct h; auto. discriminate. }
  destruct (write_back_receiver _ _ _ _ _ _ NH NVW VO PK WB) as [x [NX [PX [RX [FR LH]]]]].
  exists x. split; auto. split; auto.
  intros c. rewrite (tot_same_rows x s c PX RX). apply (mix_value_thm _ _ _ _ _ _ WS MX).
Qed.

(* ... and when the receiver's indexer IS replaced (multi-phase fallback, copy_like from several phases): the
   receiver moves to new flow data of its own that holds the sum; the handles left on the old data are not
   updated any more (sharing ends silently) *)
Lemma alias_mix_value_rebind a r ins eb hf a' vst h resid :
  views (cells a) (hs a) = Ok vst -> wf_store vst -> nth_error (hs a) r = Some h ->
  mix_rebind vst r ins eb hf = Some resid ->
  astep a (OMix r ins eb hf) = Ok a' ->
  exists x, nth_error (hs a') r = Some (HCell (length (cells a))) /\
    nth_error (cells a') (length (cells a)) = Some x /\
    (forall c, tot x c == qsum (map (tot_at vst c) ins)) /\
    length (cells a') = S (length (cells a)).
Proof.
  intros V WS NH RB H. unfold astep in H. rewrite V in H. cbn [bind] in H.
  destruct (safe_op (hs a) vst (OMix r ins eb hf)) eqn:SAFE; cbn [negb] in H; [|discriminate].
  simpl in H.
  destruct (mix vst r ins eb hf) as [s|] eqn:MX; cbn [bind] in H; [|discriminate].
  destruct (views_nth _ _ _ V) as [LV NV]. destruct (NV r h NH) as [rs [VO NR]].
  assert (r < length vst)%nat as LR by (apply nth_error_Some; congruence).
  unfold write_target in H. unfold gets at 1 in H. rewrite nth_error_upd_same in H by auto. cbn [bind] in H.
  cbn [rebind_info] in H. rewrite RB in H.
  destruct (write_back a r resid) as [a1|] eqn:WB; cbn [bind] in H; [|discriminate]. inversion H; subst a'. clear H.
  destruct (write_back_lengths _ _ _ _ WB) as [LH LC]. simpl.
  exists s. split; [rewrite LC; apply nth_error_upd_same; rewrite map_length, LH; apply nth_error_Some; congruence|].
  split; [rewrite <- LC; rewrite nth_error_app2 by lia; rewrite Nat.sub_diag; reflexivity|].
  split; [apply (mix_value_thm _ _ _ _ _ _ WS MX)|]. rewrite app_length. simpl. lia.
Qed.

(* MultiStream.phases setter (split_to on a used outlet, multi-phase fallback): when the owner of a multi-phase
   cell gets a new indexer that is again multi-phase, every cached sub-stream whose phase the new indexer has is
   re-pointed to the new rows; the stream itself moves to the new cell, which holds the new value *)
Lemma views_follow a vst vst' o k j m' resid a' :
  nth_error (hs a) k = Some (HCell j) -> gets vst' k = Ok (MS m') ->
  rebind_info vst o k = Some resid -> kind_at vst k = true ->
  write_target a vst vst' o k = Ok a' ->
  nth_error (hs a') k = Some (HCell (length (cells a))) /\
  nth_error (cells a') (length (cells a)) = Some (MS m') /\
  forall q p lbl, q <> k -> nth_error (hs a) q = Some (HView j p lbl) -> in_indexer lbl (bind_phases vst o m') = true ->
              nth_error (hs a') q = Some (HView (length (cells a)) (if pmem lbl (bind_phases vst o m') then lbl else swapcase lbl) lbl).
Proof.
  intros NH GV RB KA H. unfold write_target in H. rewrite GV in H. cbn [bind] in H. rewrite RB in H.
  destruct (write_back a k resid) as [a1|] eqn:WB; cbn [bind] in H; [|discriminate].
  assert (hs a1 = hs a /\ length (cells a1) = length (cells a)) as [EH LC].
  { unfold write_back in WB. rewrite NH in WB. inversion WB; subst; simpl. rewrite upd_length. auto. }
  inversion H; subst a'. clear H. simpl. rewrite EH, LC, NH, KA.
  assert (k < length (hs a))%nat as LK by (apply nth_error_Some; congruence).
  split; [apply nth_error_upd_same; rewrite map_length; auto|].
  split; [rewrite <- LC; rewrite nth_error_app2 by lia; rewrite Nat.sub_diag; reflexivity|].
  intros q p lbl NQ NV IN. rewrite nth_error_upd_other by auto. rewrite nth_error_map, NV. simpl.
  rewrite Nat.eqb_refl, IN. reflexivity.
Qed.
