(* C01 — a per-phase sub-stream multistream[p] as the RECEIVER of scale / separate_out / copy_flow: the operation
   writes the row object the sub-stream wraps, so the MultiStream's totals change by exactly the change of that row *)
From V Require Import Common.NumFacts C01.Model C01.Proofs C01.ProofsMulti C01.ProofsMix C01.ProofsOps
  C01.ProofsTotal C01.ProofsSplit C01.ProofsCopyM C01.ProofsCopy C01.ProofsAlias C01.ProofsDeep.

Lemma view_value cs j p lbl m i :
  nth_error cs j = Some (MS m) -> pindex_exact p (mphases m) = Some i ->
  view_of cs (HView j p lbl) = Ok (SS (mkc (mpkg m) lbl (nth i (mrows m) []))).
Proof. intros N P. simpl. unfold gets. rewrite N. cbn [bind]. rewrite P. reflexivity. Qed.

Lemma tot_single pk ph row c : tot (SS (mkc pk ph row)) c == getc pk row c.
Proof. unfold tot. cbn [spkg srows cpkg crow]. rewrite rows_tot_cons, rows_tot_nil. lra. Qed.

(* writing a value through a sub-stream handle: one row of the cell is replaced, nothing else *)
Lemma write_back_substream a k j p lbl m i c' a' :
  nth_error (hs a) k = Some (HView j p lbl) -> nth_error (cells a) j = Some (MS m) ->
  pindex_exact p (mphases m) = Some i -> (i < length (mrows m))%nat -> cpkg c' = mpkg m ->
  write_back a k (SS c') = Ok a' ->
  exists x, nth_error (cells a') j = Some x /\ spkg x = mpkg m /\ sphases x = mphases m /\
    srows x = upd (mrows m) i (crow c') /\
    (forall c, tot x c == tot (MS m) c - getc (mpkg m) (nth i (mrows m) []) c + tot (SS c') c) /\
    (forall j', j' <> j -> nth_error (cells a') j' = nth_error (cells a) j') /\ hs a' = hs a.
Proof.
  intros NH NC PI LI PK WB.
  destruct (write_back_view_spec _ _ _ _ _ _ _ _ _ NH NC PI WB) as [EC EH].
  assert (j < length (cells a))%nat as LJ by (apply nth_error_Some; congruence).
  exists (MS (mkm (mpkg m) (mphases m) (upd (mrows m) i (crow c')))).
  split; [rewrite EC; apply nth_error_upd_same; auto|].
  split; [reflexivity|]. split; [reflexivity|]. split; [reflexivity|].
  split; [|split; [intros j' N; rewrite EC; apply nth_error_upd_other; auto | exact EH]].
  intros c. unfold tot. cbn [spkg srows mpkg mrows cpkg crow]. rewrite rows_tot_upd by auto.
  rewrite rows_tot_cons, rows_tot_nil. rewrite PK. lra.
Qed.

(* the generic single-target step whose target is a sub-stream *)
Lemma astep_one_target_view a o a' vst k j p lbl m i c' :
  views (cells a) (hs a) = Ok vst -> nth_error (hs a) k = Some (HView j p lbl) ->
  nth_error (cells a) j = Some (MS m) -> pindex_exact p (mphases m) = Some i -> (i < length (mrows m))%nat ->
  targets o = [k] -> rebind_info vst o k = None -> (match o with OMul _ _ => False | _ => True end) ->
  step vst o = Ok (upd vst k (SS c')) -> cpkg c' = mpkg m ->
  astep a o = Ok a' ->
  exists x, nth_error (cells a') j = Some x /\ spkg x = mpkg m /\ sphases x = mphases m /\
    srows x = upd (mrows m) i (crow c') /\
    (forall c, tot x c == tot (MS m) c - tot_at vst c k + tot (SS c') c) /\
    (forall j', j' <> j -> nth_error (cells a') j' = nth_error (cells a) j') /\ hs a' = hs a.
Proof.
  intros V NH NC PI LI TG NRB NM ST PK H. unfold astep in H. rewrite V in H. cbn [bind] in H.
  destruct (safe_op (hs a) vst o); cbn [negb] in H; [|discriminate].
  rewrite ST in H. cbn [bind] in H. rewrite TG in H. cbn [write_all] in H.
  destruct (views_nth _ _ _ V) as [LV NVW]. destruct (NVW k _ NH) as [rs [VO NR]].
  assert (k < length vst)%nat as LK by (apply nth_error_Some; congruence).
  unfold write_target in H. unfold gets at 1 in H. rewrite nth_error_upd_same in H by auto. cbn [bind] in H.
  rewrite NRB in H.
  destruct (write_back a k (SS c')) as [a1|] eqn:WB; cbn [bind] in H; [|discriminate].
  assert (a' = a1) as EA by (destruct o; try contradiction; inversion H; reflexivity). subst a1.
  destruct (write_back_substream _ _ _ _ _ _ _ _ _ NH NC PI LI PK WB) as [x [NX [PX [PHX [RX [TX [FR EH]]]]]]].
  exists x. split; [exact NX|]. split; [exact PX|]. split; [exact PHX|]. split; [exact RX|].
  split; [|split; [exact FR | exact EH]].
  intros c. rewrite TX. rewrite (view_value _ _ _ lbl _ _ NC PI) in VO. inversion VO; subst rs.
  unfold tot_at. rewrite NR. rewrite tot_single. lra.
Qed.

(* scale on a sub-stream *)
Lemma alias_scale_substream a k q a' vst j p lbl m i :
  views (cells a) (hs a) = Ok vst -> nth_error (hs a) k = Some (HView j p lbl) ->
  nth_error (cells a) j = Some (MS m) -> pindex_exact p (mphases m) = Some i -> (i < length (mrows m))%nat ->
  astep a (OScale k q) = Ok a' ->
  exists x, nth_error (cells a') j = Some x /\ spkg x = mpkg m /\ sphases x = mphases m /\
    srows x = upd (mrows m) i (vscale q (nth i (mrows m) [])) /\
    (forall c, tot x c == tot (MS m) c - tot_at vst c k + q * tot_at vst c k) /\
    (forall j', j' <> j -> nth_error (cells a') j' = nth_error (cells a) j') /\ hs a' = hs a.
Proof.
  intros V NH NC PI LI H.
  destruct (views_nth _ _ _ V) as [LV NVW]. destruct (NVW k _ NH) as [rs [VO NR]].
  rewrite (view_value _ _ _ lbl _ _ NC PI) in VO. inversion VO; subst rs.
  assert (step vst (OScale k q) = Ok (upd vst k (SS (mkc (mpkg m) lbl (vscale q (nth i (mrows m) []))))))
    as ST by (simpl; unfold gets; rewrite NR; reflexivity).
  destruct (astep_one_target_view a (OScale k q) a' vst k j p lbl m i _ V NH NC PI LI eq_refl eq_refl I ST eq_refl H)
    as [x [NX [PX [PHX [RX [TX [FR EH]]]]]]].
  exists x. split; [exact NX|]. split; [exact PX|]. split; [exact PHX|]. split; [exact RX|].
  split; [|split; [exact FR | exact EH]].
  intros c. rewrite TX.
  pose proof (scale_value_lemma q (SS (mkc (mpkg m) lbl (nth i (mrows m) []))) c) as SV. cbn [scale cpkg cphase crow] in SV.
  rewrite SV. unfold tot_at. rewrite NR. reflexivity.
Qed.

(* separate_out with a sub-stream as the receiver: the MultiStream loses exactly the other stream's flows *)
Lemma alias_sep_substream a r o a' vst j p lbl m i :
  views (cells a) (hs a) = Ok vst -> wf_store vst -> nth_error (hs a) r = Some (HView j p lbl) ->
  nth_error (cells a) j = Some (MS m) -> pindex_exact p (mphases m) = Some i -> (i < length (mrows m))%nat ->
  r <> o -> astep a (OSep r o) = Ok a' ->
  exists x, nth_error (cells a') j = Some x /\ spkg x = mpkg m /\ sphases x = mphases m /\
    (forall c, tot x c == tot (MS m) c - tot_at vst c o) /\
    (forall k, k <> i -> nth k (srows x) [] = nth k (mrows m) []) /\
    (forall j', j' <> j -> nth_error (cells a') j' = nth_error (cells a) j') /\ hs a' = hs a.
Proof.
  intros V WS NH NC PI LI NE H. pose proof WS as [WS1 CO].
  assert (exists st', step vst (OSep r o) = Ok st') as [st' ST].
  { unfold astep in H. rewrite V in H. cbn [bind] in H. destruct (safe_op _ _ _); cbn [negb] in H; [|discriminate].
    destruct (step vst (OSep r o)); [eauto | discriminate]. }
  pose proof ST as ST0. simpl in ST.
  destruct (gets vst r) as [rs|] eqn:GR; cbn [bind] in ST; [|discriminate].
  destruct (gets vst o) as [os|] eqn:GO; cbn [bind] in ST; [|discriminate].
  assert (Nat.eqb r o = false) as EB by (apply Nat.eqb_neq; auto). rewrite EB in ST.
  destruct (imol_separate_out rs os) as [s|] eqn:SEP; cbn [bind] in ST; [|discriminate].
  inversion ST; subst st'.
  apply gets_ok in GR. apply gets_ok in GO.
  assert (In rs vst) as IR by (eapply nth_error_In; eauto).
  assert (In os vst) as IO by (eapply nth_error_In; eauto).
  destruct (separate_value _ _ _ SEP (WS1 _ IR) (WS1 _ IO) (CO _ _ IR IO)) as [PS [_ VS]].
  destruct (views_nth _ _ _ V) as [LV NVW]. destruct (NVW r _ NH) as [rs' [VO NR]].
  rewrite GR in NR. inversion NR; subst rs'.
  rewrite (view_value _ _ _ lbl _ _ NC PI) in VO. inversion VO; subst rs.
  assert (exists c', s = SS c') as [c' ES].
  { destruct os as [oc|om]; simpl in SEP; destruct (sub_row _ _ _ _); cbn [bind] in SEP; inversion SEP; eauto. }
  subst s. simpl in PS.
  destruct (astep_one_target_view a (OSep r o) a' vst r j p lbl m i c' V NH NC PI LI eq_refl eq_refl I ST0 PS H)
    as [x [NX [PX [PHX [RX [TX [FR EH]]]]]]].
  exists x. split; [exact NX|]. split; [exact PX|]. split; [exact PHX|].
  split; [|split; [|split; [exact FR | exact EH]]].
  - intros c. rewrite TX, VS. unfold tot_at. rewrite GR, GO. lra.
  - intros k NK. rewrite RX. apply nth_upd_other_gen. auto.
Qed.

(* copy with removal INTO a sub-stream (everything, from a stream on other flow data): the MultiStream's row takes
   the source's flows, the source ends empty *)
Lemma alias_copy_remove_into_substream a d s a' vst hsrc j p lbl m i :
  views (cells a) (hs a) = Ok vst -> wf_store vst ->
  nth_error (hs a) d = Some (HView j p lbl) -> nth_error (hs a) s = Some hsrc -> nonview hsrc ->
  nth_error (cells a) j = Some (MS m) -> pindex_exact p (mphases m) = Some i -> (i < length (mrows m))%nat ->
  d <> s -> j <> hcell hsrc ->
  astep a (OCopyFlow d s IdAll true false) = Ok a' ->
  exists x1 x2, nth_error (cells a') j = Some x1 /\ nth_error (cells a') (hcell hsrc) = Some x2 /\
    spkg x1 = mpkg m /\ sphases x1 = mphases m /\
    (forall c, tot x1 c == tot (MS m) c - tot_at vst c d + tot_at vst c s /\ tot x2 c == 0) /\
    (forall j', j' <> j -> j' <> hcell hsrc -> nth_error (cells a') j' = nth_error (cells a) j').
Proof.
  intros V WS ND NS NVS NCJ PI LI NE NC H.
  unfold astep in H. rewrite V in H. cbn [bind] in H.
  destruct (safe_op (hs a) vst (OCopyFlow d s IdAll true false)); cbn [negb] in H; [|discriminate].
  destruct (step vst (OCopyFlow d s IdAll true false)) as [st'|] eqn:ST; cbn [bind] in H; [|discriminate].
  destruct (step_copy_flow_inv _ _ _ _ _ _ _ ST) as [c0 [ss [[d' s'] [NVD' [NVS' [CF E]]]]]]. simpl in E.
  destruct (copy_flow_all_pkg _ _ _ _ _ CF) as [PD PS].
  pose proof (copy_remove_lemma _ _ _ _ WS NE ST) as CR. subst st'.
  destruct (views_nth _ _ _ V) as [LV NVW].
  destruct (NVW d _ ND) as [rd [VOD NRD]]. destruct (NVW s _ NS) as [rsv [VOS NRS]].
  rewrite NVD' in NRD. inversion NRD; subst rd. rewrite NVS' in NRS. inversion NRS; subst rsv.
  assert (d < length vst)%nat as LD by (apply nth_error_Some; congruence).
  assert (s < length vst)%nat as LS by (apply nth_error_Some; congruence).
  rewrite (view_value _ _ _ lbl _ _ NCJ PI) in VOD. inversion VOD; subst c0.
  assert (exists cd, d' = SS cd) as [cd ED].
  { unfold copy_flow in CF. cbv zeta in CF. destruct (if same_pkg _ _ then _ else _); cbn [bind] in CF; [|discriminate].
    inversion CF; eauto. }
  subst d'. simpl in PD.
  cbn [targets write_all] in H.
  unfold write_target at 1 in H. unfold gets at 1 in H.
  rewrite nth_error_upd_other in H by auto. rewrite nth_error_upd_same in H by auto. cbn [bind rebind_info] in H.
  destruct (write_back a d (SS cd)) as [a1|] eqn:WB1; cbn [bind] in H; [|discriminate].
  destruct (write_back_substream _ _ _ _ _ _ _ _ _ ND NCJ PI LI PD WB1) as [x1 [NX1 [PX1 [PHX1 [RX1 [TX1 [FR1 EH1]]]]]]].
  unfold write_target in H. unfold gets at 1 in H.
  rewrite nth_error_upd_same in H by (rewrite upd_length; auto). cbn [bind rebind_info] in H.
  destruct (write_back a1 s s') as [a2|] eqn:WB2; cbn [bind] in H; [|discriminate]. inversion H; subst a2. clear H.
  assert (nth_error (hs a1) s = Some hsrc) as NS1 by (rewrite EH1; exact NS).
  assert (view_of (cells a1) hsrc = Ok ss) as VOS1.
  { rewrite (view_of_frame (cells a) (cells a1) hsrc); [exact VOS|]. apply FR1. auto. }
  destruct (write_back_receiver _ _ _ _ _ _ NS1 NVS VOS1 PS WB2) as [x2 [NX2 [PX2 [RX2 [FR2 LH2]]]]].
  exists x1, x2. split; [rewrite FR2 by auto; exact NX1|]. split; [exact NX2|].
  split; [exact PX1|]. split; [exact PHX1|]. split.
  - intros c. destruct (CR c) as [C1 [C2 _]].
    rewrite tot_at_upd_other in C1 by auto. rewrite tot_at_upd_same in C1 by auto.
    rewrite tot_at_upd_same in C2 by (rewrite upd_length; auto).
    split.
    + assert (tot_at vst c d == getc (mpkg m) (nth i (mrows m) []) c) as TD
        by (unfold tot_at; rewrite NVD'; apply tot_single).
      rewrite TX1, C1, TD. lra.
    + rewrite (tot_same_rows x2 s' c PX2 RX2). exact C2.
  - intros j' J1 J2. rewrite FR2 by auto. apply FR1. auto.
Qed.
