(* C01 — separate_out between a MultiStream and one of its OWN per-phase sub-streams multistream[p] (the two stream
   objects share only part of the flow data: one row).  Stream.separate_out guards only "self is other"; for the
   sub-stream the indexer subtracts the row from itself, in place.  "Separating a stream back out of a mixture restores
   the remainder": that row ends empty, every other phase row is the same object with the same content. *)
From V Require Import Common.NumFacts C01.Model C01.Proofs C01.ProofsMulti C01.ProofsMix C01.ProofsOps
  C01.ProofsTotal C01.ProofsSplit C01.ProofsCopyM C01.ProofsCopy C01.ProofsAlias C01.ProofsDeep C01.ProofsView.

Lemma nthq_vsub_self r c : nthq (vsub r r) c == 0.
Proof. rewrite nthq_vsub by reflexivity. lra. Qed.

Lemma nth_upd_same_gen {A} (l : list A) i x d : (i < length l)%nat -> nth i (upd l i x) d = x.
Proof. revert i; induction l as [|h t IH]; intros [|i] H; simpl in *; try lia; auto. apply IH. lia. Qed.

(* the value-level step: MaterialIndexer.separate_out with a ChemicalIndexer of the same package whose phase label
   resolves to row i and whose data is row i itself *)
Lemma sep_own_value m lbl i :
  phase_index lbl (mphases m) = Ok i ->
  imol_separate_out (MS m) (SS (mkc (mpkg m) lbl (nth i (mrows m) []))) =
  Ok (MS (mkm (mpkg m) (mphases m) (upd (mrows m) i (vsub (nth i (mrows m) []) (nth i (mrows m) []))))).
Proof.
  intros PI. unfold imol_separate_out. cbn [cpkg cphase crow sub_phases].
  unfold same_pkg. rewrite Nat.eqb_refl. cbn [negb andb bind]. rewrite PI. cbn [bind].
  unfold sub_row, same_pkg. rewrite Nat.eqb_refl. cbn [bind]. reflexivity.
Qed.

Lemma alias_sep_own_substream a r o a' vst j p lbl m i :
  views (cells a) (hs a) = Ok vst ->
  nth_error (hs a) r = Some (HCell j) -> nth_error (hs a) o = Some (HView j p lbl) ->
  nth_error (cells a) j = Some (MS m) -> pindex_exact p (mphases m) = Some i ->
  phase_index lbl (mphases m) = Ok i -> (i < length (mrows m))%nat ->
  astep a (OSep r o) = Ok a' ->
  exists x, nth_error (cells a') j = Some (MS x) /\ mpkg x = mpkg m /\ mphases x = mphases m /\
    length (mrows x) = length (mrows m) /\
    (forall c, nthq (nth i (mrows x) []) c == 0) /\
    (forall k, k <> i -> nth k (mrows x) [] = nth k (mrows m) []) /\
    (forall j', j' <> j -> nth_error (cells a') j' = nth_error (cells a) j') /\ hs a' = hs a.
Proof.
  intros V NR NO NC PE PI LI H.
  destruct (views_nth _ _ _ V) as [LV NVW].
  destruct (NVW r _ NR) as [rs [VR NRV]]. destruct (NVW o _ NO) as [os [VO NOV]].
  assert (rs = MS m) as ER.
  { simpl in VR. unfold gets in VR. rewrite NC in VR. inversion VR; reflexivity. }
  rewrite (view_value _ _ _ lbl _ _ NC PE) in VO. inversion VO; subst os. subst rs. clear VO VR.
  assert (r <> o) as NE by (intros E; subst o; rewrite NR in NO; discriminate).
  assert (Nat.eqb r o = false) as EB by (apply Nat.eqb_neq; auto).
  set (s := MS (mkm (mpkg m) (mphases m) (upd (mrows m) i (vsub (nth i (mrows m) []) (nth i (mrows m) []))))).
  assert (step vst (OSep r o) = Ok (upd vst r s)) as ST.
  { cbn [step]. unfold gets. rewrite NRV, NOV. cbn [bind]. rewrite EB. rewrite (sep_own_value _ _ _ PI). reflexivity. }
  assert (r < length vst)%nat as LK by (apply nth_error_Some; congruence).
  assert (j < length (cells a))%nat as LJ by (apply nth_error_Some; congruence).
  unfold astep in H. rewrite V in H. cbn [bind] in H.
  destruct (safe_op (hs a) vst (OSep r o)); cbn [negb] in H; [|discriminate].
  rewrite ST in H. cbn [bind targets write_all] in H.
  unfold write_target in H. unfold gets at 1 in H. rewrite nth_error_upd_same in H by auto. cbn [bind rebind_info] in H.
  unfold write_back in H. rewrite NR in H. cbn [bind] in H. inversion H; subst a'. clear H.
  cbn [cells hs].
  exists (mkm (mpkg m) (mphases m) (upd (mrows m) i (vsub (nth i (mrows m) []) (nth i (mrows m) [])))).
  split; [apply nth_error_upd_same; auto|].
  split; [reflexivity|]. split; [reflexivity|]. cbn [mrows].
  split; [apply upd_length|].
  split; [intros c; rewrite nth_upd_same_gen by auto; apply nthq_vsub_self|].
  split; [intros k NK; apply nth_upd_other_gen; auto|].
  split; [intros j' NJ; apply nth_error_upd_other; auto | reflexivity].
Qed.

(* hence the MultiStream's per-chemical totals are what the other phases hold: total before minus what the sub-stream
   showed (the general totals statement is alias_sep_value) *)
