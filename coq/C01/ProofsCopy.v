(* C01 — Stream.copy_flow with partial IDs / exclude, and a stream copied onto itself *)
From V Require Import Common.NumFacts C01.Model C01.Proofs C01.ProofsMulti C01.ProofsMix C01.ProofsOps C01.ProofsCopyM.

(* is chemical c one of the selected positions of the source's package? *)
Definition selc (opkg : pkg) (idx : list nat) (c : nat) : bool :=
  match index_of c (cas opkg) with Some k => existsb (Nat.eqb k) idx | None => false end.

Lemma getc_set_at pk (d v : vec) idx c : length d = psize pk ->
  getc pk (set_at d idx v) c = if selc pk idx c then getc pk v c else getc pk d c.
Proof.
  intros L. unfold getc, selc. destruct (index_of c (cas pk)) as [j|] eqn:E; [|reflexivity].
  rewrite nthq_set_at. apply index_of_Some in E. destruct E as [LJ _].
  assert (Nat.ltb j (length d) = true) as LT by (apply Nat.ltb_lt; unfold psize in L; lia).
  rewrite LT, andb_true_r. reflexivity.
Qed.
Lemma getc_zero_at pk (d : vec) idx c : length d = psize pk ->
  getc pk (zero_at d idx) c = if selc pk idx c then 0 else getc pk d c.
Proof.
  intros L. unfold getc, selc. destruct (index_of c (cas pk)) as [j|] eqn:E; [|reflexivity].
  rewrite nthq_zero_at. apply index_of_Some in E. destruct E as [LJ _].
  assert (Nat.ltb j (length d) = true) as LT by (apply Nat.ltb_lt; unfold psize in L; lia).
  rewrite LT, andb_true_r. reflexivity.
Qed.

Lemma remove_from_tot other idx c : wf_stream other ->
  tot (remove_from other idx) c == if selc (spkg other) idx c then 0 else tot other c.
Proof.
  intros [_ [WL _]]. destruct other as [o|o]; unfold tot; simpl in *.
  - rewrite !rows_tot_cons, !rows_tot_nil. rewrite getc_zero_at by (apply WL; auto).
    destruct (selc (cpkg o) idx c); lra.
  - induction (mrows o) as [|r rows IH]; simpl.
    + rewrite rows_tot_nil. destruct (selc (mpkg o) idx c); reflexivity.
    + rewrite !rows_tot_cons. rewrite getc_zero_at by (apply WL; left; auto).
      rewrite IH by (intros; apply WL; right; auto). destruct (selc (mpkg o) idx c); lra.
Qed.

Lemma select_lt opkg i ex b idx : select opkg i ex = Ok (b, idx) -> forall k, In k idx -> (k < psize opkg)%nat.
Proof.
  assert (forall l idx, indices_of l opkg = Ok idx -> forall k, In k idx -> (k < psize opkg)%nat) as IO.
  { induction l as [|c l IH]; intros idx0 H k I; simpl in H.
    - inversion H; subst. destruct I.
    - destruct (index_of c (cas opkg)) eqn:E; [|discriminate].
      destruct (indices_of l opkg) eqn:E2; simpl in H; [|discriminate]. inversion H; subst.
      destruct I as [I|I]; [subst; apply index_of_Some in E; tauto | eapply IH; eauto]. }
  assert (forall bad k, In k (complement (psize opkg) bad) -> (k < psize opkg)%nat) as CO.
  { intros bad k I. unfold complement in I. apply filter_In in I. destruct I as [I _]. apply in_seq in I. lia. }
  intros H k I. destruct i as [|c|l]; simpl in H.
  - inversion H; subst. apply in_seq in I. lia.
  - destruct ex; destruct (index_of c (cas opkg)) eqn:E; try discriminate; inversion H; subst.
    + eapply CO; eauto.
    + destruct I as [I|[]]. subst. apply index_of_Some in E. tauto.
  - destruct ex.
    + destruct (indices_of (filter (fun c => cas_mem c (cas opkg)) l) opkg) as [bad|]; simpl in H; [|discriminate].
      destruct bad; [discriminate|]. inversion H; subst. eapply CO; eauto.
    + destruct (indices_of l opkg) eqn:E; simpl in H; [|discriminate]. inversion H; subst. eapply IO; eauto.
Qed.

(* partial IDs (one / a list) and exclude: the selected chemicals are taken over from the source, every
   other chemical of the receiver is untouched; with remove the selected chemicals leave the source *)
Lemma copy_flow_partial self other i remove exclude d' s' :
  i <> IdAll -> copy_flow self other i remove exclude = Ok (d', s') ->
  wf_stream (SS self) -> wf_stream other -> coherent (cpkg self) (spkg other) ->
  exists b idx, select (spkg other) i exclude = Ok (b, idx) /\
  (NoDup idx ->
   forall c, tot d' c == (if selc (spkg other) idx c then tot other c else tot (SS self) c) /\
             tot s' c == (if remove && selc (spkg other) idx c then 0 else tot other c)).
Proof.
  intros NA H W WO CO. pose proof W as [WP [WL _]]. pose proof WO as [WPo [WLo _]]. simpl in WP, WL.
  assert (length (crow self) = psize (cpkg self)) as LS by (apply WL; left; auto).
  unfold copy_flow in H. cbv zeta in H.
  assert (match i with IdAll => False | _ => True end) as NI by (destruct i; auto).
  destruct (select (spkg other) i exclude) as [[b idx]|] eqn:SEL; [|destruct i; try contradiction; discriminate].
  exists b, idx. split; [reflexivity|]. intros ND c.
  assert (H' : (do row <- (if same_pkg (cpkg self) (spkg other) then Ok (set_at (crow self) idx (other_mol other))
                 else if b then Err EType
                 else do pr <- overlap (cpkg self) (spkg other)
                        (filter (fun k => negb (qzerob (nthq (other_mol other) k))
                                          || cas_mem (nth k (cas (spkg other)) O) (cas (cpkg self))) idx);
                      Ok (set_pairs (crow self) pr (other_mol other)));
                Ok (SS (mkc (cpkg self) (cphase self) row), if remove then remove_from other idx else other))
               = Ok (d', s')).
  { destruct i; [contradiction| |]; exact H. }
  clear H. destruct (other_mol_value other c WO) as [LM VM].
  assert (tot s' c == (if remove && selc (spkg other) idx c then 0 else tot other c)) as VS.
  { destruct (if same_pkg (cpkg self) (spkg other) then Ok (set_at (crow self) idx (other_mol other))
              else if b then Err EType else _) as [row|]; cbn [bind] in H'; [|discriminate].
    inversion H'; subst. destruct remove; simpl; [apply remove_from_tot; auto | reflexivity]. }
  split; [|exact VS].
  destruct (same_pkg (cpkg self) (spkg other)) eqn:SP.
  - cbn [bind] in H'. inversion H'; subst. pose proof (same_pkg_eq _ _ SP CO) as E.
    unfold tot at 1. cbn [spkg srows cpkg crow]. rewrite rows_tot_cons, rows_tot_nil.
    rewrite getc_set_at by auto. rewrite <- E.
    destruct (selc (cpkg self) idx c).
    + rewrite E. rewrite VM. lra.
    + unfold tot. simpl. rewrite rows_tot_cons, rows_tot_nil. lra.
  - destruct b; [discriminate|].
    set (idx' := filter (fun k => negb (qzerob (nthq (other_mol other) k))
                                  || cas_mem (nth k (cas (spkg other)) O) (cas (cpkg self))) idx) in *.
    destruct (overlap (cpkg self) (spkg other) idx') as [pr|] eqn:OV; cbn [bind] in H'; [|discriminate].
    inversion H'; subst. clear H'.
    destruct (overlap_spec _ _ _ _ OV) as [MS SPEC].
    assert (forall k, In k idx' -> (k < psize (spkg other))%nat) as LT'.
    { intros k I. unfold idx' in I. apply filter_In in I. destruct I as [I _]. eapply select_lt; eauto. }
    assert (NoDup idx') as ND' by (apply NoDup_filter; auto).
    pose proof (overlap_nodup _ _ _ _ OV WPo ND' LT') as NDF.
    unfold tot at 1. cbn [spkg srows cpkg crow]. rewrite rows_tot_cons, rows_tot_nil.
    rewrite set_pairs_gen. unfold selc.
    unfold getc at 1. destruct (index_of c (cas (cpkg self))) as [j|] eqn:EJ.
    + destruct (index_of_Some _ _ _ EJ) as [LJ NJ].
      destruct (index_of c (cas (spkg other))) as [k|] eqn:EK.
      * destruct (index_of_Some _ _ _ EK) as [LK NK].
        destruct (existsb (Nat.eqb k) idx) eqn:IK.
        -- assert (In k idx) as IN.
           { apply existsb_exists in IK. destruct IK as [x [I E]]. apply Nat.eqb_eq in E. subst; auto. }
           assert (In k idx') as IN'.
           { unfold idx'. apply filter_In. split; auto. apply orb_true_iff. right.
             unfold cas_mem. apply existsb_exists. exists c. split; [rewrite <- NJ; apply nth_In; auto|].
             rewrite NK. apply Nat.eqb_refl. }
           assert (In (j, k) pr) as HP.
           { rewrite <- MS in IN'. apply in_map_iff in IN'. destruct IN' as [[j' k'] [X1 X2]]. simpl in X1. subst k'.
             pose proof (SPEC _ _ X2) as Y. rewrite NK, EJ in Y. inversion Y; subst; auto. }
           rewrite (gen_pairs_hit _ _ _ _ j k NDF HP) by (unfold psize in LS; lia).
           rewrite <- VM. unfold getc. rewrite EK. lra.
        -- rewrite gen_pairs_other.
           ++ unfold tot. simpl. rewrite rows_tot_cons, rows_tot_nil. unfold getc. rewrite EJ. lra.
           ++ intros X. apply in_map_iff in X. destruct X as [[j' k'] [X1 X2]]. simpl in X1. subst j'.
              pose proof (SPEC _ _ X2) as Y. apply index_of_Some in Y. destruct Y as [_ Y]. rewrite NJ in Y.
              assert (In k' idx') as IK' by (rewrite <- MS; change k' with (snd (j, k')); apply in_map; auto).
              assert (k' = k).
              { apply (proj1 (NoDup_nth (cas (spkg other)) O) WPo); auto; try (apply LT'; auto); congruence. }
              subst k'. unfold idx' in IK'. apply filter_In in IK'. destruct IK' as [IK' _].
              assert (existsb (Nat.eqb k) idx = true); [|congruence].
              apply existsb_exists. exists k. split; auto. apply Nat.eqb_refl.
      * rewrite gen_pairs_other.
        -- unfold tot. simpl. rewrite rows_tot_cons, rows_tot_nil. unfold getc. rewrite EJ. lra.
        -- intros X. apply in_map_iff in X. destruct X as [[j' k'] [X1 X2]]. simpl in X1. subst j'.
           pose proof (SPEC _ _ X2) as Y. apply index_of_Some in Y. destruct Y as [_ Y]. rewrite NJ in Y.
           apply index_of_None in EK. apply EK. rewrite Y. apply nth_In. apply LT'.
           rewrite <- MS. change k' with (snd (j, k')). apply in_map; auto.
    + destruct (index_of c (cas (spkg other))) as [k|] eqn:EK.
      * destruct (existsb (Nat.eqb k) idx) eqn:IK.
        -- rewrite <- VM. unfold getc. rewrite EK.
           destruct (Qeq_dec (nthq (other_mol other) k) 0) as [Z|NZ]; [rewrite Z; reflexivity|]. exfalso.
           assert (In k idx) as IN.
           { apply existsb_exists in IK. destruct IK as [x [I E]]. apply Nat.eqb_eq in E. subst; auto. }
           assert (In k idx') as IN'.
           { unfold idx'. apply filter_In. split; auto. apply orb_true_iff. left.
             apply negb_true_iff. apply qzerob_false. auto. }
           rewrite <- MS in IN'. apply in_map_iff in IN'. destruct IN' as [[j' k'] [X1 X2]]. simpl in X1. subst k'.
           pose proof (SPEC _ _ X2) as Y. destruct (index_of_Some _ _ _ EK) as [_ NK]. rewrite NK in Y. congruence.
        -- unfold tot. simpl. rewrite rows_tot_cons, rows_tot_nil. unfold getc. rewrite EJ. lra.
      * unfold tot. simpl. rewrite rows_tot_cons, rows_tot_nil. unfold getc. rewrite EJ. lra.
Qed.

Lemma step_copy_flow_inv st d s i remove exclude st' :
  step st (OCopyFlow d s i remove exclude) = Ok st' ->
  exists c0 ss r, nth_error st d = Some (SS c0) /\ nth_error st s = Some ss /\
    copy_flow c0 ss i remove exclude = Ok r /\ st' = upd (upd st d (fst r)) s (snd r).
Proof.
  simpl. intros H.
  destruct (gets st d) as [ds|] eqn:GD; cbn [bind] in H; [|discriminate].
  destruct (gets st s) as [ss|] eqn:GS; cbn [bind] in H; [|discriminate].
  destruct ds as [c0|m]; [|discriminate].
  destruct (copy_flow c0 ss i remove exclude) as [r|] eqn:CF; cbn [bind] in H; [|discriminate].
  inversion H; subst. exists c0, ss, r. repeat split; auto; apply gets_ok; auto.
Qed.

(* between two different streams *)
Lemma copy_partial_thm st d s i remove exclude st' :
  wf_store st -> d <> s -> i <> IdAll -> step st (OCopyFlow d s i remove exclude) = Ok st' ->
  exists ss b idx, nth_error st s = Some ss /\ select (spkg ss) i exclude = Ok (b, idx) /\
  (NoDup idx -> forall c,
     tot_at st' c d == (if selc (spkg ss) idx c then tot_at st c s else tot_at st c d) /\
     tot_at st' c s == (if remove && selc (spkg ss) idx c then 0 else tot_at st c s)) /\
  forall k, k <> d -> k <> s -> nth_error st' k = nth_error st k.
Proof.
  intros [WS CO] NE NA H. destruct (step_copy_flow_inv _ _ _ _ _ _ _ H) as [c0 [ss [[d' s'] [ND [NS [CF E]]]]]].
  simpl in E. subst st'.
  assert (In (SS c0) st) as ID by (eapply nth_error_In; eauto).
  assert (In ss st) as IS by (eapply nth_error_In; eauto).
  assert (d < length st)%nat as LD by (apply nth_error_Some; congruence).
  assert (s < length st)%nat as LS by (apply nth_error_Some; congruence).
  destruct (copy_flow_partial _ _ _ _ _ _ _ NA CF (WS _ ID) (WS _ IS) (CO _ _ ID IS)) as [b [idx [SEL V]]].
  exists ss, b, idx. split; auto. split; auto. split.
  - intros NDI c. destruct (V NDI c) as [V1 V2].
    rewrite tot_at_upd_other by auto. rewrite tot_at_upd_same by auto.
    rewrite tot_at_upd_same by (rewrite upd_length; auto).
    unfold tot_at. rewrite ND, NS. auto.
  - intros k K1 K2. rewrite nth_error_upd_other by auto. rewrite nth_error_upd_other by auto. reflexivity.
Qed.

(* a stream copied onto itself: the copy changes nothing, the removal then takes the selected flows away *)
Lemma copy_onto_itself_partial st d i remove exclude st' :
  wf_store st -> i <> IdAll -> step st (OCopyFlow d d i remove exclude) = Ok st' ->
  exists ss b idx, nth_error st d = Some ss /\ select (spkg ss) i exclude = Ok (b, idx) /\
  (NoDup idx -> forall c,
     tot_at st' c d == (if remove && selc (spkg ss) idx c then 0 else tot_at st c d)) /\
  forall k, k <> d -> nth_error st' k = nth_error st k.
Proof.
  intros [WS CO] NA H. destruct (step_copy_flow_inv _ _ _ _ _ _ _ H) as [c0 [ss [[d' s'] [ND [NS [CF E]]]]]].
  simpl in E. subst st'. rewrite ND in NS. inversion NS; subst ss.
  assert (In (SS c0) st) as ID by (eapply nth_error_In; eauto).
  assert (d < length st)%nat as LD by (apply nth_error_Some; congruence).
  destruct (copy_flow_partial _ _ _ _ _ _ _ NA CF (WS _ ID) (WS _ ID) (CO _ _ ID ID)) as [b [idx [SEL V]]].
  exists (SS c0), b, idx. split; auto. split; auto. split.
  - intros NDI c. destruct (V NDI c) as [_ V2].
    rewrite tot_at_upd_same by (rewrite upd_length; auto). unfold tot_at. rewrite ND. exact V2.
  - intros k K. rewrite nth_error_upd_other by auto. rewrite nth_error_upd_other by auto. reflexivity.
Qed.
Lemma copy_onto_itself_all st d remove exclude st' :
  step st (OCopyFlow d d IdAll remove exclude) = Ok st' ->
  forall c, tot_at st' c d == (if remove && negb exclude then 0 else tot_at st c d).
Proof.
  intros H c. destruct (step_copy_flow_inv _ _ _ _ _ _ _ H) as [c0 [ss [[d' s'] [ND [NS [CF E]]]]]].
  simpl in E. subst st'. rewrite ND in NS. inversion NS; subst ss.
  assert (d < length st)%nat as LD by (apply nth_error_Some; congruence).
  rewrite tot_at_upd_same by (rewrite upd_length; auto). unfold tot_at. rewrite ND.
  unfold copy_flow in CF. cbv zeta in CF. destruct exclude.
  - inversion CF; subst. rewrite andb_false_r. reflexivity.
  - cbn [spkg] in CF. unfold same_pkg in CF. rewrite Nat.eqb_refl in CF. cbn [bind] in CF. inversion CF; subst.
    destruct remove; simpl; [apply (empty_stream_tot (SS c0)) | reflexivity].
Qed.
