(* C01 — lemmas about the model of mixing / splitting / separating / copying / scaling *)
From V Require Import Common.NumFacts C01.Model.
From V Require Export C01.Phases.
From Coq Require Import Morphisms.

(* ---------- specification vocabulary ---------- *)
(* flow of chemical [c] (a CAS code) in a row laid out in package order *)
Definition getc (p : pkg) (row : vec) (c : nat) : Q :=
  match index_of c (cas p) with Some i => nthq row i | None => 0 end.
(* total flow of chemical [c] in a stream, summed over its phases *)
Definition rows_tot (p : pkg) (rows : list vec) (c : nat) : Q :=
  qsum (map (fun r => getc p r c) rows).
Definition tot (s : stream) (c : nat) : Q := rows_tot (spkg s) (srows s) c.

Definition wf_pkg (p : pkg) : Prop := NoDup (cas p).
Definition wf_stream (s : stream) : Prop :=
  wf_pkg (spkg s) /\ (forall r, In r (srows s) -> length r = psize (spkg s)) /\
  length (sphases s) = length (srows s) /\ ssorted (sphases s).
(* streams of one store: a package identity determines the package ("is") *)
Definition coherent (a b : pkg) : Prop := pid a = pid b -> a = b.
Definition wf_store (st : store) : Prop :=
  (forall s, In s st -> wf_stream s) /\
  (forall a b, In a st -> In b st -> coherent (spkg a) (spkg b)).

(* ---------- basic list / index facts ---------- *)
Lemma index_of_Some c l i : index_of c l = Some i -> (i < length l)%nat /\ nth i l O = c.
Proof.
  revert i; induction l as [|x l IH]; intros i H; simpl in *; [discriminate|].
  destruct (Nat.eqb c x) eqn:E.
  - inversion H; subst. apply Nat.eqb_eq in E. split; [lia|auto].
  - destruct (index_of c l) eqn:E2; [|discriminate]. inversion H; subst.
    destruct (IH n eq_refl) as [A B]. split; [lia|auto].
Qed.
Lemma index_of_None c l : index_of c l = None -> ~ In c l.
Proof.
  induction l as [|x l IH]; simpl; intros H; [tauto|].
  destruct (Nat.eqb c x) eqn:E; [discriminate|].
  destruct (index_of c l) eqn:E2; [discriminate|].
  apply Nat.eqb_neq in E. intros [A|A]; [congruence|]. apply IH; auto.
Qed.
Lemma index_of_nth l i : NoDup l -> (i < length l)%nat -> index_of (nth i l O) l = Some i.
Proof.
  revert i; induction l as [|x l IH]; intros i ND L; simpl in *; [lia|].
  inversion ND as [|? ? NI ND']; subst.
  destruct i as [|i].
  - rewrite Nat.eqb_refl. reflexivity.
  - destruct (Nat.eqb (nth i l O) x) eqn:E.
    + apply Nat.eqb_eq in E. exfalso. apply NI. rewrite <- E. apply nth_In. lia.
    + rewrite IH; auto. lia.
Qed.
Lemma index_of_In c l : In c l -> exists i, index_of c l = Some i.
Proof.
  intros H. destruct (index_of c l) eqn:E; [eauto|]. apply index_of_None in E. tauto.
Qed.

Lemma nthq_upd (d : vec) i j x :
  nthq (upd d i x) j = if Nat.eqb i j then (if Nat.ltb i (length d) then x else nthq d j) else nthq d j.
Proof.
  destruct (Nat.eqb i j) eqn:E.
  - apply Nat.eqb_eq in E; subst j. destruct (Nat.ltb i (length d)) eqn:L.
    + apply Nat.ltb_lt in L. apply nth_upd_same; auto.
    + apply Nat.ltb_ge in L. clear - L. revert i L; induction d as [|h t IH]; intros [|i] L; simpl in *; auto; try lia.
      unfold nthq in *; simpl. apply IH. lia.
  - apply Nat.eqb_neq in E. apply nth_upd_other; auto.
Qed.

Lemma nthq_overflow (v : vec) i : (length v <= i)%nat -> nthq v i = 0.
Proof. intros H. unfold nthq. apply nth_overflow; auto. Qed.

Lemma vzero_length n : length (vzero n) = n.
Proof. apply repeat_length. Qed.
Lemma nthq_vzero n i : nthq (vzero n) i = 0.
Proof.
  unfold nthq, vzero. revert i; induction n; intros [|i]; simpl; auto.
Qed.

Lemma vsum_length n vs : (forall v, In v vs -> length v = n) -> length (vsum n vs) = n.
Proof.
  induction vs as [|v vs IH]; intros H; simpl.
  - apply vzero_length.
  - rewrite vadd_length; [apply H; left; auto|].
    rewrite IH; [apply H; left; auto | intros; apply H; right; auto].
Qed.
Lemma nthq_vsum n vs i : (forall v, In v vs -> length v = n) ->
  nthq (vsum n vs) i == qsum (map (fun v => nthq v i) vs).
Proof.
  induction vs as [|v vs IH]; intros H; simpl.
  - rewrite nthq_vzero. reflexivity.
  - rewrite nthq_vadd.
    + rewrite IH; [reflexivity | intros; apply H; right; auto].
    + rewrite vsum_length; [apply H; left; auto | intros; apply H; right; auto].
Qed.

Lemma qsum_app a b : qsum (a ++ b) == qsum a + qsum b.
Proof. induction a as [|x a IH]; simpl; [lra | rewrite IH; lra]. Qed.

Lemma getc_vzero p n c : getc p (vzero n) c = 0.
Proof. unfold getc. destruct (index_of c (cas p)); auto. apply nthq_vzero. Qed.

Lemma getc_vsum p n vs c : (forall v, In v vs -> length v = n) ->
  getc p (vsum n vs) c == qsum (map (fun v => getc p v c) vs).
Proof.
  intros H. unfold getc. destruct (index_of c (cas p)) as [i|].
  - apply nthq_vsum; auto.
  - clear. induction vs; simpl; [reflexivity | rewrite <- IHvs; lra].
Qed.
Lemma getc_vscale p k v c : getc p (vscale k v) c == k * getc p v c.
Proof. unfold getc. destruct (index_of c (cas p)); [apply nthq_vscale | lra]. Qed.
Lemma getc_vadd p a b c : length a = length b -> getc p (vadd a b) c == getc p a c + getc p b c.
Proof. intros L. unfold getc. destruct (index_of c (cas p)); [apply nthq_vadd; auto | lra]. Qed.
Lemma getc_vsub p a b c : length a = length b -> getc p (vsub a b) c == getc p a c - getc p b c.
Proof. intros L. unfold getc. destruct (index_of c (cas p)); [apply nthq_vsub; auto | lra]. Qed.
Lemma getc_vmul p a b c : length a = length b ->
  getc p (vmul a b) c == getc p a c * getc p b c \/ index_of c (cas p) = None.
Proof. intros L. unfold getc. destruct (index_of c (cas p)); [left; apply nthq_vmul; auto | right; auto]. Qed.

(* ---------- generic "pairs" update ---------- *)
Definition gen_pairs (g : Q -> Q -> Q) (d : vec) (pr : list (nat * nat)) (v : vec) : vec :=
  fold_left (fun d p => upd d (fst p) (g (nthq d (fst p)) (nthq v (snd p)))) pr d.
Lemma add_pairs_gen d pr v : add_pairs d pr v = gen_pairs Qplus d pr v.
Proof. reflexivity. Qed.
Lemma set_pairs_gen d pr v : set_pairs d pr v = gen_pairs (fun _ x => x) d pr v.
Proof. reflexivity. Qed.
Lemma sub_pairs_gen d pr v : sub_pairs d pr v = gen_pairs Qminus d pr v.
Proof. reflexivity. Qed.

Lemma gen_pairs_length g d pr v : length (gen_pairs g d pr v) = length d.
Proof.
  unfold gen_pairs. revert d; induction pr as [|p pr IH]; intros d; simpl; auto.
  rewrite IH. apply upd_length.
Qed.
Lemma gen_pairs_other g d pr v j : ~ In j (map fst pr) -> nthq (gen_pairs g d pr v) j = nthq d j.
Proof.
  unfold gen_pairs. revert d; induction pr as [|p pr IH]; intros d H; simpl in *; auto.
  rewrite IH; [|tauto]. rewrite nthq_upd.
  destruct (Nat.eqb (fst p) j) eqn:E; auto. apply Nat.eqb_eq in E. tauto.
Qed.
Lemma gen_pairs_hit g d pr v j i : NoDup (map fst pr) -> In (j, i) pr -> (j < length d)%nat ->
  nthq (gen_pairs g d pr v) j = g (nthq d j) (nthq v i).
Proof.
  unfold gen_pairs. revert d; induction pr as [|p pr IH]; intros d ND H L; simpl in *; [tauto|].
  inversion ND as [|? ? NI ND']; subst.
  destruct H as [H|H].
  - subst p. simpl in *.
    change (nthq (gen_pairs g (upd d j (g (nthq d j) (nthq v i))) pr v) j = g (nthq d j) (nthq v i)).
    rewrite gen_pairs_other; auto. rewrite nthq_upd, Nat.eqb_refl.
    apply Nat.ltb_lt in L. rewrite L. reflexivity.
  - rewrite IH; auto.
    + rewrite nthq_upd. destruct (Nat.eqb (fst p) j) eqn:E; auto.
      apply Nat.eqb_eq in E. exfalso. apply NI. rewrite E.
      change j with (fst (j, i)). apply in_map; auto.
    + rewrite upd_length; auto.
Qed.

(* ---------- index_overlap ---------- *)
Lemma overlap_spec left right keys pr : overlap left right keys = Ok pr ->
  map snd pr = keys /\
  forall j i, In (j, i) pr -> index_of (nth i (cas right) O) (cas left) = Some j.
Proof.
  revert pr; induction keys as [|k keys IH]; intros pr H; simpl in *.
  - inversion H; subst. split; auto. intros ? ? [].
  - destruct (index_of (nth k (cas right) O) (cas left)) eqn:E; [|discriminate].
    destruct (overlap left right keys) as [r|] eqn:E2; simpl in H; [|discriminate].
    inversion H; subst. destruct (IH r eq_refl) as [A B]. split.
    + simpl. f_equal; auto.
    + intros j i [X|X]; [inversion X; subst; auto | apply B; auto].
Qed.

Lemma overlap_nodup left right keys pr : overlap left right keys = Ok pr ->
  wf_pkg right -> NoDup keys -> (forall i, In i keys -> (i < psize right)%nat) ->
  NoDup (map fst pr).
Proof.
  intros H WR. revert pr H; induction keys as [|k keys IH]; intros pr H ND LT; simpl in *.
  - inversion H; subst. constructor.
  - destruct (index_of (nth k (cas right) O) (cas left)) eqn:E; [|discriminate].
    destruct (overlap left right keys) as [r|] eqn:E2; simpl in H; [|discriminate].
    inversion H; subst. inversion ND as [|? ? NI ND']; subst. simpl. constructor.
    + intros X. apply in_map_iff in X. destruct X as [[j i] [X1 X2]]. simpl in X1; subst j.
      destruct (overlap_spec _ _ _ _ E2) as [A B]. specialize (B _ _ X2).
      apply index_of_Some in E. apply index_of_Some in B. destruct E as [_ E], B as [_ B].
      assert (In i keys) by (rewrite <- A; change i with (snd (n, i)); apply in_map; auto).
      assert (nth k (cas right) O = nth i (cas right) O) by congruence.
      apply NI. replace k with i; auto.
      apply (proj1 (NoDup_nth (cas right) O) WR); auto; apply LT; auto.
    + apply IH; auto.
Qed.

(* the keys cover the non-zero entries of v *)
Definition covers (keys : list nat) (v : vec) : Prop := forall i, ~ nthq v i == 0 -> In i keys.

Lemma pairs_getc g left right keys pr d v c :
  overlap left right keys = Ok pr -> wf_pkg left -> wf_pkg right ->
  NoDup keys -> (forall i, In i keys -> (i < psize right)%nat) -> covers keys v ->
  length d = psize left -> (forall j y, y == 0 -> g (nthq d j) y == nthq d j) ->
  getc left (gen_pairs g d pr v) c == g (getc left d c) (getc right v c)
  \/ (index_of c (cas left) = None /\ getc right v c == 0).
Proof.
  intros OV WL WR ND LT CV LD G0.
  destruct (overlap_spec _ _ _ _ OV) as [MS SP].
  pose proof (overlap_nodup _ _ _ _ OV WR ND LT) as NDF.
  unfold getc at 1 2. destruct (index_of c (cas left)) as [j|] eqn:EL.
  - left. destruct (index_of_Some _ _ _ EL) as [LJ NJ].
    unfold getc. destruct (index_of c (cas right)) as [i|] eqn:ER.
    + destruct (index_of_Some _ _ _ ER) as [LI NI].
      destruct (in_dec Nat.eq_dec i keys) as [IK|NK].
      * assert (In (j, i) pr) as HIN.
        { rewrite <- MS in IK. apply in_map_iff in IK. destruct IK as [[j' i'] [X1 X2]].
          simpl in X1; subst i'. pose proof (SP _ _ X2) as Y. rewrite NI, EL in Y.
          inversion Y; subst; auto. }
        rewrite (gen_pairs_hit g d pr v j i); auto; [reflexivity | unfold psize in LD; lia].
      * assert (nthq v i == 0) as Z.
        { destruct (Qeq_dec (nthq v i) 0); auto. exfalso. apply NK. apply CV; auto. }
        rewrite gen_pairs_other.
        -- rewrite G0; [reflexivity | exact Z].
        -- intros X. apply in_map_iff in X. destruct X as [[j' i'] [X1 X2]]. simpl in X1; subst j'.
           pose proof (SP _ _ X2) as Y. apply index_of_Some in Y. destruct Y as [_ Y].
           rewrite NJ in Y.
           assert (In i' keys) by (rewrite <- MS; change i' with (snd (j, i')); apply in_map; auto).
           assert (i' = i).
           { apply (proj1 (NoDup_nth (cas right) O) WR); auto; try (apply LT; auto); congruence. }
           subst; tauto.
    + rewrite gen_pairs_other; [rewrite G0; reflexivity|].
      intros X. apply in_map_iff in X. destruct X as [[j' i'] [X1 X2]]. simpl in X1; subst j'.
      pose proof (SP _ _ X2) as Y. apply index_of_Some in Y. destruct Y as [_ Y].
      rewrite NJ in Y. apply index_of_None in ER. apply ER. rewrite Y. apply nth_In.
      apply LT. rewrite <- MS. change i' with (snd (j, i')). apply in_map; auto.
  - right. split; auto. unfold getc. destruct (index_of c (cas right)) as [i|] eqn:ER; [|reflexivity].
    destruct (Qeq_dec (nthq v i) 0) as [Z|NZ]; auto. exfalso.
    apply CV in NZ. rewrite <- MS in NZ. apply in_map_iff in NZ.
    destruct NZ as [[j' i'] [X1 X2]]. simpl in X1; subst i'.
    pose proof (SP _ _ X2) as Y. destruct (index_of_Some _ _ _ ER) as [_ NI]. rewrite NI in Y. congruence.
Qed.

(* ---------- nonzero keys ---------- *)
Lemma nz_keys_rows_nodup n rows : NoDup (nz_keys_rows n rows).
Proof. unfold nz_keys_rows. apply NoDup_filter. apply seq_NoDup. Qed.
Lemma nz_keys_rows_lt n rows i : In i (nz_keys_rows n rows) -> (i < n)%nat.
Proof. unfold nz_keys_rows. intros H. apply filter_In in H. destruct H as [H _]. apply in_seq in H. lia. Qed.
Lemma nz_keys_rows_covers n rows r : In r rows -> (length r <= n)%nat -> covers (nz_keys_rows n rows) r.
Proof.
  intros IN L i NZ. unfold nz_keys_rows. apply filter_In. split.
  - apply in_seq. destruct (Nat.lt_ge_cases i (length r)); [lia|].
    exfalso. apply NZ. rewrite nthq_overflow; auto. reflexivity.
  - unfold any_nz. apply existsb_exists. exists r. split; auto.
    apply negb_true_iff. apply qzerob_false. auto.
Qed.
Lemma nz_keys_covers v : covers (nz_keys v) v.
Proof. apply nz_keys_rows_covers; [left; auto | lia]. Qed.

(* ---------- "adds like": what adding an other-package row does, per chemical ---------- *)
Definition adds_like (left : pkg) (vp : vec * list (nat * nat)) (f : nat -> Q) : Prop :=
  forall d c, length d = psize left ->
    getc left (add_pairs d (snd vp) (fst vp)) c == getc left d c + f c.

Lemma getc_none p v c : index_of c (cas p) = None -> getc p v c = 0.
Proof. intros H. unfold getc. rewrite H. reflexivity. Qed.

Lemma overlap_adds_like left right keys pr v :
  overlap left right keys = Ok pr -> wf_pkg left -> wf_pkg right ->
  NoDup keys -> (forall i, In i keys -> (i < psize right)%nat) -> covers keys v ->
  adds_like left (v, pr) (getc right v).
Proof.
  intros OV WL WR ND LT CV d c LD. simpl. rewrite add_pairs_gen.
  destruct (pairs_getc Qplus left right keys pr d v c OV WL WR ND LT CV LD) as [H|[H1 H2]].
  - intros j y Y. rewrite Y. lra.
  - exact H.
  - rewrite !getc_none by auto. rewrite H2. lra.
Qed.

Lemma add_others_getc left od fs d c :
  Forall2 (adds_like left) od fs -> length d = psize left ->
  getc left (add_others d od) c == getc left d c + qsum (map (fun f => f c) fs) /\
  length (add_others d od) = length d.
Proof.
  intros F. revert d. induction F as [|vp f od fs A F IH]; intros d LD; simpl.
  - split; [lra | auto].
  - unfold add_others in *. simpl.
    assert (length (add_pairs d (snd vp) (fst vp)) = length d) as L1
      by (rewrite add_pairs_gen; apply gen_pairs_length).
    destruct (IH (add_pairs d (snd vp) (fst vp))) as [E L]; [lia|].
    split; [|lia]. rewrite E. rewrite (A d c LD). lra.
Qed.

(* remap = bring a row of another package into this package's order *)
Lemma remap_getc left right row r : remap left right row = Ok r ->
  wf_pkg left -> wf_pkg right -> length row = psize right ->
  length r = psize left /\ forall c, getc left r c == getc right row c.
Proof.
  unfold remap. intros H WL WR LR.
  destruct (overlap left right (nz_keys row)) as [pr|] eqn:OV; simpl in H; [|discriminate].
  inversion H; subst. split.
  - rewrite set_pairs_gen, gen_pairs_length. apply vzero_length.
  - intros c. rewrite set_pairs_gen.
    destruct (pairs_getc (fun _ x => x) left right (nz_keys row) pr (vzero (psize left)) row c OV WL WR) as [E|[E1 E2]].
    + apply nz_keys_rows_nodup.
    + intros i I. apply nz_keys_rows_lt in I. lia.
    + apply nz_keys_covers.
    + apply vzero_length.
    + intros j y Y. rewrite nthq_vzero. exact Y.
    + exact E.
    + rewrite getc_none by auto. rewrite E2. reflexivity.
Qed.

(* ---------- SparseVector.mix_from ---------- *)
Definition scval (p : pkg) (self : vec) (c : nat) (o : option vec) : Q :=
  match o with None => getc p self c | Some v => getc p v c end.

Lemma inject_nat_succ n : inject_Z (Z.of_nat (S n)) == inject_Z (Z.of_nat n) + 1.
Proof. rewrite Nat2Z.inj_succ. unfold Z.succ. rewrite inject_Z_plus. reflexivity. Qed.

Lemma scval_split p self c l :
  qsum (map (scval p self c) l) ==
  qsum (map (fun v => getc p v c) (somes l)) + inject_Z (Z.of_nat (count_self l)) * getc p self c.
Proof.
  induction l as [|[v|] l IH].
  - simpl. unfold inject_Z. lra.
  - simpl. rewrite IH. lra.
  - cbn [map qsum fold_right somes count_self scval]. rewrite inject_nat_succ.
    change (fold_right Qplus 0 (map (scval p self c) l)) with (qsum (map (scval p self c) l)).
    rewrite IH.
    set (a := qsum (map (fun v => getc p v c) (somes l))).
    set (b := inject_Z (Z.of_nat (count_self l))). set (g := getc p self c).
    unfold qsum in a. fold a. ring.
Qed.

Lemma somes_in v l : In v (somes l) -> In (Some v) l.
Proof. induction l as [|[w|] l IH]; simpl; intros H; auto. destruct H; [left; congruence | right; auto]. Qed.

Lemma sv_mix_from_getc p self others c :
  (forall v, In (Some v) others -> length v = length self) ->
  getc p (sv_mix_from self others) c == qsum (map (scval p self c) others) /\
  length (sv_mix_from self others) = length self.
Proof.
  intros HL. unfold sv_mix_from. destruct others as [|o others'] eqn:EO.
  - simpl. rewrite getc_vzero. split; [reflexivity | apply vzero_length].
  - rewrite <- EO in *. clear EO o others'.
    assert (forall v, In v (somes others) -> length v = length self) as HS
      by (intros v I; apply HL; apply somes_in; auto).
    rewrite scval_split.
    destruct (count_self others) as [|[|k]] eqn:EC.
    + split; [|apply vsum_length; auto]. rewrite getc_vsum by auto.
      change (inject_Z (Z.of_nat 0)) with 0. lra.
    + assert (forall v, In v (somes others ++ [self]) -> length v = length self) as HS'
        by (intros v I; apply in_app_iff in I; destruct I as [I|[I|[]]]; [auto | subst; auto]).
      split; [|apply vsum_length; auto]. rewrite getc_vsum by auto.
      rewrite map_app, qsum_app. cbn [map qsum fold_right]. change (inject_Z (Z.of_nat 1)) with 1. lra.
    + assert (forall v, In v (somes others ++ [vscale (inject_Z (Z.of_nat (S (S k)))) self]) -> length v = length self) as HS'.
      { intros v I; apply in_app_iff in I; destruct I as [I|[I|[]]]; [auto|]. subst. apply vscale_length. }
      split; [|apply vsum_length; auto]. rewrite getc_vsum by auto.
      rewrite map_app, qsum_app. cbn [map qsum fold_right]. rewrite getc_vscale.
      set (K := inject_Z (Z.of_nat (S (S k))) * getc p self c). lra.
Qed.

(* ---------- ChemicalIndexer.mix_from ---------- *)
Definition inl_stream (self : stream) (i : inl) : stream :=
  match i with ISelf => self | IC c => SS c | IM m => MS m end.
Definition inl_ok (left : pkg) (s : stream) : Prop := wf_stream s /\ coherent left (spkg s).

Lemma same_pkg_eq a b : same_pkg a b = true -> coherent a b -> a = b.
Proof. unfold same_pkg, coherent. intros H C. apply Nat.eqb_eq in H. auto. Qed.

Lemma qsum_map_some p self c rows :
  qsum (map (scval p self c) (map Some rows)) = qsum (map (fun r => getc p r c) rows).
Proof. rewrite map_map. reflexivity. Qed.

Lemma cparts_value self i sc od :
  cparts self i = Ok (sc, od) -> wf_stream (SS self) -> inl_ok (cpkg self) (inl_stream (SS self) i) ->
  (forall v, In (Some v) sc -> length v = length (crow self)) /\
  exists fs, Forall2 (adds_like (cpkg self)) od fs /\
    forall c, qsum (map (scval (cpkg self) (crow self) c) sc) + qsum (map (fun f => f c) fs)
              == tot (inl_stream (SS self) i) c.
Proof.
  intros H [WP [WL _]] [[WP' [WL' _]] CO]. simpl in WP, WL.
  assert (length (crow self) = psize (cpkg self)) as LS by (apply WL; left; auto).
  destruct i as [|c0|m]; simpl in *.
  - inversion H; subst. split; [intros v [X|[]]; discriminate|].
    exists []. split; [constructor|]. intros c. unfold tot, rows_tot. simpl. lra.
  - destruct (same_pkg (cpkg self) (cpkg c0)) eqn:SP.
    + inversion H; subst. pose proof (same_pkg_eq _ _ SP CO) as E.
      split. { intros v [X|[]]. inversion X; subst. rewrite LS, E. apply WL'; left; auto. }
      exists []. split; [constructor|]. intros c. unfold tot, rows_tot. simpl. rewrite E. lra.
    + destruct (overlap (cpkg self) (cpkg c0) (nz_keys (crow c0))) as [pr|] eqn:OV; simpl in H; [|discriminate].
      inversion H; subst. split; [intros v []|].
      exists [getc (cpkg c0) (crow c0)]. split.
      * constructor; [|constructor]. eapply overlap_adds_like; eauto.
        -- apply nz_keys_rows_nodup.
        -- intros i I. apply nz_keys_rows_lt in I. rewrite <- (WL' (crow c0)); [auto | left; auto].
        -- apply nz_keys_covers.
      * intros c. unfold tot, rows_tot. simpl. lra.
  - destruct (same_pkg (cpkg self) (mpkg m)) eqn:SP.
    + inversion H; subst. pose proof (same_pkg_eq _ _ SP CO) as E.
      split. { intros v X. apply in_map_iff in X. destruct X as [r [X1 X2]]. inversion X1; subst.
               rewrite LS, E. apply WL'; auto. }
      exists []. split; [constructor|]. intros c. unfold tot, rows_tot. simpl.
      rewrite qsum_map_some. rewrite E. lra.
    + destruct (overlap (cpkg self) (mpkg m) (nz_keys (vsum (psize (mpkg m)) (mrows m)))) as [pr|] eqn:OV;
        simpl in H; [|discriminate].
      inversion H; subst. split; [intros v []|].
      assert (length (vsum (psize (mpkg m)) (mrows m)) = psize (mpkg m)) as LV by (apply vsum_length; auto).
      exists [getc (mpkg m) (vsum (psize (mpkg m)) (mrows m))]. split.
      * constructor; [|constructor]. eapply overlap_adds_like; eauto.
        -- apply nz_keys_rows_nodup.
        -- intros i I. apply nz_keys_rows_lt in I. lia.
        -- apply nz_keys_covers.
      * intros c. unfold tot, rows_tot. simpl. rewrite getc_vsum by auto. lra.
Qed.

Lemma Forall2_app_l {A B} (R : A -> B -> Prop) a1 a2 b1 b2 :
  Forall2 R a1 b1 -> Forall2 R a2 b2 -> Forall2 R (a1 ++ a2) (b1 ++ b2).
Proof. intros H1 H2. induction H1; simpl; auto. Qed.

Lemma cparts_all_value self l sc od :
  cparts_all self l = Ok (sc, od) -> wf_stream (SS self) ->
  (forall i, In i l -> inl_ok (cpkg self) (inl_stream (SS self) i)) ->
  (forall v, In (Some v) sc -> length v = length (crow self)) /\
  exists fs, Forall2 (adds_like (cpkg self)) od fs /\
    forall c, qsum (map (scval (cpkg self) (crow self) c) sc) + qsum (map (fun f => f c) fs)
              == qsum (map (fun i => tot (inl_stream (SS self) i) c) l).
Proof.
  revert sc od; induction l as [|i l IH]; intros sc od H W OK; simpl in H.
  - inversion H; subst. split; [intros v []|]. exists []. split; [constructor|]. intros c; simpl; lra.
  - destruct (cparts self i) as [[sc1 od1]|] eqn:E1; simpl in H; [|discriminate].
    destruct (cparts_all self l) as [[sc2 od2]|] eqn:E2; simpl in H; [|discriminate].
    inversion H; subst.
    destruct (cparts_value _ _ _ _ E1 W (OK i (or_introl eq_refl))) as [L1 [fs1 [F1 V1]]].
    destruct (IH _ _ eq_refl W (fun j J => OK j (or_intror J))) as [L2 [fs2 [F2 V2]]].
    split. { intros v I. apply in_app_iff in I. destruct I; auto. }
    exists (fs1 ++ fs2). split; [apply Forall2_app_l; auto|].
    intros c. simpl. rewrite !map_app, !qsum_app. rewrite <- V1, <- V2. lra.
Qed.

Lemma cmix_from_value self others c' :
  cmix_from self others = Ok c' -> wf_stream (SS self) ->
  (forall i, In i others -> inl_ok (cpkg self) (inl_stream (SS self) i)) ->
  cpkg c' = cpkg self /\ length (crow c') = psize (cpkg self) /\
  forall c, getc (cpkg self) (crow c') c == qsum (map (fun i => tot (inl_stream (SS self) i) c) others).
Proof.
  intros H W OK. unfold cmix_from in H. destruct others as [|o l] eqn:EO; [discriminate|].
  rewrite <- EO in *. clear EO o l.
  destruct (cparts_all self others) as [[sc od]|] eqn:E; simpl in H; [|discriminate].
  inversion H; subst. simpl.
  destruct (cparts_all_value _ _ _ _ E W OK) as [L [fs [F V]]].
  destruct W as [WP [WL _]]. simpl in WL.
  assert (length (crow self) = psize (cpkg self)) as LS by (apply WL; left; auto).
  destruct (sv_mix_from_getc (cpkg self) (crow self) sc 0%nat L) as [_ LM].
  split; auto.
  destruct (add_others_getc (cpkg self) od fs (sv_mix_from (crow self) sc) 0%nat F) as [_ LA]; [lia|].
  split; [lia|]. intros c.
  destruct (add_others_getc (cpkg self) od fs (sv_mix_from (crow self) sc) c F) as [EA _]; [lia|].
  rewrite EA. destruct (sv_mix_from_getc (cpkg self) (crow self) sc c L) as [EM _].
  rewrite EM. apply V.
Qed.

(* ---------- Stream.mix_from, single-phase receiver, material only ---------- *)
Definition tot_at (st : store) (c : nat) (i : nat) : Q :=
  match nth_error st i with Some s => tot s c | None => 0 end.

Lemma gets_ok st i s : gets st i = Ok s -> nth_error st i = Some s.
Proof. unfold gets. destruct (nth_error st i); intros H; inversion H; auto. Qed.

Lemma gets_all_spec st l all : gets_all st l = Ok all ->
  map fst all = l /\ forall js, In js all -> nth_error st (fst js) = Some (snd js).
Proof.
  revert all; induction l as [|i l IH]; intros all H; simpl in H.
  - inversion H; subst. split; auto. intros ? [].
  - destruct (gets st i) as [s|] eqn:E; simpl in H; [|discriminate].
    destruct (gets_all st l) as [r|] eqn:E2; simpl in H; [|discriminate].
    inversion H; subst. destruct (IH r eq_refl) as [A B]. split; [simpl; f_equal; auto|].
    intros js [X|X]; [subst; simpl; apply gets_ok; auto | auto].
Qed.

Lemma row_any_false_getc p r c : row_any r = false -> getc p r c == 0.
Proof.
  intros H. unfold getc. destruct (index_of c (cas p)) as [i|]; [|reflexivity].
  unfold row_any in H. destruct (Nat.lt_ge_cases i (length r)) as [L|L].
  - assert (In (nthq r i) r) by (unfold nthq; apply nth_In; auto).
    destruct (qzerob (nthq r i)) eqn:Z; [apply qzerob_true; auto|].
    exfalso. assert (existsb (fun x => negb (qzerob x)) r = true); [|congruence].
    apply existsb_exists. exists (nthq r i). rewrite Z. auto.
  - rewrite nthq_overflow; auto. reflexivity.
Qed.
Lemma isempty_tot s c : isempty s = true -> tot s c == 0.
Proof.
  unfold isempty, tot, rows_tot. intros H. apply negb_true_iff in H. unfold rows_any in H.
  induction (srows s) as [|r rows IH]; simpl in *; [reflexivity|].
  apply orb_false_iff in H. destruct H as [H1 H2]. rewrite IH by auto.
  rewrite (row_any_false_getc _ _ _ H1). lra.
Qed.
Lemma empty_stream_tot s c : tot (empty_stream s) c == 0.
Proof.
  destruct s as [c0|m]; unfold tot, rows_tot; simpl.
  - rewrite getc_vzero. lra.
  - induction (mrows m) as [|r rows IH]; simpl; [reflexivity|]. rewrite getc_vzero, IH. lra.
Qed.

Lemma qsum_filter_nonempty st c (all : list (nat * stream)) :
  (forall js, In js all -> nth_error st (fst js) = Some (snd js)) ->
  qsum (map (fun js => tot (snd js) c) (filter (fun js => negb (isempty (snd js))) all))
  == qsum (map (tot_at st c) (map fst all)).
Proof.
  induction all as [|js all IH]; intros H; simpl; [reflexivity|].
  unfold tot_at at 1. rewrite (H js (or_introl eq_refl)).
  destruct (isempty (snd js)) eqn:E; simpl.
  - rewrite IH by (intros; apply H; right; auto). rewrite (isempty_tot _ c E). lra.
  - rewrite IH by (intros; apply H; right; auto). lra.
Qed.

Lemma mix_noeb st r ins hf rs all : gets st r = Ok rs -> gets_all st ins = Ok all ->
  mix st r ins false hf =
  match filter (fun js => negb (isempty (snd js))) all with
  | [] => Ok (empty_stream rs)
  | ne => imol_mix_from rs (map (to_inl r) ne)
  end.
Proof.
  intros G GA. unfold mix. rewrite G, GA. cbn [bind].
  destruct (filter (fun js => negb (isempty (snd js))) all) as [|a [|b t]]; auto.
  destruct (imol_mix_from rs (map (to_inl r) (a :: b :: t))); reflexivity.
Qed.

Lemma mix_value_single_lemma st r ins hf c0 r' :
  wf_store st -> gets st r = Ok (SS c0) -> mix st r ins false hf = Ok r' ->
  spkg r' = cpkg c0 /\ forall c, tot r' c == qsum (map (tot_at st c) ins).
Proof.
  intros [WS CO] G H.
  destruct (gets_all st ins) as [all|] eqn:GA;
    [|unfold mix in H; rewrite G, GA in H; discriminate].
  rewrite (mix_noeb _ _ _ _ _ _ G GA) in H.
  destruct (gets_all_spec _ _ _ GA) as [MF NE].
  pose proof (gets_ok _ _ _ G) as GR.
  assert (In (SS c0) st) as INR by (eapply nth_error_In; eauto).
  set (ne := filter (fun js => negb (isempty (snd js))) all) in *.
  assert (forall js, In js ne -> nth_error st (fst js) = Some (snd js)) as NE'
    by (intros js I; apply NE; unfold ne in I; apply filter_In in I; tauto).
  assert (forall c, qsum (map (fun js => tot (snd js) c) ne) == qsum (map (tot_at st c) ins)) as SUM
    by (intros c; rewrite <- MF; apply qsum_filter_nonempty; auto).
  assert (forall r1, imol_mix_from (SS c0) (map (to_inl r) ne) = Ok r1 -> ne <> [] ->
          spkg r1 = cpkg c0 /\ forall c, tot r1 c == qsum (map (tot_at st c) ins)) as KEY.
  { intros r1 H1 NN. simpl in H1.
    destruct (cmix_from c0 (map (to_inl r) ne)) as [c'|] eqn:CM; simpl in H1; [|discriminate].
    inversion H1; subst.
    destruct (cmix_from_value _ _ _ CM (WS _ INR)) as [P [L V]].
    - intros i I. apply in_map_iff in I. destruct I as [js [I1 I2]]. subst i.
      pose proof (NE' _ I2) as N2. unfold to_inl.
      destruct (Nat.eqb r (fst js)) eqn:ER; simpl.
      + split; [apply WS; auto | intros _; reflexivity].
      + assert (In (snd js) st) as IS by (eapply nth_error_In; eauto).
        pose proof (CO (SS c0) (snd js) INR IS) as CC. pose proof (WS _ IS) as WW.
        destruct (snd js); simpl in *; split; auto.
    - simpl. split; auto. intros c. unfold tot, rows_tot. simpl. rewrite P. rewrite V.
      rewrite <- SUM. rewrite map_map.
      assert (forall js, In js ne -> tot (inl_stream (SS c0) (to_inl r js)) c = tot (snd js) c) as EQ.
      { intros js I. unfold to_inl. destruct (Nat.eqb r (fst js)) eqn:ER; simpl.
        - apply Nat.eqb_eq in ER. pose proof (NE' _ I) as N2. rewrite <- ER, GR in N2.
          inversion N2. reflexivity.
        - destruct (snd js); reflexivity. }
      rewrite Qplus_0_r. apply qsum_map_ext. intros js I. rewrite (EQ js I). reflexivity. }
  destruct ne as [|a t] eqn:EN.
  - assert (r' = empty_stream (SS c0)) as ER by (inversion H; reflexivity). rewrite ER.
    split; [reflexivity|]. intros c. rewrite empty_stream_tot. rewrite <- SUM. simpl. reflexivity.
  - apply KEY; [exact H | discriminate].
Qed.

(* ---------- scale ---------- *)
Lemma scale_value_lemma k s c : tot (scale k s) c == k * tot s c.
Proof.
  destruct s as [c0|m]; unfold tot, rows_tot; simpl.
  - rewrite getc_vscale. lra.
  - induction (mrows m) as [|r rows IH]; simpl; [lra|]. rewrite getc_vscale, IH. lra.
Qed.
Lemma scale_rows_lemma k s : spkg (scale k s) = spkg s /\ sphases (scale k s) = sphases s /\
  srows (scale k s) = map (vscale k) (srows s).
Proof. destruct s; simpl; auto. Qed.

(* ---------- Stream.split_to ---------- *)
Lemma put_values_value fpkg values out a :
  put_values fpkg values out = Ok a ->
  wf_pkg fpkg -> wf_pkg (spkg out) -> coherent (spkg out) fpkg -> length values = psize fpkg ->
  spkg a = spkg out /\ forall c, tot a c == getc fpkg values c.
Proof.
  intros H WF WO CO LV. destruct out as [c0|m]; simpl in *.
  - destruct (same_pkg (cpkg c0) fpkg) eqn:SP.
    + inversion H; subst. simpl. split; auto. intros c. unfold tot, rows_tot. simpl.
      rewrite (same_pkg_eq _ _ SP CO). lra.
    + destruct (remap (cpkg c0) fpkg values) as [r|] eqn:RM; simpl in H; [|discriminate].
      inversion H; subst. simpl. split; auto. intros c. unfold tot, rows_tot. simpl.
      destruct (remap_getc _ _ _ _ RM WO WF LV) as [_ E]. rewrite E. lra.
  - destruct (same_pkg (mpkg m) fpkg); [discriminate|].
    destruct (row_any values) eqn:RA.
    + destruct (overlap (mpkg m) fpkg (nz_keys values)); simpl in H; discriminate.
    + inversion H; subst. split; [reflexivity|]. intros c.
      rewrite (empty_stream_tot (MS m) c). rewrite (row_any_false_getc _ _ _ RA). reflexivity.
Qed.

Lemma to_single_pkg s p : spkg (to_single s p) = spkg s.
Proof. destruct s; reflexivity. Qed.

Lemma split_single_value fpkg fphase frow s1 s2 sp eb a b :
  split_single fpkg fphase frow s1 s2 sp eb = Ok (a, b) ->
  wf_pkg fpkg -> length frow = psize fpkg -> length (split_vec (length frow) sp) = length frow ->
  wf_pkg (spkg s1) -> wf_pkg (spkg s2) -> coherent (spkg s1) fpkg -> coherent (spkg s2) fpkg ->
  let spv := split_vec (length frow) sp in
  forall c,
    tot a c == getc fpkg (vmul frow spv) c /\
    tot b c == getc fpkg frow c - getc fpkg (vmul frow spv) c /\
    tot a c + tot b c == getc fpkg frow c.
Proof.
  intros H WF LF LS W1 W2 C1 C2 spv c. unfold split_single in H. fold spv in H.
  set (o1 := if eb then to_single s1 fphase else s1) in *.
  set (o2 := if eb then to_single s2 fphase else s2) in *.
  assert (spkg o1 = spkg s1) as P1 by (unfold o1; destruct eb; [apply to_single_pkg | reflexivity]).
  assert (spkg o2 = spkg s2) as P2 by (unfold o2; destruct eb; [apply to_single_pkg | reflexivity]).
  destruct (put_values fpkg (vmul frow spv) o1) as [x|] eqn:E1; simpl in H; [|discriminate].
  destruct (put_values fpkg (vsub frow (vmul frow spv)) o2) as [y|] eqn:E2; simpl in H; [|discriminate].
  inversion H; subst.
  assert (length (vmul frow spv) = length frow) as LM by (apply map2_length; unfold spv; lia).
  destruct (put_values_value _ _ _ _ E1 WF) as [_ V1]; try rewrite P1; auto; [lia|].
  destruct (put_values_value _ _ _ _ E2 WF) as [_ V2]; try rewrite P2; auto.
  { unfold vsub. rewrite map2_length; lia. }
  rewrite V1, V2. rewrite getc_vsub by lia. repeat split; lra.
Qed.

(* the first outlet is split * feed for every chemical of the feed's package *)
Lemma split_product fpkg frow spv c i : index_of c (cas fpkg) = Some i -> length frow = length spv ->
  getc fpkg (vmul frow spv) c == getc fpkg frow c * getc fpkg spv c.
Proof. intros H L. unfold getc. rewrite H. apply nthq_vmul; auto. Qed.
