(* C01 — totality of Stream.mix_from: when the receiver's package lists every chemical that
   flows in the inlets (non-negative flows) and the temperature solver works, the model never
   returns Err — whatever the phases, classes and packages of the receiver and the inlets. *)
From V Require Import Common.NumFacts C01.Model C01.Proofs C01.ProofsMulti C01.ProofsMix.

Definition nonneg_stream (s : stream) : Prop := forall r, In r (srows s) -> forall i, 0 <= nthq r i.
Definition pkgs_ok (st : store) (r : nat) (ins : list nat) : Prop :=
  forall rs, nth_error st r = Some rs -> forall i s, In i ins -> nth_error st i = Some s ->
  forall c, ~ tot s c == 0 -> In c (cas (spkg rs)).

(* every non-zero entry of [s] belongs to a chemical of [left] *)
Definition covered (left : pkg) (s : stream) : Prop :=
  forall row, In row (srows s) -> forall i, ~ nthq row i == 0 -> In (nth i (cas (spkg s)) O) (cas left).

Lemma qsum_cons x l : qsum (x :: l) = x + qsum l.
Proof. reflexivity. Qed.
Lemma qsum_nonneg (l : list Q) : (forall y, In y l -> 0 <= y) -> 0 <= qsum l.
Proof.
  induction l as [|a l IH]; intros NN; [simpl; lra|]. rewrite qsum_cons.
  assert (0 <= a) by (apply NN; left; auto).
  assert (0 <= qsum l) by (apply IH; intros; apply NN; right; auto). lra.
Qed.
Lemma qsum_ge_member (l : list Q) x : (forall y, In y l -> 0 <= y) -> In x l -> x <= qsum l.
Proof.
  induction l as [|a l IH]; intros NN I; [destruct I|]. rewrite qsum_cons.
  assert (0 <= a) by (apply NN; left; auto).
  assert (0 <= qsum l) by (apply qsum_nonneg; intros; apply NN; right; auto).
  destruct I as [E|I]; [subst; lra|].
  assert (x <= qsum l) by (apply IH; auto; intros; apply NN; right; auto). lra.
Qed.

Lemma chem_in s row i : wf_stream s -> nonneg_stream s -> In row (srows s) -> ~ nthq row i == 0 ->
  ~ tot s (nth i (cas (spkg s)) O) == 0.
Proof.
  intros [WP [WL _]] NN IR NZ.
  assert (i < psize (spkg s))%nat as LI.
  { rewrite <- (WL row IR). destruct (Nat.lt_ge_cases i (length row)); auto.
    exfalso. apply NZ. rewrite nthq_overflow; auto. reflexivity. }
  unfold tot, rows_tot. 
  assert (forall r, getc (spkg s) r (nth i (cas (spkg s)) O) = nthq r i) as GE.
  { intros r. unfold getc. rewrite index_of_nth; auto. }
  assert (nthq row i <= qsum (map (fun r => getc (spkg s) r (nth i (cas (spkg s)) O)) (srows s))) as LE.
  { apply qsum_ge_member.
    - intros y I. apply in_map_iff in I. destruct I as [r [E I]]. subst. rewrite GE. apply NN; auto.
    - apply in_map_iff. exists row. split; auto. }
  pose proof (NN row IR i) as P0. intros Z. rewrite Z in LE. apply NZ. lra.
Qed.

Lemma covered_of_pkgs_ok left s : wf_stream s -> nonneg_stream s ->
  (forall c, ~ tot s c == 0 -> In c (cas left)) -> covered left s.
Proof. intros W NN H row IR i NZ. apply H. eapply chem_in; eauto. Qed.

(* ---------- index_overlap succeeds on covered data ---------- *)
Lemma overlap_total left right keys :
  (forall i, In i keys -> In (nth i (cas right) O) (cas left)) -> exists pr, overlap left right keys = Ok pr.
Proof.
  induction keys as [|k keys IH]; intros H; simpl; [eauto|].
  destruct (index_of_In _ _ (H k (or_introl eq_refl))) as [j E]. rewrite E.
  destruct (IH (fun i I => H i (or_intror I))) as [pr E2]. rewrite E2. simpl. eauto.
Qed.
Lemma nz_keys_rows_in n rows i : In i (nz_keys_rows n rows) -> exists r, In r rows /\ ~ nthq r i == 0.
Proof.
  unfold nz_keys_rows. intros H. apply filter_In in H. destruct H as [_ H]. unfold any_nz in H.
  apply existsb_exists in H. destruct H as [r [I N]]. exists r. split; auto.
  apply negb_true_iff in N. apply qzerob_false; auto.
Qed.
Lemma vsum_nz n rows i : (forall r, In r rows -> length r = n) -> ~ nthq (vsum n rows) i == 0 ->
  exists r, In r rows /\ ~ nthq r i == 0.
Proof.
  intros WL NZ. rewrite nthq_vsum in NZ by auto.
  induction rows as [|r rows IH]; simpl in NZ; [exfalso; apply NZ; reflexivity|].
  destruct (Qeq_dec (nthq r i) 0) as [Z|N]; [|exists r; split; [left|]; auto].
  destruct IH as [x [I X]].
  - intros; apply WL; right; auto.
  - intros E. apply NZ. unfold qsum in E. rewrite Z, E. lra.
  - exists x. split; [right|]; auto.
Qed.

Lemma overlap_rows_total left opk rows n : covered left (MS (mkm opk [] rows)) ->
  exists pr, overlap left opk (nz_keys_rows n rows) = Ok pr.
Proof.
  intros CV. apply overlap_total. intros i I. apply nz_keys_rows_in in I. destruct I as [r [IR NZ]].
  apply (CV r IR i NZ).
Qed.
Lemma covered_rows left opk ph ph' rows : covered left (MS (mkm opk ph rows)) -> covered left (MS (mkm opk ph' rows)).
Proof. intros H. exact H. Qed.
Lemma remap_total left opk row : covered left (SS (mkc opk Pl row)) -> exists r, remap left opk row = Ok r.
Proof.
  intros CV. unfold remap. destruct (overlap_total left opk (nz_keys row)) as [pr E].
  - intros i I. apply nz_keys_rows_in in I. destruct I as [r [[IR|[]] NZ]]. rewrite <- IR in NZ.
    apply (CV row (or_introl eq_refl) i NZ).
  - rewrite E. simpl. eauto.
Qed.
Lemma covered_vsum left o : (forall r, In r (mrows o) -> length r = psize (mpkg o)) ->
  covered left (MS o) -> forall ph, covered left (SS (mkc (mpkg o) ph (vsum (psize (mpkg o)) (mrows o)))).
Proof.
  intros WL CV ph row [E|[]] i NZ. subst. simpl in *.
  destruct (vsum_nz _ _ _ WL NZ) as [r [IR N]]. apply (CV r IR i N).
Qed.

Definition inl_covered (left : pkg) (i : inl) : Prop :=
  match i with ISelf => True | IC c => covered left (SS c) | IM m => covered left (MS m) end.

(* ---------- ChemicalIndexer.mix_from ---------- *)
Lemma cparts_total self i : inl_covered (cpkg self) i ->
  (match i with IM m => forall r, In r (mrows m) -> length r = psize (mpkg m) | _ => True end) ->
  exists x, cparts self i = Ok x.
Proof.
  intros CV WL. destruct i as [|c|m]; simpl; [eauto| |].
  - destruct (same_pkg (cpkg self) (cpkg c)); [eauto|].
    destruct (overlap_total (cpkg self) (cpkg c) (nz_keys (crow c))) as [pr E].
    + intros i I. apply nz_keys_rows_in in I. destruct I as [r [[IR|[]] NZ]]. subst. apply (CV (crow c) (or_introl eq_refl) i NZ).
    + rewrite E. simpl. eauto.
  - destruct (same_pkg (cpkg self) (mpkg m)); [eauto|].
    destruct (overlap_total (cpkg self) (mpkg m) (nz_keys (vsum (psize (mpkg m)) (mrows m)))) as [pr E].
    + intros i I. apply nz_keys_rows_in in I. destruct I as [r [[IR|[]] NZ]]. subst.
      destruct (vsum_nz _ _ _ WL NZ) as [x [IX N]]. apply (CV x IX i N).
    + rewrite E. simpl. eauto.
Qed.
Definition inl_rows_ok (i : inl) : Prop :=
  match i with IM m => forall r, In r (mrows m) -> length r = psize (mpkg m) | _ => True end.
Lemma cparts_all_total self l : (forall i, In i l -> inl_covered (cpkg self) i /\ inl_rows_ok i) ->
  exists x, cparts_all self l = Ok x.
Proof.
  induction l as [|i l IH]; intros H; simpl; [eauto|].
  destruct (H i (or_introl eq_refl)) as [A B].
  destruct (cparts_total self i A B) as [x E]. rewrite E.
  destruct (IH (fun j J => H j (or_intror J))) as [y E2]. rewrite E2. simpl. eauto.
Qed.
Lemma cmix_from_total self l : l <> [] -> (forall i, In i l -> inl_covered (cpkg self) i /\ inl_rows_ok i) ->
  exists c', cmix_from self l = Ok c'.
Proof.
  intros NE H. unfold cmix_from. destruct l as [|o l']; [congruence|].
  destruct (cparts_all_total self (o :: l') H) as [x E]. rewrite E. simpl. eauto.
Qed.

(* ---------- MaterialIndexer.mix_from ---------- *)
Lemma mcontrib_total self i : inl_covered (mpkg self) i -> exists x, mcontrib self i = Ok x.
Proof.
  intros CV. destruct i as [|c|m]; simpl; [eauto| |].
  - destruct (same_pkg (mpkg self) (cpkg c)); [eauto|].
    destruct (overlap_total (mpkg self) (cpkg c) (nz_keys (crow c))) as [pr E].
    + intros i I. apply nz_keys_rows_in in I. destruct I as [r [[IR|[]] NZ]]. subst. apply (CV (crow c) (or_introl eq_refl) i NZ).
    + rewrite E. simpl. eauto.
  - destruct (same_pkg (mpkg self) (mpkg m)); [eauto|].
    destruct (overlap_total (mpkg self) (mpkg m) (nz_keys_rows (psize (mpkg m)) (mrows m))) as [pr E].
    + intros i I. apply nz_keys_rows_in in I. destruct I as [r [IR NZ]]. apply (CV r IR i NZ).
    + rewrite E. simpl. eauto.
Qed.
Lemma mcontrib_all_total self l : (forall i, In i l -> inl_covered (mpkg self) i) ->
  exists x, mcontrib_all self l = Ok x.
Proof.
  induction l as [|i l IH]; intros H; simpl; [eauto|].
  destruct (mcontrib_total self i (H i (or_introl eq_refl))) as [x E]. rewrite E.
  destruct (IH (fun j J => H j (or_intror J))) as [y E2]. rewrite E2. simpl. eauto.
Qed.
Lemma resolve_all_total phases ks : (forall k, In k ks -> exists q, resolve phases k = Ok q) ->
  resolve_all phases ks = Ok tt.
Proof.
  induction ks as [|k ks IH]; intros H; simpl; auto.
  destruct (H k (or_introl eq_refl)) as [q E]. rewrite E. simpl. apply IH. intros; apply H; right; auto.
Qed.
Lemma mmix_from_total self0 l : (forall i, In i l -> inl_covered (mpkg self0) i) ->
  exists m', mmix_from self0 l = Ok m'.
Proof.
  intros H. unfold mmix_from.
  set (ops := flat_map (inl_phases self0) l).
  set (self := if existsb (fun p => negb (in_indexer p (mphases self0))) ops
               then expand_phases self0 ops else self0).
  assert (mpkg self = mpkg self0) as PK.
  { unfold self. destruct (existsb _ ops); auto. unfold expand_phases. destruct (existsb _ ops); auto. }
  assert (forall k, In k ops -> exists q, resolve (mphases self) k = Ok q) as RES.
  { intros k I. unfold self.
    destruct (existsb (fun p => negb (in_indexer p (mphases self0))) ops) eqn:EX.
    - rewrite expand_phases_phases.
      destruct (existsb (fun p => negb (pmem p (mphases self0))) ops) eqn:EX2.
      + exists k. unfold resolve. rewrite pmem_psort.
        assert (pmem k (ops ++ mphases self0) = true) as PM by (apply pmem_In; apply in_app_iff; auto).
        rewrite PM. reflexivity.
      + exists k. unfold resolve.
        assert (pmem k (mphases self0) = true) as PM.
        { destruct (pmem k (mphases self0)) eqn:E; auto. exfalso.
          assert (existsb (fun p => negb (pmem p (mphases self0))) ops = true); [|congruence].
          apply existsb_exists. exists k. rewrite E. auto. }
        rewrite PM. reflexivity.
    - assert (in_indexer k (mphases self0) = true) as II.
      { destruct (in_indexer k (mphases self0)) eqn:E; auto. exfalso.
        assert (existsb (fun p => negb (in_indexer p (mphases self0))) ops = true); [|congruence].
        apply existsb_exists. exists k. rewrite E. auto. }
      unfold in_indexer in II. unfold resolve. destruct (pmem k (mphases self0)); [eauto|].
      simpl in II. rewrite II. eauto. }
  rewrite (resolve_all_total _ _ RES). cbn [bind].
  destruct (mcontrib_all_total self l) as [cs E].
  { intros i I. rewrite PK. auto. }
  rewrite E. simpl. eauto.
Qed.

Lemma imol_mix_total rs inls : inls <> [] ->
  (forall i, In i inls -> inl_covered (spkg rs) i /\ inl_rows_ok i) -> exists r1, imol_mix_from rs inls = Ok r1.
Proof.
  intros NE H. destruct rs as [c|m]; simpl.
  - destruct (cmix_from_total c inls NE H) as [c' E]. rewrite E. simpl. eauto.
  - destruct (mmix_from_total m inls) as [m' E]; [intros i I; apply H; auto|]. rewrite E. simpl. eauto.
Qed.

(* ---------- copy_like ---------- *)
Lemma c_copy_like_total self other : covered (cpkg self) (SS other) -> exists c', c_copy_like self other = Ok c'.
Proof.
  intros CV. unfold c_copy_like. destruct (same_pkg (cpkg self) (cpkg other)); [eauto|].
  destruct (remap_total (cpkg self) (cpkg other) (crow other)) as [r E].
  - intros row [IR|[]] i NZ. subst. apply (CV (crow other) (or_introl eq_refl) i NZ).
  - rewrite E. simpl. eauto.
Qed.

Lemma in_indexer_index p l : in_indexer p l = true -> exists i, phase_index p l = Ok i.
Proof.
  unfold in_indexer, phase_index. intros H. apply orb_true_iff in H.
  destruct (pindex_exact p l) eqn:E; [eauto|].
  destruct H as [H|H].
  - apply pmem_In in H. apply pindex_exact_None in E. contradiction.
  - apply pmem_In in H. destruct (pindex_exact_In _ _ H) as [i E2]. rewrite E2. eauto.
Qed.

Lemma place_rows_total P pk opk pr ops ors acc :
  (forall p, In p ops -> exists i, phase_index p P = Ok i) ->
  exists rows, place_rows P pk opk pr ops ors acc = Ok rows.
Proof.
  revert ors acc; induction ops as [|p ops IH]; intros [|r ors] acc H; simpl; eauto.
  destruct (H p (or_introl eq_refl)) as [i E]. rewrite E. simpl. apply IH. intros; apply H; right; auto.
Qed.

Lemma idx_good_ok P b : idx_good P b = true -> forall p, In p b -> exists i, phase_index p P = Ok i.
Proof.
  unfold idx_good. intros H p I. apply andb_true_iff in H. destruct H as [H _].
  rewrite forallb_forall in H. specialize (H p I). destruct (phase_index p P); [eauto | discriminate].
Qed.

Lemma m_copy_like_total self other : wf_m self -> wf_stream other -> covered (mpkg self) other ->
  exists m', m_copy_like self other = Ok m'.
Proof.
  intros W WO CV. pose proof W as [_ [_ [_ SO]]]. pose proof WO as [_ [_ [_ SO']]]. simpl in SO.
  destruct other as [c|o]; simpl in *.
  - set (self1 := if in_indexer (cphase c) (mphases self) then self else expand_phases self [cphase c]).
    assert (exists i, phase_index (cphase c) (mphases self1) = Ok i) as [i PI].
    { unfold self1. destruct (in_indexer (cphase c) (mphases self)) eqn:II; [apply in_indexer_index; auto|].
      apply in_indexer_index. unfold in_indexer. rewrite expand_phases_phases. simpl.
      assert (pmem (cphase c) (mphases self) = false) as PF.
      { unfold in_indexer in II. apply orb_false_iff in II. tauto. }
      rewrite PF. simpl.
      assert (pmem (cphase c) (pinsert (cphase c) (psort (mphases self))) = true) as PT
        by (apply pmem_In; apply pinsert_In; auto).
      rewrite PT. reflexivity. }
    rewrite PI. cbn [bind]. destruct (same_pkg (mpkg self) (cpkg c)); [eauto|].
    destruct (overlap_total (mpkg self) (cpkg c) (nz_keys (crow c))) as [pr E].
    + intros k I. apply nz_keys_rows_in in I. destruct I as [r [[IR|[]] NZ]]. subst. apply (CV (crow c) (or_introl eq_refl) k NZ).
    + rewrite E. simpl. eauto.
  - assert (exists pr, (if same_pkg (mpkg self) (mpkg o) then Ok []
                        else overlap (mpkg self) (mpkg o) (nz_keys_rows (psize (mpkg o)) (mrows o))) = Ok pr) as [pr E].
    { destruct (same_pkg (mpkg self) (mpkg o)); [eauto|]. apply overlap_total.
      intros k I. apply nz_keys_rows_in in I. destruct I as [r [IR NZ]]. apply (CV r IR k NZ). }
    rewrite E. cbn [bind].
    set (self1 := if phases_eqb (mphases self) (mphases o) || compatible (mphases self) (mphases o)
                  then self else expand_phases self (mphases o)).
    assert (mphases self1 = copy_phases (mphases self) (mphases o)) as EP.
    { unfold self1, copy_phases. destruct (phases_eqb (mphases self) (mphases o) || compatible (mphases self) (mphases o)); auto.
      apply expand_phases_phases. }
    destruct (place_rows_total (mphases self1) (mpkg self) (mpkg o) pr (mphases o) (mrows o)
                (map (fun _ => vzero (psize (mpkg self))) (mphases self1))) as [rows PR].
    { rewrite EP. apply idx_good_ok. apply copy_phases_good; auto. }
    rewrite PR. simpl. eauto.
Qed.

Lemma row_any_vzero n : row_any (vzero n) = false.
Proof. unfold row_any, vzero. induction n; simpl; auto. Qed.

Lemma c_to_material_empty_total pk ph n ps : exists m, c_to_material (mkc pk ph (vzero n)) ps = Ok m.
Proof. unfold c_to_material. simpl. rewrite row_any_vzero. eauto. Qed.
Lemma set_phases_empty_total c0 phs : exists s1, set_phases (empty_stream (SS c0)) phs = Ok s1.
Proof.
  unfold set_phases. cbn [empty_stream].
  destruct (psort phs) as [|p [|p' t]].
  - destruct (c_to_material_empty_total (cpkg c0) (cphase c0) (length (crow c0)) []) as [m E]. rewrite E. simpl. eauto.
  - eauto.
  - destruct (c_to_material_empty_total (cpkg c0) (cphase c0) (length (crow c0)) (p :: p' :: t)) as [m E]. rewrite E. simpl. eauto.
Qed.

Lemma copy_like_total self other : wf_stream self -> wf_stream other -> covered (spkg self) other ->
  exists s', copy_like self other = Ok s'.
Proof.
  intros W WO CV. destruct self as [c0|m].
  2:{ simpl. destruct (m_copy_like_total m other W WO CV) as [m' E]. rewrite E. simpl. eauto. }
  destruct other as [o|o].
  - simpl. destruct (c_copy_like_total c0 o CV) as [c' E]. rewrite E. simpl. eauto.
  - pose proof WO as [_ [WL' _]]. simpl in WL'. simpl in CV.
    destruct (copy_like_SM_cases c0 o) as [[p [r [EP [ER E]]]]|E]; rewrite E.
    + destruct (c_copy_like_total (mkc (cpkg c0) p (crow c0)) (mkc (mpkg o) p r)) as [c' E2].
      { intros row [IR|[]] i NZ. simpl in IR. subst row. apply (CV r); [simpl; rewrite ER; left; auto | exact NZ]. }
      rewrite E2. simpl. eauto.
    + destruct (set_phases_empty_total c0 (mphases o)) as [s1 SP]. rewrite SP. cbn [bind].
      destruct (set_phases_wf _ _ _ SP (wf_empty _ W)) as [W1 PK1]. simpl in PK1.
      destruct s1 as [c1|m]; simpl in PK1.
      * destruct (c_copy_like_total c1 (m_to_chemical o (cphase c1))) as [c' E2].
        { rewrite PK1. apply covered_vsum; auto. }
        rewrite E2. simpl. eauto.
      * destruct (m_copy_like_total m (MS o) W1 WO) as [m' E2]; [rewrite PK1; auto|].
        rewrite E2. simpl. eauto.
Qed.

(* ---------- Stream.mix_from ---------- *)
Lemma gets_all_total st l : (forall i, In i l -> (i < length st)%nat) -> exists all, gets_all st l = Ok all.
Proof.
  induction l as [|i l IH]; intros H; simpl; [eauto|].
  assert (i < length st)%nat as L by (apply H; left; auto).
  unfold gets at 1. destruct (nth_error st i) eqn:E; [|apply nth_error_None in E; lia].
  simpl. destruct (IH (fun j J => H j (or_intror J))) as [all E2]. rewrite E2. simpl. eauto.
Qed.

Lemma mix_total_lemma st r ins eb :
  wf_store st -> (forall s, In s st -> nonneg_stream s) ->
  (r < length st)%nat -> (forall i, In i ins -> (i < length st)%nat) -> pkgs_ok st r ins ->
  exists r', mix st r ins eb 0 = Ok r'.
Proof.
  intros [WS CO] NN LR LI PK.
  destruct (nth_error st r) as [rs|] eqn:GR; [|apply nth_error_None in GR; lia].
  destruct (gets_all_total st ins LI) as [all GA].
  unfold mix, gets. rewrite GR. cbn [bind]. rewrite GA. cbn [bind].
  destruct (gets_all_spec _ _ _ GA) as [MF NE].
  assert (In rs st) as INR by (eapply nth_error_In; eauto).
  set (ne := filter (fun js => negb (isempty (snd js))) all).
  assert (forall js, In js ne -> In (snd js) st /\ covered (spkg rs) (snd js)) as COV.
  { intros js I. unfold ne in I. apply filter_In in I. destruct I as [I _].
    pose proof (NE js I) as N. assert (In (snd js) st) as IS by (eapply nth_error_In; eauto).
    split; auto. apply covered_of_pkgs_ok; auto.
    intros c NZ. apply (PK rs GR (fst js) (snd js)); auto. rewrite <- MF. apply in_map; auto. }
  assert (forall js, In js ne -> inl_covered (spkg rs) (to_inl r js) /\ inl_rows_ok (to_inl r js)) as A1.
  { intros js I. destruct (COV js I) as [IS CV]. pose proof (WS _ IS) as [_ [WL _]].
    unfold to_inl. destruct (Nat.eqb r (fst js)); simpl; auto.
    destruct (snd js); simpl in *; auto. }
  assert (forall js, In js ne -> inl_covered (spkg rs) (to_inl_copy js) /\ inl_rows_ok (to_inl_copy js)) as A2.
  { intros js I. destruct (COV js I) as [IS CV]. pose proof (WS _ IS) as [_ [WL _]].
    unfold to_inl_copy. destruct (snd js); simpl in *; auto. }
  destruct ne as [|a [|b t]] eqn:EN; [eauto| |].
  - destruct eb.
    + destruct (Nat.eqb r (fst a)); [eauto|].
      destruct (COV a (or_introl eq_refl)) as [IS CV].
      apply copy_like_total; auto.
    + apply imol_mix_total; [discriminate|]. intros i [E|[]]. subst. apply A1. left; auto.
  - set (inls := if eb then map to_inl_copy (a :: b :: t) else map (to_inl r) (a :: b :: t)).
    destruct (imol_mix_total rs inls) as [r1 E].
    + unfold inls. destruct eb; discriminate.
    + intros i I. unfold inls in I. destruct eb; apply in_map_iff in I; destruct I as [js [E I]]; subst; auto.
    + rewrite E. cbn [bind]. destruct eb; simpl; eauto.
Qed.

(* ---------- totality with a failing temperature solver (hf > 0) ---------- *)
Lemma imol_mix_pkg rs inls r1 : imol_mix_from rs inls = Ok r1 -> spkg r1 = spkg rs.
Proof.
  destruct rs as [c|m]; simpl; intros H.
  - destruct (cmix_from c inls) as [c'|] eqn:E; simpl in H; [|discriminate]. inversion H; subst.
    unfold cmix_from in E. destruct inls; [discriminate|].
    destruct (cparts_all c (i :: inls)); simpl in E; [|discriminate]. inversion E; reflexivity.
  - destruct (mmix_from m inls) as [m'|] eqn:E; simpl in H; [|discriminate]. inversion H; subst.
    unfold mmix_from in E.
    destruct (resolve_all _ _); simpl in E; [|discriminate].
    destruct (mcontrib_all _ inls); simpl in E; [|discriminate]. inversion E; subst. simpl.
    destruct (existsb _ _); auto. unfold expand_phases. destruct (existsb _ _); reflexivity.
Qed.

Lemma set_phases_pkg s phs s' : set_phases s phs = Ok s' -> spkg s' = spkg s.
Proof.
  unfold set_phases. destruct s as [c|m].
  - destruct (psort phs) as [|p [|p' t]]; intros H; try (inversion H; reflexivity);
      (destruct (c_to_material c _) as [m0|] eqn:E; simpl in H; [|discriminate]; inversion H; subst;
       unfold c_to_material in E; destruct (row_any (crow c));
       [destruct (phase_index _ _); simpl in E; [|discriminate]|]; inversion E; reflexivity).
  - destruct (psort phs) as [|p [|p' t]]; intros H; try (inversion H; reflexivity);
      (destruct (phases_eqb _ (mphases m)); [inversion H; reflexivity|];
       destruct (m_to_material m _) as [m0|] eqn:E; simpl in H; [|discriminate]; inversion H; subst;
       unfold m_to_material in E; destruct (m_to_material_rows _ _ _ _); simpl in E; [|discriminate];
       inversion E; reflexivity).
Qed.

Lemma phase_index_of_mem p l : pmem p l = true -> exists i, phase_index p l = Ok i.
Proof. intros H. apply in_indexer_index. unfold in_indexer. rewrite H. reflexivity. Qed.

Lemma phase_str_in m p r : In (p, r) (map2 (fun p r => (p, r)) (mphases m) (mrows m)) -> row_any r = true ->
  In (lowerp p) (phase_str (MS m)).
Proof.
  intros I RA. simpl.
  assert (forall grp, pmem p grp = true -> group_empty m grp = false) as GE.
  { intros grp PM. unfold group_empty. apply negb_false_iff. apply existsb_exists.
    exists (p, r). split; auto. simpl. rewrite PM, RA. reflexivity. }
  destruct p; simpl.
  - rewrite (GE [Pl; PL]) by reflexivity. apply in_app_iff. right. apply in_app_iff. left. left; auto.
  - rewrite (GE [Ps; PS]) by reflexivity. apply in_app_iff. right. apply in_app_iff. right. left; auto.
  - rewrite (GE [Pg]) by reflexivity. apply in_app_iff. left. left; auto.
  - rewrite (GE [Pl; PL]) by reflexivity. apply in_app_iff. right. apply in_app_iff. left. left; auto.
  - rewrite (GE [Ps; PS]) by reflexivity. apply in_app_iff. right. apply in_app_iff. right. left; auto.
Qed.

Lemma m_to_material_rows_total sp sr ps acc :
  (forall p r, In (p, r) (map2 (fun p r => (p, r)) sp sr) -> row_any r = true -> pmem (lowerp p) ps = true) ->
  exists rows, m_to_material_rows sp sr ps acc = Ok rows.
Proof.
  revert sr acc; induction sp as [|p sp IH]; intros [|r sr] acc H; simpl; eauto.
  destruct (row_any r) eqn:RA.
  - assert (exists i, phase_index (if pmem p ps then p else swapcase p) ps = Ok i) as [i E].
    { destruct (pmem p ps) eqn:PM; [apply phase_index_of_mem; auto|].
      apply phase_index_of_mem. specialize (H p r (or_introl eq_refl) RA).
      destruct p; simpl in *; congruence. }
    rewrite E. simpl. apply IH. intros; eapply H; eauto. right; auto.
  - apply IH. intros; eapply H; eauto. right; auto.
Qed.

Lemma set_phases_total s phs : (forall p, In p (phase_str s) -> In p phs) -> exists s', set_phases s phs = Ok s'.
Proof.
  intros H. unfold set_phases.
  assert (forall p, In p (phase_str s) -> pmem p (psort phs) = true) as PM
    by (intros p I; rewrite pmem_psort; apply pmem_In; auto).
  destruct s as [c|m].
  - assert (forall ps, pmem (cphase c) ps = true -> exists m0, c_to_material c ps = Ok m0) as CM.
    { intros ps P. unfold c_to_material. destruct (row_any (crow c)); [|eauto]. rewrite P.
      destruct (phase_index_of_mem _ _ P) as [i E]. rewrite E. simpl. eauto. }
    specialize (PM (cphase c) (or_introl eq_refl)).
    destruct (psort phs) as [|p [|p' t]]; [| eauto |]; destruct (CM _ PM) as [m0 E]; rewrite E; simpl; eauto.
  - assert (forall ps, (forall p, In p (phase_str (MS m)) -> pmem p ps = true) -> exists m0, m_to_material m ps = Ok m0) as MM.
    { intros ps P. unfold m_to_material.
      destruct (m_to_material_rows_total (mphases m) (mrows m) ps (map (fun _ => vzero (psize (mpkg m))) ps)) as [rows E].
      - intros p r I RA. apply P. eapply phase_str_in; eauto.
      - rewrite E. simpl. eauto. }
    destruct (psort phs) as [|p [|p' t]] eqn:EP; [| eauto |];
      (destruct (phases_eqb _ (mphases m)); [eauto|]; destruct (MM _ PM) as [m0 E]; rewrite E; simpl; eauto).
Qed.

(* Whatever the number hf of failing temperature solves: the mix returns, or the only error that can
   come out is the solver giving up (RuntimeError) at the end of the multi-phase fallback, which
   needs energy balance, hf > 0 and at least two non-empty inlets *)
Lemma mix_total_hf_lemma st r ins eb hf :
  wf_store st -> (forall s, In s st -> nonneg_stream s) ->
  (r < length st)%nat -> (forall i, In i ins -> (i < length st)%nat) -> pkgs_ok st r ins ->
  (exists r', mix st r ins eb hf = Ok r') \/ (mix st r ins eb hf = Err ERuntime /\ eb = true /\ hf <> O).
Proof.
  intros [WS CO] NN LR LI PK.
  destruct (nth_error st r) as [rs|] eqn:GR; [|apply nth_error_None in GR; lia].
  destruct (gets_all_total st ins LI) as [all GA].
  unfold mix, gets. rewrite GR. cbn [bind]. rewrite GA. cbn [bind].
  destruct (gets_all_spec _ _ _ GA) as [MF NE].
  assert (In rs st) as INR by (eapply nth_error_In; eauto).
  set (ne := filter (fun js => negb (isempty (snd js))) all).
  assert (forall js, In js ne -> In (snd js) st /\ covered (spkg rs) (snd js)) as COV.
  { intros js I. unfold ne in I. apply filter_In in I. destruct I as [I _].
    pose proof (NE js I) as N. assert (In (snd js) st) as IS by (eapply nth_error_In; eauto).
    split; auto. apply covered_of_pkgs_ok; auto.
    intros c NZ. apply (PK rs GR (fst js) (snd js)); auto. rewrite <- MF. apply in_map; auto. }
  assert (forall js, In js ne -> inl_covered (spkg rs) (to_inl r js) /\ inl_rows_ok (to_inl r js)) as A1.
  { intros js I. destruct (COV js I) as [IS CV]. pose proof (WS _ IS) as [_ [WL _]].
    unfold to_inl. destruct (Nat.eqb r (fst js)); simpl; auto.
    destruct (snd js); simpl in *; auto. }
  assert (forall js, In js ne -> inl_covered (spkg rs) (to_inl_copy js) /\ inl_rows_ok (to_inl_copy js)) as A2.
  { intros js I. destruct (COV js I) as [IS CV]. pose proof (WS _ IS) as [_ [WL _]].
    unfold to_inl_copy. destruct (snd js); simpl in *; auto. }
  destruct ne as [|a [|b t]] eqn:EN; [left; eauto| |].
  - left. destruct eb.
    + destruct (Nat.eqb r (fst a)); [eauto|].
      destruct (COV a (or_introl eq_refl)) as [IS CV].
      apply copy_like_total; auto.
    + apply imol_mix_total; [discriminate|]. intros i [E|[]]. subst. apply A1. left; auto.
  - set (inls := if eb then map to_inl_copy (a :: b :: t) else map (to_inl r) (a :: b :: t)).
    assert (inls <> []) as NEI by (unfold inls; destruct eb; discriminate).
    assert (forall x, spkg x = spkg rs -> forall i, In i inls -> inl_covered (spkg x) i /\ inl_rows_ok i) as COVX.
    { intros x PX i I. rewrite PX. unfold inls in I.
      destruct eb; apply in_map_iff in I; destruct I as [js [E I]]; subst; auto. }
    destruct (imol_mix_total rs inls NEI (COVX rs eq_refl)) as [r1 E]. rewrite E. cbn [bind].
    destruct eb; [|left; eauto].
    destruct (set_H hf r1) as [[r2 hf'] [|]] eqn:SH; [left; eauto|].
    destruct (set_H_spec _ _ _ _ _ SH) as [P2 _].
    match goal with |- context [set_phases r2 ?phs] => destruct (set_phases_total r2 phs) as [r3 SP] end.
    { intros p I. apply in_app_iff. left; auto. }
    rewrite SP. cbn [bind].
    assert (spkg r3 = spkg rs) as P3.
    { rewrite (set_phases_pkg _ _ _ SP), P2. apply (imol_mix_pkg _ _ _ E). }
    destruct (imol_mix_total r3 inls NEI (COVX r3 P3)) as [r4 E4]. rewrite E4. cbn [bind].
    destruct (set_H hf' r4) as [[r5 hf''] [|]]; [left; eauto|].
    right. split; [reflexivity|]. split; [reflexivity|].
    intros Z. subst hf. simpl in SH. inversion SH.
Qed.
