(* C01 — separate_out, copy_flow(remove=True), non-negativity of split outlets *)
From V Require Import Common.NumFacts C01.Model C01.Proofs C01.ProofsMulti C01.ProofsMix.

(* ---------- separate_out ---------- *)
Lemma rows_tot_cons pk r rs c : rows_tot pk (r :: rs) c = getc pk r c + rows_tot pk rs c.
Proof. reflexivity. Qed.
Lemma rows_tot_nil pk c : rows_tot pk [] c = 0.
Proof. reflexivity. Qed.
Lemma sub_row_value pk row opk orow r' c : sub_row pk row opk orow = Ok r' ->
  wf_pkg pk -> wf_pkg opk -> coherent pk opk -> length row = psize pk -> length orow = psize opk ->
  length r' = psize pk /\ getc pk r' c == getc pk row c - getc opk orow c.
Proof.
  intros H WP WO CO LR LO. unfold sub_row in H. destruct (same_pkg pk opk) eqn:SP.
  - inversion H; subst. pose proof (same_pkg_eq _ _ SP CO) as E. subst opk. split.
    + unfold vsub. rewrite map2_length; lia.
    + apply getc_vsub. lia.
  - destruct (overlap pk opk (nz_keys orow)) as [pr|] eqn:OV; cbn [bind] in H; [|discriminate].
    inversion H; subst. rewrite sub_pairs_gen. split; [rewrite gen_pairs_length; auto|].
    destruct (pairs_getc Qminus pk opk (nz_keys orow) pr row orow c OV WP WO) as [E|[E1 E2]]; auto.
    + apply nz_keys_rows_nodup.
    + intros i I. apply nz_keys_rows_lt in I. lia.
    + apply nz_keys_covers.
    + intros j y Y. rewrite Y. lra.
    + rewrite !getc_none by auto. rewrite E2. lra.
Qed.

Lemma sub_phases_value pk phases rows opk ops ors skip rows' c :
  sub_phases pk phases rows opk ops ors skip = Ok rows' ->
  wf_pkg pk -> wf_pkg opk -> coherent pk opk -> length rows = length phases ->
  (forall r, In r rows -> length r = psize pk) -> (forall r, In r ors -> length r = psize opk) ->
  length ops = length ors ->
  rows_tot pk rows' c == rows_tot pk rows c - rows_tot opk ors c /\
  length rows' = length phases /\ (forall r, In r rows' -> length r = psize pk).
Proof.
  intros H WP WO CO. revert ors rows H; induction ops as [|p ops IH]; intros [|r ors] rows H LE WL WL' LO;
    simpl in H, LO; try discriminate.
  - inversion H; subst. rewrite rows_tot_nil. split; [lra | auto].
  - assert (forall x, In x ors -> length x = psize opk) as WL'' by (intros; apply WL'; right; auto).
    destruct (skip && negb (row_any r)) eqn:SK.
    + assert (length ops = length ors) as A3 by lia.
      destruct (IH ors rows H LE WL WL'' A3) as [V L]. split; auto.
      rewrite V. rewrite rows_tot_cons.
      apply andb_true_iff in SK. destruct SK as [_ SK]. apply negb_true_iff in SK.
      rewrite (row_any_false_getc _ _ _ SK). lra.
    + destruct (if same_pkg pk opk then Ok [] else overlap pk opk (nz_keys r)) as [x0|]; cbn [bind] in H; [|discriminate].
      destruct (phase_index p phases) as [i|] eqn:PI; cbn [bind] in H; [|discriminate].
      pose proof (phase_index_lt _ _ _ PI) as LI.
      destruct (sub_row pk (nth i rows []) opk r) as [r'|] eqn:SR; cbn [bind] in H; [|discriminate].
      destruct (sub_row_value _ _ _ _ _ c SR WP WO CO) as [LR' VR].
      { apply WL. apply nth_In. lia. }
      { apply WL'. left; auto. }
      assert (length (upd rows i r') = length phases) as A1 by (rewrite upd_length; auto).
      assert (forall x, In x (upd rows i r') -> length x = psize pk) as A2.
      { intros x I. apply In_upd in I. destruct I; [subst; auto | auto]. }
      assert (length ops = length ors) as A3 by lia.
      destruct (IH ors (upd rows i r') H A1 A2 WL'' A3) as [V L].
      split; auto. rewrite V. rewrite rows_tot_upd by lia.
      rewrite rows_tot_cons. rewrite VR. lra.
Qed.

Lemma separate_value rs os s : imol_separate_out rs os = Ok s ->
  wf_stream rs -> wf_stream os -> coherent (spkg rs) (spkg os) ->
  spkg s = spkg rs /\ wf_stream s /\ forall c, tot s c == tot rs c - tot os c.
Proof.
  intros H [WP [WL [LE SO]]] [WP' [WL' [LE' SO']]] CO.
  destruct rs as [c0|m], os as [o|o]; unfold imol_separate_out in H;
    simpl in WP, WL, LE, SO, WP', WL', LE', SO', CO.
  - destruct (sub_row (cpkg c0) (crow c0) (cpkg o) (crow o)) as [r|] eqn:SR; cbn [bind] in H; [|discriminate].
    inversion H; subst. simpl. split; [reflexivity|].
    destruct (sub_row_value _ _ _ _ _ 0%nat SR WP WP' CO) as [L _]; auto.
    split; [apply wf_single; auto|]. intros c.
    destruct (sub_row_value _ _ _ _ _ c SR WP WP' CO) as [_ V]; auto.
    unfold tot, rows_tot. simpl. rewrite V. lra.
  - destruct (sub_row (cpkg c0) (crow c0) (mpkg o) (vsum (psize (mpkg o)) (mrows o))) as [r|] eqn:SR; cbn [bind] in H; [|discriminate].
    inversion H; subst. simpl. split; [reflexivity|].
    assert (length (vsum (psize (mpkg o)) (mrows o)) = psize (mpkg o)) as LV by (apply vsum_length; auto).
    destruct (sub_row_value _ _ _ _ _ 0%nat SR WP WP' CO) as [L _]; auto.
    split; [apply wf_single; auto|]. intros c.
    destruct (sub_row_value _ _ _ _ _ c SR WP WP' CO) as [_ V]; auto.
    unfold tot, rows_tot. simpl. rewrite V. rewrite getc_vsum by auto. lra.
  - destruct (sub_phases (mpkg m) (mphases m) (mrows m) (cpkg o) [cphase o] [crow o] false) as [rows|] eqn:SP;
      cbn [bind] in H; [|discriminate]. inversion H; subst. simpl. split; [reflexivity|].
    destruct (sub_phases_value _ _ _ _ _ _ _ _ 0%nat SP WP WP' CO) as [_ [L1 L2]]; auto.
    split; [split; [exact WP|]; split; [|split]; simpl; auto|].
    intros c. destruct (sub_phases_value _ _ _ _ _ _ _ _ c SP WP WP' CO) as [V _]; auto.
  - destruct (if same_pkg (mpkg m) (mpkg o) then Ok []
              else if phases_eqb (mphases m) (mphases o)
                   then overlap (mpkg m) (mpkg o) (nz_keys_rows (psize (mpkg o)) (mrows o)) else Ok []) as [x|];
      cbn [bind] in H; [|discriminate].
    destruct (sub_phases (mpkg m) (mphases m) (mrows m) (mpkg o) (mphases o) (mrows o)
                (negb (phases_eqb (mphases m) (mphases o)))) as [rows|] eqn:SP; cbn [bind] in H; [|discriminate].
    inversion H; subst. simpl. split; [reflexivity|].
    destruct (sub_phases_value _ _ _ _ _ _ _ _ 0%nat SP WP WP' CO) as [_ [L1 L2]]; auto.
    split; [split; [exact WP|]; split; [|split]; simpl; auto|].
    intros c. destruct (sub_phases_value _ _ _ _ _ _ _ _ c SP WP WP' CO) as [V _]; auto.
Qed.

Lemma tot_at_upd_same st i s c : (i < length st)%nat -> tot_at (upd st i s) c i = tot s c.
Proof. intros L. unfold tot_at. rewrite nth_error_upd_same; auto. Qed.
Lemma tot_at_upd_other st i j s c : i <> j -> tot_at (upd st i s) c j = tot_at st c j.
Proof. intros N. unfold tot_at. rewrite nth_error_upd_other; auto. Qed.
Lemma gets_lt st i s : gets st i = Ok s -> (i < length st)%nat.
Proof. intros H. apply gets_ok in H. apply nth_error_Some. congruence. Qed.

Lemma separate_restores_lemma st r a b st1 st2 :
  wf_store st -> r <> b ->
  step st (OMix r [a; b] false 0) = Ok st1 -> step st1 (OSep r b) = Ok st2 ->
  forall c, tot_at st2 c r == tot_at st c a.
Proof.
  intros WS NE H1 H2 c. pose proof WS as [WS1 CO]. simpl in H1.
  destruct (mix st r [a; b] false 0) as [s|] eqn:MX; simpl in H1; [|discriminate]. inversion H1; subst st1.
  assert (exists rs, gets st r = Ok rs) as [rs G].
  { unfold mix in MX. destruct (gets st r) eqn:E; [eauto | discriminate]. }
  destruct (mix_value_full _ _ _ _ _ _ _ WS G MX) as [P [W V]].
  pose proof (gets_lt _ _ _ G) as LR.
  simpl in H2. unfold gets in H2. rewrite nth_error_upd_same in H2 by auto. cbn [bind] in H2.
  rewrite nth_error_upd_other in H2 by auto.
  destruct (nth_error st b) as [os|] eqn:GB; cbn [bind] in H2; [|discriminate].
  assert (Nat.eqb r b = false) as EB by (apply Nat.eqb_neq; auto). rewrite EB in H2.
  destruct (imol_separate_out s os) as [s2|] eqn:SEP; cbn [bind] in H2; [|discriminate].
  inversion H2; subst st2.
  assert (In os st) as IO by (eapply nth_error_In; eauto).
  assert (In rs st) as IR by (apply gets_ok in G; eapply nth_error_In; eauto).
  destruct (separate_value _ _ _ SEP W (WS1 _ IO)) as [_ [_ VS]].
  { rewrite P. apply CO; auto. }
  rewrite tot_at_upd_same by (rewrite upd_length; auto).
  rewrite VS, V. simpl. unfold tot_at at 2. rewrite GB. lra.
Qed.

(* ---------- copy_flow(remove=True) of everything ---------- *)
Lemma other_mol_value other c : wf_stream other ->
  length (other_mol other) = psize (spkg other) /\ getc (spkg other) (other_mol other) c == tot other c.
Proof.
  intros [WP [WL _]]. destruct other as [o|o]; simpl in *.
  - split; [apply WL; auto|]. unfold tot, rows_tot. simpl. lra.
  - split; [apply vsum_length; auto|]. rewrite getc_vsum by auto. reflexivity.
Qed.

Lemma copy_remove_lemma st d s st' :
  wf_store st -> d <> s -> step st (OCopyFlow d s IdAll true false) = Ok st' ->
  forall c, tot_at st' c d == tot_at st c s /\ tot_at st' c s == 0 /\
            forall k, k <> d -> k <> s -> tot_at st' c k = tot_at st c k.
Proof.
  intros [WS CO] NE H c. simpl in H.
  destruct (gets st d) as [ds|] eqn:GD; cbn [bind] in H; [|discriminate].
  destruct (gets st s) as [ss|] eqn:GS; cbn [bind] in H; [|discriminate].

  destruct ds as [c0|m]; [|discriminate].
  pose proof (gets_lt _ _ _ GD) as LD. pose proof (gets_lt _ _ _ GS) as LS.
  apply gets_ok in GD. apply gets_ok in GS.
  assert (In (SS c0) st) as ID by (eapply nth_error_In; eauto).
  assert (In ss st) as IS by (eapply nth_error_In; eauto).
  pose proof (WS _ ID) as [WPd _]. pose proof (WS _ IS) as WSs. pose proof WSs as [WPs _].
  pose proof (CO _ _ ID IS) as CC. simpl in WPd, CC.
  destruct (other_mol_value ss c WSs) as [LM VM].
  unfold copy_flow in H. simpl in H.
  destruct (if same_pkg (cpkg c0) (spkg ss) then Ok (other_mol ss) else remap (cpkg c0) (spkg ss) (other_mol ss))
    as [row|] eqn:ROW; cbn [bind] in H; [|discriminate].
  inversion H; subst st'. clear H.
  assert (getc (cpkg c0) row c == tot ss c) as VR.
  { destruct (same_pkg (cpkg c0) (spkg ss)) eqn:SP.
    - inversion ROW; subst. rewrite (same_pkg_eq _ _ SP CC). exact VM.
    - destruct (remap_getc _ _ _ _ ROW WPd WPs LM) as [_ E]. rewrite E. exact VM. }
  split; [|split].
  - rewrite tot_at_upd_other by auto. rewrite tot_at_upd_same by auto.
    unfold tot_at. rewrite GS. unfold tot at 1. unfold rows_tot. simpl. rewrite VR. lra.
  - rewrite tot_at_upd_same by (rewrite upd_length; auto). apply empty_stream_tot.
  - intros k K1 K2. rewrite tot_at_upd_other by auto. rewrite tot_at_upd_other by auto. reflexivity.
Qed.

(* ---------- both split outlets are non-negative ---------- *)
Lemma split_nonneg_lemma fpkg fphase frow s1 s2 sp eb a b :
  split_single fpkg fphase frow s1 s2 sp eb = Ok (a, b) ->
  wf_pkg fpkg -> length frow = psize fpkg -> length (split_vec (length frow) sp) = length frow ->
  wf_pkg (spkg s1) -> wf_pkg (spkg s2) -> coherent (spkg s1) fpkg -> coherent (spkg s2) fpkg ->
  (forall i, 0 <= nthq frow i) ->
  (forall i, 0 <= nthq (split_vec (length frow) sp) i <= 1) ->
  forall c, 0 <= tot a c /\ 0 <= tot b c.
Proof.
  intros H WF LF LS W1 W2 C1 C2 NF NS c.
  destruct (split_single_value _ _ _ _ _ _ _ _ _ H WF LF LS W1 W2 C1 C2 c) as [VA [VB _]].
  rewrite VA, VB. unfold getc. destruct (index_of c (cas fpkg)) as [i|]; [|lra].
  rewrite nthq_vmul by lia. specialize (NF i). specialize (NS i).
  set (f := nthq frow i) in *. set (s := nthq (split_vec (length frow) sp) i) in *.
  split; nra.
Qed.

(* ---------- statements in the form used by Props.v ---------- *)
Lemma mix_value_thm st r ins eb hf r' :
  wf_store st -> mix st r ins eb hf = Ok r' ->
  forall c, tot r' c == qsum (map (tot_at st c) ins).
Proof.
  intros WS H. destruct (gets st r) as [rs|] eqn:G; [|unfold mix in H; rewrite G in H; discriminate].
  destruct (mix_value_full _ _ _ _ _ _ _ WS G H) as [_ [_ V]]. exact V.
Qed.
Lemma mix_result_thm st r ins eb hf rs r' :
  wf_store st -> nth_error st r = Some rs -> mix st r ins eb hf = Ok r' ->
  spkg r' = spkg rs /\ wf_stream r'.
Proof.
  intros WS N H. assert (gets st r = Ok rs) as G by (unfold gets; rewrite N; reflexivity).
  destruct (mix_value_full _ _ _ _ _ _ _ WS G H) as [P [W _]]. auto.
Qed.
Lemma mix_frame_thm st r ins eb hf st' : step st (OMix r ins eb hf) = Ok st' ->
  length st' = length st /\ forall k, k <> r -> nth_error st' k = nth_error st k.
Proof.
  simpl. destruct (mix st r ins eb hf) as [s|]; simpl; intros H; inversion H; subst.
  split; [apply upd_length|]. intros k N. apply nth_error_upd_other. auto.
Qed.
Lemma separate_value_thm st r o st' : wf_store st -> r <> o -> step st (OSep r o) = Ok st' ->
  (forall c, tot_at st' c r == tot_at st c r - tot_at st c o) /\
  forall k, k <> r -> nth_error st' k = nth_error st k.
Proof.
  intros [WS CO] NE H. simpl in H.
  destruct (gets st r) as [rs|] eqn:GR; cbn [bind] in H; [|discriminate].
  destruct (gets st o) as [os|] eqn:GO; cbn [bind] in H; [|discriminate].
  assert (Nat.eqb r o = false) as EB by (apply Nat.eqb_neq; auto). rewrite EB in H.
  destruct (imol_separate_out rs os) as [s|] eqn:SEP; cbn [bind] in H; [|discriminate]. inversion H; subst.
  pose proof (gets_lt _ _ _ GR) as LR. apply gets_ok in GR. apply gets_ok in GO.
  assert (In rs st) as IR by (eapply nth_error_In; eauto).
  assert (In os st) as IO by (eapply nth_error_In; eauto).
  destruct (separate_value _ _ _ SEP (WS _ IR) (WS _ IO) (CO _ _ IR IO)) as [_ [_ V]].
  split.
  - intros c. rewrite tot_at_upd_same by auto. unfold tot_at. rewrite GR, GO. apply V.
  - intros k N. apply nth_error_upd_other. auto.
Qed.

(* ---------- mass flows: a view (MW * molar flow) of the same data ---------- *)
Definition mass_rows (mw : vec) (s : stream) : list vec := map (vmul mw) (srows s).
Lemma scale_mass_lemma mw k s : (forall r, In r (srows s) -> length r = length mw) ->
  length (mass_rows mw (scale k s)) = length (mass_rows mw s) /\
  forall j i, nthq (nth j (mass_rows mw (scale k s)) []) i == k * nthq (nth j (mass_rows mw s) []) i.
Proof.
  intros L. unfold mass_rows. destruct (scale_rows_lemma k s) as [_ [_ R]]. rewrite R. rewrite !map_length. split; auto.
  intros j i. rewrite map_map. destruct (Nat.lt_ge_cases j (length (srows s))) as [LT|GE].
  - rewrite (nth_indep _ [] (vmul mw (vscale k []))) by (rewrite map_length; auto).
    rewrite (map_nth (fun x => vmul mw (vscale k x))).
    rewrite (nth_indep (map (vmul mw) (srows s)) [] (vmul mw [])) by (rewrite map_length; auto).
    rewrite (map_nth (vmul mw)).
    assert (length (nth j (srows s) []) = length mw) as LR by (apply L; apply nth_In; auto).
    rewrite nthq_vmul by (rewrite vscale_length; auto). rewrite nthq_vmul by auto. rewrite nthq_vscale. ring.
  - rewrite !nth_overflow by (rewrite map_length; auto). rewrite nthq_nil. ring.
Qed.
