(* C01 — MaterialIndexer.mix_from: every contribution lands in exactly one phase row, so the
   per-chemical total over the phases is the sum of the inlets' totals. *)
From V Require Import Common.NumFacts C01.Model C01.Proofs.

(* ---------- phase lookup and row_of ---------- *)
Lemma pindex_exact_Some p l i : pindex_exact p l = Some i -> (i < length l)%nat /\ nth_error l i = Some p.
Proof.
  revert i; induction l as [|q t IH]; intros i H; simpl in *; [discriminate|].
  destruct (phase_eqb p q) eqn:E.
  - inversion H; subst. apply phase_eqb_eq in E. subst. split; [lia | reflexivity].
  - destruct (pindex_exact p t) eqn:E2; [|discriminate]. inversion H; subst.
    destruct (IH n eq_refl). split; [lia | auto].
Qed.
Lemma pindex_exact_None p l : pindex_exact p l = None <-> ~ In p l.
Proof.
  induction l as [|q t IH]; simpl; [tauto|].
  destruct (phase_eqb p q) eqn:E.
  - apply phase_eqb_eq in E. subst. split; [discriminate | intros H; exfalso; apply H; auto].
  - apply phase_eqb_neq in E. destruct (pindex_exact p t) eqn:E2.
    + split; [discriminate|]. intros H. exfalso. apply H. right.
      apply pindex_exact_Some in E2. destruct E2 as [_ E2]. eapply nth_error_In; eauto.
    + split; auto. intros _ [X|X]; [congruence | apply (proj1 IH); auto].
Qed.
Lemma pindex_exact_In p l : In p l -> exists i, pindex_exact p l = Some i.
Proof.
  intros I. destruct (pindex_exact p l) eqn:E; [eauto|]. apply pindex_exact_None in E. contradiction.
Qed.

Lemma rows_eq_map_lookup (z : vec) (P : list phase) (R : list vec) :
  NoDup P -> length P = length R ->
  map (fun p => match pindex_exact p P with Some i => nth i R [] | None => z end) P = R.
Proof.
  revert R; induction P as [|p P IH]; intros [|r R] ND L; simpl in *; try discriminate; auto.
  inversion ND as [|? ? NI ND']; subst. rewrite phase_eqb_refl. f_equal.
  transitivity (map (fun q => match pindex_exact q P with Some i => nth i R [] | None => z end) P);
    [|apply IH; auto].
  apply map_ext_in. intros q I.
  assert (phase_eqb q p = false) as E by (apply phase_eqb_neq; intros X; subst; contradiction).
  rewrite E. destruct (pindex_exact q P); reflexivity.
Qed.
Lemma rows_eq_map_row_of m : NoDup (mphases m) -> length (mphases m) = length (mrows m) ->
  map (row_of m) (mphases m) = mrows m.
Proof. intros. unfold row_of. apply rows_eq_map_lookup; auto. Qed.

Lemma row_of_length m p : (forall r, In r (mrows m) -> length r = psize (mpkg m)) ->
  length (mphases m) = length (mrows m) -> length (row_of m p) = psize (mpkg m).
Proof.
  intros WL LE. unfold row_of. destruct (pindex_exact p (mphases m)) as [i|] eqn:E.
  - apply pindex_exact_Some in E. destruct E as [L _]. apply WL. apply nth_In. lia.
  - apply vzero_length.
Qed.

Definition wf_m (m : mindexer) : Prop := wf_stream (MS m).

Lemma tot_as_phase_sum m c : wf_m m ->
  tot (MS m) c == qsum (map (fun p => getc (mpkg m) (row_of m p) c) (mphases m)).
Proof.
  intros [_ [_ [LE SO]]]. simpl in *. unfold tot, rows_tot. simpl.
  rewrite <- (rows_eq_map_row_of m) at 1; auto; [|apply ssorted_nodup; auto].
  rewrite map_map. reflexivity.
Qed.

(* ---------- _expand_phases keeps the content ---------- *)
Lemma expand_phases_wf m others : wf_m m ->
  wf_m (expand_phases m others) /\ mpkg (expand_phases m others) = mpkg m /\
  (forall c, tot (MS (expand_phases m others)) c == tot (MS m) c) /\
  (forall p, In p (mphases m) -> In p (mphases (expand_phases m others))) /\
  (existsb (fun p => negb (pmem p (mphases m))) others = true ->
   forall p, In p others -> In p (mphases (expand_phases m others))).
Proof.
  intros W. pose proof W as [WP [WL [LE SO]]]. simpl in *.
  unfold expand_phases. destruct (existsb (fun p => negb (pmem p (mphases m))) others) eqn:EX.
  2:{ split; auto. split; auto. split; [reflexivity|]. split; auto. discriminate. }
  set (all := psort (others ++ mphases m)).
  assert (ssorted all) as SA by apply psort_sorted.
  assert (forall p, In p (mphases m) -> In p all) as SUB
    by (intros p I; apply psort_In; apply in_app_iff; auto).
  split; [|split; [reflexivity|split; [|split]]].
  - split; [exact WP|]. split; [|split]; simpl.
    + intros r I. apply in_map_iff in I. destruct I as [p [E _]]. subst. apply row_of_length; auto.
    + rewrite map_length. reflexivity.
    + exact SA.
  - intros c. unfold tot at 1. unfold rows_tot. simpl. rewrite map_map.
    rewrite (sum_superset all (mphases m)); auto.
    + symmetry. apply tot_as_phase_sum; auto.
    + apply ssorted_nodup; auto.
    + apply ssorted_nodup; auto.
    + intros p NI. unfold row_of. apply pindex_exact_None in NI. rewrite NI. rewrite getc_vzero. reflexivity.
  - simpl. exact SUB.
  - intros _ p I. simpl. apply psort_In. apply in_app_iff; auto.
Qed.

(* ---------- contributions ---------- *)
Section Contrib.
Variable self : mindexer.
Hypothesis W : wf_m self.
Let pk := mpkg self.
Let P := mphases self.
Let n := psize pk.

Definition val (c : nat) (it : phase * src) : Q :=
  match snd it with
  | SrcSelf => getc pk (row_of self (fst it)) c
  | SrcSame v => getc pk v c
  | SrcOther op v pr => getc op v c
  end.
Definition item_ok (it : phase * src) : Prop :=
  (exists q, resolve P (fst it) = Ok q) /\
  match snd it with
  | SrcSelf => In (fst it) P
  | SrcSame v => length v = n
  | SrcOther op v pr => adds_like pk (v, pr) (getc op v)
  end.

Lemma resolve_in k q : resolve P k = Ok q -> In q P.
Proof.
  unfold resolve. destruct (pmem k P) eqn:E1.
  - intros H; inversion H; subst. apply pmem_In; auto.
  - destruct (pmem (swapcase k) P) eqn:E2; [|discriminate].
    intros H; inversion H; subst. apply pmem_In; auto.
Qed.
Lemma resolve_self k : In k P -> resolve P k = Ok k.
Proof. intros I. unfold resolve. apply pmem_In in I. rewrite I. reflexivity. Qed.

Lemma per_phase_parts cs p : Forall item_ok cs -> In p P ->
  (forall v, In (Some v) (same_of cs P p) -> length v = n) /\
  exists gs, Forall2 (adds_like pk) (other_of cs P p) gs /\
    forall c, qsum (map (scval pk (row_of self p) c) (same_of cs P p)) + qsum (map (fun g => g c) gs)
              == qsum (map (fun it => if goes_to P p (fst it) then val c it else 0) cs).
Proof.
  intros F IP. induction F as [|it cs OK F IH].
  - simpl. split; [intros v []|]. exists []. split; [constructor|]. intros; simpl; lra.
  - destruct IH as [L [gs [FG V]]]. destruct it as [k s]. destruct OK as [[q RQ] OKS]. simpl in RQ, OKS.
    unfold same_of, other_of in *. cbn [flat_map fst snd map].
    destruct (goes_to P p k) eqn:G.
    2:{ simpl. split; auto. exists gs. split; auto. intros c. cbn [qsum fold_right]. rewrite <- V. simpl. lra. }
    destruct s as [|v|op v pr].
    + assert (p = k) as EK.
      { unfold goes_to in G. rewrite (resolve_self k OKS) in G. apply phase_eqb_eq; auto. }
      subst k. split.
      * intros v I. apply in_app_iff in I. destruct I as [[X|[]]|I]; [discriminate | auto].
      * exists gs. split; auto. intros c. cbn [app map qsum fold_right scval].
        rewrite <- V. unfold val. simpl. unfold qsum. lra.
    + split.
      * intros w I. apply in_app_iff in I. destruct I as [[X|[]]|I]; [inversion X; subst; auto | auto].
      * exists gs. split; auto. intros c. cbn [app map qsum fold_right scval].
        rewrite <- V. unfold val. simpl. unfold qsum. lra.
    + split; [simpl; auto|].
      exists (getc op v :: gs). split; [simpl; constructor; auto|].
      intros c. cbn [app map qsum fold_right]. rewrite <- V. unfold val. simpl. unfold qsum. lra.
Qed.

Lemma per_phase cs p c : Forall item_ok cs -> In p P ->
  getc pk (add_others (sv_mix_from (row_of self p) (same_of cs P p)) (other_of cs P p)) c
  == qsum (map (fun it => if goes_to P p (fst it) then val c it else 0) cs) /\
  length (add_others (sv_mix_from (row_of self p) (same_of cs P p)) (other_of cs P p)) = n.
Proof.
  intros F IP. destruct (per_phase_parts cs p F IP) as [L [gs [FG V]]].
  destruct W as [_ [WL [LE _]]]. simpl in WL, LE.
  assert (length (row_of self p) = n) as LR by (apply row_of_length; auto).
  assert (forall v, In (Some v) (same_of cs P p) -> length v = length (row_of self p)) as L'
    by (intros v I; rewrite LR; auto).
  destruct (sv_mix_from_getc pk (row_of self p) (same_of cs P p) c L') as [EM LM].
  destruct (add_others_getc pk (other_of cs P p) gs (sv_mix_from (row_of self p) (same_of cs P p)) c FG) as [EA LA].
  { unfold n in LR. lia. }
  split; [|lia]. rewrite EA, EM. apply V.
Qed.

Lemma pick_phase cs c : Forall item_ok cs -> 
  qsum (map (fun p => qsum (map (fun it => if goes_to P p (fst it) then val c it else 0) cs)) P)
  == qsum (map (val c) cs).
Proof.
  intros F. rewrite qsum_swap. apply qsum_map_ext. intros it I.
  rewrite Forall_forall in F. destruct (F it I) as [[q RQ] _].
  rewrite <- (sum_pick P q (val c it)).
  - apply qsum_map_ext. intros p _. unfold goes_to. rewrite RQ. reflexivity.
  - apply ssorted_nodup. apply W.
  - eapply resolve_in; eauto.
Qed.
End Contrib.

(* ---------- contributions of one inlet ---------- *)
Lemma map2_items_same self (ps : list phase) (rs : list vec) c :
  length ps = length rs ->
  qsum (map (val self c) (map2 (fun p r => (p, SrcSame r)) ps rs))
  = qsum (map (fun r => getc (mpkg self) r c) rs).
Proof.
  revert rs; induction ps as [|p ps IH]; intros [|r rs] L; simpl in *; try discriminate; auto.
  unfold val at 1. simpl. f_equal. apply IH. lia.
Qed.
Lemma map2_items_other self op pr (ps : list phase) (rs : list vec) c :
  length ps = length rs ->
  qsum (map (val self c) (map2 (fun p r => (p, SrcOther op r pr)) ps rs))
  = qsum (map (fun r => getc op r c) rs).
Proof.
  revert rs; induction ps as [|p ps IH]; intros [|r rs] L; simpl in *; try discriminate; auto.
  unfold val at 1. simpl. f_equal. apply IH. lia.
Qed.
Lemma map2_in {A B C} (f : A -> B -> C) la lb x : In x (map2 f la lb) ->
  exists a b, In a la /\ In b lb /\ x = f a b.
Proof.
  revert lb; induction la as [|a la IH]; intros [|b lb] H; simpl in *; try contradiction.
  destruct H as [H|H].
  - exists a, b. auto.
  - destruct (IH _ H) as [a' [b' [X [Y Z]]]]. exists a', b'. auto.
Qed.

Lemma mcontrib_value self0 self i cs :
  wf_m self -> mpkg self = mpkg self0 ->
  (forall c, tot (MS self) c == tot (MS self0) c) ->
  mcontrib self i = Ok cs ->
  inl_ok (mpkg self) (inl_stream (MS self0) i) ->
  (forall k, In k (match i with ISelf => mphases self | _ => inl_phases self0 i end) ->
             exists q, resolve (mphases self) k = Ok q) ->
  Forall (item_ok self) cs /\
  forall c, qsum (map (val self c) cs) == tot (inl_stream (MS self0) i) c.
Proof.
  intros W PK TOT H [[WP' [WL' [LE' SO']]] CO] RES.
  pose proof W as [WP [WL [LE SO]]]. simpl in WP, WL, LE, SO.
  destruct i as [|c0|m]; simpl in *.
  - inversion H; subst. split.
    + apply Forall_forall. intros it I. apply in_map_iff in I. destruct I as [p [E I]]. subst it.
      split; simpl; auto.
    + intros c. rewrite map_map. rewrite <- TOT. rewrite (tot_as_phase_sum self c W). reflexivity.
  - destruct (same_pkg (mpkg self) (cpkg c0)) eqn:SP.
    + inversion H; subst. pose proof (same_pkg_eq _ _ SP CO) as E. split.
      * constructor; [|constructor]. split; simpl; [apply RES; auto|].
        rewrite E. apply WL'. left; auto.
      * intros c. unfold tot, rows_tot, val. simpl. rewrite E. lra.
    + destruct (overlap (mpkg self) (cpkg c0) (nz_keys (crow c0))) as [pr|] eqn:OV; simpl in H; [|discriminate].
      inversion H; subst. split.
      * constructor; [|constructor]. split; simpl; [apply RES; auto|].
        eapply overlap_adds_like; eauto.
        -- apply nz_keys_rows_nodup.
        -- intros i I. apply nz_keys_rows_lt in I. rewrite <- (WL' (crow c0)); [auto | left; auto].
        -- apply nz_keys_covers.
      * intros c. unfold tot, rows_tot, val. simpl. lra.
  - destruct (same_pkg (mpkg self) (mpkg m)) eqn:SP.
    + inversion H; subst. pose proof (same_pkg_eq _ _ SP CO) as E. split.
      * apply Forall_forall. intros it I. apply map2_in in I. destruct I as [p [r [IP [IR X]]]]. subst it.
        split; simpl; [apply RES; auto|]. rewrite E. apply WL'; auto.
      * intros c. rewrite map2_items_same by auto. unfold tot, rows_tot. simpl. rewrite E. reflexivity.
    + destruct (overlap (mpkg self) (mpkg m) (nz_keys_rows (psize (mpkg m)) (mrows m))) as [pr|] eqn:OV;
        simpl in H; [|discriminate].
      inversion H; subst. split.
      * apply Forall_forall. intros it I. apply map2_in in I. destruct I as [p [r [IP [IR X]]]]. subst it.
        split; simpl; [apply RES; auto|].
        eapply overlap_adds_like; eauto.
        -- apply nz_keys_rows_nodup.
        -- intros i I. apply nz_keys_rows_lt in I. auto.
        -- apply nz_keys_rows_covers; auto. rewrite (WL' r IR). lia.
      * intros c. rewrite map2_items_other by auto. unfold tot, rows_tot. simpl. reflexivity.
Qed.

Lemma mcontrib_all_value self0 self l cs :
  wf_m self -> mpkg self = mpkg self0 ->
  (forall c, tot (MS self) c == tot (MS self0) c) ->
  mcontrib_all self l = Ok cs ->
  (forall i, In i l -> inl_ok (mpkg self) (inl_stream (MS self0) i)) ->
  (forall i, In i l -> forall k, In k (match i with ISelf => mphases self | _ => inl_phases self0 i end) ->
             exists q, resolve (mphases self) k = Ok q) ->
  Forall (item_ok self) cs /\
  forall c, qsum (map (val self c) cs) == qsum (map (fun i => tot (inl_stream (MS self0) i) c) l).
Proof.
  intros W PK TOT. revert cs; induction l as [|i l IH]; intros cs H OK RES; simpl in H.
  - inversion H; subst. split; [constructor | intros; reflexivity].
  - destruct (mcontrib self i) as [a|] eqn:E1; simpl in H; [|discriminate].
    destruct (mcontrib_all self l) as [b|] eqn:E2; simpl in H; [|discriminate].
    inversion H; subst.
    destruct (mcontrib_value self0 self i a W PK TOT E1 (OK i (or_introl eq_refl)) (RES i (or_introl eq_refl))) as [F1 V1].
    destruct (IH b eq_refl (fun j J => OK j (or_intror J)) (fun j J => RES j (or_intror J))) as [F2 V2].
    split; [apply Forall_app; auto|].
    intros c. rewrite map_app, qsum_app. cbn [map qsum fold_right].
    change (fold_right Qplus 0 (map (fun i0 => tot (inl_stream (MS self0) i0) c) l))
      with (qsum (map (fun i0 => tot (inl_stream (MS self0) i0) c) l)).
    rewrite V1, V2. reflexivity.
Qed.

Lemma resolve_all_ok phases ks : resolve_all phases ks = Ok tt ->
  forall k, In k ks -> exists q, resolve phases k = Ok q.
Proof.
  induction ks as [|k ks IH]; simpl; intros H x I; [destruct I|].
  destruct (resolve phases k) as [q|] eqn:E; simpl in H; [|discriminate].
  destruct I as [I|I]; [subst; eauto | apply IH; auto].
Qed.

Lemma map2_map_r {A B C} (f : A -> B -> C) (g : A -> B) l : map2 f l (map g l) = map (fun a => f a (g a)) l.
Proof. induction l; simpl; auto. f_equal; auto. Qed.

(* ---------- MaterialIndexer.mix_from ---------- *)
Lemma mmix_from_value self0 others m' :
  mmix_from self0 others = Ok m' -> wf_m self0 ->
  (forall i, In i others -> inl_ok (mpkg self0) (inl_stream (MS self0) i)) ->
  mpkg m' = mpkg self0 /\ wf_m m' /\
  forall c, tot (MS m') c == qsum (map (fun i => tot (inl_stream (MS self0) i) c) others).
Proof.
  intros H W0 OK. unfold mmix_from in H.
  set (ops := flat_map (inl_phases self0) others) in *.
  set (self := if existsb (fun p => negb (in_indexer p (mphases self0))) ops
               then expand_phases self0 ops else self0) in *.
  assert (wf_m self /\ mpkg self = mpkg self0 /\ (forall c, tot (MS self) c == tot (MS self0) c) /\
          (forall p, In p (mphases self0) -> In p (mphases self))) as [W [PK [TOT SUB]]].
  { unfold self. destruct (existsb (fun p => negb (in_indexer p (mphases self0))) ops).
    - destruct (expand_phases_wf self0 ops W0) as [A [B [C [D _]]]]. auto.
    - split; [exact W0|]. split; [reflexivity|]. split; [intros; reflexivity | auto]. }
  destruct (resolve_all (mphases self) ops) as [[]|] eqn:RA; simpl in H; [|discriminate].
  destruct (mcontrib_all self others) as [cs|] eqn:MC; simpl in H; [|discriminate].
  inversion H; subst m'. clear H. simpl.
  pose proof W as [WP [WL [LE SO]]]. simpl in WP, WL, LE, SO.
  assert (forall i, In i others -> forall k,
            In k (match i with ISelf => mphases self | _ => inl_phases self0 i end) ->
            exists q, resolve (mphases self) k = Ok q) as RES.
  { intros i I k K. destruct i.
    - exists k. apply resolve_self; auto.
    - apply (resolve_all_ok _ _ RA). unfold ops. apply in_flat_map. exists (IC c). auto.
    - apply (resolve_all_ok _ _ RA). unfold ops. apply in_flat_map. exists (IM m). auto. }
  destruct (mcontrib_all_value self0 self others cs W PK TOT MC) as [F V]; auto.
  { intros i I. rewrite PK. auto. }
  rewrite <- (rows_eq_map_row_of self) by (try apply ssorted_nodup; auto).
  rewrite map2_map_r.
  split; [exact PK|]. split.
  - split; [exact WP|]. split; [|split]; simpl.
    + intros r I. apply in_map_iff in I. destruct I as [p [E I]]. subst r.
      destruct (per_phase self W cs p 0%nat F I) as [_ L]. exact L.
    + rewrite map_length. reflexivity.
    + exact SO.
  - intros c. rewrite <- V. unfold tot, rows_tot. cbn [spkg srows mpkg mrows]. rewrite map_map.
    rewrite <- (pick_phase self W cs c F).
    apply qsum_map_ext. intros p I. destruct (per_phase self W cs p c F I) as [E _]. exact E.
Qed.
