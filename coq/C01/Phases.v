(* C01 — facts about phase lists: sorted sets of the five phases, sums over them, and a
   brute-force principle (there are only 32 sorted phase lists). *)
From V Require Import Common.NumFacts C01.Model.

Lemma phase_eqb_eq a b : phase_eqb a b = true <-> a = b.
Proof. split; [destruct a, b; simpl; intros H; try reflexivity; discriminate | intros ->; destruct b; reflexivity]. Qed.
Lemma phase_eqb_refl a : phase_eqb a a = true.
Proof. apply phase_eqb_eq; auto. Qed.
Lemma phase_eqb_neq a b : phase_eqb a b = false <-> a <> b.
Proof.
  split; intros H.
  - intros E. apply phase_eqb_eq in E. congruence.
  - destruct (phase_eqb a b) eqn:E; auto. apply phase_eqb_eq in E. contradiction.
Qed.
Lemma phase_eqb_sym a b : phase_eqb a b = phase_eqb b a.
Proof. destruct a, b; reflexivity. Qed.
Lemma prank_inj a b : prank a = prank b -> a = b.
Proof. destruct a, b; simpl; intros H; try reflexivity; discriminate. Qed.
Lemma swapcase_invol p : swapcase (swapcase p) = p.
Proof. destruct p; reflexivity. Qed.

Lemma pmem_In p l : pmem p l = true <-> In p l.
Proof.
  unfold pmem. rewrite existsb_exists. split.
  - intros [x [I E]]. apply phase_eqb_eq in E. subst; auto.
  - intros I. exists p. split; auto. apply phase_eqb_refl.
Qed.
Lemma pmem_false p l : pmem p l = false <-> ~ In p l.
Proof.
  split; intros H.
  - intros I. apply pmem_In in I. congruence.
  - destruct (pmem p l) eqn:E; auto. apply pmem_In in E. contradiction.
Qed.

(* strictly sorted by rank = what phase_tuple produces *)
Fixpoint ssorted (l : list phase) : Prop :=
  match l with
  | [] => True
  | a :: t => Forall (fun q => (prank a < prank q)%nat) t /\ ssorted t
  end.

Lemma ssorted_nodup l : ssorted l -> NoDup l.
Proof.
  induction l as [|a t IH]; simpl; intros H; [constructor|].
  destruct H as [F S]. constructor; auto.
  intros I. rewrite Forall_forall in F. specialize (F _ I). lia.
Qed.

Lemma pinsert_In x p l : In x (pinsert p l) <-> x = p \/ In x l.
Proof.
  induction l as [|q t IH]; simpl.
  - intuition.
  - destruct (Nat.ltb (prank p) (prank q)); simpl; [intuition|].
    destruct (phase_eqb p q) eqn:E; simpl.
    + apply phase_eqb_eq in E. subst. intuition.
    + rewrite IH. intuition.
Qed.
Lemma pinsert_sorted p l : ssorted l -> ssorted (pinsert p l).
Proof.
  induction l as [|q t IH]; simpl; intros H.
  - split; auto.
  - destruct H as [F S].
    destruct (Nat.ltb (prank p) (prank q)) eqn:L; simpl.
    + apply Nat.ltb_lt in L. split; [|split; auto].
      constructor; auto. rewrite Forall_forall in *. intros x I. specialize (F x I). lia.
    + apply Nat.ltb_ge in L. destruct (phase_eqb p q) eqn:E; simpl; [split; auto|].
      apply phase_eqb_neq in E. split; [|apply IH; auto].
      rewrite Forall_forall in *. intros x I. apply pinsert_In in I. destruct I as [I|I]; [|auto].
      subst. assert (prank p <> prank q) by (intros X; apply prank_inj in X; congruence). lia.
Qed.
Lemma psort_sorted l : ssorted (psort l).
Proof. induction l; simpl; auto. apply pinsert_sorted; auto. Qed.
Lemma psort_In x l : In x (psort l) <-> In x l.
Proof. induction l as [|a t IH]; simpl; [tauto|]. rewrite pinsert_In, IH. intuition. Qed.
Lemma pmem_psort p l : pmem p (psort l) = pmem p l.
Proof.
  destruct (pmem p l) eqn:E.
  - rewrite pmem_In, psort_In, <- pmem_In. auto.
  - apply pmem_false. intros I. rewrite psort_In in I. rewrite <- pmem_In in I. congruence.
Qed.

(* two sorted lists with the same elements are equal *)
Lemma ssorted_ext a b : ssorted a -> ssorted b -> (forall p, In p a <-> In p b) -> a = b.
Proof.
  revert b; induction a as [|x a IH]; intros [|y b] SA SB H; auto.
  - exfalso. apply (proj2 (H y)). left; auto.
  - exfalso. apply (proj1 (H x)). left; auto.
  - simpl in SA, SB. destruct SA as [FA SA], SB as [FB SB].
    rewrite Forall_forall in FA, FB.
    assert (x = y) as E.
    { destruct (proj1 (H x) (or_introl eq_refl)) as [E|I]; auto.
      destruct (proj2 (H y) (or_introl eq_refl)) as [E|J]; auto.
      specialize (FA _ J). specialize (FB _ I). lia. }
    subst y. f_equal. apply IH; auto. intros p. split; intros I.
    + destruct (proj1 (H p) (or_intror I)) as [E|J]; auto. subst. specialize (FA _ I). lia.
    + destruct (proj2 (H p) (or_intror I)) as [E|J]; auto. subst. specialize (FB _ I). lia.
Qed.

Definition allph : list phase := [PL; PS; Pg; Pl; Ps].
Lemma allph_all p : In p allph.
Proof. destruct p; simpl; auto 10. Qed.
Lemma allph_sorted : ssorted allph.
Proof. simpl. repeat split; repeat constructor; simpl; lia. Qed.

Lemma filter_sorted f l : ssorted l -> ssorted (filter f l).
Proof.
  induction l as [|a t IH]; simpl; intros H; auto. destruct H as [F S].
  destruct (f a); simpl; auto. split; auto.
  rewrite Forall_forall in *. intros x I. apply filter_In in I. apply F; tauto.
Qed.
Lemma ssorted_filter_allph l : ssorted l -> l = filter (fun p => pmem p l) allph.
Proof.
  intros S. apply ssorted_ext; auto.
  - apply filter_sorted. apply allph_sorted.
  - intros p. rewrite filter_In. rewrite pmem_In. split; [intros I; split; auto; apply allph_all | tauto].
Qed.

Fixpoint sublists (e : list phase) : list (list phase) :=
  match e with
  | [] => [[]]
  | x :: t => map (cons x) (sublists t) ++ sublists t
  end.
Lemma filter_in_sublists f e : In (filter f e) (sublists e).
Proof.
  induction e as [|x t IH]; simpl; auto.
  apply in_app_iff. destruct (f x); [left; apply in_map; auto | right; auto].
Qed.
Definition subs := sublists allph.
Lemma ssorted_in_subs l : ssorted l -> In l subs.
Proof. intros S. rewrite (ssorted_filter_allph l S). apply filter_in_sublists. Qed.

(* brute force over pairs / single sorted lists *)
Lemma sorted_forall2 (Q : list phase -> list phase -> bool) :
  forallb (fun a => forallb (Q a) subs) subs = true ->
  forall a b, ssorted a -> ssorted b -> Q a b = true.
Proof.
  intros H a b SA SB. rewrite forallb_forall in H.
  specialize (H a (ssorted_in_subs a SA)). rewrite forallb_forall in H.
  apply H. apply ssorted_in_subs; auto.
Qed.
Lemma sorted_forall1 (Q : list phase -> bool) :
  forallb Q subs = true -> forall a, ssorted a -> Q a = true.
Proof. intros H a SA. rewrite forallb_forall in H. apply H. apply ssorted_in_subs; auto. Qed.

(* ---------- sums over phase sets ---------- *)
Lemma qsum_zero {A} (l : list A) (f : A -> Q) : (forall x, In x l -> f x == 0) -> qsum (map f l) == 0.
Proof.
  induction l as [|x l IH]; intros H; simpl; [reflexivity|].
  rewrite (H x (or_introl eq_refl)). rewrite IH; [lra | intros; apply H; right; auto].
Qed.

Lemma sum_pick (P : list phase) q x : NoDup P -> In q P ->
  qsum (map (fun p => if phase_eqb p q then x else 0) P) == x.
Proof.
  induction P as [|a t IH]; intros ND I; [destruct I|].
  inversion ND as [|? ? NI ND']; subst. cbn [map qsum fold_right].
  change (fold_right Qplus 0 (map (fun p => if phase_eqb p q then x else 0) t))
    with (qsum (map (fun p => if phase_eqb p q then x else 0) t)).
  destruct (phase_eqb a q) eqn:E.
  - apply phase_eqb_eq in E. subst a. rewrite qsum_zero; [lra|].
    intros p J. destruct (phase_eqb p q) eqn:E2; [|reflexivity].
    apply phase_eqb_eq in E2. subst. contradiction.
  - destruct I as [I|I]; [subst; rewrite phase_eqb_refl in E; discriminate|].
    rewrite IH; auto. lra.
Qed.

Lemma sum_insert (E : list phase) (a : phase) (m : phase -> bool) (h : phase -> Q) :
  NoDup E -> m a = false ->
  qsum (map (fun p => if phase_eqb p a || m p then h p else 0) E) ==
  (if pmem a E then h a else 0) + qsum (map (fun p => if m p then h p else 0) E).
Proof.
  intros ND MA. induction E as [|e t IH]; [simpl; lra|].
  inversion ND as [|? ? NI ND']; subst. cbn [map qsum fold_right pmem existsb].
  change (fold_right Qplus 0 (map (fun p => if phase_eqb p a || m p then h p else 0) t))
    with (qsum (map (fun p => if phase_eqb p a || m p then h p else 0) t)).
  change (fold_right Qplus 0 (map (fun p => if m p then h p else 0) t))
    with (qsum (map (fun p => if m p then h p else 0) t)).
  change (existsb (phase_eqb a) t) with (pmem a t).
  rewrite (IH ND'). rewrite (phase_eqb_sym a e).
  destruct (phase_eqb e a) eqn:EQ; simpl.
  - apply phase_eqb_eq in EQ. subst e. rewrite MA.
    assert (pmem a t = false) as PF by (apply pmem_false; auto). rewrite PF. lra.
  - destruct (pmem a t); destruct (m e); lra.
Qed.

Lemma sum_enum (L : list phase) (h : phase -> Q) : NoDup L ->
  qsum (map h L) == qsum (map (fun p => if pmem p L then h p else 0) allph).
Proof.
  induction L as [|a t IH]; intros ND.
  - simpl. lra.
  - inversion ND as [|? ? NI ND']; subst. cbn [map qsum fold_right].
    change (fold_right Qplus 0 (map h t)) with (qsum (map h t)). rewrite (IH ND').
    assert (pmem a t = false) as PF by (apply pmem_false; auto).
    pose proof (sum_insert allph a (fun p => pmem p t) h (ssorted_nodup _ allph_sorted) PF) as SI.
    assert (pmem a allph = true) as PA by (apply pmem_In; apply allph_all).
    rewrite PA in SI. rewrite <- SI. reflexivity.
Qed.

Lemma qsum_map_ext {A} (f g : A -> Q) l : (forall x, In x l -> f x == g x) ->
  qsum (map f l) == qsum (map g l).
Proof.
  induction l as [|x l IH]; intros H; [reflexivity|].
  cbn [map qsum fold_right]. change (fold_right Qplus 0 (map f l)) with (qsum (map f l)).
  change (fold_right Qplus 0 (map g l)) with (qsum (map g l)).
  rewrite IH by (intros; apply H; right; auto). rewrite (H x (or_introl eq_refl)). reflexivity.
Qed.

(* a sum over a superset whose extra elements contribute nothing *)
Lemma sum_superset (L P : list phase) (h : phase -> Q) : NoDup L -> NoDup P ->
  (forall p, In p P -> In p L) -> (forall p, ~ In p P -> h p == 0) ->
  qsum (map h L) == qsum (map h P).
Proof.
  intros NL NP SUB Z. rewrite (sum_enum L h NL), (sum_enum P h NP).
  apply qsum_map_ext. intros p _.
  destruct (pmem p P) eqn:EP.
  - apply pmem_In in EP. assert (pmem p L = true) as EL by (apply pmem_In; auto). rewrite EL. reflexivity.
  - apply pmem_false in EP. destruct (pmem p L); [apply Z; auto | reflexivity].
Qed.

Lemma qsum_swap {A B} (g : A -> B -> Q) (la : list A) (lb : list B) :
  qsum (map (fun a => qsum (map (g a) lb)) la) == qsum (map (fun b => qsum (map (fun a => g a b) la)) lb).
Proof.
  induction la as [|a la IH].
  - simpl. symmetry. apply qsum_zero. intros; reflexivity.
  - cbn [map qsum fold_right].
    change (fold_right Qplus 0 (map (fun a0 => qsum (map (g a0) lb)) la))
      with (qsum (map (fun a0 => qsum (map (g a0) lb)) la)).
    rewrite IH. clear IH. induction lb as [|b lb IH2]; [simpl; lra|].
    cbn [map qsum fold_right].
    change (fold_right Qplus 0 (map (g a) lb)) with (qsum (map (g a) lb)).
    change (fold_right Qplus 0 (map (fun a0 => g a0 b) la)) with (qsum (map (fun a0 => g a0 b) la)).
    change (fold_right Qplus 0 (map (fun b0 => qsum (map (fun a0 => g a0 b0) la)) lb))
      with (qsum (map (fun b0 => qsum (map (fun a0 => g a0 b0) la)) lb)).
    change (fold_right Qplus 0 (map (fun b0 => g a b0 + qsum (map (fun a0 => g a0 b0) la)) lb))
      with (qsum (map (fun b0 => qsum (map (fun a0 => g a0 b0) (a :: la))) lb)).
    rewrite <- IH2. lra.
Qed.
