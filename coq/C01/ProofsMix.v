(* C01 — Stream.mix_from in full: both receiver kinds, copy_like (one inlet with energy
   balance) and the multi-phase fallback. *)
From V Require Import Common.NumFacts C01.Model C01.Proofs C01.ProofsMulti.

(* ---------- imol.mix_from on either receiver kind ---------- *)
Lemma imol_mix_value rs inls r1 :
  imol_mix_from rs inls = Ok r1 -> wf_stream rs ->
  (forall i, In i inls -> inl_ok (spkg rs) (inl_stream rs i)) ->
  spkg r1 = spkg rs /\ wf_stream r1 /\
  forall c, tot r1 c == qsum (map (fun i => tot (inl_stream rs i) c) inls).
Proof.
  intros H W OK. destruct rs as [c0|m]; simpl in H.
  - destruct (cmix_from c0 inls) as [c'|] eqn:CM; simpl in H; [|discriminate]. inversion H; subst.
    destruct (cmix_from_value _ _ _ CM W OK) as [P [L V]]. simpl.
    split; auto. split.
    + destruct W as [WP _]. split; [simpl; rewrite P; exact WP|]. split; [|split]; simpl.
      * intros r [E|[]]. subst. rewrite P. exact L.
      * reflexivity.
      * split; [constructor | exact I].
    + intros c. unfold tot at 1. unfold rows_tot. simpl. rewrite P, V. lra.
  - destruct (mmix_from m inls) as [m'|] eqn:MM; simpl in H; [|discriminate]. inversion H; subst.
    destruct (mmix_from_value _ _ _ MM W OK) as [P [W' V]]. simpl. auto.
Qed.

(* ---------- the enthalpy setter changes at most the phase label ---------- *)
Lemma set_H_spec hf s s' hf' ok : set_H hf s = (s', hf', ok) ->
  spkg s' = spkg s /\ srows s' = srows s /\ (wf_stream s -> wf_stream s') /\ forall c, tot s' c = tot s c.
Proof.
  intros H. assert (spkg s' = spkg s /\ srows s' = srows s /\ length (sphases s') = length (sphases s) /\
                    (ssorted (sphases s) -> ssorted (sphases s'))) as [A [B [C D]]].
  { unfold set_H in H. destruct hf as [|k]; [inversion H; subst; auto|].
    destruct s as [c|m]; [|inversion H; subst; auto].
    destruct (lowerp (cphase c)); try (inversion H; subst; auto; fail);
      destruct k; inversion H; subst; simpl; repeat split; auto; constructor. }
  split; auto. split; auto. split.
  - intros [WP [WL [LE SO]]]. unfold wf_stream. rewrite A, B, C. auto.
  - intros c. unfold tot. rewrite A, B. reflexivity.
Qed.

(* ---------- phases setters ---------- *)
Lemma psort_id l : ssorted l -> psort l = l.
Proof.
  intros S. apply ssorted_ext; auto; [apply psort_sorted | intros p; apply psort_In].
Qed.

Lemma phase_index_lt p l i : phase_index p l = Ok i -> (i < length l)%nat.
Proof.
  unfold phase_index. destruct (pindex_exact p l) eqn:E.
  - intros H; inversion H; subst. apply pindex_exact_Some in E. tauto.
  - destruct (pindex_exact (swapcase p) l) eqn:E2; [|discriminate].
    intros H; inversion H; subst. apply pindex_exact_Some in E2. tauto.
Qed.

Lemma In_upd {A} (l : list A) i x y : In y (upd l i x) -> y = x \/ In y l.
Proof.
  revert i; induction l as [|h t IH]; intros [|i] H; simpl in *; try tauto.
  - destruct H; auto.
  - destruct H as [H|H]; auto. destruct (IH _ H); auto.
Qed.

Lemma blank_rows n (P : list phase) r : In r (map (fun _ : phase => vzero n) P) -> r = vzero n.
Proof. intros I. apply in_map_iff in I. destruct I as [? [E _]]. auto. Qed.

Lemma m_to_material_rows_len n sp sr phases acc rows :
  m_to_material_rows sp sr phases acc = Ok rows ->
  (forall r, In r sr -> length r = n) -> (forall r, In r acc -> length r = n) ->
  length acc = length phases ->
  (forall r, In r rows -> length r = n) /\ length rows = length phases.
Proof.
  revert sr acc; induction sp as [|p sp IH]; intros [|r sr] acc H LS LA LE; simpl in H;
    try (inversion H; subst; auto; fail).
  destruct (row_any r).
  - destruct (phase_index (if pmem p phases then p else swapcase p) phases) as [i|] eqn:PI; simpl in H; [|discriminate].
    apply (IH _ _ H).
    + intros; apply LS; right; auto.
    + intros x I. apply In_upd in I. destruct I as [I|I]; auto. subst.
      apply phase_index_lt in PI. rewrite vadd_length.
      * apply LA. apply nth_In. lia.
      * rewrite (LS r (or_introl eq_refl)). apply LA. apply nth_In. lia.
    + rewrite upd_length. auto.
  - apply (IH _ _ H); auto. intros; apply LS; right; auto.
Qed.

Lemma set_phases_wf s phs s' : set_phases s phs = Ok s' -> wf_stream s ->
  wf_stream s' /\ spkg s' = spkg s.
Proof.
  intros H [WP [WL [LE SO]]]. unfold set_phases in H.
  pose proof (psort_sorted phs) as SP. set (ps := psort phs) in *.
  destruct s as [c|m]; simpl in *.
  - assert (length (crow c) = psize (cpkg c)) as LC by (apply WL; auto).
    assert (forall m0, c_to_material c ps = Ok m0 -> wf_stream (MS m0) /\ mpkg m0 = cpkg c) as CM.
    { intros m0 H0. unfold c_to_material in H0. destruct (row_any (crow c)).
      - destruct (phase_index (if pmem (cphase c) ps then cphase c else swapcase (cphase c)) ps) as [i|] eqn:PI;
          simpl in H0; [|discriminate]. inversion H0; subst. split; [|reflexivity].
        split; [exact WP|]. split; [|split]; simpl; auto.
        + intros r I. apply In_upd in I. destruct I as [I|I]; [subst; auto|].
          apply blank_rows in I. subst. apply vzero_length.
        + rewrite upd_length, map_length. reflexivity.
      - inversion H0; subst. split; [|reflexivity]. split; [exact WP|]. split; [|split]; simpl; auto.
        + intros r I. apply blank_rows in I. subst. apply vzero_length.
        + rewrite map_length. reflexivity. }
    destruct ps as [|p [|p' t]] eqn:EP.
    + destruct (c_to_material c []) as [m0|] eqn:E; simpl in H; [|discriminate]. inversion H; subst. apply CM; auto.
    + inversion H; subst. split; [|reflexivity]. split; [exact WP|]. split; [|split]; simpl; auto.
    + destruct (c_to_material c (p :: p' :: t)) as [m0|] eqn:E; simpl in H; [|discriminate].
      inversion H; subst. apply CM; auto.
  - assert (forall m0, m_to_material m ps = Ok m0 -> wf_stream (MS m0) /\ mpkg m0 = mpkg m) as MM.
    { intros m0 H0. unfold m_to_material in H0.
      destruct (m_to_material_rows (mphases m) (mrows m) ps (map (fun _ => vzero (psize (mpkg m))) ps)) as [rows|] eqn:E;
        simpl in H0; [|discriminate]. inversion H0; subst. split; [|reflexivity].
      destruct (m_to_material_rows_len (psize (mpkg m)) _ _ _ _ _ E) as [A B]; auto.
      - intros r I. apply blank_rows in I. subst. apply vzero_length.
      - rewrite map_length. reflexivity.
      - split; [exact WP|]. split; [|split]; simpl; auto. }
    assert (wf_stream (SS (m_to_chemical m (hd Pl ps))) /\ True) as [MC _].
    { split; auto. split; [exact WP|]. split; [|split]; simpl; auto.
      intros r [E|[]]. subst. apply vsum_length; auto. }
    destruct ps as [|p [|p' t]] eqn:EP.
    + destruct (phases_eqb [] (mphases m)); [inversion H; subst; split; [|reflexivity]; repeat split; auto|].
      destruct (m_to_material m []) as [m0|] eqn:E; simpl in H; [|discriminate]. inversion H; subst. apply MM; auto.
    + inversion H; subst. simpl in MC. split; [exact MC | reflexivity].
    + destruct (phases_eqb (p :: p' :: t) (mphases m)); [inversion H; subst; split; [|reflexivity]; repeat split; auto|].
      destruct (m_to_material m (p :: p' :: t)) as [m0|] eqn:E; simpl in H; [|discriminate].
      inversion H; subst. apply MM; auto.
Qed.

(* ---------- copy_like ---------- *)
Lemma c_copy_like_value self other c' : c_copy_like self other = Ok c' ->
  wf_pkg (cpkg self) -> wf_pkg (cpkg other) -> length (crow other) = psize (cpkg other) ->
  coherent (cpkg self) (cpkg other) ->
  cpkg c' = cpkg self /\ length (crow c') = psize (cpkg self) /\
  forall c, getc (cpkg self) (crow c') c == getc (cpkg other) (crow other) c.
Proof.
  intros H WS WO LO CO. unfold c_copy_like in H. destruct (same_pkg (cpkg self) (cpkg other)) eqn:SP.
  - inversion H; subst. simpl. rewrite (same_pkg_eq _ _ SP CO). split; [reflexivity|]. split; [auto | intros; reflexivity].
  - destruct (remap (cpkg self) (cpkg other) (crow other)) as [r|] eqn:RM; simpl in H; [|discriminate].
    inversion H; subst. simpl. destruct (remap_getc _ _ _ _ RM WS WO LO) as [L E]. auto.
Qed.

Lemma rows_tot_upd pk (acc : list vec) i X c : (i < length acc)%nat ->
  rows_tot pk (upd acc i X) c == rows_tot pk acc c - getc pk (nth i acc []) c + getc pk X c.
Proof.
  unfold rows_tot. revert i; induction acc as [|a acc IH]; intros [|i] L; simpl in *; try lia.
  - lra.
  - rewrite IH by lia. lra.
Qed.
Lemma rows_tot_blank pk n (P : list phase) c : rows_tot pk (map (fun _ => vzero n) P) c == 0.
Proof. unfold rows_tot. induction P; simpl; [reflexivity|]. rewrite getc_vzero, IHP. lra. Qed.
Lemma nth_blank n (P : list phase) i : (i < length P)%nat -> nth i (map (fun _ => vzero n) P) [] = vzero n.
Proof. revert i; induction P; intros [|i] L; simpl in *; try lia; auto. apply IHP. lia. Qed.

(* the phases a multi-phase receiver has after copy_like from phases [b] *)
Definition copy_phases (a b : list phase) : list phase :=
  if phases_eqb a b || compatible a b then a
  else if existsb (fun p => negb (pmem p a)) b then psort (b ++ a) else a.
Fixpoint nodupb (l : list nat) : bool :=
  match l with [] => true | x :: t => negb (existsb (Nat.eqb x) t) && nodupb t end.
Lemma nodupb_NoDup l : nodupb l = true -> NoDup l.
Proof.
  induction l as [|x t IH]; simpl; intros H; [constructor|].
  apply andb_true_iff in H. destruct H as [H1 H2]. constructor; auto.
  intros I. apply negb_true_iff in H1.
  assert (existsb (Nat.eqb x) t = true); [|congruence].
  apply existsb_exists. exists x. split; auto. apply Nat.eqb_refl.
Qed.
Definition idx_of (P : list phase) (p : phase) : nat := match phase_index p P with Ok i => i | Err _ => O end.
Definition idx_good (P b : list phase) : bool :=
  forallb (fun p => match phase_index p P with Ok _ => true | Err _ => false end) b &&
  nodupb (map (idx_of P) b).
Lemma copy_phases_good_all :
  forallb (fun a => forallb (fun b => idx_good (copy_phases a b) b) subs) subs = true.
Proof. vm_compute. reflexivity. Qed.
Lemma copy_phases_good a b : ssorted a -> ssorted b -> idx_good (copy_phases a b) b = true.
Proof. apply (sorted_forall2 (fun a b => idx_good (copy_phases a b) b) copy_phases_good_all). Qed.

Lemma expand_phases_phases m others :
  mphases (expand_phases m others) =
  if existsb (fun p => negb (pmem p (mphases m))) others then psort (others ++ mphases m) else mphases m.
Proof. unfold expand_phases. destruct (existsb _ others); reflexivity. Qed.

Lemma nth_upd_other_gen {A} (l : list A) a b x d : a <> b -> nth a (upd l b x) d = nth a l d.
Proof.
  revert a b; induction l as [|h t IH]; intros [|a] [|b] NE; simpl; auto; try congruence.
Qed.

(* placing the other indexer's rows by phase *)
Lemma place_rows_value P pk opk pr keys ops ors acc rows c :
  place_rows P pk opk pr ops ors acc = Ok rows ->
  length ops = length ors -> length acc = length P ->
  NoDup (map (idx_of P) ops) ->
  (forall p, In p ops -> nth (idx_of P p) acc [] = vzero (psize pk)) ->
  wf_pkg pk -> wf_pkg opk -> coherent pk opk ->
  (same_pkg pk opk = false -> overlap pk opk keys = Ok pr /\ NoDup keys /\
     (forall i, In i keys -> (i < psize opk)%nat) /\ forall r, In r ors -> covers keys r) ->
  (forall r, In r ors -> length r = psize opk) -> (forall r, In r acc -> length r = psize pk) ->
  rows_tot pk rows c == rows_tot pk acc c + rows_tot opk ors c /\
  length rows = length P /\ (forall r, In r rows -> length r = psize pk).
Proof.
  revert ors acc; induction ops as [|p ops IH]; intros [|r ors] acc H LO LA ND Z WP WO CO OV LR LAcc;
    simpl in H, LO; try discriminate.
  - inversion H; subst. unfold rows_tot at 3. simpl. split; [lra | auto].
  - destruct (phase_index p P) as [i|] eqn:PI; simpl in H; [|discriminate].
    assert (idx_of P p = i) as EI by (unfold idx_of; rewrite PI; reflexivity).
    assert (i < length acc)%nat as LI by (rewrite LA; eapply phase_index_lt; eauto).
    pose proof (Z p (or_introl eq_refl)) as ZI. rewrite EI in ZI.
    simpl in ND. inversion ND as [|? ? NI ND']; subst.
    set (X := bring pk opk pr (nth (idx_of P p) acc []) r) in *.
    assert (length X = psize pk /\ getc pk X c == getc opk r c) as [LX VX].
    { unfold X, bring. destruct (same_pkg pk opk) eqn:SP.
      - rewrite (same_pkg_eq _ _ SP CO). split; [apply LR; left; auto | reflexivity].
      - destruct (OV eq_refl) as [O1 [O2 [O3 O4]]]. rewrite ZI. rewrite set_pairs_gen. split.
        + rewrite gen_pairs_length. apply vzero_length.
        + destruct (pairs_getc (fun _ x => x) pk opk keys pr (vzero (psize pk)) r c O1 WP WO O2 O3) as [E|[E1 E2]].
          * apply O4. left; auto.
          * apply vzero_length.
          * intros j y Y. rewrite nthq_vzero. exact Y.
          * exact E.
          * rewrite getc_none by auto. rewrite E2. reflexivity. }
    assert (forall q, In q ops -> nth (idx_of P q) (upd acc (idx_of P p) X) [] = vzero (psize pk)) as HZ.
    { intros q IQ. assert (idx_of P q <> idx_of P p) as NE.
      { intros E. apply NI. rewrite <- E. apply in_map; auto. }
      rewrite <- (Z q (or_intror IQ)). apply nth_upd_other_gen. auto. }
    assert (same_pkg pk opk = false -> overlap pk opk keys = Ok pr /\ NoDup keys /\
            (forall i, In i keys -> (i < psize opk)%nat) /\ forall r0, In r0 ors -> covers keys r0) as HOV.
    { intros SP. destruct (OV SP) as [O1 [O2 [O3 O4]]]. repeat split; auto. intros; apply O4; right; auto. }
    assert (forall r0, In r0 ors -> length r0 = psize opk) as HLR by (intros; apply LR; right; auto).
    assert (forall x, In x (upd acc (idx_of P p) X) -> length x = psize pk) as HLA.
    { intros x I. apply In_upd in I. destruct I; [subst; auto | auto]. }
    assert (length (upd acc (idx_of P p) X) = length P) as HL by (rewrite upd_length; auto).
    assert (length ops = length ors) as HLO by lia.
    destruct (IH ors (upd acc (idx_of P p) X) H HLO HL ND' HZ WP WO CO HOV HLR HLA) as [V [L1 L2]].
    split; auto. rewrite V. rewrite rows_tot_upd by lia. rewrite ZI, getc_vzero.
      unfold rows_tot at 4. simpl. fold (rows_tot opk ors c). rewrite VX. lra.
Qed.

Lemma wf_single pk ph row : wf_pkg pk -> length row = psize pk -> wf_stream (SS (mkc pk ph row)).
Proof.
  intros WP L. split; [exact WP|]. split; [|split]; simpl; auto.
  intros r [E|[]]. subst; auto.
Qed.
Lemma wf_empty s : wf_stream s -> wf_stream (empty_stream s).
Proof.
  intros [WP [WL [LE SO]]]. destruct s as [c|m]; simpl in *.
  - apply wf_single; auto. rewrite vzero_length. apply WL; auto.
  - split; [exact WP|]. split; [|split]; simpl; auto.
    + intros r I. apply in_map_iff in I. destruct I as [x [E I]]. subst. rewrite vzero_length. auto.
    + rewrite map_length. auto.
Qed.

Lemma idx_good_spec P b : idx_good P b = true ->
  NoDup (map (idx_of P) b) /\ forall p, In p b -> (idx_of P p < length P)%nat.
Proof.
  unfold idx_good. intros H. apply andb_true_iff in H. destruct H as [H1 H2]. split.
  - apply nodupb_NoDup; auto.
  - intros p I. rewrite forallb_forall in H1. specialize (H1 p I). unfold idx_of.
    destruct (phase_index p P) eqn:E; [|discriminate]. eapply phase_index_lt; eauto.
Qed.

Lemma m_copy_like_value self other m' :
  m_copy_like self other = Ok m' -> wf_m self -> wf_stream other -> coherent (mpkg self) (spkg other) ->
  mpkg m' = mpkg self /\ wf_m m' /\ forall c, tot (MS m') c == tot other c.
Proof.
  intros H W WO CO. pose proof W as [WP [WL [LE SO]]]. pose proof WO as [WP' [WL' [LE' SO']]].
  simpl in WP, WL, LE, SO. destruct other as [c0|o]; simpl in *.
  - set (self1 := if in_indexer (cphase c0) (mphases self) then self else expand_phases self [cphase c0]) in *.
    assert (wf_m self1 /\ mpkg self1 = mpkg self) as [W1 PK1].
    { unfold self1. destruct (in_indexer (cphase c0) (mphases self)); auto.
      destruct (expand_phases_wf self [cphase c0] W) as [A [B _]]. auto. }
    destruct (phase_index (cphase c0) (mphases self1)) as [i|] eqn:PI; simpl in H; [|discriminate].
    pose proof (phase_index_lt _ _ _ PI) as LI.
    pose proof W1 as [_ [_ [_ SO1]]]. simpl in SO1.
    assert (length (crow c0) = psize (cpkg c0)) as LC by (apply WL'; auto).
    assert (forall X, length X = psize (mpkg self) ->
            wf_m (mkm (mpkg self) (mphases self1) (upd (map (fun _ => vzero (psize (mpkg self))) (mphases self1)) i X)) /\
            forall c, tot (MS (mkm (mpkg self) (mphases self1) (upd (map (fun _ => vzero (psize (mpkg self))) (mphases self1)) i X))) c
                      == getc (mpkg self) X c) as KEY.
    { intros X LX. split.
      - split; [exact WP|]. split; [|split]; simpl; auto.
        + intros r I. apply In_upd in I. destruct I as [I|I]; [subst; auto|].
          apply blank_rows in I. subst. apply vzero_length.
        + rewrite upd_length, map_length. reflexivity.
      - intros c. unfold tot. simpl. rewrite rows_tot_upd by (rewrite map_length; auto).
        rewrite rows_tot_blank, nth_blank by auto. rewrite getc_vzero. lra. }
    destruct (same_pkg (mpkg self) (cpkg c0)) eqn:SP.
    + inversion H; subst. pose proof (same_pkg_eq _ _ SP CO) as E.
      destruct (KEY (crow c0)) as [K1 K2]; [rewrite E; auto|].
      split; [reflexivity|]. split; [exact K1|]. intros c. rewrite K2. unfold tot, rows_tot. simpl. rewrite E. lra.
    + destruct (overlap (mpkg self) (cpkg c0) (nz_keys (crow c0))) as [pr|] eqn:OV; simpl in H; [|discriminate].
      inversion H; subst. rewrite nth_blank by auto.
      assert (remap (mpkg self) (cpkg c0) (crow c0) = Ok (set_pairs (vzero (psize (mpkg self))) pr (crow c0))) as RM
        by (unfold remap; rewrite OV; reflexivity).
      destruct (remap_getc _ _ _ _ RM WP WP' LC) as [LX EX].
      destruct (KEY _ LX) as [K1 K2].
      split; [reflexivity|]. split; [exact K1|]. intros c. rewrite K2, EX. unfold tot, rows_tot. simpl. lra.
  - set (keys := nz_keys_rows (psize (mpkg o)) (mrows o)) in *.
    destruct (if same_pkg (mpkg self) (mpkg o) then Ok [] else overlap (mpkg self) (mpkg o) keys) as [pr|] eqn:OV;
      simpl in H; [|discriminate].
    set (self1 := if phases_eqb (mphases self) (mphases o) || compatible (mphases self) (mphases o)
                  then self else expand_phases self (mphases o)) in *.
    assert (mphases self1 = copy_phases (mphases self) (mphases o)) as EP.
    { unfold self1, copy_phases. destruct (phases_eqb (mphases self) (mphases o) || compatible (mphases self) (mphases o)); auto.
      apply expand_phases_phases. }
    destruct (place_rows (mphases self1) (mpkg self) (mpkg o) pr (mphases o) (mrows o)
                (map (fun _ => vzero (psize (mpkg self))) (mphases self1))) as [rows|] eqn:PR; simpl in H; [|discriminate].
    inversion H; subst. clear H.
    destruct (idx_good_spec _ _ (copy_phases_good _ _ SO SO')) as [ND LT]. rewrite <- EP in ND, LT.
    assert (ssorted (mphases self1)) as SO1.
    { unfold self1. destruct (phases_eqb (mphases self) (mphases o) || compatible (mphases self) (mphases o)); auto.
      destruct (expand_phases_wf self (mphases o) W) as [[_ [_ [_ A]]] _]. exact A. }
    destruct (place_rows_value _ _ _ _ keys _ _ _ _ 0%nat PR) as [_ [L1 L2]]; auto.
    { rewrite map_length. reflexivity. }
    { intros p I. apply nth_blank. auto. }
    { intros SP. rewrite SP in OV. split; auto. split; [apply nz_keys_rows_nodup|].
      split; [intros i I; eapply nz_keys_rows_lt; eauto|].
      intros r I. apply nz_keys_rows_covers; auto. rewrite (WL' r I). lia. }
    { intros r I. apply blank_rows in I. subst. apply vzero_length. }
    split; [reflexivity|]. split.
    + split; [exact WP|]. split; [|split]; simpl; auto.
    + intros c. destruct (place_rows_value _ _ _ _ keys _ _ _ _ c PR) as [V _]; auto.
      { rewrite map_length. reflexivity. }
      { intros p I. apply nth_blank. auto. }
      { intros SP. rewrite SP in OV. split; auto. split; [apply nz_keys_rows_nodup|].
        split; [intros i I; eapply nz_keys_rows_lt; eauto|].
        intros r I. apply nz_keys_rows_covers; auto. rewrite (WL' r I). lia. }
      { intros r I. apply blank_rows in I. subst. apply vzero_length. }
      unfold tot. simpl. rewrite V, rows_tot_blank. lra.
Qed.

Lemma m_to_chemical_tot o p c : (forall r, In r (mrows o) -> length r = psize (mpkg o)) ->
  getc (mpkg o) (crow (m_to_chemical o p)) c == tot (MS o) c.
Proof. intros WL. simpl. rewrite getc_vsum by auto. reflexivity. Qed.

Lemma copy_like_general c0 o s' :
  (do s1 <- set_phases (empty_stream (SS c0)) (mphases o);
   match s1 with
   | MS m => do m' <- m_copy_like m (MS o); Ok (MS m')
   | SS c1 => do c' <- c_copy_like c1 (m_to_chemical o (cphase c1)); Ok (SS c')
   end) = Ok s' ->
  wf_stream (SS c0) -> wf_stream (MS o) -> coherent (cpkg c0) (mpkg o) ->
  spkg s' = cpkg c0 /\ wf_stream s' /\ forall c, tot s' c == tot (MS o) c.
Proof.
  intros H W WO CO. pose proof WO as [WP' [WL' _]]. simpl in WP', WL'.
  destruct (set_phases (empty_stream (SS c0)) (mphases o)) as [s1|] eqn:SP; cbn [bind] in H; [|discriminate].
  destruct (set_phases_wf _ _ _ SP (wf_empty _ W)) as [W1 PK1]. simpl in PK1.
  destruct s1 as [c1|m]; simpl in PK1; cbn iota beta in H.
  - destruct (c_copy_like c1 (m_to_chemical o (cphase c1))) as [c'|] eqn:CC; cbn [bind] in H; [|discriminate].
    inversion H; subst. pose proof W1 as [WP1 _]. simpl in WP1.
    destruct (c_copy_like_value _ _ _ CC WP1) as [P [L V]]; simpl; auto.
    { apply vsum_length; auto. }
    { rewrite PK1. auto. }
    split; [congruence|]. split.
    + destruct c' as [pk ph row]. simpl in *. subst pk. apply wf_single; auto.
    + intros c. simpl in V. unfold tot at 1. unfold rows_tot. simpl. rewrite P, V. rewrite getc_vsum by auto.
      unfold tot, rows_tot. simpl. lra.
  - destruct (m_copy_like m (MS o)) as [m'|] eqn:MC; cbn [bind] in H; [|discriminate]. inversion H; subst.
    destruct (m_copy_like_value _ _ _ MC W1 WO) as [P [W' V]]; simpl; [rewrite PK1; auto|].
    split; [congruence|]. auto.
Qed.

Lemma copy_like_SM_cases c0 o :
  (exists p r, mphases o = [p] /\ mrows o = [r] /\
     copy_like (SS c0) (MS o) =
     (do c' <- c_copy_like (mkc (cpkg c0) p (crow c0)) (mkc (mpkg o) p r); Ok (SS c'))) \/
  copy_like (SS c0) (MS o) =
  (do s1 <- set_phases (empty_stream (SS c0)) (mphases o);
   match s1 with
   | MS m => do m' <- m_copy_like m (MS o); Ok (MS m')
   | SS c1 => do c' <- c_copy_like c1 (m_to_chemical o (cphase c1)); Ok (SS c')
   end).
Proof.
  unfold copy_like. destruct (mphases o) as [|p [|p2 pt]]; destruct (mrows o) as [|r [|r2 rt]];
    try (right; reflexivity). left. exists p, r. auto.
Qed.

Lemma copy_like_value self other s' : copy_like self other = Ok s' ->
  wf_stream self -> wf_stream other -> coherent (spkg self) (spkg other) ->
  spkg s' = spkg self /\ wf_stream s' /\ forall c, tot s' c == tot other c.
Proof.
  intros H W WO CO. destruct self as [c0|m].
  2:{ simpl in H. destruct (m_copy_like m other) as [m'|] eqn:MC; simpl in H; [|discriminate]. inversion H; subst.
      destruct (m_copy_like_value _ _ _ MC W WO CO) as [P [W' V]]. auto. }
  pose proof W as [WP [WL _]]. pose proof WO as [WP' [WL' [LE' _]]]. simpl in WP, WL.
  destruct other as [o|o].
  - simpl in H, WP', WL', CO.
    destruct (c_copy_like c0 o) as [c'|] eqn:CC; simpl in H; [|discriminate]. inversion H; subst.
    destruct (c_copy_like_value _ _ _ CC WP WP') as [P [L V]]; auto.
    split; [exact P|]. split.
    + destruct c' as [pk ph row]. simpl in *. subst pk. apply wf_single; auto.
    + intros c. unfold tot, rows_tot. simpl. rewrite P, V. reflexivity.
  - simpl in WP', WL', CO.
    destruct (copy_like_SM_cases c0 o) as [[p [r [EP [ER E]]]]|E]; rewrite E in H.
    2:{ apply (copy_like_general c0 o s' H W WO CO). }
    destruct (c_copy_like (mkc (cpkg c0) p (crow c0)) (mkc (mpkg o) p r)) as [c'|] eqn:CC; simpl in H; [|discriminate].
    inversion H; subst.
    destruct (c_copy_like_value _ _ _ CC WP WP') as [P [L V]]; simpl; auto.
    { apply WL'. rewrite ER. left; auto. }
    split; [exact P|]. split.
    + destruct c' as [pk ph row]. simpl in *. subst pk. apply wf_single; auto.
    + intros c. unfold tot, rows_tot. simpl. rewrite P, V, ER. reflexivity.
Qed.

(* ---------- Stream.mix_from, every path ---------- *)
Lemma spkg_empty s : spkg (empty_stream s) = spkg s.
Proof. destruct s; reflexivity. Qed.

Lemma inl_copy_stream x js : inl_stream x (to_inl_copy js) = snd js.
Proof. unfold to_inl_copy. destruct (snd js); reflexivity. Qed.

Lemma mix_value_full st r ins eb hf rs r' :
  wf_store st -> gets st r = Ok rs -> mix st r ins eb hf = Ok r' ->
  spkg r' = spkg rs /\ wf_stream r' /\ forall c, tot r' c == qsum (map (tot_at st c) ins).
Proof.
  intros [WS CO] G H.
  destruct (gets_all st ins) as [all|] eqn:GA; [|unfold mix in H; rewrite G, GA in H; discriminate].
  unfold mix in H. rewrite G, GA in H. cbn [bind] in H.
  destruct (gets_all_spec _ _ _ GA) as [MF NE].
  pose proof (gets_ok _ _ _ G) as GR.
  assert (In rs st) as INR by (eapply nth_error_In; eauto).
  pose proof (WS _ INR) as WR.
  set (ne := filter (fun js => negb (isempty (snd js))) all) in *.
  assert (forall js, In js ne -> nth_error st (fst js) = Some (snd js)) as NE'
    by (intros js I; apply NE; unfold ne in I; apply filter_In in I; tauto).
  assert (forall js, In js ne -> In (snd js) st) as INS
    by (intros js I; eapply nth_error_In; apply NE'; auto).
  assert (forall c, qsum (map (fun js => tot (snd js) c) ne) == qsum (map (tot_at st c) ins)) as SUM
    by (intros c; rewrite <- MF; apply qsum_filter_nonempty; auto).
  (* the two ways of presenting the inlets to the indexer *)
  assert (forall x, spkg x = spkg rs ->
          (forall i, In i (map to_inl_copy ne) -> inl_ok (spkg x) (inl_stream x i)) /\
          forall c, qsum (map (fun i => tot (inl_stream x i) c) (map to_inl_copy ne))
                    == qsum (map (tot_at st c) ins)) as COPY.
  { intros x PX. split.
    - intros i I. apply in_map_iff in I. destruct I as [js [E I]]. subst i.
      rewrite inl_copy_stream. split; [apply WS; auto|]. rewrite PX. apply (CO rs (snd js)); auto.
    - intros c. rewrite <- SUM, map_map. apply qsum_map_ext. intros js I.
      rewrite inl_copy_stream. reflexivity. }
  assert ((forall i, In i (map (to_inl r) ne) -> inl_ok (spkg rs) (inl_stream rs i)) /\
          forall c, qsum (map (fun i => tot (inl_stream rs i) c) (map (to_inl r) ne))
                    == qsum (map (tot_at st c) ins)) as [ALIAS_OK ALIAS_V].
  { split.
    - intros i I. apply in_map_iff in I. destruct I as [js [E I]]. subst i. unfold to_inl.
      destruct (Nat.eqb r (fst js)); simpl.
      + split; [exact WR | intros _; reflexivity].
      + pose proof (CO rs (snd js) INR (INS _ I)) as CC. pose proof (WS _ (INS _ I)) as WW.
        destruct (snd js); simpl in *; split; auto.
    - intros c. rewrite <- SUM, map_map. apply qsum_map_ext. intros js I. unfold to_inl.
      destruct (Nat.eqb r (fst js)) eqn:ER; simpl.
      + apply Nat.eqb_eq in ER. pose proof (NE' _ I) as N2. rewrite <- ER, GR in N2.
        inversion N2. reflexivity.
      + destruct (snd js); reflexivity. }
  destruct ne as [|a [|b t]] eqn:EN.
  - inversion H; subst. rewrite spkg_empty. split; [reflexivity|]. split; [apply wf_empty; auto|].
    intros c. rewrite empty_stream_tot. rewrite <- SUM. reflexivity.
  - destruct eb.
    + destruct (Nat.eqb r (fst a)) eqn:ER.
      * inversion H; subst. split; [reflexivity|]. split; [exact WR|]. intros c. rewrite <- SUM.
        apply Nat.eqb_eq in ER. pose proof (NE' a (or_introl eq_refl)) as N2. rewrite <- ER, GR in N2.
        inversion N2. simpl. lra.
      * destruct (copy_like_value _ _ _ H WR (WS _ (INS a (or_introl eq_refl)))) as [P [W' V]].
        { apply (CO rs (snd a)); auto. apply INS. left; auto. }
        split; [exact P|]. split; [exact W'|]. intros c. rewrite V, <- SUM. simpl. lra.
    + destruct (imol_mix_value _ _ _ H WR ALIAS_OK) as [P [W' V]].
      split; [exact P|]. split; [exact W'|]. intros c. rewrite V. apply ALIAS_V.
  - set (inls := if eb then map to_inl_copy (a :: b :: t) else map (to_inl r) (a :: b :: t)) in *.
    destruct (imol_mix_from rs inls) as [r1|] eqn:IM; cbn [bind] in H; [|discriminate].
    assert (spkg r1 = spkg rs /\ wf_stream r1 /\ forall c, tot r1 c == qsum (map (tot_at st c) ins)) as [P1 [W1 V1]].
    { unfold inls in IM. destruct eb.
      - destruct (COPY rs eq_refl) as [OK V]. destruct (imol_mix_value _ _ _ IM WR OK) as [P [W' V']].
        split; auto. split; auto. intros c. rewrite V'. apply V.
      - destruct (imol_mix_value _ _ _ IM WR ALIAS_OK) as [P [W' V']].
        split; auto. split; auto. intros c. rewrite V'. apply ALIAS_V. }
    destruct eb; [|inversion H; subst; auto].
    destruct (set_H hf r1) as [[r2 hf'] [|]] eqn:SH;
      destruct (set_H_spec _ _ _ _ _ SH) as [P2 [_ [W2 T2]]].
    + inversion H; subst. split; [congruence|]. split; [auto|]. intros c. rewrite T2. apply V1.
    + set (phs := phase_str r2 ++ flat_map (fun js => if Nat.eqb r (fst js) then phase_str r2 else phase_str (snd js)) all) in *.
      destruct (set_phases r2 phs) as [r3|] eqn:SP; cbn [bind] in H; [|discriminate].
      destruct (set_phases_wf _ _ _ SP (W2 W1)) as [W3 P3].
      destruct (imol_mix_from r3 inls) as [r4|] eqn:IM2; cbn [bind] in H; [|discriminate].
      assert (spkg r3 = spkg rs) as PR3 by congruence.
      destruct (COPY r3 PR3) as [OK V]. unfold inls in IM2.
      destruct (imol_mix_value _ _ _ IM2 W3 OK) as [P4 [W4 V4]].
      destruct (set_H hf' r4) as [[r5 hf''] [|]] eqn:SH2; [|discriminate].
      destruct (set_H_spec _ _ _ _ _ SH2) as [P5 [_ [W5 T5]]].
      inversion H; subst. split; [congruence|]. split; [auto|]. intros c. rewrite T5, V4. apply V.
Qed.
