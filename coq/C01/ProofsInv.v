(* C01 — an invariant of the alias store over alias histories.
   [alias_inv]: every stream object (handle) points at existing flow data (a cell).  Every operation keeps it, never
   drops a cell or a handle, and the only handles an operation re-points are its targets and (for a phases setter on a
   MultiStream) the cached sub-streams that follow the new rows - always to the freshly created cell.
   The relation between linked partners and the shared rows: whatever its own (possibly stale) phases tuple, a linked
   MultiStream shows exactly the rows of the cell, so all partners agree on every per-chemical total at every state. *)
From V Require Import Common.NumFacts C01.Model C01.Proofs C01.ProofsMulti C01.ProofsMix C01.ProofsOps
  C01.ProofsAlias C01.ProofsDeep.

Definition alias_inv (a : astore) : Prop :=
  forall h, In h (hs a) -> (hcell h < length (cells a))%nat.

Lemma write_back_in a k s a' h : write_back a k s = Ok a' -> In h (hs a') ->
  exists h0, In h0 (hs a) /\ hcell h = hcell h0.
Proof.
  unfold write_back. destruct (nth_error (hs a) k) as [[j|j ph|j p lbl|j phs]|] eqn:NK; intros H IN; try discriminate.
  - inversion H; subst; simpl in IN. eauto.
  - destruct (gets (cells a) j) as [[c|m]|]; simpl in H; try discriminate. destruct s; [|discriminate].
    inversion H; subst; simpl in IN. apply In_upd in IN. destruct IN as [->|IN]; [|eauto].
    exists (HProxy j ph). split; [eapply nth_error_In; eauto | reflexivity].
  - destruct (gets (cells a) j) as [[c|m]|]; simpl in H; try discriminate. destruct s; [|discriminate].
    destruct (pindex_exact p (mphases m)); simpl in H; [|discriminate]. inversion H; subst; simpl in IN. eauto.
  - destruct (gets (cells a) j) as [[c|m]|]; simpl in H; try discriminate. destruct s; [discriminate|].
    inversion H; subst; simpl in IN. apply In_upd in IN. destruct IN as [->|IN]; [|eauto].
    exists (HLink j phs). split; [eapply nth_error_In; eauto | reflexivity].
Qed.

Lemma write_back_inv a k s a' : write_back a k s = Ok a' -> alias_inv a -> alias_inv a'.
Proof.
  intros WB IB h IN. destruct (write_back_lengths _ _ _ _ WB) as [_ LC]. rewrite LC.
  destruct (write_back_in _ _ _ _ _ WB IN) as [h0 [I0 E]]. rewrite E. apply IB. exact I0.
Qed.

Lemma write_target_inv a vst vst' o k a' : write_target a vst vst' o k = Ok a' -> alias_inv a ->
  alias_inv a' /\ (length (cells a) <= length (cells a'))%nat /\ length (hs a') = length (hs a).
Proof.
  unfold write_target. intros H IB.
  destruct (gets vst' k) as [s'|]; cbn [bind] in H; [|discriminate].
  destruct (rebind_info vst o k) as [resid|].
  - destruct (write_back a k resid) as [a1|] eqn:WB; cbn [bind] in H; [|discriminate].
    pose proof (write_back_inv _ _ _ _ WB IB) as IB1.
    destruct (write_back_lengths _ _ _ _ WB) as [LH LC].
    inversion H; subst a'; clear H. cbn [cells hs]. rewrite app_length, upd_length, map_length. simpl.
    split; [|split; [lia | exact LH]].
    intros h IN. cbn [cells hs] in IN |- *. rewrite app_length. cbn [length].
    apply In_upd in IN. destruct IN as [->|IN]; [simpl; lia|].
    apply in_map_iff in IN. destruct IN as [h1 [E I1]]. pose proof (IB1 h1 I1) as B.
    assert (hcell h = hcell h1 \/ hcell h = length (cells a1)) as [X|X].
    { rewrite <- E. destruct (nth_error (hs a) k) as [[j| | |]|]; auto. destruct s'; auto. destruct h1; auto.
      destruct (_ && _); simpl; auto. }
    + rewrite X. lia.
    + rewrite X. lia.
  - pose proof (write_back_inv _ _ _ _ H IB) as IB1. destruct (write_back_lengths _ _ _ _ H) as [LH LC].
    split; [exact IB1|]. split; [lia | exact LH].
Qed.

Lemma write_all_inv vst vst' o ks : forall a a', write_all a vst vst' o ks = Ok a' -> alias_inv a ->
  alias_inv a' /\ (length (cells a) <= length (cells a'))%nat /\ length (hs a') = length (hs a).
Proof.
  induction ks as [|k ks IH]; intros a a' H IB; simpl in H.
  - inversion H; subst. split; [assumption | split; [lia | reflexivity]].
  - destruct (write_target a vst vst' o k) as [a1|] eqn:WT; cbn [bind] in H; [|discriminate].
    destruct (write_target_inv _ _ _ _ _ _ WT IB) as [IB1 [LC1 LH1]].
    destruct (IH _ _ H IB1) as [IB2 [LC2 LH2]]. split; [exact IB2|]. split; lia.
Qed.

(* every operation keeps the invariant; cells and handles are never dropped *)
Lemma astep_inv a o a' : astep a o = Ok a' -> alias_inv a ->
  alias_inv a' /\ (length (cells a) <= length (cells a'))%nat /\ (length (hs a) <= length (hs a'))%nat.
Proof.
  unfold astep. intros H IB.
  destruct (views (cells a) (hs a)) as [vst|]; cbn [bind] in H; [|discriminate].
  destruct (safe_op (hs a) vst o); cbn [negb] in H; [|discriminate].
  destruct (step vst o) as [vst'|]; cbn [bind] in H; [|discriminate].
  destruct (write_all a vst vst' o (targets o)) as [a1|] eqn:WA; cbn [bind] in H; [|discriminate].
  destruct (write_all_inv _ _ _ _ _ _ WA IB) as [IB1 [LC LH]].
  destruct o; try (inversion H; subst a'; split; [exact IB1|]; split; lia).
  destruct (gets vst' (length vst)) as [s|]; cbn [bind] in H; [|discriminate].
  inversion H; subst a'; clear H. cbn [cells hs]. rewrite !app_length. simpl.
  split; [|split; lia].
  intros h IN. cbn [cells hs] in IN |- *. rewrite app_length. cbn [length].
  apply in_app_or in IN. destruct IN as [IN|[<-|[]]]; [pose proof (IB1 h IN); lia | simpl; lia].
Qed.

(* ... and so does every history (the prefix that ran, whatever stopped it) *)
Lemma arun_inv : forall n ops a r rest, arun_upto a ops n = (Ok r, rest) -> alias_inv a ->
  alias_inv r /\ (length (cells a) <= length (cells r))%nat /\ (length (hs a) <= length (hs r))%nat.
Proof.
  induction n as [|n IH]; intros ops a r rest H IB.
  - destruct ops; simpl in H; inversion H; subst; (split; [assumption | split; lia]).
  - destruct ops as [|o t]; simpl in H; [inversion H; subst; split; [assumption | split; lia]|].
    destruct (astep a o) as [a1|] eqn:AS; [|discriminate].
    destruct (astep_inv _ _ _ AS IB) as [IB1 [LC1 LH1]].
    destruct (IH _ _ _ _ H IB1) as [IB2 [LC2 LH2]]. split; [exact IB2|]. split; lia.
Qed.

(* resolvable views imply the invariant: every store the implementation can build satisfies it *)
Lemma views_inv a vst : views (cells a) (hs a) = Ok vst -> alias_inv a.
Proof.
  intros V h IN. destruct (In_nth_error _ _ IN) as [k NK].
  destruct (views_nth _ _ _ V) as [_ NV]. destruct (NV k h NK) as [s [VO _]]. eapply view_of_lt; eauto.
Qed.

(* linked partners and the shared rows: each partner shows the rows of the cell under its own phases tuple, so all of
   them (and the cell) agree on every per-chemical total, in step or not *)
Lemma linked_partner_reads_rows cs j phs y : view_of cs (HLink j phs) = Ok y ->
  exists m, nth_error cs j = Some (MS m) /\ y = MS (mkm (mpkg m) phs (mrows m)) /\
    forall c, tot y c = tot (MS m) c.
Proof.
  simpl. unfold gets. destruct (nth_error cs j) as [[c|m]|]; cbn [bind]; intros H; inversion H; subst.
  exists m. split; [reflexivity|]. split; reflexivity.
Qed.

Lemma linked_partners_agree cs j phs1 phs2 y1 y2 :
  view_of cs (HLink j phs1) = Ok y1 -> view_of cs (HLink j phs2) = Ok y2 ->
  srows y1 = srows y2 /\ spkg y1 = spkg y2 /\ forall c, tot y1 c = tot y2 c.
Proof.
  intros V1 V2. destruct (linked_partner_reads_rows _ _ _ _ V1) as [m1 [N1 [E1 T1]]].
  destruct (linked_partner_reads_rows _ _ _ _ V2) as [m2 [N2 [E2 T2]]].
  rewrite N1 in N2. inversion N2; subst m2. subst y1 y2. simpl. split; [reflexivity|]. split; [reflexivity|].
  intros c. reflexivity.
Qed.

(* the partner that writes ends in step with the rows it wrote; the cell takes its phases *)
Lemma linked_writer_in_step a k j phs m' a' :
  nth_error (hs a) k = Some (HLink j phs) -> write_back a k (MS m') = Ok a' ->
  exists m, nth_error (cells a) j = Some (MS m) /\
    nth_error (hs a') k = Some (HLink j (mphases m')) /\
    nth_error (cells a') j = Some (MS (mkm (mpkg m) (mphases m') (mrows m'))) /\
    (forall q, q <> k -> nth_error (hs a') q = nth_error (hs a) q) /\
    (forall j', j' <> j -> nth_error (cells a') j' = nth_error (cells a) j').
Proof.
  intros NH WB. pose proof (fun q N => write_back_hs_other _ _ _ _ q WB N) as HO.
  unfold write_back in WB. rewrite NH in WB.
  destruct (gets (cells a) j) as [[c|m]|] eqn:G; simpl in WB; try discriminate.
  assert (j < length (cells a))%nat as L by (eapply gets_lt; eauto).
  assert (k < length (hs a))%nat as LK by (apply nth_error_Some; congruence).
  inversion WB; subst a'. simpl. exists m. split; [apply gets_ok; exact G|].
  split; [apply nth_error_upd_same; auto|]. split; [apply nth_error_upd_same; auto|].
  split; [exact HO|]. intros j' N. apply nth_error_upd_other. auto.
Qed.
